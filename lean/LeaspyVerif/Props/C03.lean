/-
C03 — every sampler step is a Metropolis–Hastings transition for the documented target.
Property theorems only (helper lemmas are private or in `Lemmas/Blocks.lean`).
Models: `Model/Sampler.lean` (one sampling step), `Model/Blocks.lean` (which blocks a sweep visits).

What is proved (exact arithmetic, all inputs): support and values of the proposal, the number of
draws consumed (whatever the acceptance ratios are), the decision rule of every block / individual
as a function of its own `(ΔA, ΔR, u, tinv)`, the equivalence of `u < α` with the usual
`u < min 1 α`, `α` = ratio of the tempered target densities, detailed balance of the resulting
acceptance function, symmetry of the proposal, monotonicity in the inverse temperature; and, for every
shape and sampler kind, that the blocks of a sweep partition the (unmasked) coordinates of the variable,
what each kind's blocks are, how many normals / uniforms a sweep draws, and that shuffling changes none
of this (section "which blocks a sweep visits").
Not claimed: ergodicity, and the measure-theoretic statement "accepted with probability min(1,α)"
(the uniform / normal laws of the draws are not modelled).
-/
import LeaspyVerif.Model.Sampler
import LeaspyVerif.Model.Blocks
import LeaspyVerif.Lemmas.Blocks
import Mathlib.Analysis.SpecialFunctions.Exp
import Mathlib.Tactic.Ring
import Mathlib.Tactic.Linarith

namespace LeaspyVerif.C03
open LeaspyVerif.Sampler LeaspyVerif.Blocks

/-! ### proposal -/

private theorem lookup_zip_none {α} (block : List Nat) (z : List α) (i : Nat) (hb : i ∉ block) :
    (block.zip z).lookup i = none := by
  induction block generalizing z with
  | nil => simp
  | cons b bs ih =>
    cases z with
    | nil => simp
    | cons y ys =>
      have h1 : i ≠ b := fun h => hb (h ▸ List.mem_cons_self)
      have h2 : i ∉ bs := fun h => hb (List.mem_cons_of_mem _ h)
      have : (i == b) = false := by simpa using h1
      simp [List.lookup, this, ih ys h2]

private theorem lookup_zip_nodup {α} (block : List Nat) (z : List α) (k : Nat)
    (hnd : block.Nodup) (hk : k < block.length) (hz : k < z.length) :
    (block.zip z).lookup block[k] = some z[k] := by
  induction block generalizing z k with
  | nil => simp at hk
  | cons b bs ih =>
    cases z with
    | nil => simp at hz
    | cons y ys =>
      cases k with
      | zero => simp
      | succ k =>
        have hk' : k < bs.length := by simpa using hk
        have hz' : k < ys.length := by simpa using hz
        have hnd' := List.nodup_cons.mp hnd
        have hne : bs[k] ≠ b := fun h => hnd'.1 (h ▸ List.getElem_mem hk')
        have : (bs[k] == b) = false := by simpa using hne
        simp [List.lookup, this, ih ys k hnd'.2 hk' hz']

/-- The proposed change has the shape of the variable. -/
theorem proposal_length {α} [OfNat α 0] [Mul α] (n : Nat) (block : List Nat) (std : α) (z : List α) :
    (proposal n block std z).length = n := by
  simp [proposal]

/-- Support: outside the targeted block the proposed change is exactly zero
    (one coordinate for Gibbs, one row for FastGibbs, everything for Metropolis–Hastings). -/
theorem proposal_support {α} [OfNat α 0] [Mul α] (n : Nat) (block : List Nat) (std : α) (z : List α)
    (i : Nat) (hi : i < n) (hb : i ∉ block) :
    (proposal n block std z)[i]? = some 0 := by
  simp [proposal, List.getElem?_map, List.getElem?_range hi, lookup_zip_none block z i hb]

/-- On the block the change is `std * z_k` for the k-th normal draw handed to the block. -/
theorem proposal_on_block {α} [OfNat α 0] [Mul α] (n : Nat) (block : List Nat) (std : α) (z : List α)
    (k : Nat) (hnd : block.Nodup) (hk : k < block.length) (hz : k < z.length) (hn : block[k] < n) :
    (proposal n block std z)[block[k]]? = some (std * z[k]) := by
  simp [proposal, List.getElem?_map, List.getElem?_range hn, lookup_zip_nodup block z k hnd hk hz]

private theorem lookup_zip_map {α} (f : α → α) (block : List Nat) (z : List α) (i : Nat) :
    (block.zip (z.map f)).lookup i = ((block.zip z).lookup i).map f := by
  induction block generalizing z with
  | nil => simp
  | cons b bs ih =>
    cases z with
    | nil => simp
    | cons y ys =>
      by_cases h : (i == b) = true
      · simp [List.lookup, h]
      · have h' : (i == b) = false := by simpa using h
        simp [List.lookup, h', ih ys]

/-- Symmetry of the proposal: the reverse move is obtained from the opposite normal draws (which
    have the same density), so the Hastings correction of the proposal is 1. -/
theorem proposal_neg (n : Nat) (block : List Nat) (std : ℝ) (z : List ℝ) :
    proposal n block std (z.map Neg.neg) = (proposal n block std z).map Neg.neg := by
  unfold proposal
  rw [List.map_map]
  apply List.map_congr_left
  intro i _
  simp only [Function.comp, lookup_zip_map]
  cases (block.zip z).lookup i <;> simp

/-! ### draws consumed -/

/-- Population samplers: a sweep over blocks `bs` consumes exactly `Σ |block|` normal draws and
    exactly one uniform per block, whatever the acceptance ratios are (the formula does not mention
    `dE`, `exp`, `tinv`): a uniform is drawn for every decision. -/
theorem draws_consumed {α β} [OfNat α 0] [Mul α] [Add α] [Add β] [Mul β] [Neg β] [LT β] [DecidableLT β]
    (exp : β → β) (tinv : β) (bs : List (Block α β)) (cur zs : List α) (us : List β) (r : PopOut α β)
    (h : popSample exp tinv bs cur zs us = some r) :
    r.zs = zs.drop (bs.map (·.idx.length)).sum ∧ r.us = us.drop bs.length ∧
      r.acc.length = bs.length ∧ r.props.length = bs.length ∧
      (bs.map (·.idx.length)).sum ≤ zs.length ∧ bs.length ≤ us.length := by
  induction bs generalizing cur zs us r with
  | nil =>
    simp only [popSample, Option.some.injEq] at h
    subst h
    simp
  | cons b bs ih =>
    unfold popSample at h
    split at h
    · exact absurd h (by simp)
    · rename_i hlen
      cases us with
      | nil => simp at h
      | cons u us' =>
        simp only at h
        split at h
        · exact absurd h (by simp)
        · rename_i r' hr'
          simp only [Option.some.injEq] at h
          subst h
          obtain ⟨h1, h2, h3, h4, h5, h6⟩ := ih _ _ _ _ hr'
          simp only [List.length_drop] at h5
          refine ⟨?_, ?_, ?_, ?_, ?_, ?_⟩
          · simp [h1, List.drop_drop]
          · simp [h2]
          · simp [h3]
          · simp [h4]
          · simp only [List.map_cons, List.sum_cons]; omega
          · simp only [List.length_cons]; omega

/-- Conversely the sweep succeeds as soon as enough draws are provided. -/
theorem draws_sufficient {α β} [OfNat α 0] [Mul α] [Add α] [Add β] [Mul β] [Neg β] [LT β] [DecidableLT β]
    (exp : β → β) (tinv : β) (bs : List (Block α β)) (cur zs : List α) (us : List β)
    (hz : (bs.map (·.idx.length)).sum ≤ zs.length) (hu : bs.length ≤ us.length) :
    (popSample exp tinv bs cur zs us).isSome = true := by
  induction bs generalizing cur zs us with
  | nil => simp [popSample]
  | cons b bs ih =>
    simp only [List.map_cons, List.sum_cons] at hz
    cases us with
    | nil => simp at hu
    | cons u us' =>
      unfold popSample
      have h1 : ¬ zs.length < b.idx.length := by omega
      simp only [h1, if_false]
      have := ih (if accept exp u (D tinv (b.dE cur (addL cur (proposal cur.length b.idx b.std (zs.take b.idx.length)))).1
                  (b.dE cur (addL cur (proposal cur.length b.idx b.std (zs.take b.idx.length)))).2)
                then addL cur (proposal cur.length b.idx b.std (zs.take b.idx.length)) else cur)
                (zs.drop b.idx.length) us' (by simp only [List.length_drop]; omega) (by simpa using hu)
      cases hq : popSample exp tinv bs _ (zs.drop b.idx.length) us' with
      | none => simp [hq] at this
      | some r => simp

/-- The decision taken on the first block of a sweep: the proposal is kept iff the uniform drawn for
    this block is below `exp(-(ΔR·tinv + ΔA))`, where ΔA, ΔR are read between the current value and
    `current + proposal on the block`; the sweep continues from `if accepted then proposed else current`. -/
theorem pop_first_decision {α β} [OfNat α 0] [Mul α] [Add α] [Add β] [Mul β] [Neg β] [LT β] [DecidableLT β]
    (exp : β → β) (tinv : β) (b : Block α β) (bs : List (Block α β)) (cur zs : List α) (u : β) (us : List β)
    (r : PopOut α β) (h : popSample exp tinv (b :: bs) cur zs (u :: us) = some r) :
    let prop := addL cur (proposal cur.length b.idx b.std (zs.take b.idx.length))
    let a := accept exp u (D tinv (b.dE cur prop).1 (b.dE cur prop).2)
    r.acc.head? = some a ∧ r.props.head? = some prop ∧
      ∃ r', popSample exp tinv bs (if a then prop else cur) (zs.drop b.idx.length) us = some r' ∧
        r.value = r'.value ∧ r.acc.tail = r'.acc := by
  unfold popSample at h
  split at h
  · exact absurd h (by simp)
  · simp only at h
    split at h
    · exact absurd h (by simp)
    · rename_i r' hr'
      simp only [Option.some.injEq] at h
      subst h
      exact ⟨rfl, rfl, r', hr', rfl, rfl⟩

private theorem chunks_length {α} (d n : Nat) (zs : List α) : (chunks d n zs).length = n := by
  induction n generalizing zs with
  | zero => simp [chunks]
  | succ n ih => simp [chunks, ih]

private theorem chunks_get {α} (d n : Nat) (zs : List α) (j : Nat) (hj : j < n) :
    (chunks d n zs)[j]? = some ((zs.drop (j * d)).take d) := by
  induction n generalizing zs j with
  | zero => omega
  | succ n ih =>
    cases j with
    | zero => simp [chunks]
    | succ j =>
      simp only [chunks, List.getElem?_cons_succ]
      rw [ih (zs.drop d) j (by omega), List.drop_drop]
      congr 3
      rw [Nat.succ_mul]; omega

/-- Individual sampler: `n·d` normals and exactly `n` uniforms are consumed for `n` individuals
    with `d` coordinates each, independently of every acceptance ratio. -/
theorem draws_consumed_ind {α β} [Mul α] [Add α] [Add β] [Mul β] [Neg β] [LT β] [DecidableLT β]
    (exp : β → β) (tinv : β) (d : Nat) (inds : List (Ind α β)) (zs : List α) (us : List β)
    (r : IndOut α β) (h : indSample exp tinv d inds zs us = some r) :
    r.zs = zs.drop (inds.length * d) ∧ r.us = us.drop inds.length ∧ r.rows.length = inds.length ∧
      inds.length * d ≤ zs.length ∧ inds.length ≤ us.length := by
  unfold indSample at h
  split at h
  · exact absurd h (by simp)
  · rename_i hc
    simp only [Option.some.injEq] at h
    subst h
    have hc' : inds.length * d ≤ zs.length ∧ inds.length ≤ us.length := by omega
    refine ⟨rfl, rfl, ?_, hc'.1, hc'.2⟩
    simp [List.length_zipWith, chunks_length]
    omega

/-- Decision locality: the new row and the decision of individual `j` are `indOne` of its own record
    (own current row, own `std`, own ΔA/ΔR reader), its own `d` normal draws (by position) and its
    own uniform draw — nothing of any other individual enters. -/
theorem decision_local {α β} [Mul α] [Add α] [Add β] [Mul β] [Neg β] [LT β] [DecidableLT β]
    (exp : β → β) (tinv : β) (d : Nat) (inds : List (Ind α β)) (zs : List α) (us : List β)
    (r : IndOut α β) (h : indSample exp tinv d inds zs us = some r) (j : Nat) (hj : j < inds.length) :
    ∃ u, us[j]? = some u ∧
      r.rows[j]? = some (indOne exp tinv inds[j] ((zs.drop (j * d)).take d) u) := by
  unfold indSample at h
  split at h
  · exact absurd h (by simp)
  · rename_i hc
    simp only [Option.some.injEq] at h
    subst h
    have hu : j < us.length := by omega
    refine ⟨us[j], by simp [hu], ?_⟩
    simp only [List.getElem?_zipWith, List.getElem?_take]
    have h1 : (inds.zip (chunks d inds.length zs))[j]? = some (inds[j], (zs.drop (j * d)).take d) := by
      rw [List.getElem?_zip_eq_some]
      exact ⟨by simp [hj], chunks_get d inds.length zs j hj⟩
    simp [h1, hj, hu]

/-- … and that decision is `u_j < exp(-(ΔR_j·tinv + ΔA_j))`: a function of `(ΔA_j, ΔR_j, u_j, tinv)` only. -/
theorem decision_formula {α β} [Mul α] [Add α] [Add β] [Mul β] [Neg β] [LT β] [DecidableLT β]
    (exp : β → β) (tinv : β) (p : Ind α β) (z : List α) (u : β) :
    let prop := addL p.cur (z.map (p.std * ·))
    (indOne exp tinv p z u).2 = accept exp u (D tinv (p.dE p.cur prop).1 (p.dE p.cur prop).2) ∧
    (indOne exp tinv p z u).1 = if (indOne exp tinv p z u).2 then prop else p.cur := by
  intro prop
  exact ⟨rfl, rfl⟩

/-! ### the acceptance rule over the reals -/

/-- The code's test `rand < alpha` with `alpha = exp(-D)` (never clipped to 1). -/
theorem accept_real (u d : ℝ) : accept Real.exp u d = true ↔ u < Real.exp (-d) := by
  simp [accept, acceptAlpha]

/-- For a uniform draw in `[0,1)`, `u < α` is the Metropolis test `u < min 1 α`. -/
theorem accept_iff_min (u a : ℝ) (_h0 : 0 ≤ u) (h1 : u < 1) : (u < a ↔ u < min 1 a) := by
  rw [lt_min_iff]
  exact ⟨fun h => ⟨h1, h⟩, fun h => h.2⟩

/-- `alpha` is the ratio of the tempered target densities `π = exp(-(A + tinv·R))` at the proposed
    and at the current value. -/
theorem alpha_is_target_ratio {S : Type} (A R : S → ℝ) (tinv : ℝ) (x y : S) :
    Real.exp (-(D tinv (A y - A x) (R y - R x)))
      = Real.exp (-(A y + tinv * R y)) / Real.exp (-(A x + tinv * R x)) := by
  rw [← Real.exp_sub]
  congr 1
  unfold D
  ring

/-- Detailed balance of the acceptance function `min 1 (π y / π x)` for `π = exp(-(A + tinv·R))`
    (with the symmetric proposal above this is reversibility of each block update w.r.t. `π`). -/
theorem detailed_balance {S : Type} (A R : S → ℝ) (tinv : ℝ) (x y : S) :
    let π : S → ℝ := fun s => Real.exp (-(A s + tinv * R s))
    π x * min 1 (π y / π x) = π y * min 1 (π x / π y) := by
  intro π
  have hx : 0 < π x := Real.exp_pos _
  have hy : 0 < π y := Real.exp_pos _
  rw [mul_min_of_nonneg _ _ hx.le, mul_min_of_nonneg _ _ hy.le, mul_one, mul_one,
    mul_div_cancel₀ _ hx.ne', mul_div_cancel₀ _ hy.ne', min_comm]

/-- Tempering: when the proposal worsens the regularity (ΔR ≥ 0), a smaller inverse temperature
    accepts at least as often — for the same draw, acceptance at `tinv'` implies acceptance at
    `tinv ≤ tinv'`; the attachment change is not tempered. -/
theorem tempering_monotone (u dA dR tinv tinv' : ℝ) (hR : 0 ≤ dR) (ht : tinv ≤ tinv')
    (h : accept Real.exp u (D tinv' dA dR) = true) : accept Real.exp u (D tinv dA dR) = true := by
  rw [accept_real] at h ⊢
  refine lt_of_lt_of_le h (Real.exp_le_exp.mpr ?_)
  unfold D
  nlinarith [mul_le_mul_of_nonneg_left ht hR]

/-- At `tinv = 1` the exponent is the plain change of the negative log joint density. -/
theorem D_at_one (dA dR : ℝ) : D 1 dA dR = dR + dA := by
  unfold D; ring

/-! ### which blocks a sweep visits (`Model/Blocks.lean`)

`blocksOf k s mask` is the list the sampling loop runs over, before shuffling.  All statements are
for every shape `s` (any number of axes, any extents including 0 and 1), by induction on the
shape (`Lemmas/Blocks.lean`), not by enumeration. -/

/-- The constructor accepts exactly the 1-D and 2-D shapes without a mask; the three refusals
    are raised in this order. -/
theorem construct_spec (k : Kind) (s : Shape) (mask : Option (List Bool)) :
    (construct k s mask = .ok () ↔ (s.length = 1 ∨ s.length = 2) ∧ mask = none) ∧
    (construct k s mask = .error .index ↔ k = .fastGibbs ∧ s = []) ∧
    (construct k s mask = .error .notImplemented ↔ (s.length = 1 ∨ s.length = 2) ∧ mask.isSome) := by
  unfold construct
  cases mask <;> cases k <;> (split_ifs <;> simp_all <;> try omega)

/-- PARTITION, canonical form: in iterator order the blocks, put end to end, are
    `0, 1, …, numel s - 1` — every coordinate of the variable exactly once, nothing else. -/
theorem blocks_cover (k : Kind) (s : Shape) :
    ((blocksOf k s).map (·.coords)).flatten = List.range (numel s) := by
  have := perturbed_flatten k s none
  have h1 : (blocksOf k s none).map Blk.perturbed = (blocksOf k s none).map (·.coords) := by
    apply List.map_congr_left
    intro b hb
    simp only [blocksOf, List.mem_map] at hb
    obtain ⟨idx, _, rfl⟩ := hb
    rw [perturbed_blkOf]
    cases k <;> simp [shouldMask]
  rw [h1] at this
  rw [this]
  exact List.filter_eq_self.mpr (fun _ _ => rfl)

/-- PARTITION with a mask (`unmasked none i = true`): the coordinates that can move, block after
    block, are the unmasked coordinates, each once. -/
theorem blocks_cover_masked (k : Kind) (s : Shape) (mask : Option (List Bool)) :
    ((blocksOf k s mask).map Blk.perturbed).flatten = (List.range (numel s)).filter (unmasked mask) :=
  perturbed_flatten k s mask

private theorem perturbed_nodup (k : Kind) (s : Shape) (mask : Option (List Bool)) :
    ((blocksOf k s mask).map Blk.perturbed).flatten.Nodup := by
  rw [perturbed_flatten]
  exact List.nodup_range.filter _

/-- Every unmasked coordinate of the variable is moved by exactly one block of the sweep … -/
theorem blocks_partition (k : Kind) (s : Shape) (mask : Option (List Bool)) (i : Nat)
    (hi : i < numel s) (hu : unmasked mask i = true) :
    ∃ j, ∃ hj : j < (blocksOf k s mask).length, i ∈ (blocksOf k s mask)[j].perturbed ∧
      ∀ j' (hj' : j' < (blocksOf k s mask).length), i ∈ (blocksOf k s mask)[j'].perturbed → j' = j := by
  have hmem : i ∈ ((blocksOf k s mask).map Blk.perturbed).flatten := by
    rw [perturbed_flatten]
    exact List.mem_filter.mpr ⟨List.mem_range.mpr hi, hu⟩
  obtain ⟨l, hl, hil⟩ := List.mem_flatten.mp hmem
  obtain ⟨j, hj, rfl⟩ := List.getElem_of_mem hl
  have hj0 : j < (blocksOf k s mask).length := by simpa using hj
  refine ⟨j, hj0, by simpa using hil, ?_⟩
  intro j' hj' hi'
  exact unique_of_nodup_flatten _ (perturbed_nodup k s mask) i j' j (by simpa using hj') hj
    (by simpa using hi') hil

/-- … and a block moves nothing else: only coordinates of the variable, never a masked one. -/
theorem blocks_no_stray (k : Kind) (s : Shape) (mask : Option (List Bool)) (b : Blk)
    (hb : b ∈ blocksOf k s mask) (i : Nat) (hi : i ∈ b.perturbed) :
    i < numel s ∧ unmasked mask i = true := by
  have hmem : i ∈ ((blocksOf k s mask).map Blk.perturbed).flatten :=
    List.mem_flatten.mpr ⟨b.perturbed, List.mem_map.mpr ⟨b, hb, rfl⟩, hi⟩
  rw [perturbed_flatten] at hmem
  obtain ⟨h1, h2⟩ := List.mem_filter.mp hmem
  exact ⟨List.mem_range.mp h1, h2⟩

/-- No block is empty unless the variable is (0 entries: an extent 0). -/
theorem blocks_nonempty (k : Kind) (s : Shape) (mask : Option (List Bool)) (h : 0 < numel s)
    (b : Blk) (hb : b ∈ blocksOf k s mask) : b.coords ≠ [] := by
  by_cases hg : k = .gibbs ∧ mask.isSome
  · obtain ⟨rfl, hm⟩ := hg
    obtain ⟨m, rfl⟩ := Option.isSome_iff_exists.mp hm
    have hc : b.coords ∈ (blocksOf .gibbs s (some m)).map (·.coords) := List.mem_map.mpr ⟨b, hb, rfl⟩
    rw [coords_blocks_gibbs_masked] at hc
    obtain ⟨i, _, hi⟩ := List.mem_map.mp hc
    rw [← hi]; simp
  · have hm : k = .gibbs → mask = none := by
      intro hk
      cases mask with
      | none => rfl
      | some m => exact absurd ⟨hk, rfl⟩ hg
    have hc : b.coords ∈ (blocksOf k s mask).map (·.coords) := List.mem_map.mpr ⟨b, hb, rfl⟩
    rw [coords_blocks_generic k s mask hm] at hc
    obtain ⟨p, _, hp⟩ := List.mem_map.mp hc
    have hpos : 0 < numel (s.drop (lead k s)) := by
      have := numel_take_drop (lead k s) s
      rcases Nat.eq_zero_or_pos (numel (s.drop (lead k s))) with h0 | h0
      · rw [h0, Nat.mul_zero] at this; omega
      · exact h0
    intro hnil
    rw [hnil] at hp
    have := congrArg List.length hp
    simp at this
    omega

/-- Shape of the normal draw of every block: the trailing axes `shape[len(idx):]`, and the block
    consumes all of it — also when some of its coordinates are masked. -/
theorem blocks_draw_shape (k : Kind) (s : Shape) (mask : Option (List Bool)) (b : Blk)
    (hb : b ∈ blocksOf k s mask) : b.normals = numel b.zshape := by
  simp only [blocksOf, List.mem_map] at hb
  obtain ⟨idx, _, rfl⟩ := hb
  simp [Blk.normals, blkOf, ndindex_length_eq]

/-- Gibbs: one block per coordinate, a singleton, with its own entry of `std` (same shape as the
    variable); scalar draws. -/
theorem gibbs_blocks_singletons (s : Shape) :
    (blocksOf .gibbs s).map (fun b => (b.coords, b.stdIdx)) = (List.range (numel s)).map fun i => ([i], i) := by
  have h1 := coords_blocks_generic .gibbs s none (fun _ => rfl)
  have h2 := stdIdx_blocks_generic .gibbs s none (fun _ => rfl)
  rw [stdShape_gibbs] at h1 h2
  simp only [lead, List.drop_length, numel, Nat.mul_one, List.range_one, List.map_cons, List.map_nil,
    Nat.add_zero] at h1
  apply List.ext_getElem?
  intro j
  have e1 := congrArg (·[j]?) h1
  have e2 := congrArg (·[j]?) h2
  simp only [List.getElem?_map] at e1 e2 ⊢
  cases hb : (blocksOf .gibbs s)[j]? with
  | none => simp [hb] at e2 ⊢; omega
  | some b =>
    simp only [hb, Option.map_some] at e1 e2 ⊢
    cases hr : (List.range (numel s))[j]? with
    | none => simp [hr] at e2
    | some i =>
      simp only [hr, Option.map_some, Option.some.injEq] at e1 e2 ⊢
      rw [e1, e2]

/-- Metropolis-Hastings: a single block, the whole variable, one scalar `std`. -/
theorem mh_one_block (s : Shape) :
    (blocksOf .mh s).map (fun b => (b.coords, b.stdIdx, b.zshape)) = [(List.range (numel s), 0, s)] := by
  simp [blocksOf, iterIndices, stdShape, lead, ndindex, blkOf, flat, ndindex_flat]

/-- FastGibbs: the blocks are the rows (first axis); row `i` is `[i·c, …, i·c + c - 1]` with `c` the
    number of entries of one row, it uses `std[i]` (`std` has one entry per row). -/
theorem fastGibbs_blocks_rows (r : Nat) (rest : Shape) :
    (blocksOf .fastGibbs (r :: rest)).map (fun b => (b.coords, b.stdIdx))
      = (List.range r).map fun i => ((List.range (numel rest)).map (i * numel rest + ·), i) := by
  have h1 := coords_blocks_generic .fastGibbs (r :: rest) none (by simp)
  have h2 := stdIdx_blocks_generic .fastGibbs (r :: rest) none (by simp)
  simp only [stdShape, lead, List.take_succ_cons, List.take_zero, List.drop_succ_cons, List.drop_zero,
    numel, Nat.mul_one] at h1 h2
  apply List.ext_getElem?
  intro j
  have e1 := congrArg (·[j]?) h1
  have e2 := congrArg (·[j]?) h2
  simp only [List.getElem?_map] at e1 e2 ⊢
  cases hb : (blocksOf .fastGibbs (r :: rest))[j]? with
  | none => simp [hb] at e2 ⊢; omega
  | some b =>
    simp only [hb, Option.map_some] at e1 e2 ⊢
    cases hr : (List.range r)[j]? with
    | none => simp [hr] at e2
    | some i =>
      simp only [hr, Option.map_some, Option.some.injEq] at e1 e2 ⊢
      rw [e1, e2]

private theorem sum_const_map (P m : Nat) (f : Nat → List Nat) (hf : ∀ p, (f p).length = m) :
    (((List.range P).map f).map List.length).sum = P * m := by
  induction P with
  | zero => simp
  | succ P ih =>
    rw [List.range_succ, List.map_append, List.map_append, List.sum_append, ih]
    simp [hf, Nat.succ_mul]

private theorem sweepDraws_generic (k : Kind) (s : Shape) (mask : Option (List Bool))
    (hm : k = .gibbs → mask = none) :
    sweepDraws (blocksOf k s mask) = (numel s, numel (stdShape k s)) := by
  have h1 := coords_blocks_generic k s mask hm
  have h2 := congrArg List.length (stdIdx_blocks_generic k s mask hm)
  simp only [List.length_map, List.length_range] at h2
  have h3 : ((blocksOf k s mask).map Blk.normals).sum = numel s := by
    have : (blocksOf k s mask).map Blk.normals = ((blocksOf k s mask).map (·.coords)).map List.length := by
      rw [List.map_map]; rfl
    rw [this, h1, sum_const_map _ (numel (s.drop (lead k s))) _ (by intro p; simp)]
    exact numel_take_drop (lead k s) s
  simp [sweepDraws, h2, h3]

/-- Draws of one Gibbs sweep: `numel` normals, `numel` uniforms (= number of blocks). -/
theorem sweep_counts_gibbs (s : Shape) : sweepDraws (blocksOf .gibbs s) = (numel s, numel s) := by
  rw [sweepDraws_generic .gibbs s none (fun _ => rfl), stdShape_gibbs]

/-- Draws of one FastGibbs sweep: `numel` normals, one uniform per row. -/
theorem sweep_counts_fastGibbs (r : Nat) (rest : Shape) :
    sweepDraws (blocksOf .fastGibbs (r :: rest)) = (r * numel rest, r) := by
  rw [sweepDraws_generic .fastGibbs (r :: rest) none (by simp)]
  simp [stdShape, lead, numel]

/-- Draws of one Metropolis-Hastings sweep: `numel` normals, a single uniform. -/
theorem sweep_counts_mh (s : Shape) : sweepDraws (blocksOf .mh s) = (numel s, 1) := by
  rw [sweepDraws_generic .mh s none (by simp)]
  simp [stdShape, lead, numel]

/-- With a mask: FastGibbs and Metropolis-Hastings draw exactly as without (the normals of the
    masked coordinates are drawn and multiplied by 0; a fully masked row still takes a decision);
    the full Gibbs sampler skips the masked coordinates: one normal and one uniform per unmasked one. -/
theorem sweep_counts_masked (k : Kind) (s : Shape) (m : List Bool) :
    sweepDraws (blocksOf k s (some m)) =
      if k = .gibbs then (((List.range (numel s)).filter (maskAt m)).length,
                          ((List.range (numel s)).filter (maskAt m)).length)
      else sweepDraws (blocksOf k s) := by
  by_cases hk : k = .gibbs
  · subst hk
    have h1 := coords_blocks_gibbs_masked s m
    have hl := congrArg List.length h1
    simp only [List.length_map] at hl
    have hn : (blocksOf .gibbs s (some m)).map Blk.normals
        = ((blocksOf .gibbs s (some m)).map (·.coords)).map List.length := by
      rw [List.map_map]; rfl
    simp only [sweepDraws, if_true, hn, h1, hl, List.map_map]
    congr 1
    generalize (List.range (numel s)).filter (maskAt m) = l
    induction l with
    | nil => rfl
    | cons a l ih => simp only [List.map_cons, List.sum_cons, ih, Function.comp, List.length_cons, List.length_nil]; omega
  · simp only [hk, if_false]
    rw [sweepDraws_generic k s (some m) (fun h => absurd h hk), sweepDraws_generic k s none (fun h => absurd h hk)]

/-- Shuffling: visiting the blocks in the order `σ` (any permutation of the positions, the result
    of `random.shuffle`) yields the same blocks, each once — the multiset of blocks is unchanged. -/
theorem shuffle_preserves_blocks (k : Kind) (s : Shape) (mask : Option (List Bool)) (σ : List Nat)
    (h : σ.Perm (List.range (blocksOf k s mask).length)) :
    (reorder σ (blocksOf k s mask)).Perm (blocksOf k s mask) :=
  reorder_perm σ _ h

/-- … hence the same number of normals and uniforms whatever the order. -/
theorem sweepDraws_perm (bs bs' : List Blk) (h : bs'.Perm bs) : sweepDraws bs' = sweepDraws bs := by
  simp [sweepDraws, h.length_eq, (h.map Blk.normals).sum_nat]

/-- A sweep in ANY order moves every unmasked coordinate of the variable exactly once and nothing
    else (multiplicity of `i` among the coordinates moved during the sweep). -/
theorem sweep_any_order_once (k : Kind) (s : Shape) (mask : Option (List Bool)) (bs' : List Blk)
    (h : bs'.Perm (blocksOf k s mask)) (i : Nat) :
    (bs'.flatMap Blk.perturbed).count i = if i < numel s ∧ unmasked mask i = true then 1 else 0 := by
  have hp : (bs'.flatMap Blk.perturbed).Perm ((List.range (numel s)).filter (unmasked mask)) := by
    rw [← perturbed_flatten k s mask, List.flatMap_def]
    exact (h.map _).flatten
  rw [hp.count_eq]
  have hnd : ((List.range (numel s)).filter (unmasked mask)).Nodup := List.nodup_range.filter _
  by_cases hc : i < numel s ∧ unmasked mask i = true
  · rw [if_pos hc]
    exact List.count_eq_one_of_mem hnd (List.mem_filter.mpr ⟨List.mem_range.mpr hc.1, hc.2⟩)
  · rw [if_neg hc]
    apply List.count_eq_zero_of_not_mem
    intro hmem
    obtain ⟨h1, h2⟩ := List.mem_filter.mp hmem
    exact hc ⟨List.mem_range.mp h1, h2⟩

/-- in particular for the order produced by `_get_shuffled_iterator_indices` -/
theorem shuffled_sweep_once (k : Kind) (s : Shape) (mask : Option (List Bool)) (σ : List Nat)
    (h : σ.Perm (List.range (blocksOf k s mask).length)) (i : Nat) :
    ((reorder σ (blocksOf k s mask)).flatMap Blk.perturbed).count i
      = if i < numel s ∧ unmasked mask i = true then 1 else 0 :=
  sweep_any_order_once k s mask _ (reorder_perm σ _ h) i

/-! #### the change proposed for a block -/

/-- Without a mask factor the change of a block is the `proposal` of `Model/Sampler.lean` on the
    block's coordinates (the object of `proposal_support`, `proposal_on_block`, `proposal_neg`). -/
theorem blockChange_unmasked {α} [OfNat α 0] [OfNat α 1] [Mul α] (n : Nat) (b : Blk) (std : α) (z : List α)
    (h : b.keep = none) : blockChange n b std z = proposal n b.coords std z := by
  simp only [blockChange, proposal, h]
  rfl

private theorem lookup_zip_keep (coords : List Nat) (zk : List (ℝ × Bool)) (i : Nat) (zi : ℝ) (kk : Bool)
    (hl : (coords.zip zk).lookup i = some (zi, kk))
    (hn : i ∉ (coords.zip (zk.map (·.2))).filterMap (fun ck => if ck.2 then some ck.1 else none)) :
    kk = false := by
  induction coords generalizing zk with
  | nil => simp at hl
  | cons c cs ih =>
    cases zk with
    | nil => simp at hl
    | cons y ys =>
      by_cases hic : (i == c) = true
      · simp only [List.zip_cons_cons, List.lookup, hic, Option.some.injEq] at hl
        have hic' : i = c := by simpa using hic
        subst hl
        cases kk with
        | false => rfl
        | true =>
          exfalso
          apply hn
          simp [hic']
      · have hic' : (i == c) = false := by simpa using hic
        simp only [List.zip_cons_cons, List.lookup, hic'] at hl
        apply ih ys hl
        intro hmem
        apply hn
        simp only [List.map_cons, List.zip_cons_cons, List.filterMap_cons]
        split
        · exact hmem
        · exact List.mem_cons_of_mem _ hmem

/-- Support of the change of a block, masked or not: zero at every coordinate the block does not
    move — the coordinates of the other blocks and the masked coordinates of its own (exact over the
    reals; in floating point the product with 0 is ±0 for a finite draw). -/
theorem blockChange_support (n : Nat) (b : Blk) (std : ℝ) (z : List ℝ) (i : Nat) (hi : i < n)
    (hb : i ∉ b.perturbed) : (blockChange n b std z)[i]? = some 0 := by
  cases hk : b.keep with
  | none =>
    rw [blockChange_unmasked n b std z hk]
    exact proposal_support n b.coords std z i hi (by simpa [Blk.perturbed, hk] using hb)
  | some ks =>
    simp only [blockChange, hk, List.getElem?_map, List.getElem?_range hi, Option.map_some]
    cases hl : (b.coords.zip (z.zip ks)).lookup i with
    | none => rfl
    | some v =>
      obtain ⟨zi, kk⟩ := v
      have : kk = false := by
        apply lookup_zip_keep b.coords (z.zip ks) i zi kk hl
        simp only [Blk.perturbed, hk] at hb
        intro hmem
        apply hb
        -- the mask entries paired with the coordinates are the same with or without the draws
        have hz : ∀ (cs : List Nat) (zs : List ℝ) (ks : List Bool),
            i ∈ (cs.zip ((zs.zip ks).map (·.2))).filterMap (fun ck => if ck.2 then some ck.1 else none) →
            i ∈ (cs.zip ks).filterMap (fun ck => if ck.2 then some ck.1 else none) := by
          intro cs
          induction cs with
          | nil => intro zs ks h; simp at h
          | cons c cs ih =>
            intro zs ks h
            cases zs with
            | nil => simp at h
            | cons y ys =>
              cases ks with
              | nil => simp at h
              | cons q qs =>
                simp only [List.zip_cons_cons, List.map_cons, List.filterMap_cons] at h ⊢
                cases q with
                | false => simpa using ih ys qs (by simpa using h)
                | true =>
                  simp only [if_true, List.mem_cons] at h ⊢
                  rcases h with h | h
                  · exact Or.inl h
                  · exact Or.inr (ih ys qs h)
        exact hz _ _ _ hmem
      subst this
      simp

/-! #### link with the sweep of `Model/Sampler.lean` -/

/-- `proposal_support` instantiated with the blocks of a sampler: the proposal made for block `j`
    is exactly zero on every coordinate of every other block `j'` of the same sweep. -/
theorem proposal_support_blocks {α} [OfNat α 0] [Mul α] (k : Kind) (s : Shape) (std : α) (z : List α)
    (j j' : Nat) (hj : j < (blocksOf k s).length) (hj' : j' < (blocksOf k s).length) (hne : j ≠ j')
    (i : Nat) (hi : i ∈ (blocksOf k s)[j'].coords) :
    (proposal (numel s) (blocksOf k s)[j].coords std z)[i]? = some 0 := by
  have hnd : ((blocksOf k s).map (·.coords)).flatten.Nodup := by
    rw [blocks_cover]; exact List.nodup_range
  have hlt : i < numel s := by
    have : i ∈ ((blocksOf k s).map (·.coords)).flatten :=
      List.mem_flatten.mpr ⟨_, List.mem_map.mpr ⟨_, List.getElem_mem hj', rfl⟩, hi⟩
    rw [blocks_cover] at this
    exact List.mem_range.mp this
  apply proposal_support _ _ _ _ _ hlt
  intro hmem
  exact hne (unique_of_nodup_flatten _ hnd i j j' (by simpa using hj) (by simpa using hj')
    (by simpa using hmem) (by simpa using hi))

/-- `draws_consumed` instantiated with the blocks of a sampler: a completed sweep of a variable of
    shape `s`, in any order of the blocks, has consumed exactly `numel s` normals and one uniform
    per block — `numel s` (Gibbs), the number of rows (FastGibbs), 1 (Metropolis-Hastings) by
    `sweep_counts_*` — and has taken that many decisions, whatever `std`, the nll readers, the
    inverse temperature and the draws are. -/
theorem draws_consumed_sweep {α β} [OfNat α 0] [Mul α] [Add α] [Add β] [Mul β] [Neg β] [LT β] [DecidableLT β]
    (exp : β → β) (tinv : β) (k : Kind) (s : Shape) (bs' : List Blk) (hp : bs'.Perm (blocksOf k s))
    (std : Nat → α) (dE : Blk → List α → List α → β × β) (cur zs : List α) (us : List β) (r : PopOut α β)
    (h : popSample exp tinv (toSweep bs' std dE) cur zs us = some r) :
    r.zs = zs.drop (numel s) ∧ r.us = us.drop (numel (stdShape k s)) ∧
      r.acc.length = numel (stdShape k s) ∧ numel s ≤ zs.length ∧ numel (stdShape k s) ≤ us.length := by
  obtain ⟨h1, h2, h3, _, h5, h6⟩ := draws_consumed exp tinv _ cur zs us r h
  have hd := sweepDraws_perm _ _ hp
  rw [sweepDraws_generic k s none (by simp)] at hd
  simp only [sweepDraws, Prod.mk.injEq] at hd
  have e1 : ((toSweep bs' std dE).map (·.idx.length)).sum = numel s := by
    rw [← hd.1]; simp only [toSweep, List.map_map, Function.comp_def]; rfl
  have e2 : (toSweep bs' std dE).length = numel (stdShape k s) := by
    rw [← hd.2]; simp [toSweep]
  rw [e1] at h1 h5
  rw [e2] at h2 h3 h6
  exact ⟨h1, h2, h3, h5, h6⟩

/-- The three 2-D tables of `Model/Sampler.lean` (`gibbsBlocks`, `fastGibbsBlocks`, `mhBlocks`, used by
    the sweep examples) are the blocks of this model on the shape `(rows, cols)`. -/
theorem sampler_tables_agree (r c : Nat) :
    gibbsBlocks r c = (blocksOf .gibbs [r, c]).map (·.coords) ∧
    fastGibbsBlocks r c = (blocksOf .fastGibbs [r, c]).map (·.coords) ∧
    mhBlocks r c = (blocksOf .mh [r, c]).map (·.coords) := by
  have hg := congrArg (List.map Prod.fst) (gibbs_blocks_singletons [r, c])
  have hf := congrArg (List.map Prod.fst) (fastGibbs_blocks_rows r [c])
  have hm := congrArg (List.map Prod.fst) (mh_one_block [r, c])
  simp only [List.map_map, Function.comp_def, numel, Nat.mul_one, List.map_cons, List.map_nil] at hg hf hm
  refine ⟨?_, ?_, ?_⟩
  · rw [hg]; rfl
  · rw [hf]; rfl
  · rw [hm]; rfl

/-! #### individual sampler -/

/-- The individual sampler perturbs a variable of shape `(n, *shape)`: individual `j` owns the flat
    coordinates `j·d, …, j·d + d - 1` (`d = numel shape`) and the entry `std[j]`, broadcast over its
    row; the rows partition the `n·d` coordinates of the single draw `randn((n, *shape))`. -/
theorem ind_blocks_rows (n : Nat) (s : Shape) :
    (indBlocks n s).map (fun b => (b.coords, b.stdIdx))
        = (List.range n).map (fun j => ((List.range (numel s)).map (j * numel s + ·), j)) ∧
      ((indBlocks n s).map (·.coords)).flatten = List.range (n * numel s) :=
  ⟨fastGibbs_blocks_rows n s, blocks_cover .fastGibbs (n :: s)⟩

private theorem filterMap_range_shift {α} (zs : List α) (a d : Nat) :
    (List.range d).filterMap (fun c => zs[a + c]?) = (zs.drop a).take d := by
  induction d with
  | zero => simp
  | succ d ih =>
    rw [List.range_succ, List.filterMap_append, ih, List.take_add_one]
    simp only [List.getElem?_drop]
    cases h : zs[a + d]? with
    | none => simp [h]
    | some v => simp [h]

/-- The normals handed to individual `j` by `indSample` (`chunks`) are the entries of the single
    draw at its own coordinates. -/
theorem ind_draws_by_row {α} (n : Nat) (s : Shape) (zs : List α) (j : Nat) (hj : j < n) :
    ∃ b, (indBlocks n s)[j]? = some b ∧
      (chunks (numel s) n zs)[j]? = some (b.coords.filterMap (zs[·]?)) := by
  have h := congrArg (·[j]?) (ind_blocks_rows n s).1
  simp only [List.getElem?_map, List.getElem?_range hj, Option.map_some] at h
  cases hb : (indBlocks n s)[j]? with
  | none => simp [hb] at h
  | some b =>
    simp only [hb, Option.map_some, Option.some.injEq, Prod.mk.injEq] at h
    refine ⟨b, rfl, ?_⟩
    rw [chunks_get _ _ _ _ hj, h.1]
    congr 1
    simp only [List.filterMap_map, Function.comp_def]
    rw [filterMap_range_shift]

/-! ### non-vacuity -/

/-- a FastGibbs sweep over a 2×2 variable with enough draws runs, consumes 4 normals and 2 uniforms -/
example :
    (popSample (α := ℚ) (β := ℚ) (fun _ => 1) 1
      ((fastGibbsBlocks 2 2).map fun b => ⟨b, 1, fun _ _ => (0, 0)⟩) [0, 0, 0, 0] [1, 2, 3, 4, 5] [1/2, 2, 7]).map
        (fun r => (r.value, r.acc, r.zs, r.us))
      = some ([1, 2, 0, 0], [true, false], [5], [7]) := by
  decide +kernel

example : (indSample (α := ℚ) (β := ℚ) (fun _ => 1) 1 2
      [⟨[0, 0], 1, fun _ _ => (0, 0)⟩, ⟨[10, 10], 2, fun _ _ => (0, 0)⟩] [1, 2, 3, 4, 9] [1/2, 3, 8]).map
        (fun r => (r.rows, r.zs, r.us))
      = some ([([1, 2], true), ([10, 10], false)], [9], [8]) := by
  decide +kernel

/-- the three layouts of a 2×3 variable, and the degenerate extents r = 1, c = 1, 0 -/
example : (blocksOf .gibbs [2, 3]).map (·.coords) = [[0], [1], [2], [3], [4], [5]] ∧
    (blocksOf .fastGibbs [2, 3]).map (fun b => (b.coords, b.stdIdx, b.zshape)) = [([0, 1, 2], 0, [3]), ([3, 4, 5], 1, [3])] ∧
    (blocksOf .mh [2, 3]).map (fun b => (b.coords, b.stdIdx, b.zshape)) = [([0, 1, 2, 3, 4, 5], 0, [2, 3])] ∧
    (blocksOf .fastGibbs [1, 3]).map (·.coords) = [[0, 1, 2]] ∧
    (blocksOf .fastGibbs [3, 1]).map (·.coords) = [[0], [1], [2]] ∧
    (blocksOf .fastGibbs [3]).map (fun b => (b.coords, b.zshape)) = [([0], []), ([1], []), ([2], [])] ∧
    (blocksOf .fastGibbs [2, 0]).map (·.coords) = [[], []] ∧ (blocksOf .mh [0]).map (·.coords) = [[]] ∧
    (blocksOf .gibbs [0, 2]).map (·.coords) = [] := by
  decide

/-- a mask `[[1,0,1],[0,0,0]]`: full Gibbs visits the two unmasked coordinates only; FastGibbs keeps
    both rows (the second moves nothing but still draws 3 normals and takes a decision); the masked
    change of a row is zero on its masked coordinates -/
example :
    let m := some [true, false, true, false, false, false]
    (blocksOf .gibbs [2, 3] m).map (fun b => (b.idx, b.coords, b.stdIdx, b.keep)) = [([0, 0], [0], 0, none), ([0, 2], [2], 2, none)] ∧
    (blocksOf .fastGibbs [2, 3] m).map Blk.perturbed = [[0, 2], []] ∧
    sweepDraws (blocksOf .fastGibbs [2, 3] m) = (6, 2) ∧ sweepDraws (blocksOf .gibbs [2, 3] m) = (2, 2) ∧
    (blocksOf .mh [2, 3] m).map (fun b => blockChange (α := ℚ) 6 b 2 [1, 2, 3, 4, 5, 6]) = [[2, 0, 6, 0, 0, 0]] := by
  decide +kernel

/-- the constructor: 1-D / 2-D without mask accepted, everything else refused as coded -/
example : construct .fastGibbs [2, 3] none = .ok () ∧ construct .fastGibbs [] none = .error .index ∧
    construct .gibbs [] none = .error .model ∧ construct .mh [2, 2, 2] none = .error .model ∧
    construct .gibbs [2, 3] (some [true, true, true, true, true, true]) = .error .notImplemented := by
  decide

/-- a shuffled order: `σ = [1, 0]` visits the second row first; the hypotheses of
    `shuffle_preserves_blocks` / `draws_consumed_sweep` are satisfiable and the sweep runs -/
example : [1, 0].Perm (List.range (blocksOf .fastGibbs [2, 2]).length) ∧
    (reorder [1, 0] (blocksOf .fastGibbs [2, 2])).map (·.coords) = [[2, 3], [0, 1]] ∧
    (popSample (α := ℚ) (β := ℚ) (fun _ => 1) 1
      (toSweep (reorder [1, 0] (blocksOf .fastGibbs [2, 2])) (fun j => if j = 0 then 1 else 10) (fun _ _ _ => (0, 0)))
      [0, 0, 0, 0] [1, 2, 3, 4, 5] [1/2, 2, 7]).map (fun r => (r.value, r.acc, r.zs, r.us))
      = some ([0, 0, 10, 20], [true, false], [5], [7]) := by
  refine ⟨?_, ?_, ?_⟩
  · exact List.Perm.swap 0 1 []
  · decide
  · decide +kernel

/-- the individual layout: 3 individuals × shape (2,), one `std` entry per individual -/
example : (indBlocks 3 [2]).map (fun b => (b.coords, b.stdIdx)) = [([0, 1], 0), ([2, 3], 1), ([4, 5], 2)] ∧
    (indBlocks 2 []).map (fun b => (b.coords, b.stdIdx)) = [([0], 0), ([1], 1)] := by
  decide

end LeaspyVerif.C03
