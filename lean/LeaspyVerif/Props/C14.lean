/-
C14 — data ingestion yields one canonical tensor form and rejects malformed input.
Property theorems only (helper lemmas: `Lemmas/Ingest.lean`).  Model: `Model/Ingest.lean`.

Reading guide
  * `ingest dim t`      = `Data.from_dataframe(t)` (visit layout) on a table whose identifiers, ages and cells passed
                          the dtype / NaN / inf checks; `ingestRaw` includes those checks;
  * `loadAll`           = the loading loop shared by the visit, joint and covariate layouts;
  * `tensorise store`   = `Dataset(data)`; `toTable` = `Dataset.to_pandas()`;
  * `store`             = what single-precision storage (and the 6-digit re-rounding of a re-ingestion) makes of an age.
-/
import LeaspyVerif.Model.Ingest
import LeaspyVerif.Lemmas.Ingest

namespace LeaspyVerif.C14
open LeaspyVerif.Ingest LeaspyVerif.IngestLemmas List

/-! ## The loading loop: sorted visits, order of first appearance, nothing lost, nothing refused -/

/-- Visits of every individual are strictly sorted by age, whatever the row order of the table
    (any layout: the theorem is about the shared loading loop, for every table on which it succeeds). -/
theorem visits_strictly_sorted {rows : List Row} {c : Canon} (h : loadAll rows = .ok c) :
    ∀ p ∈ c, p.visits.Pairwise (fun a b => a.age < b.age) := by
  intro p hp
  exact (addObservations_ok ((loadIds_inv h).2 p hp)).1

/-- One entry per individual, in order of first appearance in the (kept) rows. -/
theorem ids_first_appearance {rows : List Row} {c : Canon} (h : loadAll rows = .ok c) :
    c.map (·.id) = firstIds (rows.map (·.id)) ∧ (c.map (·.id)).Nodup := by
  have := (loadIds_inv h).1
  exact ⟨this, this ▸ nodup_firstIds _⟩

/-- Every individual holds exactly the rows of the table that carry its identifier (as a multiset):
    no visit is lost, duplicated or moved to another individual, values stay attached to their age. -/
theorem no_visit_lost {rows : List Row} {c : Canon} (h : loadAll rows = .ok c) :
    ∀ p ∈ c, p.visits.Perm (visitsOf p.id rows) := by
  intro p hp
  exact (addObservations_ok ((loadIds_inv h).2 p hp)).2

/-- Once the `(ID, TIME)` index is unique (after the 6-digit rounding), the duplicate refusal of
    `add_observations` is unreachable: loading succeeds, with the closed form `canon`. -/
theorem add_observations_never_refuses {rows : List Row} (h : rowKeyDup rows = false) :
    loadAll rows = .ok (canon rows) :=
  loadAll_eq_canon (rowKeyDup_false_iff.1 h)

/-- Conversely the loop succeeds only on tables without duplicate visits. -/
theorem load_ok_only_if_unique {rows : List Row} {c : Canon} (h : loadAll rows = .ok c) :
    ∀ i, ((visitsOf i rows).map (·.age)).Nodup := by
  intro i
  by_cases hi : i ∈ firstIds (rows.map (·.id))
  · rw [← (loadIds_inv h).1, mem_map] at hi
    obtain ⟨p, hp, rfl⟩ := hi
    have := addObservations_ok_nodup (acc := []) (by simp) ((loadIds_inv h).2 p hp)
    simpa using this
  · have : visitsOf i rows = [] := by
      simp only [visitsOf, map_eq_nil_iff, filter_eq_nil_iff, beq_iff_eq]
      intro r hr hid
      exact hi (mem_firstIds.2 (mem_map.2 ⟨r, hr, hid⟩))
    simp [this]

/-! ## Independence of the row order -/

/-- **Row-order independence.**  For any permutation of the rows the outcome is the same: the same
    rejection, or the same individuals with identical visits (`List.Perm` on individuals: only their
    order — first appearance — may differ). -/
theorem ingest_perm (dim : Nat) {t₁ t₂ : List Row} (h : t₁.Perm t₂) :
    (∀ e, ingest dim t₁ = .error e ↔ ingest dim t₂ = .error e) ∧
    (∀ c₁, ingest dim t₁ = .ok c₁ → ∃ c₂, ingest dim t₂ = .ok c₂ ∧ c₁.Perm c₂) := by
  have hd := rowKeyDup_perm h
  have hk := kept_perm h
  have he : (kept t₁).isEmpty = (kept t₂).isEmpty := by
    have := hk.length_eq
    cases h1 : kept t₁ <;> cases h2 : kept t₂ <;> simp_all
  rw [ingest_eq, ingest_eq, hd, he]
  cases hdup : rowKeyDup t₂
  · have hn : ((kept t₁).map key).Nodup :=
      nodup_keys_filter _ (rowKeyDup_false_iff.1 (hd ▸ hdup))
    by_cases h1 : (kept t₂).isEmpty = true
    · simp [h1]
    · by_cases h2 : dim < 1
      · simp [h1, h2]
      · simp only [h1, h2, Bool.false_eq_true, ↓reduceIte]
        refine ⟨by simp, ?_⟩
        intro c₁ hc
        cases hc
        exact ⟨_, rfl, canon_perm hk hn⟩
  · simp

/-- A permutation that keeps the order of first appearance of the identifiers (among the rows that
    are not entirely missing) gives the identical result. -/
theorem ingest_perm_same_order (dim : Nat) {t₁ t₂ : List Row} (h : t₁.Perm t₂)
    (ho : firstIds ((kept t₁).map (·.id)) = firstIds ((kept t₂).map (·.id))) :
    ingest dim t₁ = ingest dim t₂ := by
  have hd := rowKeyDup_perm h
  have hk := kept_perm h
  have he : (kept t₁).isEmpty = (kept t₂).isEmpty := by
    have := hk.length_eq
    cases h1 : kept t₁ <;> cases h2 : kept t₂ <;> simp_all
  rw [ingest_eq, ingest_eq, hd, he]
  cases hdup : rowKeyDup t₂
  · have hn : ((kept t₁).map key).Nodup :=
      nodup_keys_filter _ (rowKeyDup_false_iff.1 (hd ▸ hdup))
    rw [canon_same_order hk hn ho]
  · simp

/-- the id ↦ visits map is the same for every permutation (pointwise form of `ingest_perm`) -/
theorem ingest_perm_lookup (dim : Nat) {t₁ t₂ : List Row} (h : t₁.Perm t₂) {c₁ c₂ : Canon}
    (h₁ : ingest dim t₁ = .ok c₁) (h₂ : ingest dim t₂ = .ok c₂) (p : Indiv) : p ∈ c₁ ↔ p ∈ c₂ := by
  obtain ⟨c, hc, hp⟩ := (ingest_perm dim h).2 c₁ h₁
  rw [h₂] at hc
  cases hc
  exact hp.mem_iff

/-! ## The tensor form -/

/-- The dataset is the list of per-individual slices, in the order of the individuals, each built with
    the common padded length `nVisMax`, which is at least every individual's number of visits. -/
theorem tensor_indivs (store : Int → Int) (dim : Nat) (c : Canon) :
    (tensorise store dim c).indivs = c.map (tensoriseIndiv store dim (tensorise store dim c).nVisMax) ∧
    (∀ p ∈ c, p.visits.length ≤ (tensorise store dim c).nVisMax) ∧
    (tensorise store dim c).indivs.map (·.id) = c.map (·.id) := by
  refine ⟨rfl, ?_, ?_⟩
  · intro p hp
    exact le_maxList (mem_map.2 ⟨p, hp, rfl⟩)
  · simp [tensorise, tensoriseIndiv]

/-- **Padding shape**: every slice has exactly `nMax` rows (ages, values, mask), one count per feature;
    beyond the individual's visits the ages are 0, the values 0 and the mask 0. -/
theorem padding_shape (store : Int → Int) (dim nMax : Nat) (p : Indiv) (h : p.visits.length ≤ nMax) :
    let q := tensoriseIndiv store dim nMax p
    q.times.length = nMax ∧ q.values.length = nMax ∧ q.mask.length = nMax ∧ q.nObsFt.length = dim ∧
    q.times.drop q.nVis = replicate (nMax - q.nVis) 0 ∧
    q.values.drop q.nVis = replicate (nMax - q.nVis) (replicate dim 0) ∧
    q.mask.drop q.nVis = replicate (nMax - q.nVis) (replicate dim false) := by
  simp only [tensoriseIndiv]
  refine ⟨?_, ?_, ?_, ?_, ?_, ?_, ?_⟩
  · exact padTo_length (by simpa using h)
  · exact padTo_length (by simpa using h)
  · exact padTo_length (by simpa using h)
  · simp [colSums]
  · simpa using padTo_drop nMax (0 : Int) (p.visits.map (fun v => store v.age))
  · simpa using padTo_drop nMax (replicate dim (0 : Rat)) (p.visits.map (fun v => v.vals.map fillNaN))
  · simpa using padTo_drop nMax (replicate dim false) (p.visits.map (fun v => v.vals.map Option.isSome))

/-- **Alignment**: the first `nVis` rows of ages, values and mask are the individual's visits, in order:
    stored age, value (0 where missing), presence flag. -/
theorem values_aligned (store : Int → Int) (dim nMax : Nat) (p : Indiv) :
    let q := tensoriseIndiv store dim nMax p
    q.id = p.id ∧ q.nVis = p.visits.length ∧
    q.times.take q.nVis = p.visits.map (fun v => store v.age) ∧
    q.values.take q.nVis = p.visits.map (fun v => v.vals.map fillNaN) ∧
    q.mask.take q.nVis = p.visits.map (fun v => v.vals.map Option.isSome) := by
  simp only [tensoriseIndiv]
  refine ⟨trivial, trivial, ?_, ?_, ?_⟩
  · simpa using padTo_take nMax (0 : Int) (p.visits.map (fun v => store v.age))
  · simpa using padTo_take nMax (replicate dim (0 : Rat)) (p.visits.map (fun v => v.vals.map fillNaN))
  · simpa using padTo_take nMax (replicate dim false) (p.visits.map (fun v => v.vals.map Option.isSome))

/-- **Mask**: entry `(j, k)` of an individual's mask is set iff `j` is one of its visits and feature `k`
    of that visit is present (not NaN) — in particular never on a padded row. -/
theorem mask_iff_present (store : Int → Int) (dim nMax : Nat) (p : Indiv) (j k : Nat) :
    ((tensoriseIndiv store dim nMax p).mask[j]?.bind (·[k]?)) = some true ↔
      ∃ v, p.visits[j]? = some v ∧ ∃ x, v.vals[k]? = some (some x) := by
  simp only [tensoriseIndiv]
  rw [mask_get]
  simp only [present_iff]

/-- **Counts**: visits per individual, total visits, observations per individual and feature (present
    cells only), per feature (sum over individuals) and in total. -/
theorem counts_correct (store : Int → Int) (dim : Nat) (c : Canon) :
    let t := tensorise store dim c
    t.indivs.map (·.nVis) = c.map (·.visits.length) ∧
    t.nVisTotal = (c.map (·.visits.length)).sum ∧
    (∀ q ∈ t.indivs, ∀ p ∈ c, q = tensoriseIndiv store dim t.nVisMax p → ∀ k, k < dim →
        q.nObsFt[k]? = some (p.visits.filter (fun v => present v k)).length) ∧
    (∀ k, k < dim → t.nObsFt[k]? = some (c.map (fun p => (p.visits.filter (fun v => present v k)).length)).sum) ∧
    t.nObs = t.nObsFt.sum := by
  refine ⟨by simp [tensorise, tensoriseIndiv], rfl, ?_, ?_, rfl⟩
  · intro q _ p _ hq k hk
    subst hq
    exact colSums_get dim _ p.visits hk
  · intro k hk
    simp only [tensorise, vecSum, getElem?_map, getElem?_range hk, Option.map_some, map_map, Option.some.injEq]
    congr 1
    apply map_congr_left
    intro p _
    simp only [Function.comp_apply, tensoriseIndiv]
    rw [colSums_get dim _ p.visits hk]

/-- Ages are strictly increasing in the tensor as long as single-precision storage keeps the ages of the
    individual apart (`store` strictly monotone on them). -/
theorem tensor_times_sorted (store : Int → Int) (dim nMax : Nat) (p : Indiv)
    (hs : p.visits.Pairwise (fun a b => a.age < b.age))
    (hm : ∀ a ∈ p.visits, ∀ b ∈ p.visits, a.age < b.age → store a.age < store b.age) :
    let q := tensoriseIndiv store dim nMax p
    (q.times.take q.nVis).Pairwise (· < ·) := by
  simp only
  rw [(values_aligned store dim nMax p).2.2.1, pairwise_map]
  exact hs.imp_of_mem (fun ha hb hab => hm _ ha _ hb hab)

/-! ## Round trip  `ingest → Dataset → to_pandas → ingest` -/

/-- Rebuilding the visits of an individual from its tensor slice loses nothing but the storage rounding
    of the ages: values come back with their NaN pattern, padded rows disappear. -/
theorem untensor_tensorise (store : Int → Int) (dim nMax : Nat) (p : Indiv) :
    patientVisits (tensoriseIndiv store dim nMax p) = p.visits.map (fun v => ⟨store v.age, v.vals⟩) :=
  patientVisits_tensorise store dim nMax p

/-
Full-strength statement (for every table and every monotone `store`):
    ingest dim t = ok c  →  ∃ t' c', toTable (tensorise store dim c) = ok t' ∧ ingest dim t' = ok c' ∧ c' ≈ c up to `store`
It is FALSE for the code that exists (F9): see `roundtrip_counterexample`.  Proved below under the exact
guard "single-precision storage does not move the ages of the table" (ages exactly representable).
-/

/-- **Round trip** (partial: ages that single-precision storage leaves unchanged).  The regenerated
    table exists, is accepted again, and gives the same individuals with identical visits; their order is
    the order of first appearance in the regenerated table, i.e. increasing identifier. -/
theorem roundtrip_partial (store : Int → Int) (dim : Nat) (t : List Row) (c : Canon)
    (h : ingest dim t = .ok c) (hs : ∀ p ∈ c, ∀ v ∈ p.visits, store v.age = v.age) :
    ∃ t' c', toTable (tensorise store dim c) = .ok t' ∧ ingest dim t' = .ok c' ∧
      c'.Perm c ∧ c'.Pairwise (fun p q => p.id < q.id) := by
  rw [ingest_eq] at h
  split at h
  · cases h
  · rename_i hd
    split at h
    · cases h
    · rename_i he
      split at h
      · cases h
      · rename_i hdim
        cases h
        have hk : ((kept t).map key).Nodup :=
          nodup_keys_filter _ (rowKeyDup_false_iff.1 (by simpa using hd))
        have hsorted : ∀ p ∈ canon (kept t), SortedV p.visits := by
          intro p hp
          simp only [canon, mem_map] at hp
          obtain ⟨i, _, rfl⟩ := hp
          exact sortedOf_sorted i hk
        have hperm : (sortRows (Ingest.flatten (canon (kept t)))).Perm (kept t) :=
          (sortRows_perm _).trans (flatten_canon_perm hk)
        have hk' : ((sortRows (Ingest.flatten (canon (kept t)))).map key).Nodup :=
          (hperm.map key).nodup_iff.2 hk
        have hkept : kept (sortRows (Ingest.flatten (canon (kept t)))) = sortRows (Ingest.flatten (canon (kept t))) := by
          simp only [kept, filter_eq_self]
          intro r hr
          have := hperm.mem_iff.1 hr
          simp only [kept, mem_filter] at this
          exact this.2
        refine ⟨sortRows (Ingest.flatten (canon (kept t))), canon (sortRows (Ingest.flatten (canon (kept t)))), ?_, ?_, ?_, ?_⟩
        · simp only [toTable, tensorise]
          rw [framesOf_tensorise store dim _ _ hs hsorted]
        · rw [ingest_eq, hkept]
          have h1 : rowKeyDup (sortRows (Ingest.flatten (canon (kept t)))) = false := rowKeyDup_false_iff.2 hk'
          have h2 : (sortRows (Ingest.flatten (canon (kept t)))).isEmpty = false := by
            have := hperm.length_eq
            cases h3 : sortRows (Ingest.flatten (canon (kept t))) with
            | nil => rw [h3] at this; cases h4 : kept t <;> simp_all
            | cons _ _ => rfl
          simp [h1, h2, hdim]
        · exact canon_perm hperm hk'
        · rw [← pairwise_map (f := fun p : Indiv => p.id) (R := fun a b => a < b), canon_ids]
          apply firstIds_sorted
          rw [pairwise_map]
          exact (sortRows_sorted _).imp (fun {a b} hab => by
            simp only [rowLe, Bool.or_eq_true, decide_eq_true_eq, Bool.and_eq_true, beq_iff_eq] at hab
            rcases hab with h | ⟨h, _⟩ <;> omega)

/-- Second generation is a fixpoint: when the individuals already come in increasing identifier order
    (as they do after one round trip) the round trip returns exactly the same canonical form. -/
theorem roundtrip_fixpoint (store : Int → Int) (dim : Nat) (t : List Row) (c : Canon)
    (h : ingest dim t = .ok c) (hs : ∀ p ∈ c, ∀ v ∈ p.visits, store v.age = v.age)
    (ho : c.Pairwise (fun p q => p.id < q.id)) :
    ∃ t', toTable (tensorise store dim c) = .ok t' ∧ ingest dim t' = .ok c := by
  obtain ⟨t', c', h1, h2, h3, h4⟩ := roundtrip_partial store dim t c h hs
  have : c' = c := eq_of_perm_of_pairwise (r := fun p q : Indiv => p.id < q.id)
    (fun a b h1 h2 => by omega) h4 ho h3
  exact ⟨t', h1, this ▸ h2⟩

/-- **F9** — the full-strength round trip fails for the code that exists: with a monotone storage map
    that sends two distinct ages of one individual to the same stored age (as float32 does for
    70.000001 and 70.000002) the table is accepted, the dataset is built, and `to_pandas` raises. -/
theorem roundtrip_counterexample :
    ∃ (store : Int → Int) (t : List Row) (c : Canon),
      (∀ a b, a ≤ b → store a ≤ store b) ∧ ingest 1 t = .ok c ∧
      toTable (tensorise store 1 c) = .error .overwrite := by
  refine ⟨fun a => a / 8 * 8, [⟨0, 16, [some 0]⟩, ⟨0, 17, [some 0]⟩],
    [⟨0, [⟨16, [some 0]⟩, ⟨17, [some 0]⟩]⟩], ?_, ?_, ?_⟩
  · intro a b hab; simp only; omega
  · rfl
  · rfl

/-! ## Rejection of malformed tables -/

/-- identifiers accepted by `_check_ID` -/
def IdOk (c : IdCol) : Prop :=
  c.kind ≠ .other ∧ c.hasNa = false ∧ (c.kind = .integer → c.hasNegative = false) ∧
  (c.kind = .string → c.hasEmpty = false)

/-- a well-formed visit table: none of the modelled malformations -/
structure WellFormed (t : RawTable) : Prop where
  id : IdOk t.idCol
  timeNumeric : t.timeNumeric = true
  agesFinite : ∀ r ∈ t.rows, ∃ a, r.age = .fin a
  noDuplicate : (t.rows.map (fun r => (r.id, r.age))).Nodup
  valuesNumeric : ∀ b ∈ t.colNumeric, b = true
  valuesFinite : ∀ r ∈ t.rows, ∀ x ∈ r.vals, x ≠ .inf
  someObservation : ∃ r ∈ t.rows, ∃ q, Cell.fin q ∈ r.vals
  someFeature : 1 ≤ t.colNumeric.length

private theorem checkId_ok_iff (c : IdCol) : checkId c = .ok () ↔ IdOk c := by
  obtain ⟨k, a, b, d⟩ := c
  cases k <;> cases a <;> cases b <;> cases d <;> simp [checkId, IdOk]

/-- **Rejection.**  `Data.from_dataframe` accepts a visit table iff it carries none of the modelled
    malformations: invalid identifiers, non-numeric / missing / infinite ages, duplicate visits after the
    6-digit rounding, non-numeric or infinite values, nothing observed, no feature column.
    Every rejection is a `LeaspyDataInputError` (all `Err` constructors are). -/
theorem rejects_iff_malformed (t : RawTable) : (∃ c, ingestRaw t = .ok c) ↔ WellFormed t := by
  unfold ingestRaw
  cases hid : checkId t.idCol with
  | error e =>
    simp only [reduceCtorEq, exists_false, false_iff]
    intro hw
    have := (checkId_ok_iff _).2 hw.id
    rw [hid] at this; cases this
  | ok u =>
    have hidok : IdOk t.idCol := (checkId_ok_iff _).1 hid
    cases htn : t.timeNumeric with
    | false =>
      simp only [Bool.not_false, ↓reduceIte, reduceCtorEq, exists_false, false_iff]
      intro hw; have := hw.timeNumeric; simp_all
    | true =>
      simp only [Bool.not_true, Bool.false_eq_true, ↓reduceIte]
      cases hag : agesOf t.rows with
      | error e =>
        simp only [reduceCtorEq, exists_false, false_iff]
        intro hw
        obtain ⟨_, r, hr, hne⟩ := agesOf_error hag
        obtain ⟨a, ha⟩ := hw.agesFinite r hr
        exact hne a ha
      | ok rs =>
        have hrows := agesOf_ok hag
        simp only
        -- the four table-level conditions, expressed on the caller's rows
        have hkeys : rowKeyDup (rs.map (fun r => (⟨r.1, r.2.1, r.2.2.map cellToObs⟩ : Row))) = false ↔
            (t.rows.map (fun r => (r.id, r.age))).Nodup := by
          rw [rowKeyDup_false_iff, hrows]
          simp only [map_map, Nodup, pairwise_map]
          apply Pairwise.iff
          intro a b
          simp [key, mkRaw]
        have hnum : (t.colNumeric.all id = true) ↔ ∀ b ∈ t.colNumeric, b = true := by
          simp [all_eq_true]
        have hinf : (rs.any (fun r => hasInf r.2.2) = false) ↔ ∀ r ∈ t.rows, ∀ x ∈ r.vals, x ≠ .inf := by
          rw [hrows]
          simp only [any_eq_false, hasInf, mem_map, forall_exists_index, and_imp, forall_apply_eq_imp_iff₂,
            mkRaw]
          constructor
          · intro h a ha x hx heq
            exact h a ha (any_eq_true.2 ⟨x, hx, by simp [heq]⟩)
          · intro h a ha hany
            obtain ⟨x, hx, hxe⟩ := any_eq_true.1 hany
            exact h a ha x hx (by simpa using hxe)
        have hobs : (∀ r ∈ t.rows, ∀ x ∈ r.vals, x ≠ .inf) →
            ((kept (rs.map (fun r => (⟨r.1, r.2.1, r.2.2.map cellToObs⟩ : Row)))).isEmpty = false ↔
              ∃ r ∈ t.rows, ∃ q, Cell.fin q ∈ r.vals) := by
          intro hfin
          rw [hrows] at hfin ⊢
          simp only [kept, isEmpty_eq_false_iff_exists_mem, mem_filter, mem_map, Bool.not_eq_true', mkRaw]
          constructor
          · rintro ⟨x, ⟨a, ha, rfl⟩, hx⟩
            refine ⟨_, ⟨a, ha, rfl⟩, ?_⟩
            exact (allMissing_map_cellToObs _ (fun y hy => hfin _ (mem_map.2 ⟨a, ha, rfl⟩) y hy)).1 hx
          · rintro ⟨r, ⟨a, ha, rfl⟩, hq⟩
            refine ⟨_, ⟨a, ha, rfl⟩, ?_⟩
            exact (allMissing_map_cellToObs _ (fun y hy => hfin _ (mem_map.2 ⟨a, ha, rfl⟩) y hy)).2 hq
        constructor
        · rintro ⟨c, hc⟩
          split at hc
          · cases hc
          · rename_i hd
            split at hc
            · cases hc
            · rename_i hn
              split at hc
              · cases hc
              · rename_i hi
                have hd' := hkeys.1 (by simpa using hd)
                have hn' := hnum.1 (by simpa using hn)
                have hi' := hinf.1 (by simpa using hi)
                rw [ingest_eq] at hc
                simp only [show rowKeyDup _ = false by simpa using hd, Bool.false_eq_true, ↓reduceIte] at hc
                split at hc
                · cases hc
                · rename_i he
                  split at hc
                  · cases hc
                  · rename_i hdim
                    exact ⟨hidok, htn, fun r hr => by
                        rw [hrows] at hr; obtain ⟨x, _, rfl⟩ := mem_map.1 hr; exact ⟨x.2.1, rfl⟩,
                      hd', hn', hi', (hobs hi').1 (by simpa using he), by omega⟩
        · intro hw
          have hd := hkeys.2 hw.noDuplicate
          have hn := hnum.2 hw.valuesNumeric
          have hi := hinf.2 hw.valuesFinite
          have he := (hobs hw.valuesFinite).2 hw.someObservation
          have hdim : ¬ t.colNumeric.length < 1 := by have := hw.someFeature; omega
          refine ⟨canon (kept (rs.map (fun r => (⟨r.1, r.2.1, r.2.2.map cellToObs⟩ : Row)))), ?_⟩
          rw [ingest_eq]
          simp only [hd, hn, hi, he, hdim, Bool.false_eq_true, ↓reduceIte, Bool.not_true]


/-- an event row whose two cells are acceptable: positive finite time, non-negative integer indicator -/
def EvCellOk (r : EvRow) : Prop :=
  ∃ t q, r.time = .fin t ∧ 0 < t ∧ r.code = .fin q ∧ q.den = 1 ∧ 0 ≤ q.num

private theorem evCell_ok {r : EvRow} {e : Event} (h : evCell r = .ok e) : EvCellOk r := by
  unfold evCell at h
  split at h
  · cases h
  · cases h
  · rename_i t ht
    split at h
    · cases h
    · rename_i hpos
      split at h
      · cases h
      · cases h
      · rename_i q hq
        split at h
        · cases h
        · rename_i hc
          simp only [bne_iff_ne, ne_eq, Bool.or_eq_true, decide_eq_true_eq, not_or, Decidable.not_not, Int.not_lt] at hc
          exact ⟨t, q, ht, by omega, hq, hc.1, hc.2⟩

private theorem evCells_ok {rows : List EvRow} {l : List Event} (h : evCells rows = .ok l) :
    ∀ r ∈ rows, EvCellOk r := by
  induction rows generalizing l with
  | nil => simp
  | cons r rs ih =>
    simp only [evCells] at h
    split at h
    · cases h
    · rename_i ev hev
      split at h
      · cases h
      · rename_i l' hl'
        intro x hx
        rcases mem_cons.1 hx with rfl | hx
        · exact evCell_ok hev
        · exact ih hl' x hx

/-- **Events**: a table of events is accepted only if every individual appears once and every row is
    either entirely missing (dropped) or has a positive finite event time and a non-negative integer
    event indicator: missing, fractional, negative or infinite indicators and non-positive, missing or
    infinite times are rejected (with a data-input error), never silently recoded. -/
theorem events_rejects_malformed (nb : Option Nat) (rows : List EvRow) (res : List Event × Nat)
    (h : ingestEventTable nb rows = .ok res) :
    evIdDup rows = false ∧
    ∀ r ∈ rows, (r.time = .nan ∧ r.code = .nan) ∨ EvCellOk r := by
  unfold ingestEventTable at h
  split at h
  · cases h
  · rename_i hd
    split at h
    · cases h
    · refine ⟨by simpa using hd, ?_⟩
      intro r hr
      by_cases hn : r.time = .nan ∧ r.code = .nan
      · exact Or.inl hn
      · right
        unfold ingestEvents at h
        split at h
        · cases h
        · rename_i l hl
          apply evCells_ok hl r
          simp only [mem_filter, Bool.not_eq_eq_eq_not, Bool.not_true, Bool.and_eq_false_imp, beq_iff_eq]
          refine ⟨hr, ?_⟩
          intro h1
          by_cases h2 : r.code = .nan
          · exact absurd ⟨h1, h2⟩ hn
          · simpa using h2

/-! ## Non-vacuity -/

/-- the hypotheses of the round-trip theorems are satisfiable (two individuals, unsorted rows, a missing cell) -/
example : ∃ (t : List Row) (c : Canon), ingest 2 t = .ok c ∧ c.length = 2 ∧
    (∀ p ∈ c, ∀ v ∈ p.visits, (fun a : Int => a) v.age = v.age) :=
  ⟨[⟨1, 71500000, [some 0, none]⟩, ⟨0, 70250000, [some 0, some 0]⟩, ⟨1, 70500000, [none, some 0]⟩],
   [⟨1, [⟨70500000, [none, some 0]⟩, ⟨71500000, [some 0, none]⟩]⟩, ⟨0, [⟨70250000, [some 0, some 0]⟩]⟩],
   rfl, rfl, fun _ _ _ _ => rfl⟩

/-- the driver's single-precision storage leaves dyadic ages unchanged and merges 70.000001 with 70.000002 -/
example : storeF32 70500000 = 70500000 ∧ storeF32 70000001 = storeF32 70000002 := by decide +kernel

/-- a well-formed table exists, and a malformed one (duplicate visit) is refused -/
example : WellFormed ⟨⟨.string, false, false, false⟩, true, [true], [⟨0, .fin 70000000, [.fin 0]⟩]⟩ :=
  ⟨by simp [IdOk], rfl, by simp, by simp, by simp, by simp, ⟨⟨0, .fin 70000000, [.fin 0]⟩, by simp, 0, by simp⟩, by simp⟩

example : ingestRaw ⟨⟨.string, false, false, false⟩, true, [true],
    [⟨0, .fin 70000000, [.fin 0]⟩, ⟨0, .fin 70000000, [.nan]⟩]⟩ = .error .duplicate := rfl

/-- a negative event indicator next to a second event type is refused (it was silently recoded before F9c) -/
example : ingestEventTable none [⟨1, .fin 75000000, .fin 2⟩, ⟨0, .fin 73000000, .fin (-1)⟩] = .error .eventCode := by
  rfl

end LeaspyVerif.C14
