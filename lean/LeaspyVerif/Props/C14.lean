/-
C14 — data ingestion yields one canonical tensor form and rejects malformed input.
Property theorems only (helper lemmas: `Lemmas/Ingest.lean`).  Model: `Model/Ingest.lean`.

Reading guide
  * `ingest dim t`      = `Data.from_dataframe(t)` (visit layout) on a table whose identifiers, ages and cells passed
                          the dtype / NaN / inf checks; `ingestRaw` includes those checks;
  * `loadAll`           = the loading loop shared by the visit, joint and covariate layouts;
  * `tensorise store`   = `Dataset(data)`; `toTable` = `Dataset.to_pandas()`;
  * `store`             = what single-precision storage (and the 6-digit re-rounding of a re-ingestion) makes of an age.
  * `ingestEventTable nb` = `Data.from_dataframe(df, "event", nb_events=nb)`; `ingestJoint dim nb` = the joint layout;
                          `ingestCov dim nCov` = the covariate layout (on tables whose identifiers, ages and dtypes passed
                          the common checks); `WellFormedEvents` / `WellFormedJoint` / `WellFormedCov` are decidable;
  * `evKept` / `jKept` / `cKept` = the rows that `dropna(how="all")` keeps in each layout.
-/
import LeaspyVerif.Model.Ingest
import LeaspyVerif.Lemmas.Ingest

namespace LeaspyVerif.C14
open LeaspyVerif.Ingest LeaspyVerif.IngestLemmas List

/-! ## The loading loop: sorted visits, order of first appearance, nothing lost, nothing refused -/

/-- Visits of every individual are strictly sorted by age, whatever the row order of the table
    (any layout: the theorem is about the shared loading loop, for every table on which it succeeds). -/
theorem visits_strictly_sorted {rows : List Row} {c : Canon} (h : loadAll rows = .ok c) :
    ∀ p ∈ c, p.visits.Pairwise (fun a b => a.age < b.age) := by
  intro p hp
  exact (addObservations_ok ((loadIds_inv h).2 p hp)).1

/-- One entry per individual, in order of first appearance in the (kept) rows. -/
theorem ids_first_appearance {rows : List Row} {c : Canon} (h : loadAll rows = .ok c) :
    c.map (·.id) = firstIds (rows.map (·.id)) ∧ (c.map (·.id)).Nodup := by
  have := (loadIds_inv h).1
  exact ⟨this, this ▸ nodup_firstIds _⟩

/-- Every individual holds exactly the rows of the table that carry its identifier (as a multiset):
    no visit is lost, duplicated or moved to another individual, values stay attached to their age. -/
theorem no_visit_lost {rows : List Row} {c : Canon} (h : loadAll rows = .ok c) :
    ∀ p ∈ c, p.visits.Perm (visitsOf p.id rows) := by
  intro p hp
  exact (addObservations_ok ((loadIds_inv h).2 p hp)).2

/-- Once the `(ID, TIME)` index is unique (after the 6-digit rounding), the duplicate refusal of
    `add_observations` is unreachable: loading succeeds, with the closed form `canon`. -/
theorem add_observations_never_refuses {rows : List Row} (h : rowKeyDup rows = false) :
    loadAll rows = .ok (canon rows) :=
  loadAll_eq_canon (rowKeyDup_false_iff.1 h)

/-- Conversely the loop succeeds only on tables without duplicate visits. -/
theorem load_ok_only_if_unique {rows : List Row} {c : Canon} (h : loadAll rows = .ok c) :
    ∀ i, ((visitsOf i rows).map (·.age)).Nodup := by
  intro i
  by_cases hi : i ∈ firstIds (rows.map (·.id))
  · rw [← (loadIds_inv h).1, mem_map] at hi
    obtain ⟨p, hp, rfl⟩ := hi
    have := addObservations_ok_nodup (acc := []) (by simp) ((loadIds_inv h).2 p hp)
    simpa using this
  · have : visitsOf i rows = [] := by
      simp only [visitsOf, map_eq_nil_iff, filter_eq_nil_iff, beq_iff_eq]
      intro r hr hid
      exact hi (mem_firstIds.2 (mem_map.2 ⟨r, hr, hid⟩))
    simp [this]

/-! ## Independence of the row order -/

/-- **Row-order independence.**  For any permutation of the rows the outcome is the same: the same
    rejection, or the same individuals with identical visits (`List.Perm` on individuals: only their
    order — first appearance — may differ). -/
theorem ingest_perm (dim : Nat) {t₁ t₂ : List Row} (h : t₁.Perm t₂) :
    (∀ e, ingest dim t₁ = .error e ↔ ingest dim t₂ = .error e) ∧
    (∀ c₁, ingest dim t₁ = .ok c₁ → ∃ c₂, ingest dim t₂ = .ok c₂ ∧ c₁.Perm c₂) := by
  have hd := rowKeyDup_perm h
  have hk := kept_perm h
  have he : (kept t₁).isEmpty = (kept t₂).isEmpty := by
    have := hk.length_eq
    cases h1 : kept t₁ <;> cases h2 : kept t₂ <;> simp_all
  rw [ingest_eq, ingest_eq, hd, he]
  cases hdup : rowKeyDup t₂
  · have hn : ((kept t₁).map key).Nodup :=
      nodup_keys_filter _ (rowKeyDup_false_iff.1 (hd ▸ hdup))
    by_cases h1 : (kept t₂).isEmpty = true
    · simp [h1]
    · by_cases h2 : dim < 1
      · simp [h1, h2]
      · simp only [h1, h2, Bool.false_eq_true, ↓reduceIte]
        refine ⟨by simp, ?_⟩
        intro c₁ hc
        cases hc
        exact ⟨_, rfl, canon_perm hk hn⟩
  · simp

/-- A permutation that keeps the order of first appearance of the identifiers (among the rows that
    are not entirely missing) gives the identical result. -/
theorem ingest_perm_same_order (dim : Nat) {t₁ t₂ : List Row} (h : t₁.Perm t₂)
    (ho : firstIds ((kept t₁).map (·.id)) = firstIds ((kept t₂).map (·.id))) :
    ingest dim t₁ = ingest dim t₂ := by
  have hd := rowKeyDup_perm h
  have hk := kept_perm h
  have he : (kept t₁).isEmpty = (kept t₂).isEmpty := by
    have := hk.length_eq
    cases h1 : kept t₁ <;> cases h2 : kept t₂ <;> simp_all
  rw [ingest_eq, ingest_eq, hd, he]
  cases hdup : rowKeyDup t₂
  · have hn : ((kept t₁).map key).Nodup :=
      nodup_keys_filter _ (rowKeyDup_false_iff.1 (hd ▸ hdup))
    rw [canon_same_order hk hn ho]
  · simp

/-- the id ↦ visits map is the same for every permutation (pointwise form of `ingest_perm`) -/
theorem ingest_perm_lookup (dim : Nat) {t₁ t₂ : List Row} (h : t₁.Perm t₂) {c₁ c₂ : Canon}
    (h₁ : ingest dim t₁ = .ok c₁) (h₂ : ingest dim t₂ = .ok c₂) (p : Indiv) : p ∈ c₁ ↔ p ∈ c₂ := by
  obtain ⟨c, hc, hp⟩ := (ingest_perm dim h).2 c₁ h₁
  rw [h₂] at hc
  cases hc
  exact hp.mem_iff

/-! ## The tensor form -/

/-- The dataset is the list of per-individual slices, in the order of the individuals, each built with
    the common padded length `nVisMax`, which is at least every individual's number of visits. -/
theorem tensor_indivs (store : Int → Int) (dim : Nat) (c : Canon) :
    (tensorise store dim c).indivs = c.map (tensoriseIndiv store dim (tensorise store dim c).nVisMax) ∧
    (∀ p ∈ c, p.visits.length ≤ (tensorise store dim c).nVisMax) ∧
    (tensorise store dim c).indivs.map (·.id) = c.map (·.id) := by
  refine ⟨rfl, ?_, ?_⟩
  · intro p hp
    exact le_maxList (mem_map.2 ⟨p, hp, rfl⟩)
  · simp [tensorise, tensoriseIndiv]

/-- **Padding shape**: every slice has exactly `nMax` rows (ages, values, mask), one count per feature;
    beyond the individual's visits the ages are 0, the values 0 and the mask 0. -/
theorem padding_shape (store : Int → Int) (dim nMax : Nat) (p : Indiv) (h : p.visits.length ≤ nMax) :
    let q := tensoriseIndiv store dim nMax p
    q.times.length = nMax ∧ q.values.length = nMax ∧ q.mask.length = nMax ∧ q.nObsFt.length = dim ∧
    q.times.drop q.nVis = replicate (nMax - q.nVis) 0 ∧
    q.values.drop q.nVis = replicate (nMax - q.nVis) (replicate dim 0) ∧
    q.mask.drop q.nVis = replicate (nMax - q.nVis) (replicate dim false) := by
  simp only [tensoriseIndiv]
  refine ⟨?_, ?_, ?_, ?_, ?_, ?_, ?_⟩
  · exact padTo_length (by simpa using h)
  · exact padTo_length (by simpa using h)
  · exact padTo_length (by simpa using h)
  · simp [colSums]
  · simpa using padTo_drop nMax (0 : Int) (p.visits.map (fun v => store v.age))
  · simpa using padTo_drop nMax (replicate dim (0 : Rat)) (p.visits.map (fun v => v.vals.map fillNaN))
  · simpa using padTo_drop nMax (replicate dim false) (p.visits.map (fun v => v.vals.map Option.isSome))

/-- **Alignment**: the first `nVis` rows of ages, values and mask are the individual's visits, in order:
    stored age, value (0 where missing), presence flag. -/
theorem values_aligned (store : Int → Int) (dim nMax : Nat) (p : Indiv) :
    let q := tensoriseIndiv store dim nMax p
    q.id = p.id ∧ q.nVis = p.visits.length ∧
    q.times.take q.nVis = p.visits.map (fun v => store v.age) ∧
    q.values.take q.nVis = p.visits.map (fun v => v.vals.map fillNaN) ∧
    q.mask.take q.nVis = p.visits.map (fun v => v.vals.map Option.isSome) := by
  simp only [tensoriseIndiv]
  refine ⟨trivial, trivial, ?_, ?_, ?_⟩
  · simpa using padTo_take nMax (0 : Int) (p.visits.map (fun v => store v.age))
  · simpa using padTo_take nMax (replicate dim (0 : Rat)) (p.visits.map (fun v => v.vals.map fillNaN))
  · simpa using padTo_take nMax (replicate dim false) (p.visits.map (fun v => v.vals.map Option.isSome))

/-- **Mask**: entry `(j, k)` of an individual's mask is set iff `j` is one of its visits and feature `k`
    of that visit is present (not NaN) — in particular never on a padded row. -/
theorem mask_iff_present (store : Int → Int) (dim nMax : Nat) (p : Indiv) (j k : Nat) :
    ((tensoriseIndiv store dim nMax p).mask[j]?.bind (·[k]?)) = some true ↔
      ∃ v, p.visits[j]? = some v ∧ ∃ x, v.vals[k]? = some (some x) := by
  simp only [tensoriseIndiv]
  rw [mask_get]
  simp only [present_iff]

/-- **Counts**: visits per individual, total visits, observations per individual and feature (present
    cells only), per feature (sum over individuals) and in total. -/
theorem counts_correct (store : Int → Int) (dim : Nat) (c : Canon) :
    let t := tensorise store dim c
    t.indivs.map (·.nVis) = c.map (·.visits.length) ∧
    t.nVisTotal = (c.map (·.visits.length)).sum ∧
    (∀ q ∈ t.indivs, ∀ p ∈ c, q = tensoriseIndiv store dim t.nVisMax p → ∀ k, k < dim →
        q.nObsFt[k]? = some (p.visits.filter (fun v => present v k)).length) ∧
    (∀ k, k < dim → t.nObsFt[k]? = some (c.map (fun p => (p.visits.filter (fun v => present v k)).length)).sum) ∧
    t.nObs = t.nObsFt.sum := by
  refine ⟨by simp [tensorise, tensoriseIndiv], rfl, ?_, ?_, rfl⟩
  · intro q _ p _ hq k hk
    subst hq
    exact colSums_get dim _ p.visits hk
  · intro k hk
    simp only [tensorise, vecSum, getElem?_map, getElem?_range hk, Option.map_some, map_map, Option.some.injEq]
    congr 1
    apply map_congr_left
    intro p _
    simp only [Function.comp_apply, tensoriseIndiv]
    rw [colSums_get dim _ p.visits hk]

/-- Ages are strictly increasing in the tensor as long as single-precision storage keeps the ages of the
    individual apart (`store` strictly monotone on them). -/
theorem tensor_times_sorted (store : Int → Int) (dim nMax : Nat) (p : Indiv)
    (hs : p.visits.Pairwise (fun a b => a.age < b.age))
    (hm : ∀ a ∈ p.visits, ∀ b ∈ p.visits, a.age < b.age → store a.age < store b.age) :
    let q := tensoriseIndiv store dim nMax p
    (q.times.take q.nVis).Pairwise (· < ·) := by
  simp only
  rw [(values_aligned store dim nMax p).2.2.1, pairwise_map]
  exact hs.imp_of_mem (fun ha hb hab => hm _ ha _ hb hab)

/-! ## Round trip  `ingest → Dataset → to_pandas → ingest` -/

/-- Rebuilding the visits of an individual from its tensor slice loses nothing but the storage rounding
    of the ages: values come back with their NaN pattern, padded rows disappear. -/
theorem untensor_tensorise (store : Int → Int) (dim nMax : Nat) (p : Indiv) :
    patientVisits (tensoriseIndiv store dim nMax p) = p.visits.map (fun v => ⟨store v.age, v.vals⟩) :=
  patientVisits_tensorise store dim nMax p

/-
Full-strength statement (for every table and every monotone `store`):
    ingest dim t = ok c  →  ∃ t' c', toTable (tensorise store dim c) = ok t' ∧ ingest dim t' = ok c' ∧ c' ≈ c up to `store`
It is FALSE for the code that exists (F9): see `roundtrip_counterexample`.  Proved below under the exact
guard "single-precision storage does not move the ages of the table" (ages exactly representable).
-/

/-- **Round trip** (partial: ages that single-precision storage leaves unchanged).  The regenerated
    table exists, is accepted again, and gives the same individuals with identical visits; their order is
    the order of first appearance in the regenerated table, i.e. increasing identifier. -/
theorem roundtrip_partial (store : Int → Int) (dim : Nat) (t : List Row) (c : Canon)
    (h : ingest dim t = .ok c) (hs : ∀ p ∈ c, ∀ v ∈ p.visits, store v.age = v.age) :
    ∃ t' c', toTable (tensorise store dim c) = .ok t' ∧ ingest dim t' = .ok c' ∧
      c'.Perm c ∧ c'.Pairwise (fun p q => p.id < q.id) := by
  rw [ingest_eq] at h
  split at h
  · cases h
  · rename_i hd
    split at h
    · cases h
    · rename_i he
      split at h
      · cases h
      · rename_i hdim
        cases h
        have hk : ((kept t).map key).Nodup :=
          nodup_keys_filter _ (rowKeyDup_false_iff.1 (by simpa using hd))
        have hsorted : ∀ p ∈ canon (kept t), SortedV p.visits := by
          intro p hp
          simp only [canon, mem_map] at hp
          obtain ⟨i, _, rfl⟩ := hp
          exact sortedOf_sorted i hk
        have hperm : (sortRows (Ingest.flatten (canon (kept t)))).Perm (kept t) :=
          (sortRows_perm _).trans (flatten_canon_perm hk)
        have hk' : ((sortRows (Ingest.flatten (canon (kept t)))).map key).Nodup :=
          (hperm.map key).nodup_iff.2 hk
        have hkept : kept (sortRows (Ingest.flatten (canon (kept t)))) = sortRows (Ingest.flatten (canon (kept t))) := by
          simp only [kept, filter_eq_self]
          intro r hr
          have := hperm.mem_iff.1 hr
          simp only [kept, mem_filter] at this
          exact this.2
        refine ⟨sortRows (Ingest.flatten (canon (kept t))), canon (sortRows (Ingest.flatten (canon (kept t)))), ?_, ?_, ?_, ?_⟩
        · simp only [toTable, tensorise]
          rw [framesOf_tensorise store dim _ _ hs hsorted]
        · rw [ingest_eq, hkept]
          have h1 : rowKeyDup (sortRows (Ingest.flatten (canon (kept t)))) = false := rowKeyDup_false_iff.2 hk'
          have h2 : (sortRows (Ingest.flatten (canon (kept t)))).isEmpty = false := by
            have := hperm.length_eq
            cases h3 : sortRows (Ingest.flatten (canon (kept t))) with
            | nil => rw [h3] at this; cases h4 : kept t <;> simp_all
            | cons _ _ => rfl
          simp [h1, h2, hdim]
        · exact canon_perm hperm hk'
        · rw [← pairwise_map (f := fun p : Indiv => p.id) (R := fun a b => a < b), canon_ids]
          apply firstIds_sorted
          rw [pairwise_map]
          exact (sortRows_sorted _).imp (fun {a b} hab => by
            simp only [rowLe, Bool.or_eq_true, decide_eq_true_eq, Bool.and_eq_true, beq_iff_eq] at hab
            rcases hab with h | ⟨h, _⟩ <;> omega)

/-- Second generation is a fixpoint: when the individuals already come in increasing identifier order
    (as they do after one round trip) the round trip returns exactly the same canonical form. -/
theorem roundtrip_fixpoint (store : Int → Int) (dim : Nat) (t : List Row) (c : Canon)
    (h : ingest dim t = .ok c) (hs : ∀ p ∈ c, ∀ v ∈ p.visits, store v.age = v.age)
    (ho : c.Pairwise (fun p q => p.id < q.id)) :
    ∃ t', toTable (tensorise store dim c) = .ok t' ∧ ingest dim t' = .ok c := by
  obtain ⟨t', c', h1, h2, h3, h4⟩ := roundtrip_partial store dim t c h hs
  have : c' = c := eq_of_perm_of_pairwise (r := fun p q : Indiv => p.id < q.id)
    (fun a b h1 h2 => by omega) h4 ho h3
  exact ⟨t', h1, this ▸ h2⟩

/-- **F9** — the full-strength round trip fails for the code that exists: with a monotone storage map
    that sends two distinct ages of one individual to the same stored age (as float32 does for
    70.000001 and 70.000002) the table is accepted, the dataset is built, and `to_pandas` raises. -/
theorem roundtrip_counterexample :
    ∃ (store : Int → Int) (t : List Row) (c : Canon),
      (∀ a b, a ≤ b → store a ≤ store b) ∧ ingest 1 t = .ok c ∧
      toTable (tensorise store 1 c) = .error .overwrite := by
  refine ⟨fun a => a / 8 * 8, [⟨0, 16, [some 0]⟩, ⟨0, 17, [some 0]⟩],
    [⟨0, [⟨16, [some 0]⟩, ⟨17, [some 0]⟩]⟩], ?_, ?_, ?_⟩
  · intro a b hab; simp only; omega
  · rfl
  · rfl

/-! ## Rejection of malformed tables -/

/-- identifiers accepted by `_check_ID` -/
def IdOk (c : IdCol) : Prop :=
  c.kind ≠ .other ∧ c.hasNa = false ∧ (c.kind = .integer → c.hasNegative = false) ∧
  (c.kind = .string → c.hasEmpty = false)

/-- a well-formed visit table: none of the modelled malformations -/
structure WellFormed (t : RawTable) : Prop where
  id : IdOk t.idCol
  timeNumeric : t.timeNumeric = true
  agesFinite : ∀ r ∈ t.rows, ∃ a, r.age = .fin a
  noDuplicate : (t.rows.map (fun r => (r.id, r.age))).Nodup
  valuesNumeric : ∀ b ∈ t.colNumeric, b = true
  valuesFinite : ∀ r ∈ t.rows, ∀ x ∈ r.vals, x ≠ .inf
  someObservation : ∃ r ∈ t.rows, ∃ q, Cell.fin q ∈ r.vals
  someFeature : 1 ≤ t.colNumeric.length

private theorem checkId_ok_iff (c : IdCol) : checkId c = .ok () ↔ IdOk c := by
  obtain ⟨k, a, b, d⟩ := c
  cases k <;> cases a <;> cases b <;> cases d <;> simp [checkId, IdOk]

/-- **Rejection.**  `Data.from_dataframe` accepts a visit table iff it carries none of the modelled
    malformations: invalid identifiers, non-numeric / missing / infinite ages, duplicate visits after the
    6-digit rounding, non-numeric or infinite values, nothing observed, no feature column.
    Every rejection is a `LeaspyDataInputError` (all `Err` constructors are). -/
theorem rejects_iff_malformed (t : RawTable) : (∃ c, ingestRaw t = .ok c) ↔ WellFormed t := by
  unfold ingestRaw
  cases hid : checkId t.idCol with
  | error e =>
    simp only [reduceCtorEq, exists_false, false_iff]
    intro hw
    have := (checkId_ok_iff _).2 hw.id
    rw [hid] at this; cases this
  | ok u =>
    have hidok : IdOk t.idCol := (checkId_ok_iff _).1 hid
    cases htn : t.timeNumeric with
    | false =>
      simp only [Bool.not_false, ↓reduceIte, reduceCtorEq, exists_false, false_iff]
      intro hw; have := hw.timeNumeric; simp_all
    | true =>
      simp only [Bool.not_true, Bool.false_eq_true, ↓reduceIte]
      cases hag : agesOf t.rows with
      | error e =>
        simp only [reduceCtorEq, exists_false, false_iff]
        intro hw
        obtain ⟨_, r, hr, hne⟩ := agesOf_error hag
        obtain ⟨a, ha⟩ := hw.agesFinite r hr
        exact hne a ha
      | ok rs =>
        have hrows := agesOf_ok hag
        simp only
        -- the four table-level conditions, expressed on the caller's rows
        have hkeys : rowKeyDup (rs.map (fun r => (⟨r.1, r.2.1, r.2.2.map cellToObs⟩ : Row))) = false ↔
            (t.rows.map (fun r => (r.id, r.age))).Nodup := by
          rw [rowKeyDup_false_iff, hrows]
          simp only [map_map, Nodup, pairwise_map]
          apply Pairwise.iff
          intro a b
          simp [key, mkRaw]
        have hnum : (t.colNumeric.all id = true) ↔ ∀ b ∈ t.colNumeric, b = true := by
          simp [all_eq_true]
        have hinf : (rs.any (fun r => hasInf r.2.2) = false) ↔ ∀ r ∈ t.rows, ∀ x ∈ r.vals, x ≠ .inf := by
          rw [hrows]
          simp only [any_eq_false, hasInf, mem_map, forall_exists_index, and_imp, forall_apply_eq_imp_iff₂,
            mkRaw]
          constructor
          · intro h a ha x hx heq
            exact h a ha (any_eq_true.2 ⟨x, hx, by simp [heq]⟩)
          · intro h a ha hany
            obtain ⟨x, hx, hxe⟩ := any_eq_true.1 hany
            exact h a ha x hx (by simpa using hxe)
        have hobs : (∀ r ∈ t.rows, ∀ x ∈ r.vals, x ≠ .inf) →
            ((kept (rs.map (fun r => (⟨r.1, r.2.1, r.2.2.map cellToObs⟩ : Row)))).isEmpty = false ↔
              ∃ r ∈ t.rows, ∃ q, Cell.fin q ∈ r.vals) := by
          intro hfin
          rw [hrows] at hfin ⊢
          simp only [kept, isEmpty_eq_false_iff_exists_mem, mem_filter, mem_map, Bool.not_eq_true', mkRaw]
          constructor
          · rintro ⟨x, ⟨a, ha, rfl⟩, hx⟩
            refine ⟨_, ⟨a, ha, rfl⟩, ?_⟩
            exact (allMissing_map_cellToObs _ (fun y hy => hfin _ (mem_map.2 ⟨a, ha, rfl⟩) y hy)).1 hx
          · rintro ⟨r, ⟨a, ha, rfl⟩, hq⟩
            refine ⟨_, ⟨a, ha, rfl⟩, ?_⟩
            exact (allMissing_map_cellToObs _ (fun y hy => hfin _ (mem_map.2 ⟨a, ha, rfl⟩) y hy)).2 hq
        constructor
        · rintro ⟨c, hc⟩
          split at hc
          · cases hc
          · rename_i hd
            split at hc
            · cases hc
            · rename_i hn
              split at hc
              · cases hc
              · rename_i hi
                have hd' := hkeys.1 (by simpa using hd)
                have hn' := hnum.1 (by simpa using hn)
                have hi' := hinf.1 (by simpa using hi)
                rw [ingest_eq] at hc
                simp only [show rowKeyDup _ = false by simpa using hd, Bool.false_eq_true, ↓reduceIte] at hc
                split at hc
                · cases hc
                · rename_i he
                  split at hc
                  · cases hc
                  · rename_i hdim
                    exact ⟨hidok, htn, fun r hr => by
                        rw [hrows] at hr; obtain ⟨x, _, rfl⟩ := mem_map.1 hr; exact ⟨x.2.1, rfl⟩,
                      hd', hn', hi', (hobs hi').1 (by simpa using he), by omega⟩
        · intro hw
          have hd := hkeys.2 hw.noDuplicate
          have hn := hnum.2 hw.valuesNumeric
          have hi := hinf.2 hw.valuesFinite
          have he := (hobs hw.valuesFinite).2 hw.someObservation
          have hdim : ¬ t.colNumeric.length < 1 := by have := hw.someFeature; omega
          refine ⟨canon (kept (rs.map (fun r => (⟨r.1, r.2.1, r.2.2.map cellToObs⟩ : Row)))), ?_⟩
          rw [ingest_eq]
          simp only [hd, hn, hi, he, hdim, Bool.false_eq_true, ↓reduceIte, Bool.not_true]


/-- an event row whose two cells are acceptable: positive finite time, non-negative integer indicator -/
def EvCellOk (r : EvRow) : Prop :=
  ∃ t q, r.time = .fin t ∧ 0 < t ∧ r.code = .fin q ∧ q.den = 1 ∧ 0 ≤ q.num

/-! ## Event layout: acceptance iff well-formed, order of first appearance -/

private theorem evCellOk_iff (r : EvRow) : EvCellOk r ↔ (evTimeOk r = true ∧ evCodeOk r = true) := by
  obtain ⟨i, t, c⟩ := r
  cases t <;> cases c <;> simp [EvCellOk, evTimeOk, evCodeOk]

instance (r : EvRow) : Decidable (EvCellOk r) := decidable_of_iff _ (evCellOk_iff r).symm

/-- a row of an event table that `dropna(how="all")` removes: both cells missing -/
def EvMissing (r : EvRow) : Prop := r.time = .nan ∧ r.code = .nan

instance (r : EvRow) : Decidable (EvMissing r) := by unfold EvMissing; infer_instance

/-- A well-formed table of events, for the value `nb` of the reader's `nb_events` argument:
    one row per individual; every row either entirely missing or with a positive finite time and a non-negative
    integer indicator; at least one row that is not entirely missing; and the indicators compatible with `nb`
    (`CountOk`: `nb` not given or 0 — some indicator is non-zero; `nb ≥ 1` given — the largest indicator is `nb`, or
    all indicators are 0). -/
def WellFormedEvents (nb : Option Nat) (rows : List EvRow) : Prop :=
  (rows.map (·.id)).Nodup ∧
  (∀ r ∈ rows, EvMissing r ∨ EvCellOk r) ∧
  (∃ r ∈ rows, ¬ EvMissing r) ∧
  CountOk nb ((evKept rows).map (fun r => evCode r.code))

instance (nb : Option Nat) (rows : List EvRow) : Decidable (WellFormedEvents nb rows) := by
  unfold WellFormedEvents; infer_instance

private theorem mem_evKept {rows : List EvRow} {r : EvRow} : r ∈ evKept rows ↔ r ∈ rows ∧ ¬ EvMissing r := by
  simp only [evKept, EvMissing, mem_filter, Bool.not_eq_eq_eq_not, Bool.not_true, Bool.and_eq_false_imp, beq_iff_eq,
    beq_eq_false_iff_ne, ne_eq, not_and]

private theorem no_inf_of_cells {rows : List EvRow} (h : ∀ r ∈ rows, EvMissing r ∨ EvCellOk r) :
    rows.any evHasInf = false := by
  rw [any_eq_false]
  intro r hr
  rcases h r hr with ⟨h1, h2⟩ | ⟨t, q, h1, _, h2, _⟩ <;> simp [evHasInf, h1, h2]

private theorem events_ok_iff {nb : Option Nat} {rows : List EvRow} {res : List Event × Nat} :
    ingestEventTable nb rows = .ok res ↔
      WellFormedEvents nb rows ∧
      res = ((evKept rows).map evOf, countOf nb ((evKept rows).map (fun r => evCode r.code))) := by
  rw [ingestEventTable_eq]
  by_cases hd : evIdDup rows = true
  · simp only [hd, ↓reduceIte, reduceCtorEq, false_iff, not_and]
    intro hw
    have := evIdDup_false_iff.2 hw.1
    rw [hd] at this; cases this
  · have hd' : evIdDup rows = false := by simpa using hd
    have hn := evIdDup_false_iff.1 hd'
    have hnk : (((evKept rows).map evOf).map (·.id)).Nodup := by
      rw [map_map]
      exact hn.sublist (filter_sublist.map _)
    have hcons : KeyConsistent (·.id) ((evKept rows).map evOf) :=
      fun a ha b hb hab => eq_of_nodup_map (·.id) hnk ha hb hab
    have hfirst : evFirst ((evKept rows).map evOf) = (evKept rows).map evOf := by
      rw [evFirst_eq]; exact firstBy_of_nodup hnk
    by_cases hi : rows.any evHasInf = true
    · simp only [hd', Bool.false_eq_true, hi, ↓reduceIte, reduceCtorEq, false_iff, not_and]
      intro hw
      have := no_inf_of_cells hw.2.1
      rw [hi] at this; cases this
    · simp only [hd', Bool.false_eq_true, hi, ↓reduceIte, ingestEvents_ok_iff, hfirst]
      constructor
      · rintro ⟨h1, _, h3, h4, h5⟩
        refine ⟨⟨hn, ?_, ?_, h4⟩, h5⟩
        · intro r hr
          by_cases hm : EvMissing r
          · exact Or.inl hm
          · exact Or.inr ((evCellOk_iff r).2 (h1 r (mem_evKept.2 ⟨hr, hm⟩)))
        · cases hk : evKept rows with
          | nil => exact absurd hk h3
          | cons r rs =>
            have : r ∈ evKept rows := by rw [hk]; simp
            exact ⟨r, (mem_evKept.1 this).1, (mem_evKept.1 this).2⟩
      · rintro ⟨⟨_, h2, ⟨r, hr, hm⟩, h4⟩, h5⟩
        refine ⟨?_, hcons, ?_, h4, h5⟩
        · intro s hs
          have := mem_evKept.1 hs
          rcases h2 s this.1 with h | h
          · exact absurd h this.2
          · exact (evCellOk_iff s).1 h
        · intro hk
          have : r ∈ evKept rows := mem_evKept.2 ⟨hr, hm⟩
          rw [hk] at this; cases this

/-- **Events, both directions.**  `Data.from_dataframe(df, "event")` accepts a table iff it is well-formed
    (`WellFormedEvents`): a repeated individual, a missing / non-positive / infinite event time next to a present
    indicator, a missing, fractional, negative or infinite indicator, a table whose rows are all entirely missing, no
    observed event without a declared number of events, or a declared number different from the largest indicator,
    are each refused (`Err` = `LeaspyDataInputError`) — and nothing else is. -/
theorem events_rejects_iff_malformed (nb : Option Nat) (rows : List EvRow) :
    (∃ res, ingestEventTable nb rows = .ok res) ↔ WellFormedEvents nb rows := by
  constructor
  · rintro ⟨res, h⟩; exact (events_ok_iff.1 h).1
  · intro h; exact ⟨_, events_ok_iff.2 ⟨h, rfl⟩⟩

/-- **Event-only data keep the order of first appearance (F9d, fixed).**  The individuals of an accepted table of
    events are, in table order, exactly the rows that are not entirely missing: written back as rows
    (`rowOfEvent`) the events *are* those rows, so no event is lost, moved to another individual, recoded or
    reordered (in particular not sorted by identifier); the number of events is the declared one, else the largest
    indicator. -/
theorem events_first_appearance (nb : Option Nat) (rows : List EvRow) (res : List Event × Nat)
    (h : ingestEventTable nb rows = .ok res) :
    res.1.map (·.id) = firstIds ((evKept rows).map (·.id)) ∧
    res.1.map (·.id) = (evKept rows).map (·.id) ∧
    res.1.map rowOfEvent = evKept rows ∧
    res.2 = countOf nb (res.1.map (·.code)) := by
  obtain ⟨hw, rfl⟩ := events_ok_iff.1 h
  have hn : ((evKept rows).map (·.id)).Nodup := hw.1.sublist (filter_sublist.map _)
  have hcell : ∀ r ∈ evKept rows, evTimeOk r = true ∧ evCodeOk r = true := by
    intro r hr
    have := mem_evKept.1 hr
    rcases hw.2.1 r this.1 with h | h
    · exact absurd h this.2
    · exact (evCellOk_iff r).1 h
  simp only [map_map]
  refine ⟨by rw [firstIds_of_nodup hn]; rfl, rfl, ?_, by rfl⟩
  conv => rhs; rw [← map_id (evKept rows)]
  apply map_congr_left
  intro r hr
  exact evOf_toRow (hcell r hr).1 (hcell r hr).2

/-- In the event-only layout the per-individual uniqueness check of `(EVENT_TIME, EVENT_BOOL)` can never fire: the
    index `ID` is unique before it is reached. -/
theorem events_unique_check_unreachable (nb : Option Nat) (rows : List EvRow) :
    ingestEventTable nb rows ≠ .error .eventUnique := by
  rw [ingestEventTable_eq]
  by_cases hd : evIdDup rows = true
  · simp [hd]
  · have hd' : evIdDup rows = false := by simpa using hd
    have hnk : (((evKept rows).map evOf).map (·.id)).Nodup := by
      rw [map_map]
      exact (evIdDup_false_iff.1 hd').sublist (filter_sublist.map _)
    have hc : evConsistent ((evKept rows).map evOf) = true :=
      evConsistent_iff.2 (fun a ha b hb hab => eq_of_nodup_map (·.id) hnk ha hb hab)
    by_cases hi : rows.any evHasInf = true
    · simp [hd', hi]
    · simp only [hd', hi, Bool.false_eq_true, ↓reduceIte, ingestEvents_eq, hc, Bool.not_true]
      repeat' split
      all_goals first | simp | skip
      rename_i e he
      intro h; cases h
      simp only [evCount] at he
      repeat' split at he
      all_goals simp at he

/-- Row-order independence of the event layout: the same rejection, or the same events up to their order. -/
theorem events_perm (nb : Option Nat) {t₁ t₂ : List EvRow} (h : t₁.Perm t₂) :
    (∀ e, ingestEventTable nb t₁ = .error e ↔ ingestEventTable nb t₂ = .error e) ∧
    (∀ ev₁ n, ingestEventTable nb t₁ = .ok (ev₁, n) → ∃ ev₂, ingestEventTable nb t₂ = .ok (ev₂, n) ∧ ev₁.Perm ev₂) := by
  have hrel : ExceptRel (fun a b => a.1.Perm b.1 ∧ a.2 = b.2) (ingestEventTable nb t₁) (ingestEventTable nb t₂) := by
    have hd : evIdDup t₁ = evIdDup t₂ := by
      have := (h.map (·.id)).nodup_iff
      rw [← evIdDup_false_iff, ← evIdDup_false_iff] at this
      cases h1 : evIdDup t₁ <;> cases h2 : evIdDup t₂ <;> simp_all
    rw [ingestEventTable_eq, ingestEventTable_eq, hd, h.any_eq]
    by_cases h1 : evIdDup t₂ = true
    · simp [h1, ExceptRel]
    · by_cases h2 : t₂.any evHasInf = true
      · simp [h1, h2, ExceptRel]
      · simp only [h1, h2, Bool.false_eq_true, ↓reduceIte]
        exact ingestEvents_perm nb (h.filter _)
  refine ⟨hrel.error_iff, ?_⟩
  intro ev₁ n h1
  obtain ⟨⟨ev₂, n'⟩, h2, hp, hn⟩ := hrel.ok_imp h1
  simp only at hp hn
  subst hn
  exact ⟨ev₂, h2, hp⟩


/-- **Events**: a table of events is accepted only if every individual appears once and every row is
    either entirely missing (dropped) or has a positive finite event time and a non-negative integer
    event indicator: missing, fractional, negative or infinite indicators and non-positive, missing or
    infinite times are rejected (with a data-input error), never silently recoded.
    (One direction; `events_rejects_iff_malformed` is the equivalence.) -/
theorem events_rejects_malformed (nb : Option Nat) (rows : List EvRow) (res : List Event × Nat)
    (h : ingestEventTable nb rows = .ok res) :
    evIdDup rows = false ∧
    ∀ r ∈ rows, (r.time = .nan ∧ r.code = .nan) ∨ EvCellOk r := by
  obtain ⟨hw, _⟩ := events_ok_iff.1 h
  exact ⟨evIdDup_false_iff.2 hw.1, hw.2.1⟩

/-! ## Joint layout -/

/-- the event time `t` is earlier than the visit at age `a` by more than the tolerance (`tol_diff = 0.001`) -/
def EventBefore (t : Cell Int) (a : Int) : Prop :=
  match t with
  | .fin t => t - a < -tolMicro
  | _ => False

instance (t : Cell Int) (a : Int) : Decidable (EventBefore t a) := by unfold EventBefore; split <;> infer_instance

/-- A well-formed joint table (`dim` feature columns, `nb` = the reader's `nb_events` argument).
    *Visit part*: no duplicate `(ID, TIME)`, some row that is not entirely missing, at least one feature column.
    *Event part*, on the rows that are kept (`jKept`: not entirely missing over features **and** event columns):
    acceptable event cells on every kept row, one `(EVENT_TIME, EVENT_BOOL)` per individual, indicators compatible
    with `nb`.  *Cross check*: an event earlier than some visit of its individual by more than the tolerance must be
    censored (indicator 0). -/
def WellFormedJoint (dim : Nat) (nb : Option Nat) (rows : List JRow) : Prop :=
  (rows.map (fun r => (r.row.id, r.row.age))).Nodup ∧
  (∃ r ∈ rows, jDropped r = false) ∧
  1 ≤ dim ∧
  (∀ r ∈ rows, jDropped r = true ∨ EvCellOk (jEv r)) ∧
  (∀ r ∈ jKept rows, ∀ s ∈ jKept rows, r.row.id = s.row.id → r.time = s.time ∧ r.code = s.code) ∧
  CountOk nb ((jKept rows).map (fun r => evCode r.code)) ∧
  (∀ r ∈ jKept rows, ∀ s ∈ jKept rows, r.row.id = s.row.id → EventBefore r.time s.row.age → evCode r.code = 0)

instance (dim : Nat) (nb : Option Nat) (rows : List JRow) : Decidable (WellFormedJoint dim nb rows) := by
  unfold WellFormedJoint; infer_instance

private theorem mem_jKept {rows : List JRow} {r : JRow} : r ∈ jKept rows ↔ r ∈ rows ∧ jDropped r = false := by
  simp [jKept]

private theorem jDropped_cells {r : JRow} (h : jDropped r = true) : r.time = .nan ∧ r.code = .nan := by
  simp only [jDropped, Bool.and_eq_true, beq_iff_eq] at h
  exact ⟨h.1.2, h.2⟩

private theorem joint_ok_iff {dim : Nat} {nb : Option Nat} {rows : List JRow} {res : Canon × List Event × Nat} :
    ingestJoint dim nb rows = .ok res ↔
      WellFormedJoint dim nb rows ∧
      res = (canon ((jKept rows).map (·.row)), evFirst (((jKept rows).map jEv).map evOf),
             countOf nb ((jKept rows).map (fun r => evCode r.code))) := by
  rw [ingestJoint_eq]
  have hkeys : rowKeyDup (rows.map (·.row)) = false ↔ (rows.map (fun r => (r.row.id, r.row.age))).Nodup := by
    rw [rowKeyDup_false_iff, map_map]; rfl
  have hcodes : ((jKept rows).map jEv).map (fun r => evCode r.code) = (jKept rows).map (fun r => evCode r.code) := by
    rw [map_map]; rfl
  by_cases hd : rowKeyDup (rows.map (·.row)) = true
  · simp only [hd, ↓reduceIte, reduceCtorEq, false_iff, not_and]
    intro hw; have := hkeys.2 hw.1; rw [hd] at this; cases this
  have hd' : rowKeyDup (rows.map (·.row)) = false := by simpa using hd
  by_cases hi : rows.any (fun r => r.time == .inf || r.code == .inf) = true
  · simp only [hd', hi, Bool.false_eq_true, ↓reduceIte, reduceCtorEq, false_iff, not_and]
    intro hw
    obtain ⟨r, hr, hinf⟩ := any_eq_true.1 hi
    rcases hw.2.2.2.1 r hr with h | ⟨t, q, h1, _, h2, _⟩
    · have := jDropped_cells h; simp [this.1, this.2] at hinf
    · simp only [jEv] at h1 h2; simp [h1, h2] at hinf
  by_cases he : (jKept rows).isEmpty = true
  · simp only [hd', hi, he, Bool.false_eq_true, ↓reduceIte, reduceCtorEq, false_iff, not_and]
    intro hw
    obtain ⟨r, hr, hk⟩ := hw.2.1
    have : r ∈ jKept rows := mem_jKept.2 ⟨hr, hk⟩
    rw [isEmpty_iff.1 he] at this; cases this
  by_cases hdim : dim < 1
  · simp only [hd', hi, he, hdim, Bool.false_eq_true, ↓reduceIte, reduceCtorEq, false_iff, not_and]
    intro hw; have := hw.2.2.1; omega
  simp only [hd', hi, he, hdim, Bool.false_eq_true, ↓reduceIte]
  have hne : ∃ r ∈ rows, jDropped r = false := by
    cases hk : jKept rows with
    | nil => rw [hk] at he; simp at he
    | cons r rs =>
      have : r ∈ jKept rows := by rw [hk]; simp
      exact ⟨r, (mem_jKept.1 this).1, (mem_jKept.1 this).2⟩
  -- the event part, translated to the rows of the table
  have hcellT : (∀ r ∈ (jKept rows).map jEv, evTimeOk r = true ∧ evCodeOk r = true) ↔
      ∀ r ∈ rows, jDropped r = true ∨ EvCellOk (jEv r) := by
    simp only [mem_map, forall_exists_index, and_imp, forall_apply_eq_imp_iff₂]
    constructor
    · intro h r hr
      by_cases hk : jDropped r = true
      · exact Or.inl hk
      · exact Or.inr ((evCellOk_iff _).2 (h r (mem_jKept.2 ⟨hr, by simpa using hk⟩)))
    · intro h r hr
      have := mem_jKept.1 hr
      rcases h r this.1 with h | h
      · rw [this.2] at h; cases h
      · exact (evCellOk_iff _).1 h
  have hconsT : (∀ r ∈ (jKept rows).map jEv, evTimeOk r = true ∧ evCodeOk r = true) →
      (KeyConsistent (·.id) (((jKept rows).map jEv).map evOf) ↔
        ∀ r ∈ jKept rows, ∀ s ∈ jKept rows, r.row.id = s.row.id → r.time = s.time ∧ r.code = s.code) := by
    intro hc
    simp only [mem_map, forall_exists_index, and_imp, forall_apply_eq_imp_iff₂] at hc
    simp only [KeyConsistent, mem_map, forall_exists_index, and_imp, forall_apply_eq_imp_iff₂]
    constructor
    · intro h r hr s hs hid
      have := evOf_inj (hc r hr) (hc s hs) (h r hr s hs hid)
      simp only [jEv, EvRow.mk.injEq] at this
      exact this.2
    · intro h r hr s hs hid
      have hid' : r.row.id = s.row.id := hid
      obtain ⟨h1, h2⟩ := h r hr s hs hid'
      simp only [jEv, h1, h2, hid']
  have hcrossT : (∀ r ∈ (jKept rows).map jEv, evTimeOk r = true ∧ evCodeOk r = true) →
      KeyConsistent (·.id) (((jKept rows).map jEv).map evOf) →
      (jointCross (evFirst (((jKept rows).map jEv).map evOf)) ((jKept rows).map (·.row)) = true ↔
        ∀ r ∈ jKept rows, ∀ s ∈ jKept rows, r.row.id = s.row.id → EventBefore r.time s.row.age → evCode r.code = 0) := by
    intro hc hk
    simp only [mem_map, forall_exists_index, and_imp, forall_apply_eq_imp_iff₂] at hc
    rw [jointCross_iff]
    simp only [evFirst_eq, mem_firstBy hk, mem_map, forall_exists_index, and_imp, forall_apply_eq_imp_iff₂]
    constructor
    · intro h r hr s hs hid hb
      have := (hc r hr).1
      cases ht : r.time with
      | fin t =>
        rw [ht] at hb
        have := h r hr s hs hid.symm (by simpa [evOf, jEv, ht, EventBefore] using hb)
        simpa [evOf, jEv] using this
      | nan => rw [ht] at hb; cases hb
      | inf => rw [ht] at hb; cases hb
    · intro h r hr s hs hid hb
      have hto := (hc r hr).1
      cases ht : r.time with
      | fin t =>
        have := h r hr s hs hid.symm (by simpa [evOf, jEv, ht, EventBefore] using hb)
        simpa [evOf, jEv] using this
      | nan => simp [evTimeOk, jEv, ht] at hto
      | inf => simp [evTimeOk, jEv, ht] at hto
  cases hev : ingestEvents nb ((jKept rows).map jEv) with
  | error e =>
    simp only [reduceCtorEq, false_iff, not_and]
    intro hw
    have hc := hcellT.2 hw.2.2.2.1
    have : ingestEvents nb ((jKept rows).map jEv) = .ok (evFirst (((jKept rows).map jEv).map evOf),
        countOf nb (((jKept rows).map jEv).map (fun r => evCode r.code))) :=
      ingestEvents_ok_iff.2 ⟨hc, (hconsT hc).2 hw.2.2.2.2.1, by
        intro h; rw [map_eq_nil_iff] at h; rw [h] at he; simp at he, hcodes ▸ hw.2.2.2.2.2.1, rfl⟩
    rw [hev] at this; cases this
  | ok r =>
    obtain ⟨evs, n⟩ := r
    obtain ⟨hc, hk, _, hcnt, hres⟩ := ingestEvents_ok_iff.1 hev
    simp only [Prod.mk.injEq] at hres
    obtain ⟨rfl, rfl⟩ := hres
    rw [hcodes] at hcnt ⊢
    simp only
    by_cases hx : jointCross (evFirst (((jKept rows).map jEv).map evOf)) ((jKept rows).map (·.row)) = true
    · simp only [hx, Bool.not_true, Bool.false_eq_true, ↓reduceIte, Except.ok.injEq]
      constructor
      · intro h
        exact ⟨⟨hkeys.1 hd', hne, by omega, hcellT.1 hc, (hconsT hc).1 hk, hcnt, (hcrossT hc hk).1 hx⟩, h.symm⟩
      · rintro ⟨_, h⟩; exact h.symm
    · simp only [hx, Bool.not_false, ↓reduceIte, reduceCtorEq, false_iff, not_and]
      intro hw
      exact absurd ((hcrossT hc hk).2 hw.2.2.2.2.2.2) hx

theorem joint_accepts_iff (dim : Nat) (nb : Option Nat) (rows : List JRow) :
    (∃ res, ingestJoint dim nb rows = .ok res) ↔ WellFormedJoint dim nb rows := by
  constructor
  · rintro ⟨res, h⟩; exact (joint_ok_iff.1 h).1
  · intro h; exact ⟨_, joint_ok_iff.2 ⟨h, rfl⟩⟩

private theorem joint_ok_parts {dim : Nat} {nb : Option Nat} {rows : List JRow} {c : Canon} {evs : List Event} {n : Nat}
    (h : ingestJoint dim nb rows = .ok (c, evs, n)) :
    rowKeyDup (rows.map (·.row)) = false ∧ ingestEvents nb ((jKept rows).map jEv) = .ok (evs, n) ∧
    jointCross evs ((jKept rows).map (·.row)) = true ∧ c = canon ((jKept rows).map (·.row)) := by
  rw [ingestJoint_eq] at h
  by_cases hd : rowKeyDup (rows.map (·.row)) = true
  · simp [hd] at h
  by_cases hi : rows.any (fun r => r.time == .inf || r.code == .inf) = true
  · simp [hd, hi] at h
  by_cases he : (jKept rows).isEmpty = true
  · simp [hd, hi, he] at h
  by_cases hdim : dim < 1
  · simp [hd, hi, he, hdim] at h
  simp only [hd, hi, he, hdim, Bool.false_eq_true, ↓reduceIte] at h
  cases hev : ingestEvents nb ((jKept rows).map jEv) with
  | error e => rw [hev] at h; cases h
  | ok r =>
    obtain ⟨evs', n'⟩ := r
    rw [hev] at h
    simp only at h
    by_cases hx : jointCross evs' ((jKept rows).map (·.row)) = true
    · simp only [hx, Bool.not_true, Bool.false_eq_true, ↓reduceIte, Except.ok.injEq, Prod.mk.injEq] at h
      obtain ⟨rfl, rfl, rfl⟩ := h
      exact ⟨by simpa using hd, rfl, hx, rfl⟩
    · simp [hx] at h

/-- **What an accepted joint table becomes.**  The longitudinal part is the shared loading loop run on the rows that
    are not entirely missing (so `visits_strictly_sorted`, `ids_first_appearance`, `no_visit_lost` apply); there is
    exactly one event per individual, in the order of the individuals (so the reader's check "all patients must have
    at least one visit and one event" can never fire); every kept row carries the event of its individual, unchanged;
    the number of events is the declared one, else the largest indicator. -/
theorem joint_result (dim : Nat) (nb : Option Nat) (rows : List JRow) (c : Canon) (evs : List Event) (n : Nat)
    (h : ingestJoint dim nb rows = .ok (c, evs, n)) :
    loadAll ((jKept rows).map (·.row)) = .ok c ∧
    evs.map (·.id) = c.map (·.id) ∧
    (∀ r ∈ jKept rows, ∃ e ∈ evs, rowOfEvent e = jEv r) ∧
    (∀ e ∈ evs, ∃ r ∈ jKept rows, rowOfEvent e = jEv r) ∧
    n = countOf nb ((jKept rows).map (fun r => evCode r.code)) := by
  obtain ⟨hd, hev, _, rfl⟩ := joint_ok_parts h
  have hk := nodup_keys_map_filter (fun r : JRow => r.row) (fun r => !jDropped r) (rowKeyDup_false_iff.1 hd)
  obtain ⟨hc, hcons, _, _, hres⟩ := ingestEvents_ok_iff.1 hev
  simp only [Prod.mk.injEq] at hres
  obtain ⟨rfl, rfl⟩ := hres
  simp only [mem_map, forall_exists_index, and_imp, forall_apply_eq_imp_iff₂] at hc
  refine ⟨loadAll_eq_canon hk, ?_, ?_, ?_, by rw [map_map]; rfl⟩
  · rw [evFirst_eq, firstBy_keys, canon_ids]
    simp only [map_map]; rfl
  · intro r hr
    refine ⟨evOf (jEv r), ?_, evOf_toRow (hc r hr).1 (hc r hr).2⟩
    rw [evFirst_eq, mem_firstBy hcons]
    exact mem_map.2 ⟨jEv r, mem_map.2 ⟨r, hr, rfl⟩, rfl⟩
  · intro e he
    rw [evFirst_eq] at he
    obtain ⟨x, hx, rfl⟩ := mem_map.1 (mem_firstBy_sub he)
    obtain ⟨r, hr, rfl⟩ := mem_map.1 hx
    exact ⟨r, hr, evOf_toRow (hc r hr).1 (hc r hr).2⟩

/-- **The last visit is the latest one, not the last row.**  `lastVisit i rows` (the `groupby("ID").max()["TIME"]`
    of the cross check) is the greatest age among the rows of individual `i`, wherever that row stands in the table,
    and does not exist only for an individual without rows. -/
theorem last_visit_is_max (i : Nat) (rows : List Row) :
    (∀ a, lastVisit i rows = some a ↔ (∃ r ∈ rows, r.id = i ∧ r.age = a) ∧ ∀ r ∈ rows, r.id = i → r.age ≤ a) ∧
    (lastVisit i rows = none ↔ ∀ r ∈ rows, r.id ≠ i) :=
  ⟨fun _ => lastVisit_eq_some_iff, lastVisit_eq_none_iff⟩

/-- … hence it is the same for every row order. -/
theorem last_visit_perm {t₁ t₂ : List Row} (h : t₁.Perm t₂) (i : Nat) : lastVisit i t₁ = lastVisit i t₂ :=
  lastVisit_perm h i

/-- **The cross check, as coded**: it passes iff every event that is earlier than *some* visit of its individual by
    more than the tolerance (1000 micro-units = `tol_diff`) is censored.  Comparing with the latest visit
    (`lastVisit`, what the code does) or with every visit is the same thing. -/
theorem joint_cross_check_iff (evs : List Event) (rows : List Row) :
    jointCross evs rows = true ↔ ∀ e ∈ evs, ∀ r ∈ rows, r.id = e.id → e.time - r.age < -tolMicro → e.code = 0 :=
  jointCross_iff

/-- **Row-order independence of the joint layout.**  For any permutation of the rows: the same rejection, or the
    same individuals with identical visits, the same events and the same number of events (`List.Perm`: only the
    order of the individuals — first appearance — may differ). -/
theorem joint_perm (dim : Nat) (nb : Option Nat) {t₁ t₂ : List JRow} (h : t₁.Perm t₂) :
    (∀ e, ingestJoint dim nb t₁ = .error e ↔ ingestJoint dim nb t₂ = .error e) ∧
    (∀ c₁ ev₁ n, ingestJoint dim nb t₁ = .ok (c₁, ev₁, n) →
      ∃ c₂ ev₂, ingestJoint dim nb t₂ = .ok (c₂, ev₂, n) ∧ c₁.Perm c₂ ∧ ev₁.Perm ev₂) := by
  have hrel : ExceptRel (fun a b => a.1.Perm b.1 ∧ a.2.1.Perm b.2.1 ∧ a.2.2 = b.2.2)
      (ingestJoint dim nb t₁) (ingestJoint dim nb t₂) := by
    have hk := jKept_perm h
    rw [ingestJoint_eq, ingestJoint_eq, rowKeyDup_perm (h.map (·.row)), h.any_eq, hk.isEmpty_eq]
    by_cases hd : rowKeyDup (t₂.map (·.row)) = true
    · simp [hd, ExceptRel]
    by_cases hi : t₂.any (fun r => r.time == .inf || r.code == .inf) = true
    · simp [hd, hi, ExceptRel]
    by_cases he : (jKept t₂).isEmpty = true
    · simp [hd, hi, he, ExceptRel]
    by_cases hdim : dim < 1
    · simp [hd, hi, he, hdim, ExceptRel]
    simp only [hd, hi, he, hdim, Bool.false_eq_true, ↓reduceIte]
    have hn : (((jKept t₁).map (·.row)).map key).Nodup := by
      have : rowKeyDup (t₁.map (·.row)) = false := by rw [rowKeyDup_perm (h.map (·.row))]; simpa using hd
      exact nodup_keys_map_filter (fun r : JRow => r.row) (fun r => !jDropped r) (rowKeyDup_false_iff.1 this)
    have hev := ingestEvents_perm nb (hk.map jEv)
    cases h1 : ingestEvents nb ((jKept t₁).map jEv) with
    | error e₁ =>
      cases h2 : ingestEvents nb ((jKept t₂).map jEv) with
      | error e₂ => rw [h1, h2] at hev; simpa [ExceptRel] using hev
      | ok r₂ => rw [h1, h2] at hev; simp [ExceptRel] at hev
    | ok r₁ =>
      cases h2 : ingestEvents nb ((jKept t₂).map jEv) with
      | error e₂ => rw [h1, h2] at hev; simp [ExceptRel] at hev
      | ok r₂ =>
        rw [h1, h2] at hev
        obtain ⟨ev₁, n₁⟩ := r₁
        obtain ⟨ev₂, n₂⟩ := r₂
        simp only [ExceptRel] at hev
        obtain ⟨hp, hn'⟩ := hev
        replace hp : ev₁.Perm ev₂ := hp
        replace hn' : n₁ = n₂ := hn'
        subst hn'
        simp only [jointCross_perm hp (hk.map (·.row))]
        by_cases hx : jointCross ev₂ ((jKept t₂).map (·.row)) = true
        · simp only [hx, Bool.not_true, Bool.false_eq_true, ↓reduceIte, ExceptRel, and_true]
          exact ⟨canon_perm (hk.map (·.row)) hn, hp⟩
        · simp [hx, ExceptRel]
  refine ⟨hrel.error_iff, ?_⟩
  intro c₁ ev₁ n h1
  obtain ⟨⟨c₂, ev₂, n'⟩, h2, hp1, hp2, hn⟩ := hrel.ok_imp h1
  simp only at hp1 hp2 hn
  subst hn
  exact ⟨c₂, ev₂, h2, hp1, hp2⟩

/-
Full-strength statement that "inconsistent events are rejected" suggests: in every accepted joint table every event
is dated at or after the latest visit of its individual (within the tolerance).
It is FALSE for the code that exists: a *censored* event (indicator 0) dated before the latest visit only triggers a
warning ("you should be in a prediction set-up") — `joint_event_order_counterexample`.  It is proved for the
observed events, the exact guard of the code — `joint_event_order_partial`.
-/

/-- an accepted joint table with a (censored) event dated one year before the latest visit of its individual -/
theorem joint_event_order_counterexample :
    ∃ (rows : List JRow) (c : Canon) (evs : List Event) (n : Nat) (e : Event) (a : Int),
      ingestJoint 1 none rows = .ok (c, evs, n) ∧ e ∈ evs ∧
      lastVisit e.id ((jKept rows).map (·.row)) = some a ∧ e.time - a < -tolMicro := by
  refine ⟨[⟨⟨0, 70000000, [some 0]⟩, .fin 71000000, .fin 0⟩, ⟨⟨1, 70000000, [some 0]⟩, .fin 75000000, .fin 1⟩,
      ⟨⟨0, 72000000, [some 0]⟩, .fin 71000000, .fin 0⟩], _, _, _, ⟨0, 71000000, 0⟩, 72000000, rfl, ?_, ?_, ?_⟩
  · decide
  · rfl
  · decide

/-- (partial: observed events) in an accepted joint table no observed event is earlier than the latest visit of its
    individual by more than the tolerance -/
theorem joint_event_order_partial (dim : Nat) (nb : Option Nat) (rows : List JRow) (c : Canon) (evs : List Event)
    (n : Nat) (h : ingestJoint dim nb rows = .ok (c, evs, n)) :
    ∀ e ∈ evs, e.code ≠ 0 → ∀ a, lastVisit e.id ((jKept rows).map (·.row)) = some a → -tolMicro ≤ e.time - a := by
  intro e he hcode a ha
  obtain ⟨_, _, hx, _⟩ := joint_ok_parts h
  obtain ⟨⟨r, hr, hid, hage⟩, _⟩ := lastVisit_eq_some_iff.1 ha
  have := jointCross_iff.1 hx e he r hr hid
  rw [hage] at this
  by_cases hlt : e.time - a < -tolMicro
  · exact absurd (this hlt) hcode
  · omega

/-! ## Covariate layout -/

/-- A well-formed covariate table (`dim` feature columns, `nCov` covariate names given to the reader).
    At least one covariate name; *visit part*: no duplicate `(ID, TIME)`, some row that is not entirely missing, at
    least one feature column; *covariate part*, on the rows that are kept (`cKept`: not entirely missing over
    features **and** covariates): every covariate cell finite, not missing and integer valued; the covariates of an
    individual are the same on all its rows; every covariate takes at least two values over the table. -/
def WellFormedCov (dim nCov : Nat) (rows : List CRow) : Prop :=
  1 ≤ nCov ∧
  (rows.map (fun r => (r.row.id, r.row.age))).Nodup ∧
  (∃ r ∈ rows, cDropped r = false) ∧
  1 ≤ dim ∧
  (∀ r ∈ rows, cDropped r = true ∨ ∀ c ∈ r.covs, CovCellOk c) ∧
  (∀ r ∈ cKept rows, ∀ s ∈ cKept rows, r.row.id = s.row.id → r.covs = s.covs) ∧
  (∀ k, k < nCov → ∃ r ∈ cKept rows, ∃ s ∈ cKept rows, r.covs[k]? ≠ s.covs[k]?)

instance (dim nCov : Nat) (rows : List CRow) : Decidable (WellFormedCov dim nCov rows) := by
  unfold WellFormedCov; infer_instance

private theorem mem_cKept {rows : List CRow} {r : CRow} : r ∈ cKept rows ↔ r ∈ rows ∧ cDropped r = false := by
  simp [cKept]

private theorem cDropped_cells {r : CRow} (h : cDropped r = true) : ∀ c ∈ r.covs, c = .nan := by
  simp only [cDropped, Bool.and_eq_true, all_eq_true, beq_iff_eq] at h
  exact h.2

private theorem cov_ok_iff {dim nCov : Nat} {rows : List CRow} {res : Canon × List (Nat × List Int)} :
    ingestCov dim nCov rows = .ok res ↔
      WellFormedCov dim nCov rows ∧
      res = (canon ((cKept rows).map (·.row)), covFirst ((cKept rows).map covOf)) := by
  rw [ingestCov_eq]
  have hkeys : rowKeyDup (rows.map (·.row)) = false ↔ (rows.map (fun r => (r.row.id, r.row.age))).Nodup := by
    rw [rowKeyDup_false_iff, map_map]; rfl
  by_cases h0 : nCov < 1
  · simp only [h0, ↓reduceIte, reduceCtorEq, false_iff, not_and]
    intro hw; have := hw.1; omega
  by_cases hd : rowKeyDup (rows.map (·.row)) = true
  · simp only [h0, hd, ↓reduceIte, reduceCtorEq, false_iff, not_and]
    intro hw; have := hkeys.2 hw.2.1; rw [hd] at this; cases this
  have hd' : rowKeyDup (rows.map (·.row)) = false := by simpa using hd
  by_cases hi : rows.any (fun r => r.covs.any (fun c => c == .inf)) = true
  · simp only [h0, hd', hi, Bool.false_eq_true, ↓reduceIte, reduceCtorEq, false_iff, not_and]
    intro hw
    obtain ⟨r, hr, hinf⟩ := any_eq_true.1 hi
    obtain ⟨c, hc, hci⟩ := any_eq_true.1 hinf
    have hci : c = .inf := by simpa using hci
    rcases hw.2.2.2.2.1 r hr with h | h
    · have := cDropped_cells h c hc; rw [hci] at this; cases this
    · exact absurd hci (h c hc).2.1
  by_cases he : (cKept rows).isEmpty = true
  · simp only [h0, hd', hi, he, Bool.false_eq_true, ↓reduceIte, reduceCtorEq, false_iff, not_and]
    intro hw
    obtain ⟨r, hr, hk⟩ := hw.2.2.1
    have : r ∈ cKept rows := mem_cKept.2 ⟨hr, hk⟩
    rw [isEmpty_iff.1 he] at this; cases this
  by_cases hdim : dim < 1
  · simp only [h0, hd', hi, he, hdim, Bool.false_eq_true, ↓reduceIte, reduceCtorEq, false_iff, not_and]
    intro hw; have := hw.2.2.2.1; omega
  have hne : ∃ r ∈ rows, cDropped r = false := by
    cases hk : cKept rows with
    | nil => rw [hk] at he; simp at he
    | cons r rs =>
      have : r ∈ cKept rows := by rw [hk]; simp
      exact ⟨r, (mem_cKept.1 this).1, (mem_cKept.1 this).2⟩
  have hinf : ∀ r ∈ rows, ∀ c ∈ r.covs, c ≠ .inf := by
    intro r hr c hc heq
    exact hi (any_eq_true.2 ⟨r, hr, any_eq_true.2 ⟨c, hc, by simp [heq]⟩⟩)
  by_cases h4 : (cKept rows).any (fun r => r.covs.any (fun c => c == .nan)) = true
  · simp only [h0, hd', hi, he, hdim, h4, Bool.false_eq_true, ↓reduceIte, reduceCtorEq, false_iff, not_and]
    intro hw
    obtain ⟨r, hr, hnan⟩ := any_eq_true.1 h4
    obtain ⟨c, hc, hcn⟩ := any_eq_true.1 hnan
    have := mem_cKept.1 hr
    rcases hw.2.2.2.2.1 r this.1 with h | h
    · rw [this.2] at h; cases h
    · exact absurd (by simpa using hcn) (h c hc).1
  by_cases h5 : (cKept rows).any (fun r => r.covs.any (fun c => !covIntOk c)) = true
  · simp only [h0, hd', hi, he, hdim, h4, h5, Bool.false_eq_true, ↓reduceIte, reduceCtorEq, false_iff, not_and]
    intro hw
    obtain ⟨r, hr, hni⟩ := any_eq_true.1 h5
    obtain ⟨c, hc, hcn⟩ := any_eq_true.1 hni
    have := mem_cKept.1 hr
    rcases hw.2.2.2.2.1 r this.1 with h | h
    · rw [this.2] at h; cases h
    · have := (h c hc).2.2; simp [this] at hcn
  -- every kept cell is acceptable
  have hcell : ∀ r ∈ cKept rows, ∀ c ∈ r.covs, CovCellOk c := by
    intro r hr c hc
    refine ⟨fun hn => h4 (any_eq_true.2 ⟨r, hr, any_eq_true.2 ⟨c, hc, by simp [hn]⟩⟩), hinf r (mem_cKept.1 hr).1 c hc, ?_⟩
    cases hb : covIntOk c with
    | true => rfl
    | false => exact absurd (any_eq_true.2 ⟨r, hr, any_eq_true.2 ⟨c, hc, by simp [hb]⟩⟩) h5
  have hcellT : ∀ r ∈ rows, cDropped r = true ∨ ∀ c ∈ r.covs, CovCellOk c := by
    intro r hr
    by_cases hk : cDropped r = true
    · exact Or.inl hk
    · exact Or.inr (hcell r (mem_cKept.2 ⟨hr, by simpa using hk⟩))
  have hconsT : KeyConsistent (·.1) ((cKept rows).map covOf) ↔
      ∀ r ∈ cKept rows, ∀ s ∈ cKept rows, r.row.id = s.row.id → r.covs = s.covs := by
    simp only [KeyConsistent, mem_map, forall_exists_index, and_imp, forall_apply_eq_imp_iff₂]
    constructor
    · intro h r hr s hs hid
      have := h r hr s hs hid
      simp only [covOf, Prod.mk.injEq] at this
      exact map_covNum_inj (hcell r hr) (hcell s hs) this.2
    · intro h r hr s hs hid
      have hid' : r.row.id = s.row.id := hid
      simp only [covOf, hid', h r hr s hs hid']
  have hvarT : covVaries nCov ((cKept rows).map covOf) = true ↔
      ∀ k, k < nCov → ∃ r ∈ cKept rows, ∃ s ∈ cKept rows, r.covs[k]? ≠ s.covs[k]? := by
    rw [covVaries_iff]
    constructor
    · intro h k hk
      obtain ⟨a, ha, b, hb, hne⟩ := h k hk
      obtain ⟨r, hr, rfl⟩ := mem_map.1 ha
      obtain ⟨s, hs, rfl⟩ := mem_map.1 hb
      exact ⟨r, hr, s, hs, (getElem?_covNum_ne (hcell r hr) (hcell s hs) k).1 hne⟩
    · intro h k hk
      obtain ⟨r, hr, s, hs, hne⟩ := h k hk
      exact ⟨covOf r, mem_map.2 ⟨r, hr, rfl⟩, covOf s, mem_map.2 ⟨s, hs, rfl⟩,
        (getElem?_covNum_ne (hcell r hr) (hcell s hs) k).2 hne⟩
  simp only [h0, hd', hi, he, hdim, h4, h5, Bool.false_eq_true, ↓reduceIte]
  by_cases h6 : covConsistent ((cKept rows).map covOf) = true
  · by_cases h7 : covVaries nCov ((cKept rows).map covOf) = true
    · simp only [h6, h7, Bool.not_true, Bool.false_eq_true, ↓reduceIte, Except.ok.injEq]
      constructor
      · intro h
        exact ⟨⟨by omega, hkeys.1 hd', hne, by omega, hcellT, hconsT.1 (covConsistent_iff.1 h6), hvarT.1 h7⟩, h.symm⟩
      · rintro ⟨_, h⟩; exact h.symm
    · simp only [h6, h7, Bool.not_true, Bool.not_false, Bool.false_eq_true, ↓reduceIte, reduceCtorEq, false_iff, not_and]
      intro hw
      exact absurd (hvarT.2 hw.2.2.2.2.2.2) h7
  · simp only [h6, Bool.not_false, ↓reduceIte, reduceCtorEq, false_iff, not_and]
    intro hw
    exact absurd (covConsistent_iff.2 (hconsT.2 hw.2.2.2.2.2.1)) h6

/-- **Covariates, both directions.**  `Data.from_dataframe(df, "covariate", covariate_names=…)` accepts a table iff
    it is well-formed (`WellFormedCov`): no covariate name, a duplicate visit, an infinite, missing or fractional
    covariate on a kept row, a covariate that differs between two rows of one individual, a covariate with a single
    value over the table, nothing observed, or no feature column are each refused — and nothing else is. -/
theorem covariate_accepts_iff (dim nCov : Nat) (rows : List CRow) :
    (∃ res, ingestCov dim nCov rows = .ok res) ↔ WellFormedCov dim nCov rows := by
  constructor
  · rintro ⟨res, h⟩; exact (cov_ok_iff.1 h).1
  · intro h; exact ⟨_, cov_ok_iff.2 ⟨h, rfl⟩⟩

/-- **What an accepted covariate table becomes.**  The longitudinal part is the shared loading loop on the rows that
    are not entirely missing; there is one covariate vector per individual, in the order of the individuals; it is
    the (integer) covariate vector of *every* kept row of that individual — not only of its first row. -/
theorem covariate_result (dim nCov : Nat) (rows : List CRow) (c : Canon) (covs : List (Nat × List Int))
    (h : ingestCov dim nCov rows = .ok (c, covs)) :
    loadAll ((cKept rows).map (·.row)) = .ok c ∧
    covs.map (·.1) = c.map (·.id) ∧
    (∀ r ∈ cKept rows, (r.row.id, r.covs.map covNum) ∈ covs) ∧
    (∀ x ∈ covs, ∃ r ∈ cKept rows, x = (r.row.id, r.covs.map covNum)) := by
  obtain ⟨hw, hres⟩ := cov_ok_iff.1 h
  simp only [Prod.mk.injEq] at hres
  obtain ⟨rfl, rfl⟩ := hres
  have hk : (((cKept rows).map (·.row)).map key).Nodup := by
    have : ((rows.map (·.row)).map key).Nodup := by rw [map_map]; exact hw.2.1
    exact nodup_keys_map_filter (fun r : CRow => r.row) (fun r => !cDropped r) this
  have hcons : KeyConsistent (·.1) ((cKept rows).map covOf) := by
    simp only [KeyConsistent, mem_map, forall_exists_index, and_imp, forall_apply_eq_imp_iff₂]
    intro r hr s hs hid
    have hid' : r.row.id = s.row.id := hid
    simp only [covOf, hid', hw.2.2.2.2.2.1 r hr s hs hid']
  refine ⟨loadAll_eq_canon hk, ?_, ?_, ?_⟩
  · rw [covFirst_eq, firstBy_keys, canon_ids]
    simp only [map_map]; rfl
  · intro r hr
    rw [covFirst_eq, mem_firstBy hcons]
    exact mem_map.2 ⟨r, hr, rfl⟩
  · intro x hx
    rw [covFirst_eq] at hx
    obtain ⟨r, hr, rfl⟩ := mem_map.1 (mem_firstBy_sub hx)
    exact ⟨r, hr, rfl⟩

/-- **Row-order independence of the covariate layout.** -/
theorem covariate_perm (dim nCov : Nat) {t₁ t₂ : List CRow} (h : t₁.Perm t₂) :
    (∀ e, ingestCov dim nCov t₁ = .error e ↔ ingestCov dim nCov t₂ = .error e) ∧
    (∀ c₁ v₁, ingestCov dim nCov t₁ = .ok (c₁, v₁) →
      ∃ c₂ v₂, ingestCov dim nCov t₂ = .ok (c₂, v₂) ∧ c₁.Perm c₂ ∧ v₁.Perm v₂) := by
  have hrel : ExceptRel (fun a b => a.1.Perm b.1 ∧ a.2.Perm b.2) (ingestCov dim nCov t₁) (ingestCov dim nCov t₂) := by
    have hk := cKept_perm h
    rw [ingestCov_eq, ingestCov_eq, rowKeyDup_perm (h.map (·.row)), h.any_eq, hk.isEmpty_eq, hk.any_eq, hk.any_eq,
      covConsistent_perm (hk.map covOf), covVaries_congr (l₁ := (cKept t₁).map covOf) (l₂ := (cKept t₂).map covOf)
        (fun x => (hk.map covOf).mem_iff)]
    by_cases h0 : nCov < 1
    · simp [h0, ExceptRel]
    by_cases hd : rowKeyDup (t₂.map (·.row)) = true
    · simp [h0, hd, ExceptRel]
    have hn : (((cKept t₁).map (·.row)).map key).Nodup := by
      have : rowKeyDup (t₁.map (·.row)) = false := by rw [rowKeyDup_perm (h.map (·.row))]; simpa using hd
      exact nodup_keys_map_filter (fun r : CRow => r.row) (fun r => !cDropped r) (rowKeyDup_false_iff.1 this)
    repeat' split
    all_goals first | (simp only [ExceptRel]; done) | skip
    rename_i hcons _
    simp only [ExceptRel]
    refine ⟨canon_perm (hk.map (·.row)) hn, ?_⟩
    rw [covFirst_eq, covFirst_eq]
    apply firstBy_perm (hk.map covOf)
    exact (covConsistent_iff.1 (by simpa using hcons) : KeyConsistent (·.1) ((cKept t₂).map covOf)).perm (hk.map covOf).symm
  refine ⟨hrel.error_iff, ?_⟩
  intro c₁ v₁ h1
  obtain ⟨⟨c₂, v₂⟩, h2, hp1, hp2⟩ := hrel.ok_imp h1
  exact ⟨c₂, v₂, h2, hp1, hp2⟩

/-! ## Non-vacuity -/

/-- the hypotheses of the round-trip theorems are satisfiable (two individuals, unsorted rows, a missing cell) -/
example : ∃ (t : List Row) (c : Canon), ingest 2 t = .ok c ∧ c.length = 2 ∧
    (∀ p ∈ c, ∀ v ∈ p.visits, (fun a : Int => a) v.age = v.age) :=
  ⟨[⟨1, 71500000, [some 0, none]⟩, ⟨0, 70250000, [some 0, some 0]⟩, ⟨1, 70500000, [none, some 0]⟩],
   [⟨1, [⟨70500000, [none, some 0]⟩, ⟨71500000, [some 0, none]⟩]⟩, ⟨0, [⟨70250000, [some 0, some 0]⟩]⟩],
   rfl, rfl, fun _ _ _ _ => rfl⟩

/-- the driver's single-precision storage leaves dyadic ages unchanged and merges 70.000001 with 70.000002 -/
example : storeF32 70500000 = 70500000 ∧ storeF32 70000001 = storeF32 70000002 := by decide +kernel

/-- a well-formed table exists, and a malformed one (duplicate visit) is refused -/
example : WellFormed ⟨⟨.string, false, false, false⟩, true, [true], [⟨0, .fin 70000000, [.fin 0]⟩]⟩ :=
  ⟨by simp [IdOk], rfl, by simp, by simp, by simp, by simp, ⟨⟨0, .fin 70000000, [.fin 0]⟩, by simp, 0, by simp⟩, by simp⟩

example : ingestRaw ⟨⟨.string, false, false, false⟩, true, [true],
    [⟨0, .fin 70000000, [.fin 0]⟩, ⟨0, .fin 70000000, [.nan]⟩]⟩ = .error .duplicate := rfl

/-- a negative event indicator next to a second event type is refused (it was silently recoded before F9c) -/
example : ingestEventTable none [⟨1, .fin 75000000, .fin 2⟩, ⟨0, .fin 73000000, .fin (-1)⟩] = .error .eventCode := by
  rfl

/-- a well-formed table of events (decided by evaluation), with a row that is dropped; it is accepted, in table order -/
example : WellFormedEvents none [⟨1, .fin 75000000, .fin 2⟩, ⟨0, .fin 73000000, .fin 0⟩, ⟨2, .nan, .nan⟩] := by
  decide +kernel

example : ingestEventTable none [⟨1, .fin 75000000, .fin 2⟩, ⟨0, .fin 73000000, .fin 0⟩, ⟨2, .nan, .nan⟩] =
    .ok ([⟨1, 75000000, 2⟩, ⟨0, 73000000, 0⟩], 2) := by rfl

/-- malformed tables of events: a repeated individual, no observed event and no declared count, a declared count
    that is not the largest indicator -/
example : ¬ WellFormedEvents none [⟨1, .fin 75000000, .fin 1⟩, ⟨1, .fin 75000000, .fin 1⟩] := by decide +kernel
example : ¬ WellFormedEvents none [⟨1, .fin 75000000, .fin 0⟩] ∧ WellFormedEvents (some 1) [⟨1, .fin 75000000, .fin 0⟩] := by
  decide +kernel
example : ¬ WellFormedEvents (some 3) [⟨1, .fin 75000000, .fin 2⟩] := by decide +kernel

/-- an observed event between the first-listed (latest) and the last-listed (earlier) visit is refused, in both row
    orders; the same event censored is accepted -/
example :
    ingestJoint 1 none [⟨⟨0, 72000000, [some 0]⟩, .fin 71000000, .fin 1⟩, ⟨⟨0, 70000000, [some 0]⟩, .fin 71000000, .fin 1⟩]
      = .error .eventBefore ∧
    ingestJoint 1 none [⟨⟨0, 70000000, [some 0]⟩, .fin 71000000, .fin 1⟩, ⟨⟨0, 72000000, [some 0]⟩, .fin 71000000, .fin 1⟩]
      = .error .eventBefore ∧
    (∃ res, ingestJoint 1 (some 1) [⟨⟨0, 72000000, [some 0]⟩, .fin 71000000, .fin 0⟩, ⟨⟨0, 70000000, [some 0]⟩, .fin 71000000, .fin 0⟩]
      = .ok res) := by
  refine ⟨by rfl, by rfl, ⟨_, rfl⟩⟩

/-- a well-formed joint table: two individuals, unsorted rows, a row without observation that still carries the
    event, an event within the tolerance before the last visit -/
example : WellFormedJoint 1 none
    [⟨⟨1, 71500000, [some 0]⟩, .fin 71499500, .fin 1⟩, ⟨⟨0, 70250000, [none]⟩, .fin 73000000, .fin 0⟩,
     ⟨⟨1, 70500000, [some 0]⟩, .fin 71499500, .fin 1⟩] :=
  (joint_accepts_iff _ _ _).1 ⟨_, rfl⟩

/-- malformed joint tables: two events for one individual; an event cell missing on a kept row -/
example : ingestJoint 1 none [⟨⟨1, 70000000, [some 0]⟩, .fin 75000000, .fin 1⟩, ⟨⟨1, 71000000, [some 0]⟩, .fin 76000000, .fin 1⟩]
    = .error .eventUnique := by rfl
example : ingestJoint 1 none [⟨⟨1, 70000000, [some 0]⟩, .fin 75000000, .fin 1⟩, ⟨⟨1, 71000000, [some 0]⟩, .nan, .nan⟩]
    = .error .eventTime := by rfl

/-- a well-formed covariate table, and malformed ones: a covariate that varies within an individual (whatever the
    row order), a fractional covariate, a covariate with a single value over the table -/
example : WellFormedCov 1 1 [⟨⟨1, 71500000, [some 0]⟩, [.fin 1]⟩, ⟨⟨0, 70250000, [some 0]⟩, [.fin 0]⟩, ⟨⟨1, 70500000, [none]⟩, [.fin 1]⟩] :=
  (covariate_accepts_iff _ _ _).1 ⟨_, rfl⟩
example : ingestCov 1 1 [⟨⟨1, 71500000, [some 0]⟩, [.fin 1]⟩, ⟨⟨0, 70250000, [some 0]⟩, [.fin 0]⟩, ⟨⟨1, 70500000, [some 0]⟩, [.fin 2]⟩]
    = .error .covUnique := by rfl
example : ingestCov 1 1 [⟨⟨1, 70500000, [some 0]⟩, [.fin 2]⟩, ⟨⟨0, 70250000, [some 0]⟩, [.fin 0]⟩, ⟨⟨1, 71500000, [some 0]⟩, [.fin 1]⟩]
    = .error .covUnique := by rfl
example : ¬ WellFormedCov 1 1 [⟨⟨1, 71500000, [some 0]⟩, [.fin (1/2)]⟩, ⟨⟨0, 70250000, [some 0]⟩, [.fin 0]⟩] := by decide +kernel
example : ingestCov 1 1 [⟨⟨1, 71500000, [some 0]⟩, [.fin 1]⟩, ⟨⟨0, 70250000, [some 0]⟩, [.fin 1]⟩] = .error .covConstant := by rfl


end LeaspyVerif.C14
