/-
C11 — seeded runs are reproducible and independent of logging and process history.
Property theorems only.  Model: `Model/Api.lean`, part (a).

What is proved here is the part of C11 that is about *logic*: which logging configurations are accepted, that an
accepted configuration never aborts an iteration, and that a fit with any logging schedule ends in the same
abstract state and consumes the same random draws as a fit without logging — given the two facts the
correspondence harness checks on the real code at every logged iteration:
  (H1) reading through `model.state` (what every logging action does) does not change the abstract state;
  (H2) logging takes no draw from the random streams.
The file system and matplotlib are runtime facts; they are covered only by the differential runs (bitwise comparison of
real seeded fits / personalisations / simulations).

Second part ("the random-draw discipline", `Model/Draws.lean`): the global generators are no longer outside the model.  Every
seeded run of the harness is recorded as a draw program (every seeding, state read / write and draw of python `random`, numpy
and torch, with its call site); the theorems below say what the two decidable predicates evaluated on that program give:
`seededFirst` — the result does not depend on the generator states the process had before the run, for ANY interpretation of
the generators as streams; `noLoggingDraws` — hypothesis (H2) above.
-/
import LeaspyVerif.Model.Api
import LeaspyVerif.Lemmas.Draws

namespace LeaspyVerif.C11
open LeaspyVerif.Api

/-- **Validation table.** `set_logs` + `OutputsSettings.__init__` accept a request exactly when it is all-default, or
    when (after dropping periodicities that are not integers `>= 1`) a plot periodicity comes with a save periodicity
    dividing it, and the target folder — if a path is given — is usable (empty / absent, or `overwrite_logs_folder`). -/
theorem logs_validation_table (r : LogReq) :
    (∃ o, validate r = .ok o) ↔
      (r.isDefault = true ∨
        ((asIntOrIgnore r.plot = none ∨
            ∃ s p, asIntOrIgnore r.save = some s ∧ asIntOrIgnore r.plot = some p ∧ p % s = 0)
          ∧ (r.path = true → r.dirNonEmpty = true → r.overwrite = true))) := by
  unfold validate
  by_cases hd : r.isDefault = true
  · simp [hd]
  · simp only [hd, Bool.false_eq_true, ↓reduceIte, false_or]
    cases hp : asIntOrIgnore r.plot with
    | none =>
      cases hpath : r.path <;> cases hne : r.dirNonEmpty <;> cases hov : r.overwrite <;>
        cases hs : (asIntOrIgnore r.save) <;> simp
    | some p =>
      cases hs : asIntOrIgnore r.save with
      | none => simp
      | some s =>
        by_cases hm : p % s = 0
        · cases hpath : r.path <;> cases hne : r.dirNonEmpty <;> cases hov : r.overwrite <;> simp [hm]
        · simp [hm]

/-- What an accepted request turns into: no `OutputsSettings` at all for the all-default request; otherwise the
    cleaned periodicities, with a root folder exactly when a path was given or saving was requested. -/
theorem validate_outputs (r : LogReq) (o : Outputs) (h : validate r = .ok (some o)) :
    o.print = asIntOrIgnore r.print ∧ o.save = asIntOrIgnore r.save ∧ o.plot = asIntOrIgnore r.plot
      ∧ o.plotPatient = asIntOrIgnore r.plotPatient
      ∧ o.root = (r.path || (asIntOrIgnore r.save).isSome) := by
  unfold validate at h
  by_cases hd : r.isDefault = true
  · simp [hd] at h
  · simp only [hd, Bool.false_eq_true, ↓reduceIte] at h
    cases hpl : asIntOrIgnore r.plot with
    | none =>
      cases hs : asIntOrIgnore r.save <;> cases hpath : r.path <;> cases hne : r.dirNonEmpty <;>
        cases hov : r.overwrite <;> simp [hpl, hs, hpath, hne, hov] at h ⊢ <;> subst h <;> simp
    | some p =>
      cases hs : asIntOrIgnore r.save with
      | none => simp [hpl, hs] at h
      | some sv =>
        by_cases hm : p % sv = 0
        · cases hpath : r.path <;> cases hne : r.dirNonEmpty <;>
            cases hov : r.overwrite <;> simp [hpl, hs, hpath, hne, hov, hm] at h ⊢ <;> subst h <;> simp
        · simp [hpl, hs, hm] at h

/-- **Logging never aborts an iteration** (full strength, after repair F6): for every accepted logging request and
    every iteration number, `FitOutputManager.iteration` returns normally. -/
theorem iteration_total (r : LogReq) (o : Option Outputs) (_h : validate r = .ok o) (k : Nat) :
    ∃ acts, iteration o k = .ok acts := by
  unfold iteration
  cases o with
  | none => exact ⟨[], rfl⟩
  | some o => by_cases hr : o.root = true <;> simp [hr]

/-- Consequently the logging side of a whole fit of any length completes. -/
theorem log_schedule_total (r : LogReq) (o : Option Outputs) (h : validate r = .ok o) (n : Nat) :
    (logSchedule r n).isOk = true := by
  have key : ∀ l : List Nat, (Out.mapM (fun i => iteration o (i + 1)) l).isOk = true := by
    intro l
    induction l with
    | nil => rfl
    | cons a l ih =>
      obtain ⟨acts, ha⟩ := iteration_total r o h (a + 1)
      cases hl : Out.mapM (fun i => iteration o (i + 1)) l with
      | err e => simp [hl, Out.isOk] at ih
      | ok bs => simp [Out.mapM, ha, hl, Out.isOk]
  simp only [logSchedule, h]
  exact key (List.range n)

/-- F6, the code as shipped: the statement above was false — `fit(..., print_periodicity=5)` without `path` is an
    accepted request, and the first iteration raised `AttributeError`. -/
theorem iteration_total_shipped_counterexample :
    let r : LogReq := { path := false, print := some 5, save := none, plot := none, plotPatient := none }
    ∃ o, validate r = .ok o ∧ iterationShipped o 1 = .err .attribute ∧ iteration o 1 = .ok [] := by
  exact ⟨_, rfl, rfl, rfl⟩

/-- F6, the part that held before the repair: with a root folder (a path, or a save periodicity) no iteration
    aborted. -/
theorem iteration_total_shipped_partial (r : LogReq) (o : Option Outputs) (h : validate r = .ok o)
    (hroot : r.path = true ∨ (asIntOrIgnore r.save).isSome = true) (k : Nat) :
    ∃ acts, iterationShipped o k = .ok acts := by
  unfold iterationShipped
  cases o with
  | none => exact ⟨[], rfl⟩
  | some o =>
    have hr : o.root = true := by
      rw [(validate_outputs r o h).2.2.2.2]
      rcases hroot with h1 | h1 <;> simp [h1]
    simp [hr]

/-- Exactly which actions fire at iteration `k ≥ 1` when a root folder exists. -/
theorem actions_fire_iff (o : Outputs) (k : Nat) (hk : 1 ≤ k) (a : Action) :
    a ∈ actionsAt o k ↔
      match a with
      | .print => ∃ n, o.print = some n ∧ k % n = 0
      | .save => ∃ n, o.save = some n ∧ k % n = 0
      | .plotPatients => ∃ n, o.plotPatient = some n ∧ k % n = 0
      | .plotConvergence => ∃ n, o.plot = some n ∧ k % n = 0 := by
  have hk0 : (k == 0) = false := by simp; omega
  cases a <;> cases hp : o.print <;> cases hs : o.save <;> cases hpp : o.plotPatient <;> cases hpl : o.plot <;>
    simp [actionsAt, fires0, fires, hp, hs, hpp, hpl, hk0]

/-! ### Logging transparency -/

private theorem applyActs_transparent {St A D : Type} (abs : St → A)
    (act : Action → St → List D → St × List D)
    (hread : ∀ a s d, abs (act a s d).1 = abs s) (hnodraw : ∀ a s d, (act a s d).2 = d)
    (as : List Action) (s : St) (d : List D) :
    abs (applyActs act as s d).1 = abs s ∧ (applyActs act as s d).2 = d := by
  induction as generalizing s d with
  | nil => exact ⟨rfl, rfl⟩
  | cons a as ih =>
    obtain ⟨h1, h2⟩ := ih (act a s d).1 (act a s d).2
    simp only [applyActs]
    exact ⟨by rw [h1, hread], by rw [h2, hnodraw]⟩

/-- **Logging is transparent.** `step` is one MCMC-SAEM iteration on the concrete `model.state` with an explicit
    stream of random draws; it respects the abstraction `abs` (values of the independent variables; caches are not
    part of it).  If (H1) every logging action preserves `abs` and (H2) takes no draw, then for any two logging
    schedules whatsoever — in particular any validated configuration against no logging at all — a fit of any
    length from abstractly equal states ends in abstractly equal states with the same remaining draws: same final
    parameters, same generator position. -/
theorem logging_transparent {St A D : Type} (abs : St → A)
    (step : Nat → St → List D → St × List D)
    (act : Action → St → List D → St × List D)
    (hstep : ∀ k s s' d, abs s = abs s' → abs (step k s d).1 = abs (step k s' d).1 ∧ (step k s d).2 = (step k s' d).2)
    (hread : ∀ a s d, abs (act a s d).1 = abs s)
    (hnodraw : ∀ a s d, (act a s d).2 = d)
    (sched sched' : Nat → List Action) (n k : Nat) (s s' : St) (d : List D) (h0 : abs s = abs s') :
    abs (runFit step act sched k n s d).1 = abs (runFit step act sched' k n s' d).1
      ∧ (runFit step act sched k n s d).2 = (runFit step act sched' k n s' d).2 := by
  induction n generalizing k s s' d with
  | zero => exact ⟨h0, rfl⟩
  | succ n ih =>
    simp only [runFit]
    obtain ⟨hs1, hs2⟩ := hstep (k + 1) s s' d h0
    obtain ⟨ha1, ha2⟩ := applyActs_transparent abs act hread hnodraw (sched (k + 1)) (step (k + 1) s d).1 (step (k + 1) s d).2
    obtain ⟨hb1, hb2⟩ := applyActs_transparent abs act hread hnodraw (sched' (k + 1)) (step (k + 1) s' d).1 (step (k + 1) s' d).2
    have hd : (applyActs act (sched (k + 1)) (step (k + 1) s d).1 (step (k + 1) s d).2).2
        = (applyActs act (sched' (k + 1)) (step (k + 1) s' d).1 (step (k + 1) s' d).2).2 := by
      rw [ha2, hb2, hs2]
    rw [hd]
    exact ih (k + 1) _ _ _ (by rw [ha1, hb1, hs1])

/-- The instance the property states: any accepted logging request against no logging. -/
theorem logging_transparent_validated {St A D : Type} (abs : St → A)
    (step : Nat → St → List D → St × List D)
    (act : Action → St → List D → St × List D)
    (hstep : ∀ k s s' d, abs s = abs s' → abs (step k s d).1 = abs (step k s' d).1 ∧ (step k s d).2 = (step k s' d).2)
    (hread : ∀ a s d, abs (act a s d).1 = abs s)
    (hnodraw : ∀ a s d, (act a s d).2 = d)
    (r : LogReq) (o : Option Outputs) (_h : validate r = .ok o) (n : Nat) (s : St) (d : List D) :
    abs (runFit step act (schedOf o) 0 n s d).1 = abs (runFit step act (fun _ => []) 0 n s d).1
      ∧ (runFit step act (schedOf o) 0 n s d).2 = (runFit step act (fun _ => []) 0 n s d).2 :=
  logging_transparent abs step act hstep hread hnodraw _ _ n 0 s s d rfl

/-- Non-vacuity of (H1)/(H2) and necessity of (H2): a toy state `(value, cache)` with `abs = value`; a logging
    action that only fills the cache satisfies both hypotheses, while one that takes a draw changes the result. -/
example :
    let step : Nat → Nat × Nat → List Nat → (Nat × Nat) × List Nat :=
      fun _ s d => match d with | [] => (s, []) | x :: d' => ((s.1 + x, 0), d')
    let good : Action → Nat × Nat → List Nat → (Nat × Nat) × List Nat := fun _ s d => ((s.1, s.1 * 2), d)
    let bad : Action → Nat × Nat → List Nat → (Nat × Nat) × List Nat := fun _ s d => (s, d.drop 1)
    let sched : Nat → List Action := fun k => if k % 2 == 0 then [.print] else []
    (runFit step good sched 0 4 (0, 0) [1, 2, 3, 4, 5]).1.1 = (runFit step good (fun _ => []) 0 4 (0, 0) [1, 2, 3, 4, 5]).1.1
      ∧ (runFit step bad sched 0 4 (0, 0) [1, 2, 3, 4, 5]).1.1 ≠ (runFit step bad (fun _ => []) 0 4 (0, 0) [1, 2, 3, 4, 5]).1.1 := by
  decide

/-! ## The random-draw discipline (`Model/Draws.lean`)

A recorded run is a `Prog`; the code that produced it is a `Code` (a deterministic function of the values it drew).
`I : Interp S V` is an arbitrary interpretation of the generators as streams, `World S` the generator states (and state
snapshots, and entropy) the process holds when the run starts — its history. -/

section draws
open LeaspyVerif.Draws

/-- **Process history is irrelevant to a seeded-first run.**  If every draw of the program is from a generator that the
    program itself seeded before (`seededFirst`, decided on the recorded run), the values it draws are the same from any two
    worlds: whatever random numbers were consumed beforehand, whatever was fitted earlier, whatever state snapshots lie around. -/
theorem seeded_prefix_irrelevant {S V : Type} (I : Interp S V) (seed : Nat) (p : Prog) (h : seededFirst p = true)
    (w w' : Draws.World S) : draws I seed w p = draws I seed w' p := by
  have hb : firstBadOps Known.nothing 0 p.ops = none := by
    simpa [seededFirst, firstBad, Option.isNone_iff_eq_none] using h
  exact execOps_agree I seed p.ops Known.nothing 0 w w' hb (agree_nothing w w')

/-- **What `seededFirst` decides, in words** (programs made of seedings, draws and markers — every program recorded on the
    unchanged code): the seed covers every generator used, i.e. every draw comes after a seeding of the generator it draws from. -/
theorem seededFirst_iff_every_draw_after_its_seed (p : Prog) (hp : ∀ e ∈ p, e.op.plain = true) :
    seededFirst p = true ↔
      ∀ (idx g kd n : Nat), p.ops[idx]? = some (Op.draw g kd n) → ∃ j, j < idx ∧ ∃ v, p.ops[j]? = some (Op.seed g v) := by
  have hp' : ∀ o ∈ p.ops, o.plain = true := by
    intro o ho
    obtain ⟨e, he, rfl⟩ := List.mem_map.1 ho
    exact hp e he
  simp only [seededFirst, firstBad, Option.isNone_iff_eq_none]
  rw [firstBadOps_plain_iff p.ops Known.nothing 0 hp']
  simp [Known.nothing]

/-- F32, the code as shipped: a fit with `initialization_method="random"` drew its initial values before `algorithm.run`
    seeded the generators.  The program is rejected by `seededFirst`, and its draws do depend on history. -/
theorem seeded_prefix_irrelevant_counterexample :
    seededFirst shippedRandomInitFit = false
      ∧ firstBad shippedRandomInitFit = some 0
      ∧ draws toyInterp 3 (worldOf 0) shippedRandomInitFit ≠ draws toyInterp 3 (worldOf 5) shippedRandomInitFit
      ∧ seededFirst repairedRandomInitFit = true := by
  decide

/-- A generator that is drawn from but never seeded (`_initialize_seed` without numpy, `simulate` being the only consumer):
    rejected, and history-dependent although the two other generators were seeded. -/
theorem unseeded_generator_counterexample :
    seededFirst numpyUnseededSimulate = false
      ∧ firstBad numpyUnseededSimulate = some 2
      ∧ draws toyInterp 3 (worldOf 0) numpyUnseededSimulate ≠ draws toyInterp 3 (worldOf 5) numpyUnseededSimulate := by
  decide

/-- Seeding from the clock / the OS after the seed of the run, or restoring a state snapshot that was not taken in this run,
    is rejected as well (the draw that follows is the defect). -/
theorem entropy_and_foreign_state_counterexample :
    firstBad [⟨.algorithm, .seed 2 .run⟩, ⟨.sampler, .entropy 2⟩, ⟨.sampler, .draw 2 1 1⟩] = some 2
      ∧ firstBad [⟨.algorithm, .seed 2 .run⟩, ⟨.sampler, .restore 2 0⟩, ⟨.sampler, .draw 2 1 1⟩] = some 2
      ∧ firstBad [⟨.algorithm, .seed 2 .run⟩, ⟨.sampler, .save 2 0⟩, ⟨.sampler, .draw 2 1 1⟩, ⟨.sampler, .restore 2 0⟩,
                  ⟨.sampler, .draw 2 1 1⟩] = none
      ∧ draws toyInterp 3 (worldOf 0) [⟨.algorithm, .seed 2 .run⟩, ⟨.sampler, .restore 2 0⟩, ⟨.sampler, .draw 2 1 1⟩]
          ≠ draws toyInterp 3 (worldOf 5) [⟨.algorithm, .seed 2 .run⟩, ⟨.sampler, .restore 2 0⟩, ⟨.sampler, .draw 2 1 1⟩] := by
  decide

/-- **Markers are transparent.**  Two programs that differ only by inserted events that are not generator events (the logging
    actions of `FitOutputManager`, recorded as notes) end in the same world and draw the same values. -/
theorem draws_logging_transparent {S V : Type} (I : Interp S V) (seed : Nat) (p q : Prog)
    (h : (strip p).ops = (strip q).ops) (w : Draws.World S) : exec I seed w p = exec I seed w q := by
  simp only [exec]
  rw [← execOps_filter_inert I seed p.ops w, ← execOps_filter_inert I seed q.ops w, ← strip_ops, ← strip_ops, h]

/-- **What the harness checks.**  If the generator events of two recorded runs are identical (whatever their logging
    markers) and one of them is seeded-first, then so is the other, and the two runs draw the same values from ANY two worlds
    under EVERY interpretation of the generators: different logging settings and different process histories cannot matter. -/
theorem same_draw_events_same_draws (p q : Prog) (h : (strip p).ops = (strip q).ops) (hp : seededFirst p = true) :
    seededFirst q = true
      ∧ ∀ {S V : Type} (I : Interp S V) (seed : Nat) (w w' : Draws.World S), draws I seed w p = draws I seed w' q := by
  have hq : seededFirst q = true := by
    simp only [seededFirst, firstBad] at hp ⊢
    rw [← firstBadOps_filter_inert q.ops Known.nothing 0 0, ← strip_ops, ← h, strip_ops,
      firstBadOps_filter_inert p.ops Known.nothing 0 0]
    exact hp
  refine ⟨hq, ?_⟩
  intro S V I seed w w'
  simp only [draws]
  rw [draws_logging_transparent I seed p q h w]
  exact seeded_prefix_irrelevant I seed q hq w w'

/-- **The result is a function of the seed and the code.**  The code is any deterministic consumer of the values it draws
    (the number and kind of later draws may depend on earlier values).  If the program RECORDED on one run is seeded-first,
    then from every other world the code records the same program, draws the same values and returns the same result. -/
theorem draw_program_determines_result {S V R : Type} (I : Interp S V) (seed : Nat) (c : Code V R) (w : Draws.World S)
    (h : seededFirst (runCode I seed c w).1 = true) (w' : Draws.World S) :
    runCode I seed c w' = runCode I seed c w := by
  have hb : firstBadOps Known.nothing 0 (runCode I seed c w).1.ops = none := by
    simpa [seededFirst, firstBad, Option.isNone_iff_eq_none] using h
  exact runCode_agree I seed c Known.nothing 0 w w' hb (agree_nothing w w')

/-- The recorded program is a faithful summary of the run: replayed from the same world it yields the values the code drew. -/
theorem recorded_program_replays {S V R : Type} (I : Interp S V) (seed : Nat) (c : Code V R) (w : Draws.World S) :
    draws I seed w (runCode I seed c w).1 = (runCode I seed c w).2.1 :=
  runCode_trace I seed c w

/-- What `noLoggingDraws` decides: no event whose call site is logging code moves a generator. -/
theorem noLoggingDraws_iff (p : Prog) :
    noLoggingDraws p = true ↔ ∀ e ∈ p, e.site = .logging → e.op.moves = false := by
  simp only [noLoggingDraws, loggingDraws, beq_iff_eq, List.length_eq_zero_iff, List.filter_eq_nil_iff, Ev.loggingMove,
    Bool.and_eq_true, decide_eq_true_eq, not_and, Bool.not_eq_true]

private theorem noLoggingDraws_sublist {p q : Prog} (hs : q.Sublist p) (h : noLoggingDraws p = true) :
    noLoggingDraws q = true := by
  rw [noLoggingDraws_iff] at h ⊢
  exact fun e he => h e (hs.subset he)

/-- **Bridge: (H2) of `logging_transparent` is decided on the recorded run.**  Let `prog` be the program recorded on a real
    fit with `noLoggingDraws prog = true`, and let every logging action execute some of its logging-site events (`lp a s` a
    sub-list of them).  Then the action `actOfProg` — the single stream of `runFit` being the state of generator `g` — takes no
    draw: exactly hypothesis `hnodraw` of `logging_transparent`. -/
theorem h2_of_noLoggingDraws {St D V : Type} (I : Interp (List D) V) (seed g : Nat) (bg : Draws.World (List D))
    (read : Action → St → St) (lp : Action → St → Prog) (prog : Prog) (hprog : noLoggingDraws prog = true)
    (hsub : ∀ a s, (lp a s).Sublist (prog.filter (fun e => decide (e.site = .logging)))) :
    ∀ a s d, (actOfProg I seed g bg read lp a s d).2 = d := by
  intro a s d
  have hall : ∀ e ∈ lp a s, e.site = .logging := by
    intro e he
    have := (hsub a s).subset he
    simpa using (List.mem_filter.1 this).2
  have hno : noLoggingDraws (lp a s) = true :=
    noLoggingDraws_sublist ((hsub a s).trans List.filter_sublist) hprog
  have := (exec_logging_noop I seed (lp a s) { bg with gen := upd bg.gen g d } hall hno).1
  simp only [actOfProg, this]
  exact upd_same bg.gen g d

/-- `logging_transparent` with (H2) discharged by the recorded run: for any two logging schedules a fit of any length ends in
    abstractly equal states with the same generator state, given (H1) only. -/
theorem logging_transparent_recorded {St A D V : Type} (abs : St → A) (step : Nat → St → List D → St × List D)
    (hstep : ∀ k s s' d, abs s = abs s' → abs (step k s d).1 = abs (step k s' d).1 ∧ (step k s d).2 = (step k s' d).2)
    (I : Interp (List D) V) (seed g : Nat) (bg : Draws.World (List D)) (read : Action → St → St) (lp : Action → St → Prog)
    (hread : ∀ a s, abs (read a s) = abs s)
    (prog : Prog) (hprog : noLoggingDraws prog = true)
    (hsub : ∀ a s, (lp a s).Sublist (prog.filter (fun e => decide (e.site = .logging))))
    (sched sched' : Nat → List Action) (n k : Nat) (s s' : St) (d : List D) (h0 : abs s = abs s') :
    abs (runFit step (actOfProg I seed g bg read lp) sched k n s d).1
        = abs (runFit step (actOfProg I seed g bg read lp) sched' k n s' d).1
      ∧ (runFit step (actOfProg I seed g bg read lp) sched k n s d).2
        = (runFit step (actOfProg I seed g bg read lp) sched' k n s' d).2 :=
  logging_transparent abs step (actOfProg I seed g bg read lp) hstep (fun a s _ => hread a s)
    (h2_of_noLoggingDraws I seed g bg read lp prog hprog hsub) sched sched' n k s s' d h0

/-- Non-vacuity: the shape recorded on a real seeded fit with logging (three seedings, draws by the algorithm and the
    samplers, logging markers in between) satisfies both predicates; a `torch.randperm` inside a patient plot (the seeded
    change C11) is counted by `loggingDraws` although the generator it draws from was seeded. -/
example :
    seededFirst repairedRandomInitFit = true ∧ noLoggingDraws repairedRandomInitFit = true
      ∧ gensUsed repairedRandomInitFit = [2, 0]
      ∧ (let bad : Prog := [⟨.algorithm, .seed 2 .run⟩, ⟨.sampler, .draw 2 1 1⟩, ⟨.logging, .note 2⟩, ⟨.logging, .draw 2 9 5⟩]
         seededFirst bad = true ∧ loggingDraws bad = 1) := by
  decide

end draws

end LeaspyVerif.C11
