/-
C02 — a rejected proposal leaves no trace in the state.
Model: `Model/State.lean`; lemmas: `Lemmas/State.lean`; the read-correctness used below is C01's.

A sampler step is: assignment of the proposed value with forking on, any reads (`gets`), then either
nothing (accepted), a full revert (rejected) or a per-individual revert (`revert (some mask)`;
the mask marks the *rejected* individuals).  Statements hold for every graph, value type (non-finite
tensor entries included — a revert only selects), proposal, mask and list of intermediate reads.
-/
import LeaspyVerif.Lemmas.State

namespace LeaspyVerif.C02
open LeaspyVerif.State

variable {V M : Type}

private theorem gets_spec {g : Graph V} (wf : WF g) : ∀ (js : List Nat) (s : St V), Inv g s →
    (∀ j ∈ js, j < g.n) →
    Inv g (gets g s js) ∧ absS g (gets g s js) = absS g s ∧ (gets g s js).fork = s.fork ∧
    (gets g s js).mode = s.mode ∧ (∀ j v, s.vals j = some v → (gets g s js).vals j = some v) := by
  intro js
  induction js with
  | nil => intro s h _; exact ⟨h, rfl, rfl, rfl, fun _ _ x => x⟩
  | cons j js ih =>
    intro s h hj
    obtain ⟨a1, a2, a3, a4, a5, _⟩ := get_spec wf h (hj j (by simp))
    obtain ⟨b1, b2, b3, b4, b5⟩ := ih _ a1 (fun k hk => hj k (by simp [hk]))
    unfold gets at *
    simp only [List.foldl_cons]
    exact ⟨b1, b2.trans a2, b3.trans a3, b4.trans a4, fun k v hk => b5 k v (a5 k v hk)⟩

private theorem set_fork {g : Graph V} (s : St V) {i : Nat} (hi : i < g.n) (hk : g.kind i = .indep true)
    (hm : s.mode = true) (v : Option V) :
    (State.set g s i v).1.fork = some ((i :: g.desc i).map (fun k => (k, s.vals k))) ∧
    (State.set g s i v).1.vals = resetAll (upd s.vals i v) (g.desc i) ∧
    (State.set g s i v).1.mode = true := by
  unfold State.set
  have : ¬ g.n ≤ i := by omega
  simp [this, hk, hm]

/-- **Full rejection.**  After a proposal, any reads and a full revert, the state is consistent, its
    independent values are exactly those before the proposal, and every later read returns the
    from-scratch value on those — as if the proposal had never been made. -/
theorem rejected_full {g : Graph V} (wf : WF g) (mix : M → V → V → V) {s0 : St V} (h0 : Inv g s0)
    (hm : s0.mode = true) {i : Nat} (hi : i < g.n) (hk : g.kind i = .indep true) (v : Option V)
    (js : List Nat) (hjs : ∀ j ∈ js, j < g.n) :
    let s1 := (State.set g s0 i v).1
    let s2 := gets g s1 js
    let s3 := (revert mix s2 none).1
    (revert mix s2 none).2 = .ok () ∧ Inv g s3 ∧ absS g s3 = absS g s0 ∧ s3.fork = none ∧
    ∀ k, k < g.n → ReadOK g (absS g s0) k (State.get g s3 k).2 := by
  intro s1 s2 s3
  have h1 : Inv g s1 := inv_set wf h0 i v
  obtain ⟨f1, f2, f3⟩ := set_fork s0 hi hk hm v
  obtain ⟨g1, g2, g3, g4, g5⟩ := gets_spec wf js s1 h1 hjs
  have hfork : s2.fork = some ((i :: g.desc i).map (fun k => (k, s0.vals k))) := g3.trans f1
  have hrev : revert mix s2 none =
      ({ s2 with vals := restore s2.vals ((i :: g.desc i).map (fun k => (k, s0.vals k))), fork := none }, .ok ()) := by
    unfold revert; rw [hfork]
  have h3 : Inv g s3 := inv_revert_full mix g1
  have habs : absS g s3 = absS g s0 := by
    show absC g (revert mix s2 none).1.vals = absC g s0.vals
    rw [hrev]
    funext k
    unfold absC
    cases hkk : g.kind k with
    | linked => rfl
    | indep b =>
      simp only
      unfold restore
      rw [find_snapshot]
      by_cases hmem : k ∈ i :: g.desc i
      · simp [hmem]
      · simp only [hmem, if_false]
        -- an independent variable other than `i`: untouched by the assignment and by reads
        have e2 : absC g s2.vals k = absC g s1.vals k := congrFun g2 k
        unfold absC at e2
        simp only [hkk] at e2
        rw [e2, f2]
        simp only [List.mem_cons, not_or] at hmem
        simp [resetAll, upd, hmem.1, hmem.2]
  refine ⟨by rw [hrev], h3, habs, by show (revert mix s2 none).1.fork = none; rw [hrev], ?_⟩
  intro k hk'
  have := (get_spec wf h3 hk').2.2.2.2.2
  rw [habs] at this
  exact this

/-- **Partial rejection.**  After a proposal, reads and a per-individual revert with mask `m` (set on
    the rejected individuals), the state is consistent; the proposed variable holds, entry-wise, the
    old value on rejected individuals and the proposed value on accepted ones; every other
    independent value is untouched; later reads return from-scratch values on exactly that mixture.
    Precondition (documented): every node of the forked region cached both before the proposal and at
    the time of the revert carries the individual axis. -/
theorem rejected_partial {g : Graph V} (wf : WF g) (mix : M → V → V → V) {s0 : St V} (h0 : Inv g s0)
    (hm : s0.mode = true) {i : Nat} (hi : i < g.n) (hk : g.kind i = .indep true) (v : Option V)
    (js : List Nat) (hjs : ∀ j ∈ js, j < g.n) (m : M)
    (hpre : ∀ k ∈ g.desc i, ∀ o c, s0.vals k = some o →
      (gets g (State.set g s0 i v).1 js).vals k = some c → Commutes g mix m i k) :
    let s2 := gets g (State.set g s0 i v).1 js
    let s3 := (revert mix s2 (some m)).1
    Inv g s3 ∧ absS g s3 = upd (absS g s0) i (mixOpt mix m (s0.vals i) v) ∧ s3.fork = none ∧
    ∀ k, k < g.n → ReadOK g (upd (absS g s0) i (mixOpt mix m (s0.vals i) v)) k (State.get g s3 k).2 := by
  intro s2 s3
  have h1 : Inv g (State.set g s0 i v).1 := inv_set wf h0 i v
  obtain ⟨f1, f2, f3⟩ := set_fork s0 hi hk hm v
  obtain ⟨g1, g2, g3, g4, g5⟩ := gets_spec wf js _ h1 hjs
  set F := (i :: g.desc i).map (fun k => (k, s0.vals k)) with hFdef
  have hfork : s2.fork = some F := g3.trans f1
  have hkeys : F.map Prod.fst = i :: g.desc i := by simp [hFdef, List.map_map, Function.comp_def]
  have hrestore : ∀ k ∈ i :: g.desc i, restore s2.vals F k = s0.vals k := by
    intro k hk'
    unfold restore; rw [hFdef, find_snapshot]; simp [hk']
  have h3 : Inv g s3 := by
    apply inv_revert_partial wf mix g1 m F hfork
    intro i' hkeys' k hk' o c ho hc
    have hii : i' = i := by
      rw [hkeys] at hkeys'
      exact (List.cons.inj hkeys').1.symm
    subst hii
    rw [hrestore k (List.mem_cons_of_mem _ hk')] at ho
    exact hpre k hk' o c ho hc
  have hs2i : s2.vals i = v := by
    have e2 : absC g s2.vals i = absC g (State.set g s0 i v).1.vals i := congrFun g2 i
    unfold absC at e2
    simp only [hk] at e2
    rw [e2, f2]
    simp [resetAll, upd, wf.not_self_desc i]
  have habs : absS g s3 = upd (absS g s0) i (mixOpt mix m (s0.vals i) v) := by
    show absC g (revert mix s2 (some m)).1.vals = _
    rw [revert_partial_eq mix s2 m F hfork]
    funext k
    unfold absC upd absS absC
    cases hkk : g.kind k with
    | linked =>
      have : k ≠ i := by intro e; rw [e, hk] at hkk; cases hkk
      simp [this]
    | indep b =>
      simp only
      rw [restore_partial, hkeys]
      by_cases hki : k = i
      · subst hki
        simp [hrestore k (by simp), hs2i, hkk]
      · have hmem : k ∉ i :: g.desc i := by
          simp only [List.mem_cons, not_or]
          exact ⟨hki, fun hd => by rw [wf.desc_linked i k hd] at hkk; cases hkk⟩
        simp only [hmem, if_false, hki]
        have e2 : absC g s2.vals k = absC g (State.set g s0 i v).1.vals k := congrFun g2 k
        unfold absC at e2
        simp only [hkk] at e2
        rw [e2, f2]
        simp only [List.mem_cons, not_or] at hmem
        simp [resetAll, upd, hmem.1, hmem.2]
  refine ⟨h3, habs, ?_, ?_⟩
  · show (revert mix s2 (some m)).1.fork = none
    rw [revert_partial_eq mix s2 m F hfork]
  · intro k hk'
    have := (get_spec wf h3 hk').2.2.2.2.2
    rw [habs] at this
    exact this

/-- **Acceptance.**  Without a revert the proposed value is held and reads return from-scratch values on it. -/
theorem accepted {g : Graph V} (wf : WF g) {s0 : St V} (h0 : Inv g s0) {i : Nat} (hi : i < g.n)
    (hk : g.kind i = .indep true) (v : Option V) (js : List Nat) (hjs : ∀ j ∈ js, j < g.n) :
    let s2 := gets g (State.set g s0 i v).1 js
    Inv g s2 ∧ absS g s2 = upd (absS g s0) i v ∧
    ∀ k, k < g.n → ReadOK g (upd (absS g s0) i v) k (State.get g s2 k).2 := by
  intro s2
  have h1 : Inv g (State.set g s0 i v).1 := inv_set wf h0 i v
  obtain ⟨g1, g2, _, _, _⟩ := gets_spec wf js _ h1 hjs
  have habs : absS g s2 = upd (absS g s0) i v := g2.trans (abs_set wf hi hk v).1
  refine ⟨g1, habs, ?_⟩
  intro k hk'
  have := (get_spec wf g1 hk').2.2.2.2.2
  rw [habs] at this
  exact this

/-- A revert without a preceding forked assignment is refused (`LeaspyInputError`) and changes nothing. -/
theorem revert_without_fork (mix : M → V → V → V) (s : St V) (h : s.fork = none) (mask : Option M) :
    revert mix s mask = (s, .error .input) := by
  unfold revert; rw [h]

/-- An assignment made while forking is off leaves no fork behind: a later revert cannot resurrect values
    cached before an *earlier* assignment (finding F20, repaired). -/
theorem unforked_set_drops_fork {g : Graph V} (s : St V) {i : Nat} (hi : i < g.n)
    (hk : g.kind i = .indep true) (hm : s.mode = false) (v : Option V) :
    (State.set g s i v).1.fork = none := by
  unfold State.set
  have : ¬ g.n ≤ i := by omega
  simp [this, hk, hm]

/-! ### whole sampler steps (the way `samplers/gibbs.py` drives the state) -/

/-- `IndividualGibbsSampler.sample` as seen by the state: reads of the current terms, proposal by out-of-place
    accumulation (`state.put(name, change, accumulate=True)`), reads of the new terms, then
    `state.revert(~accepted)` with `rejected` the mask of rejected individuals (how it is computed is C03's matter). -/
def indSamplerStep (g : Graph V) (mix : M → V → V → V) (s : St V) (i : Nat)
    (readsBefore readsAfter : List Nat) (change : V → V) (dflt : V) (rejected : M) : St V :=
  let s1 := gets g s readsBefore
  let s2 := (put g s1 i (some change) dflt).1
  let s3 := gets g s2 readsAfter
  (revert mix s3 (some rejected)).1

/-- One block of a population sampler: reads, proposal by accumulation, reads, then `revert()` unless accepted. -/
def popBlockStep (g : Graph V) (mix : M → V → V → V) (s : St V) (i : Nat)
    (readsBefore readsAfter : List Nat) (change : V → V) (dflt : V) (accepted : Bool) : St V :=
  let s1 := gets g s readsBefore
  let s2 := (put g s1 i (some change) dflt).1
  let s3 := gets g s2 readsAfter
  if accepted then s3 else (revert mix s3 none).1

private theorem put_cached {g : Graph V} (s : St V) {i : Nat} (hi : i < g.n) {x : V} (hx : s.vals i = some x)
    (t : V → V) (d : V) : put g s i (some t) d = State.set g s i (some (t x)) := by
  unfold put State.get
  have : ¬ g.n ≤ i := by omega
  simp [this, hx]

/-- **Individual sampler step.**  Whatever is read before and after the proposal (within the documented
    precondition) and whatever the decisions are, after the step the sampled variable is, entry-wise, the old value
    for rejected individuals and the proposed one for accepted individuals; no other independent value changed; the
    state is consistent and holds no fork; every later read is the from-scratch value on that state. -/
theorem ind_sampler_step {g : Graph V} (wf : WF g) (mix : M → V → V → V) {s : St V} (h : Inv g s)
    (hm : s.mode = true) {i : Nat} (hi : i < g.n) (hk : g.kind i = .indep true) {x : V} (hx : s.vals i = some x)
    (rb ra : List Nat) (hrb : ∀ j ∈ rb, j < g.n) (hra : ∀ j ∈ ra, j < g.n) (change : V → V) (d : V) (m : M)
    (hpre : ∀ k ∈ g.desc i, ∀ o c, (gets g s rb).vals k = some o →
      (gets g (State.set g (gets g s rb) i (some (change x))).1 ra).vals k = some c → Commutes g mix m i k) :
    let s' := indSamplerStep g mix s i rb ra change d m
    Inv g s' ∧ absS g s' = upd (absS g s) i (some (mix m x (change x))) ∧ s'.fork = none ∧
    ∀ k, k < g.n → ReadOK g (upd (absS g s) i (some (mix m x (change x)))) k (State.get g s' k).2 := by
  intro s'
  obtain ⟨b1, b2, _, b4, b5⟩ := gets_spec wf rb s h hrb
  have hx1 : (gets g s rb).vals i = some x := b5 i x hx
  have hput := put_cached (g := g) (gets g s rb) hi hx1 change d
  have key := rejected_partial wf mix b1 (b4.trans hm) hi hk (some (change x)) ra hra m hpre
  simp only [hx1, mixOpt, b2] at key
  have hs' : s' = (revert mix (gets g (State.set g (gets g s rb) i (some (change x))).1 ra) (some m)).1 := by
    show indSamplerStep g mix s i rb ra change d m = _
    unfold indSamplerStep
    simp only [hput]
  rw [hs']
  exact key

/-- **Population sampler block.**  After one block the sampled variable holds the proposed value if the block was
    accepted and exactly the old value otherwise; nothing else changed; the state is consistent. -/
theorem pop_block_step {g : Graph V} (wf : WF g) (mix : M → V → V → V) {s : St V} (h : Inv g s)
    (hm : s.mode = true) {i : Nat} (hi : i < g.n) (hk : g.kind i = .indep true) {x : V} (hx : s.vals i = some x)
    (rb ra : List Nat) (hrb : ∀ j ∈ rb, j < g.n) (hra : ∀ j ∈ ra, j < g.n) (change : V → V) (d : V)
    (accepted : Bool) :
    let s' := popBlockStep g mix s i rb ra change d accepted
    Inv g s' ∧ absS g s' = upd (absS g s) i (some (if accepted then change x else x)) ∧ s'.mode = true ∧
    ∀ k, k < g.n → ReadOK g (upd (absS g s) i (some (if accepted then change x else x))) k (State.get g s' k).2 := by
  intro s'
  obtain ⟨b1, b2, _, b4, b5⟩ := gets_spec wf rb s h hrb
  have hx1 : (gets g s rb).vals i = some x := b5 i x hx
  have hput := put_cached (g := g) (gets g s rb) hi hx1 change d
  have hm1 : (gets g s rb).mode = true := b4.trans hm
  cases accepted with
  | true =>
    have key := accepted wf b1 hi hk (some (change x)) ra hra
    simp only [b2] at key
    have hs' : s' = gets g (State.set g (gets g s rb) i (some (change x))).1 ra := by
      show popBlockStep g mix s i rb ra change d true = _
      unfold popBlockStep
      simp only [hput, if_true]
    rw [hs']
    obtain ⟨k1, k2, k3⟩ := key
    refine ⟨k1, by simpa using k2, ?_, by simpa using k3⟩
    obtain ⟨_, _, f3⟩ := set_fork (g := g) (gets g s rb) hi hk hm1 (some (change x))
    obtain ⟨_, _, _, g4, _⟩ := gets_spec wf ra _ (inv_set wf b1 i (some (change x))) hra
    exact g4.trans f3
  | false =>
    have key := rejected_full wf mix b1 hm1 hi hk (some (change x)) ra hra
    simp only [b2] at key
    have hs' : s' = (revert mix (gets g (State.set g (gets g s rb) i (some (change x))).1 ra) none).1 := by
      show popBlockStep g mix s i rb ra change d false = _
      unfold popBlockStep
      simp only [hput]
      rfl
    rw [hs']
    obtain ⟨_, k1, k2, _, k4⟩ := key
    have habs : absS g (gets g s rb) = upd (absS g s) i (some x) := by
      rw [b2]
      funext k
      unfold upd
      by_cases hki : k = i
      · subst hki
        simp only [if_true]
        unfold absS absC
        simp [hk, hx]
      · simp [hki]
    have habs' : absS g s = upd (absS g s) i (some x) := by rw [b2] at habs; exact habs
    refine ⟨k1, ?_, ?_, ?_⟩
    · simp only [Bool.false_eq_true, if_false]; rw [k2]; exact habs'
    · -- mode is untouched by reads, assignments and reverts
      obtain ⟨_, _, f3⟩ := set_fork (g := g) (gets g s rb) hi hk hm1 (some (change x))
      obtain ⟨_, _, g3, g4, _⟩ := gets_spec wf ra _ (inv_set wf b1 i (some (change x))) hra
      have : (gets g (State.set g (gets g s rb) i (some (change x))).1 ra).mode = true := g4.trans f3
      unfold revert
      cases hF : (gets g (State.set g (gets g s rb) i (some (change x))).1 ra).fork <;> simp [this]
    · intro k hk'
      have := k4 k hk'
      simp only [Bool.false_eq_true, if_false]
      rw [← habs']
      exact this

/-- one block of a sweep: the change proposed, the decision, and what is read before / after the proposal -/
structure Block (V : Type) where
  change : V → V
  accepted : Bool
  readsBefore : List Nat
  readsAfter : List Nat

/-- `AbstractPopulationSampler.sample`: the blocks one after the other -/
def popSweep (g : Graph V) (mix : M → V → V → V) (i : Nat) (d : V) (s : St V) (bs : List (Block V)) : St V :=
  bs.foldl (fun s b => popBlockStep g mix s i b.readsBefore b.readsAfter b.change d b.accepted) s

private theorem vals_of_abs {g : Graph V} {s : St V} {i : Nat} (hk : g.kind i = .indep true) {a : Cache V}
    (h : absS g s = a) : s.vals i = a i := by
  have := congrFun h i
  unfold absS absC at this
  simpa [hk] using this

/-- **Population sampler sweep.**  After any number of blocks with any decisions, the sampled variable holds the value
    obtained by applying exactly the accepted changes, in order, to the initial value; nothing else changed. -/
theorem pop_sweep {g : Graph V} (wf : WF g) (mix : M → V → V → V) {i : Nat} (hi : i < g.n)
    (hk : g.kind i = .indep true) (d : V) :
    ∀ (bs : List (Block V)) (s : St V) (x : V), Inv g s → s.mode = true → s.vals i = some x →
      (∀ b ∈ bs, (∀ j ∈ b.readsBefore, j < g.n) ∧ (∀ j ∈ b.readsAfter, j < g.n)) →
      let x' := bs.foldl (fun x b => if b.accepted then b.change x else x) x
      Inv g (popSweep g mix i d s bs) ∧ absS g (popSweep g mix i d s bs) = upd (absS g s) i (some x') ∧
      (popSweep g mix i d s bs).mode = true := by
  intro bs
  induction bs with
  | nil =>
    intro s x h hm hx _
    refine ⟨h, ?_, hm⟩
    show absS g s = upd (absS g s) i (some x)
    funext k
    unfold upd
    by_cases hki : k = i
    · subst hki; simp only [if_true]; unfold absS absC; simp [hk, hx]
    · simp [hki]
  | cons b bs ih =>
    intro s x h hm hx hr
    obtain ⟨hb1, hb2⟩ := hr b (by simp)
    obtain ⟨s1, s2, s3, _⟩ := pop_block_step wf mix h hm hi hk hx b.readsBefore b.readsAfter hb1 hb2 b.change d b.accepted
    have hx1 := vals_of_abs hk s2
    simp only [upd, if_true] at hx1
    obtain ⟨r1, r2, r3⟩ := ih _ _ s1 s3 hx1 (fun b' hb' => hr b' (by simp [hb']))
    simp only [popSweep, List.foldl_cons] at r1 r2 r3 ⊢
    refine ⟨r1, ?_, r3⟩
    rw [r2, s2]
    funext k
    unfold upd
    by_cases hki : k = i <;> simp [hki]

/-- the sweep of one population variable inside an iteration -/
structure Sweep (V : Type) where
  var : Nat
  blocks : List (Block V)

/-- The population part of one MCMC iteration (`for sampler in samplers: sampler.sample(...)`): the sweeps of
    several population variables one after the other, on the same state. -/
def popIteration (g : Graph V) (mix : M → V → V → V) (d : V) (s : St V) (ws : List (Sweep V)) : St V :=
  ws.foldl (fun s w => popSweep g mix w.var d s w.blocks) s

/-- **Several population variables, any number of sweeps.**  After the sweeps of any list of population variables
    (the same variable may come back), with any decisions, each sampled variable holds its initial value with exactly
    its own accepted changes applied in order, no rejected proposal of one variable leaves a trace in another, nothing
    else changed, and the state is consistent (so every later read is the from-scratch value, by C01). -/
theorem pop_iteration {g : Graph V} (wf : WF g) (mix : M → V → V → V) (d : V) :
    ∀ (ws : List (Sweep V)) (s : St V), Inv g s → s.mode = true →
      (∀ w ∈ ws, w.var < g.n ∧ g.kind w.var = .indep true ∧ (absS g s w.var).isSome ∧
        ∀ b ∈ w.blocks, (∀ j ∈ b.readsBefore, j < g.n) ∧ (∀ j ∈ b.readsAfter, j < g.n)) →
      Inv g (popIteration g mix d s ws) ∧ (popIteration g mix d s ws).mode = true ∧
      absS g (popIteration g mix d s ws) =
        ws.foldl (fun a w => upd a w.var ((a w.var).map
          (fun x => w.blocks.foldl (fun x b => if b.accepted then b.change x else x) x))) (absS g s) := by
  intro ws
  induction ws with
  | nil => intro s h hm _; exact ⟨h, hm, rfl⟩
  | cons w ws ih =>
    intro s h hm hw
    obtain ⟨hi, hk, hset, hb⟩ := hw w (by simp)
    obtain ⟨x, hx⟩ := Option.isSome_iff_exists.1 hset
    have hv : s.vals w.var = some x := (vals_of_abs hk rfl).trans hx
    obtain ⟨r1, r2, r3⟩ := pop_sweep wf mix hi hk d w.blocks s x h hm hv hb
    have hrest : ∀ w' ∈ ws, w'.var < g.n ∧ g.kind w'.var = .indep true ∧
        (absS g (popSweep g mix w.var d s w.blocks) w'.var).isSome ∧
        ∀ b ∈ w'.blocks, (∀ j ∈ b.readsBefore, j < g.n) ∧ (∀ j ∈ b.readsAfter, j < g.n) := by
      intro w' hw'
      obtain ⟨a1, a2, a3, a4⟩ := hw w' (by simp [hw'])
      refine ⟨a1, a2, ?_, a4⟩
      rw [r2]
      unfold upd
      by_cases e : w'.var = w.var
      · simp [e]
      · simpa [e] using a3
    obtain ⟨q1, q2, q3⟩ := ih _ r1 r3 hrest
    simp only [popIteration, List.foldl_cons] at q1 q2 q3 ⊢
    refine ⟨q1, q2, ?_⟩
    rw [q3, r2, hx]
    rfl

/-- one individual-sampler step inside an iteration: the variable, the proposed change, the mask of rejected
    individuals and what is read before / after the proposal -/
structure IndStep (V M : Type) where
  var : Nat
  change : V → V
  rejected : M
  readsBefore : List Nat
  readsAfter : List Nat

/-- the individual part of MCMC iterations: steps on any individual variables, one after the other, on one state -/
def indSweep (g : Graph V) (mix : M → V → V → V) (d : V) (s : St V) (ws : List (IndStep V M)) : St V :=
  ws.foldl (fun s w => indSamplerStep g mix s w.var w.readsBefore w.readsAfter w.change d w.rejected) s

/-- The documented precondition of the per-individual revert, evaluated when each step is executed (as `Valid` in C01):
    what is cached on both sides of the proposal, among the dependents of the sampled variable, carries the
    individual axis. -/
def IndValid (g : Graph V) (mix : M → V → V → V) (d : V) : St V → List (IndStep V M) → Prop
  | _, [] => True
  | s, w :: r =>
    (∀ x, s.vals w.var = some x → ∀ k ∈ g.desc w.var, ∀ o c, (gets g s w.readsBefore).vals k = some o →
      (gets g (State.set g (gets g s w.readsBefore) w.var (some (w.change x))).1 w.readsAfter).vals k = some c →
      Commutes g mix w.rejected w.var k) ∧
    IndValid g mix d (indSamplerStep g mix s w.var w.readsBefore w.readsAfter w.change d w.rejected) r

private theorem revert_mode (mix : M → V → V → V) (s : St V) (m : Option M) : (revert mix s m).1.mode = s.mode := by
  unfold revert
  cases s.fork <;> cases m <;> rfl

private theorem indSamplerStep_mode {g : Graph V} (wf : WF g) (mix : M → V → V → V) {s : St V} (h : Inv g s)
    (hm : s.mode = true) {i : Nat} (hi : i < g.n) (hk : g.kind i = .indep true) {x : V} (hx : s.vals i = some x)
    (rb ra : List Nat) (hrb : ∀ j ∈ rb, j < g.n) (hra : ∀ j ∈ ra, j < g.n) (change : V → V) (d : V) (m : M) :
    (indSamplerStep g mix s i rb ra change d m).mode = true := by
  obtain ⟨b1, _, _, b4, b5⟩ := gets_spec wf rb s h hrb
  have hx1 : (gets g s rb).vals i = some x := b5 i x hx
  have hput := put_cached (g := g) (gets g s rb) hi hx1 change d
  obtain ⟨_, _, f3⟩ := set_fork (g := g) (gets g s rb) hi hk (b4.trans hm) (some (change x))
  obtain ⟨_, _, _, g4, _⟩ := gets_spec wf ra _ (inv_set wf b1 i (some (change x))) hra
  unfold indSamplerStep
  simp only [hput]
  rw [revert_mode]
  exact g4.trans f3

/-- **Several individual variables, any number of steps.**  After any list of individual-sampler steps (any variables,
    any masks, the documented precondition holding when each revert is executed), each sampled variable holds, entry
    by entry, the old value where its proposals were rejected and the proposed one where accepted, step after step;
    no other independent value changed; no fork is left; the state is consistent. -/
theorem ind_sweep {g : Graph V} (wf : WF g) (mix : M → V → V → V) (d : V) :
    ∀ (ws : List (IndStep V M)) (s : St V), Inv g s → s.mode = true → s.fork = none →
      (∀ w ∈ ws, w.var < g.n ∧ g.kind w.var = .indep true ∧ (absS g s w.var).isSome ∧
        (∀ j ∈ w.readsBefore, j < g.n) ∧ (∀ j ∈ w.readsAfter, j < g.n)) →
      IndValid g mix d s ws →
      Inv g (indSweep g mix d s ws) ∧ (indSweep g mix d s ws).mode = true ∧ (indSweep g mix d s ws).fork = none ∧
      absS g (indSweep g mix d s ws) =
        ws.foldl (fun a w => upd a w.var ((a w.var).map (fun x => mix w.rejected x (w.change x)))) (absS g s) := by
  intro ws
  induction ws with
  | nil => intro s h hm hf _ _; exact ⟨h, hm, hf, rfl⟩
  | cons w ws ih =>
    intro s h hm _ hw hv
    obtain ⟨hi, hk, hset, hrb, hra⟩ := hw w (by simp)
    obtain ⟨x, hx⟩ := Option.isSome_iff_exists.1 hset
    have hvx : s.vals w.var = some x := (vals_of_abs hk rfl).trans hx
    obtain ⟨hpre, hrestV⟩ := hv
    obtain ⟨r1, r2, r3, _⟩ := ind_sampler_step wf mix h hm hi hk hvx w.readsBefore w.readsAfter hrb hra
      w.change d w.rejected (hpre x hvx)
    have r4 := indSamplerStep_mode wf mix h hm hi hk hvx w.readsBefore w.readsAfter hrb hra w.change d w.rejected
    have hrest : ∀ w' ∈ ws, w'.var < g.n ∧ g.kind w'.var = .indep true ∧
        (absS g (indSamplerStep g mix s w.var w.readsBefore w.readsAfter w.change d w.rejected) w'.var).isSome ∧
        (∀ j ∈ w'.readsBefore, j < g.n) ∧ (∀ j ∈ w'.readsAfter, j < g.n) := by
      intro w' hw'
      obtain ⟨a1, a2, a3, a4, a5⟩ := hw w' (by simp [hw'])
      refine ⟨a1, a2, ?_, a4, a5⟩
      rw [r2]
      unfold upd
      by_cases e : w'.var = w.var
      · simp [e]
      · simpa [e] using a3
    obtain ⟨q1, q2, q3, q4⟩ := ih _ r1 r4 r3 hrest hrestV
    simp only [indSweep, List.foldl_cons] at q1 q2 q3 q4 ⊢
    refine ⟨q1, q2, q3, ?_⟩
    rw [q4, r2, hx]
    rfl

/-! ### the documented precondition of a per-individual revert, structurally -/

/-- With values as functions of the individual index (`IVal R = Nat → R`; population-level values are the constant
    ones) and the entry-wise selection `mixI`: a variable that depends on the assigned one only through variables
    computed individual by individual (`RowwiseFrom`) commutes with the mix.  Aggregating variables (sums over
    individuals) are exactly what `Rowwise` excludes — they are what the documented contract forbids to read. -/
theorem commutes_of_rowwise {R : Type} {g : Graph (IVal R)} (wf : WF g) {i : Nat} (hi : i < g.n) {b : Bool}
    (hki : g.kind i = .indep b) (m : Nat → Bool) {k : Nat} (hrow : RowwiseFrom g i k) (hk : k < g.n) :
    Commutes g mixI m i k :=
  State.commutes_of_rowwise wf hi hki m hrow hk

/-- **Partial rejection, with the precondition in its documented (structural) form**: between the proposal and the
    per-individual revert only variables computed individual by individual were cached. -/
theorem rejected_partial_rowwise {R : Type} {g : Graph (IVal R)} (wf : WF g) {s0 : St (IVal R)} (h0 : Inv g s0)
    (hm : s0.mode = true) {i : Nat} (hi : i < g.n) (hk : g.kind i = .indep true) (v : Option (IVal R))
    (js : List Nat) (hjs : ∀ j ∈ js, j < g.n) (m : Nat → Bool)
    (hpre : ∀ k ∈ g.desc i, ∀ o c, s0.vals k = some o →
      (gets g (State.set g s0 i v).1 js).vals k = some c → RowwiseFrom g i k) :
    let s3 := (revert mixI (gets g (State.set g s0 i v).1 js) (some m)).1
    Inv g s3 ∧ absS g s3 = upd (absS g s0) i (mixOpt mixI m (s0.vals i) v) ∧ s3.fork = none ∧
    ∀ k, k < g.n → ReadOK g (upd (absS g s0) i (mixOpt mixI m (s0.vals i) v)) k (State.get g s3 k).2 :=
  rejected_partial wf mixI h0 hm hi hk v js hjs m
    (fun k hk' o c ho hc => State.commutes_of_rowwise wf hi hk m (hpre k hk' o c ho hc) (wf.desc_lt i k hk'))

/-! ### non-vacuity of `Commutes` -/


private def toyG : Graph (Int × Int) :=
  { n := 5
    kind := fun i => if i = 0 ∨ i = 1 then .indep true else .linked
    parents := fun i => if i = 2 then [0, 1] else if i = 3 then [1] else if i = 4 then [2, 3] else []
    fn := fun i ps => match i, ps with
      | 2, [a, b] => (a.1 + 2 * b.1, a.2 + 2 * b.2)
      | 3, [b] => (b.1 * b.1, b.2 * b.2)
      | 4, [c, d] => (c.1 - d.1, c.2 - d.2)
      | _, _ => (0, 0)
    init := fun _ => none
    order := [0, 1, 2, 3, 4]
    desc := fun i => if i = 0 then [2, 4] else if i = 1 then [2, 3, 4] else if i = 2 then [4] else if i = 3 then [4] else []
    anc := fun i => if i = 2 then [0, 1] else if i = 3 then [1] else if i = 4 then [0, 1, 2, 3] else [] }

private def mix2 (m : Bool × Bool) (o c : Int × Int) : Int × Int :=
  (if m.1 then o.1 else c.1, if m.2 then o.2 else c.2)

private theorem spec4 (ind : Cache (Int × Int)) :
    spec toyG ind 4 = (ind 0).bind fun a => (ind 1).map fun b =>
      ((a.1 + 2 * b.1) - b.1 * b.1, (a.2 + 2 * b.2) - b.2 * b.2) := by
  cases h0 : ind 0 <;> cases h1 : ind 1 <;>
    simp [spec, evalStep, nodeVal, upd, toyG, h0, h1]

/-- Non-vacuity of the precondition: in a graph whose nodes are computed individual by individual (values are
    pairs = two individuals), a descendant of the assigned node commutes with the entry-wise mix. -/
example (m : Bool × Bool) : Commutes toyG mix2 m 1 4 := by
  intro ind x y o c ho hc
  rw [spec4] at ho hc ⊢
  simp only [upd] at ho hc ⊢
  cases h0 : ind 0 with
  | none => simp [h0] at ho
  | some a =>
    simp [h0] at ho hc ⊢
    obtain ⟨m1, m2⟩ := m
    subst ho; subst hc
    cases m1 <;> cases m2 <;> simp [mix2]

end LeaspyVerif.C02
