/-
C17 — personalisation returns one aligned, finite, non-worsening estimate per subject.
Property theorems only.  Models: `Model/Personalize.lean` (+ `Model/IndParams.lean` for `from_pytorch`), `Model/Scalings.lean`.

Proved here (for every chain length, burn-in length, cohort, by induction):
  * which draws are kept, and how many (`kept_eq_drop`, `kept_count`);
  * `mean_posterior` returns exactly the mean of the kept draws (`mean_is_mean_of_kept`, `mean_undefined_iff`,
    `mean_ignores_burnin`);
  * `mode_posterior` returns a kept draw (`mode_is_kept_draw`), of minimal attachment + regularity among the kept
    ones (`mode_minimal`), the first such (`mode_first_on_ties`);
  * `from_pytorch(dataset.indices, …)` keys the i-th estimate by the i-th identifier, in order, with the
    tensor's width as shape (`align_ids_order_shape`, `align_empty_cohort`).

Optimisation-based personalisation, the prior-standardized coordinates (`Model/Scalings.lean`: `_AffineScaling`,
`_AffineScalings1D`, `obj_no_jac`, `_get_individual_parameters_patient` of scipy_minimize.py), for any number of
variables and any dimensions, by induction:
  * what the constructor accepts (`mk_valid`), 0-d priors become dimension 1 (`fromLatent_scalar_prior`);
  * the slices carry the names in order, run between cumulative dimensions, and partition `[0, len)` in order
    (`slices_names`, `slices_start_stop`, `slices_widths`, `slices_partition`);
  * `stack` / `unstack` are inverse bijections between well-shaped points and vectors of length `len`
    (`stack_shaped`, `unstack_stack`, `stack_unstack`); a missing variable is refused, order and extra entries of the
    mapping are irrelevant (`stack_missing_name`, `stack_lookup_only`);
  * `scaling` / `unscaling` are the coordinate-wise maps `(x − loc)/scale`, `loc + scale·v` on the stacked vector
    (`scaling_coordinatewise`, `unscaling_coordinatewise`, shapes: `scaling_shape`, `unscaling_shape`), inverse of each
    other when no scale entry is zero (`unscaling_scaling`, `scaling_unscaling`);
  * optimising in standardized coordinates is the same problem (`transfer_to_natural`, `transfer_to_standardized`);
    the optimiser starts at 0 when the initial values are the prior modes (`start_point_zero`);
  * with the optimiser as a parameter: if it does not worsen the objective it is handed, the returned parameters are
    not worse than the initial ones in natural coordinates (`patient_not_worse`); if it minimises, they minimise
    (`patient_optimal`);
  * what fails with a zero scale entry (`zero_scale_unscaling_not_injective`, `zero_scale_point_unreachable`,
    `zero_scale_transfer_counterexample`); lengths are never compared by the code
    (`scaling_wrong_length_not_refused`, `unscaling_wrong_length_not_refused`).

NOT proved (outside the model — scipy's Powell line search): "optimisation-based personalisation never returns a
point whose objective is worse than that of its starting point" *in standardized coordinates*, i.e. the hypothesis of
`patient_not_worse`.  That clause is monitored on the real code by `harness/c17_personalize.py` and is labelled
partial in the manifest.
Floating point: the theorems are over a linearly ordered field; finiteness of the estimates is checked on the
real code only.
-/
import LeaspyVerif.Model.Personalize
import LeaspyVerif.Model.Scalings
import LeaspyVerif.Lemmas.IndParams
import LeaspyVerif.Lemmas.Personalize
import LeaspyVerif.Lemmas.Scalings
import Mathlib.Algebra.Order.Field.Basic
import Mathlib.Algebra.BigOperators.Group.List.Basic

namespace LeaspyVerif.C17
open LeaspyVerif.Personalize LeaspyVerif.IndParams

/-! ### kept draws -/

/-- The history lists contain exactly the draws of iterations `nBurn+1 … n`, in order. -/
theorem kept_eq_drop {β : Type} (nBurn : Nat) (xs : List β) : kept nBurn xs = xs.drop nBurn := by
  exact kept_eq_drop' nBurn xs

/-- `n − nBurn` draws are kept (none when the burn-in covers the run). -/
theorem kept_count {β : Type} (nBurn : Nat) (xs : List β) : (kept nBurn xs).length = xs.length - nBurn := by
  simp [kept_eq_drop']

/-! ### mean posterior -/

section mean
variable {α : Type} [Field α]

/-- With at least one kept draw, the estimate is the arithmetic mean of the draws of iterations `nBurn+1 … n`. -/
theorem mean_is_mean_of_kept (nBurn : Nat) (xs : List α) (h : nBurn < xs.length) :
    meanKept (fun n : Nat => (n : α)) nBurn xs
      = some ((xs.drop nBurn).sum / ((xs.length - nBurn : Nat) : α)) := by
  have hne : (xs.drop nBurn).isEmpty = false := by
    cases hd : xs.drop nBurn with
    | nil => simp at hd; omega
    | cons y ys => rfl
  simp [meanKept, kept_eq_drop', hne, sum_eq_list_sum]

/-- The mean is undefined (the code raises) exactly when the burn-in covers every iteration. -/
theorem mean_undefined_iff (nBurn : Nat) (xs : List α) :
    meanKept (fun n : Nat => (n : α)) nBurn xs = none ↔ xs.length ≤ nBurn := by
  simp only [meanKept, kept_eq_drop']
  by_cases hl : xs.length ≤ nBurn
  · simp [hl]
  · have : ¬ (xs.drop nBurn = []) := by simp; omega
    simp [hl, this]

/-- Nothing drawn during burn-in influences the estimate. -/
theorem mean_ignores_burnin (nBurn : Nat) (xs ys : List α) (h : xs.drop nBurn = ys.drop nBurn) :
    meanKept (fun n : Nat => (n : α)) nBurn xs = meanKept (fun n : Nat => (n : α)) nBurn ys := by
  simp only [meanKept, kept_eq_drop', h]

end mean

/-! ### mode posterior -/

section mode
variable {α : Type} [LinearOrder α] [Add α]

omit [LinearOrder α] in
/-- The loss of the `j`-th kept draw is attachment + regularity of iteration `nBurn + j + 1`. -/
theorem keptLoss_get (nBurn : Nat) (att reg : List α) (j : Nat) (a r : α)
    (ha : att[nBurn + j]? = some a) (hr : reg[nBurn + j]? = some r) :
    (keptLoss nBurn att reg)[j]? = some (a + r) := by
  simp [keptLoss, kept_eq_drop', List.getElem?_zipWith, List.getElem?_drop, ha, hr]

/-- A draw is returned as soon as one is kept, and it is the draw of a kept iteration (`nBurn + i + 1`). -/
theorem mode_is_kept_draw {β : Type} (nBurn : Nat) (att reg : List α) (draws : List β)
    (ha : att.length = draws.length) (hr : reg.length = draws.length) (h : nBurn < draws.length) :
    ∃ i d, modeIndex nBurn att reg = some i ∧ i < draws.length - nBurn ∧
      draws[nBurn + i]? = some d ∧ modeOf nBurn att reg draws = some d := by
  have hlen : (keptLoss nBurn att reg).length = draws.length - nBurn := by
    simp [keptLoss, kept_eq_drop', ha, hr]
  have hne : keptLoss nBurn att reg ≠ [] := by
    intro h0; rw [h0] at hlen; simp at hlen; omega
  obtain ⟨i, hi⟩ := argmin_isSome _ hne
  obtain ⟨m, hm, -, -⟩ := argmin_spec _ i hi
  have hil : i < draws.length - nBurn := by
    rw [← hlen]
    exact (List.getElem?_eq_some_iff.mp hm).1
  have hd : nBurn + i < draws.length := by omega
  refine ⟨i, draws[nBurn + i], hi, hil, by simp [hd], ?_⟩
  simp [modeOf, modeIndex, hi, kept_eq_drop', List.getElem?_drop, hd]

/-- The selected draw has minimal loss among the kept draws. -/
theorem mode_minimal (nBurn : Nat) (att reg : List α) (i : Nat) (h : modeIndex nBurn att reg = some i) :
    ∃ li, (keptLoss nBurn att reg)[i]? = some li ∧
      ∀ (j : Nat) (lj : α), (keptLoss nBurn att reg)[j]? = some lj → li ≤ lj := by
  obtain ⟨m, hm, hle, -⟩ := argmin_spec _ i h
  exact ⟨m, hm, hle⟩

/-- Ties are broken towards the earliest kept iteration (`torch.argmin` on CPU). -/
theorem mode_first_on_ties (nBurn : Nat) (att reg : List α) (i : Nat) (h : modeIndex nBurn att reg = some i) :
    ∃ li, (keptLoss nBurn att reg)[i]? = some li ∧
      ∀ (j : Nat) (lj : α), j < i → (keptLoss nBurn att reg)[j]? = some lj → li < lj := by
  obtain ⟨m, hm, -, hlt⟩ := argmin_spec _ i h
  exact ⟨m, hm, hlt⟩

end mode

/-! ### alignment with the input identifiers -/

/-- For distinct identifiers and per-variable `(n, w)` tensors with `w ≥ 1`: the result lists exactly the input
    identifiers in input order, records shape `(w,)` for every variable, and the `i`-th identifier carries the
    `i`-th row of every tensor. -/
theorem align_ids_order_shape {q : Type} (ids : List String) (est : List (Name × List (List q))) (w : Name → Nat)
    (hid : ids.Nodup) (hne : ids ≠ []) (hn : NodupKeys est)
    (hrows : ∀ kt ∈ est, kt.2.length = ids.length ∧ ∀ r ∈ kt.2, r.length = w kt.1 ∧ 0 < w kt.1) :
    ∃ c, align ids est = .ok c ∧ c.ids = ids ∧
      c.shapes = some (est.map (fun kt => (kt.1, [w kt.1]))) ∧
      c.params.map (·.1) = ids ∧
      ∀ (i : Nat) (id : String), ids[i]? = some id →
        c.params[i]? = some (id, est.filterMap (fun kt => kt.2[i]?.map (fun r => (kt.1, Val.vec r)))) := by
  have hlen : (est.map (fun kt => (kt.1, Tensor.d2 kt.2))).any
      (fun kt => tensorLen kt.2 != (ids.map RawId.str).length) = false := by
    rw [List.any_eq_false]
    intro kt hk
    simp only [List.mem_map] at hk
    obtain ⟨kt0, hk0, rfl⟩ := hk
    simp [tensorLen, (hrows kt0 hk0).1]
  obtain ⟨c, hc, hids, hpar, hsh⟩ := fromTorchRows_spec w ids empty est hid
    (by intro s _; simp [empty]) hn hrows (Or.inl rfl)
  have hcols : (est.map (fun kt => (kt.1, Tensor.d2 kt.2))).map (fun kt => (kt.1, tensorRows kt.2))
      = colsOf est := by
    simp [colsOf, List.map_map, Function.comp_def]
  refine ⟨c, ?_, ?_, ?_, ?_, ?_⟩
  · simp only [align, fromTorch, hlen, hcols]
    exact hc
  · simpa [empty] using hids
  · simpa [hne] using hsh
  · rw [hpar]; simp [empty, alignRows_keys]
  · intro i id hi
    rw [hpar]
    simpa [empty] using alignRows_get ids est i id hi

/-- An empty cohort gives the empty container. -/
theorem align_empty_cohort {q : Type} (est : List (Name × List (List q))) (h : ∀ kt ∈ est, kt.2 = []) :
    align ([] : List String) est = .ok empty := by
  have hlen : (est.map (fun kt => (kt.1, Tensor.d2 kt.2))).any
      (fun kt => tensorLen kt.2 != ([] : List String).length) = false := by
    rw [List.any_eq_false]
    intro kt hk
    simp only [List.mem_map] at hk
    obtain ⟨kt0, hk0, rfl⟩ := hk
    simp [tensorLen, h kt0 hk0]
  simp only [align, fromTorch, List.map_nil, List.length_nil] at hlen ⊢
  simp [hlen, fromTorchRows]

/-- A repeated identifier is refused rather than silently merged. -/
theorem align_duplicate_refused :
    align ["a", "a"] [("tau".toList, [[(1 : Int)], [2]])] = .error .input := by
  decide +kernel

/-! ### non-vacuity -/

example : modeOf 1 [5, 3, 3, (4 : Int)] [0, 1, 1, 0] ["d1", "d2", "d3", "d4"] = some "d2" := by decide +kernel
example : meanKept (fun n : Nat => (n : Rat)) 2 [100, 100, 1, 2] = some (3 / 2) := by decide +kernel
example : align ["001", "1e3"] [("tau".toList, [[(70 : Int)], [71]])]
    = .ok { ids := ["001", "1e3"],
            params := [("001", [("tau".toList, .vec [70])]), ("1e3", [("tau".toList, .vec [71])])],
            shapes := some [("tau".toList, [1])] } := by decide +kernel

/-! ### prior-standardized coordinates of the optimisation (`_AffineScalings1D`) -/

section scalings
open LeaspyVerif.Scalings
variable {α : Type}

/-! #### construction -/

/-- Whatever `_AffineScalings1D(...)` accepts has, per variable, a 1-D loc and a 1-D scale of the same length, under the
    given names in the given order. -/
theorem mk_valid (raw : List (String × Tns α × Tns α)) :
    ∀ s, mk? raw = .ok s → Valid s ∧ names s = raw.map (·.1) := by
  induction raw with
  | nil =>
    intro s h
    simp only [mk?, Except.ok.injEq] at h
    subst h
    exact ⟨by intro sc hsc; simp at hsc, rfl⟩
  | cons a raw ih =>
    intro s h
    obtain ⟨n, l, sd⟩ := a
    simp only [mk?] at h
    cases hc : checkOne n l sd with
    | error e => rw [hc] at h; cases h
    | ok sc =>
      rw [hc] at h
      cases hr : mk? raw with
      | error e => rw [hr] at h; cases h
      | ok t =>
        rw [hr] at h
        simp only [Except.ok.injEq] at h
        subst h
        obtain ⟨hv, hn⟩ := ih t hr
        have hsc : sc.name = n ∧ sc.loc.length = sc.scale.length := by
          unfold checkOne at hc
          split at hc
          · split at hc
            · simp only [Except.ok.injEq] at hc; subst hc; exact ⟨rfl, by assumption⟩
            · cases hc
          · cases hc
        refine ⟨?_, ?_⟩
        · intro sc' hm
          rcases List.mem_cons.mp hm with e | hm'
          · subst e; exact hsc.2
          · exact hv sc' hm'
        · simp only [names] at hn
          simp [names, hsc.1, hn]

/-- `from_latent_variable`: a 0-d prior mode / stddev becomes a variable of dimension 1. -/
theorem fromLatent_scalar_prior (n : String) (m sd : α) :
    fromLatent [(n, Tns.scalar m, Tns.scalar sd)] = .ok [⟨n, [m], [sd]⟩] := by
  simp [fromLatent, mk?, checkOne, reshape1]

/-! #### slices -/

/-- The slices carry the variable names, in order. -/
theorem slices_names (s : Scalings α) : (slices s).map (·.1) = names s := slicesFrom_names s 0

/-- The `i`-th slice runs from the sum of the first `i` dimensions to the sum of the first `i+1` dimensions. -/
theorem slices_start_stop (s : Scalings α) (i : Nat) :
    (slices s)[i]? = s[i]?.map (fun sc => (sc.name, ((dims s).take i).sum, ((dims s).take (i + 1)).sum)) := by
  simpa [slices] using slicesFrom_getElem? s 0 i

/-- The width of every slice is the dimension of its variable. -/
theorem slices_widths (s : Scalings α) : (slices s).map (fun t => t.2.2 - t.2.1) = dims s := slicesFrom_widths s 0

/-- The slices partition `[0, length)`, in order: listing their indices one slice after the other gives `0, 1, …, length-1`. -/
theorem slices_partition (s : Scalings α) :
    (slices s).flatMap (fun t => List.range' t.2.1 (t.2.2 - t.2.1)) = List.range (length s) := by
  rw [List.range_eq_range']
  exact slicesFrom_partition s 0

/-! #### stack / unstack -/

/-- Stacking a well-shaped point concatenates its values; the result has `len(scalings)` entries. -/
theorem stack_shaped (s : Scalings α) (hw : WellFormed s) (x : Point α) (hx : Shaped s x) :
    stack s x = .ok (flat x) ∧ (flat x).length = length s := by
  obtain ⟨hne, -, hnd⟩ := hw
  have hkeys : (x.map (·.1)).Nodup := by rw [shaped_names s x hx]; exact hnd
  have h := stackGo_of_lookup x s x hx (lookup_of_mem_nodup x hkeys)
  have he : s.isEmpty = false := by
    cases s with
    | nil => exact absurd rfl hne
    | cons _ _ => rfl
  exact ⟨by simp [stack, h, he], shaped_flat_length s x hx⟩

/-- `unstack (stack x) = x` for a well-shaped `x`. -/
theorem unstack_stack (s : Scalings α) (hw : WellFormed s) (x : Point α) (hx : Shaped s x) :
    ∃ v, stack s x = .ok v ∧ v.length = length s ∧ unstack s v = x := by
  obtain ⟨h1, h2⟩ := stack_shaped s hw x hx
  refine ⟨flat x, h1, h2, ?_⟩
  have := unstackFrom_flat s x [] 0 hx rfl
  simpa [unstack, slices] using this

/-- `stack (unstack v) = v` for a vector of the right length, and `unstack v` is well-shaped:
    `stack` / `unstack` are inverse bijections between well-shaped points and vectors of length `len(scalings)`. -/
theorem stack_unstack (s : Scalings α) (hw : WellFormed s) (v : List α) (hl : v.length = length s) :
    Shaped s (unstack s v) ∧ stack s (unstack s v) = .ok v := by
  obtain ⟨h1, h2⟩ := unstackFrom_shaped s [] v 0 rfl hl
  simp only [List.nil_append] at h1 h2
  have hs : Shaped s (unstack s v) := h1
  refine ⟨hs, ?_⟩
  have := (stack_shaped s hw _ hs).1
  rw [this]
  exact congrArg _ h2

/-- A mapping lacking one of the variables is refused (`KeyError`), by `stack` and by `scaling`. -/
theorem stack_missing_name [Sub α] [Div α] (s : Scalings α) (x : Point α) (h : ∃ sc ∈ s, x.lookup sc.name = none) :
    stack s x = .error .key ∧ scaling s x = .error .key := by
  have := stackGo_missing x s h
  simp [stack, scaling, this]

/-- Only the values found under the variables' names matter: order of the mapping and extra entries do not. -/
theorem stack_lookup_only [Sub α] [Div α] (s : Scalings α) (x y : Point α)
    (h : ∀ sc ∈ s, x.lookup sc.name = y.lookup sc.name) :
    stack s x = stack s y ∧ scaling s x = scaling s y := by
  have := stackGo_congr x y s h
  simp [stack, scaling, this]

/-! #### scaling / unscaling -/

/-- On a well-shaped point, `scaling` is the coordinate-wise map `x ↦ (x − loc) / scale` on the stacked vector. -/
theorem scaling_coordinatewise [Sub α] [Div α] (s : Scalings α) (hw : WellFormed s) (x : Point α) (hx : Shaped s x) :
    scaling s x = .ok (List.zipWith stdz (flat x) (params s)) := by
  obtain ⟨h1, h2⟩ := stack_shaped s hw x hx
  have := cat_flat scaleOne stdz scaleOne_eq s hw.1 hw.2.1 (flat x) h2
  simp [scaling, h1, this]

/-- On a vector of the right length, `unscaling` is the coordinate-wise map `v ↦ loc + scale · v`, split back by slices. -/
theorem unscaling_coordinatewise [Add α] [Mul α] (s : Scalings α) (hw : WellFormed s) (v : List α)
    (hl : v.length = length s) :
    unscaling s v = .ok (unstack s (List.zipWith unstdz v (params s))) := by
  have := cat_flat unscaleOne unstdz unscaleOne_eq s hw.1 hw.2.1 v hl
  simp [unscaling, this]

/-- Shape of the standardized vector. -/
theorem scaling_shape [Sub α] [Div α] (s : Scalings α) (hw : WellFormed s) (x : Point α) (hx : Shaped s x) :
    ∃ v, scaling s x = .ok v ∧ v.length = length s := by
  refine ⟨_, scaling_coordinatewise s hw x hx, ?_⟩
  simp [(stack_shaped s hw x hx).2, params_length s hw.2.1]

/-- Shape of the un-standardized point. -/
theorem unscaling_shape [Add α] [Mul α] (s : Scalings α) (hw : WellFormed s) (v : List α) (hl : v.length = length s) :
    ∃ x, unscaling s v = .ok x ∧ Shaped s x := by
  refine ⟨_, unscaling_coordinatewise s hw v hl, ?_⟩
  exact (stack_unstack s hw _ (by simp [hl, params_length s hw.2.1])).1

/-- `unscaling (scaling x) = x` when no scale entry is zero. -/
theorem unscaling_scaling [Field α] (s : Scalings α) (hw : WellFormed s) (hnz : NonzeroScale s)
    (x : Point α) (hx : Shaped s x) :
    ∃ v, scaling s x = .ok v ∧ v.length = length s ∧ unscaling s v = .ok x := by
  obtain ⟨hst, hfl⟩ := stack_shaped s hw x hx
  have hp := params_length s hw.2.1
  have hlen : (List.zipWith stdz (flat x) (params s)).length = length s := by simp [hfl, hp]
  refine ⟨_, scaling_coordinatewise s hw x hx, hlen, ?_⟩
  rw [unscaling_coordinatewise s hw _ hlen]
  have hz : ∀ p ∈ params s, p.2 ≠ 0 := by
    intro p hp'
    obtain ⟨sc, hsc, hm⟩ := mem_params s p hp'
    exact hnz sc hsc _ hm
  rw [zipWith_unstdz_stdz (flat x) (params s) hz (by omega)]
  obtain ⟨v, hv, -, hu⟩ := unstack_stack s hw x hx
  rw [hst] at hv
  cases hv
  rw [hu]

/-- `scaling (unscaling v) = v` when no scale entry is zero. -/
theorem scaling_unscaling [Field α] (s : Scalings α) (hw : WellFormed s) (hnz : NonzeroScale s)
    (v : List α) (hl : v.length = length s) :
    ∃ x, unscaling s v = .ok x ∧ Shaped s x ∧ scaling s x = .ok v := by
  have hp := params_length s hw.2.1
  have hlen : (List.zipWith unstdz v (params s)).length = length s := by simp [hl, hp]
  obtain ⟨hsh, hst⟩ := stack_unstack s hw _ hlen
  refine ⟨_, unscaling_coordinatewise s hw v hl, hsh, ?_⟩
  rw [scaling_coordinatewise s hw _ hsh]
  have hfl : flat (unstack s (List.zipWith unstdz v (params s))) = List.zipWith unstdz v (params s) := by
    have := (stack_shaped s hw _ hsh).1
    rw [hst] at this
    exact (Except.ok.inj this).symm
  have hz : ∀ p ∈ params s, p.2 ≠ 0 := by
    intro p hp'
    obtain ⟨sc, hsc, hm⟩ := mem_params s p hp'
    exact hnz sc hsc _ hm
  rw [hfl, zipWith_stdz_unstdz v (params s) hz (by omega)]

/-! #### optimising in standardized coordinates is the same problem -/

/-- Transfer, standardized → natural: if `v*` minimises the objective the optimiser is handed (`f ∘ unscaling`) over all
    vectors of the right length, then `unscaling v*` is well-shaped and minimises `f` over all well-shaped points. -/
theorem transfer_to_natural [Field α] {β : Type} [Preorder β] (s : Scalings α) (hw : WellFormed s) (hnz : NonzeroScale s)
    (f : Point α → β) (vstar : List α) (hl : vstar.length = length s)
    (hmin : ∀ v, v.length = length s → ∀ a b, objective f s vstar = .ok a → objective f s v = .ok b → a ≤ b) :
    ∃ xstar, unscaling s vstar = .ok xstar ∧ Shaped s xstar ∧ ∀ x, Shaped s x → f xstar ≤ f x := by
  obtain ⟨xstar, hu, hs⟩ := unscaling_shape s hw vstar hl
  refine ⟨xstar, hu, hs, ?_⟩
  intro x hx
  obtain ⟨v, -, hvl, hvu⟩ := unscaling_scaling s hw hnz x hx
  exact hmin v hvl (f xstar) (f x) (by simp [objective, hu]) (by simp [objective, hvu])

/-- Transfer, natural → standardized: if `x*` minimises `f` over all well-shaped points then `scaling x*` minimises the
    optimiser's objective over all vectors of the right length, with the same minimal value. -/
theorem transfer_to_standardized [Field α] {β : Type} [Preorder β] (s : Scalings α) (hw : WellFormed s)
    (hnz : NonzeroScale s) (f : Point α → β) (xstar : Point α) (hx : Shaped s xstar)
    (hmin : ∀ x, Shaped s x → f xstar ≤ f x) :
    ∃ vstar, scaling s xstar = .ok vstar ∧ vstar.length = length s ∧ objective f s vstar = .ok (f xstar) ∧
      ∀ v, v.length = length s → ∃ b, objective f s v = .ok b ∧ f xstar ≤ b := by
  obtain ⟨vstar, hsc, hvl, hvu⟩ := unscaling_scaling s hw hnz xstar hx
  refine ⟨vstar, hsc, hvl, by simp [objective, hvu], ?_⟩
  intro v hv
  obtain ⟨x, hu, hs⟩ := unscaling_shape s hw v hv
  exact ⟨f x, by simp [objective, hu], hmin x hs⟩

/-- The start point: when the initial values are the prior modes, the optimiser starts at `0`. -/
theorem start_point_zero [Field α] (s : Scalings α) (hw : WellFormed s) (_hnz : NonzeroScale s) :
    scaling s (modes s) = .ok (List.replicate (length s) 0) := by
  rw [scaling_coordinatewise s hw _ (shaped_modes s), flat_modes s hw.2.1, ← params_length s hw.2.1]
  congr 1
  generalize params s = ps
  induction ps with
  | nil => rfl
  | cons p ps ih => simp [ih, stdz, List.replicate_succ]

/-- `_get_individual_parameters_patient` in natural coordinates: if the optimiser returns a vector of the right length at
    which the objective it was handed is not worse than at its start `x0` (what the harness monitors for scipy), then the
    parameters returned are well-shaped and `f` there is not worse than at the initial values. -/
theorem patient_not_worse [Field α] {β : Type} [Preorder β] (s : Scalings α) (hw : WellFormed s) (hnz : NonzeroScale s)
    (opt : (List α → Except Scalings.Err β) → List α → List α) (f : Point α → β) (init : Point α) (hi : Shaped s init)
    (hopt : ∀ x0, scaling s init = .ok x0 →
      (opt (objective f s) x0).length = length s ∧
      ∀ a b, objective f s x0 = .ok a → objective f s (opt (objective f s) x0) = .ok b → b ≤ a) :
    ∃ x0 r, scaling s init = .ok x0 ∧ unscaling s x0 = .ok init ∧
      patient opt f s init = .ok r ∧ unscaling s (opt (objective f s) x0) = .ok r ∧ Shaped s r ∧ f r ≤ f init := by
  obtain ⟨x0, hsc, -, hun⟩ := unscaling_scaling s hw hnz init hi
  obtain ⟨hlen, hle⟩ := hopt x0 hsc
  obtain ⟨r, hr, hrs⟩ := unscaling_shape s hw _ hlen
  refine ⟨x0, r, hsc, hun, by simp [patient, hsc, hr], hr, hrs, ?_⟩
  exact hle (f init) (f r) (by simp [objective, hun]) (by simp [objective, hr])

/-- … and if the optimiser returns a minimiser of the objective it was handed, the parameters returned minimise `f`
    over all well-shaped points. -/
theorem patient_optimal [Field α] {β : Type} [Preorder β] (s : Scalings α) (hw : WellFormed s) (hnz : NonzeroScale s)
    (opt : (List α → Except Scalings.Err β) → List α → List α) (f : Point α → β) (init : Point α) (hi : Shaped s init)
    (hopt : ∀ x0, scaling s init = .ok x0 →
      (opt (objective f s) x0).length = length s ∧
      ∀ v, v.length = length s → ∀ a b, objective f s (opt (objective f s) x0) = .ok a → objective f s v = .ok b → a ≤ b) :
    ∃ r, patient opt f s init = .ok r ∧ Shaped s r ∧ ∀ x, Shaped s x → f r ≤ f x := by
  obtain ⟨x0, hsc, -⟩ := scaling_shape s hw init hi
  obtain ⟨hlen, hmin⟩ := hopt x0 hsc
  obtain ⟨r, hr, hrs, hrm⟩ := transfer_to_natural s hw hnz f _ hlen hmin
  exact ⟨r, by simp [patient, hsc, hr], hrs, hrm⟩

/-! #### what fails when a scale entry is 0 (a degenerate prior) -/

/-- one variable of dimension 1 with prior mode 70 and prior standard deviation 0 -/
def zeroScale : Scalings Rat := [⟨"tau", [70], [0]⟩]

/-- With a zero scale, `unscaling` is not injective: two standardized vectors give the same parameters … -/
theorem zero_scale_unscaling_not_injective :
    unscaling zeroScale [1] = .ok [("tau", [70])] ∧ unscaling zeroScale [2] = .ok [("tau", [70])] := by
  decide +kernel

/-- … it is not surjective: no standardized vector at all stands for `tau = 71`, so `unscaling (scaling x) = x` fails
    whatever value the division by zero is given … -/
theorem zero_scale_point_unreachable (v : List Rat) : unscaling zeroScale v ≠ .ok [("tau", [71])] := by
  match v with
  | [] => decide +kernel
  | [a] =>
    have : unscaling zeroScale [a] = .ok [("tau", [70])] := by
      simp [unscaling, cat, catParts, zeroScale, slices, slicesFrom, dim, slice, unscaleOne, bcast, unstack]
    rw [this]; decide +kernel
  | a :: b :: w =>
    have : unscaling zeroScale (a :: b :: w) = .ok [("tau", [70])] := by
      simp [unscaling, cat, catParts, zeroScale, slices, slicesFrom, dim, slice, unscaleOne, bcast, unstack]
    rw [this]; decide +kernel

/-- … and the transfer fails: every vector minimises the (constant) objective in standardized coordinates, while the
    point it stands for does not minimise `f`. -/
theorem zero_scale_transfer_counterexample :
    ∃ (f : Point Rat → Nat) (vstar : List Rat), vstar.length = length zeroScale ∧
      (∀ v, v.length = length zeroScale → ∀ a b, objective f zeroScale vstar = .ok a → objective f zeroScale v = .ok b → a ≤ b) ∧
      ¬ ∃ xstar, unscaling zeroScale vstar = .ok xstar ∧ ∀ x, Shaped zeroScale x → f xstar ≤ f x := by
  refine ⟨fun x => if x = [("tau", [71])] then 0 else 1, [0], rfl, ?_, ?_⟩
  · intro v hv a b ha hb
    have h1 : objective (fun x : Point Rat => if x = [("tau", [71])] then 0 else 1) zeroScale [0] = .ok 1 := by
      decide +kernel
    rw [h1] at ha
    cases ha
    match v, hv with
    | [c], _ =>
      have : unscaling zeroScale [c] = .ok [("tau", [70])] := by
        simp [unscaling, cat, catParts, zeroScale, slices, slicesFrom, dim, slice, unscaleOne, bcast, unstack]
      simp only [objective, this] at hb
      cases hb
      decide
  · rintro ⟨xstar, hu, hmin⟩
    have h2 : unscaling zeroScale [0] = .ok [("tau", [70])] := by decide +kernel
    rw [h2] at hu
    cases hu
    have := hmin [("tau", [71])] ⟨rfl, rfl, trivial⟩
    revert this
    decide +kernel

/-! #### a vector or mapping of the wrong length is not always refused -/

/-- The code never compares lengths: slices clamp and 1-element pieces broadcast.  A mapping whose `tau` has two entries
    and whose `xi` has one is accepted where both variables have dimension 1 — the extra entry shifts `xi` away. -/
theorem scaling_wrong_length_not_refused :
    scaling ([⟨"tau", [70], [5]⟩, ⟨"xi", [0], [1/2]⟩] : Scalings Rat) [("tau", [75, 80]), ("xi", [1])] = .ok [1, 160] := by
  decide +kernel

/-- A too short standardized vector is accepted when the missing piece can broadcast. -/
theorem unscaling_wrong_length_not_refused :
    unscaling ([⟨"tau", [2], [1/2]⟩, ⟨"sources", [1, -1], [2, 4]⟩] : Scalings Rat) [1, 2]
      = .ok [("tau", [5/2]), ("sources", [5, 7])] := by
  decide +kernel

/-! #### non-vacuity -/

/-- a model with two sources: DAG order `sources, tau, xi` -/
def demo : Scalings Rat := [⟨"sources", [0, 0], [1, 1]⟩, ⟨"tau", [79], [6]⟩, ⟨"xi", [0], [1/2]⟩]

example : fromLatent [("sources", Tns.vec [0, 0], Tns.vec [1, 1]), ("tau", Tns.scalar (79 : Rat), Tns.scalar 6),
    ("xi", Tns.vec [0], Tns.vec [1/2])] = .ok demo := by decide +kernel
example : mk? [("tau", Tns.scalar (79 : Rat), Tns.scalar 6)] = .error .assert := by decide +kernel
example : mk? [("tau", Tns.vec [(79 : Rat)], Tns.vec [6, 7])] = .error .assert := by decide +kernel
example : WellFormed demo ∧ NonzeroScale demo := by
  refine ⟨⟨by decide, ?_, by decide⟩, ?_⟩
  · intro sc h; simp [demo] at h; rcases h with rfl | rfl | rfl <;> rfl
  · intro sc h c hc
    simp [demo] at h
    rcases h with rfl | rfl | rfl <;> simp at hc <;> subst hc <;> norm_num
example : Shaped demo [("sources", [1, -1]), ("tau", [85]), ("xi", [1/4])] := ⟨rfl, rfl, rfl, rfl, rfl, rfl, trivial⟩
example : slices demo = [("sources", 0, 2), ("tau", 2, 3), ("xi", 3, 4)] ∧ length demo = 4 := by decide +kernel
example : scaling demo [("sources", [1, -1]), ("tau", [85]), ("xi", [1/4])] = .ok [1, -1, 1, 1/2] := by decide +kernel
example : unscaling demo [1, -1, 1, 1/2] = .ok [("sources", [1, -1]), ("tau", [85]), ("xi", [1/4])] := by decide +kernel
example : scaling demo [("xi", [1/4]), ("extra", [9]), ("tau", [85]), ("sources", [1, -1])] = .ok [1, -1, 1, 1/2] := by
  decide +kernel
example : scaling demo (modes demo) = .ok [0, 0, 0, 0] := by decide +kernel
example : scaling demo [("tau", [85]), ("xi", [1/4])] = .error .key := by decide +kernel
example : scaling ([] : Scalings Rat) [] = .error .runtime := by decide +kernel
/-- an optimiser that moves to a better point: the hypotheses of `patient_not_worse` are satisfiable -/
example : patient (fun _ _ => [0, 0, 1, 0]) (fun x => if x = [("sources", [0, 0]), ("tau", [85]), ("xi", [0])] then 0 else 1)
    demo (modes demo) = .ok [("sources", [0, 0]), ("tau", [85]), ("xi", [0])] := by decide +kernel

end scalings
end LeaspyVerif.C17
