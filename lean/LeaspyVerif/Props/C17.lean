/-
C17 — personalisation returns one aligned, finite, non-worsening estimate per subject.
Property theorems only.  Model: `Model/Personalize.lean` (+ `Model/IndParams.lean` for `from_pytorch`).

Proved here (for every chain length, burn-in length, cohort, by induction):
  * which draws are kept, and how many (`kept_eq_drop`, `kept_count`);
  * `mean_posterior` returns exactly the mean of the kept draws (`mean_is_mean_of_kept`, `mean_undefined_iff`,
    `mean_ignores_burnin`);
  * `mode_posterior` returns a kept draw (`mode_is_kept_draw`), of minimal attachment + regularity among the kept
    ones (`mode_minimal`), the first such (`mode_first_on_ties`);
  * `from_pytorch(dataset.indices, …)` keys the i-th estimate by the i-th identifier, in order, with the
    tensor's width as shape (`align_ids_order_shape`, `align_empty_cohort`).

NOT proved (outside the model — scipy's Powell line search): "optimisation-based personalisation never returns a
point whose objective is worse than that of its starting point".  That clause is monitored on the real code by
`harness/c17_personalize.py` and is labelled partial in the manifest.
Floating point: the theorems are over a linearly ordered field; finiteness of the estimates is checked on the
real code only.
-/
import LeaspyVerif.Model.Personalize
import LeaspyVerif.Lemmas.IndParams
import LeaspyVerif.Lemmas.Personalize
import Mathlib.Algebra.Order.Field.Basic
import Mathlib.Algebra.BigOperators.Group.List.Basic

namespace LeaspyVerif.C17
open LeaspyVerif.Personalize LeaspyVerif.IndParams

/-! ### kept draws -/

/-- The history lists contain exactly the draws of iterations `nBurn+1 … n`, in order. -/
theorem kept_eq_drop {β : Type} (nBurn : Nat) (xs : List β) : kept nBurn xs = xs.drop nBurn := by
  exact kept_eq_drop' nBurn xs

/-- `n − nBurn` draws are kept (none when the burn-in covers the run). -/
theorem kept_count {β : Type} (nBurn : Nat) (xs : List β) : (kept nBurn xs).length = xs.length - nBurn := by
  simp [kept_eq_drop']

/-! ### mean posterior -/

section mean
variable {α : Type} [Field α]

/-- With at least one kept draw, the estimate is the arithmetic mean of the draws of iterations `nBurn+1 … n`. -/
theorem mean_is_mean_of_kept (nBurn : Nat) (xs : List α) (h : nBurn < xs.length) :
    meanKept (fun n : Nat => (n : α)) nBurn xs
      = some ((xs.drop nBurn).sum / ((xs.length - nBurn : Nat) : α)) := by
  have hne : (xs.drop nBurn).isEmpty = false := by
    cases hd : xs.drop nBurn with
    | nil => simp at hd; omega
    | cons y ys => rfl
  simp [meanKept, kept_eq_drop', hne, sum_eq_list_sum]

/-- The mean is undefined (the code raises) exactly when the burn-in covers every iteration. -/
theorem mean_undefined_iff (nBurn : Nat) (xs : List α) :
    meanKept (fun n : Nat => (n : α)) nBurn xs = none ↔ xs.length ≤ nBurn := by
  simp only [meanKept, kept_eq_drop']
  by_cases hl : xs.length ≤ nBurn
  · simp [hl]
  · have : ¬ (xs.drop nBurn = []) := by simp; omega
    simp [hl, this]

/-- Nothing drawn during burn-in influences the estimate. -/
theorem mean_ignores_burnin (nBurn : Nat) (xs ys : List α) (h : xs.drop nBurn = ys.drop nBurn) :
    meanKept (fun n : Nat => (n : α)) nBurn xs = meanKept (fun n : Nat => (n : α)) nBurn ys := by
  simp only [meanKept, kept_eq_drop', h]

end mean

/-! ### mode posterior -/

section mode
variable {α : Type} [LinearOrder α] [Add α]

omit [LinearOrder α] in
/-- The loss of the `j`-th kept draw is attachment + regularity of iteration `nBurn + j + 1`. -/
theorem keptLoss_get (nBurn : Nat) (att reg : List α) (j : Nat) (a r : α)
    (ha : att[nBurn + j]? = some a) (hr : reg[nBurn + j]? = some r) :
    (keptLoss nBurn att reg)[j]? = some (a + r) := by
  simp [keptLoss, kept_eq_drop', List.getElem?_zipWith, List.getElem?_drop, ha, hr]

/-- A draw is returned as soon as one is kept, and it is the draw of a kept iteration (`nBurn + i + 1`). -/
theorem mode_is_kept_draw {β : Type} (nBurn : Nat) (att reg : List α) (draws : List β)
    (ha : att.length = draws.length) (hr : reg.length = draws.length) (h : nBurn < draws.length) :
    ∃ i d, modeIndex nBurn att reg = some i ∧ i < draws.length - nBurn ∧
      draws[nBurn + i]? = some d ∧ modeOf nBurn att reg draws = some d := by
  have hlen : (keptLoss nBurn att reg).length = draws.length - nBurn := by
    simp [keptLoss, kept_eq_drop', ha, hr]
  have hne : keptLoss nBurn att reg ≠ [] := by
    intro h0; rw [h0] at hlen; simp at hlen; omega
  obtain ⟨i, hi⟩ := argmin_isSome _ hne
  obtain ⟨m, hm, -, -⟩ := argmin_spec _ i hi
  have hil : i < draws.length - nBurn := by
    rw [← hlen]
    exact (List.getElem?_eq_some_iff.mp hm).1
  have hd : nBurn + i < draws.length := by omega
  refine ⟨i, draws[nBurn + i], hi, hil, by simp [hd], ?_⟩
  simp [modeOf, modeIndex, hi, kept_eq_drop', List.getElem?_drop, hd]

/-- The selected draw has minimal loss among the kept draws. -/
theorem mode_minimal (nBurn : Nat) (att reg : List α) (i : Nat) (h : modeIndex nBurn att reg = some i) :
    ∃ li, (keptLoss nBurn att reg)[i]? = some li ∧
      ∀ (j : Nat) (lj : α), (keptLoss nBurn att reg)[j]? = some lj → li ≤ lj := by
  obtain ⟨m, hm, hle, -⟩ := argmin_spec _ i h
  exact ⟨m, hm, hle⟩

/-- Ties are broken towards the earliest kept iteration (`torch.argmin` on CPU). -/
theorem mode_first_on_ties (nBurn : Nat) (att reg : List α) (i : Nat) (h : modeIndex nBurn att reg = some i) :
    ∃ li, (keptLoss nBurn att reg)[i]? = some li ∧
      ∀ (j : Nat) (lj : α), j < i → (keptLoss nBurn att reg)[j]? = some lj → li < lj := by
  obtain ⟨m, hm, -, hlt⟩ := argmin_spec _ i h
  exact ⟨m, hm, hlt⟩

end mode

/-! ### alignment with the input identifiers -/

/-- For distinct identifiers and per-variable `(n, w)` tensors with `w ≥ 1`: the result lists exactly the input
    identifiers in input order, records shape `(w,)` for every variable, and the `i`-th identifier carries the
    `i`-th row of every tensor. -/
theorem align_ids_order_shape {q : Type} (ids : List String) (est : List (Name × List (List q))) (w : Name → Nat)
    (hid : ids.Nodup) (hne : ids ≠ []) (hn : NodupKeys est)
    (hrows : ∀ kt ∈ est, kt.2.length = ids.length ∧ ∀ r ∈ kt.2, r.length = w kt.1 ∧ 0 < w kt.1) :
    ∃ c, align ids est = .ok c ∧ c.ids = ids ∧
      c.shapes = some (est.map (fun kt => (kt.1, [w kt.1]))) ∧
      c.params.map (·.1) = ids ∧
      ∀ (i : Nat) (id : String), ids[i]? = some id →
        c.params[i]? = some (id, est.filterMap (fun kt => kt.2[i]?.map (fun r => (kt.1, Val.vec r)))) := by
  have hlen : (est.map (fun kt => (kt.1, Tensor.d2 kt.2))).any
      (fun kt => tensorLen kt.2 != (ids.map RawId.str).length) = false := by
    rw [List.any_eq_false]
    intro kt hk
    simp only [List.mem_map] at hk
    obtain ⟨kt0, hk0, rfl⟩ := hk
    simp [tensorLen, (hrows kt0 hk0).1]
  obtain ⟨c, hc, hids, hpar, hsh⟩ := fromTorchRows_spec w ids empty est hid
    (by intro s _; simp [empty]) hn hrows (Or.inl rfl)
  have hcols : (est.map (fun kt => (kt.1, Tensor.d2 kt.2))).map (fun kt => (kt.1, tensorRows kt.2))
      = colsOf est := by
    simp [colsOf, List.map_map, Function.comp_def]
  refine ⟨c, ?_, ?_, ?_, ?_, ?_⟩
  · simp only [align, fromTorch, hlen, hcols]
    exact hc
  · simpa [empty] using hids
  · simpa [hne] using hsh
  · rw [hpar]; simp [empty, alignRows_keys]
  · intro i id hi
    rw [hpar]
    simpa [empty] using alignRows_get ids est i id hi

/-- An empty cohort gives the empty container. -/
theorem align_empty_cohort {q : Type} (est : List (Name × List (List q))) (h : ∀ kt ∈ est, kt.2 = []) :
    align ([] : List String) est = .ok empty := by
  have hlen : (est.map (fun kt => (kt.1, Tensor.d2 kt.2))).any
      (fun kt => tensorLen kt.2 != ([] : List String).length) = false := by
    rw [List.any_eq_false]
    intro kt hk
    simp only [List.mem_map] at hk
    obtain ⟨kt0, hk0, rfl⟩ := hk
    simp [tensorLen, h kt0 hk0]
  simp only [align, fromTorch, List.map_nil, List.length_nil] at hlen ⊢
  simp [hlen, fromTorchRows]

/-- A repeated identifier is refused rather than silently merged. -/
theorem align_duplicate_refused :
    align ["a", "a"] [("tau".toList, [[(1 : Int)], [2]])] = .error .input := by
  decide +kernel

/-! ### non-vacuity -/

example : modeOf 1 [5, 3, 3, (4 : Int)] [0, 1, 1, 0] ["d1", "d2", "d3", "d4"] = some "d2" := by decide +kernel
example : meanKept (fun n : Nat => (n : Rat)) 2 [100, 100, 1, 2] = some (3 / 2) := by decide +kernel
example : align ["001", "1e3"] [("tau".toList, [[(70 : Int)], [71]])]
    = .ok { ids := ["001", "1e3"],
            params := [("001", [("tau".toList, .vec [70])]), ("1e3", [("tau".toList, .vec [71])])],
            shapes := some [("tau".toList, [1])] } := by decide +kernel

end LeaspyVerif.C17
