/-
C15 — dependency-graph construction is exact.   Model: `Model/Dag.lean`; lemmas: `Lemmas/Dag.lean`.

`Edge g a b`  : `a` is a direct dependency of variable `b`
`Reach g a b` : `b` transitively depends on `a` (transitive closure of `Edge`)
`build g`     : what `VariablesDAG(...)` computes, or the refusal (`input` = LeaspyInputError, `value` = ValueError)
All statements are for every graph `g` (any number of nodes, any edges), no size bound.
-/
import LeaspyVerif.Lemmas.Dag
import LeaspyVerif.Lemmas.Specs

namespace LeaspyVerif.C15
open LeaspyVerif.Dag

private theorem build_ok {g : Graph} {r : Result} (h : build g = .ok r) :
    NoUnknown g ∧ NoSelf g ∧ NoIsolated g ∧ (∀ m < g.n, m ∈ (kahnRun g).out) ∧
    r.order = (kahnRun g).out ∧
    r.children = (fun i => (kahnRun g).out.filter (fun j => (kahnRun g).P i j)) ∧
    r.ancestors = (fun i => (kahnRun g).out.filter (fun a => (kahnRun g).P a i)) := by
  unfold build at h
  split at h
  · cases h
  · next h1 =>
    split at h
    · cases h
    · next h2 =>
      split at h
      · cases h
      · next h3 =>
        simp only [] at h
        split at h
        · cases h
        · next h4 =>
          split at h
          · cases h
          · injection h with h
            subst h
            refine ⟨unknownNodes_false.1 (by simpa using h1), selfLoops_false.1 (by simpa using h2),
              leftAlone_false.1 (by simpa using h3), ?_, rfl, rfl, rfl⟩
            intro m hm
            simp only [Bool.not_eq_true', Bool.not_eq_false, Bool.and_eq_true, List.all_eq_true,
              List.mem_range, List.contains_eq_mem, decide_eq_true_eq] at h4
            exact h4.1 m hm

/-- The accepted order lists every variable exactly once. -/
theorem order_perm_nodes {g : Graph} {r : Result} (h : build g = .ok r) :
    r.order.Perm (List.range g.n) := by
  obtain ⟨_, hs, _, hall, ho, _, _⟩ := build_ok h
  have hf := final_kahnRun hs (g := g)
  rw [ho]
  have hnd : (kahnRun g).out.Nodup := (List.nodup_append.1 hf.nodup).1
  refine (List.perm_ext_iff_of_nodup hnd List.nodup_range).2 ?_
  intro m
  rw [List.mem_range]
  exact ⟨fun hm => hf.lt m (List.mem_append_left _ hm), hall m⟩

/-- Each variable comes after everything it depends on (directly, hence transitively). -/
theorem order_topological {g : Graph} {r : Result} (h : build g = .ok r) {a b : Nat}
    (hr : Reach g a b) : a ∈ r.order ∧ b ∈ r.order ∧ r.order.idxOf a < r.order.idxOf b := by
  obtain ⟨_, hs, _, hall, ho, _, _⟩ := build_ok h
  have hf := final_kahnRun hs (g := g)
  rw [ho]
  have hb := hall b hr.lt_right
  obtain ⟨ha, hlt⟩ := hf.toInv.reach_topo hr hb
  exact ⟨ha, hb, hlt⟩

/-- The reported transitive dependents of `a` are exactly the variables that depend on `a`. -/
theorem children_exact {g : Graph} {r : Result} (h : build g = .ok r) (a b : Nat) :
    b ∈ r.children a ↔ Reach g a b := by
  obtain ⟨hu, hs, _, hall, _, hc, _⟩ := build_ok h
  have hf := final_kahnRun hs (g := g)
  rw [hc]
  simp only [List.mem_filter]
  rw [hf.toInv.path_exact hu hall]
  exact ⟨fun x => x.2, fun x => ⟨hall b x.lt_right, x⟩⟩

/-- The reported transitive dependencies of `b` are exactly the variables `b` depends on. -/
theorem ancestors_exact {g : Graph} {r : Result} (h : build g = .ok r) (a b : Nat) :
    a ∈ r.ancestors b ↔ Reach g a b := by
  obtain ⟨hu, hs, _, hall, _, _, ha⟩ := build_ok h
  have hf := final_kahnRun hs (g := g)
  rw [ha]
  simp only [List.mem_filter]
  rw [hf.toInv.path_exact hu hall]
  exact ⟨fun x => x.2, fun x => ⟨hall a (x.lt_left hu), x⟩⟩

/-- Dependents are listed in the graph order (as a sub-list of it, hence without repetition). -/
theorem children_in_order {g : Graph} {r : Result} (h : build g = .ok r) (a : Nat) :
    (r.children a).Sublist r.order := by
  obtain ⟨_, _, _, _, ho, hc, _⟩ := build_ok h
  rw [ho, hc]; exact List.filter_sublist

/-- Dependencies are listed in the graph order. -/
theorem ancestors_in_order {g : Graph} {r : Result} (h : build g = .ok r) (b : Nat) :
    (r.ancestors b).Sublist r.order := by
  obtain ⟨_, _, _, _, ho, _, ha⟩ := build_ok h
  rw [ho, ha]; exact List.filter_sublist

/-- Definitions are accepted if and only if they refer to known variables only, have no
    self-reference, no isolated variable and no dependency cycle. -/
theorem accepts_iff (g : Graph) :
    (∃ r, build g = .ok r) ↔ (NoUnknown g ∧ NoSelf g ∧ NoIsolated g ∧ Acyclic g) := by
  constructor
  · rintro ⟨r, h⟩
    obtain ⟨hu, hs, hi, _, _, _, _⟩ := build_ok h
    refine ⟨hu, hs, hi, ?_⟩
    intro a ha
    have := (order_topological h ha).2.2
    omega
  · rintro ⟨hu, hs, hi, hac⟩
    have hf := final_kahnRun hs (g := g)
    have hall := Final.all_out_of_acyclic hf hu hac
    have h1 : g.unknownNodes = false := unknownNodes_false.2 hu
    have h2 : g.selfLoops = false := selfLoops_false.2 hs
    have h3 : g.leftAlone = false := leftAlone_false.2 hi
    have h4 : ((List.range g.n).all (fun m => (kahnRun g).out.contains m) &&
        (kahnRun g).out.all (fun m => decide (m < g.n))) = true := by
      simp only [Bool.and_eq_true, List.all_eq_true, List.mem_range, List.contains_eq_mem,
        decide_eq_true_eq]
      exact ⟨hall, fun m hm => hf.lt m (List.mem_append_left _ hm)⟩
    have h5 : triangular (kahnRun g).out (kahnRun g).P = true := triangular_of_inv hf.toInv
    unfold build
    simp only [h1, h2, h3, h4, h5, Bool.false_eq_true, ↓reduceIte, Bool.not_true]
    exact ⟨_, rfl⟩

/-- Which refusal: an unknown reference, a self-reference or an isolated variable is reported as an
    input error (`LeaspyInputError`). -/
theorem refused_input_iff (g : Graph) :
    build g = .error .input ↔ ¬ (NoUnknown g ∧ NoSelf g ∧ NoIsolated g) := by
  rw [← unknownNodes_false, ← selfLoops_false, ← leftAlone_false]
  unfold build
  cases h1 : g.unknownNodes <;> cases h2 : g.selfLoops <;> cases h3 : g.leftAlone <;>
    simp only [Bool.false_eq_true, ↓reduceIte, Bool.true_eq_false, and_true, and_false, and_self,
      not_true_eq_false, not_false_eq_true, iff_false]
  split
  · simp
  · split <;> simp

/-- … and a dependency cycle in otherwise well-formed definitions as a value error. -/
theorem refused_value_iff (g : Graph) :
    build g = .error .value ↔ (NoUnknown g ∧ NoSelf g ∧ NoIsolated g ∧ ¬ Acyclic g) := by
  have hacc := accepts_iff g
  have hinp := refused_input_iff g
  constructor
  · intro h
    have h1 : ¬ build g = .error .input := by rw [h]; simp
    have h2 : NoUnknown g ∧ NoSelf g ∧ NoIsolated g := by
      by_contra hh; exact h1 (hinp.2 hh)
    refine ⟨h2.1, h2.2.1, h2.2.2, ?_⟩
    intro hac
    obtain ⟨r, hr⟩ := hacc.2 ⟨h2.1, h2.2.1, h2.2.2, hac⟩
    rw [hr] at h; cases h
  · rintro ⟨hu, hs, hi, hac⟩
    cases hb : build g with
    | ok r => exact absurd (hacc.1 ⟨r, hb⟩).2.2.2 hac
    | error e =>
      cases e with
      | input => exact absurd ⟨hu, hs, hi⟩ (hinp.1 hb)
      | value => rfl

/-- The result (acceptance, order, dependents, dependencies, or the refusal class) is a function of the
    *sets* of direct dependencies: listing a variable's dependencies in another order, or repeating one,
    changes nothing. (Together with `build` being a function, this is the determinism clause.) -/
theorem deterministic {g g' : Graph} (hn : g.n = g'.n) (h : ∀ m a, a ∈ g.anc m ↔ a ∈ g'.anc m) :
    build g = build g' :=
  build_congr hn h

/-- The modelled `while` loop needs no more than `n + 1` turns: it always ends with an empty queue
    (so the fuel in the model never cuts the real loop short). -/
theorem loop_terminates (g : Graph) (hs : NoSelf g) : (kahnRun g).queue = [] :=
  (final_kahnRun hs).empty

/-! ### Consequences stated outright (what a reader of `sorted_children` / `sorted_ancestors` relies on) -/

/-- No variable is listed twice. -/
theorem order_nodup {g : Graph} {r : Result} (h : build g = .ok r) : r.order.Nodup :=
  (order_perm_nodes h).nodup_iff.2 List.nodup_range

/-- Neither are dependents or dependencies. -/
theorem children_ancestors_nodup {g : Graph} {r : Result} (h : build g = .ok r) (a : Nat) :
    (r.children a).Nodup ∧ (r.ancestors a).Nodup :=
  ⟨(children_in_order h a).nodup (order_nodup h), (ancestors_in_order h a).nodup (order_nodup h)⟩

/-- The two tables are transposes of each other. -/
theorem children_ancestors_dual {g : Graph} {r : Result} (h : build g = .ok r) (a b : Nat) :
    b ∈ r.children a ↔ a ∈ r.ancestors b := by
  rw [children_exact h, ancestors_exact h]

/-- No variable is reported as depending on itself. -/
theorem not_self_dependent {g : Graph} {r : Result} (h : build g = .ok r) (a : Nat) :
    a ∉ r.children a ∧ a ∉ r.ancestors a := by
  have hac : Acyclic g := ((accepts_iff g).1 ⟨r, h⟩).2.2.2
  exact ⟨fun hm => hac a ((children_exact h a a).1 hm), fun hm => hac a ((ancestors_exact h a a).1 hm)⟩

/-- Dependents of dependents are dependents (the tables are transitively closed). -/
theorem children_transitive {g : Graph} {r : Result} (h : build g = .ok r) {a b c : Nat}
    (hab : b ∈ r.children a) (hbc : c ∈ r.children b) : c ∈ r.children a :=
  (children_exact h a c).2 (((children_exact h a b).1 hab).trans ((children_exact h b c).1 hbc))

/-- Every direct dependency of the definitions is reported. -/
theorem direct_dependency_reported {g : Graph} {r : Result} (h : build g = .ok r) {a b : Nat}
    (hb : b < g.n) (hab : a ∈ g.anc b) : a ∈ r.ancestors b ∧ b ∈ r.children a :=
  ⟨(ancestors_exact h a b).2 (.single ⟨hb, hab⟩), (children_exact h a b).2 (.single ⟨hb, hab⟩)⟩

/-- Every reported dependent comes later in the order than the variable itself, every dependency earlier. -/
theorem children_after_ancestors_before {g : Graph} {r : Result} (h : build g = .ok r) (a b : Nat) :
    (b ∈ r.children a → r.order.idxOf a < r.order.idxOf b) ∧
    (b ∈ r.ancestors a → r.order.idxOf b < r.order.idxOf a) :=
  ⟨fun hm => (order_topological h ((children_exact h a b).1 hm)).2.2,
   fun hm => (order_topological h ((ancestors_exact h b a).1 hm)).2.2⟩

/-- The variable listed first depends on nothing, the one listed last has no dependent. -/
theorem first_is_root_last_is_leaf {g : Graph} {r : Result} (h : build g = .ok r) :
    (∀ x tl, r.order = x :: tl → r.ancestors x = []) ∧
    (∀ x, r.order.getLast? = some x → r.children x = []) := by
  constructor
  · intro x tl ho
    apply List.eq_nil_iff_forall_not_mem.2
    intro a ha
    have := ((children_after_ancestors_before h x a).2 ha)
    rw [ho] at this
    simp at this
  · intro x hx
    apply List.eq_nil_iff_forall_not_mem.2
    intro b hb
    have hr := (children_exact h x b).1 hb
    obtain ⟨_, hbo, hlt⟩ := order_topological h hr
    have hlen : r.order.idxOf b < r.order.length := List.idxOf_lt_length_iff.2 hbo
    obtain ⟨ini, hini⟩ : ∃ ini, r.order = ini ++ [x] := by
      rw [List.getLast?_eq_some_iff] at hx
      exact hx
    have hnd := order_nodup h
    rw [hini] at hnd hlt hlen
    have hxi : x ∉ ini := fun hm => by
      rw [List.nodup_append] at hnd
      exact hnd.2.2 x hm x (by simp) rfl
    rw [List.idxOf_append_of_notMem hxi] at hlt
    simp at hlt hlen
    omega

/-- "Exactly ..., each in that same order", at full strength: the reported list of dependents (dependencies)
    of a variable is the ONLY list that is a sub-list of the graph order and has exactly the transitive
    dependents (dependencies) as members. -/
theorem children_ancestors_unique {g : Graph} {r : Result} (h : build g = .ok r) (a : Nat) (l : List Nat)
    (hl : l.Sublist r.order) :
    ((∀ b, b ∈ l ↔ Reach g a b) → l = r.children a) ∧ ((∀ b, b ∈ l ↔ Reach g b a) → l = r.ancestors a) :=
  ⟨fun hm => sublist_ext_of_nodup hl (children_in_order h a) (order_nodup h)
      (fun x => by rw [hm x, children_exact h]),
   fun hm => sublist_ext_of_nodup hl (ancestors_in_order h a) (order_nodup h)
      (fun x => by rw [hm x, ancestors_exact h])⟩

/-! Non-vacuity: a diamond with a late root (0 → 2, 1 → 2, 1 → 3, 2 → 4, 3 → 4; `1` is a second root). -/
private def diamond : Graph := Graph.ofLists [[], [], [0, 1], [1], [2, 3]]

example : ∃ r, build diamond = .ok r ∧ r.order = [0, 1, 2, 3, 4] ∧ r.children 1 = [2, 3, 4] ∧
    r.ancestors 4 = [0, 1, 2, 3] := by
  refine ⟨_, rfl, ?_, ?_, ?_⟩ <;> decide +kernel

example : (match build (Graph.ofLists [[1], [0]]) with | .error .value => true | _ => false) = true := by
  decide +kernel
example : (match build (Graph.ofLists [[], [0], []]) with | .error .input => true | _ => false) = true := by
  decide +kernel

/-! ## Part 2 — the collection of definitions (`NamedVariables`): implicit regularity and summary nodes

Model `Model/Specs.lean`.  `collOf ops` is the collection obtained from the empty one by ANY sequence of
`nv[name] = var` statements (constructor, `update`, item assignment: all go through `__setitem__`), successful or
refused — a refusal may leave the entries added before it, as in the code.  `definitions c` is what
`VariablesDAG.from_dict` reads. -/
section Collection
open LeaspyVerif.Specs

def collOf (ops : List (String × Def)) : Coll := ops.foldl (fun c o => (setItem c o.1 o.2).1) Coll.empty

private theorem foldl_inv : ∀ (ops : List (String × Def)) (c : Coll), NoDup c → Good c →
    NoDup (ops.foldl (fun c o => (setItem c o.1 o.2).1) c) ∧ Good (ops.foldl (fun c o => (setItem c o.1 o.2).1) c) ∧
    (c.entries <+: (ops.foldl (fun c o => (setItem c o.1 o.2).1) c).entries) ∧
    (∀ z ∈ c.indVars, z ∈ (ops.foldl (fun c o => (setItem c o.1 o.2).1) c).indVars) := by
  intro ops
  induction ops with
  | nil => intro c h hg; exact ⟨h, hg, List.prefix_refl _, fun _ hz => hz⟩
  | cons o rest ih =>
    intro c h hg
    obtain ⟨s1, s2, s3, s4, _⟩ := setItem_spec c o.1 o.2 h hg
    obtain ⟨b1, b2, b3, b4⟩ := ih _ s1 s2
    exact ⟨b1, b2, s3.trans b3, fun z hz => b4 z (s4 z hz)⟩

private theorem inv_empty : NoDup Coll.empty ∧ Good Coll.empty :=
  ⟨⟨List.nodup_nil, fun _ _ => rfl⟩, fun _ hz => by cases hz⟩

/-- **No name is ever defined twice**, and no explicit definition carries the name of an automatic variable: the keys
    of every reachable collection (explicit names followed by the automatic ones) are pairwise distinct. -/
theorem collection_keys_unique (ops : List (String × Def)) : (keys (collOf ops)).Nodup := by
  obtain ⟨⟨h1, h2⟩, _, _, _⟩ := foldl_inv ops _ inv_empty.1 inv_empty.2
  unfold keys
  rw [List.nodup_append]
  refine ⟨h1, by decide, ?_⟩
  intro a ha b hb hab
  subst hab
  have h3 : (collOf ops).has a = false := h2 a hb
  obtain ⟨e, he, rfl⟩ := List.mem_map.1 ha
  rw [show (collOf ops).has e.1 = true from has_iff.2 ⟨e, he, rfl⟩] at h3
  cases h3

/-- **A refused name has no effect**: a reserved word, an automatic name or a name in use leaves the collection
    exactly as it was (`ValueError`). -/
theorem collection_refused_name_no_effect (c : Coll) (n : String) (d : Def)
    (h : n ∈ forbiddenNames ∨ n ∈ automaticNames ∨ c.has n = true) : setItem c n d = (c, false) := by
  have hr : refusedName c n = true := by
    unfold refusedName
    simp only [Bool.or_eq_true, List.contains_eq_mem, decide_eq_true_eq]
    rcases h with h | h | h
    · exact Or.inl (Or.inl h)
    · exact Or.inl (Or.inr h)
    · exact Or.inr h
  unfold setItem
  simp [hr]

/-- **Definitions are never rewritten**: whatever is assigned later (accepted or refused), the explicit definitions
    given so far stay, in their order, at the front of the collection. -/
theorem collection_definitions_never_rewritten (ops more : List (String × Def)) :
    (collOf ops).entries <+: (collOf (ops ++ more)).entries := by
  obtain ⟨h1, h2, _, _⟩ := foldl_inv ops _ inv_empty.1 inv_empty.2
  unfold collOf
  rw [List.foldl_append]
  exact (foldl_inv more _ h1 h2).2.2.1

/-- **The implicit summary node depends on exactly the per-individual regularity terms of the individual latent variables
    registered so far** (as a set: the code sorts the set of names) … -/
theorem collection_sum_exact (c : Coll) (x : String) :
    (∃ deps, ("nll_regul_ind_sum_ind", deps) ∈ autoDefs c ∧ x ∈ deps) ↔ ∃ z ∈ c.indVars, x = regulIndName z := by
  unfold autoDefs
  constructor
  · rintro ⟨deps, hd, hx⟩
    simp only [List.mem_cons, Prod.mk.injEq, List.not_mem_nil, or_false] at hd
    rcases hd with ⟨_, rfl⟩ | ⟨h, _⟩
    · obtain ⟨z, hz, rfl⟩ := List.mem_map.1 hx
      exact ⟨z, mem_sortNames.1 hz, rfl⟩
    · exact absurd h (by decide)
  · rintro ⟨z, hz, rfl⟩
    exact ⟨_, by simp, List.mem_map.2 ⟨z, mem_sortNames.2 hz, rfl⟩⟩

/-- … and an individual latent variable is registered as soon as its assignment succeeds — at whatever point of the life
    of the collection (the automatic variables are not frozen by having been read before). -/
theorem collection_registers_ind (c : Coll) (n m s : String) (h : (setItem c n (.ind m s)).2 = true) :
    n ∈ (setItem c n (.ind m s)).1.indVars := by
  unfold setItem at h ⊢
  cases hr : refusedName c n with
  | true => simp [hr] at h
  | false =>
    simp only [hr, Bool.false_eq_true, if_false] at h ⊢
    cases hok : (addPlain (push c (n, ownDeps (.ind m s))) (companions n (.ind m s))).2 with
    | false => simp [hok] at h
    | true =>
      simp only [if_true]
      exact mem_register_indVars.2 (Or.inr ⟨rfl, m, s, rfl⟩)

/-- **Every registered individual latent variable is wired to the summary nodes**: in the definitions read by the graph
    construction, `nll_regul_<z>_ind` exists and depends on `z` (and on the two parameters of its prior), `nll_regul_<z>`
    depends on it, it is a dependency of `nll_regul_ind_sum_ind`, and `nll_regul_ind_sum` depends on that. -/
theorem collection_ind_chain (ops : List (String × Def)) (z : String) (hz : z ∈ (collOf ops).indVars) :
    (∃ e ∈ definitions (collOf ops), e.1 = z) ∧
    (∃ m s, (regulIndName z, [z, m, s]) ∈ definitions (collOf ops)) ∧
    (regulName z, [regulIndName z]) ∈ definitions (collOf ops) ∧
    (∃ deps, ("nll_regul_ind_sum_ind", deps) ∈ definitions (collOf ops) ∧ regulIndName z ∈ deps) ∧
    ("nll_regul_ind_sum", ["nll_regul_ind_sum_ind"]) ∈ definitions (collOf ops) := by
  obtain ⟨_, hg, _, _⟩ := foldl_inv ops _ inv_empty.1 inv_empty.2
  obtain ⟨g1, ⟨m, s, g2⟩, g3⟩ := hg z hz
  obtain ⟨e, he, hez⟩ := has_iff.1 g1
  unfold definitions
  refine ⟨⟨e, List.mem_append_left _ he, hez⟩, ⟨m, s, List.mem_append_left _ g2⟩, List.mem_append_left _ g3, ?_, ?_⟩
  · obtain ⟨deps, hd, hx⟩ := (collection_sum_exact (collOf ops) (regulIndName z)).2 ⟨z, hz, rfl⟩
    exact ⟨deps, List.mem_append_right _ hd, hx⟩
  · exact List.mem_append_right _ (by simp [autoDefs])

/-- The scenario of a collection assembled in instalments: an individual latent variable assigned successfully AFTER any
    history (reads of the automatic variables included — they are not part of the state) is counted by the summary node. -/
theorem collection_later_ind_var_counted (ops : List (String × Def)) (n m s : String)
    (h : (setItem (collOf ops) n (.ind m s)).2 = true) :
    ∃ deps, ("nll_regul_ind_sum_ind", deps) ∈ definitions (collOf (ops ++ [(n, .ind m s)])) ∧ regulIndName n ∈ deps := by
  have hz : n ∈ (collOf (ops ++ [(n, .ind m s)])).indVars := by
    unfold collOf
    rw [List.foldl_append]
    exact collection_registers_ind _ n m s h
  exact (collection_ind_chain _ n hz).2.2.2.1

/-- **End to end** (collection → ranking of the names → graph construction): in the graph built from ANY reachable
    collection, every registered individual latent variable has the summary node `nll_regul_ind_sum` among its reported
    dependents, is among the reported dependencies of that node, and comes before it in the graph order. -/
theorem collection_graph_ind_feeds_sum (ops : List (String × Def)) (z : String) (hz : z ∈ (collOf ops).indVars)
    {r : Dag.Result} (hb : Dag.build (graphOf (definitions (collOf ops))) = .ok r) :
    let rk := fun x => (rankedNames (definitions (collOf ops))).idxOf x
    rk "nll_regul_ind_sum" ∈ r.children (rk z) ∧ rk z ∈ r.ancestors (rk "nll_regul_ind_sum") ∧
    r.order.idxOf (rk z) < r.order.idxOf (rk "nll_regul_ind_sum") := by
  intro rk
  have hnd : ((definitions (collOf ops)).map (·.1)).Nodup := by
    rw [definitions_keys]; exact collection_keys_unique ops
  obtain ⟨_, ⟨m, s, h1⟩, _, ⟨deps, h2, h3⟩, h4⟩ := collection_ind_chain ops z hz
  have e1 := graphOf_edge hnd h1 (a := z) (by simp)
  have e2 := graphOf_edge hnd h2 h3
  have e3 := graphOf_edge hnd h4 (a := "nll_regul_ind_sum_ind") (by simp)
  have hr : Reach (graphOf (definitions (collOf ops))) (rk z) (rk "nll_regul_ind_sum") :=
    .tail (.tail (.single e1) e2) e3
  exact ⟨(children_exact hb _ _).2 hr, (ancestors_exact hb _ _).2 hr, (order_topological hb hr).2.2⟩

/-- … and the hypothesis is met: the example collection below is accepted by the graph construction. -/
example : (match fromDict (collOf [("tau", .ind "tau_mean" "tau_std"), ("tau_mean", .plain), ("tau_std", .plain)]) with
    | .ok order => order == ["tau", "tau_mean", "tau_std", "nll_regul_tau_ind", "nll_regul_ind_sum_ind", "nll_regul_tau",
        "nll_regul_ind_sum"]
    | _ => false) = true := by decide +kernel

/-! Non-vacuity: `tau` before the parameters of its prior, a refused name in between, a second individual variable later. -/
private def exOps : List (String × Def) :=
  [("tau", .ind "tau_mean" "tau_std"), ("tau_mean", .plain), ("state", .plain), ("tau_std", .plain),
   ("xi", .ind "xi_mean" "xi_std")]

example : (collOf exOps).indVars = ["tau", "xi"] ∧
    keys (collOf exOps) = ["tau", "nll_regul_tau_ind", "nll_regul_tau", "tau_mean", "tau_std", "xi", "nll_regul_xi_ind",
      "nll_regul_xi", "nll_regul_ind_sum_ind", "nll_regul_ind_sum"] ∧
    (autoDefs (collOf exOps)).head? = some ("nll_regul_ind_sum_ind", ["nll_regul_tau_ind", "nll_regul_xi_ind"]) := by
  refine ⟨?_, ?_, ?_⟩ <;> decide +kernel

end Collection

end LeaspyVerif.C15
