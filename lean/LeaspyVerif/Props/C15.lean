/-
C15 — dependency-graph construction is exact.   Model: `Model/Dag.lean`; lemmas: `Lemmas/Dag.lean`.

`Edge g a b`  : `a` is a direct dependency of variable `b`
`Reach g a b` : `b` transitively depends on `a` (transitive closure of `Edge`)
`build g`     : what `VariablesDAG(...)` computes, or the refusal (`input` = LeaspyInputError, `value` = ValueError)
All statements are for every graph `g` (any number of nodes, any edges), no size bound.
-/
import LeaspyVerif.Lemmas.Dag

namespace LeaspyVerif.C15
open LeaspyVerif.Dag

private theorem build_ok {g : Graph} {r : Result} (h : build g = .ok r) :
    NoUnknown g ∧ NoSelf g ∧ NoIsolated g ∧ (∀ m < g.n, m ∈ (kahnRun g).out) ∧
    r.order = (kahnRun g).out ∧
    r.children = (fun i => (kahnRun g).out.filter (fun j => (kahnRun g).P i j)) ∧
    r.ancestors = (fun i => (kahnRun g).out.filter (fun a => (kahnRun g).P a i)) := by
  unfold build at h
  split at h
  · cases h
  · next h1 =>
    split at h
    · cases h
    · next h2 =>
      split at h
      · cases h
      · next h3 =>
        simp only [] at h
        split at h
        · cases h
        · next h4 =>
          split at h
          · cases h
          · injection h with h
            subst h
            refine ⟨unknownNodes_false.1 (by simpa using h1), selfLoops_false.1 (by simpa using h2),
              leftAlone_false.1 (by simpa using h3), ?_, rfl, rfl, rfl⟩
            intro m hm
            simp only [Bool.not_eq_true', Bool.not_eq_false, Bool.and_eq_true, List.all_eq_true,
              List.mem_range, List.contains_eq_mem, decide_eq_true_eq] at h4
            exact h4.1 m hm

/-- The accepted order lists every variable exactly once. -/
theorem order_perm_nodes {g : Graph} {r : Result} (h : build g = .ok r) :
    r.order.Perm (List.range g.n) := by
  obtain ⟨_, hs, _, hall, ho, _, _⟩ := build_ok h
  have hf := final_kahnRun hs (g := g)
  rw [ho]
  have hnd : (kahnRun g).out.Nodup := (List.nodup_append.1 hf.nodup).1
  refine (List.perm_ext_iff_of_nodup hnd List.nodup_range).2 ?_
  intro m
  rw [List.mem_range]
  exact ⟨fun hm => hf.lt m (List.mem_append_left _ hm), hall m⟩

/-- Each variable comes after everything it depends on (directly, hence transitively). -/
theorem order_topological {g : Graph} {r : Result} (h : build g = .ok r) {a b : Nat}
    (hr : Reach g a b) : a ∈ r.order ∧ b ∈ r.order ∧ r.order.idxOf a < r.order.idxOf b := by
  obtain ⟨_, hs, _, hall, ho, _, _⟩ := build_ok h
  have hf := final_kahnRun hs (g := g)
  rw [ho]
  have hb := hall b hr.lt_right
  obtain ⟨ha, hlt⟩ := hf.toInv.reach_topo hr hb
  exact ⟨ha, hb, hlt⟩

/-- The reported transitive dependents of `a` are exactly the variables that depend on `a`. -/
theorem children_exact {g : Graph} {r : Result} (h : build g = .ok r) (a b : Nat) :
    b ∈ r.children a ↔ Reach g a b := by
  obtain ⟨hu, hs, _, hall, _, hc, _⟩ := build_ok h
  have hf := final_kahnRun hs (g := g)
  rw [hc]
  simp only [List.mem_filter]
  rw [hf.toInv.path_exact hu hall]
  exact ⟨fun x => x.2, fun x => ⟨hall b x.lt_right, x⟩⟩

/-- The reported transitive dependencies of `b` are exactly the variables `b` depends on. -/
theorem ancestors_exact {g : Graph} {r : Result} (h : build g = .ok r) (a b : Nat) :
    a ∈ r.ancestors b ↔ Reach g a b := by
  obtain ⟨hu, hs, _, hall, _, _, ha⟩ := build_ok h
  have hf := final_kahnRun hs (g := g)
  rw [ha]
  simp only [List.mem_filter]
  rw [hf.toInv.path_exact hu hall]
  exact ⟨fun x => x.2, fun x => ⟨hall a (x.lt_left hu), x⟩⟩

/-- Dependents are listed in the graph order (as a sub-list of it, hence without repetition). -/
theorem children_in_order {g : Graph} {r : Result} (h : build g = .ok r) (a : Nat) :
    (r.children a).Sublist r.order := by
  obtain ⟨_, _, _, _, ho, hc, _⟩ := build_ok h
  rw [ho, hc]; exact List.filter_sublist

/-- Dependencies are listed in the graph order. -/
theorem ancestors_in_order {g : Graph} {r : Result} (h : build g = .ok r) (b : Nat) :
    (r.ancestors b).Sublist r.order := by
  obtain ⟨_, _, _, _, ho, _, ha⟩ := build_ok h
  rw [ho, ha]; exact List.filter_sublist

/-- Definitions are accepted if and only if they refer to known variables only, have no
    self-reference, no isolated variable and no dependency cycle. -/
theorem accepts_iff (g : Graph) :
    (∃ r, build g = .ok r) ↔ (NoUnknown g ∧ NoSelf g ∧ NoIsolated g ∧ Acyclic g) := by
  constructor
  · rintro ⟨r, h⟩
    obtain ⟨hu, hs, hi, _, _, _, _⟩ := build_ok h
    refine ⟨hu, hs, hi, ?_⟩
    intro a ha
    have := (order_topological h ha).2.2
    omega
  · rintro ⟨hu, hs, hi, hac⟩
    have hf := final_kahnRun hs (g := g)
    have hall := Final.all_out_of_acyclic hf hu hac
    have h1 : g.unknownNodes = false := unknownNodes_false.2 hu
    have h2 : g.selfLoops = false := selfLoops_false.2 hs
    have h3 : g.leftAlone = false := leftAlone_false.2 hi
    have h4 : ((List.range g.n).all (fun m => (kahnRun g).out.contains m) &&
        (kahnRun g).out.all (fun m => decide (m < g.n))) = true := by
      simp only [Bool.and_eq_true, List.all_eq_true, List.mem_range, List.contains_eq_mem,
        decide_eq_true_eq]
      exact ⟨hall, fun m hm => hf.lt m (List.mem_append_left _ hm)⟩
    have h5 : triangular (kahnRun g).out (kahnRun g).P = true := triangular_of_inv hf.toInv
    unfold build
    simp only [h1, h2, h3, h4, h5, Bool.false_eq_true, ↓reduceIte, Bool.not_true]
    exact ⟨_, rfl⟩

/-- Which refusal: an unknown reference, a self-reference or an isolated variable is reported as an
    input error (`LeaspyInputError`). -/
theorem refused_input_iff (g : Graph) :
    build g = .error .input ↔ ¬ (NoUnknown g ∧ NoSelf g ∧ NoIsolated g) := by
  rw [← unknownNodes_false, ← selfLoops_false, ← leftAlone_false]
  unfold build
  cases h1 : g.unknownNodes <;> cases h2 : g.selfLoops <;> cases h3 : g.leftAlone <;>
    simp only [Bool.false_eq_true, ↓reduceIte, Bool.true_eq_false, and_true, and_false, and_self,
      not_true_eq_false, not_false_eq_true, iff_false]
  split
  · simp
  · split <;> simp

/-- … and a dependency cycle in otherwise well-formed definitions as a value error. -/
theorem refused_value_iff (g : Graph) :
    build g = .error .value ↔ (NoUnknown g ∧ NoSelf g ∧ NoIsolated g ∧ ¬ Acyclic g) := by
  have hacc := accepts_iff g
  have hinp := refused_input_iff g
  constructor
  · intro h
    have h1 : ¬ build g = .error .input := by rw [h]; simp
    have h2 : NoUnknown g ∧ NoSelf g ∧ NoIsolated g := by
      by_contra hh; exact h1 (hinp.2 hh)
    refine ⟨h2.1, h2.2.1, h2.2.2, ?_⟩
    intro hac
    obtain ⟨r, hr⟩ := hacc.2 ⟨h2.1, h2.2.1, h2.2.2, hac⟩
    rw [hr] at h; cases h
  · rintro ⟨hu, hs, hi, hac⟩
    cases hb : build g with
    | ok r => exact absurd (hacc.1 ⟨r, hb⟩).2.2.2 hac
    | error e =>
      cases e with
      | input => exact absurd ⟨hu, hs, hi⟩ (hinp.1 hb)
      | value => rfl

/-- The result (acceptance, order, dependents, dependencies, or the refusal class) is a function of the
    *sets* of direct dependencies: listing a variable's dependencies in another order, or repeating one,
    changes nothing. (Together with `build` being a function, this is the determinism clause.) -/
theorem deterministic {g g' : Graph} (hn : g.n = g'.n) (h : ∀ m a, a ∈ g.anc m ↔ a ∈ g'.anc m) :
    build g = build g' :=
  build_congr hn h

/-- The modelled `while` loop needs no more than `n + 1` turns: it always ends with an empty queue
    (so the fuel in the model never cuts the real loop short). -/
theorem loop_terminates (g : Graph) (hs : NoSelf g) : (kahnRun g).queue = [] :=
  (final_kahnRun hs).empty

/-! Non-vacuity: a diamond with a late root (0 → 2, 1 → 2, 1 → 3, 2 → 4, 3 → 4; `1` is a second root). -/
private def diamond : Graph := Graph.ofLists [[], [], [0, 1], [1], [2, 3]]

example : ∃ r, build diamond = .ok r ∧ r.order = [0, 1, 2, 3, 4] ∧ r.children 1 = [2, 3, 4] ∧
    r.ancestors 4 = [0, 1, 2, 3] := by
  refine ⟨_, rfl, ?_, ?_, ?_⟩ <;> decide +kernel

example : (match build (Graph.ofLists [[1], [0]]) with | .error .value => true | _ => false) = true := by
  decide +kernel
example : (match build (Graph.ofLists [[], [0], []]) with | .error .input => true | _ => false) = true := by
  decide +kernel

end LeaspyVerif.C15
