/-
C18 — simulation honours the requested design.
Property theorems only (helper lemmas are private).  Model: `Model/Simulate.lean` (the code after the repairs
F13 F14 F15 F16 F16b F16c F16d; findings F16e F16f F16g F16h are reproduced by the model and appear below as
`_counterexample` witnesses next to the `_partial` theorems that carry the explicit guards).
-/
import LeaspyVerif.Model.Simulate
import Mathlib.Algebra.Order.Field.Basic
import Mathlib.Algebra.Order.Field.Rat
import Mathlib.Tactic.Ring
import Mathlib.Tactic.Linarith

namespace LeaspyVerif.C18
open LeaspyVerif.Simulate
set_option linter.unusedSectionVars false

/-! ### Rounding, de-duplication, sorted insertion: unique increasing ages for every draw list -/


private theorem dedupAux_spec {β : Type} [DecidableEq β] (l : List β) :
    ∀ seen : List β, (∀ x, x ∈ dedupAux seen l ↔ x ∈ l ∧ x ∉ seen) ∧ (dedupAux seen l).Nodup := by
  induction l with
  | nil => intro seen; simp [dedupAux]
  | cons a as ih =>
    intro seen
    by_cases h : a ∈ seen
    · obtain ⟨h1, h2⟩ := ih seen
      simp only [dedupAux, h, if_true]
      refine ⟨fun x => ?_, h2⟩
      rw [h1 x]
      constructor
      · rintro ⟨hx, hs⟩; exact ⟨List.mem_cons_of_mem _ hx, hs⟩
      · rintro ⟨hx, hs⟩
        rcases List.mem_cons.mp hx with rfl | hx
        · exact absurd h hs
        · exact ⟨hx, hs⟩
    · obtain ⟨h1, h2⟩ := ih (a :: seen)
      simp only [dedupAux, h, if_false]
      refine ⟨fun x => ?_, ?_⟩
      · rw [List.mem_cons, h1 x]
        constructor
        · rintro (rfl | ⟨hx, hs⟩)
          · exact ⟨List.mem_cons_self, h⟩
          · exact ⟨List.mem_cons_of_mem _ hx, fun hh => hs (List.mem_cons_of_mem _ hh)⟩
        · rintro ⟨hx, hs⟩
          by_cases hxa : x = a
          · exact Or.inl hxa
          · right
            rcases List.mem_cons.mp hx with rfl | hx
            · exact absurd rfl hxa
            · refine ⟨hx, fun hh => ?_⟩
              rcases List.mem_cons.mp hh with rfl | hh
              · exact hxa rfl
              · exact hs hh
      · refine List.nodup_cons.mpr ⟨fun hh => ?_, h2⟩
        exact ((h1 a).mp hh).2 List.mem_cons_self

private theorem mem_bisectInsert (l : List Int) (t x : Int) : x ∈ bisectInsert l t ↔ x = t ∨ x ∈ l := by
  induction l with
  | nil => simp [bisectInsert]
  | cons a as ih =>
    simp only [bisectInsert]
    split
    · simp
    · simp only [List.mem_cons, ih]; tauto

private theorem pairwise_bisectInsert (l : List Int) (t : Int) (hl : l.Pairwise (· < ·)) (ht : t ∉ l) :
    (bisectInsert l t).Pairwise (· < ·) := by
  induction l with
  | nil => simp [bisectInsert]
  | cons a as ih =>
    have hp := List.pairwise_cons.mp hl
    simp only [bisectInsert]
    split
    · rename_i hta
      refine List.pairwise_cons.mpr ⟨fun y hy => ?_, hl⟩
      rcases List.mem_cons.mp hy with rfl | hy
      · exact hta
      · exact Int.lt_trans hta (hp.1 y hy)
    · rename_i hta
      have hne : t ≠ a := fun h => ht (h ▸ List.mem_cons_self)
      have hat : a < t := by omega
      refine List.pairwise_cons.mpr ⟨fun y hy => ?_, ih hp.2 (fun h => ht (List.mem_cons_of_mem _ h))⟩
      rcases (mem_bisectInsert as t y).mp hy with rfl | hy
      · exact hat
      · exact hp.1 y hy

private theorem foldlM_insertAge (ts : List Int) :
    ∀ acc : List Int, acc.Pairwise (· < ·) → ts.Nodup → (∀ x ∈ ts, x ∉ acc) →
      ∃ l, ts.foldlM insertAge acc = .ok l ∧ l.Pairwise (· < ·) ∧ ∀ x, x ∈ l ↔ x ∈ acc ∨ x ∈ ts := by
  induction ts with
  | nil => intro acc hacc _ _; exact ⟨acc, rfl, hacc, by simp⟩
  | cons t ts ih =>
    intro acc hacc hnd hdisj
    have ht : t ∉ acc := hdisj t List.mem_cons_self
    have hnd' := List.nodup_cons.mp hnd
    have hstep : insertAge acc t = .ok (bisectInsert acc t) := by simp [insertAge, ht]
    obtain ⟨l, hl, hpl, hmem⟩ := ih (bisectInsert acc t) (pairwise_bisectInsert acc t hacc ht) hnd'.2
      (fun x hx hx' => by
        rcases (mem_bisectInsert acc t x).mp hx' with rfl | h
        · exact hnd'.1 hx
        · exact hdisj x (List.mem_cons_of_mem _ hx) h)
    refine ⟨l, ?_, hpl, fun x => ?_⟩
    · rw [List.foldlM_cons, hstep]; exact hl
    · rw [hmem x, mem_bisectInsert, List.mem_cons]; tauto

/-- **Unique, strictly increasing ages, for every list of generated ages** (hence for every list of draws),
    whatever the rounding function: rounding + de-duplication + `Data.from_dataframe` never fail
    (no "overwrite time-point" refusal) and yield strictly increasing ages. -/
theorem ages_unique_increasing {α : Type} (key : α → Int) (ages : List α) :
    ∃ l, finalize key ages = .ok l ∧ l.Pairwise (· < ·) := by
  obtain ⟨hm, hn⟩ := dedupAux_spec (ages.map key) []
  obtain ⟨l, h1, h2, _⟩ := foldlM_insertAge (dedup (ages.map key)) [] List.Pairwise.nil hn (by simp)
  exact ⟨l, h1, h2⟩

/-- The final ages are exactly the rounded generated ages: no visit is lost except by coincidence after
    rounding, none is invented. -/
theorem ages_are_the_rounded_draws {α : Type} (key : α → Int) (ages : List α) (l : List Int)
    (h : finalize key ages = .ok l) : ∀ k, k ∈ l ↔ ∃ a ∈ ages, key a = k := by
  obtain ⟨hm, hn⟩ := dedupAux_spec (ages.map key) []
  obtain ⟨l', h1, _, h3⟩ := foldlM_insertAge (dedup (ages.map key)) [] List.Pairwise.nil hn (by simp)
  have : l = l' := by
    have := h.symm.trans h1
    exact Except.ok.inj this
  subst this
  intro k
  rw [h3 k]
  simp only [List.not_mem_nil, false_or]
  have := hm k
  simp only [List.not_mem_nil, not_false_eq_true, and_true, List.mem_map] at this
  exact this


/-! ### The visit loop -/


section Field
variable {α : Type} [Field α] [LinearOrder α] [IsStrictOrderedRing α]

/-- **Termination of the visit loop.** If every step draw is at least `δ > 0`, the follow-up age is at most
    `n·δ` above the start and at least `n` draws are available, the loop ends; it consumes at most `n` draws
    and what it leaves is a part of what it was given. (Covers `distance_visit_std = 0, mean > 0`.)
    `0 < δ` is not needed by the proof: it is what makes the bound `fu - t ≤ n·δ` satisfiable for an age that
    is not reached yet (for `δ ≤ 0` no `n` exists, which is finding F14: no termination bound). -/
theorem genAges_terminates (fu δ : α) :
    ∀ (steps : List α) (n : ℕ) (t : α), (∀ s ∈ steps, δ ≤ s) → fu - t ≤ n * δ → n ≤ steps.length →
      ∃ ages rest, genAges fu t steps = some (ages, rest) ∧ steps.length ≤ rest.length + n
        ∧ (∀ s ∈ rest, s ∈ steps) := by
  intro steps
  induction steps with
  | nil =>
    intro n t _ hb hn
    have hn0 : n = 0 := by simpa using hn
    subst hn0
    have : ¬ t < fu := by
      simp only [Nat.cast_zero, zero_mul] at hb
      intro h; linarith
    exact ⟨[t], [], by rw [genAges]; simp [this], by simp, by simp⟩
  | cons s ss ih =>
    intro n t hs hb hn
    by_cases ht : t < fu
    · have hnpos : 0 < n := by
        rcases Nat.eq_zero_or_pos n with h0 | h0
        · subst h0; simp only [Nat.cast_zero, zero_mul] at hb; linarith
        · exact h0
      obtain ⟨m, rfl⟩ : ∃ m, n = m + 1 := ⟨n - 1, by omega⟩
      have hsδ : δ ≤ s := hs s List.mem_cons_self
      have hb' : fu - (t + s) ≤ (m : α) * δ := by
        push_cast at hb
        linarith
      obtain ⟨ages, rest, h1, h2, h3⟩ := ih m (t + s) (fun x hx => hs x (List.mem_cons_of_mem _ hx)) hb'
        (by simpa using hn)
      refine ⟨t :: ages, rest, ?_, ?_, fun x hx => List.mem_cons_of_mem _ (h3 x hx)⟩
      · rw [genAges]; simp [ht, h1]
      · simp only [List.length_cons]; omega
    · exact ⟨[t], s :: ss, by rw [genAges]; simp [ht], by omega, fun x hx => hx⟩

/-- Regular visits (`distance_visit_std = 0`): every draw equals the mean `μ > 0`; `n` draws with
    `n·μ ≥ follow-up − start` suffice. -/
theorem genAges_regular_terminates (fu μ t : α) (n : ℕ) (hb : fu - t ≤ n * μ) :
    ∃ ages rest, genAges fu t (List.replicate n μ) = some (ages, rest) := by
  obtain ⟨ages, rest, h, _⟩ := genAges_terminates fu μ (List.replicate n μ) n t
    (fun s hs => by rw [List.eq_of_mem_replicate hs]) hb (by simp)
  exact ⟨ages, rest, h⟩

end Field

/-- Draw accounting of one individual: the first age is the baseline, there is one age more than draws
    consumed, whatever the number type and the draws. -/
theorem genAges_nonempty {α : Type} [LT α] [DecidableLT α] [Add α] [Neg α] [OfNat α 0] (fu : α) :
    ∀ (steps : List α) (t : α) (ages rest : List α), genAges fu t steps = some (ages, rest) →
      ages.head? = some t ∧ ages.length + rest.length = steps.length + 1 := by
  intro steps
  induction steps with
  | nil =>
    intro t ages rest h
    rw [genAges] at h
    split at h
    · simp at h
    · simp only [Option.some.injEq, Prod.mk.injEq] at h; obtain ⟨rfl, rfl⟩ := h; simp
  | cons s ss ih =>
    intro t ages rest h
    rw [genAges] at h
    split at h
    · cases hg : genAges fu (t + s) ss with
      | none => simp [hg] at h
      | some r =>
        obtain ⟨a', r'⟩ := r
        simp only [hg, Option.map_eq_map, Option.map_some, Option.some.injEq, Prod.mk.injEq] at h
        obtain ⟨rfl, rfl⟩ := h
        have := (ih (t + s) a' r' hg).2
        simp only [List.head?_cons, List.length_cons, true_and]
        omega
    · simp only [Option.some.injEq, Prod.mk.injEq] at h; obtain ⟨rfl, rfl⟩ := h
      simp only [List.head?_cons, List.length_cons, List.length_nil, true_and]; omega


/-! ### Validation -/


section Field
variable {α : Type} [Field α] [LinearOrder α] [IsStrictOrderedRing α]

/-! ### The documented requirements (class docstring `PARAM_REQUIREMENTS`, the messages of `_check_features`,
`_check_params`, `_validate_algo_parameters`) -/

/-- "a number": an `int` or a `float` that is a number (nan is literally not one) -/
def IsNumber : Val α → Prop
  | .int _ | .float _ | .posInf | .negInf => True
  | _ => False

/-- "Standard deviation can't be negative", "min_spacing_between_visits cannot be negative" -/
def IsNonneg : Val α → Prop
  | .int n => 0 ≤ n
  | .float x => 0 ≤ x
  | .posInf => True
  | _ => False

/-- "Distance visit mean needs to be positive" -/
def IsPos : Val α → Prop
  | .int n => 0 < n
  | .float x => 0 < x
  | .posInf => True
  | _ => False

/-- "Patient number need to be a positive integer" -/
def IsPosInt : Val α → Prop
  | .int n => 0 < n
  | _ => False

/-- "Features need to be a list", "can't be empty", every feature a non-blank string -/
def FeaturesOk : Features → Prop
  | .notList => False
  | .list fs => fs ≠ [] ∧ ∀ f ∈ fs, ∃ s, f = Feat.str s false

def Requirements (d : Design α) : Prop :=
  FeaturesOk d.features ∧
  match d.visitType with
  | .random =>
    IsPosInt d.patientNumber ∧ IsNumber d.firstVisitMean ∧ IsNonneg d.firstVisitStd
      ∧ IsNumber d.followUpMean ∧ IsNonneg d.followUpStd ∧ IsPos d.distMean ∧ IsNonneg d.distStd
      ∧ (d.minSpacing = .absent ∨ IsNonneg d.minSpacing)
  | .dataframe => ∃ rows, d.table = .frame .column .column false rows
  | _ => False

/-- no entry is `float('nan')` -/
def NoNaN (d : Design α) : Prop :=
  d.firstVisitMean ≠ .nan ∧ d.firstVisitStd ≠ .nan ∧ d.followUpMean ≠ .nan ∧ d.followUpStd ≠ .nan
    ∧ d.distMean ≠ .nan ∧ d.distStd ≠ .nan ∧ d.minSpacing ≠ .nan

/-- everything `__init__` / `_set_param_study` read before validation is there (complement of finding F16e) -/
def EarlyReadsOk (d : Design α) : Prop :=
  match d.visitType with
  | .noDict | .absent => False
  | .unknown => True
  | .random => setParamStudy d = .ok ()
  | .dataframe => setParamStudy d = .ok ()

private theorem checkFeatures_iff (f : Features) : checkFeatures f = .ok () ↔ FeaturesOk f := by
  cases f with
  | notList => simp [checkFeatures, FeaturesOk]
  | list fs =>
    cases fs with
    | nil => simp [checkFeatures, FeaturesOk]
    | cons a as =>
      simp only [checkFeatures, FeaturesOk]
      constructor
      · intro h
        split at h
        · rename_i hall
          refine ⟨by simp, fun f hf => ?_⟩
          have := List.all_eq_true.mp hall f hf
          cases f with
          | notStr => simp at this
          | str s b => exact ⟨s, by simpa using this⟩
        · cases h
      · rintro ⟨_, h⟩
        split
        · rfl
        · rename_i hc
          exfalso; apply hc
          refine List.all_eq_true.mpr fun f hf => ?_
          obtain ⟨s, rfl⟩ := h f hf
          rfl

private theorem checkFeatures_err (f : Features) (e : Err) (h : checkFeatures f = .error e) : e = .algoInput := by
  cases f with
  | notList => simp [checkFeatures] at h; exact h.symm
  | list fs =>
    cases fs with
    | nil => simp [checkFeatures] at h; exact h.symm
    | cons a as =>
      simp only [checkFeatures] at h
      split at h
      · cases h
      · simp at h; exact h.symm

private theorem meanOk_iff (v : Val α) (h : v ≠ .nan) : meanOk v = true ↔ IsNumber v := by
  cases v <;> simp_all [meanOk, Val.isNum, IsNumber]

private theorem stdOk_iff (v : Val α) (h : v ≠ .nan) : stdOk v = true ↔ IsNonneg v := by
  cases v <;> simp_all [stdOk, Val.isNum, Val.lt0, IsNonneg]

private theorem pn_iff (v : Val α) : patientNumberOk v = true ↔ IsPosInt v := by
  cases v <;> simp_all [patientNumberOk, Val.isInt, Val.le0, IsPosInt]

private theorem spacing_iff (v : Val α) (h : v ≠ .nan) : spacingOk v = true ↔ (v = .absent ∨ IsNonneg v) := by
  cases v <;> simp_all [spacingOk, Val.isNum, Val.isAbsent, Val.lt0, IsNonneg]

private theorem dist_iff (v : Val α) (h : v ≠ .nan) : (meanOk v && !v.le0) = true ↔ IsPos v := by
  cases v <;> simp_all [meanOk, Val.isNum, Val.le0, IsPos]

private theorem absent_not (v : Val α) : (IsNumber v ∨ IsNonneg v ∨ IsPos v ∨ IsPosInt v) → v.isAbsent = false := by
  cases v <;> simp [IsNumber, IsNonneg, IsPos, IsPosInt, Val.isAbsent]

/-- the random-design part of the table, given that no key is absent -/
private theorem validateRandom_iff (d : Design α) (hn : NoNaN d) :
    validateRandom d = .ok () ↔
      (IsPosInt d.patientNumber ∧ IsNumber d.firstVisitMean ∧ IsNonneg d.firstVisitStd
      ∧ IsNumber d.followUpMean ∧ IsNonneg d.followUpStd ∧ IsPos d.distMean ∧ IsNonneg d.distStd
      ∧ (d.minSpacing = .absent ∨ IsNonneg d.minSpacing)) := by
  obtain ⟨h1, h2, h3, h4, h5, h6, h7⟩ := hn
  rw [← pn_iff, ← meanOk_iff _ h1, ← stdOk_iff _ h2, ← meanOk_iff _ h3, ← stdOk_iff _ h4, ← dist_iff _ h5,
    ← stdOk_iff _ h6, ← spacing_iff _ h7]
  unfold validateRandom checkParamsRandom
  constructor
  · intro h
    split at h
    · rename_i hh
      simp only [Bool.and_eq_true] at hh ⊢
      tauto
    · cases h
  · intro h
    have : (patientNumberOk d.patientNumber && meanOk d.firstVisitMean && stdOk d.firstVisitStd
      && meanOk d.followUpMean && stdOk d.followUpStd && meanOk d.distMean && stdOk d.distStd
      && spacingOk d.minSpacing && !d.distMean.le0) = true := by
      simp only [Bool.and_eq_true] at h ⊢
      tauto
    simp [this]

private theorem setParamStudy_random_ok (d : Design α) (hv : d.visitType = .random)
    (h : IsPosInt d.patientNumber ∧ IsNumber d.firstVisitMean ∧ IsNonneg d.firstVisitStd
      ∧ IsNumber d.followUpMean ∧ IsNonneg d.followUpStd ∧ IsPos d.distMean ∧ IsNonneg d.distStd
      ∧ (d.minSpacing = .absent ∨ IsNonneg d.minSpacing)) : setParamStudy d = .ok () := by
  obtain ⟨a1, a2, a3, a4, a5, a6, a7, _⟩ := h
  simp [setParamStudy, hv, absent_not _ (Or.inr (Or.inr (Or.inr a1))), absent_not _ (Or.inl a2),
    absent_not _ (Or.inr (Or.inl a3)), absent_not _ (Or.inl a4), absent_not _ (Or.inr (Or.inl a5)),
    absent_not _ (Or.inr (Or.inr (Or.inl a6))), absent_not _ (Or.inr (Or.inl a7))]

/-- **The validation decision table.** A design is accepted exactly when it meets the documented
    requirements — for designs without `nan` entries (full statement, without `NoNaN`, is refuted by
    `validate_table_counterexample`: finding F16h). -/
theorem validate_table_partial (d : Design α) (hn : NoNaN d) : validate d = .ok () ↔ Requirements d := by
  unfold validate Requirements
  cases hv : d.visitType with
  | noDict => simp
  | absent => simp
  | unknown =>
    simp only [and_false, iff_false]
    cases checkFeatures d.features with
    | error e => simp
    | ok u => simp
  | random =>
    simp only
    constructor
    · intro h
      cases hs : setParamStudy d with
      | error e => simp [hs] at h
      | ok u =>
        cases hf : checkFeatures d.features with
        | error e => simp [hs, hf] at h
        | ok u' =>
          simp only [hs, hf] at h
          exact ⟨(checkFeatures_iff _).mp hf, (validateRandom_iff d hn).mp h⟩
    · rintro ⟨hf, hr⟩
      rw [setParamStudy_random_ok d hv hr, (checkFeatures_iff _).mpr hf]
      exact (validateRandom_iff d hn).mpr hr
  | dataframe =>
    simp only
    constructor
    · intro h
      cases hs : setParamStudy d with
      | error e => simp [hs] at h
      | ok u =>
        cases hf : checkFeatures d.features with
        | error e => simp [hs, hf] at h
        | ok u' =>
          simp only [hs, hf] at h
          refine ⟨(checkFeatures_iff _).mp hf, ?_⟩
          cases ht : d.table with
          | absent => simp [ht, validateTable] at h
          | notFrame => simp [ht, validateTable] at h
          | frame idAt timeAt tn rows =>
            simp only [ht, validateTable] at h
            split at h
            · rename_i hc
              obtain ⟨rfl, rfl, rfl⟩ := hc
              exact ⟨rows, rfl⟩
            · cases h
    · rintro ⟨hf, rows, ht⟩
      have hs : setParamStudy d = .ok () := by simp [setParamStudy, hv, ht]
      rw [hs, (checkFeatures_iff _).mpr hf, ht]
      simp [validateTable]

/-- Acceptance of every design that meets the documented requirements holds without any guard. -/
theorem requirements_accepted (d : Design α) (h : Requirements d) : validate d = .ok () := by
  unfold Requirements at h
  cases hv : d.visitType with
  | random =>
    rw [hv] at h
    obtain ⟨hf, hr⟩ := h
    have : NoNaN d := by
      obtain ⟨_, a2, a3, a4, a5, a6, a7, a8⟩ := hr
      refine ⟨?_, ?_, ?_, ?_, ?_, ?_, ?_⟩ <;> intro hc <;> simp_all [IsNumber, IsNonneg, IsPos]
    exact (validate_table_partial d this).mpr (by unfold Requirements; rw [hv]; exact ⟨hf, hr⟩)
  | dataframe =>
    rw [hv] at h
    obtain ⟨hf, rows, ht⟩ := h
    unfold validate
    have hs : setParamStudy d = .ok () := by simp [setParamStudy, hv, ht]
    simp only [hv]
    rw [hs, (checkFeatures_iff _).mpr hf, ht]
    simp [validateTable]
  | noDict => rw [hv] at h; exact h.2.elim
  | absent => rw [hv] at h; exact h.2.elim
  | unknown => rw [hv] at h; exact h.2.elim

/-- **Refusals are algorithm-input errors** whenever everything that `__init__`/`_set_param_study` read
    before validation is present (full statement refuted by `refusal_is_algo_input_counterexample`: F16e). -/
theorem refusal_is_algo_input_partial (d : Design α) (h : EarlyReadsOk d) :
    validate d = .ok () ∨ validate d = .error .algoInput := by
  unfold EarlyReadsOk at h
  unfold validate
  cases hv : d.visitType with
  | noDict => simp [hv] at h
  | absent => simp [hv] at h
  | unknown =>
    simp only
    cases hf : checkFeatures d.features with
    | error e => right; rw [checkFeatures_err _ _ hf]
    | ok u => right; rfl
  | random =>
    simp only [hv] at h
    simp only [h]
    cases hf : checkFeatures d.features with
    | error e => right; rw [checkFeatures_err _ _ hf]
    | ok u =>
      simp only [validateRandom]
      split
      · left; rfl
      · right; rfl
  | dataframe =>
    simp only [hv] at h
    simp only [h]
    cases hf : checkFeatures d.features with
    | error e => right; rw [checkFeatures_err _ _ hf]
    | ok u =>
      simp only
      cases d.table with
      | absent => right; rfl
      | notFrame => right; rfl
      | frame a b c r =>
        simp only [validateTable]
        split
        · left; rfl
        · right; rfl

end Field

/-! ### Witnesses (over `Rat`) -/

/-- a valid random design: 5 patients, visits every 1/2 ± 1/10, 4 features -/
def goodDesign : Design Rat where
  features := .list [.str "Y0" false, .str "Y1" false]
  visitType := .random
  patientNumber := .int 5
  firstVisitMean := .float 0
  firstVisitStd := .float (2 / 5)
  followUpMean := .int 3
  followUpStd := .float (1 / 2)
  distMean := .float (1 / 2)
  distStd := .float (1 / 10)
  minSpacing := .absent
  table := .absent

/-- F16h: `nan` is accepted although it is not a number. -/
theorem validate_table_counterexample :
    ∃ d : Design Rat, validate d = .ok () ∧ ¬ Requirements d := by
  refine ⟨{ goodDesign with firstVisitMean := .nan }, by decide +kernel, ?_⟩
  simp [Requirements, goodDesign, IsNumber]

/-- F16e: a missing key is reported as `KeyError`, neither accepted nor refused with the documented error. -/
theorem refusal_is_algo_input_counterexample :
    ∃ d : Design Rat, validate d = .error .keyError := by
  exact ⟨{ goodDesign with firstVisitMean := .absent }, by decide +kernel⟩

/-- non-vacuity: the good design meets the requirements and is accepted -/
example : Requirements goodDesign ∧ validate goodDesign = .ok () := by
  refine ⟨?_, by decide +kernel⟩
  simp [Requirements, goodDesign, FeaturesOk, IsPosInt, IsNumber, IsNonneg, IsPos]
  decide +kernel


/-- The final ages in years (`k / 10^p`) are strictly increasing too. -/
theorem ages_increasing_in_years {α : Type} (key : α → Int) (ages : List α) (p : Nat) (l : List Int)
    (h : finalize key ages = .ok l) : (l.map (ratEnv.ofKey p)).Pairwise (· < ·) := by
  obtain ⟨l', h1, h2⟩ := ages_unique_increasing key ages
  have : l = l' := Except.ok.inj (h.symm.trans h1)
  subst this
  rw [List.pairwise_map]
  refine h2.imp ?_
  intro a b hab
  have hc : (0 : ℚ) < ((pow10 p : ℕ) : ℚ) := by
    have : 0 < pow10 p := Nat.pos_of_ne_zero (by simp [pow10])
    exact_mod_cast this
  exact div_lt_div_of_pos_right (by exact_mod_cast hab) hc

/-- `rint`: the chosen integer is a nearest one, `|n/d − k| ≤ 1/2` (stated without division). -/
private theorem rintFrac_nearest (n : Int) (d : Nat) (hd : 0 < d) : 2 * |n - d * rintFrac n d| ≤ d := by
  have hd' : (0 : Int) < d := by exact_mod_cast hd
  have h := Int.mul_ediv_add_emod n d
  have h0 := Int.emod_nonneg n (Int.ne_of_gt hd')
  have h1 := Int.emod_lt_of_pos n hd'
  unfold rintFrac
  simp only
  generalize n / (d : Int) = q at *
  generalize n % (d : Int) = r at *
  have e1 : n - d * q = r := by omega
  have e2 : n - d * (q + 1) = r - d := by rw [Int.mul_add]; omega
  split
  · rw [e1, abs_of_nonneg h0]; omega
  · split
    · rw [e2, abs_of_nonpos (by omega)]; omega
    · split
      · rw [e1, abs_of_nonneg h0]; omega
      · rw [e2, abs_of_nonpos (by omega)]; omega

/-- **Ages are rounded to the documented precision**: the key of `x` at precision `p` is a nearest integer
    to `x·10^p` (exact rationals; `y = x·10^p`, `|y − key| ≤ 1/2` written as `2·|num − den·key| ≤ den`). -/
theorem rounding_is_nearest (p : Nat) (x : Rat) :
    2 * |(x * (pow10 p : Nat)).num - (x * (pow10 p : Nat)).den * ratEnv.roundKey p x|
      ≤ (x * (pow10 p : Nat)).den :=
  rintFrac_nearest _ _ (Rat.den_pos _)

/-- The §7a change "de-duplication before rounding" breaks the pipeline: 70.0001 and 70.0004 are distinct,
    both round to 70.000, and `Data.from_dataframe` refuses the repeated time-point. -/
theorem dedup_before_rounding_counterexample :
    addObservations ((dedup [(700001 : Rat) / 10000, 700004 / 10000]).map (ratEnv.roundKey 3))
      = .error .dataInput ∧
    finalize (ratEnv.roundKey 3) [(700001 : Rat) / 10000, 700004 / 10000] = .ok [70000] := by
  constructor <;> decide +kernel

/-! ### Precision from the minimal spacing -/

private theorem precisionOf_rat (ms : Rat) : precisionOf ratEnv ms =
    if 1 ≤ ms then 0 else if 10⁻¹ ≤ ms then 1 else if 100⁻¹ ≤ ms then 2 else 3 := by
  unfold precisionOf ratEnv
  simp only [List.find?]
  by_cases h0 : (1 : Rat) ≤ ms
  · simp [h0]
  · by_cases h1 : (10 : Rat)⁻¹ ≤ ms
    · simp [h0, h1]
    · by_cases h2 : (100 : Rat)⁻¹ ≤ ms
      · simp [h0, h1, h2]
      · by_cases h3 : (1000 : Rat)⁻¹ ≤ ms <;> simp [h0, h1, h2, h3]

/-- After the repair F13 the precision is defined for every spacing; it is one of the documented four. -/
theorem precision_total (ms : Rat) : precisionOf ratEnv ms ≤ 3 := by
  rw [precisionOf_rat]; split_ifs <;> omega

/-- The unit of the chosen precision does not exceed the requested minimal spacing whenever one of the
    documented units does (`ms ≥ 1/1000`), and it is the coarsest such unit. -/
theorem precision_documented (ms : Rat) (h : 1 / 1000 ≤ ms) :
    ratEnv.ofKey (precisionOf ratEnv ms) 1 ≤ ms ∧
      (∀ q < precisionOf ratEnv ms, ms < ratEnv.ofKey q 1) := by
  rw [precisionOf_rat]
  have key : ∀ q : Nat, ratEnv.ofKey q 1 = ((10 : Rat) ^ q)⁻¹ := by
    intro q; simp [ratEnv, pow10]
  split_ifs with h0 h1 h2
  · refine ⟨by rw [key]; simpa using h0, fun q hq => by omega⟩
  · refine ⟨by rw [key]; simpa using h1, fun q hq => ?_⟩
    have : q = 0 := by omega
    subst this; rw [key]; simpa using h0
  · refine ⟨by rw [key]; norm_num; linarith, fun q hq => ?_⟩
    have : q = 0 ∨ q = 1 := by omega
    rcases this with rfl | rfl <;> rw [key] <;> norm_num <;> linarith
  · refine ⟨by rw [key]; norm_num; linarith, fun q hq => ?_⟩
    have : q = 0 ∨ q = 1 ∨ q = 2 := by omega
    rcases this with rfl | rfl | rfl <;> rw [key] <;> norm_num <;> linarith

/-! ### Counts -/

private theorem genAll_length {α : Type} [LT α] [DecidableLT α] [Add α] [Neg α] [OfNat α 0]
    (tau fv fu : Nat → α) : ∀ (ids : List Nat) (steps : List α) (ages : List (List α)) (rest : List α),
      genAll tau fv fu ids steps = some (ages, rest) → ages.length = ids.length ∧ ∀ l ∈ ages, l ≠ [] := by
  intro ids
  induction ids with
  | nil =>
    intro steps ages rest h
    simp only [genAll, Option.some.injEq, Prod.mk.injEq] at h
    obtain ⟨rfl, _⟩ := h; simp
  | cons i is ih =>
    intro steps ages rest h
    simp only [genAll] at h
    cases hg : genAges (tau i + fv i + absV (fu i)) (tau i + fv i) steps with
    | none => simp [hg] at h
    | some r1 =>
      obtain ⟨a1, rest1⟩ := r1
      simp only [hg] at h
      cases hr : genAll tau fv fu is rest1 with
      | none => simp [hr] at h
      | some r2 =>
        obtain ⟨a2, rest2⟩ := r2
        simp only [hr, Option.some.injEq, Prod.mk.injEq] at h
        obtain ⟨rfl, rfl⟩ := h
        obtain ⟨e1, e2⟩ := ih rest1 a2 rest2 hr
        refine ⟨by simp [e1], fun l hl => ?_⟩
        rcases List.mem_cons.mp hl with rfl | hl
        · have := (genAges_nonempty _ steps _ l rest1 hg).1
          intro hnil; simp [hnil] at this
        · exact e2 l hl

private theorem finalize_ne_nil {α : Type} (key : α → Int) (ages : List α) (l : List Int) (hne : ages ≠ [])
    (h : finalize key ages = .ok l) : l ≠ [] := by
  obtain ⟨a, ha⟩ := List.exists_mem_of_ne_nil ages hne
  have := (ages_are_the_rounded_draws key ages l h (key a)).mpr ⟨a, ha, rfl⟩
  exact List.ne_nil_of_mem this

private theorem finalizeAll_spec {α : Type} (key : α → Int) :
    ∀ named : List (String × List α), (∀ nm ∈ named, nm.2 ≠ []) →
      ∃ out, finalizeAll key named = .ok out ∧ out.map (·.id) = named.map (·.1)
        ∧ ∀ o ∈ out, o.keys ≠ [] ∧ o.keys.Pairwise (· < ·) := by
  intro named
  induction named with
  | nil => intro _; exact ⟨[], rfl, rfl, by simp⟩
  | cons nm rest ih =>
    intro hne
    obtain ⟨i, ages⟩ := nm
    obtain ⟨l, hl, hp⟩ := ages_unique_increasing key ages
    obtain ⟨out, ho, hid, hall⟩ := ih (fun x hx => hne x (List.mem_cons_of_mem _ hx))
    refine ⟨⟨i, l⟩ :: out, ?_, by simp [hid], fun o ho' => ?_⟩
    · simp only [finalizeAll, hl, ho, bind, Except.bind, pure, Except.pure]
    · rcases List.mem_cons.mp ho' with rfl | ho'
      · exact ⟨finalize_ne_nil key ages l (hne (i, ages) List.mem_cons_self) hl, hp⟩
      · exact hall o ho'

/-- **Exactly the requested number of individuals** (random design): whenever the run completes, the
    individuals are `"0" … "n-1"`, each with at least one visit and strictly increasing ages. -/
theorem individual_count_random {α : Type} [LT α] [DecidableLT α] [Add α] [Neg α] [OfNat α 0]
    (E : NumEnv α) (p n : Nat) (r : Draws α) (out : List Indiv) (u : Nat)
    (h : runRandom E p n r = some (.ok (out, u))) :
    out.map (·.id) = (List.range n).map toString ∧ out.length = n := by
  unfold runRandom at h
  cases hg : genAll r.tau r.fv r.fu (List.range n) r.steps with
  | none => simp [hg] at h
  | some res =>
    obtain ⟨ages, rest⟩ := res
    simp only [hg] at h
    split at h
    · simp at h
    · obtain ⟨hlen, hne⟩ := genAll_length _ _ _ _ _ _ _ hg
      obtain ⟨out', ho, hid, _⟩ := finalizeAll_spec (E.roundKey p)
        (((List.range n).zip ages).map (fun x => (toString x.1, x.2))) (by
          intro nm hnm
          obtain ⟨x, hx, rfl⟩ := List.mem_map.mp hnm
          exact hne _ (List.of_mem_zip hx).2)
      simp only [ho, Except.map, Functor.map, Option.some.injEq, Except.ok.injEq, Prod.mk.injEq] at h
      obtain ⟨rfl, _⟩ := h
      have e : out'.map (·.id) = (List.range n).map toString := by
        rw [hid, List.map_map]
        have : ((fun x : String × List α => x.1) ∘ fun x : Nat × List α => (toString x.1, x.2))
            = (fun s : Nat => toString s) ∘ Prod.fst := by funext x; rfl
        rw [this, ← List.map_map, List.map_fst_zip (by simp [hlen])]
      refine ⟨e, ?_⟩
      have := congrArg List.length e
      simpa using this

/-- **Exactly the individuals of the visit table**: the identifiers are the distinct `str(ID)` of the
    table, in order of first appearance, each once. -/
theorem individual_count_table {α : Type} (E : NumEnv α) (p : Nat) (rows : List (TId × α)) (out : List Indiv)
    (h : runTable E p rows = .ok out) :
    out.map (·.id) = (tableIds rows).map TId.toStr ∧ (tableIds rows).Nodup
      ∧ ∀ i, i ∈ tableIds rows ↔ ∃ r ∈ rows, r.1 = i := by
  obtain ⟨hm, hn⟩ := dedupAux_spec (rows.map (·.1)) []
  have hmem : ∀ i, i ∈ tableIds rows ↔ ∃ r ∈ rows, r.1 = i := by
    intro i
    have := hm i
    simp only [List.not_mem_nil, not_false_eq_true, and_true, List.mem_map] at this
    exact this
  refine ⟨?_, hn, hmem⟩
  unfold runTable at h
  split at h
  · cases h
  · split at h
    · cases h
    · obtain ⟨out', ho, hid, _⟩ := finalizeAll_spec (E.roundKey p)
        ((tableIds rows).map (fun i => (i.toStr, tableAges rows i))) (by
          intro nm hnm
          obtain ⟨i, hi, rfl⟩ := List.mem_map.mp hnm
          obtain ⟨r, hr, rfl⟩ := (hmem i).mp hi
          intro hnil
          have : r.2 ∈ tableAges rows r.1 := by
            unfold tableAges
            exact List.mem_map.mpr ⟨r, List.mem_filter.mpr ⟨hr, by simp⟩, rfl⟩
          have hnil' : tableAges rows r.1 = [] := hnil
          rw [hnil'] at this
          exact absurd this List.not_mem_nil)
      rw [ho] at h
      obtain rfl := Except.ok.inj h
      rw [hid, List.map_map]; rfl

/-- Every simulated individual has at least one visit, and its ages are strictly increasing
    (table and random designs alike). -/
theorem every_individual_has_a_visit {α : Type} (key : α → Int) (named : List (String × List α))
    (hne : ∀ nm ∈ named, nm.2 ≠ []) (out : List Indiv) (h : finalizeAll key named = .ok out) :
    ∀ o ∈ out, o.keys ≠ [] ∧ o.keys.Pairwise (· < ·) := by
  obtain ⟨out', ho, _, hall⟩ := finalizeAll_spec key named hne
  rw [ho] at h
  obtain rfl := Except.ok.inj h
  exact hall

/-! ### Every design that satisfies the documented requirements completes

Full-strength statement (NOT provable, refuted below), name `valid_design_completes`:

    ∀ d m r, Requirements d → ∃ res, run E d m r = some (.ok res)

What is missing: (i) the feature list must fit the model (finding F16f), (ii) a table must have a row (F16g),
(iii) the draws must be finite numbers (nan parameters, F16h), (iv) the random walk must reach the follow-up
age: guaranteed for step draws `≥ δ > 0` (so for `distance_visit_std = 0`), only almost surely otherwise. -/

section Field
variable {α : Type} [Field α] [LinearOrder α] [IsStrictOrderedRing α]

/-- All individuals are generated when every step is at least `δ`, every follow-up duration at most `N·δ`
    and `N` draws per individual are available. -/
private theorem genAll_terminates (tau fv fu : ℕ → α) (δ : α) (N : ℕ) (hfu : ∀ i, absV (fu i) ≤ N * δ) :
    ∀ (ids : List ℕ) (steps : List α), (∀ s ∈ steps, δ ≤ s) → ids.length * N ≤ steps.length →
      ∃ ages rest, genAll tau fv fu ids steps = some (ages, rest) := by
  intro ids
  induction ids with
  | nil => intro steps _ _; exact ⟨[], steps, rfl⟩
  | cons i is ih =>
    intro steps hs hlen
    have hN : N ≤ steps.length := by
      have : (is.length + 1) * N = is.length * N + N := by ring
      simp only [List.length_cons] at hlen; omega
    obtain ⟨a1, rest1, h1, h2, h3⟩ := genAges_terminates (tau i + fv i + absV (fu i)) δ steps N (tau i + fv i) hs
      (by have := hfu i; linarith) hN
    obtain ⟨a2, rest2, h4⟩ := ih rest1 (fun s hs' => hs s (h3 s hs')) (by
      have : (is.length + 1) * N = is.length * N + N := by ring
      simp only [List.length_cons] at hlen; omega)
    exact ⟨a1 :: a2, rest2, by simp [genAll, h1, h4]⟩

private theorem precision_some (E : NumEnv α) (d : Design α) (h : Requirements d) :
    ∃ p, precisionOfDesign E d = some p := by
  unfold Requirements at h
  unfold precisionOfDesign
  cases hv : d.visitType with
  | random =>
    rw [hv] at h
    obtain ⟨_, _, _, _, _, _, _, _, hms⟩ := h
    cases hm : d.minSpacing <;> simp_all [IsNonneg]
  | dataframe => simp
  | noDict => simp
  | absent => simp
  | unknown => simp

/-- **A random design that satisfies the documented requirements completes**, with exactly the requested
    individuals, each with unique increasing ages — under the explicit guard: features fit the model (¬F16f),
    draws are finite numbers (¬F16h), every step draw is `≥ δ`, follow-up durations are `≤ N·δ` and `N` draws
    per individual are supplied (termination; automatic for regular visits, almost sure otherwise). -/
theorem valid_random_design_completes_partial (E : NumEnv α) (hfin : ∀ x, E.isFinite x = true)
    (d : Design α) (m : ModelInfo) (r : Draws α) (hreq : Requirements d) (hv : d.visitType = .random)
    (hfit : featuresFit d m = true) (δ : α) (N : ℕ) (hfu : ∀ i, absV (r.fu i) ≤ N * δ)
    (hsteps : ∀ s ∈ r.steps, δ ≤ s) :
    ∃ n : Int, d.patientNumber = .int n ∧ 0 < n ∧
      (n.toNat * N ≤ r.steps.length →
        ∃ p out u, run E d m r = some (.ok (p, out, u)) ∧ out.map (·.id) = (List.range n.toNat).map toString
          ∧ out.length = n.toNat ∧ ∀ o ∈ out, o.keys ≠ [] ∧ o.keys.Pairwise (· < ·)) := by
  have hval := requirements_accepted d hreq
  obtain ⟨p, hp⟩ := precision_some E d hreq
  have hpn : IsPosInt d.patientNumber := by
    have := hreq.2; rw [hv] at this; exact this.1
  cases hn : d.patientNumber with
  | int n =>
    rw [hn] at hpn
    refine ⟨n, rfl, hpn, fun hfuel => ?_⟩
    obtain ⟨ages, rest, hg⟩ := genAll_terminates r.tau r.fv r.fu δ N hfu (List.range n.toNat) r.steps hsteps
      (by simpa using hfuel)
    obtain ⟨hlen, hne⟩ := genAll_length _ _ _ _ _ _ _ hg
    have hallfin : (ages.all fun l => l.all E.isFinite) = true := by
      simp [List.all_eq_true, hfin]
    obtain ⟨out, ho, hid, hall⟩ := finalizeAll_spec (E.roundKey p)
      (((List.range n.toNat).zip ages).map (fun x => (toString x.1, x.2))) (by
        intro nm hnm
        obtain ⟨x, hx, rfl⟩ := List.mem_map.mp hnm
        exact hne _ (List.of_mem_zip hx).2)
    have hrr : runRandom E p n.toNat r = some (.ok (out, rest.length)) := by
      unfold runRandom
      simp only [hg, hallfin, Bool.not_true, Bool.false_eq_true, if_false, ho]
      rfl
    obtain ⟨e1, e2⟩ := individual_count_random E p n.toNat r out rest.length hrr
    refine ⟨p, out, rest.length, ?_, e1, e2, hall⟩
    unfold run
    simp only [hval, hfit, Bool.not_true, Bool.false_eq_true, if_false, hp, hv, hn, hrr]
    rfl
  | _ => rw [hn] at hpn; exact hpn.elim

/-- **A table design that satisfies the documented requirements completes**, with exactly the table's
    individuals, each with unique increasing ages — under the guard: features fit the model (¬F16f), the
    table has at least one row (¬F16g), its ages are finite. No random draw is involved. -/
theorem valid_table_design_completes_partial (E : NumEnv α) (hfin : ∀ x, E.isFinite x = true)
    (d : Design α) (m : ModelInfo) (r : Draws α) (hreq : Requirements d) (hv : d.visitType = .dataframe)
    (hfit : featuresFit d m = true) :
    ∃ rows, d.table = .frame .column .column false rows ∧
      (rows ≠ [] → ∃ p out, run E d m r = some (.ok (p, out, r.steps.length))
        ∧ out.map (·.id) = (tableIds rows).map TId.toStr
        ∧ ∀ o ∈ out, o.keys ≠ [] ∧ o.keys.Pairwise (· < ·)) := by
  have hval := requirements_accepted d hreq
  obtain ⟨p, hp⟩ := precision_some E d hreq
  obtain ⟨rows, ht⟩ : ∃ rows, d.table = .frame .column .column false rows := by
    have := hreq.2; rw [hv] at this; exact this
  refine ⟨rows, ht, fun hne => ?_⟩
  obtain ⟨hm, _⟩ := dedupAux_spec (rows.map (·.1)) []
  obtain ⟨out, ho, hid, hall⟩ := finalizeAll_spec (E.roundKey p)
    ((tableIds rows).map (fun i => (i.toStr, tableAges rows i))) (by
      intro nm hnm
      obtain ⟨i, hi, rfl⟩ := List.mem_map.mp hnm
      have := (hm i).mp hi
      simp only [List.not_mem_nil, not_false_eq_true, and_true, List.mem_map] at this
      obtain ⟨rw, hr, rfl⟩ := this
      intro hnil
      have hmem : rw.2 ∈ tableAges rows rw.1 := by
        unfold tableAges
        exact List.mem_map.mpr ⟨rw, List.mem_filter.mpr ⟨hr, by simp⟩, rfl⟩
      have hnil' : tableAges rows rw.1 = [] := hnil
      rw [hnil'] at hmem
      exact absurd hmem List.not_mem_nil)
  have hrt : runTable E p rows = .ok out := by
    unfold runTable
    have h1 : rows.isEmpty = false := by cases rows <;> simp_all
    have h2 : (rows.all fun r => E.isFinite r.2) = true := by simp [List.all_eq_true, hfin]
    simp only [h1, h2, Bool.false_eq_true, if_false, Bool.not_true, ho]
  refine ⟨p, out, ?_, by rw [hid, List.map_map]; rfl, hall⟩
  unfold run
  simp only [hval, hfit, Bool.not_true, Bool.false_eq_true, if_false, hp, hv, ht, hrt]
  rfl

end Field

/-- draws for the witnesses: nothing random is needed to exhibit the failures -/
def noDraws : Draws Rat := ⟨fun _ => 70, fun _ => 0, fun _ => 1, []⟩

/-- F16f: the design meets every documented requirement, the model has 4 features, the list names 2:
    the run aborts with a pandas `ValueError`. -/
theorem valid_design_completes_counterexample_features :
    validate goodDesign = .ok () ∧ run ratEnv goodDesign ⟨4, 2⟩ noDraws = some (.error .valueError) := by
  constructor <;> decide +kernel

/-- a valid table design without rows -/
def emptyTableDesign : Design Rat :=
  { goodDesign with visitType := .dataframe, table := .frame .column .column false [] }

/-- F16g: a well-formed visit table with zero rows is accepted and aborts with `ValueError`. -/
theorem valid_design_completes_counterexample_empty_table :
    validate emptyTableDesign = .ok () ∧ run ratEnv emptyTableDesign ⟨2, 2⟩ noDraws = some (.error .valueError) := by
  constructor <;> decide +kernel

/-- Non-vacuity of the completion theorems: the good design on a 2-feature model with regular-enough draws
    runs to completion with 5 individuals; a two-individual table (integer and string ids, a near-duplicate
    age) completes with its 2 individuals. -/
example :
    (run ratEnv goodDesign ⟨2, 2⟩ ⟨fun _ => 70, fun _ => 0, fun _ => 1, List.replicate 10 (1 / 2)⟩).map
      (fun e => e.map (fun x => (x.1, x.2.1.length, x.2.2))) = some (.ok (3, 5, 0)) := by
  decide +kernel

example :
    run ratEnv { goodDesign with visitType := .dataframe, table := (.frame .column .column false
        [(.int 7, 70), (.str "a", 66), (.int 7, 700004 / 10000), (.int 7, 71)]) } ⟨2, 0⟩ noDraws
      = some (.ok (3, [⟨"7", [70000, 71000]⟩, ⟨"a", [66000]⟩], 0)) := by
  decide +kernel

end LeaspyVerif.C18
