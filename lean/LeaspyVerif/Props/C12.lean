/-
C12 — a fitted model is self-consistent and survives save/load unchanged.
Property theorems only (helper lemmas are private).  Model: `Model/Api.lean`, parts (b) and (c).

`narrow` is the double → float32 conversion done by `torch.tensor(python_float)`; theorems that need it
assume only that float32 values are fixed points (`narrow x = x` is part of `Model.canonical`) — the driver
runs the model with `roundF32`, compared with torch on every value the harness sees.
-/
import LeaspyVerif.Model.Api

namespace LeaspyVerif.C12
open LeaspyVerif.Api

/-! ### helpers -/

private theorem ofName_toName (k : Kind) : Kind.ofName k.toName = some k := by
  cases k <;> decide +kernel

private theorem lookup_of_mem {β : Type} (l : List (String × β)) (hnd : (l.map Prod.fst).Nodup) :
    ∀ p ∈ l, l.lookup p.1 = some p.2 := by
  induction l with
  | nil => intro p hp; cases hp
  | cons a l ih =>
    intro p hp
    rw [List.map_cons, List.nodup_cons] at hnd
    rcases List.mem_cons.mp hp with h | h
    · subst h; simp [List.lookup]
    · have hne : p.1 ≠ a.1 := by
        intro he
        exact hnd.1 (he ▸ List.mem_map_of_mem (f := Prod.fst) h)
      have : (p.1 == a.1) = false := by simpa using hne
      obtain ⟨a1, a2⟩ := a
      simp only [List.lookup, this]
      exact ih hnd.2 p h

private theorem mapM_map_ok {α β : Type} (f : α → β) (g : β → Out α) :
    ∀ l : List α, (∀ p ∈ l, g (f p) = .ok p) → Out.mapM g (l.map f) = .ok l := by
  intro l
  induction l with
  | nil => intro _; rfl
  | cons a l ih =>
    intro h
    have ha := h a (List.mem_cons_self ..)
    have hl := ih (fun p hp => h p (List.mem_cons_of_mem _ hp))
    simp [Out.mapM, ha, hl]

private theorem paramSpec_nodup (k : Kind) (d s : Nat) (b : Bool) (K E : Nat) :
    ((paramSpec k d s b K E).map Prod.fst).Nodup := by
  cases k <;> by_cases hs : s = 0 <;> simp [paramSpec, hs]

/-- `load_parameters` on parameters that already have the DAG's names, order, shapes and precision. -/
private theorem loadParameters_canonical (narrow : Rat → Rat) (ps : List (String × Tensor))
    (hnd : (ps.map Prod.fst).Nodup)
    (hall : ∀ p ∈ ps, numel p.2.shape = p.2.data.length ∧ p.2.data.map narrow = p.2.data) :
    loadParameters narrow (ps.map (fun p => (p.1, p.2.shape))) ps = .ok ps := by
  have hfst : (ps.map (fun p => (p.1, p.2.shape))).map Prod.fst = ps.map Prod.fst := by
    simp [List.map_map, Function.comp_def]
  have hspec : ∀ p ∈ ps, (ps.map (fun p => (p.1, p.2.shape))).lookup p.1 = some p.2.shape := by
    intro p hp
    have := lookup_of_mem (ps.map (fun p => (p.1, p.2.shape))) (by rw [hfst]; exact hnd)
      (p.1, p.2.shape) (List.mem_map_of_mem (f := fun p => (p.1, p.2.shape)) hp)
    simpa using this
  have hlook := lookup_of_mem ps hnd
  unfold loadParameters
  have h1 : (ps.any fun p => ((ps.map (fun p => (p.1, p.2.shape))).lookup p.1).isNone) = false := by
    rw [List.any_eq_false]
    intro p hp
    simp [hspec p hp]
  have h2 : (ps.map (fun p => (p.1, p.2.shape))).filter (fun e => (ps.lookup e.1).isSome)
      = ps.map (fun p => (p.1, p.2.shape)) := by
    rw [List.filter_eq_self]
    intro e he
    obtain ⟨p, hp, rfl⟩ := List.mem_map.mp he
    simp [hlook p hp]
  rw [h1, h2]
  simp only [Bool.false_eq_true, ↓reduceIte]
  apply mapM_map_ok
  intro p hp
  obtain ⟨hn, hd⟩ := hall p hp
  simp [hlook p hp, loadTensor, hn, hd, Out.bind]

/-! ### property theorems -/

/-- **End of fit.** After `fit` the population variables in `model.state` are the prior modes of the final
    parameters; consequently every quantity derived from (hyperparameters, parameters, population variables)
    — velocities, mixing matrix, trajectories — has the same value on the fitted object and on the object
    that `load(save(·))` returns. For every object, data, seed and external kernels. -/
theorem fit_end_prior_mode {V : Type} (E : Ext V) (w : World V) (data seed : V) :
    let o := (apply E w (.fit data seed)).1.obj
    o.pop = E.priorMode o.params ∧
      ∀ {β : Type} (derived : V → V → V → β),
        derived o.hyper o.params o.pop
          = derived (freshCopy E o).hyper (freshCopy E o).params (freshCopy E o).pop := by
  simp [apply, applyGen, freshCopy, reload]

/-- The same invariant for every reachable object: whatever the history of public calls, if the population
    variables were at their prior mode to begin with, they still are. -/
theorem pop_prior_mode_invariant {V : Type} (E : Ext V) (cs : List (Call V)) (w : World V)
    (h0 : w.obj.pop = E.priorMode w.obj.params) :
    (run E w cs).1.obj.pop = E.priorMode (run E w cs).1.obj.params := by
  induction cs generalizing w with
  | nil => simpa [run, runGen] using h0
  | cons c cs ih =>
    have step : (applyGen E false w c).1.obj.pop = E.priorMode (applyGen E false w c).1.obj.params := by
      cases c <;> simp [applyGen, h0]
      case load => cases hf : w.file <;> simp [reload, h0]
    simpa [run, runGen] using ih (applyGen E false w c).1 step

/-- `load` always leaves the population variables at the prior mode of the loaded parameters. -/
theorem load_pop_prior_mode (narrow : Rat → Rat) (f : FileD) (m : Model) (h : load narrow f = .ok m) :
    m.pop = priorMode m.params := by
  unfold load at h
  simp only at h
  split at h
  · cases h
  · split at h
    · cases h
    · rename_i k _ _
      cases hh : checkHyp (parseSettings f).hyp with
      | err e => simp [hh, Out.bind] at h
      | ok hy =>
        simp only [hh, Out.bind] at h
        split at h
        · rename_i d s _ _
          cases hp : loadParameters narrow (paramSpec k d s hy.scalarNoise hy.nClusters hy.nbEvents)
              (parseSettings f).parameters with
          | err e => simp [hp] at h
          | ok ps =>
            simp only [hp, Out.ok.injEq] at h
            subst h; rfl
        · cases h

/-- **Round trip, full statement that is provable as the code stands** (`roundtrip_any_name` below shows the
    guard on the name is necessary).  A model whose parameters have the DAG's names, shapes and single precision
    (`canonical`) and whose instance name is, up to case, its kind: `load(save m)` succeeds and returns the same
    kind, hyperparameters and parameters, with population variables at the prior mode. -/
theorem roundtrip_params (narrow : Rat → Rat) (m : Model) (hc : m.canonical narrow = true)
    (hn : m.name.toLower = m.kind.toName) :
    ∃ m', load narrow (toDict m) = .ok m' ∧ m'.kind = m.kind ∧ m'.hyp = m.hyp ∧ m'.params = m.params
      ∧ m'.pop = priorMode m.params ∧ m'.name = m.kind.toName := by
  unfold Model.canonical at hc
  cases hd : m.hyp.dim with
  | none => simp [hd] at hc
  | some d =>
    cases hs : m.hyp.sourceDim with
    | none => simp [hd, hs] at hc
    | some s =>
      simp only [hd, hs, Bool.and_eq_true, beq_iff_eq, List.all_eq_true] at hc
      obtain ⟨⟨⟨hspec, hall⟩, hhyp⟩, hfeat⟩ := hc
      have hfeat' : m.hyp.features.isNone = false := by
        cases hf : m.hyp.features <;> simp [hf] at hfeat ⊢
      have hnd : (m.params.map Prod.fst).Nodup := by
        have := paramSpec_nodup m.kind d s m.hyp.scalarNoise m.hyp.nClusters m.hyp.nbEvents
        rw [← hspec] at this
        simpa [List.map_map, Function.comp_def] using this
      have hall' : ∀ p ∈ m.params, numel p.2.shape = p.2.data.length ∧ p.2.data.map narrow = p.2.data := by
        intro p hp
        obtain ⟨h1, h2⟩ := hall p hp
        refine ⟨h1, ?_⟩
        calc p.2.data.map narrow = p.2.data.map id := List.map_congr_left (by simpa using h2)
          _ = p.2.data := List.map_id _
      have hload := loadParameters_canonical narrow m.params hnd hall'
      rw [hspec] at hload
      refine ⟨⟨m.kind, m.kind.toName, m.hyp, m.params, priorMode m.params⟩, ?_, rfl, rfl, rfl, rfl, rfl⟩
      simp [load, parseSettings, toDict, hn, ofName_toName, hhyp, Out.bind, hd, hs, hload, hfeat']

/-- **Re-saving reproduces the file**: under the same hypotheses with the instance name *equal* to the kind
    (`ModelSettings` lower-cases the stored name and `load` names the new object after its kind), saving the
    reloaded model gives exactly the file that was loaded. -/
theorem roundtrip_resave_identical (narrow : Rat → Rat) (m : Model) (hc : m.canonical narrow = true)
    (hn : m.name = m.kind.toName) :
    (load narrow (toDict m)).bind (fun m' => .ok (toDict m')) = .ok (toDict m) := by
  have hl : m.name.toLower = m.kind.toName := by
    rw [hn]; cases m.kind <;> decide +kernel
  obtain ⟨m', h, _, hh, hp, _, hname⟩ := roundtrip_params narrow m hc hl
  rw [h]
  simp [Out.bind, toDict, hh, hp, hname, hn]

/- Full-strength statement wanted by the property (any instance name):

   | theorem roundtrip_any_name (m : Model) (hc : m.canonical narrow) :
   |     ∃ m', load narrow (toDict m) = .ok m' ∧ m'.params = m.params ∧ m'.hyp = m.hyp

   It is false as the code stands (finding F7): `to_dict` stores the instance name under "name" and
   `ModelSettings` / `model_factory` read that entry as the model kind. -/

/-- F7, refutation: a canonical one-feature logistic model created with `instance_name="my_model"` saves fine and
    cannot be loaded: `ModelName("my_model")` raises `ValueError`. -/
theorem roundtrip_any_name_counterexample :
    let t : Rat → Tensor := fun x => ⟨[1], [x]⟩
    let ps := [("log_g_mean", t 0), ("log_v0_mean", t (-4)), ("noise_std", t (1/8)), ("tau_mean", t 70),
               ("tau_std", t 8), ("xi_std", t (1/2))]
    let m : Model := ⟨.logistic, "my_model", ⟨some ["Y"], some 1, some 0, true, 1, 0⟩, ps, priorMode ps⟩
    m.canonical id = true ∧ load id (toDict m) = .err .value := by
  decide +kernel

/-- F7, the part that holds: under the exact guard `name.lower() == kind` the round trip works for every
    canonical model (this is `roundtrip_params`; restated so that the guard is visible next to the refutation). -/
theorem roundtrip_any_name_partial (narrow : Rat → Rat) (m : Model) (hc : m.canonical narrow = true)
    (hn : m.name.toLower = m.kind.toName) :
    ∃ m', load narrow (toDict m) = .ok m' ∧ m'.params = m.params ∧ m'.hyp = m.hyp := by
  obtain ⟨m', h, _, hh, hp, _⟩ := roundtrip_params narrow m hc hn
  exact ⟨m', h, hp, hh⟩

/-- The guard is also necessary for loadability: if the lower-cased stored name is not a model kind, `load`
    raises `ValueError` whatever the rest of the file contains. -/
theorem load_unknown_name (narrow : Rat → Rat) (f : FileD) (h : Kind.ofName f.name.toLower = none) :
    load narrow f = .err .value := by
  simp [load, parseSettings, h]

/-- F21, refutation of byte-identical re-saving for double-precision parameters: a model whose `tau_mean` is the
    double `80.44985490161451` (what a joint or mixture fit produces) loads, but the reloaded model holds the
    nearest float32 and saving it writes a different file. -/
theorem resave_double_precision_counterexample :
    let t : Rat → Tensor := fun x => ⟨[1], [x]⟩
    let ps := [("log_g_mean", t 0), ("log_v0_mean", t (-4)), ("noise_std", t (1/8)),
               ("tau_mean", t (5661174738133811 / 70368744177664)), ("tau_std", t 8), ("xi_std", t (1/2))]
    let m : Model := ⟨.logistic, "logistic", ⟨some ["Y"], some 1, some 0, true, 1, 0⟩, ps, priorMode ps⟩
    (load roundF32 (toDict m)).bind (fun m' => .ok (toDict m')) ≠ .ok (toDict m)
      ∧ (load roundF32 (toDict m)).isOk = true := by
  decide +kernel

/-- Non-vacuity of `canonical` with the real rounding: a two-feature, one-source logistic model with float32
    parameters is canonical, loads, and re-saves identically (computed, not assumed). -/
example :
    let ps : List (String × Tensor) :=
      [("betas_mean", ⟨[1, 1], [1/4]⟩), ("log_g_mean", ⟨[2], [0, 1/2]⟩), ("log_v0_mean", ⟨[2], [-4, -9/2]⟩),
       ("noise_std", ⟨[2], [13421773/134217728, 1/8]⟩), ("tau_mean", ⟨[1], [10544723/131072]⟩),
       ("tau_std", ⟨[1], [8]⟩), ("xi_std", ⟨[1], [1/2]⟩)]
    let m : Model := ⟨.logistic, "logistic", ⟨some ["A", "B"], some 2, some 1, false, 1, 0⟩, ps, priorMode ps⟩
    m.canonical roundF32 = true ∧ (load roundF32 (toDict m)).bind (fun m' => .ok (toDict m')) = .ok (toDict m) := by
  decide +kernel

/-- The scalar-noise shape remark of DESIGN §5: after a fit with one shared noise level `noise_std` is 0-d while
    the DAG shape is `(1,)`; `load` reshapes it, so the first re-save differs from the first file in that one
    entry's nesting (`x` vs `[x]`) and in nothing else, and the next round trip is exact. -/
example :
    let ps0 : List (String × Tensor) :=
      [("log_g_mean", ⟨[1], [0]⟩), ("log_v0_mean", ⟨[1], [-4]⟩), ("noise_std", ⟨[], [1/8]⟩),
       ("tau_mean", ⟨[1], [70]⟩), ("tau_std", ⟨[1], [8]⟩), ("xi_std", ⟨[1], [1/2]⟩)]
    let m : Model := ⟨.logistic, "logistic", ⟨some ["Y"], some 1, some 0, true, 1, 0⟩, ps0, priorMode ps0⟩
    let r := load roundF32 (toDict m)
    r.isOk = true
      ∧ r.bind (fun m' => .ok (toDict m')) ≠ .ok (toDict m)
      ∧ r.bind (fun m' => .ok (m'.canonical roundF32)) = .ok true
      ∧ r.bind (fun m' => .ok (m'.params.map (fun p => (p.1, p.2.data)))) = .ok (m.params.map (fun p => (p.1, p.2.data)))
      ∧ r.bind (fun m' => (load roundF32 (toDict m')).bind (fun m'' => .ok (toDict m''))) = r.bind (fun m' => .ok (toDict m')) := by
  decide +kernel

end LeaspyVerif.C12
