/-
C12 — a fitted model is self-consistent and survives save/load unchanged.
Property theorems only (helper lemmas are private or in `Lemmas/Codec.lean`).

Two models:
  * `Model/Api.lean`, parts (b) and (c) — the object across public calls (end of fit: population variables at the
    prior mode) and the save / load path at the level of fields (section `ObjectModel`);
  * `Model/Codec.lean` — the same path as a codec: JSON value trees, `Tensor.tolist` / `torch.tensor` / `view` for
    every shape and dtype, the file-level dictionary of the five stateful kinds, `BaseModel.load` with its refusals
    (sections `TensorCodec`, `FileCodec…`).

`narrow` is the double → float32 conversion done by `torch.tensor(python_float)`; theorems that need it assume only
that float32 values are fixed points (part of `canonical` / `wf`) and, where stated, idempotence — the drivers run
`roundF32` / `narrow32`, compared with torch on every value the harness sees.
-/
import LeaspyVerif.Model.Api
import LeaspyVerif.Model.Codec
import LeaspyVerif.Lemmas.Codec

namespace LeaspyVerif.C12

section ObjectModel
open LeaspyVerif.Api

/-! ### helpers -/

private theorem ofName_toName (k : Kind) : Kind.ofName k.toName = some k := by
  cases k <;> decide +kernel

private theorem lookup_of_mem {β : Type} (l : List (String × β)) (hnd : (l.map Prod.fst).Nodup) :
    ∀ p ∈ l, l.lookup p.1 = some p.2 := by
  induction l with
  | nil => intro p hp; cases hp
  | cons a l ih =>
    intro p hp
    rw [List.map_cons, List.nodup_cons] at hnd
    rcases List.mem_cons.mp hp with h | h
    · subst h; simp [List.lookup]
    · have hne : p.1 ≠ a.1 := by
        intro he
        exact hnd.1 (he ▸ List.mem_map_of_mem (f := Prod.fst) h)
      have : (p.1 == a.1) = false := by simpa using hne
      obtain ⟨a1, a2⟩ := a
      simp only [List.lookup, this]
      exact ih hnd.2 p h

private theorem mapM_map_ok {α β : Type} (f : α → β) (g : β → Out α) :
    ∀ l : List α, (∀ p ∈ l, g (f p) = .ok p) → Out.mapM g (l.map f) = .ok l := by
  intro l
  induction l with
  | nil => intro _; rfl
  | cons a l ih =>
    intro h
    have ha := h a (List.mem_cons_self ..)
    have hl := ih (fun p hp => h p (List.mem_cons_of_mem _ hp))
    simp [Out.mapM, ha, hl]

private theorem paramSpec_nodup (k : Kind) (d s : Nat) (b : Bool) (K E : Nat) :
    ((paramSpec k d s b K E).map Prod.fst).Nodup := by
  cases k <;> by_cases hs : s = 0 <;> simp [paramSpec, hs]

/-- `load_parameters` on parameters that already have the DAG's names, order, shapes and precision. -/
private theorem loadParameters_canonical (narrow : Rat → Rat) (ps : List (String × Tensor))
    (hnd : (ps.map Prod.fst).Nodup)
    (hall : ∀ p ∈ ps, numel p.2.shape = p.2.data.length ∧ p.2.data.map narrow = p.2.data) :
    loadParameters narrow (ps.map (fun p => (p.1, p.2.shape))) ps = .ok ps := by
  have hfst : (ps.map (fun p => (p.1, p.2.shape))).map Prod.fst = ps.map Prod.fst := by
    simp [List.map_map, Function.comp_def]
  have hspec : ∀ p ∈ ps, (ps.map (fun p => (p.1, p.2.shape))).lookup p.1 = some p.2.shape := by
    intro p hp
    have := lookup_of_mem (ps.map (fun p => (p.1, p.2.shape))) (by rw [hfst]; exact hnd)
      (p.1, p.2.shape) (List.mem_map_of_mem (f := fun p => (p.1, p.2.shape)) hp)
    simpa using this
  have hlook := lookup_of_mem ps hnd
  unfold loadParameters
  have h1 : (ps.any fun p => ((ps.map (fun p => (p.1, p.2.shape))).lookup p.1).isNone) = false := by
    rw [List.any_eq_false]
    intro p hp
    simp [hspec p hp]
  have h2 : (ps.map (fun p => (p.1, p.2.shape))).filter (fun e => (ps.lookup e.1).isSome)
      = ps.map (fun p => (p.1, p.2.shape)) := by
    rw [List.filter_eq_self]
    intro e he
    obtain ⟨p, hp, rfl⟩ := List.mem_map.mp he
    simp [hlook p hp]
  rw [h1, h2]
  simp only [Bool.false_eq_true, ↓reduceIte]
  apply mapM_map_ok
  intro p hp
  obtain ⟨hn, hd⟩ := hall p hp
  simp [hlook p hp, loadTensor, hn, hd, Out.bind]

/-! ### property theorems -/

/-- **End of fit.** After `fit` the population variables in `model.state` are the prior modes of the final
    parameters; consequently every quantity derived from (hyperparameters, parameters, population variables)
    — velocities, mixing matrix, trajectories — has the same value on the fitted object and on the object
    that `load(save(·))` returns. For every object, data, seed and external kernels. -/
theorem fit_end_prior_mode {V : Type} (E : Ext V) (w : World V) (data seed : V) :
    let o := (apply E w (.fit data seed)).1.obj
    o.pop = E.priorMode o.params ∧
      ∀ {β : Type} (derived : V → V → V → β),
        derived o.hyper o.params o.pop
          = derived (freshCopy E o).hyper (freshCopy E o).params (freshCopy E o).pop := by
  simp [apply, applyGen, freshCopy, reload]

/-- The same invariant for every reachable object: whatever the history of public calls, if the population
    variables were at their prior mode to begin with, they still are. -/
theorem pop_prior_mode_invariant {V : Type} (E : Ext V) (cs : List (Call V)) (w : World V)
    (h0 : w.obj.pop = E.priorMode w.obj.params) :
    (run E w cs).1.obj.pop = E.priorMode (run E w cs).1.obj.params := by
  induction cs generalizing w with
  | nil => simpa [run, runGen] using h0
  | cons c cs ih =>
    have step : (applyGen E false w c).1.obj.pop = E.priorMode (applyGen E false w c).1.obj.params := by
      cases c <;> simp [applyGen, h0]
      case load => cases hf : w.file <;> simp [reload, h0]
    simpa [run, runGen] using ih (applyGen E false w c).1 step

/-- `load` always leaves the population variables at the prior mode of the loaded parameters. -/
theorem load_pop_prior_mode (narrow : Rat → Rat) (f : FileD) (m : Model) (h : load narrow f = .ok m) :
    m.pop = priorMode m.params := by
  unfold load at h
  simp only at h
  split at h
  · cases h
  · split at h
    · cases h
    · rename_i k _ _
      cases hh : checkHyp (parseSettings f).hyp with
      | err e => simp [hh, Out.bind] at h
      | ok hy =>
        simp only [hh, Out.bind] at h
        split at h
        · rename_i d s _ _
          cases hp : loadParameters narrow (paramSpec k d s hy.scalarNoise hy.nClusters hy.nbEvents)
              (parseSettings f).parameters with
          | err e => simp [hp] at h
          | ok ps =>
            simp only [hp, Out.ok.injEq] at h
            subst h; rfl
        · cases h

/-- **Round trip, full statement that is provable as the code stands** (`roundtrip_any_name` below shows the
    guard on the name is necessary).  A model whose parameters have the DAG's names, shapes and single precision
    (`canonical`) and whose instance name is, up to case, its kind: `load(save m)` succeeds and returns the same
    kind, hyperparameters and parameters, with population variables at the prior mode. -/
theorem roundtrip_params (narrow : Rat → Rat) (m : Model) (hc : m.canonical narrow = true)
    (hn : m.name.toLower = m.kind.toName) :
    ∃ m', load narrow (toDict m) = .ok m' ∧ m'.kind = m.kind ∧ m'.hyp = m.hyp ∧ m'.params = m.params
      ∧ m'.pop = priorMode m.params ∧ m'.name = m.kind.toName := by
  unfold Model.canonical at hc
  cases hd : m.hyp.dim with
  | none => simp [hd] at hc
  | some d =>
    cases hs : m.hyp.sourceDim with
    | none => simp [hd, hs] at hc
    | some s =>
      simp only [hd, hs, Bool.and_eq_true, beq_iff_eq, List.all_eq_true] at hc
      obtain ⟨⟨⟨hspec, hall⟩, hhyp⟩, hfeat⟩ := hc
      have hfeat' : m.hyp.features.isNone = false := by
        cases hf : m.hyp.features <;> simp [hf] at hfeat ⊢
      have hnd : (m.params.map Prod.fst).Nodup := by
        have := paramSpec_nodup m.kind d s m.hyp.scalarNoise m.hyp.nClusters m.hyp.nbEvents
        rw [← hspec] at this
        simpa [List.map_map, Function.comp_def] using this
      have hall' : ∀ p ∈ m.params, numel p.2.shape = p.2.data.length ∧ p.2.data.map narrow = p.2.data := by
        intro p hp
        obtain ⟨h1, h2⟩ := hall p hp
        refine ⟨h1, ?_⟩
        calc p.2.data.map narrow = p.2.data.map id := List.map_congr_left (by simpa using h2)
          _ = p.2.data := List.map_id _
      have hload := loadParameters_canonical narrow m.params hnd hall'
      rw [hspec] at hload
      refine ⟨⟨m.kind, m.kind.toName, m.hyp, m.params, priorMode m.params⟩, ?_, rfl, rfl, rfl, rfl, rfl⟩
      simp [load, parseSettings, toDict, hn, ofName_toName, hhyp, Out.bind, hd, hs, hload, hfeat']

/-- **Re-saving reproduces the file**: under the same hypotheses with the instance name *equal* to the kind
    (`ModelSettings` lower-cases the stored name and `load` names the new object after its kind), saving the
    reloaded model gives exactly the file that was loaded. -/
theorem roundtrip_resave_identical (narrow : Rat → Rat) (m : Model) (hc : m.canonical narrow = true)
    (hn : m.name = m.kind.toName) :
    (load narrow (toDict m)).bind (fun m' => .ok (toDict m')) = .ok (toDict m) := by
  have hl : m.name.toLower = m.kind.toName := by
    rw [hn]; cases m.kind <;> decide +kernel
  obtain ⟨m', h, _, hh, hp, _, hname⟩ := roundtrip_params narrow m hc hl
  rw [h]
  simp [Out.bind, toDict, hh, hp, hname, hn]

/- Full-strength statement wanted by the property (any instance name):

   | theorem roundtrip_any_name (m : Model) (hc : m.canonical narrow) :
   |     ∃ m', load narrow (toDict m) = .ok m' ∧ m'.params = m.params ∧ m'.hyp = m.hyp

   It is false as the code stands (finding F7): `to_dict` stores the instance name under "name" and
   `ModelSettings` / `model_factory` read that entry as the model kind. -/

/-- F7, refutation: a canonical one-feature logistic model created with `instance_name="my_model"` saves fine and
    cannot be loaded: `ModelName("my_model")` raises `ValueError`. -/
theorem roundtrip_any_name_counterexample :
    let t : Rat → Tensor := fun x => ⟨[1], [x]⟩
    let ps := [("log_g_mean", t 0), ("log_v0_mean", t (-4)), ("noise_std", t (1/8)), ("tau_mean", t 70),
               ("tau_std", t 8), ("xi_std", t (1/2))]
    let m : Model := ⟨.logistic, "my_model", ⟨some ["Y"], some 1, some 0, true, 1, 0⟩, ps, priorMode ps⟩
    m.canonical id = true ∧ load id (toDict m) = .err .value := by
  decide +kernel

/-- F7, the part that holds: under the exact guard `name.lower() == kind` the round trip works for every
    canonical model (this is `roundtrip_params`; restated so that the guard is visible next to the refutation). -/
theorem roundtrip_any_name_partial (narrow : Rat → Rat) (m : Model) (hc : m.canonical narrow = true)
    (hn : m.name.toLower = m.kind.toName) :
    ∃ m', load narrow (toDict m) = .ok m' ∧ m'.params = m.params ∧ m'.hyp = m.hyp := by
  obtain ⟨m', h, _, hh, hp, _⟩ := roundtrip_params narrow m hc hn
  exact ⟨m', h, hp, hh⟩

/-- The guard is also necessary for loadability: if the lower-cased stored name is not a model kind, `load`
    raises `ValueError` whatever the rest of the file contains. -/
theorem load_unknown_name (narrow : Rat → Rat) (f : FileD) (h : Kind.ofName f.name.toLower = none) :
    load narrow f = .err .value := by
  simp [load, parseSettings, h]

/-- F21, refutation of byte-identical re-saving for double-precision parameters: a model whose `tau_mean` is the
    double `80.44985490161451` (what a joint or mixture fit produces) loads, but the reloaded model holds the
    nearest float32 and saving it writes a different file. -/
theorem resave_double_precision_counterexample :
    let t : Rat → Tensor := fun x => ⟨[1], [x]⟩
    let ps := [("log_g_mean", t 0), ("log_v0_mean", t (-4)), ("noise_std", t (1/8)),
               ("tau_mean", t (5661174738133811 / 70368744177664)), ("tau_std", t 8), ("xi_std", t (1/2))]
    let m : Model := ⟨.logistic, "logistic", ⟨some ["Y"], some 1, some 0, true, 1, 0⟩, ps, priorMode ps⟩
    (load roundF32 (toDict m)).bind (fun m' => .ok (toDict m')) ≠ .ok (toDict m)
      ∧ (load roundF32 (toDict m)).isOk = true := by
  decide +kernel

/-- Non-vacuity of `canonical` with the real rounding: a two-feature, one-source logistic model with float32
    parameters is canonical, loads, and re-saves identically (computed, not assumed). -/
example :
    let ps : List (String × Tensor) :=
      [("betas_mean", ⟨[1, 1], [1/4]⟩), ("log_g_mean", ⟨[2], [0, 1/2]⟩), ("log_v0_mean", ⟨[2], [-4, -9/2]⟩),
       ("noise_std", ⟨[2], [13421773/134217728, 1/8]⟩), ("tau_mean", ⟨[1], [10544723/131072]⟩),
       ("tau_std", ⟨[1], [8]⟩), ("xi_std", ⟨[1], [1/2]⟩)]
    let m : Model := ⟨.logistic, "logistic", ⟨some ["A", "B"], some 2, some 1, false, 1, 0⟩, ps, priorMode ps⟩
    m.canonical roundF32 = true ∧ (load roundF32 (toDict m)).bind (fun m' => .ok (toDict m')) = .ok (toDict m) := by
  decide +kernel

/-- The scalar-noise shape remark of DESIGN §5: after a fit with one shared noise level `noise_std` is 0-d while
    the DAG shape is `(1,)`; `load` reshapes it, so the first re-save differs from the first file in that one
    entry's nesting (`x` vs `[x]`) and in nothing else, and the next round trip is exact. -/
example :
    let ps0 : List (String × Tensor) :=
      [("log_g_mean", ⟨[1], [0]⟩), ("log_v0_mean", ⟨[1], [-4]⟩), ("noise_std", ⟨[], [1/8]⟩),
       ("tau_mean", ⟨[1], [70]⟩), ("tau_std", ⟨[1], [8]⟩), ("xi_std", ⟨[1], [1/2]⟩)]
    let m : Model := ⟨.logistic, "logistic", ⟨some ["Y"], some 1, some 0, true, 1, 0⟩, ps0, priorMode ps0⟩
    let r := load roundF32 (toDict m)
    r.isOk = true
      ∧ r.bind (fun m' => .ok (toDict m')) ≠ .ok (toDict m)
      ∧ r.bind (fun m' => .ok (m'.canonical roundF32)) = .ok true
      ∧ r.bind (fun m' => .ok (m'.params.map (fun p => (p.1, p.2.data)))) = .ok (m.params.map (fun p => (p.1, p.2.data)))
      ∧ r.bind (fun m' => (load roundF32 (toDict m')).bind (fun m'' => .ok (toDict m''))) = r.bind (fun m' => .ok (toDict m')) := by
  decide +kernel

end ObjectModel

/-! ## The save / load path as a codec (`Model/Codec.lean`)

`narrow` is the double → float32 conversion of `torch.tensor(python_float)`; the theorems use it only through the
hypotheses they state (`wf` says that the elements of a float32 tensor are fixed points; `hidem` is idempotence).
The driver runs `narrow32`; the harness compares it with torch over the whole double range. -/

section TensorCodec
open LeaspyVerif.Codec

/-- **Shape seen by the loader.** `compute_sizes` on `t.tolist()` recovers the shape up to and including the first
    zero-length axis, for every tensor. -/
theorem tolist_sizes (t : Codec.Tensor) : sizes (toJson t) = .ok (cutShape t.shape) :=
  sizes_nest t.shape t.data

/-- **`torch.tensor(t.tolist())` in closed form**, for every tensor object (any shape, any dtype): with at least one
    element the shape is kept, the dtype becomes the default of its class (bool / int64 / float32) and every float goes
    through `narrow`; without elements the result is the empty float32 tensor of the cut shape. -/
theorem tensor_reload_closed_form (narrow : Fl → Fl) (t : Codec.Tensor) (hwf : t.wf narrow = true) :
    ofJson narrow (toJson t) = .ok (t.back narrow) := by
  simp only [Codec.Tensor.wf, Bool.and_eq_true, beq_iff_eq, List.all_eq_true] at hwf
  obtain ⟨hl, hall⟩ := hwf
  unfold ofJson toJson
  split
  · rename_i s h; exact absurd h (nest_ne_str _ _ s)
  · rw [sizes_nest]
    by_cases h0 : numel t.shape = 0
    · simp [infer_nest_zero _ _ h0, numel_cutShape_of_zero _ h0, Codec.Tensor.back, h0, Cls.dtype]
    · have hc : ∀ e ∈ t.data, e.cls = t.dtype.cls := fun e he => okFor_cls narrow _ e (hall e he)
      simp [infer_nest t.dtype.cls _ _ h0 hl hc, cutShape_of_ne_zero _ h0, h0, store_nest narrow t.dtype _ _ hl hall,
        Codec.Tensor.back]

private theorem map_back_eq (narrow : Fl → Fl) (dt : DType) (hdt : dt = .bool ∨ dt = .int64 ∨ dt = .float32)
    (d : List Elem) (h : ∀ e ∈ d, e.okFor narrow dt = true) : d.map (Elem.back narrow) = d := by
  have : ∀ e ∈ d, Elem.back narrow e = e := by
    intro e he
    have := h e he
    rcases hdt with rfl | rfl | rfl <;> cases e <;> simp_all [Elem.okFor, Elem.back]
  calc d.map (Elem.back narrow) = d.map id := List.map_congr_left this
    _ = d := List.map_id _

/-- **Round trip of the tensor codec, exact guard.** For every tensor object, `torch.tensor(t.tolist())` gives `t`
    back (dtype, shape and every value) if and only if `t.stable`: with elements, the dtype is bool, int64 or float32
    (float32 values survive because the text carries the exact double and `narrow` fixes every float32 — that is `wf`);
    without elements, the dtype is float32 and the first zero-length axis is the last one. -/
theorem tensor_roundtrip_iff (narrow : Fl → Fl) (t : Codec.Tensor) (hwf : t.wf narrow = true) :
    ofJson narrow (toJson t) = .ok t ↔ t.stable = true := by
  rw [tensor_reload_closed_form narrow t hwf]
  simp only [Codec.Tensor.wf, Bool.and_eq_true, beq_iff_eq, List.all_eq_true] at hwf
  obtain ⟨hl, hall⟩ := hwf
  obtain ⟨dt, sh, d⟩ := t
  simp only at hl hall
  by_cases h0 : numel sh = 0
  · have hd : d = [] := List.eq_nil_of_length_eq_zero (by rw [hl, h0])
    subst hd
    simp only [Codec.Tensor.back, h0, ↓reduceIte, Codec.Tensor.stable, Out.ok.injEq, Codec.Tensor.mk.injEq, and_true,
      Bool.and_eq_true, beq_iff_eq]
    constructor
    · rintro ⟨h1, h2⟩; exact ⟨h1.symm, h2⟩
    · rintro ⟨h1, h2⟩; exact ⟨h1.symm, h2⟩
  · simp only [Codec.Tensor.back, h0, ↓reduceIte, Codec.Tensor.stable, Out.ok.injEq, Codec.Tensor.mk.injEq, true_and,
      Bool.or_eq_true, beq_iff_eq]
    constructor
    · rintro ⟨h1, _⟩
      cases dt <;> simp_all [DType.cls, Cls.dtype]
    · intro h
      have hdt : dt = .bool ∨ dt = .int64 ∨ dt = .float32 := by
        rcases h with (h | h) | h <;> simp [h]
      refine ⟨?_, map_back_eq narrow dt hdt d hall⟩
      rcases hdt with rfl | rfl | rfl <;> rfl

/-- The zero-length axes are really lost (witnesses for the "only if" above, computed): a float32 tensor of shape
    `(0, 3)` comes back with shape `(0,)`; an int64 tensor of shape `(0,)` comes back as float32; shape `(3, 0)` is
    kept. -/
theorem tensor_roundtrip_zero_axis_counterexample :
    ofJson narrow32 (toJson ⟨.float32, [0, 3], []⟩) = .ok ⟨.float32, [0], []⟩
      ∧ ofJson narrow32 (toJson ⟨.int64, [0], []⟩) = .ok ⟨.float32, [0], []⟩
      ∧ ofJson narrow32 (toJson ⟨.float32, [3, 0], []⟩) = .ok ⟨.float32, [3, 0], []⟩ := by
  decide +kernel

/-- F21 at the level of one tensor: a float64 tensor with elements comes back as float32 holding the narrowed
    values — for every shape. -/
theorem tensor_reload_double_narrows (narrow : Fl → Fl) (t : Codec.Tensor) (hwf : t.wf narrow = true)
    (hd : t.dtype = .float64) (h0 : numel t.shape ≠ 0) :
    ofJson narrow (toJson t) = .ok ⟨.float32, t.shape, t.data.map (Elem.back narrow)⟩ := by
  rw [tensor_reload_closed_form narrow t hwf]
  simp [Codec.Tensor.back, h0, hd, DType.cls, Cls.dtype]

/-- … and the narrowing is a change: the double `80.44985490161451` (a `tau_mean` after a joint fit) comes back as
    the float32 `80.44985198974609375`, with the complete rounding function. -/
theorem tensor_reload_double_counterexample :
    let x : Fl := .fin (1415288814675475 / 17592186044416)
    ofJson narrow32 (toJson ⟨.float64, [1], [.f x]⟩) = .ok ⟨.float32, [1], [.f (.fin (10544723 / 131072))]⟩
      ∧ (Codec.Tensor.wf narrow32 ⟨.float64, [1], [.f x]⟩) = true := by
  decide +kernel

/-- **`val_to_tensor(t.tolist(), shape)`** (what `load_parameters` does with every stored parameter): it succeeds
    exactly when `shape` has as many elements as `t`, whatever the two shapes are — zero-length axes included, the
    shape written in the file plays no role — and the result carries the DAG's shape. -/
theorem view_reload (narrow : Fl → Fl) (t : Codec.Tensor) (hwf : t.wf narrow = true) (sh : List Nat) :
    valToTensor narrow (some sh) (toJson t)
      = if numel sh = numel t.shape then .ok ⟨(t.back narrow).dtype, sh, (t.back narrow).data⟩ else .err .runtime := by
  unfold valToTensor
  rw [tensor_reload_closed_form narrow t hwf]
  by_cases h0 : numel t.shape = 0
  · simp [view, Codec.Tensor.back, h0, numel_cutShape_of_zero _ h0]
  · simp [view, Codec.Tensor.back, h0]

/-- F25 explained: a 0-d parameter (what `scalar_noise_std_update` leaves after a fit) is written as a bare number;
    the loader views it under the DAG's shape `(1,)`, so the reloaded tensor has one more axis and is written as a
    one-element list — a different file — while the value is the same.  For every float32 value. -/
theorem scalar_parameter_gets_an_axis (narrow : Fl → Fl) (x : Fl) (hx : narrow x = x) :
    let t0 : Codec.Tensor := ⟨.float32, [], [.f x]⟩
    let t1 : Codec.Tensor := ⟨.float32, [1], [.f x]⟩
    toJson t0 = .flt x ∧ toJson t1 = .arr [.flt x] ∧ toJson t0 ≠ toJson t1
      ∧ valToTensor narrow (some [1]) (toJson t0) = .ok t1
      ∧ valToTensor narrow (some [1]) (toJson t1) = .ok t1 := by
  refine ⟨rfl, rfl, by simp [toJson, nest, Elem.toJson], ?_, ?_⟩
  · simp [valToTensor, ofJson, toJson, nest, Elem.toJson, sizes, infer, store, scalarOf, numel, view, Cls.dtype, hx]
  · simp [valToTensor, ofJson, toJson, nest, Elem.toJson, sizes, sizesHead, infer, inferList, store, storeList, scalarOf,
      numel, view, Cls.dtype, Cls.promote, chunks, hx]

private theorem back_back (narrow : Fl → Fl) (hidem : ∀ x, narrow (narrow x) = narrow x) (e : Elem) :
    Elem.back narrow (Elem.back narrow e) = Elem.back narrow e := by
  cases e <;> simp [Elem.back, hidem]

private theorem back_okFor (narrow : Fl → Fl) (hidem : ∀ x, narrow (narrow x) = narrow x) (dt : DType) (e : Elem)
    (h : e.okFor narrow dt = true) : (Elem.back narrow e).okFor narrow dt.cls.dtype = true := by
  cases dt <;> cases e <;> simp_all [Elem.okFor, Elem.back, DType.cls, Cls.dtype, inInt64] <;> omega

/-- **Re-saving is stable after one round.** Whatever tensor the model held (any dtype, any shape with the DAG's
    number of elements), the tensor `t'` installed by `load_parameters` is a fixed point: writing `t'` and loading it
    again under the same DAG shape gives `t'` itself, so from the second file on the bytes do not change.
    Uses idempotence of `narrow`. -/
theorem resave_stable (narrow : Fl → Fl) (hidem : ∀ x, narrow (narrow x) = narrow x) (t : Codec.Tensor)
    (hwf : t.wf narrow = true) (sh : List Nat) (hn : numel sh = numel t.shape) :
    ∃ t', valToTensor narrow (some sh) (toJson t) = .ok t' ∧ t'.shape = sh
      ∧ valToTensor narrow (some sh) (toJson t') = .ok t' := by
  refine ⟨⟨(t.back narrow).dtype, sh, (t.back narrow).data⟩, ?_, rfl, ?_⟩
  · rw [view_reload narrow t hwf sh, if_pos hn]
  · simp only [Codec.Tensor.wf, Bool.and_eq_true, beq_iff_eq, List.all_eq_true] at hwf
    obtain ⟨hl, hall⟩ := hwf
    by_cases h0 : numel t.shape = 0
    · have hs0 : numel sh = 0 := by rw [hn, h0]
      have hwf' : (Codec.Tensor.wf narrow ⟨.float32, sh, []⟩) = true := by simp [Codec.Tensor.wf, hs0]
      simp only [Codec.Tensor.back, h0, ↓reduceIte]
      rw [view_reload narrow _ hwf' sh]
      simp [Codec.Tensor.back, hs0]
    · have hs0 : numel sh ≠ 0 := by rw [hn]; exact h0
      have hwf' : (Codec.Tensor.wf narrow ⟨t.dtype.cls.dtype, sh, t.data.map (Elem.back narrow)⟩) = true := by
        simp only [Codec.Tensor.wf, List.length_map, hl, hn, beq_self_eq_true, Bool.true_and, List.all_eq_true]
        intro e he
        obtain ⟨e0, he0, rfl⟩ := List.mem_map.mp he
        exact back_okFor narrow hidem _ e0 (hall e0 he0)
      simp only [Codec.Tensor.back, h0, ↓reduceIte]
      rw [view_reload narrow _ hwf' sh]
      have hcls : t.dtype.cls.dtype.cls.dtype = t.dtype.cls.dtype := by cases t.dtype <;> rfl
      simp [Codec.Tensor.back, hs0, hcls, List.map_map, Function.comp_def, back_back narrow hidem]

end TensorCodec


section FileCodec
open LeaspyVerif.Codec

/-- what `o.loadable` says, in propositional form -/
private theorem loadable_unpack (X : Ext) (narrow : Fl → Fl)
    (others : Codec.Kind → Nat → Nat → Noise → Nat → Nat → List (String × Other)) (o : Obj)
    (hl : o.loadable X narrow others = true) :
    ∃ fs s, o.features = some fs ∧ o.sourceDim = some s ∧ fs ≠ [] ∧ (o.dimAttr = none ∨ o.dimAttr = some fs.length)
      ∧ s ≤ fs.length - 1 ∧ ¬(o.noise = .diagonal ∧ fs.length = 1)
      ∧ (o.kind = .joint → 1 ≤ o.nbEvents ∧ ¬((fs.length = 1 ∨ s = 0) ∧ o.noise ≠ .scalar))
      ∧ (o.kind ≠ .joint → o.nbEvents = 1)
      ∧ (o.kind = .mixture → 2 ≤ o.nClusters) ∧ (o.kind ≠ .mixture → o.nClusters = 0)
      ∧ paramsLoadable narrow (Codec.paramSpec o.kind fs.length s o.noise o.nClusters o.nbEvents) o.params = true
      ∧ (s = 0 ∨ checkOther narrow (others o.kind fs.length s o.noise o.nClusters o.nbEvents)
            ("mixing_matrix", toJson (X.mixing o.kind fs.length s o.pop)) = .ok ()) := by
  unfold Obj.loadable at hl
  cases hf : o.features with
  | none => simp [hf] at hl
  | some fs =>
    cases hs : o.sourceDim with
    | none => simp [hf, hs] at hl
    | some s =>
      simp only [hf, hs, hypWf, Bool.and_eq_true, Bool.not_eq_true', Bool.or_eq_true, beq_iff_eq,
        decide_eq_true_eq, Bool.and_eq_false_imp] at hl
      obtain ⟨⟨⟨⟨⟨⟨⟨h1, h2⟩, h3⟩, h4⟩, h5⟩, h6⟩, h7⟩, h8⟩ := hl
      refine ⟨fs, s, rfl, rfl, ?_, ?_, h3, ?_, ?_, ?_, ?_, ?_, h7, ?_⟩
      · intro h; simp [h] at h1
      · rcases h2 with h | h
        · left; cases hd : o.dimAttr <;> simp_all
        · right; exact h
      · rintro ⟨a, b⟩; have := h4 a; simp_all
      · intro hk
        simp only [hk, ↓reduceIte, Bool.and_eq_true, decide_eq_true_eq, Bool.not_eq_true', Bool.and_eq_false_imp,
          Bool.or_eq_true, beq_iff_eq] at h5
        refine ⟨h5.1, ?_⟩
        rintro ⟨a, b⟩
        have := h5.2 a
        simp_all
      · intro hk; simpa [hk] using h5
      · intro hk; simpa [hk] using h6
      · intro hk; simpa [hk] using h6
      · rcases h8 with h | h
        · left; exact h
        · right; exact h

/-- the `dimension` property of a loadable object -/
private theorem loadable_dim (o : Obj) (fs : List String) (hf : o.features = some fs)
    (hd : o.dimAttr = none ∨ o.dimAttr = some fs.length) : o.dim = some fs.length := by
  rcases hd with h | h <;> simp [Obj.dim, h, hf]

/-- **`load(save(o))` in closed form, for every model description that satisfies the decidable predicate
    `loadable`** (feature names present and consistent with the dimension, source dimension within bounds, an
    observation model the factory rebuilds, the DAG's parameter names each with the DAG's number of elements — any
    dtype, any shape — and a mixing matrix the non-parameter check lets through) **and whose stored name is, up to
    case, its kind**: `to_dict` succeeds, `BaseModel.load` accepts the file and builds exactly `o.reloaded`: the
    same kind, features, source dimension, observation model, fit metrics, event / cluster counts; the instance name
    replaced by the kind; `_dimension` filled in; every parameter viewed under the DAG's shape with the default dtype
    of its class and narrowed values; population variables at the prior mode. -/
theorem load_toDict (X : Ext) (narrow : Fl → Fl)
    (others : Codec.Kind → Nat → Nat → Noise → Nat → Nat → List (String × Other)) (o : Obj)
    (hl : o.loadable X narrow others = true) (hn : o.name.toLower = o.kind.toName) :
    ∃ j, toDict X o = .ok j ∧ Codec.load narrow others j = .ok (o.reloaded narrow) := by
  obtain ⟨fs, s, hf, hs, hfs, hda, hsb, hnz, hj, hnj, hm, hnm, hpl, hmix⟩ := loadable_unpack X narrow others o hl
  have hdim := loadable_dim o fs hf hda
  have hnames : o.params.map Prod.fst
      = (Codec.paramSpec o.kind fs.length s o.noise o.nClusters o.nbEvents).map Prod.fst := by
    simp only [paramsLoadable, Bool.and_eq_true, beq_iff_eq] at hpl
    exact hpl.1
  refine ⟨.obj (fileFields X o fs.length s), ?_, ?_⟩
  · simp [toDict, hdim, hs, hnames]
  · have hc := construct_fileFields X o fs s hf hfs hsb hnz hj hnj hm hnm
    have hp := loadParamsObj_written narrow (Codec.paramSpec o.kind fs.length s o.noise o.nClusters o.nbEvents)
      (others o.kind fs.length s o.noise o.nClusters o.nbEvents) o.params
      (if s ≥ 1 then [("mixing_matrix", toJson (X.mixing o.kind fs.length s o.pop))] else [])
      (Codec.paramSpec_nodup _ _ _ _ _ _) hpl (by
        intro q hq
        by_cases h1 : s ≥ 1
        · simp only [h1, ↓reduceIte, List.mem_singleton] at hq
          subst hq
          refine ⟨mixing_not_param _ _ _ _ _ _, ?_⟩
          rcases hmix with h | h
          · omega
          · exact h
        · simp [h1] at hq)
    simp only [Codec.load, fileFields_name, fileFields_version, fileFields_parameters, Option.isNone_some,
      Bool.false_eq_true, ↓reduceIte, hn, kindOfName_toName, hc, loadParameters, hp]
    simp [Obj.reloaded, hf, hs]

/-- **`load(save(o)) = o` on the modelled core**: a loadable model whose parameters are canonical (fixed points of the
    normalisation: DAG shapes, default dtype, single precision), whose name is its kind, whose population variables
    are at the prior mode (`canonical`) and whose `_dimension` is set comes back as the very same description. -/
theorem load_toDict_identity (X : Ext) (narrow : Fl → Fl)
    (others : Codec.Kind → Nat → Nat → Noise → Nat → Nat → List (String × Other)) (o : Obj)
    (hl : o.loadable X narrow others = true) (hc : o.canonical narrow = true) (hd : o.dimAttr = o.dim) :
    ∃ j, toDict X o = .ok j ∧ Codec.load narrow others j = .ok o := by
  obtain ⟨fs, s, hf, hs, _, hda, _⟩ := loadable_unpack X narrow others o hl
  simp only [Obj.canonical, hf, hs, Bool.and_eq_true, beq_iff_eq, paramsCanonical] at hc
  obtain ⟨⟨hname, hpc⟩, hpop⟩ := hc
  have hn : o.name.toLower = o.kind.toName := by
    rw [hname]; cases o.kind <;> decide +kernel
  obtain ⟨j, h1, h2⟩ := load_toDict X narrow others o hl hn
  refine ⟨j, h1, ?_⟩
  rw [h2]
  have hdim := loadable_dim o fs hf hda
  have : o.reloaded narrow = o := by
    obtain ⟨k, nm, fe, da, sd, nz, fm, nb, nc, ps, pp⟩ := o
    simp only at hf hs hname hpc hpop hd hdim
    subst hf hs
    simp only [Obj.reloaded, hpc, ← hname, ← hpop]
    rw [hd, hdim]
  rw [this]

/-- **Byte-identical re-save** (the file is a function of its tree): for a loadable, canonical model, saving the
    reloaded model writes exactly the first file — whatever `_dimension` was. -/
theorem resave_identical (X : Ext) (narrow : Fl → Fl)
    (others : Codec.Kind → Nat → Nat → Noise → Nat → Nat → List (String × Other)) (o : Obj)
    (hl : o.loadable X narrow others = true) (hc : o.canonical narrow = true) :
    ∃ j, toDict X o = .ok j ∧ (Codec.load narrow others j).bind (toDict X) = .ok j := by
  obtain ⟨fs, s, hf, hs, _, hda, _⟩ := loadable_unpack X narrow others o hl
  have hc' := hc
  simp only [Obj.canonical, hf, hs, Bool.and_eq_true, beq_iff_eq, paramsCanonical] at hc'
  obtain ⟨⟨hname, hpc⟩, hpop⟩ := hc'
  have hn : o.name.toLower = o.kind.toName := by
    rw [hname]; cases o.kind <;> decide +kernel
  obtain ⟨j, h1, h2⟩ := load_toDict X narrow others o hl hn
  refine ⟨j, h1, ?_⟩
  rw [h2, ← h1]
  have hdim := loadable_dim o fs hf hda
  simp only [Out.bind]
  obtain ⟨k, nm, fe, da, sd, nz, fm, nb, nc, ps, pp⟩ := o
  simp only at hf hs hname hpc hpop hdim
  subst hf hs
  simp only [Obj.reloaded, hpc, ← hname, ← hpop]
  simp only [toDict, Obj.dim] at hdim ⊢
  simp only [hdim]
  rfl

end FileCodec


section FileCodec2
open LeaspyVerif.Codec

private theorem elem_back_back (narrow : Fl → Fl) (hidem : ∀ x, narrow (narrow x) = narrow x) (e : Elem) :
    Elem.back narrow (Elem.back narrow e) = Elem.back narrow e := by
  cases e <;> simp [Elem.back, hidem]

private theorem normTensor_idem (narrow : Fl → Fl) (hidem : ∀ x, narrow (narrow x) = narrow x) (sh : List Nat)
    (t : Codec.Tensor) (hn : numel sh = numel t.shape) :
    normTensor narrow sh (normTensor narrow sh t) = normTensor narrow sh t := by
  by_cases h0 : numel t.shape = 0
  · have hs0 : numel sh = 0 := by rw [hn, h0]
    simp [normTensor, Codec.Tensor.back, h0, hs0]
  · have hs0 : numel sh ≠ 0 := by rw [hn]; exact h0
    have hcls : t.dtype.cls.dtype.cls.dtype = t.dtype.cls.dtype := by cases t.dtype <;> rfl
    simp [normTensor, Codec.Tensor.back, h0, hs0, hcls, List.map_map, Function.comp_def, elem_back_back narrow hidem]

private theorem normParams_idem (narrow : Fl → Fl) (hidem : ∀ x, narrow (narrow x) = narrow x) :
    ∀ (spec : List (String × List Nat)) (ps : List (String × Codec.Tensor)),
      (∀ ep ∈ List.zip spec ps, numel ep.1.2 = numel ep.2.2.shape) →
      normParams narrow spec (normParams narrow spec ps) = normParams narrow spec ps
  | [], _, _ => by simp [normParams]
  | _ :: _, [], _ => by simp [normParams]
  | e :: spec, p :: ps, h => by
    have ih := normParams_idem narrow hidem spec ps (fun ep hep => h ep (by simp [hep]))
    have h0 := h (e, p) (by simp)
    simp only [normParams] at ih ⊢
    simp only [List.zipWith_cons_cons, ih, normTensor_idem narrow hidem e.2 p.2 h0]

/-- **After one round the model is canonical** (F25 and F21 at file level): whatever loadable object was saved —
    0-d `noise_std`, float64 parameters, any instance name that is its kind up to case — the object that `load`
    builds is a fixed point of the normalisation, is named after its kind and has its population variables at the
    prior mode.  Uses idempotence of `narrow`. -/
theorem reloaded_canonical (X : Ext) (narrow : Fl → Fl) (hidem : ∀ x, narrow (narrow x) = narrow x)
    (others : Codec.Kind → Nat → Nat → Noise → Nat → Nat → List (String × Other)) (o : Obj)
    (hl : o.loadable X narrow others = true) :
    (o.reloaded narrow).canonical narrow = true := by
  unfold Obj.loadable at hl
  cases hf : o.features with
  | none => simp [hf] at hl
  | some fs =>
    cases hs : o.sourceDim with
    | none => simp [hf, hs] at hl
    | some s =>
      simp only [hf, hs, Bool.and_eq_true] at hl
      have hpl := hl.1.2
      simp only [paramsLoadable, Bool.and_eq_true, beq_iff_eq, List.all_eq_true] at hpl
      have hnum : ∀ ep ∈ List.zip (Codec.paramSpec o.kind fs.length s o.noise o.nClusters o.nbEvents) o.params,
          numel ep.1.2 = numel ep.2.2.shape := fun ep hep => (hpl.2 ep hep).2
      simp [Obj.reloaded, Obj.canonical, hf, hs, paramsCanonical, normParams_idem narrow hidem _ _ hnum]

/-- **Re-saving is stable from the second file on.** If the reloaded object is itself loadable (decidable; the
    only clause not inherited is the one on the recomputed mixing matrix), the file it writes is reproduced byte for
    byte by every further `load` / `save` round. -/
theorem resave_stable_after_one_round (X : Ext) (narrow : Fl → Fl) (hidem : ∀ x, narrow (narrow x) = narrow x)
    (others : Codec.Kind → Nat → Nat → Noise → Nat → Nat → List (String × Other)) (o : Obj)
    (hl : o.loadable X narrow others = true) (hl' : (o.reloaded narrow).loadable X narrow others = true) :
    ∃ j₂, toDict X (o.reloaded narrow) = .ok j₂ ∧ (Codec.load narrow others j₂).bind (toDict X) = .ok j₂ :=
  resave_identical X narrow others (o.reloaded narrow) hl' (reloaded_canonical X narrow hidem others o hl)

/-- F7 at file level, both directions of the dispatch: a loadable model whose lower-cased instance name is not a
    model kind writes a file that `load` refuses with `ValueError`, whatever else the model holds. -/
theorem load_toDict_unknown_name (X : Ext) (narrow : Fl → Fl)
    (others : Codec.Kind → Nat → Nat → Noise → Nat → Nat → List (String × Other)) (o : Obj)
    (hl : o.loadable X narrow others = true) (hn : kindOfName o.name.toLower = none) :
    ∃ j, toDict X o = .ok j ∧ Codec.load narrow others j = .err .value := by
  obtain ⟨fs, s, hf, hs, _, hda, _, _, _, _, _, _, hpl, _⟩ := loadable_unpack X narrow others o hl
  have hdim := loadable_dim o fs hf hda
  have hnames : o.params.map Prod.fst
      = (Codec.paramSpec o.kind fs.length s o.noise o.nClusters o.nbEvents).map Prod.fst := by
    simp only [paramsLoadable, Bool.and_eq_true, beq_iff_eq] at hpl
    exact hpl.1
  refine ⟨.obj (fileFields X o fs.length s), by simp [toDict, hdim, hs, hnames], ?_⟩
  simp [Codec.load, fileFields_name, fileFields_version, fileFields_parameters, hn]

/-- The three mandatory keys, as the loader checks them: a file (any object) without `name`, `parameters` or
    `leaspy_version` is refused with `LeaspyModelInputError`; a `name` that is not a string with `AttributeError`; a
    top-level list with `LeaspyModelInputError`, a top-level number / `null` with `TypeError`. -/
theorem load_mandatory_keys (narrow : Fl → Fl)
    (others : Codec.Kind → Nat → Nat → Noise → Nat → Nat → List (String × Other)) (kvs : List (String × JVal)) :
    ((kvs.lookup "name").isNone ∨ (kvs.lookup "parameters").isNone ∨ (kvs.lookup "leaspy_version").isNone →
        Codec.load narrow others (.obj kvs) = .err .modelInput)
      ∧ (∀ v ps ver, kvs.lookup "name" = some v → kvs.lookup "parameters" = some ps →
          kvs.lookup "leaspy_version" = some ver → strOf v = none →
          Codec.load narrow others (.obj kvs) = .err .attribute)
      ∧ (∀ l, Codec.load narrow others (.arr l) = .err .modelInput)
      ∧ Codec.load narrow others .null = .err .type ∧ (∀ i, Codec.load narrow others (.int i) = .err .type) := by
  refine ⟨?_, ?_, fun _ => rfl, rfl, fun _ => rfl⟩
  · intro h
    simp only [Codec.load]
    rcases h with h | h | h
    · simp only [h, ↓reduceIte]
    · by_cases h1 : (kvs.lookup "name").isNone = true
      · simp only [h1, ↓reduceIte]
      · simp only [h1, h, Bool.false_eq_true, ↓reduceIte]
    · by_cases h1 : (kvs.lookup "name").isNone = true
      · simp only [h1, ↓reduceIte]
      · by_cases h2 : (kvs.lookup "parameters").isNone = true
        · simp only [h1, h2, Bool.false_eq_true, ↓reduceIte]
        · simp only [h1, h2, h, Bool.false_eq_true, ↓reduceIte]
  · intro v ps ver h1 h2 h3 hv
    simp only [Codec.load, h1, h2, h3, Option.isNone_some, Bool.false_eq_true, ↓reduceIte]
    cases v <;> simp_all [strOf]

/-- F23 at file level: a model with a dimension and no feature names is saved with `"features": null`, and that file
    is refused with `TypeError` (`len(None)`), for every kind. -/
theorem load_toDict_features_null (X : Ext) (narrow : Fl → Fl)
    (others : Codec.Kind → Nat → Nat → Noise → Nat → Nat → List (String × Other)) (o : Obj) (d s : Nat)
    (hf : o.features = none) (hd : o.dimAttr = some d) (hs : o.sourceDim = some s)
    (hnames : o.params.map Prod.fst = (Codec.paramSpec o.kind d s o.noise o.nClusters o.nbEvents).map Prod.fst)
    (hn : o.name.toLower = o.kind.toName) :
    ∃ j, toDict X o = .ok j ∧ Codec.load narrow others j = .err .type := by
  refine ⟨.obj (fileFields X o d s), by simp [toDict, Obj.dim, hd, hs, hnames], ?_⟩
  simp only [Codec.load, fileFields_name, fileFields_version, fileFields_parameters, Option.isNone_some,
    Bool.false_eq_true, ↓reduceIte, hn, kindOfName_toName]
  cases hk : o.kind <;>
    simp [fileFields, hk, hf, featuresJ, hyperOf, reservedKeys, lower_features, lower_dimension, lower_obs, lower_fit,
      lower_src, lower_nb, lower_ncl, construct, getLast, outsideKeys, List.lookup, dimOf, featOf]

/-- **What `to_dict` reads** (self-consistency of the written file): the `parameters` block is the live state's value
    of every ModelParameter node through `tolist`, followed — when there are sources — by the mixing matrix derived
    from the live population variables; `dimension` is the `dimension` property, i.e. `len(features)` whenever
    `_dimension` is unset; the key list is the one of the model's class. -/
theorem toDict_reads_live_state (X : Ext) (o : Obj) (j : JVal) (h : toDict X o = .ok j) :
    ∃ d s kvs, o.dim = some d ∧ o.sourceDim = some s ∧ j = .obj kvs
      ∧ kvs.lookup "parameters" = some (.obj (tensorsJ o.params
          ++ (if s ≥ 1 then [("mixing_matrix", toJson (X.mixing o.kind d s o.pop))] else [])))
      ∧ kvs.lookup "dimension" = some (.int d)
      ∧ (o.dimAttr = none → ∀ fs, o.features = some fs → d = fs.length)
      ∧ kvs.lookup "name" = some (.str o.name)
      ∧ kvs.map Prod.fst = ["leaspy_version", "name", "features", "dimension", "hyperparameters", "parameters",
          "obs_models", "fit_metrics"] ++ (match o.kind with
            | .joint => ["source_dimension", "nb_events"]
            | .mixture => ["n_clusters", "source_dimension"]
            | _ => ["source_dimension"]) := by
  unfold toDict at h
  cases hd : o.dim with
  | none => simp [hd] at h
  | some d =>
    cases hs : o.sourceDim with
    | none => simp [hd, hs] at h
    | some s =>
      simp only [hd, hs] at h
      split at h
      · cases h
      · simp only [Out.ok.injEq] at h
        refine ⟨d, s, fileFields X o d s, rfl, rfl, h.symm, fileFields_parameters X o d s, ?_, ?_,
          fileFields_name X o d s, ?_⟩
        · simp [fileFields, List.lookup]
        · intro hda fs hfs
          simp [Obj.dim, hda, hfs] at hd
          exact hd.symm
        · cases hk : o.kind <;> simp [fileFields, hk]

/-- **A fit starts from a well-formed description.** Whatever hyperparameters the object was created with, once
    `initialize(dataset)` has accepted a dataset with at least one feature the attributes satisfy the hyperparameter
    clause of `loadable`: feature names present, `_dimension` unset or equal to their number, source dimension within
    `[0, d-1]` — with the repaired default `min(⌊√d⌋, d-1)` (F22), so a one-feature model has no source. -/
theorem initialized_hypWf (p p' : Pre) (headers : List String) (hne : headers ≠ [])
    (h : initFromDataset p headers = .ok p') :
    hypWf p'.features p'.dimAttr p'.sourceDim = true
      ∧ p'.features = some headers
      ∧ (headers.length = 1 → p'.sourceDim = some 0) := by
  have hpos : 1 ≤ headers.length := by
    cases headers with
    | nil => exact absurd rfl hne
    | cons a l => simp
  unfold initFromDataset at h
  by_cases c1 : (p.dim.isSome && p.dim != some headers.length) = true
  · simp [c1] at h
  · by_cases c2 : (p.features.isSome && p.features != some headers) = true
    · simp [c1, c2] at h
    · simp only [c1, c2, Bool.false_eq_true, ↓reduceIte] at h
      have hda : p.dimAttr = none ∨ p.dimAttr = some headers.length := by
        cases hd : p.dimAttr with
        | none => left; rfl
        | some d =>
          right
          simp [Pre.dim, hd] at c1
          rw [c1]
      cases hsd : p.sourceDim with
      | none =>
        simp only [hsd, Out.ok.injEq] at h
        subst h
        refine ⟨?_, rfl, ?_⟩
        · rcases hda with h | h <;> simp [hypWf, h, hne] <;> omega
        · intro h1; simp [h1]
      | some s =>
        simp only [hsd] at h
        by_cases c3 : s < headers.length
        · simp only [c3, ↓reduceIte, Out.ok.injEq] at h
          subst h
          refine ⟨?_, rfl, ?_⟩
          · rcases hda with h | h <;> simp [hypWf, h, hsd, hne] <;> omega
          · intro h1; simp only [hsd]; congr; omega
        · simp [c3] at h

end FileCodec2


section FileCodec3
open LeaspyVerif.Codec

/-- the two models agree on the DAG's parameter names and shapes (Gaussian observation models; the codec model adds
    the Bernoulli one, which has no `noise_std`) -/
theorem paramSpec_agrees_with_api (d s K E : Nat) (scalar : Bool) :
    let nz : Noise := if scalar then .scalar else .diagonal
    Codec.paramSpec .logistic d s nz K E = Api.paramSpec .logistic d s scalar K E
      ∧ Codec.paramSpec .linear d s nz K E = Api.paramSpec .linear d s scalar K E
      ∧ Codec.paramSpec .sharedSpeed d s nz K E = Api.paramSpec .sharedSpeedLogistic d s scalar K E
      ∧ Codec.paramSpec .joint d s nz K E = Api.paramSpec .joint d s scalar K E
      ∧ Codec.paramSpec .mixture d s nz K E = Api.paramSpec .mixtureLogistic d s scalar K E := by
  cases scalar <;> simp [Codec.paramSpec, Api.paramSpec]

/-- a concrete world for the computed statements below: no Hyperparameter node written, a constant mixing matrix -/
private def X0 : Ext := ⟨"2.0.0", fun _ _ _ _ _ _ => [], fun _ d s _ => ⟨.float32, [s, d], List.replicate (s * d) (.f (.fin 0))⟩⟩

private def others0 : Codec.Kind → Nat → Nat → Noise → Nat → Nat → List (String × Other) :=
  fun _ d s _ _ _ => mixingOther d s

private def f32 (sh : List Nat) (xs : List Rat) : Codec.Tensor := ⟨.float32, sh, xs.map (fun q => .f (.fin q))⟩

/-- a fitted two-feature, one-source logistic model with a shared noise level: `noise_std` is 0-d after the fit -/
private def oFit (name : String) (noise : Codec.Tensor) : Obj :=
  let ps : List (String × Codec.Tensor) :=
    [("betas_mean", f32 [1, 1] [1/4]), ("log_g_mean", f32 [2] [0, 1/2]), ("log_v0_mean", f32 [2] [-4, -9/2]),
     ("noise_std", noise), ("tau_mean", f32 [1] [10544723/131072]), ("tau_std", f32 [1] [8]), ("xi_std", f32 [1] [1/2])]
  ⟨.logistic, name, some ["A", "B"], none, some 1, .scalar, .null, 1, 0, ps, priorMode ps⟩

/-- Non-vacuity of `loadable` / `canonical` with the real rounding, computed: the model with `noise_std` of shape
    `(1,)` satisfies both, `load(save(·))` returns it up to `_dimension`, and the re-save is the same tree. -/
example :
    let o := oFit "logistic" (f32 [1] [13421773/134217728])
    o.loadable X0 narrow32 others0 = true ∧ o.canonical narrow32 = true
      ∧ (toDict X0 o).bind (Codec.load narrow32 others0) = .ok { o with dimAttr := some 2 }
      ∧ ((toDict X0 o).bind (Codec.load narrow32 others0)).bind (toDict X0) = toDict X0 o := by
  decide +kernel

/-- F25 at file level, computed: with the 0-d `noise_std` a fit leaves, the object is loadable but not canonical;
    the first re-save differs from the first file, the reloaded object is canonical, and the second re-save
    reproduces the second file. -/
theorem resave_scalar_noise_counterexample :
    let o := oFit "logistic" (f32 [] [13421773/134217728])
    let r := (toDict X0 o).bind (Codec.load narrow32 others0)
    o.loadable X0 narrow32 others0 = true ∧ o.canonical narrow32 = false
      ∧ r.isOk = true
      ∧ r.bind (toDict X0) ≠ toDict X0 o
      ∧ r.bind (fun o' => .ok (o'.canonical narrow32)) = .ok true
      ∧ (r.bind (toDict X0)).bind (fun j => (Codec.load narrow32 others0 j).bind (toDict X0)) = r.bind (toDict X0) := by
  decide +kernel

/-- F7 at file level, computed: the same model created with `instance_name="my_model"` is loadable in every other
    respect; its file is refused with `ValueError`. -/
theorem load_toDict_any_name_counterexample :
    let o := oFit "my_model" (f32 [1] [13421773/134217728])
    o.loadable X0 narrow32 others0 = true
      ∧ (toDict X0 o).bind (Codec.load narrow32 others0) = .err .value := by
  decide +kernel

/-- Strict key set, computed on the file of the model above: an unknown top-level key is ignored by the
    time-reparametrized classes (`_load_hyperparameters` has no check) … -/
theorem unknown_key_ignored_counterexample :
    let o := oFit "logistic" (f32 [1] [13421773/134217728])
    (toDict X0 o).bind (fun j => match j with
        | .obj kvs => Codec.load narrow32 others0 (.obj (kvs ++ [("noise_model", .str "x")]))
        | _ => .err .outside)
      = (toDict X0 o).bind (Codec.load narrow32 others0) := by
  decide +kernel


/-- replace the `mixing_matrix` entry of the `parameters` block of a file -/
private def withMixing (v : JVal) : JVal → JVal
  | .obj kvs => .obj (kvs.map fun p =>
      if p.1 == "parameters" then
        (p.1, match p.2 with
          | .obj ps => .obj (ps.map fun q => if q.1 == "mixing_matrix" then (q.1, v) else q)
          | x => x)
      else p)
  | x => x

/-- F30, computed: `load_parameters` was written to compare the non-parameter values of a file with the recomputed
    ones, but its `assert (cond, msg)` is an assertion on a non-empty tuple.  As shipped (`mixingOther`), the file of the
    model above with the mixing matrix overwritten by `[[5, 5]]` (the true one is `[[0, 0]]`) is accepted, the edit is
    silently dropped (the re-save is the unedited file, not the file that was loaded); with effective assertions
    (`mixingOtherChecked`, the repair) the same file is refused with `AssertionError`, and the unedited one still
    loads. -/
theorem stale_mixing_matrix_accepted_counterexample :
    let o := oFit "logistic" (f32 [1] [13421773/134217728])
    let j := toDict X0 o
    let j' := j.bind (fun t => .ok (withMixing (.arr [.arr [.flt (.fin 5), .flt (.fin 5)]]) t))
    let checked : Codec.Kind → Nat → Nat → Noise → Nat → Nat → List (String × Other) :=
      fun _ d s _ _ _ => mixingOtherChecked d s [.fin 0, .fin 0]
    j' ≠ j
      ∧ (j'.bind (Codec.load narrow32 others0)).isOk = true
      ∧ (j'.bind (Codec.load narrow32 others0)).bind (toDict X0) = j
      ∧ j'.bind (Codec.load narrow32 checked) = .err .assertion
      ∧ (j.bind (Codec.load narrow32 checked)).isOk = true := by
  decide +kernel

end FileCodec3


section FileCodec4
open LeaspyVerif.Codec

/-- **Strict key set of the loader, as an iff.** Take the file of any loadable model (name = kind up to case) and add
    one top-level key `k` whose lower-cased form is none of the keywords a constructor reads (and which is not one of
    the four keys `ModelSettings` sets aside).  The file is refused **iff the model is a mixture model**, and then with
    `LeaspyModelInputError` (`_raise_if_unknown_hyperparameters`); for the four time-reparametrized kinds the key is
    silently ignored and the loaded object is the one of the unedited file. -/
theorem unknown_key_refused_iff (X : Ext) (narrow : Fl → Fl)
    (others : Codec.Kind → Nat → Nat → Noise → Nat → Nat → List (String × Other)) (o : Obj)
    (hl : o.loadable X narrow others = true) (hn : o.name.toLower = o.kind.toName) (k : String) (v : JVal)
    (hr : k ∉ reservedKeys) (hk : k.toLower ∉ mixtureKeys ++ outsideKeys ++ ["nb_events"]) :
    ∃ kvs, toDict X o = .ok (.obj kvs)
      ∧ Codec.load narrow others (.obj (kvs ++ [(k, v)]))
          = (if o.kind = .mixture then .err .modelInput else .ok (o.reloaded narrow))
      ∧ ((Codec.load narrow others (.obj (kvs ++ [(k, v)]))).isOk = false ↔ o.kind = .mixture) := by
  obtain ⟨fs, s, hf, hs, hfs, hda, hsb, hnz, hj, hnj, hm, hnm, hpl, hmix⟩ := loadable_unpack X narrow others o hl
  have hdim := loadable_dim o fs hf hda
  have hnames : o.params.map Prod.fst
      = (Codec.paramSpec o.kind fs.length s o.noise o.nClusters o.nbEvents).map Prod.fst := by
    simp only [paramsLoadable, Bool.and_eq_true, beq_iff_eq] at hpl
    exact hpl.1
  have hload : Codec.load narrow others (.obj (fileFields X o fs.length s ++ [(k, v)]))
      = (if o.kind = .mixture then .err .modelInput else .ok (o.reloaded narrow)) := by
    have hc := construct_fileFields_extra X o fs s k.toLower v hf hfs hsb hnz hj hnj hm hnm hk
    have hp := loadParamsObj_written narrow (Codec.paramSpec o.kind fs.length s o.noise o.nClusters o.nbEvents)
      (others o.kind fs.length s o.noise o.nClusters o.nbEvents) o.params
      (if s ≥ 1 then [("mixing_matrix", toJson (X.mixing o.kind fs.length s o.pop))] else [])
      (Codec.paramSpec_nodup _ _ _ _ _ _) hpl (by
        intro q hq
        by_cases h1 : s ≥ 1
        · simp only [h1, ↓reduceIte, List.mem_singleton] at hq
          subst hq
          refine ⟨mixing_not_param _ _ _ _ _ _, ?_⟩
          rcases hmix with h | h
          · omega
          · exact h
        · simp [h1] at hq)
    simp only [Codec.load, List.lookup_append, fileFields_name, fileFields_version, fileFields_parameters,
      Option.isNone_some, Option.some_or, Bool.false_eq_true, ↓reduceIte, hn, kindOfName_toName,
      hyperOf_append_unreserved _ k v hr, hc]
    by_cases hkm : o.kind = .mixture
    · simp [hkm]
    · simp only [hkm, ↓reduceIte, loadParameters, hp]
      simp [Obj.reloaded, hf, hs]
  refine ⟨fileFields X o fs.length s, by simp [toDict, hdim, hs, hnames], hload, ?_⟩
  rw [hload]
  by_cases hkm : o.kind = .mixture <;> simp [hkm, Out.isOk]

end FileCodec4


section FileCodec5
open LeaspyVerif.Codec

/-- overwrite the value stored under key `k` -/
private def setVal (k : String) (v : JVal) : List (String × JVal) → List (String × JVal)
  | [] => []
  | (a, b) :: kvs => (if a = k then (a, v) else (a, b)) :: setVal k v kvs

private theorem lookup_setVal_ne (k k' : String) (v : JVal) (h : k' ≠ k) :
    ∀ kvs : List (String × JVal), (setVal k v kvs).lookup k' = kvs.lookup k'
  | [] => rfl
  | (a, b) :: kvs => by
    have ih := lookup_setVal_ne k k' v h kvs
    by_cases hk : a = k
    · subst hk
      have : (k' == a) = false := by simpa using h
      simp only [setVal, ↓reduceIte, List.lookup, this, ih]
    · by_cases hk2 : k' = a
      · subst hk2; simp only [setVal, hk, ↓reduceIte, List.lookup, beq_self_eq_true]
      · have : (k' == a) = false := by simpa using hk2
        simp only [setVal, hk, ↓reduceIte, List.lookup, this, ih]

private theorem lookup_setVal_isNone (k : String) (v : JVal) :
    ∀ kvs : List (String × JVal), ((setVal k v kvs).lookup k).isNone = (kvs.lookup k).isNone
  | [] => rfl
  | (a, b) :: kvs => by
    have ih := lookup_setVal_isNone k v kvs
    by_cases hk : a = k
    · subst hk; simp only [setVal, ↓reduceIte, List.lookup, beq_self_eq_true, Option.isNone_some]
    · have : (k == a) = false := by simpa using Ne.symm hk
      simp only [setVal, hk, ↓reduceIte, List.lookup, this, ih]

private theorem hyperOf_setVal (k : String) (v : JVal) (hk : reservedKeys.contains k = true) :
    ∀ kvs : List (String × JVal), hyperOf (setVal k v kvs) = hyperOf kvs
  | [] => rfl
  | (a, b) :: kvs => by
    have ih := hyperOf_setVal k v hk kvs
    simp only [hyperOf] at ih ⊢
    by_cases ha : a = k
    · subst ha
      simp only [setVal, ↓reduceIte, List.filter_cons, hk, Bool.not_true, Bool.false_eq_true]
      exact ih
    · simp only [setVal, ha, ↓reduceIte, List.filter_cons]
      split
      · simp only [List.map_cons, ih]
      · exact ih

/-- **Keys the loader requires but never reads.** Whatever value is stored under `leaspy_version` or under
    `hyperparameters` — the whole block of Hyperparameter values `to_dict` writes — `load` returns the same outcome:
    the version is only required to be present, the block is not even required. For every file. -/
theorem load_ignores_version_and_hyperparameters (narrow : Fl → Fl)
    (others : Codec.Kind → Nat → Nat → Noise → Nat → Nat → List (String × Other)) (kvs : List (String × JVal))
    (v : JVal) :
    Codec.load narrow others (.obj (setVal "leaspy_version" v kvs)) = Codec.load narrow others (.obj kvs)
      ∧ Codec.load narrow others (.obj (setVal "hyperparameters" v kvs)) = Codec.load narrow others (.obj kvs) := by
  constructor
  · simp only [Codec.load, lookup_setVal_isNone, lookup_setVal_ne "leaspy_version" "name" v (by decide),
      lookup_setVal_ne "leaspy_version" "parameters" v (by decide), hyperOf_setVal "leaspy_version" v (by decide)]
  · simp only [Codec.load, lookup_setVal_ne "hyperparameters" "leaspy_version" v (by decide),
      lookup_setVal_ne "hyperparameters" "name" v (by decide),
      lookup_setVal_ne "hyperparameters" "parameters" v (by decide), hyperOf_setVal "hyperparameters" v (by decide)]

end FileCodec5

end LeaspyVerif.C12
