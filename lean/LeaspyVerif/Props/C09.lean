/-
C09 — individual trajectories follow the documented closed form.
Property theorems only (helper lemmas are private).  Model: `Model/Traj.lean`;
real-number instance and sigmoid facts: `Lemmas/TrajReal.lean`.

Exact real arithmetic: floating-point rounding is not modelled (the correspondence harness
compares the same definitions, run on `Float`, with the float32 implementation inside an envelope).
-/
import LeaspyVerif.Model.Traj
import LeaspyVerif.Lemmas.TrajReal
import Mathlib.Analysis.SpecialFunctions.Exp
import Mathlib.Analysis.SpecialFunctions.Log.Basic
import Mathlib.Tactic.Ring
import Mathlib.Tactic.Linarith
import Mathlib.Tactic.Positivity
import Mathlib.Tactic.FieldSimp

namespace LeaspyVerif.C09
open LeaspyVerif.Traj LeaspyVerif.TrajReal

/-! ### logistic -/

/-- Every entry of the logistic model lies strictly between 0 and 1, for *all* real values of the
    metric, velocity, position, reparametrised time and space shift. -/
theorem logistic_range (metric v0 g r w : ℝ) :
    0 < logisticVal metric v0 g r w ∧ logisticVal metric v0 g r w < 1 :=
  ⟨sigmoid_pos _, sigmoid_lt_one _⟩

/-- … hence in the closed interval `[0,1]` the property names. -/
theorem logistic_range_closed (metric v0 g r w : ℝ) :
    0 ≤ logisticVal metric v0 g r w ∧ logisticVal metric v0 g r w ≤ 1 :=
  ⟨le_of_lt (sigmoid_pos _), le_of_lt (sigmoid_lt_one _)⟩

/-- The metric of the logistic model is positive for a positive position `g`
    (and `g = exp(log_g)` always is), and is `1 / (p (1 - p))` at the reference value `p = 1/(1+g)`. -/
theorem logistic_metric_pos {g : ℝ} (hg : 0 < g) :
    0 < logisticMetric g ∧ logisticMetric g = 1 / ((1 / (1 + g)) * (1 - 1 / (1 + g))) := by
  constructor
  · unfold logisticMetric; positivity
  · unfold logisticMetric
    have h1 : (1 + g) ≠ 0 := by positivity
    have h2 : (1 : ℝ) - 1 / (1 + g) = g / (1 + g) := by field_simp; ring
    rw [h2]
    field_simp
    ring

/-- Non-decreasing in age: with positive velocity, metric and acceleration factor (all three are
    exponentials / a positive rational function of one in the code), a later age gives a larger or
    equal value, whatever `tau`, the space shift and `g`. -/
theorem logistic_mono_age {metric v0 g a tau w t₁ t₂ : ℝ}
    (hm : 0 < metric) (hv : 0 < v0) (ha : 0 < a) (ht : t₁ ≤ t₂) :
    logisticVal metric v0 g (rt a t₁ tau) w ≤ logisticVal metric v0 g (rt a t₂ tau) w := by
  unfold logisticVal rt
  apply sigmoid_mono
  have h1 : a * (t₁ - tau) ≤ a * (t₂ - tau) := mul_le_mul_of_nonneg_left (by linarith) (le_of_lt ha)
  have h2 : v0 * (a * (t₁ - tau)) ≤ v0 * (a * (t₂ - tau)) := mul_le_mul_of_nonneg_left h1 (le_of_lt hv)
  have h3 : metric * (v0 * (a * (t₁ - tau)) + w) ≤ metric * (v0 * (a * (t₂ - tau)) + w) :=
    mul_le_mul_of_nonneg_left (by linarith) (le_of_lt hm)
  linarith

/-- … and strictly increasing for distinct ages. -/
theorem logistic_strict_mono_age {metric v0 g a tau w t₁ t₂ : ℝ}
    (hm : 0 < metric) (hv : 0 < v0) (ha : 0 < a) (ht : t₁ < t₂) :
    logisticVal metric v0 g (rt a t₁ tau) w < logisticVal metric v0 g (rt a t₂ tau) w := by
  unfold logisticVal rt
  apply sigmoid_strictMono
  have h1 : a * (t₁ - tau) < a * (t₂ - tau) := mul_lt_mul_of_pos_left (by linarith) ha
  have h2 : v0 * (a * (t₁ - tau)) < v0 * (a * (t₂ - tau)) := mul_lt_mul_of_pos_left h1 hv
  have h3 : metric * (v0 * (a * (t₁ - tau)) + w) < metric * (v0 * (a * (t₂ - tau)) + w) :=
    mul_lt_mul_of_pos_left (by linarith) hm
  linarith

/-- The same, stated on the quantities the code starts from: `xi`, `log_v0`, `log_g`. -/
theorem logistic_mono_age_params (lg lv xi tau w t₁ t₂ : ℝ) (ht : t₁ ≤ t₂) :
    logisticVal (logisticMetric (ExpLog.exp lg)) (ExpLog.exp lv) (ExpLog.exp lg) (rt (alpha xi) t₁ tau) w
      ≤ logisticVal (logisticMetric (ExpLog.exp lg)) (ExpLog.exp lv) (ExpLog.exp lg) (rt (alpha xi) t₂ tau) w :=
  logistic_mono_age (logistic_metric_pos (Real.exp_pos lg)).1 (Real.exp_pos lv) (Real.exp_pos xi) ht

/-- At its reference time `t = tau`, an individual without space shift sits at `1/(1+g)`,
    whatever the metric, the velocity and the acceleration factor. -/
theorem logistic_at_tau {g : ℝ} (hg : 0 < g) (metric v0 a tau : ℝ) :
    logisticVal metric v0 g (rt a tau tau) 0 = 1 / (1 + g) := by
  unfold logisticVal rt
  have : metric * (v0 * (a * (tau - tau)) + 0) - ExpLog.log g = -Real.log g := by
    simp
  rw [this, sigmoid_neg_log hg]

/-- The documented closed form of a logistic entry:
    `1 / (1 + g * exp(-metric * (v0 * alpha * (t - tau) + w)))`. -/
theorem logistic_closed_form {g : ℝ} (hg : 0 < g) (metric v0 a t tau w : ℝ) :
    logisticVal metric v0 g (rt a t tau) w
      = 1 / (1 + g * Real.exp (-(metric * (v0 * (a * (t - tau)) + w)))) := by
  unfold logisticVal rt
  rw [sigmoid_eq]
  congr 2
  rw [log_eq, neg_sub, sub_eq_add_neg, Real.exp_add, Real.exp_log hg]

/-! ### linear -/

/-- The linear model is affine in the reparametrised time, hence in the age:
    intercept `g + w - v0 * alpha * tau`, slope `v0 * alpha`. -/
theorem linear_affine (g v0 a t tau w : ℝ) :
    linearVal g v0 (rt a t tau) w = (g + w - v0 * a * tau) + (v0 * a) * t := by
  unfold linearVal rt; ring

/-- value `g` (plus the space shift) at the reference time, and monotone for positive velocity -/
theorem linear_at_tau_and_mono (g v0 a tau w : ℝ) :
    linearVal g v0 (rt a tau tau) w = g + w ∧
    (0 < v0 → 0 < a → ∀ t₁ t₂, t₁ ≤ t₂ → linearVal g v0 (rt a t₁ tau) w ≤ linearVal g v0 (rt a t₂ tau) w) := by
  constructor
  · unfold linearVal rt; ring
  · intro hv ha t₁ t₂ ht
    rw [linear_affine, linear_affine]
    have : 0 ≤ v0 * a := le_of_lt (mul_pos hv ha)
    have := mul_le_mul_of_nonneg_left ht this
    linarith

/-! ### shared-speed logistic -/

/-- The shared-speed entry as coded is the logistic curve with position `g * exp(-delta)`, unit speed
    in reparametrised time and the space shift scaled by the metric:
    `1 / (1 + g * exp(-delta) * exp(-(rt + metric * w)))`, `g = exp(log_g)`. -/
theorem sharedSpeed_form (metric delta logG r w : ℝ) :
    sharedVal metric delta logG r w
      = 1 / (1 + gDeltasExp (ExpLog.exp logG) (deltasExp delta) * Real.exp (-(r + metric * w))) := by
  unfold sharedVal gDeltasExp deltasExp
  rw [sigmoid_eq]
  congr 2
  simp only [exp_eq]
  rw [← Real.exp_add, ← Real.exp_add]
  congr 1
  ring

/-- range, monotonicity in age and the reference value `1 / (1 + g exp(-delta))` of the shared-speed model -/
theorem sharedSpeed_range_mono_anchor (metric delta logG a tau w : ℝ) :
    (∀ r, 0 < sharedVal metric delta logG r w ∧ sharedVal metric delta logG r w < 1) ∧
    (0 < a → ∀ t₁ t₂, t₁ ≤ t₂ →
        sharedVal metric delta logG (rt a t₁ tau) w ≤ sharedVal metric delta logG (rt a t₂ tau) w) ∧
    sharedVal metric delta logG (rt a tau tau) 0
      = 1 / (1 + gDeltasExp (ExpLog.exp logG) (deltasExp delta)) := by
  refine ⟨fun r => ⟨sigmoid_pos _, sigmoid_lt_one _⟩, ?_, ?_⟩
  · intro ha t₁ t₂ ht
    unfold sharedVal rt
    apply sigmoid_mono
    have h1 : a * (t₁ - tau) ≤ a * (t₂ - tau) := mul_le_mul_of_nonneg_left (by linarith) (le_of_lt ha)
    linarith
  · rw [sharedSpeed_form]
    unfold rt
    simp

/-! ### whole trajectories (list level) -/

private theorem zip3With?_mem {α β γ δ : Type} (f : α → β → γ → δ) (P : δ → Prop)
    (hf : ∀ a b c, P (f a b c)) :
    ∀ (as : List α) (bs : List β) (cs : List γ) (out : List δ),
      zip3With? f as bs cs = some out → ∀ y ∈ out, P y := by
  intro as
  induction as with
  | nil =>
    intro bs cs out h
    cases bs <;> cases cs <;> simp [zip3With?] at h
    subst h; simp
  | cons a as ih =>
    intro bs cs out h
    cases bs with
    | nil => simp [zip3With?] at h
    | cons b bs =>
      cases cs with
      | nil => simp [zip3With?] at h
      | cons c cs =>
        simp only [zip3With?, Option.map_eq_some_iff] at h
        obtain ⟨tl, htl, rfl⟩ := h
        intro y hy
        rcases List.mem_cons.mp hy with rfl | hy
        · exact hf _ _ _
        · exact ih bs cs tl htl y hy

private theorem mapM_some_mem {α β : Type} (f : α → Option β) :
    ∀ (l : List α) (out : List β), l.mapM f = some out → ∀ y ∈ out, ∃ x ∈ l, f x = some y := by
  intro l
  induction l with
  | nil => intro out h; simp at h; subst h; simp
  | cons x xs ih =>
    intro out h
    rw [List.mapM_cons] at h
    cases hx : f x with
    | none => simp [hx] at h
    | some y0 =>
      cases hxs : xs.mapM f with
      | none => simp [hx, hxs] at h
      | some ys =>
        simp [hx, hxs] at h
        subst h
        intro y hy
        rcases List.mem_cons.mp hy with rfl | hy
        · exact ⟨x, by simp, hx⟩
        · obtain ⟨x', hx', hfx'⟩ := ih ys hxs y hy
          exact ⟨x', by simp [hx'], hfx'⟩

private theorem mapM_some_length {α β : Type} (f : α → Option β) :
    ∀ (l : List α) (out : List β), l.mapM f = some out → out.length = l.length := by
  intro l
  induction l with
  | nil => intro out h; simp at h; subst h; rfl
  | cons x xs ih =>
    intro out h
    rw [List.mapM_cons] at h
    cases hx : f x with
    | none => simp [hx] at h
    | some y0 =>
      cases hxs : xs.mapM f with
      | none => simp [hx, hxs] at h
      | some ys =>
        simp [hx, hxs] at h
        subst h
        simp [ih ys hxs]

/-- Every entry of every row of a logistic trajectory — any dimension, any parameters, any ages
    (unsorted, repeated, far away) — lies strictly between 0 and 1, and there is exactly one row
    per requested age. -/
theorem logisticTraj_rows_range (logG logV0 w : List ℝ) (xi tau : ℝ) (ages : List ℝ)
    (rows : List (List ℝ)) (h : logisticTraj logG logV0 w xi tau ages = some rows) :
    rows.length = ages.length ∧ ∀ row ∈ rows, ∀ y ∈ row, 0 < y ∧ y < 1 := by
  unfold logisticTraj at h
  refine ⟨mapM_some_length _ _ _ h, ?_⟩
  intro row hrow y hy
  obtain ⟨t, _, ht⟩ := mapM_some_mem _ _ _ h row hrow
  exact zip3With?_mem _ (fun y => 0 < y ∧ y < 1) (fun _ _ _ => logistic_range _ _ _ _ _) _ _ _ _ ht y hy

/-! ### `estimate`: exactly the requested identifiers and ages, in the requested order and layout -/

set_option linter.unusedSectionVars false
section Estimate
variable {ι τ π ρ : Type}

/-- dict input, dict output: one entry per requested identifier, in the order of the request, each
    with exactly the requested ages in the requested order (repeated ages repeated), the value at
    age `t` being the row of that individual at `t`. -/
theorem estimate_dict_layout (ips : ι → Option π) (p : ι → π) (f : π → τ → ρ) (req : List (ι × List τ))
    (h : ∀ it ∈ req, ips it.1 = some (p it.1)) :
    estimateDict ips f req = some (req.map fun it => (it.1, it.2.map fun t => (t, f (p it.1) t))) := by
  unfold estimateDict
  induction req with
  | nil => rfl
  | cons it req ih =>
    have h1 := h it (by simp)
    have h2 := ih (fun it' hit' => h it' (by simp [hit']))
    rw [List.mapM_cons, h1, h2]
    rfl

/-- an identifier without individual parameters makes the whole call fail (no silent default) -/
theorem estimate_dict_missing (ips : ι → Option π) (f : π → τ → ρ) (req : List (ι × List τ))
    (it : ι × List τ) (hit : it ∈ req) (h : ips it.1 = none) :
    estimateDict ips f req = none := by
  unfold estimateDict
  induction req with
  | nil => simp at hit
  | cons it' req ih =>
    rw [List.mapM_cons]
    rcases List.mem_cons.mp hit with rfl | hit
    · simp [h]
    · have := ih hit
      cases h' : ips it'.1 with
      | none => simp
      | some p0 => simp [this]

/-- dict input, data-frame output: the rows are the requested `(id, age)` pairs, flattened in the
    order of the request, repeats preserved. -/
theorem estimate_frame_layout (ips : ι → Option π) (p : ι → π) (f : π → τ → ρ) (req : List (ι × List τ))
    (h : ∀ it ∈ req, ips it.1 = some (p it.1)) :
    estimateFrame ips f req
      = some (req.flatMap fun it => it.2.map fun t => ((it.1, t), f (p it.1) t)) := by
  unfold estimateFrame
  rw [estimate_dict_layout ips p f req h]
  simp only [Option.map_some, toFrame, List.flatMap_map, List.map_map]
  rfl

variable [DecidableEq ι] [DecidableEq τ]

private theorem mem_dedup (l : List ι) (a : ι) : a ∈ dedup l ↔ a ∈ l := by
  induction l with
  | nil => simp [dedup]
  | cons i is ih =>
    simp only [dedup, List.mem_cons, List.mem_filter, ih]
    by_cases hai : a = i
    · simp [hai]
    · simp [hai]

private theorem nodup_dedup (l : List ι) : (dedup l).Nodup := by
  induction l with
  | nil => simp [dedup]
  | cons i is ih =>
    simp only [dedup, List.nodup_cons, List.mem_filter]
    exact ⟨by simp, ih.filter _⟩

omit [DecidableEq τ] in
private theorem mem_groupIds (le : ι → ι → Bool) (ix : List (ι × τ)) (it : ι × List τ)
    (hit : it ∈ groupById le ix) : ∃ k ∈ ix, k.1 = it.1 := by
  unfold groupById at hit
  obtain ⟨i, hi, rfl⟩ := List.mem_map.mp hit
  rw [List.mem_mergeSort, mem_dedup] at hi
  obtain ⟨k, hk, rfl⟩ := List.mem_map.mp hi
  exact ⟨k, hk, rfl⟩

/-- `MultiIndex` input, dict output: one entry per distinct requested identifier (a permutation of
    the distinct identifiers: pandas' group order), each with exactly the ages requested for it, in
    the order they were requested, repeats preserved. -/
theorem estimate_index_dict_layout (le : ι → ι → Bool) (ips : ι → Option π) (p : ι → π) (f : π → τ → ρ)
    (ix : List (ι × τ)) (h : ∀ k ∈ ix, ips k.1 = some (p k.1)) :
    ∃ ids : List ι, ids.Perm (dedup (ix.map (·.1))) ∧ ids.Nodup ∧ (∀ i, i ∈ ids ↔ ∃ k ∈ ix, k.1 = i) ∧
      estimateIndexDict le ips f ix = some (ids.map fun i =>
        (i, (ix.filterMap fun k => if k.1 = i then some k.2 else none).map fun t => (t, f (p i) t))) := by
  refine ⟨(dedup (ix.map (·.1))).mergeSort le, List.mergeSort_perm _ _, ?_, ?_, ?_⟩
  · exact (List.mergeSort_perm _ _).nodup_iff.mpr (nodup_dedup _)
  · intro i
    rw [List.mem_mergeSort, mem_dedup, List.mem_map]
  · unfold estimateIndexDict
    have hg : ∀ it ∈ groupById le ix, ips it.1 = some (p it.1) := by
      intro it hit
      obtain ⟨k, hk, hk1⟩ := mem_groupIds le ix it hit
      rw [← hk1]; exact h k hk
    rw [estimate_dict_layout ips p f (groupById le ix) hg]
    simp only [groupById, List.map_map, Function.comp_def]

/-! the re-indexing join -/

private theorem dropDup_sub {κ : Type} [DecidableEq κ] :
    ∀ (l : List (κ × ρ)) (seen : List κ), ∀ e ∈ dropDupKeys seen l, e ∈ l ∧ e.1 ∉ seen := by
  intro l
  induction l with
  | nil => intro seen e he; simp [dropDupKeys] at he
  | cons x xs ih =>
    intro seen e he
    unfold dropDupKeys at he
    by_cases hx : x.1 ∈ seen
    · simp only [hx, if_true] at he
      obtain ⟨h1, h2⟩ := ih seen e he
      exact ⟨by simp [h1], h2⟩
    · simp only [hx, if_false] at he
      rcases List.mem_cons.mp he with rfl | he
      · exact ⟨by simp, hx⟩
      · obtain ⟨h1, h2⟩ := ih (x.1 :: seen) e he
        exact ⟨by simp [h1], fun h => h2 (by simp [h])⟩

private theorem dropDup_nodup {κ : Type} [DecidableEq κ] :
    ∀ (l : List (κ × ρ)) (seen : List κ), ((dropDupKeys seen l).map (·.1)).Nodup := by
  intro l
  induction l with
  | nil => intro seen; simp [dropDupKeys]
  | cons x xs ih =>
    intro seen
    unfold dropDupKeys
    by_cases hx : x.1 ∈ seen
    · simp only [hx, if_true]; exact ih seen
    · simp only [hx, if_false, List.map_cons, List.nodup_cons]
      refine ⟨?_, ih _⟩
      intro hmem
      obtain ⟨e, he, he1⟩ := List.mem_map.mp hmem
      have := (dropDup_sub xs (x.1 :: seen) e he).2
      exact this (by simp [he1])

private theorem dropDup_covers {κ : Type} [DecidableEq κ] :
    ∀ (l : List (κ × ρ)) (seen : List κ), ∀ e ∈ l, e.1 ∉ seen →
      ∃ e' ∈ dropDupKeys seen l, e'.1 = e.1 := by
  intro l
  induction l with
  | nil => intro seen e he; simp at he
  | cons x xs ih =>
    intro seen e he hns
    unfold dropDupKeys
    by_cases hx : x.1 ∈ seen
    · simp only [hx, if_true]
      rcases List.mem_cons.mp he with rfl | he
      · exact absurd hx hns
      · exact ih seen e he hns
    · simp only [hx, if_false]
      by_cases hex : e.1 = x.1
      · exact ⟨x, by simp, hex.symm⟩
      · rcases List.mem_cons.mp he with rfl | he
        · exact absurd rfl hex
        · obtain ⟨e', he', h1⟩ := ih (x.1 :: seen) e he (by simp [hex, hns])
          exact ⟨e', by simp [he'], h1⟩

private theorem filter_key_unique {κ : Type} [DecidableEq κ] :
    ∀ (l : List (κ × ρ)), (l.map (·.1)).Nodup → ∀ k v, (k, v) ∈ l →
      l.filter (fun e => e.1 = k) = [(k, v)] := by
  intro l
  induction l with
  | nil => intro _ k v h; simp at h
  | cons x xs ih =>
    intro hnd k v hmem
    simp only [List.map_cons, List.nodup_cons] at hnd
    rcases List.mem_cons.mp hmem with rfl | hmem
    · have : xs.filter (fun e => e.1 = k) = [] := by
        rw [List.filter_eq_nil_iff]
        intro e he
        simp only [decide_eq_true_eq]
        intro hek
        exact hnd.1 (List.mem_map.mpr ⟨e, he, hek⟩)
      simp [this]
    · have hxk : x.1 ≠ k := by
        intro hxk
        exact hnd.1 (List.mem_map.mpr ⟨(k, v), hmem, hxk.symm⟩)
      simp [hxk, ih hnd.2 k v hmem]

omit [DecidableEq ι] [DecidableEq τ] in
private theorem mem_toFrame (d : List (ι × List (τ × ρ))) (e : (ι × τ) × ρ) :
    e ∈ toFrame d ↔ ∃ it ∈ d, ∃ tr ∈ it.2, e = ((it.1, tr.1), tr.2) := by
  unfold toFrame
  simp only [List.mem_flatMap, List.mem_map]
  constructor
  · rintro ⟨it, hit, tr, htr, rfl⟩; exact ⟨it, hit, tr, htr, rfl⟩
  · rintro ⟨it, hit, tr, htr, rfl⟩; exact ⟨it, hit, tr, htr, rfl⟩

private theorem flatMap_singleton {α β : Type} (g : α → List β) (hf : α → β) :
    ∀ (l : List α), (∀ k ∈ l, g k = [hf k]) → l.flatMap g = l.map hf := by
  intro l
  induction l with
  | nil => intro _; rfl
  | cons x xs ih =>
    intro h
    rw [List.flatMap_cons, h x (by simp), ih (fun k hk => h k (by simp [hk]))]
    rfl

/-- `MultiIndex` input, data-frame output (the default; code as repaired by fix F17): the result has
    exactly one row per requested `(id, age)` pair, in the order of the requested index — unsorted
    indices stay unsorted, a pair requested `k` times appears `k` times —, no row is left empty
    and each row carries the value of that individual at that age. -/
theorem estimate_index_layout (le : ι → ι → Bool) (ips : ι → Option π) (p : ι → π) (f : π → τ → ρ)
    (ix : List (ι × τ)) (h : ∀ k ∈ ix, ips k.1 = some (p k.1)) :
    estimateIndexFrame le ips f ix = some (ix.map fun k => (k, some (f (p k.1) k.2))) := by
  obtain ⟨ids, _, _, hids, hd⟩ := estimate_index_dict_layout le ips p f ix h
  unfold estimateIndexFrame
  rw [hd, Option.map_some]
  congr 1
  set frame := toFrame (ids.map fun i =>
        (i, (ix.filterMap fun k => if k.1 = i then some k.2 else none).map fun t => (t, f (p i) t))) with hframe
  -- (a) the value of every row of the concatenated frame is determined by its key
  have hval : ∀ e ∈ frame, e.2 = f (p e.1.1) e.1.2 := by
    intro e he
    rw [hframe, mem_toFrame] at he
    obtain ⟨it, hit, tr, htr, rfl⟩ := he
    obtain ⟨i, _, rfl⟩ := List.mem_map.mp hit
    obtain ⟨t, _, rfl⟩ := List.mem_map.mp htr
    rfl
  -- (b) every requested pair has a row
  have hcov : ∀ k ∈ ix, ∃ e ∈ frame, e.1 = k := by
    intro k hk
    refine ⟨(k, f (p k.1) k.2), ?_, rfl⟩
    rw [hframe, mem_toFrame]
    refine ⟨_, List.mem_map.mpr ⟨k.1, (hids k.1).mpr ⟨k, hk, rfl⟩, rfl⟩, (k.2, f (p k.1) k.2), ?_, rfl⟩
    refine List.mem_map.mpr ⟨k.2, ?_, rfl⟩
    rw [List.mem_filterMap]
    exact ⟨k, hk, by simp⟩
  unfold joinOn
  apply flatMap_singleton
  intro k hk
  obtain ⟨e, he, hek⟩ := hcov k hk
  obtain ⟨e', he', he'k⟩ := dropDup_covers frame [] e he (by simp)
  have hk' : e'.1 = k := he'k.trans hek
  have hv' : e'.2 = f (p k.1) k.2 := by
    have := hval e' (dropDup_sub frame [] e' he').1
    rw [this, hk']
  have hmem : (k, f (p k.1) k.2) ∈ dropDupKeys [] frame := by
    have : e' = (k, f (p k.1) k.2) := Prod.ext hk' hv'
    rw [← this]; exact he'
  rw [filter_key_unique _ (dropDup_nodup frame []) k _ hmem]
  rfl

/-- Why fix F17 was needed: without the de-duplication before the join, a pair requested twice comes
    back four times (the code before the fix). -/
theorem estimate_index_nodedup_counterexample :
    estimateIndexFrameNoDedup (ι := Nat) (τ := Nat) (π := Unit) (ρ := Nat)
        (fun a b => decide (a ≤ b)) (fun _ => some ()) (fun _ t => t) [(1, 70), (1, 70)]
      = some [((1, 70), some 70), ((1, 70), some 70), ((1, 70), some 70), ((1, 70), some 70)] := by
  simp [estimateIndexFrameNoDedup, estimateIndexDict, estimateDict, groupById, dedup, toFrame, joinOn]

end Estimate

/-! ### non-vacuity -/

/-- the hypotheses of `logistic_mono_age` / `logistic_at_tau` are met by the values the code
    produces (`g = exp 1`, metric of it, `v0 = exp (-3)`, `alpha = exp 0.2`). -/
example : 0 < logisticMetric (Real.exp 1) ∧ 0 < Real.exp (-3) ∧ 0 < Real.exp 0.2 :=
  ⟨(logistic_metric_pos (Real.exp_pos 1)).1, Real.exp_pos _, Real.exp_pos _⟩

/-- `estimate` on a concrete unsorted request with a repeated pair and two individuals -/
example :
    estimateIndexFrame (ι := Nat) (τ := Nat) (π := Nat) (ρ := Nat) (fun a b => decide (a ≤ b))
        (fun i => some (10 * i)) (fun p t => p + t) [(2, 80), (1, 60), (2, 70), (2, 70)]
      = some [((2, 80), some 100), ((1, 60), some 70), ((2, 70), some 90), ((2, 70), some 90)] := by
  rw [estimate_index_layout (fun a b => decide (a ≤ b)) (fun i => some (10 * i)) (fun i => 10 * i)
        (fun p t => p + t) _ (fun _ _ => rfl)]
  rfl

end LeaspyVerif.C09
