/-
C05 — sufficient statistics follow the stochastic-approximation schedule.
Property theorems only (helper lemmas are private).  Model: `Model/Saem.lean`.
-/
import LeaspyVerif.Model.Saem
import LeaspyVerif.Lemmas.Saem
import Mathlib.Analysis.SpecialFunctions.Pow.Real
import Mathlib.Analysis.PSeries
import Mathlib.Tactic.Ring
import Mathlib.Tactic.Linarith
import Mathlib.Tactic.FieldSimp
import Mathlib.Algebra.Order.Floor.Ring
import Mathlib.Data.Rat.Floor

namespace LeaspyVerif.C05
open LeaspyVerif.Saem

set_option linter.unusedSectionVars false
variable {α : Type} [Field α] [LinearOrder α] [IsStrictOrderedRing α]

/-- Memory-less phase: up to and including iteration `nb+1` the statistics used are exactly the
    current ones, whatever was kept before and whatever the step sizes are. -/
theorem stats_memoryless (e : Nat → α) (nb k : Nat) (prev s : α) (h : k ≤ nb + 1) :
    stepStats e nb k prev s = s := by
  unfold stepStats memoryless isBurnIn
  have : (decide (k ≤ nb) || k == 1 + nb) = true := by
    rcases Nat.lt_or_ge k (nb + 1) with h1 | h1
    · have : k ≤ nb := by omega
      simp [this]
    · have : k = 1 + nb := by omega
      simp [this]
  simp [this]

/-- From the second iteration after the memory-less phase: the convex update with step
    `e (k - nb)`. -/
theorem stats_convex (e : Nat → α) (nb k : Nat) (prev s : α) (h : nb + 2 ≤ k) :
    stepStats e nb k prev s = (1 - e (k - nb)) * prev + e (k - nb) * s := by
  unfold stepStats memoryless isBurnIn
  have h1 : ¬ k ≤ nb := by omega
  have h2 : (k == 1 + nb) = false := by
    simp; omega
  simp [h1, h2]; ring

/-- The maximisation is told `burn_in = true` exactly for iterations `k ≤ nb`, and a run over `n`
    statistics performs exactly `n` maximisations. -/
theorem run_flags (e : Nat → α) (nb : Nat) (ss : List α) :
    (run e nb ss).map Prod.snd = (List.range ss.length).map (fun i => decide (i + 1 ≤ nb)) := by
  have key : ∀ (ss : List α) (k : Nat) (prev : α),
      (runFrom e nb k prev ss).map Prod.snd
        = (List.range ss.length).map (fun i => decide (i + k ≤ nb)) := by
    intro ss
    induction ss with
    | nil => intro k prev; simp [runFrom]
    | cons s ss ih =>
      intro k prev
      simp only [runFrom, List.map_cons, List.length_cons, List.range_succ_eq_map, List.map_map]
      rw [ih]
      simp [isBurnIn, Function.comp_def, Nat.add_assoc, Nat.add_comm 1 k]
  cases ss with
  | nil => simp [run]
  | cons s ss => simpa [run] using key (s :: ss) 1 s

theorem run_length (e : Nat → α) (nb : Nat) (ss : List α) : (run e nb ss).length = ss.length := by
  have key : ∀ (ss : List α) (k : Nat) (prev : α), (runFrom e nb k prev ss).length = ss.length := by
    intro ss; induction ss with
    | nil => intro k prev; simp [runFrom]
    | cons s ss ih => intro k prev; simp [runFrom, ih]
  cases ss with
  | nil => simp [run]
  | cons s ss => simpa [run] using key (s :: ss) 1 s

/-- Nothing from the memory-less phase survives: if two sequences of per-iteration statistics
    agree from iteration `nb+1` on, the statistics used for maximisation agree from iteration
    `nb+1` on (and during the memory-less phase each run uses its own current statistics). -/
theorem stats_forget_burnin (e : Nat → α) (nb : Nat) (ss ss' : List α)
    (hlen : ss.length = ss'.length) (hagree : ss.drop nb = ss'.drop nb) :
    ((run e nb ss).drop nb).map Prod.fst = ((run e nb ss').drop nb).map Prod.fst := by
  -- generalised over the starting iteration k = nb + 1 - d and arbitrary kept statistics
  have key : ∀ (d : Nat) (ss ss' : List α) (k : Nat) (prev prev' : α),
      k + d = nb + 1 → ss.length = ss'.length → ss.drop d = ss'.drop d →
      ((runFrom e nb k prev ss).drop d).map Prod.fst
        = ((runFrom e nb k prev' ss').drop d).map Prod.fst := by
    intro d
    induction d with
    | zero =>
      -- k = nb + 1 : memory reset, so what was kept before is irrelevant
      intro ss ss' k prev prev' hk _ hag
      simp only [List.drop_zero] at hag ⊢
      subst hag
      cases ss with
      | nil => simp [runFrom]
      | cons s ss =>
        have hk' : k ≤ nb + 1 := by omega
        simp only [runFrom, stats_memoryless e nb k _ s hk']
    | succ d ih =>
      intro ss ss' k prev prev' hk hl hag
      cases ss with
      | nil =>
        cases ss' with
        | nil => simp [runFrom]
        | cons _ _ => simp at hl
      | cons s ss =>
        cases ss' with
        | nil => simp at hl
        | cons s' ss' =>
          simp only [List.drop_succ_cons, runFrom] at hag ⊢
          exact ih ss ss' (k + 1) _ _ (by omega) (by simpa using hl) hag
  cases ss with
  | nil =>
    cases ss' with
    | nil => rfl
    | cons _ _ => simp at hlen
  | cons s ss =>
    cases ss' with
    | nil => simp at hlen
    | cons s' ss' =>
      have := key nb (s :: ss) (s' :: ss') 1 s s' (by omega) hlen hagree
      simpa [run] using this

/-- Convexity: with step sizes in `[0,1]`, if the kept statistic and the current one lie in
    `[lo, hi]` so does the new one — the update is a convex combination. -/
theorem stats_in_hull (e : Nat → α) (nb k : Nat) (prev s lo hi : α)
    (he : ∀ j, 0 ≤ e j ∧ e j ≤ 1)
    (hp : lo ≤ prev ∧ prev ≤ hi) (hs : lo ≤ s ∧ s ≤ hi) :
    lo ≤ stepStats e nb k prev s ∧ stepStats e nb k prev s ≤ hi := by
  unfold stepStats
  split
  · exact hs
  · obtain ⟨h0, h1⟩ := he (k - nb)
    have h1' : 0 ≤ 1 - e (k - nb) := by linarith
    constructor
    · have a := mul_le_mul_of_nonneg_right hp.1 h1'
      have b := mul_le_mul_of_nonneg_left hs.1 h0
      nlinarith
    · have a := mul_le_mul_of_nonneg_right hp.2 h1'
      have b := mul_le_mul_of_nonneg_left hs.2 h0
      nlinarith

/-- The documented step size `e_j = j^(-p)` lies in `(0, 1]` for every `j ≥ 1` and `p ≥ 0`
    (so the update above is a genuine convex combination). -/
theorem step_size_in_unit (j : Nat) (p : ℝ) (hj : 1 ≤ j) (hp : 0 ≤ p) :
    0 < (j : ℝ) ^ (-p) ∧ (j : ℝ) ^ (-p) ≤ 1 := by
  have hj' : (1 : ℝ) ≤ j := by exact_mod_cast hj
  constructor
  · exact Real.rpow_pos_of_pos (by linarith) _
  · exact Real.rpow_le_one_of_one_le_of_nonpos hj' (by linarith)

/-- Why the constructor refuses powers outside `(1/2, 1]`: exactly on that interval (for p > 0)
    the Robbins–Monro conditions hold — the steps are not summable but their squares are. -/
theorem robbins_monro_iff (p : ℝ) :
    (¬ Summable (fun n : ℕ => ((n : ℝ) ^ p)⁻¹) ∧ Summable (fun n : ℕ => (((n : ℝ) ^ p)⁻¹) ^ 2))
      ↔ (1 / 2 < p ∧ p ≤ 1) := by
  have h2 : (fun n : ℕ => (((n : ℝ) ^ p)⁻¹) ^ 2) = (fun n : ℕ => ((n : ℝ) ^ (2 * p))⁻¹) := by
    funext n
    rw [inv_pow, ← Real.rpow_natCast, ← Real.rpow_mul (Nat.cast_nonneg n)]
    congr 2
    push_cast; ring
  rw [h2, Real.summable_nat_rpow_inv, Real.summable_nat_rpow_inv]
  constructor
  · rintro ⟨a, b⟩; constructor <;> linarith
  · rintro ⟨a, b⟩; constructor <;> [linarith; linarith]

/-! ## Part 2 — unrolled form of the averaged statistic, its weights -/

/-- Over a field the complement the code computes (`1.0 - burn_in_step`) is `1 - e`: the update written with
    both weights (`stepStatsW`, what runs on float32 tensors) is the update of Part 1. -/
theorem stepStatsW_eq (e : Nat → α) (nb k : Nat) (prev s : α) :
    stepStatsW e (fun j => 1 - e j) nb k prev s = stepStats e nb k prev s := rfl

/-- **Unrolled form.**  Whatever the run length, the burn-in length, the step sizes and the statistics: the
    statistic handed to the maximisation at iteration `k+1` is `Σ_j weight (k+1) j · s_j` with the explicit
    product weights of `Saem.weight` (in particular it does not depend on `s_j` for `j > k+1`: their weight is 0,
    `weight_future_zero`). -/
theorem stats_unrolled (e : Nat → α) (nb : Nat) (ss : List α) (k : Nat) (hk : k < ss.length) :
    ((run e nb ss).map Prod.fst)[k]? = some (unrolled e (fun j => 1 - e j) nb (k + 1) ss) := by
  have hne : ss ≠ [] := by intro h; subst h; simp at hk
  obtain ⟨p, _⟩ := List.exists_mem_of_ne_nil ss hne
  rw [List.getElem?_map, run_getElem? e nb ss p k hk]
  simp only [Option.map_some, Option.some.injEq]
  have hlen : (ss.take (k + 1)).length = k + 1 := by simp; omega
  have hne' : ss.take (k + 1) ≠ [] := by intro h; rw [h] at hlen; simp at hlen
  rw [finalStat_eq_weightedSum e nb p _ hne', hlen]
  unfold unrolled
  conv_rhs => rw [← List.take_append_drop (k + 1) ss]
  rw [weightedSum_append, hlen]
  rw [weightedSum_zero _ (ss.drop (k + 1)) _ (fun i h1 _ => by
    unfold weight
    by_cases h : k + 1 ≤ nb + 1
    · have : ¬ (i = k + 1) := by omega
      simp [h, this]
    · have : k + 1 < i := by omega
      simp [h, this])]
  simp

/-- closed form of the weights after the memory-less phase: the reset iteration `nb+1` enters with 1, a later
    iteration `j` with its step `e (j-nb)`, and each is multiplied by the complement `1 - e (i-nb)` of every later
    iteration `i = j+1 … k`. -/
theorem weight_closed_form (e : Nat → α) (nb k j : Nat) (hj : nb + 1 ≤ j) (hjk : j ≤ k) (hk : nb + 2 ≤ k) :
    weight e (fun j => 1 - e j) nb k j
      = (if j = nb + 1 then 1 else e (j - nb)) * ((List.range' (j + 1) (k - j)).map (fun i => 1 - e (i - nb))).prod := by
  have key : ∀ (w : α) (l : List Nat), l.foldl (fun acc i => acc * (1 - e (i - nb))) w
      = w * (l.map (fun i => 1 - e (i - nb))).prod := by
    intro w l
    induction l generalizing w with
    | nil => simp
    | cons a l ih => simp only [List.foldl_cons, ih, List.map_cons, List.prod_cons]; ring
  unfold weight decay
  have h1 : ¬ (k ≤ nb + 1) := by omega
  have h2 : ¬ (j ≤ nb ∨ k < j) := by omega
  simp only [h1, h2, if_false]
  split <;> exact key _ _

/-- Nothing of the memory-less phase is left from the reset iteration on: for every `k ≥ nb+1` the statistics of
    the iterations `j ≤ nb` have weight exactly 0. -/
theorem weight_burnin_zero (e c : Nat → α) (nb k j : Nat) (hj : j ≤ nb) (hk : nb + 1 ≤ k) :
    weight e c nb k j = 0 := by
  unfold weight
  by_cases h : k ≤ nb + 1
  · have : ¬ (j = k) := by omega
    simp [h, this]
  · simp [h, hj]

/-- No look-ahead: later statistics have weight 0. -/
theorem weight_future_zero (e c : Nat → α) (nb k j : Nat) (hj : k < j) : weight e c nb k j = 0 := by
  unfold weight
  by_cases h : k ≤ nb + 1
  · have : ¬ (j = k) := by omega
    simp [h, this]
  · simp [h, hj]

/-- The weights are a probability vector (1): each lies in `[0, 1]` as soon as the step sizes do. -/
theorem weight_in_unit (e : Nat → α) (nb k j : Nat) (he : ∀ i, 0 ≤ e i ∧ e i ≤ 1) :
    0 ≤ weight e (fun j => 1 - e j) nb k j ∧ weight e (fun j => 1 - e j) nb k j ≤ 1 := by
  have key : ∀ (l : List Nat) (w : α), 0 ≤ w → w ≤ 1 →
      0 ≤ l.foldl (fun acc i => acc * (1 - e (i - nb))) w ∧ l.foldl (fun acc i => acc * (1 - e (i - nb))) w ≤ 1 := by
    intro l
    induction l with
    | nil => intro w h0 h1; exact ⟨h0, h1⟩
    | cons a l ih =>
      intro w h0 h1
      simp only [List.foldl_cons]
      obtain ⟨ha0, ha1⟩ := he (a - nb)
      apply ih
      · exact mul_nonneg h0 (by linarith)
      · calc w * (1 - e (a - nb)) ≤ 1 * 1 := by
              apply mul_le_mul h1 (by linarith) (by linarith) (by linarith)
          _ = 1 := by ring
  unfold weight decay
  split
  · split <;> simp
  · split
    · simp
    · split
      · exact key _ 1 (by simp) (le_refl _)
      · exact key _ _ (he _).1 (he _).2

/-- The weights are a probability vector (2): those of the iterations `1 … k` sum to exactly 1, for every
    iteration `k ≥ 1`, burn-in length and step sequence (no hypothesis on the steps). -/
theorem weight_sum_one (e : Nat → α) (nb k : Nat) (hk : 1 ≤ k) :
    ((List.range k).map (fun j => weight e (fun j => 1 - e j) nb k (j + 1))).sum = 1 := by
  -- `Σ_j w_j · 1` is the statistic of a run fed the constant 1, which stays 1
  have hws : ∀ (w : Nat → α) (n j : Nat),
      weightedSum w j (List.replicate n (1 : α)) = ((List.range n).map (fun i => w (j + i))).sum := by
    intro w n
    induction n with
    | zero => intro j; simp [weightedSum]
    | succ n ih =>
      intro j
      rw [List.replicate_succ, weightedSum, ih (j + 1), List.range_succ_eq_map]
      simp [Function.comp_def, Nat.add_assoc, Nat.add_comm 1]
  have hconst : ∀ (n : Nat) (k0 : Nat), finalStat e nb k0 (1 : α) (List.replicate n 1) = 1 := by
    intro n
    induction n with
    | zero => intro k0; simp [finalStat]
    | succ n ih =>
      intro k0
      rw [List.replicate_succ, finalStat]
      have : stepStats e nb k0 (1 : α) 1 = 1 := by
        unfold stepStats; split <;> ring
      rw [this, ih]
  have h := finalStat_eq_weightedSum e nb (1 : α) (List.replicate k 1) (by
    intro h; have := congrArg List.length h; simp at this; omega)
  rw [hconst, List.length_replicate, hws] at h
  simpa [Nat.add_comm 1] using h.symm

/-! ## Part 3 — the step sizes -/

/-- `power = 1` (steps `1/j`): from the reset iteration on, the statistic used is the **arithmetic running mean**
    of the statistics since the end of the memory-less phase, exactly, for every run. -/
theorem power_one_running_mean (nb : Nat) (ss : List α) (k : Nat) (hk : k < ss.length) (hnb : nb ≤ k) :
    ((run (fun j => (1 : α) / j) nb ss).map Prod.fst)[k]?
      = some (((ss.take (k + 1)).drop nb).sum / ((k + 1 - nb : Nat) : α)) := by
  have hne : ss ≠ [] := by intro h; subst h; simp at hk
  obtain ⟨p, _⟩ := List.exists_mem_of_ne_nil ss hne
  rw [List.getElem?_map, run_getElem? _ nb ss p k hk]
  simp only [Option.map_some, Option.some.injEq]
  have hlen : (ss.take (k + 1)).length = k + 1 := by simp; omega
  generalize ss.take (k + 1) = xs at hlen
  -- induction on the prefix, from the right
  have key : ∀ (xs : List α), nb + 1 ≤ xs.length →
      finalStat (fun j => (1 : α) / j) nb 1 p xs = (xs.drop nb).sum / ((xs.length - nb : Nat) : α) := by
    intro xs
    induction xs using List.reverseRecOn with
    | nil => intro h; simp at h
    | append_singleton ys s ih =>
      intro hl
      simp only [List.length_append, List.length_cons, List.length_nil] at hl ⊢
      rw [finalStat_snoc]
      by_cases hreset : ys.length = nb
      · have hst : stepStats (fun j => (1 : α) / j) nb (1 + ys.length) (finalStat (fun j : ℕ => (1 : α) / j) nb 1 p ys) s = s := by
          unfold stepStats memoryless isBurnIn
          simp [hreset]
        rw [hst, List.drop_append_of_le_length (by omega), List.drop_of_length_le (by omega)]
        have : ys.length + 1 - nb = 1 := by omega
        simp [this]
      · have hst : stepStats (fun j => (1 : α) / j) nb (1 + ys.length) (finalStat (fun j : ℕ => (1 : α) / j) nb 1 p ys) s
            = finalStat (fun j : ℕ => (1 : α) / j) nb 1 p ys * (1 - 1 / ((1 + ys.length - nb : Nat) : α))
              + 1 / ((1 + ys.length - nb : Nat) : α) * s := by
          unfold stepStats memoryless isBurnIn
          have h1 : ¬ (1 + ys.length ≤ nb) := by omega
          have h2 : ¬ (ys.length = nb) := hreset
          simp [h1, h2]
        rw [hst, ih (by omega), List.drop_append_of_le_length (by omega)]
        simp only [List.sum_append, List.sum_cons, List.sum_nil, add_zero]
        have e1 : 1 + ys.length - nb = (ys.length - nb) + 1 := by omega
        have e2 : ys.length + 1 - nb = (ys.length - nb) + 1 := by omega
        rw [e1, e2]
        have hm : ((ys.length - nb : Nat) : α) ≠ 0 := by
          have : 0 < ys.length - nb := by omega
          exact_mod_cast this.ne'
        have hm1 : ((ys.length - nb : Nat) : α) + 1 ≠ 0 := Nat.cast_add_one_ne_zero _
        push_cast
        field_simp
        ring
  rw [key xs (by omega), hlen]

/-- `power = 1`: the weights are uniform, `1/(k-nb)` for each of the iterations `nb+1 … k`. -/
theorem power_one_weights_uniform (nb k j : Nat) (hj : nb + 1 ≤ j) (hjk : j ≤ k) :
    weight (fun j => (1 : α) / j) (fun j => 1 - (1 : α) / j) nb k j = 1 / ((k - nb : Nat) : α) := by
  induction k with
  | zero => omega
  | succ k ih =>
    by_cases hjk' : j = k + 1
    · subst hjk'
      by_cases h : k + 1 = nb + 1
      · have : k + 1 - nb = 1 := by omega
        rw [weight_memoryless _ _ _ _ _ (by omega), this]; simp
      · rw [weight_self _ _ _ _ (by omega)]
    · have hle : j ≤ k := by omega
      rw [weight_succ _ _ _ _ _ (by omega) hle, ih hle]
      have e1 : k + 1 - nb = (k - nb) + 1 := by omega
      rw [e1]
      have hm : ((k - nb : Nat) : α) ≠ 0 := by
        have : 0 < k - nb := by omega
        exact_mod_cast this.ne'
      have hm1 : ((k - nb : Nat) : α) + 1 ≠ 0 := Nat.cast_add_one_ne_zero _
      push_cast
      field_simp
      ring

/-- A step equal to 1 means no memory: the statistic used is the current one, whatever was kept. -/
theorem step_one_no_memory (e : Nat → α) (nb k : Nat) (prev s : α) (h : e (k - nb) = 1) :
    stepStats e nb k prev s = s := by
  unfold stepStats; split
  · rfl
  · rw [h]; ring

/-- `power = 0` would mean `e ≡ 1`: the whole run is memory-less, the averaged statistics are the current ones
    at every iteration (the constructor refuses it: `robbins_monro_iff`). -/
theorem constant_step_one_run (e : Nat → α) (nb : Nat) (ss : List α) (h : ∀ j, e j = 1) :
    (run e nb ss).map Prod.fst = ss := by
  have key : ∀ (ss : List α) (k : Nat) (prev : α), (runFrom e nb k prev ss).map Prod.fst = ss := by
    intro ss
    induction ss with
    | nil => intro k prev; simp [runFrom]
    | cons s ss ih =>
      intro k prev
      simp only [runFrom, List.map_cons, ih, step_one_no_memory e nb k prev s (h _)]
  cases ss with
  | nil => simp [run]
  | cons s ss => simpa [run] using key (s :: ss) 1 s

/-- The reset at iteration `nb+1` *is* a convex step with step size 1 (`1^(-p) = 1`, `step_size_first_is_one`):
    with `e 1 = 1` the convex formula holds from iteration `nb+1` on, not only from `nb+2`. -/
theorem reset_is_unit_step (e : Nat → α) (nb k : Nat) (prev s : α) (h1 : e 1 = 1) (hk : nb + 1 ≤ k) :
    stepStats e nb k prev s = (1 - e (k - nb)) * prev + e (k - nb) * s := by
  by_cases h : nb + 2 ≤ k
  · exact stats_convex e nb k prev s h
  · have : k = nb + 1 := by omega
    subst this
    rw [stats_memoryless e nb _ prev s (le_refl _)]
    have : nb + 1 - nb = 1 := by omega
    rw [this, h1]; ring

/-- the documented step size of the first iteration after the memory-less phase is exactly 1, for every power -/
theorem step_size_first_is_one (p : ℝ) : ((1 : ℕ) : ℝ) ^ (-p) = 1 := by simp

/-- for `power = 0` every step is 1 (no memory at all, `constant_step_one_run`) -/
theorem step_size_power_zero (j : Nat) : (j : ℝ) ^ (-(0 : ℝ)) = 1 := by simp

/-- for `power = 1` the steps are `1/j` (the running mean, `power_one_running_mean`) -/
theorem step_size_power_one (j : Nat) : (j : ℝ) ^ (-(1 : ℝ)) = 1 / j := by
  rw [Real.rpow_neg (Nat.cast_nonneg j), Real.rpow_one, one_div]

/-- for every positive power the steps are strictly decreasing in the iteration -/
theorem step_size_strict_anti (p : ℝ) (hp : 0 < p) (j j' : Nat) (hj : 1 ≤ j) (hjj : j < j') :
    (j' : ℝ) ^ (-p) < (j : ℝ) ^ (-p) := by
  have h0 : (0 : ℝ) < j := by exact_mod_cast hj
  have h1 : (j : ℝ) < j' := by exact_mod_cast hjj
  exact Real.rpow_lt_rpow_of_neg h0 h1 (by linarith)

/-- … and tend to 0: old statistics are eventually weighted only through the products of complements -/
theorem step_size_tendsto_zero (p : ℝ) (hp : 0 < p) :
    Filter.Tendsto (fun j : ℕ => (j : ℝ) ^ (-p)) Filter.atTop (nhds 0) :=
  (tendsto_rpow_neg_atTop hp).comp tendsto_natCast_atTop_atTop

/-- the form used in `robbins_monro_iff` is the documented step size -/
theorem step_size_eq_inv (j : Nat) (p : ℝ) : ((j : ℝ) ^ p)⁻¹ = (j : ℝ) ^ (-p) :=
  (Real.rpow_neg (Nat.cast_nonneg j) p).symm

/-! ## Part 4 — statistics as a dictionary of tensors: the update is key-wise and entry-wise -/

section Dicts
variable {κ : Type} [DecidableEq κ]

/-- Entry-wise: on tensors of equal length the update of one key is the scalar convex update of every entry. -/
theorem convexT_entrywise (ej cj : α) (v s : List α) (h : v.length = s.length) :
    convexT ej cj v s = some (List.zipWith (fun a b => a * cj + ej * b) v s) := by
  unfold convexT bAdd
  simp [h, List.zipWith_map]

/-- Shapes: the update of a key fails (torch `RuntimeError`) exactly when the two lengths differ and neither is 1. -/
theorem convexT_error_iff (ej cj : α) (v s : List α) :
    convexT ej cj v s = none ↔ v.length ≠ s.length ∧ v.length ≠ 1 ∧ s.length ≠ 1 := by
  unfold convexT bAdd
  by_cases h : v.length = s.length
  · simp [h]
  · simp only [List.length_map, h, if_false]
    match v, s with
    | [a], s => simp
    | [], [b] => simp
    | _ :: _ :: _, [b] => simp
    | [], [] => simp at h
    | [], _ :: _ :: _ => simp
    | _ :: _ :: _, [] => simp
    | _ :: _ :: _, _ :: _ :: _ => simp; simpa using h

/-- Observation (silent broadcasting, 1): new statistics of length 1 against a kept tensor of another length are
    repeated over every kept entry — no error. -/
theorem convexT_broadcast_new (ej cj b : α) (v : List α) :
    convexT ej cj v [b] = some (v.map (fun a => a * cj + ej * b)) := by
  unfold convexT bAdd
  by_cases h : v.length = 1
  · match v, h with
    | [a], _ => simp
  · simp only [List.length_map, List.length_cons, List.length_nil, h, if_false, List.map_cons, List.map_nil]
    match v, h with
    | [], _ => simp
    | _ :: _ :: _, _ => simp

/-- Observation (silent broadcasting, 2): a kept tensor of length 1 takes the length of the new statistics — the
    shape of the kept statistic changes in the middle of a run, no error. -/
theorem convexT_broadcast_old (ej cj a : α) (s : List α) :
    convexT ej cj [a] s = some (s.map (fun b => a * cj + ej * b)) := by
  unfold convexT bAdd
  by_cases h : s.length = 1
  · match s, h with
    | [b], _ => simp
  · have h' : ¬ (1 = s.length) := fun h'' => h h''.symm
    simp [h']

/-- Key-wise (1): a successful update keeps exactly the keys of the KEPT dictionary, in the same order — a key
    that only the new statistics have is silently dropped. -/
theorem mstepD_keys (ej cj : α) (new old r : Dict κ α) (h : mstepD ej cj new old = .ok r) :
    r.map Prod.fst = old.map Prod.fst := by
  induction old generalizing r with
  | nil => simp [mstepD] at h; subst h; rfl
  | cons kv old ih =>
    obtain ⟨k, v⟩ := kv
    simp only [mstepD] at h
    split at h
    · cases h
    · split at h
      · cases h
      · split at h
        · cases h
        · rename_i r' hr'
          cases h
          simp [ih r' hr']

/-- Key-wise (2): every entry of the result is the update of the kept value of ITS key with the new value of
    that same key; keys never mix, and no other entry of either dictionary is read. -/
theorem mstepD_keywise (ej cj : α) (new old r : Dict κ α) (h : mstepD ej cj new old = .ok r) :
    List.Forall₂ (fun o n => n.1 = o.1 ∧ ∃ s, lookup o.1 new = some s ∧ convexT ej cj o.2 s = some n.2) old r := by
  induction old generalizing r with
  | nil => simp [mstepD] at h; subst h; exact .nil
  | cons kv old ih =>
    obtain ⟨k, v⟩ := kv
    simp only [mstepD] at h
    split at h
    · cases h
    · rename_i s hs
      split at h
      · cases h
      · rename_i t ht
        split at h
        · cases h
        · rename_i r' hr'
          cases h
          exact .cons ⟨rfl, s, hs, ht⟩ (ih r' hr')

/-- Key-wise (3), as a look-up: the value the result holds for a key is determined by the values of that key. -/
theorem mstepD_lookup (ej cj : α) (new old r : Dict κ α) (h : mstepD ej cj new old = .ok r) (key : κ) :
    lookup key r = (lookup key old).bind (fun v => (lookup key new).bind (convexT ej cj v)) := by
  induction old generalizing r with
  | nil => simp [mstepD] at h; subst h; rfl
  | cons kv old ih =>
    obtain ⟨k, v⟩ := kv
    simp only [mstepD] at h
    split at h
    · cases h
    · rename_i s hs
      split at h
      · cases h
      · rename_i t ht
        split at h
        · cases h
        · rename_i r' hr'
          cases h
          simp only [lookup]
          by_cases hk : k = key
          · subst hk; simp [hs, ht]
          · simp [hk, ih r' hr']

/-- Success, both directions: the update succeeds iff every kept key is present in the new statistics with a
    broadcastable shape. -/
theorem mstepD_ok_iff (ej cj : α) (new old : Dict κ α) :
    (∃ r, mstepD ej cj new old = .ok r)
      ↔ ∀ kv ∈ old, ∃ s, lookup kv.1 new = some s ∧ convexT ej cj kv.2 s ≠ none := by
  induction old with
  | nil => simp [mstepD]
  | cons kv old ih =>
    obtain ⟨k, v⟩ := kv
    simp only [List.mem_cons, forall_eq_or_imp]
    cases hs : lookup k new with
    | none => simp [mstepD, hs]
    | some s =>
      cases ht : convexT ej cj v s with
      | none => simp [mstepD, hs, ht]
      | some t =>
        cases hr : mstepD ej cj new old with
        | error err =>
          have hno : ¬ ∃ r, mstepD ej cj new old = .ok r := by simp [hr]
          simp only [mstepD, hs, ht, hr]
          constructor
          · rintro ⟨r, h⟩; cases h
          · rintro ⟨_, hall⟩; exact absurd (ih.mpr hall) hno
        | ok r' =>
          simp only [mstepD, hs, ht, hr]
          constructor
          · intro _; exact ⟨⟨s, rfl, by simp [ht]⟩, ih.mp ⟨r', hr⟩⟩
          · intro _; exact ⟨_, rfl⟩

/-- Failure, both directions and with the exact exception: the update raises `err` iff the FIRST kept key that
    cannot be updated is missing from the new statistics (`KeyError`) or has a non-broadcastable shape
    (`RuntimeError`); all kept keys before it are fine.  In particular it never raises anything else. -/
theorem mstepD_error_iff (ej cj : α) (new old : Dict κ α) (err : RunErr) :
    mstepD ej cj new old = .error err
      ↔ ∃ pre k v post, old = pre ++ (k, v) :: post
          ∧ (∀ kv ∈ pre, ∃ s, lookup kv.1 new = some s ∧ convexT ej cj kv.2 s ≠ none)
          ∧ ((err = .keyError ∧ lookup k new = none)
             ∨ (err = .runtimeError ∧ ∃ s, lookup k new = some s ∧ convexT ej cj v s = none)) := by
  induction old with
  | nil => simp [mstepD]
  | cons kv old ih =>
    obtain ⟨k, v⟩ := kv
    constructor
    · intro h
      simp only [mstepD] at h
      split at h
      · rename_i hs
        cases h
        exact ⟨[], k, v, old, rfl, by simp, Or.inl ⟨rfl, hs⟩⟩
      · rename_i s hs
        split at h
        · rename_i ht
          cases h
          exact ⟨[], k, v, old, rfl, by simp, Or.inr ⟨rfl, s, hs, ht⟩⟩
        · rename_i t ht
          split at h
          · rename_i err' hr'
            cases h
            obtain ⟨pre, k', v', post, ho, hpre, hc⟩ := ih.mp hr'
            refine ⟨(k, v) :: pre, k', v', post, by simp [ho], ?_, hc⟩
            intro kv hkv
            rcases List.mem_cons.mp hkv with h | h
            · subst h; exact ⟨s, hs, by simp [ht]⟩
            · exact hpre kv h
          · cases h
    · rintro ⟨pre, k', v', post, ho, hpre, hc⟩
      cases pre with
      | nil =>
        simp only [List.nil_append, List.cons.injEq, Prod.mk.injEq] at ho
        obtain ⟨⟨rfl, rfl⟩, rfl⟩ := ho
        rcases hc with ⟨rfl, hs⟩ | ⟨rfl, s, hs, ht⟩
        · simp [mstepD, hs]
        · simp [mstepD, hs, ht]
      | cons x pre =>
        simp only [List.cons_append, List.cons.injEq] at ho
        obtain ⟨rfl, rfl⟩ := ho
        obtain ⟨s, hs, ht⟩ := hpre (k, v) (by simp)
        have hrest := ih.mpr ⟨pre, k', v', post, rfl, fun kv h => hpre kv (by simp [h]), hc⟩
        cases ht' : convexT ej cj v s with
        | none => exact absurd ht' ht
        | some t => simp [mstepD, hs, ht', hrest]

/-- Keys that only the new statistics have are irrelevant (and their values never read): two new dictionaries
    that agree on the kept keys give the same result, error included; so does any reordering of the new one. -/
theorem mstepD_ignores_other_keys (ej cj : α) (new new' old : Dict κ α)
    (h : ∀ kv ∈ old, lookup kv.1 new' = lookup kv.1 new) :
    mstepD ej cj new' old = mstepD ej cj new old := by
  induction old with
  | nil => rfl
  | cons kv old ih =>
    obtain ⟨k, v⟩ := kv
    simp only [mstepD]
    rw [h (k, v) (by simp), ih (fun kv hkv => h kv (by simp [hkv]))]

/-- During the memory-less phase (and at the reset iteration) the kept dictionary is REPLACED by the new one —
    key set, order and shapes included — whatever was kept. -/
theorem stepD_memoryless (e c : Nat → α) (nb : Int) (k : Nat) (st : Option (Dict κ α)) (new : Dict κ α)
    (h : (k : Int) ≤ nb + 1) : stepD e c nb k st new = .ok new := by
  unfold stepD memorylessZ isBurnInZ
  by_cases h1 : (k : Int) ≤ nb
  · simp [h1]
  · have : (k : Int) = 1 + nb := by omega
    simp [this]

/-- the signed tests restricted to a non-negative count are those of Part 1 -/
theorem memorylessZ_natCast (k nb : Nat) :
    memorylessZ k (nb : Int) = memoryless k nb ∧ isBurnInZ k (nb : Int) = isBurnIn k nb
      ∧ lagZ k (nb : Int) = k - nb := by
  refine ⟨?_, ?_, ?_⟩
  · unfold memorylessZ memoryless isBurnInZ isBurnIn
    have h1 : decide ((k : Int) ≤ (nb : Int)) = decide (k ≤ nb) := by simp
    have h2 : decide ((k : Int) = 1 + (nb : Int)) = (k == 1 + nb) := by
      rw [Bool.eq_iff_iff]; simp; omega
    rw [h1, h2]
  · unfold isBurnInZ isBurnIn; simp
  · unfold lagZ; omega

private theorem stepD_first_negative {κ : Type} [DecidableEq κ] (e c : Nat → α) (nb : Int) (s : Dict κ α)
    (hnb : nb < 0) : stepD e c nb 1 none s = .error .attributeError := by
  unfold stepD memorylessZ isBurnInZ
  have h1 : decide (((1 : Nat) : Int) ≤ nb) = false := by simp; omega
  have h2 : decide (((1 : Nat) : Int) = 1 + nb) = false := by simp; omega
  simp only [h1, h2, Bool.or_false, Bool.false_eq_true, if_false]

/-- **Finding F27, run side.**  With a negative memory-less count — which the constructor accepted before 9714692
    (`negative_burn_in_accepted_counterexample`) and now refuses (`negative_burn_in_refused`); it can still be
    assigned after construction — no iteration is memory-less, so the very first one takes the convex branch on
    the `None` left by `FitAlgorithm.__init__`: every non-empty run aborts at iteration 1 with `AttributeError`,
    before any maximisation.  And that is the only way to get this exception
    (⇒ `accepted_never_attributeError`). -/
theorem runD_attributeError_iff (e c : Nat → α) (nb : Int) (ss : List (Dict κ α)) :
    (runD e c nb ss).err = some .attributeError ↔ (nb < 0 ∧ ss ≠ []) := by
  have hsome : ∀ (ss : List (Dict κ α)) (k : Nat) (S : Dict κ α),
      (runDFrom e c nb k (some S) ss).err ≠ some .attributeError := by
    intro ss
    induction ss with
    | nil => intro k S; simp [runDFrom]
    | cons s ss ih =>
      intro k S
      simp only [runDFrom]
      cases hst : stepD e c nb k (some S) s with
      | error err =>
        simp only [ne_eq, Option.some.injEq]
        intro herr; subst herr
        unfold stepD at hst
        split at hst
        · cases hst
        · have := (mstepD_error_iff (e (lagZ k nb)) (c (lagZ k nb)) s S .attributeError).mp hst
          obtain ⟨_, _, _, _, _, _, h | h⟩ := this <;> simp at h
      | ok S' => simpa using ih (k + 1) S'
  constructor
  · intro h
    cases ss with
    | nil => simp [runD, runDFrom] at h
    | cons s ss =>
      refine ⟨?_, by simp⟩
      by_contra hnb
      have hm : stepD e c nb 1 none s = .ok s := stepD_memoryless e c nb 1 none s (by omega)
      simp only [runD, runDFrom, hm] at h
      exact hsome ss 2 s h
  · rintro ⟨hnb, hne⟩
    cases ss with
    | nil => exact absurd rfl hne
    | cons s ss =>
      have := stepD_first_negative e c nb s hnb
      simp [runD, runDFrom, this]

/-- … and then nothing at all was handed to the maximisation. -/
theorem runD_negative_no_maximisation (e c : Nat → α) (nb : Int) (ss : List (Dict κ α)) (hnb : nb < 0) :
    (runD e c nb ss).calls = [] := by
  cases ss with
  | nil => simp [runD, runDFrom]
  | cons s ss =>
    have := stepD_first_negative e c nb s hnb
    simp [runD, runDFrom, this]

/-- A run either completes (as many maximisations as iterations) or stops at the first failing iteration; the
    `burn_in` flags of the maximisations performed are `k ≤ nb`. -/
theorem runD_calls (e c : Nat → α) (nb : Int) (ss : List (Dict κ α)) :
    ((runD e c nb ss).err = none → (runD e c nb ss).calls.length = ss.length)
    ∧ (runD e c nb ss).calls.length ≤ ss.length
    ∧ (runD e c nb ss).calls.map Prod.snd
        = (List.range (runD e c nb ss).calls.length).map (fun i => decide (((i + 1 : Nat) : Int) ≤ nb)) := by
  have key : ∀ (ss : List (Dict κ α)) (k : Nat) (st : Option (Dict κ α)),
      ((runDFrom e c nb k st ss).err = none → (runDFrom e c nb k st ss).calls.length = ss.length)
      ∧ (runDFrom e c nb k st ss).calls.length ≤ ss.length
      ∧ (runDFrom e c nb k st ss).calls.map Prod.snd
          = (List.range (runDFrom e c nb k st ss).calls.length).map (fun i => decide (((i + k : Nat) : Int) ≤ nb)) := by
    intro ss
    induction ss with
    | nil => intro k st; simp [runDFrom]
    | cons s ss ih =>
      intro k st
      simp only [runDFrom]
      cases hst : stepD e c nb k st s with
      | error err => simp
      | ok S =>
        obtain ⟨h1, h2, h3⟩ := ih (k + 1) (some S)
        refine ⟨fun h => by simpa using h1 h, by simpa using h2, ?_⟩
        simp only [List.map_cons, List.length_cons, List.range_succ_eq_map, List.map_map, h3]
        simp only [isBurnInZ, Function.comp_def, List.cons.injEq, Nat.zero_add, true_and, List.map_inj_left]
        intro a _
        have : a + 1 + k = a + (k + 1) := by omega
        rw [this]
  simpa [runD] using key ss 1 none

private theorem convexT_getElem? (ej cj : α) (v s t : List α) (i : Nat) (a b : α)
    (h : convexT ej cj v s = some t) (hv : v[i]? = some a) (hs : s[i]? = some b) :
    t[i]? = some (a * cj + ej * b) := by
  unfold convexT bAdd at h
  by_cases hl : v.length = s.length
  · simp only [List.length_map, hl, if_true, Option.some.injEq] at h
    subst h
    simp [List.getElem?_zipWith, hv, hs]
  · simp only [List.length_map, hl, if_false] at h
    match v, s, hv, hs, hl, h with
    | [], _, hv, _, _, _ => simp at hv
    | _, [], _, hs, _, _ => simp at hs
    | [a0], s, hv, hs, _, h =>
      have hi : i = 0 := by
        cases i with
        | zero => rfl
        | succ i => simp at hv
      subst hi
      simp only [List.getElem?_cons_zero, Option.some.injEq] at hv
      subst hv
      simp only [List.map_cons, List.map_nil, Option.some.injEq] at h
      subst h
      simp [hs]
    | a0 :: a1 :: v', [b0], hv, hs, _, h =>
      have hi : i = 0 := by
        cases i with
        | zero => rfl
        | succ i => simp at hs
      subst hi
      simp only [List.getElem?_cons_zero, Option.some.injEq] at hv hs
      subst hv; subst hs
      simp only [List.map_cons, List.map_nil, Option.some.injEq] at h
      subst h
      simp
    | a0 :: a1 :: v', b0 :: b1 :: s', _, _, hl, h => simp at h

private theorem mstepD_lookup_some {κ : Type} [DecidableEq κ] (ej cj : α) (new old r : Dict κ α)
    (h : mstepD ej cj new old = .ok r) (key : κ) (v : List α) (hv : lookup key old = some v) :
    ∃ s t, lookup key new = some s ∧ convexT ej cj v s = some t ∧ lookup key r = some t := by
  induction old generalizing r with
  | nil => simp [lookup] at hv
  | cons kv old ih =>
    obtain ⟨k, v'⟩ := kv
    simp only [mstepD] at h
    split at h
    · cases h
    · rename_i s hs
      split at h
      · cases h
      · rename_i t ht
        split at h
        · cases h
        · rename_i r' hr'
          cases h
          simp only [lookup] at hv ⊢
          by_cases hk : k = key
          · subst hk
            simp only [if_true, Option.some.injEq] at hv
            subst hv
            exact ⟨s, t, hs, ht, by simp⟩
          · simp only [hk, if_false] at hv ⊢
            exact ih r' hr' hv

/-- **Bridge to Part 1–3.**  Take any run on dictionaries of tensors that completes, a key and an entry index
    that every iteration's statistics have, with values `xs`.  Then that entry of what the maximisation receives
    follows the SCALAR schedule on `xs`, flags included — so every theorem above (memory-less phase, convex step,
    unrolled weights, running mean, forgetting, hull) holds for each entry of each key; entries and keys never
    mix.  No hypothesis on shapes or on the other keys: when broadcasting happened the entry still follows it. -/
theorem runD_entrywise {κ : Type} [DecidableEq κ] (e : Nat → α) (nb : Nat) (ss : List (Dict κ α))
    (key : κ) (i : Nat) (xs : List α)
    (hx : ss.map (fun d => entry d key i) = xs.map some)
    (hok : (runD e (fun j => 1 - e j) (nb : Int) ss).err = none) :
    (runD e (fun j => 1 - e j) (nb : Int) ss).calls.map (fun cl => (entry cl.1 key i, cl.2))
      = (run e nb xs).map (fun cl => (some cl.1, cl.2)) := by
  have key' : ∀ (ss : List (Dict κ α)) (xs : List α) (k : Nat) (st : Option (Dict κ α)) (prev : α),
      ss.map (fun d => entry d key i) = xs.map some →
      (k ≤ nb + 1 ∨ ∃ S, st = some S ∧ entry S key i = some prev) →
      (runDFrom e (fun j => 1 - e j) (nb : Int) k st ss).err = none →
      (runDFrom e (fun j => 1 - e j) (nb : Int) k st ss).calls.map (fun cl => (entry cl.1 key i, cl.2))
        = (runFrom e nb k prev xs).map (fun cl => (some cl.1, cl.2)) := by
    intro ss
    induction ss with
    | nil =>
      intro xs k st prev hx _ _
      cases xs with
      | nil => simp [runDFrom, runFrom]
      | cons _ _ => simp at hx
    | cons d ss ih =>
      intro xs k st prev hx hst hok
      cases xs with
      | nil => simp at hx
      | cons x xs =>
        simp only [List.map_cons, List.cons.injEq] at hx
        obtain ⟨hd, hx'⟩ := hx
        obtain ⟨hm, hb, hlag⟩ := memorylessZ_natCast k nb
        simp only [runDFrom] at hok ⊢
        by_cases hml : memoryless k nb = true
        · -- memory-less: the dictionary is replaced, the scalar run takes `x`
          have hstep : stepD e (fun j => 1 - e j) (nb : Int) k st d = .ok d := by
            unfold stepD; rw [hm, hml]; rfl
          rw [hstep] at hok ⊢
          simp only [runFrom, List.map_cons, hb]
          have hS : stepStats e nb k prev x = x := by unfold stepStats; rw [hml]; rfl
          rw [hS, hd]
          congr 1
          exact ih xs (k + 1) (some d) x hx' (Or.inr ⟨d, rfl, hd⟩) hok
        · have hk : ¬ (k ≤ nb + 1) := by
            intro hk
            apply hml
            unfold memoryless isBurnIn
            by_cases h1 : k ≤ nb
            · simp [h1]
            · have : k = 1 + nb := by omega
              simp [this]
          obtain ⟨S, rfl, hS⟩ := hst.resolve_left hk
          have hml' : memoryless k nb = false := by simpa using hml
          cases hstep : stepD e (fun j => 1 - e j) (nb : Int) k (some S) d with
          | error err => rw [hstep] at hok; simp at hok
          | ok r =>
            rw [hstep] at hok
            simp only at hok ⊢
            have hmd : mstepD (e (k - nb)) (1 - e (k - nb)) d S = .ok r := by
              unfold stepD at hstep
              rw [hm, hml', hlag] at hstep
              simpa using hstep
            -- the entry of the kept dictionary and of the new statistics
            obtain ⟨v, hv, hvi⟩ : ∃ v, lookup key S = some v ∧ v[i]? = some prev := by
              unfold entry at hS
              cases hl : lookup key S with
              | none => simp [hl] at hS
              | some v => exact ⟨v, rfl, by simpa [hl] using hS⟩
            obtain ⟨s, hs, hsi⟩ : ∃ s, lookup key d = some s ∧ s[i]? = some x := by
              unfold entry at hd
              cases hl : lookup key d with
              | none => simp [hl] at hd
              | some s => exact ⟨s, rfl, by simpa [hl] using hd⟩
            obtain ⟨s', t, hs', ht, hr⟩ := mstepD_lookup_some _ _ d S r hmd key v hv
            rw [hs] at hs'; cases hs'
            have hti := convexT_getElem? _ _ v s t i prev x ht hvi hsi
            have hentry : entry r key i = some (stepStats e nb k prev x) := by
              unfold entry stepStats
              rw [hr, hml']
              simpa using hti
            simp only [runFrom, List.map_cons, hb, hentry]
            congr 1
            exact ih xs (k + 1) (some r) _ hx' (Or.inr ⟨r, rfl, hentry⟩) hok
  cases xs with
  | nil =>
    cases ss with
    | nil => simp [runD, runDFrom, run]
    | cons _ _ => simp at hx
  | cons x xs =>
    simpa [runD, run] using key' ss (x :: xs) 1 none x hx (Or.inl (by omega)) hok

end Dicts

/-! ## Part 5 — the constructor: length of the memory-less phase, refusals -/

/-- Python `int()` on a non-negative value is the floor … -/
theorem truncZ_of_nonneg (x : ℚ) (h : 0 ≤ x) : truncZ x = ⌊x⌋ := by
  unfold truncZ
  rw [Rat.floor_def', Int.tdiv_eq_ediv_of_nonneg (Rat.num_nonneg.mpr h)]

/-- … it is odd (`int(-x) = -int(x)`: truncation toward zero, not floor) … -/
theorem truncZ_neg (x : ℚ) : truncZ (-x) = - truncZ x := by
  unfold truncZ
  rw [Rat.neg_num, Rat.den_neg_eq_den, Int.neg_tdiv]

/-- … hence the ceiling on a non-positive value (a negative fraction or a negative `n_iter`). -/
theorem truncZ_of_nonpos (x : ℚ) (h : x ≤ 0) : truncZ x = ⌈x⌉ := by
  have := truncZ_of_nonneg (-x) (by linarith)
  rw [truncZ_neg, Int.floor_neg] at this
  omega

/-- Rounding is never up: for a product `x ≥ 0` the length `nb` satisfies `nb ≤ x < nb + 1` (it is NOT
    `round`: `x = 2.9` gives 2). -/
theorem truncZ_bounds (x : ℚ) (h : 0 ≤ x) : 0 ≤ truncZ x ∧ (truncZ x : ℚ) ≤ x ∧ x < truncZ x + 1 := by
  rw [truncZ_of_nonneg x h]
  exact ⟨Int.floor_nonneg.mpr h, Int.floor_le x, Int.lt_floor_add_one x⟩

/-- Monotone in the product (hence in the fraction, IEEE multiplication by a non-negative `n_iter` being
    monotone), over all signs. -/
theorem truncZ_mono (x y : ℚ) (h : x ≤ y) : truncZ x ≤ truncZ y := by
  rcases le_total 0 x with hx | hx
  · rw [truncZ_of_nonneg x hx, truncZ_of_nonneg y (le_trans hx h)]
    exact Int.floor_le_floor h
  · rcases le_total 0 y with hy | hy
    · rw [truncZ_of_nonpos x hx, truncZ_of_nonneg y hy]
      have h1 : ⌈x⌉ ≤ 0 := Int.ceil_le.mpr (by simpa using hx)
      have h2 : 0 ≤ ⌊y⌋ := Int.floor_nonneg.mpr hy
      omega
    · rw [truncZ_of_nonpos x hx, truncZ_of_nonpos y hy]
      exact Int.ceil_le_ceil h

/-- an integral product is kept as it is (fractions `0` and `1`, `k/n_iter` when exact) -/
theorem truncZ_intCast (n : ℤ) : truncZ (n : ℚ) = n := by
  unfold truncZ; simp

/-- **Acceptance, both directions** (repaired constructor).  It succeeds with length `nb` iff the step power passes
    `0.5 < p ≤ 1`, `nb` is not negative, and either the count is `nb`, or there is no count and the product is
    finite with `int` = `nb`. -/
theorem ctor_accepts_iff (count : Option ℤ) (prod : Option Dbl) (pok : Bool) (nb : ℤ) :
    ctorQ count prod pok = .ok nb
      ↔ pok = true ∧ 0 ≤ nb
        ∧ (count = some nb ∨ (count = none ∧ ∃ x, prod = some (.fin x) ∧ nb = truncZ x)) := by
  unfold ctorQ nBurnQ intOfDbl
  cases count with
  | some c =>
    cases pok
    · simp
    · by_cases h : c < 0
      · simp [h]; intro h1 h2; omega
      · simp [h]; intro h1; omega
  | none =>
    cases prod with
    | none => simp
    | some d =>
      cases d with
      | nan => simp
      | inf => simp
      | fin x =>
        cases pok
        · simp
        · by_cases h : truncZ x < 0
          · simp [h]; intro h1 h2; omega
          · simp [h, eq_comm]; intro h1; omega

/-- **Every accepted configuration has a memory-less phase of non-negative length** (full strength since the
    repair of F27; before it only under the guard "count, or product, non-negative"). -/
theorem burn_length_nonneg (count : Option ℤ) (prod : Option Dbl) (pok : Bool) (nb : ℤ)
    (h : ctorQ count prod pok = .ok nb) : 0 ≤ nb :=
  ((ctor_accepts_iff count prod pok nb).mp h).2.1

/-- **Length of the memory-less phase from the fraction**: when no count is given and the double product
    `frac * n_iter` is the finite value `x`, the constructor leaves `int(x)`; for `0 ≤ x ≤ n_iter` (every fraction
    in `[0, 1]`: IEEE rounding of `frac * n_iter` cannot exceed the representable `n_iter`) the length lies in
    `[0, n_iter]`, is at most `x` and misses it by less than one iteration. -/
theorem burn_length_from_fraction (x : ℚ) (n : ℤ) (pok : Bool) (nb : ℤ) (h0 : 0 ≤ x) (hn : x ≤ n)
    (h : ctorQ none (some (.fin x)) pok = .ok nb) :
    nb = truncZ x ∧ 0 ≤ nb ∧ nb ≤ n ∧ (nb : ℚ) ≤ x ∧ x < nb + 1 := by
  have hnb : nb = truncZ x := by
    rcases ((ctor_accepts_iff _ _ _ _).mp h).2.2 with h1 | ⟨_, y, hy, hnb⟩
    · cases h1
    · simp only [Option.some.injEq, Dbl.fin.injEq] at hy
      rw [hy]; exact hnb
  obtain ⟨b0, b1, b2⟩ := truncZ_bounds x h0
  refine ⟨hnb, hnb ▸ b0, ?_, hnb ▸ b1, hnb ▸ b2⟩
  have : (nb : ℚ) ≤ n := le_trans (hnb ▸ b1) hn
  exact_mod_cast this

/-- Non-vacuity of the above, and the fractions `0`/`1`: accepted with lengths `0` and `n_iter`. -/
example : ctorQ none (some (.fin 0)) true = .ok 0 ∧ ctorQ none (some (.fin 10)) true = .ok 10
    ∧ ctorQ none (some (.fin (29 / 10))) true = .ok 2 := by decide +kernel

/-- An explicit count always wins over the fraction: whatever the fraction (even one whose product is nan or
    infinite) and `n_iter`, the derived length is the count, unchanged (an explicit `0` included: it is "given"). -/
theorem count_has_priority (c : ℤ) (prod : Option Dbl) : nBurnQ (some c) prod = .ok c := rfl

/-- the `FutureWarning` is emitted exactly when both a count and a fraction are given -/
theorem warns_iff {β : Type} (count : Option ℤ) (frac : Option β) :
    warnsDeprecated count frac = true ↔ (count ≠ none ∧ frac ≠ none) := by
  cases count <;> cases frac <;> simp [warnsDeprecated]

/-- **Refusal with the library's error, both directions**: `LeaspyAlgoInputError` iff neither count nor fraction
    is given, or a length `nb` could be derived but the step power fails `0.5 < p ≤ 1` or `nb < 0`. -/
theorem ctor_algoInput_iff (count : Option ℤ) (prod : Option Dbl) (pok : Bool) :
    ctorQ count prod pok = .error .algoInput
      ↔ (count = none ∧ prod = none)
        ∨ (∃ nb, nBurnQ count prod = .ok nb ∧ (pok = false ∨ nb < 0)) := by
  unfold ctorQ
  cases hn : nBurnQ count prod with
  | error err =>
    unfold nBurnQ intOfDbl at hn
    cases count with
    | some c => simp at hn
    | none =>
      cases prod with
      | none => simp at hn; subst hn; simp
      | some d =>
        cases d with
        | nan => simp at hn; subst hn; simp
        | inf => simp at hn; subst hn; simp
        | fin x => simp at hn
  | ok nb =>
    have hne : ¬ (count = none ∧ prod = none) := by
      rintro ⟨rfl, rfl⟩; simp [nBurnQ] at hn
    cases pok
    · simp
    · by_cases h : nb < 0
      · simp [h]
      · simp [h, hne]

/-- **The other two exits, both directions**: a raw `ValueError` (resp. `OverflowError`) iff there is no count and
    the product is nan (resp. ±inf) — whatever the step power, which is tested later. -/
theorem ctor_raw_error_iff (count : Option ℤ) (prod : Option Dbl) (pok : Bool) :
    (ctorQ count prod pok = .error .valueError ↔ (count = none ∧ prod = some .nan))
    ∧ (ctorQ count prod pok = .error .overflowError ↔ (count = none ∧ prod = some .inf)) := by
  unfold ctorQ nBurnQ intOfDbl
  cases count with
  | some c => cases pok <;> by_cases h : c < 0 <;> simp [h]
  | none =>
    cases prod with
    | none => simp
    | some d =>
      cases d with
      | nan => simp
      | inf => simp
      | fin x => cases pok <;> by_cases h : truncZ x < 0 <;> simp [h]

/-- **Finding F27 (fixed in 9714692), the old rule refuted.**  The constructor as it was (`ctorQOld`) violated
    "every accepted configuration has a memory-less phase of non-negative length": fraction `-0.55`, `n_iter = 10`,
    power fine — accepted with length `-5` (`int(-5.5)`), the explicit count `-3` likewise, and the run then aborts
    at its first iteration (`runD_attributeError_iff`). -/
theorem negative_burn_in_accepted_counterexample :
    ctorQOld none (some (.fin (-11 / 2))) true = .ok (-5) ∧ ctorQOld (some (-3)) none true = .ok (-3)
    ∧ (runD (fun j => (1 : ℚ) / j) (fun j => 1 - (1 : ℚ) / j) (-5) [[("a", [1])]]).err = some .attributeError := by
  refine ⟨by decide +kernel, by decide +kernel, by decide +kernel⟩

/-- **F27, the repaired rule**: whenever the derived or explicit length is negative the constructor now refuses with
    the library's error, whatever the power; the two witnesses above are refused. -/
theorem negative_burn_in_refused (count : Option ℤ) (prod : Option Dbl) (pok : Bool) (nb : ℤ)
    (h : nBurnQ count prod = .ok nb) (hneg : nb < 0) : ctorQ count prod pok = .error .algoInput :=
  (ctor_algoInput_iff count prod pok).mpr (Or.inr ⟨nb, h, Or.inr hneg⟩)

example : ctorQ none (some (.fin (-11 / 2))) true = .error .algoInput
    ∧ ctorQ (some (-3)) none true = .error .algoInput := by decide +kernel

/-- The repair changes nothing else: on every configuration the old constructor accepted with a non-negative
    length the two agree, and every other outcome of the old constructor (all its refusals) is unchanged. -/
theorem ctor_repair_conservative (count : Option ℤ) (prod : Option Dbl) (pok : Bool) :
    (∀ nb, ctorQOld count prod pok = .ok nb → 0 ≤ nb → ctorQ count prod pok = .ok nb)
    ∧ (∀ err, ctorQOld count prod pok = .error err → ctorQ count prod pok = .error err) := by
  unfold ctorQ ctorQOld
  cases hn : nBurnQ count prod with
  | error err => simp
  | ok nb =>
    cases pok
    · simp
    · constructor
      · intro nb' h h0
        simp only [if_true, Except.ok.injEq] at h
        subst h
        have : ¬ nb < 0 := by omega
        simp [this]
      · intro err h; simp at h

/-- **An accepted configuration never aborts with `AttributeError`**: run with the length the repaired constructor
    left, on any statistics (dictionaries of tensors of any keys and shapes), any steps.  (`KeyError` /
    `RuntimeError` remain possible, exactly as `mstepD_error_iff` says.) -/
theorem accepted_never_attributeError {κ : Type} [DecidableEq κ] (count : Option ℤ) (prod : Option Dbl) (pok : Bool)
    (nb : ℤ) (h : ctorQ count prod pok = .ok nb) (e c : Nat → α) (ss : List (Dict κ α)) :
    (runD e c nb ss).err ≠ some .attributeError := by
  intro habs
  have := ((runD_attributeError_iff e c nb ss).mp habs).1
  have := burn_length_nonneg count prod pok nb h
  omega

/-! ## Non-vacuity and observations (concrete instances, decided by the kernel) -/

/-- weights for nb = 1, power 1, iterations 1 … 4: the running mean over iterations 2 … k -/
example : (List.range 4).map (fun k => (List.range 4).map (fun j =>
      weight (fun j => (1 : ℚ) / j) (fun j => 1 - (1 : ℚ) / j) 1 (k + 1) (j + 1)))
    = [[1, 0, 0, 0], [0, 1, 0, 0], [0, 1/2, 1/2, 0], [0, 1/3, 1/3, 1/3]] := by decide +kernel

/-- the unrolled form on a concrete run (steps 1/j², nb = 1) -/
example : ((run (fun j => (1 : ℚ) / (j * j)) 1 [5, 1, 2, 3]).map Prod.fst)[3]?
    = some (unrolled (fun j => (1 : ℚ) / (j * j)) (fun j => 1 - (1 : ℚ) / (j * j)) 1 4 [5, 1, 2, 3]) := by
  decide +kernel

/-- Observation (double rounding): the fraction 0.29 of 100 iterations is 28, not 29 — the double product
    `0.29 * 100` is `28.999999999999996…` (exact value below) and `int` truncates. -/
example : truncZ (8162774324609023 / 281474976710656) = 28 ∧ truncZ ((29 : ℚ) / 100 * 100) = 29 := by
  decide +kernel

/-- a key only the new statistics have is dropped; a kept key missing from them is a `KeyError`; a length-1
    tensor is broadcast silently; incompatible lengths are a `RuntimeError` -/
example : (runD (fun j => (1 : ℚ) / j) (fun j => 1 - (1 : ℚ) / j) 1
      [[("a", [1, 2])], [("a", [3, 4])], [("b", [9]), ("a", [5, 8])], [("a", [7])]]).calls.map Prod.fst
    = [[("a", [1, 2])], [("a", [3, 4])], [("a", [4, 6])], [("a", [5, 19/3])]] := by decide +kernel
example : (runD (fun j => (1 : ℚ) / j) (fun j => 1 - (1 : ℚ) / j) 0 [[("a", [1]), ("b", [2])], [("a", [3])]]).err
    = some .keyError := by decide +kernel
example : (runD (fun j => (1 : ℚ) / j) (fun j => 1 - (1 : ℚ) / j) 0 [[("a", [1, 2])], [("a", [3, 4, 5])]]).err
    = some .runtimeError := by decide +kernel

/-- the hypotheses of `runD_entrywise` are satisfiable: two keys, entry 1 of key "b" -/
example : [[("a", [1]), ("b", [2, 3])], [("b", [4, 5]), ("a", [6])]].map (fun d => entry d "b" 1)
    = ([3, 5] : List ℚ).map some
    ∧ (runD (fun j => (1 : ℚ) / j) (fun j => 1 - (1 : ℚ) / j) ((0 : ℕ) : ℤ)
        [[("a", [1]), ("b", [2, 3])], [("b", [4, 5]), ("a", [6])]]).err = none := by decide +kernel

/-- Non-vacuity: a concrete run (nb = 2, five iterations) — the flags and the memory-less
    prefix are as stated. -/
example : (run (fun j => (1 : ℚ) / j) 2 [1, 2, 3, 4, 5]).map Prod.snd = [true, true, false, false, false] := by
  decide +kernel

end LeaspyVerif.C05
