/-
C05 — sufficient statistics follow the stochastic-approximation schedule.
Property theorems only (helper lemmas are private).  Model: `Model/Saem.lean`.
-/
import LeaspyVerif.Model.Saem
import Mathlib.Analysis.SpecialFunctions.Pow.Real
import Mathlib.Analysis.PSeries
import Mathlib.Tactic.Ring
import Mathlib.Tactic.Linarith

namespace LeaspyVerif.C05
open LeaspyVerif.Saem

set_option linter.unusedSectionVars false
variable {α : Type} [Field α] [LinearOrder α] [IsStrictOrderedRing α]

/-- Memory-less phase: up to and including iteration `nb+1` the statistics used are exactly the
    current ones, whatever was kept before and whatever the step sizes are. -/
theorem stats_memoryless (e : Nat → α) (nb k : Nat) (prev s : α) (h : k ≤ nb + 1) :
    stepStats e nb k prev s = s := by
  unfold stepStats memoryless isBurnIn
  have : (decide (k ≤ nb) || k == 1 + nb) = true := by
    rcases Nat.lt_or_ge k (nb + 1) with h1 | h1
    · have : k ≤ nb := by omega
      simp [this]
    · have : k = 1 + nb := by omega
      simp [this]
  simp [this]

/-- From the second iteration after the memory-less phase: the convex update with step
    `e (k - nb)`. -/
theorem stats_convex (e : Nat → α) (nb k : Nat) (prev s : α) (h : nb + 2 ≤ k) :
    stepStats e nb k prev s = (1 - e (k - nb)) * prev + e (k - nb) * s := by
  unfold stepStats memoryless isBurnIn
  have h1 : ¬ k ≤ nb := by omega
  have h2 : (k == 1 + nb) = false := by
    simp; omega
  simp [h1, h2]; ring

/-- The maximisation is told `burn_in = true` exactly for iterations `k ≤ nb`, and a run over `n`
    statistics performs exactly `n` maximisations. -/
theorem run_flags (e : Nat → α) (nb : Nat) (ss : List α) :
    (run e nb ss).map Prod.snd = (List.range ss.length).map (fun i => decide (i + 1 ≤ nb)) := by
  have key : ∀ (ss : List α) (k : Nat) (prev : α),
      (runFrom e nb k prev ss).map Prod.snd
        = (List.range ss.length).map (fun i => decide (i + k ≤ nb)) := by
    intro ss
    induction ss with
    | nil => intro k prev; simp [runFrom]
    | cons s ss ih =>
      intro k prev
      simp only [runFrom, List.map_cons, List.length_cons, List.range_succ_eq_map, List.map_map]
      rw [ih]
      simp [isBurnIn, Function.comp_def, Nat.add_assoc, Nat.add_comm 1 k]
  cases ss with
  | nil => simp [run]
  | cons s ss => simpa [run] using key (s :: ss) 1 s

theorem run_length (e : Nat → α) (nb : Nat) (ss : List α) : (run e nb ss).length = ss.length := by
  have key : ∀ (ss : List α) (k : Nat) (prev : α), (runFrom e nb k prev ss).length = ss.length := by
    intro ss; induction ss with
    | nil => intro k prev; simp [runFrom]
    | cons s ss ih => intro k prev; simp [runFrom, ih]
  cases ss with
  | nil => simp [run]
  | cons s ss => simpa [run] using key (s :: ss) 1 s

/-- Nothing from the memory-less phase survives: if two sequences of per-iteration statistics
    agree from iteration `nb+1` on, the statistics used for maximisation agree from iteration
    `nb+1` on (and during the memory-less phase each run uses its own current statistics). -/
theorem stats_forget_burnin (e : Nat → α) (nb : Nat) (ss ss' : List α)
    (hlen : ss.length = ss'.length) (hagree : ss.drop nb = ss'.drop nb) :
    ((run e nb ss).drop nb).map Prod.fst = ((run e nb ss').drop nb).map Prod.fst := by
  -- generalised over the starting iteration k = nb + 1 - d and arbitrary kept statistics
  have key : ∀ (d : Nat) (ss ss' : List α) (k : Nat) (prev prev' : α),
      k + d = nb + 1 → ss.length = ss'.length → ss.drop d = ss'.drop d →
      ((runFrom e nb k prev ss).drop d).map Prod.fst
        = ((runFrom e nb k prev' ss').drop d).map Prod.fst := by
    intro d
    induction d with
    | zero =>
      -- k = nb + 1 : memory reset, so what was kept before is irrelevant
      intro ss ss' k prev prev' hk _ hag
      simp only [List.drop_zero] at hag ⊢
      subst hag
      cases ss with
      | nil => simp [runFrom]
      | cons s ss =>
        have hk' : k ≤ nb + 1 := by omega
        simp only [runFrom, stats_memoryless e nb k _ s hk']
    | succ d ih =>
      intro ss ss' k prev prev' hk hl hag
      cases ss with
      | nil =>
        cases ss' with
        | nil => simp [runFrom]
        | cons _ _ => simp at hl
      | cons s ss =>
        cases ss' with
        | nil => simp at hl
        | cons s' ss' =>
          simp only [List.drop_succ_cons, runFrom] at hag ⊢
          exact ih ss ss' (k + 1) _ _ (by omega) (by simpa using hl) hag
  cases ss with
  | nil =>
    cases ss' with
    | nil => rfl
    | cons _ _ => simp at hlen
  | cons s ss =>
    cases ss' with
    | nil => simp at hlen
    | cons s' ss' =>
      have := key nb (s :: ss) (s' :: ss') 1 s s' (by omega) hlen hagree
      simpa [run] using this

/-- Convexity: with step sizes in `[0,1]`, if the kept statistic and the current one lie in
    `[lo, hi]` so does the new one — the update is a convex combination. -/
theorem stats_in_hull (e : Nat → α) (nb k : Nat) (prev s lo hi : α)
    (he : ∀ j, 0 ≤ e j ∧ e j ≤ 1)
    (hp : lo ≤ prev ∧ prev ≤ hi) (hs : lo ≤ s ∧ s ≤ hi) :
    lo ≤ stepStats e nb k prev s ∧ stepStats e nb k prev s ≤ hi := by
  unfold stepStats
  split
  · exact hs
  · obtain ⟨h0, h1⟩ := he (k - nb)
    have h1' : 0 ≤ 1 - e (k - nb) := by linarith
    constructor
    · have a := mul_le_mul_of_nonneg_right hp.1 h1'
      have b := mul_le_mul_of_nonneg_left hs.1 h0
      nlinarith
    · have a := mul_le_mul_of_nonneg_right hp.2 h1'
      have b := mul_le_mul_of_nonneg_left hs.2 h0
      nlinarith

/-- The documented step size `e_j = j^(-p)` lies in `(0, 1]` for every `j ≥ 1` and `p ≥ 0`
    (so the update above is a genuine convex combination). -/
theorem step_size_in_unit (j : Nat) (p : ℝ) (hj : 1 ≤ j) (hp : 0 ≤ p) :
    0 < (j : ℝ) ^ (-p) ∧ (j : ℝ) ^ (-p) ≤ 1 := by
  have hj' : (1 : ℝ) ≤ j := by exact_mod_cast hj
  constructor
  · exact Real.rpow_pos_of_pos (by linarith) _
  · exact Real.rpow_le_one_of_one_le_of_nonpos hj' (by linarith)

/-- Why the constructor refuses powers outside `(1/2, 1]`: exactly on that interval (for p > 0)
    the Robbins–Monro conditions hold — the steps are not summable but their squares are. -/
theorem robbins_monro_iff (p : ℝ) :
    (¬ Summable (fun n : ℕ => ((n : ℝ) ^ p)⁻¹) ∧ Summable (fun n : ℕ => (((n : ℝ) ^ p)⁻¹) ^ 2))
      ↔ (1 / 2 < p ∧ p ≤ 1) := by
  have h2 : (fun n : ℕ => (((n : ℝ) ^ p)⁻¹) ^ 2) = (fun n : ℕ => ((n : ℝ) ^ (2 * p))⁻¹) := by
    funext n
    rw [inv_pow, ← Real.rpow_natCast, ← Real.rpow_mul (Nat.cast_nonneg n)]
    congr 2
    push_cast; ring
  rw [h2, Real.summable_nat_rpow_inv, Real.summable_nat_rpow_inv]
  constructor
  · rintro ⟨a, b⟩; constructor <;> linarith
  · rintro ⟨a, b⟩; constructor <;> [linarith; linarith]

/-- Non-vacuity: a concrete run (nb = 2, five iterations) — the flags and the memory-less
    prefix are as stated. -/
example : (run (fun j => (1 : ℚ) / j) 2 [1, 2, 3, 4, 5]).map Prod.snd = [true, true, false, false, false] := by
  decide +kernel

end LeaspyVerif.C05
