/-
C10 — re-centring is a pure gauge change; space shifts are orthogonal to progression.
Property theorems only (helper lemmas are private).  Models: `Model/Gauge.lean` (centring, gauge shifts,
collected statistics, Householder basis and its Gram matrices, mixing matrix, space shifts), `Model/Traj.lean`
(the formulas the gauge acts on), `Model/MStep.lean` (C04's `indMean` / `indVar` / `indVarBurnIn`: the update rules
fed by the centred statistics), `Model/Dist.lean` (C08's `normalNll`: the regularity term of `xi`).

Gauge-INVARIANT (proved): `v0·alpha`, `v0·rt`, every logistic / linear model value, whole trajectories, any
attachment computed from them, the reparametrised Weibull scale (± sources), the burn-in `xi_std` (`torch.std`),
the centred representative itself (`center ∘ shift c = center`).
NOT gauge-invariant (proved, with the exact change): `xi`, `log_v0`, `n_log_nu` (move by `∓m`), `Σξ²`
(`− n·m²`), `nll_regul_xi` (`+ n·m·(2μ − m)/(2σ²)`, i.e. `− n·m²/(2σ²)` for the models' `xi_mean = 0`), hence
`nll_regul_ind_sum` and `nll_tot`.

Exact arithmetic over an ordered field / the reals; floating-point rounding is not modelled.
-/
import LeaspyVerif.Model.Traj
import LeaspyVerif.Model.Gauge
import LeaspyVerif.Model.MStep
import LeaspyVerif.Model.Dist
import LeaspyVerif.Lemmas.TrajReal
import Mathlib.Analysis.SpecialFunctions.Exp
import Mathlib.Analysis.SpecialFunctions.Log.Basic
import Mathlib.Analysis.Real.Sqrt
import Mathlib.Tactic.Ring
import Mathlib.Tactic.Linarith
import Mathlib.Tactic.Positivity
import Mathlib.Tactic.FieldSimp
import Mathlib.Tactic.NormNum
import Mathlib.LinearAlgebra.Matrix.Rank

namespace LeaspyVerif.C10
open LeaspyVerif.Traj LeaspyVerif.TrajReal LeaspyVerif.Gauge

set_option linter.unusedSectionVars false

/-! ## Re-centring -/

section Center
variable {K : Type} [Field K] [LinearOrder K] [IsStrictOrderedRing K]

private theorem natLit_eq_cast (n : Nat) : (natLit n : K) = (n : K) := by
  induction n with
  | zero => simp [natLit]
  | succ n ih => simp [natLit, ih]

private theorem sum_map_sub (l : List K) (m : K) :
    Gauge.sum (l.map (· - m)) = Gauge.sum l - (l.length : K) * m := by
  induction l with
  | nil => simp [Gauge.sum]
  | cons x xs ih =>
    have h1 : Gauge.sum ((x :: xs).map (· - m)) = (x - m) + Gauge.sum (xs.map (· - m)) := rfl
    have h2 : Gauge.sum (x :: xs) = x + Gauge.sum xs := rfl
    rw [h1, h2, ih, List.length_cons]
    push_cast
    ring

/-- After the re-centring the log-accelerations have mean zero (non-empty cohort; on an empty one
    `torch.mean` is `nan`). -/
theorem center_mean_zero (xi logV0 : List K) (hne : xi ≠ []) :
    mean (center xi logV0).1 = 0 := by
  have hn : (xi.length : K) ≠ 0 := by
    have : xi.length ≠ 0 := by
      intro h; exact hne (List.length_eq_zero_iff.mp h)
    exact_mod_cast this
  show mean (xi.map (· - mean xi)) = 0
  unfold mean
  rw [sum_map_sub, List.length_map, natLit_eq_cast]
  field_simp
  ring

/-- the joint model's centring acts on `xi` and `log_v0` exactly as the manifold model's, and adds
    the same constant to `n_log_nu` -/
theorem centerJoint_components (xi logV0 nLogNu : List K) :
    (centerJoint xi logV0 nLogNu).1 = (center xi logV0).1 ∧
    (centerJoint xi logV0 nLogNu).2.1 = (center xi logV0).2 ∧
    (centerJoint xi logV0 nLogNu).2.2 = nLogNu.map (· + mean xi) :=
  ⟨rfl, rfl, rfl⟩

/-- … hence the joint centring also yields mean zero -/
theorem centerJoint_mean_zero (xi logV0 nLogNu : List K) (hne : xi ≠ []) :
    mean (centerJoint xi logV0 nLogNu).1 = 0 :=
  center_mean_zero xi logV0 hne

/-! ### the gauge group: idempotence, orbits, transitivity on the fibre -/

private theorem length_cast_ne_zero {l : List K} (hne : l ≠ []) : (l.length : K) ≠ 0 := by
  have : l.length ≠ 0 := fun h => hne (List.length_eq_zero_iff.mp h)
  exact_mod_cast this

private theorem sum_eq_length_mul_mean (l : List K) (hne : l ≠ []) :
    Gauge.sum l = (l.length : K) * mean l := by
  unfold mean
  rw [natLit_eq_cast]
  have := length_cast_ne_zero hne
  field_simp

private theorem mean_map_sub (l : List K) (c : K) (hne : l ≠ []) : mean (l.map (· - c)) = mean l - c := by
  have hn := length_cast_ne_zero (K := K) hne
  unfold mean
  rw [sum_map_sub, List.length_map, natLit_eq_cast]
  field_simp

/-- the centring is the gauge shift by the cohort mean (by definition) -/
theorem center_eq_shift (xi logV0 : List K) : center xi logV0 = shift (mean xi) xi logV0 := rfl

/-- the gauge shifts form a group action: `shift 0 = id`, `shift d ∘ shift c = shift (c + d)` -/
theorem shift_group (c d : K) (xi logV0 : List K) :
    shift 0 xi logV0 = (xi, logV0) ∧
    shift d (shift c xi logV0).1 (shift c xi logV0).2 = shift (c + d) xi logV0 := by
  constructor
  · simp [shift]
  · simp only [shift, List.map_map]
    refine Prod.ext ?_ ?_
    · apply List.map_congr_left; intro x _; simp only [Function.comp]; ring
    · apply List.map_congr_left; intro x _; simp only [Function.comp]; ring

/-- a cohort whose `xi` already has mean zero is left untouched: the centring is the identity there -/
theorem center_of_mean_zero (xi logV0 : List K) (h : mean xi = 0) : center xi logV0 = (xi, logV0) := by
  show (xi.map (· - mean xi), logV0.map (· + mean xi)) = _
  rw [h]; simp

/-- **Idempotence:** centring twice = centring once. -/
theorem center_idempotent (xi logV0 : List K) (hne : xi ≠ []) :
    center (center xi logV0).1 (center xi logV0).2 = center xi logV0 :=
  center_of_mean_zero _ _ (center_mean_zero xi logV0 hne)

/-- **The centring is constant on gauge orbits:** moving all `xi` by a constant together with the
    compensating change of `log_v0` and then centring gives the same state as centring directly. -/
theorem center_shift (c : K) (xi logV0 : List K) (hne : xi ≠ []) :
    center (shift c xi logV0).1 (shift c xi logV0).2 = center xi logV0 := by
  rw [center_eq_shift, center_eq_shift]
  show shift (mean (xi.map (· - c))) (shift c xi logV0).1 (shift c xi logV0).2 = _
  rw [mean_map_sub xi c hne, (shift_group c (mean xi - c) xi logV0).2]
  congr 1; ring

/-- every state is recovered from its centred representative by the shift `-mean(xi)` -/
theorem shift_neg_mean_center (xi logV0 : List K) :
    shift (-(mean xi)) (center xi logV0).1 (center xi logV0).2 = (xi, logV0) := by
  rw [center_eq_shift, (shift_group (mean xi) (-(mean xi)) xi logV0).2, add_neg_cancel]
  exact (shift_group 0 0 xi logV0).1

/-- **Transitivity on the fibre:** two states are related by a gauge shift iff they have the same
    centred representative — the centred state is a complete invariant of the orbit, and the orbit of
    the centred state is the whole fibre. -/
theorem gauge_fibre_iff (xi xi' logV0 logV0' : List K) (hne : xi ≠ []) :
    (∃ c, (xi', logV0') = shift c xi logV0) ↔ center xi' logV0' = center xi logV0 := by
  constructor
  · rintro ⟨c, h⟩
    have h1 : xi' = (shift c xi logV0).1 := congrArg Prod.fst h
    have h2 : logV0' = (shift c xi logV0).2 := congrArg Prod.snd h
    rw [h1, h2]
    exact center_shift c xi logV0 hne
  · intro h
    refine ⟨mean xi + -(mean xi'), ?_⟩
    rw [← shift_neg_mean_center xi' logV0', h, center_eq_shift,
      (shift_group (mean xi) (-(mean xi')) xi logV0).2]

/-- joint model: mean already zero ⇒ identity; hence idempotent -/
theorem centerJoint_idempotent (xi logV0 nLogNu : List K) (hne : xi ≠ []) :
    centerJoint (centerJoint xi logV0 nLogNu).1 (centerJoint xi logV0 nLogNu).2.1
      (centerJoint xi logV0 nLogNu).2.2 = centerJoint xi logV0 nLogNu := by
  have h0 : mean (centerJoint xi logV0 nLogNu).1 = 0 := centerJoint_mean_zero xi logV0 nLogNu hne
  show ((centerJoint xi logV0 nLogNu).1.map (· - mean (centerJoint xi logV0 nLogNu).1),
        (centerJoint xi logV0 nLogNu).2.1.map (· + mean (centerJoint xi logV0 nLogNu).1),
        (centerJoint xi logV0 nLogNu).2.2.map (· + mean (centerJoint xi logV0 nLogNu).1)) = _
  rw [h0]; simp

/-- joint model: the centring is constant on the orbits of the three-component gauge shift -/
theorem centerJoint_shiftJoint (c : K) (xi logV0 nLogNu : List K) (hne : xi ≠ []) :
    centerJoint (shiftJoint c xi logV0 nLogNu).1 (shiftJoint c xi logV0 nLogNu).2.1
      (shiftJoint c xi logV0 nLogNu).2.2 = centerJoint xi logV0 nLogNu := by
  show ((xi.map (· - c)).map (· - mean (xi.map (· - c))),
        (logV0.map (· + c)).map (· + mean (xi.map (· - c))),
        (nLogNu.map (· + c)).map (· + mean (xi.map (· - c))))
      = (xi.map (· - mean xi), logV0.map (· + mean xi), nLogNu.map (· + mean xi))
  rw [mean_map_sub xi c hne]
  simp only [List.map_map]
  refine Prod.ext ?_ (Prod.ext ?_ ?_)
  · apply List.map_congr_left; intro x _; simp only [Function.comp]; ring
  · apply List.map_congr_left; intro x _; simp only [Function.comp]; ring
  · apply List.map_congr_left; intro x _; simp only [Function.comp]; ring

/-! ### the sufficient statistics collected after the centring -/

private theorem sum_sqr_map_sub (l : List K) (m : K) :
    Gauge.sum (sqr (l.map (· - m)))
      = Gauge.sum (sqr l) - 2 * m * Gauge.sum l + (l.length : K) * (m * m) := by
  induction l with
  | nil => simp [Gauge.sum, sqr]
  | cons x xs ih =>
    have h1 : Gauge.sum (sqr ((x :: xs).map (· - m))) = (x - m) * (x - m) + Gauge.sum (sqr (xs.map (· - m))) := rfl
    have h2 : Gauge.sum (sqr (x :: xs)) = x * x + Gauge.sum (sqr xs) := rfl
    have h3 : Gauge.sum (x :: xs) = x + Gauge.sum xs := rfl
    rw [h1, h2, h3, ih, List.length_cons]
    push_cast
    ring

/-- **`Σ ξ' = 0` and `Σ ξ'² = Σ ξ² − n·m²`** (variance decomposition) for the statistics `xi`, `xi_sqr`
    that `compute_sufficient_statistics` collects after `_center_xi_realizations`; `m = mean(ξ)`. -/
theorem suffXi_sums (xi logV0 : List K) (hne : xi ≠ []) :
    Gauge.sum (suffXi xi logV0).1 = 0 ∧
    Gauge.sum (suffXi xi logV0).2 = Gauge.sum (sqr xi) - (xi.length : K) * (mean xi * mean xi) := by
  constructor
  · show Gauge.sum (xi.map (· - mean xi)) = 0
    rw [sum_map_sub, sum_eq_length_mul_mean xi hne]; ring
  · show Gauge.sum (sqr (xi.map (· - mean xi))) = _
    rw [sum_sqr_map_sub, sum_eq_length_mul_mean xi hne]; ring

private theorem gsum_eq (l : List K) : Gauge.sum l = MStep.sum l := by
  induction l with
  | nil => rfl
  | cons x xs ih =>
    show x + Gauge.sum xs = x + MStep.sum xs
    rw [ih]

private theorem gmean_eq (l : List K) : Gauge.mean l = MStep.mean l := by
  unfold Gauge.mean MStep.mean
  rw [gsum_eq, natLit_eq_cast]

/-- **The `xi_mean` the M-step would compute from the centred statistics is exactly 0**
    (`ModelParameter.for_ind_mean` = `MStep.indMean`) — consistent with `xi_mean = Hyperparameter(0.0)`
    in `RiemanianManifoldModel.get_variables_specs`: the centring is what makes the fixed value exact. -/
theorem xi_mean_update_after_center (xi logV0 : List K) (hne : xi ≠ []) :
    MStep.indMean (suffXi xi logV0).1 = 0 := by
  unfold MStep.indMean
  rw [← gmean_eq]
  exact center_mean_zero xi logV0 hne

/-- **`xi_std²` from the centred statistics** (`for_ind_std` = `MStep.indVar` with old mean `xi_mean = 0`):
    it is `mean(ξ²) − m²` — the dispersion of the *uncentred* `ξ` around its own mean `m`, which is what
    `indVar m` would give on the uncentred statistics, and the mean square of the centred `ξ'` around 0. -/
theorem xi_var_update_after_center (xi logV0 : List K) (hne : xi ≠ []) :
    MStep.indVar 0 (suffXi xi logV0).1 (suffXi xi logV0).2
        = MStep.mean (sqr xi) - mean xi * mean xi ∧
    MStep.indVar 0 (suffXi xi logV0).1 (suffXi xi logV0).2
        = MStep.indVar (mean xi) xi (sqr xi) ∧
    MStep.indVar 0 (suffXi xi logV0).1 (suffXi xi logV0).2
        = MStep.mean ((suffXi xi logV0).1.map fun x => (x - 0) * (x - 0)) := by
  have hn := length_cast_ne_zero (K := K) hne
  obtain ⟨_, h2⟩ := suffXi_sums xi logV0 hne
  have hlen : (suffXi xi logV0).2.length = xi.length := by simp [suffXi, sqr, center]
  have hmsq : MStep.mean (suffXi xi logV0).2 = MStep.mean (sqr xi) - mean xi * mean xi := by
    unfold MStep.mean
    rw [← gsum_eq, ← gsum_eq, h2, hlen]
    have : (sqr xi).length = xi.length := by simp [sqr]
    rw [this]
    field_simp
  have hvar : MStep.indVar 0 (suffXi xi logV0).1 (suffXi xi logV0).2
      = MStep.mean (sqr xi) - mean xi * mean xi := by
    unfold MStep.indVar
    rw [hmsq]; ring
  refine ⟨hvar, ?_, ?_⟩
  · rw [hvar]
    unfold MStep.indVar
    rw [← gmean_eq xi]; ring
  · unfold MStep.indVar
    have : ((suffXi xi logV0).1.map fun x => (x - 0) * (x - 0)) = (suffXi xi logV0).2 := by
      show ((center xi logV0).1.map fun x => (x - 0) * (x - 0)) = sqr (center xi logV0).1
      unfold sqr
      apply List.map_congr_left; intro x _; ring
    rw [this]; ring

/-- the burn-in rule (`torch.std`, dispersion around the cohort's own mean) does not see the gauge -/
theorem xi_std_burnin_gauge_invariant (xi logV0 : List K) (hne : xi ≠ []) :
    MStep.indVarBurnIn (center xi logV0).1 = MStep.indVarBurnIn xi := by
  have h0 : MStep.mean (center xi logV0).1 = 0 := by
    rw [← gmean_eq]; exact center_mean_zero xi logV0 hne
  unfold MStep.indVarBurnIn
  simp only [h0]
  have hl : (center xi logV0).1.length = xi.length := by simp [center]
  rw [hl]
  congr 2
  show (xi.map (· - mean xi)).map (fun x => (x - 0) * (x - 0)) = xi.map fun x => (x - MStep.mean xi) * (x - MStep.mean xi)
  rw [List.map_map, ← gmean_eq]
  apply List.map_congr_left; intro x _; simp only [Function.comp]; ring

end Center

/-- The gauge identity: shifting `log_v0` up and `xi` down by the same constant leaves
    `v0 * alpha` unchanged. -/
theorem center_preserves_v0alpha (lv xi m : ℝ) :
    (ExpLog.exp (lv + m) : ℝ) * alpha (xi - m) = ExpLog.exp lv * alpha xi := by
  unfold alpha
  simp only [exp_eq]
  rw [← Real.exp_add, ← Real.exp_add]
  congr 1
  ring

/-- … hence `v0 * rt` is unchanged at every age -/
theorem center_preserves_v0rt (lv xi m t tau : ℝ) :
    (ExpLog.exp (lv + m) : ℝ) * rt (alpha (xi - m)) t tau = ExpLog.exp lv * rt (alpha xi) t tau := by
  unfold rt
  rw [← mul_assoc, center_preserves_v0alpha, mul_assoc]

/-- … hence every logistic model value is unchanged (metric and `g` are not touched) -/
theorem center_preserves_logistic (metric g lv xi m t tau w : ℝ) :
    logisticVal metric (ExpLog.exp (lv + m)) g (rt (alpha (xi - m)) t tau) w
      = logisticVal metric (ExpLog.exp lv) g (rt (alpha xi) t tau) w := by
  unfold logisticVal
  rw [center_preserves_v0rt]

/-- … and every linear model value -/
theorem center_preserves_linear (g lv xi m t tau w : ℝ) :
    linearVal g (ExpLog.exp (lv + m)) (rt (alpha (xi - m)) t tau) w
      = linearVal g (ExpLog.exp lv) (rt (alpha xi) t tau) w := by
  unfold linearVal
  rw [center_preserves_v0rt]

private theorem zip3With?_map_mid {α β γ δ : Type} (f : α → β → γ → δ) (h : β → β) :
    ∀ (as : List α) (bs : List β) (cs : List γ),
      zip3With? f as (bs.map h) cs = zip3With? (fun a b c => f a (h b) c) as bs cs := by
  intro as
  induction as with
  | nil => intro bs cs; cases bs <;> cases cs <;> simp [zip3With?]
  | cons a as ih =>
    intro bs cs
    cases bs with
    | nil => cases cs <;> simp [zip3With?]
    | cons b bs =>
      cases cs with
      | nil => simp [zip3With?]
      | cons c cs => simp [zip3With?, ih]

/-- Whole trajectories, as computed by the code from the state *after* `_center_xi_realizations`
    (`center` applied to the whole cohort's `xi` and to `log_v0`): for every individual — whatever its
    `xi`, `tau`, space shift and ages — the logistic trajectory is the one before the centring. -/
theorem center_preserves_logisticTraj (xis logG logV0 w : List ℝ) (xi tau : ℝ) (ages : List ℝ) :
    logisticTraj logG (center xis logV0).2 w (xi - mean xis) tau ages
      = logisticTraj logG logV0 w xi tau ages := by
  show logisticTraj logG (logV0.map (· + mean xis)) w (xi - mean xis) tau ages = _
  unfold logisticTraj
  congr 1
  funext t
  rw [zip3With?_map_mid]
  congr 1
  funext lg lv wk
  exact center_preserves_logistic _ _ lv xi (mean xis) t tau wk

/-- the same for the linear model -/
theorem center_preserves_linearTraj (xis g logV0 w : List ℝ) (xi tau : ℝ) (ages : List ℝ) :
    linearTraj g (center xis logV0).2 w (xi - mean xis) tau ages
      = linearTraj g logV0 w xi tau ages := by
  show linearTraj g (logV0.map (· + mean xis)) w (xi - mean xis) tau ages = _
  unfold linearTraj
  congr 1
  funext t
  rw [zip3With?_map_mid]
  congr 1
  funext gk lv wk
  exact center_preserves_linear gk lv xi (mean xis) t tau wk

/-- Attachment terms are functions of the model values and of the (untouched) data only, hence
    unchanged: stated for an arbitrary such function, logistic (also the longitudinal part of the
    joint model, which is the logistic model) and linear. -/
theorem center_preserves_attachment {β : Type} (nll : Option (List (List ℝ)) → β)
    (xis pop logV0 w : List ℝ) (xi tau : ℝ) (ages : List ℝ) :
    nll (logisticTraj pop (center xis logV0).2 w (xi - mean xis) tau ages)
      = nll (logisticTraj pop logV0 w xi tau ages) ∧
    nll (linearTraj pop (center xis logV0).2 w (xi - mean xis) tau ages)
      = nll (linearTraj pop logV0 w xi tau ages) := by
  rw [center_preserves_logisticTraj, center_preserves_linearTraj]
  exact ⟨rfl, rfl⟩

/-- Joint model, Weibull event sub-model without sources: the joint centring (`xi - m`,
    `n_log_nu + m`) leaves the reparametrised scale `exp(-xi) * nu`, `nu = exp(-n_log_nu)`, unchanged;
    the reparametrised event time `event - tau` does not involve the centred variables at all. -/
theorem centerJoint_preserves_nuRep (nLogNu xi m : ℝ) :
    nuRep (nuOf (nLogNu + m)) (xi - m) = nuRep (nuOf nLogNu) xi := by
  unfold nuRep nuOf
  simp only [exp_eq]
  rw [← Real.exp_add, ← Real.exp_add]
  congr 1
  ring

/-- … and with sources (`nu * exp(-(xi + (1/rho) * survival_shift))`), for every `rho` and shift. -/
theorem centerJoint_preserves_nuRepSources (nLogNu rho xi s m : ℝ) :
    nuRepSources (nuOf (nLogNu + m)) rho (xi - m) s = nuRepSources (nuOf nLogNu) rho xi s := by
  unfold nuRepSources nuOf
  simp only [exp_eq]
  rw [← Real.exp_add, ← Real.exp_add]
  congr 1
  ring

/-- What the compensation is for: had `n_log_nu` *not* been shifted, the event scale would change by
    the factor `exp m` (so a seeded change that forgets it is visible in every event likelihood). -/
theorem centerJoint_without_compensation (nLogNu xi m : ℝ) :
    nuRep (nuOf nLogNu) (xi - m) = Real.exp m * nuRep (nuOf nLogNu) xi := by
  unfold nuRep nuOf
  simp only [exp_eq]
  rw [← Real.exp_add, ← Real.exp_add, ← Real.exp_add]
  congr 1
  ring

/-! ### what is *not* gauge-invariant: the regularity term of `xi`

`nll_regul_xi = Σ_i Normal(xi_mean, xi_std)._nll(ξ_i)` (`Dist.normalNll`, the formula of C08) is computed
from `ξ` alone — the compensating `log_v0` does not enter — so it moves along the gauge orbit.  The
statements hold for every interpretation of `log`, `π` (`[Transc ℝ]`): those terms cancel. -/

section Regul
open LeaspyVerif.Dist
variable [Transc ℝ]

private theorem regul_pointwise (x c mu s : ℝ) (hs : s ≠ 0) :
    normalNll (x - c) mu s = normalNll x mu s + c * (c - 2 * (x - mu)) / (2 * (s * s)) := by
  unfold normalNll normalNllWith
  norm_num
  field_simp
  ring

/-- along the orbit: `nll_regul_xi(ξ − c) = nll_regul_xi(ξ) + (n c² − 2c(Σξ − nμ)) / (2σ²)` -/
theorem regul_xi_shift (xi : List ℝ) (c mu s : ℝ) (hs : s ≠ 0) :
    regulSum (fun x => normalNll x mu s) (xi.map (· - c))
      = regulSum (fun x => normalNll x mu s) xi
        + ((xi.length : ℝ) * (c * c) - 2 * c * (Gauge.sum xi - (xi.length : ℝ) * mu)) / (2 * (s * s)) := by
  induction xi with
  | nil => simp [regulSum, Gauge.sum]
  | cons x xs ih =>
    have h1 : regulSum (fun x => normalNll x mu s) ((x :: xs).map (· - c))
        = normalNll (x - c) mu s + regulSum (fun x => normalNll x mu s) (xs.map (· - c)) := rfl
    have h2 : regulSum (fun x => normalNll x mu s) (x :: xs)
        = normalNll x mu s + regulSum (fun x => normalNll x mu s) xs := rfl
    have h3 : Gauge.sum (x :: xs) = x + Gauge.sum xs := rfl
    rw [h1, h2, h3, ih, regul_pointwise x c mu s hs, List.length_cons]
    push_cast
    field_simp
    ring

/-- **How `nll_regul_xi` changes under the re-centring** (`m = mean ξ`, `n` individuals, prior
    `Normal(μ, σ)`):  `after = before + n·m·(2μ − m) / (2σ²)` — it depends on the mean removed. -/
theorem regul_xi_center (xi logV0 : List ℝ) (mu s : ℝ) (hne : xi ≠ []) (hs : s ≠ 0) :
    regulSum (fun x => normalNll x mu s) (center xi logV0).1
      = regulSum (fun x => normalNll x mu s) xi
        + (xi.length : ℝ) * mean xi * (2 * mu - mean xi) / (2 * (s * s)) := by
  show regulSum (fun x => normalNll x mu s) (xi.map (· - mean xi)) = _
  rw [regul_xi_shift xi (mean xi) mu s hs, sum_eq_length_mul_mean xi hne]
  congr 1
  ring

/-- with the models' `xi_mean = Hyperparameter(0.0)`: the re-centring **lowers** the regularity term by
    exactly `n·m² / (2σ²)` (so `nll_regul_ind_sum` and `nll_tot`, which add it to the invariant
    attachment, drop by the same amount) -/
theorem regul_xi_center_hyper (xi logV0 : List ℝ) (s : ℝ) (hne : xi ≠ []) (hs : s ≠ 0) :
    regulSum (fun x => normalNll x 0 s) (center xi logV0).1
      = regulSum (fun x => normalNll x 0 s) xi - (xi.length : ℝ) * (mean xi * mean xi) / (2 * (s * s)) ∧
    regulSum (fun x => normalNll x 0 s) (center xi logV0).1 ≤ regulSum (fun x => normalNll x 0 s) xi := by
  have h := regul_xi_center xi logV0 0 s hne hs
  have hpos : 0 ≤ (xi.length : ℝ) * (mean xi * mean xi) / (2 * (s * s)) := by
    have := mul_self_nonneg (mean xi)
    have := mul_self_pos.mpr hs
    positivity
  constructor
  · rw [h]; ring
  · rw [h]
    have : (xi.length : ℝ) * mean xi * (2 * 0 - mean xi) / (2 * (s * s))
        = -((xi.length : ℝ) * (mean xi * mean xi) / (2 * (s * s))) := by ring
    rw [this]; linarith

/-- … hence (for `xi_mean = 0`) the regularity term is gauge-invariant **iff** nothing was removed -/
theorem regul_xi_invariant_iff (xi logV0 : List ℝ) (s : ℝ) (hne : xi ≠ []) (hs : s ≠ 0) :
    regulSum (fun x => normalNll x 0 s) (center xi logV0).1 = regulSum (fun x => normalNll x 0 s) xi
      ↔ mean xi = 0 := by
  rw [(regul_xi_center_hyper xi logV0 s hne hs).1]
  have hn : (xi.length : ℝ) ≠ 0 := length_cast_ne_zero hne
  have hss : s * s ≠ 0 := mul_ne_zero hs hs
  constructor
  · intro h
    have h0 : (xi.length : ℝ) * (mean xi * mean xi) / (2 * (s * s)) = 0 := by linarith
    rw [div_eq_zero_iff] at h0
    rcases h0 with h0 | h0
    · rcases mul_eq_zero.mp h0 with h1 | h1
      · exact absurd h1 hn
      · exact mul_self_eq_zero.mp h1
    · exact absurd h0 (mul_ne_zero two_ne_zero hss)
  · intro h; rw [h]; simp

/- FULL statement of gauge invariance one might expect (FALSE): the re-centring leaves `nll_regul_xi`
   (hence `nll_tot`) unchanged.  Witness: ξ = (1, 3), σ = 1, μ = 0: the term drops by 4. -/
theorem regul_xi_not_invariant_counterexample :
    regulSum (fun x => normalNll x 0 1) (center [(1 : ℝ), 3] [0]).1
      = regulSum (fun x => normalNll x 0 1) [(1 : ℝ), 3] - 4 ∧
    regulSum (fun x => normalNll x 0 1) (center [(1 : ℝ), 3] [0]).1
      ≠ regulSum (fun x => normalNll x 0 1) [(1 : ℝ), 3] := by
  have h := (regul_xi_center_hyper [(1 : ℝ), 3] [0] 1 (by simp) one_ne_zero).1
  have hm : mean [(1 : ℝ), 3] = 2 := by norm_num [mean, Gauge.sum, natLit]
  rw [hm] at h
  have h4 : regulSum (fun x => normalNll x 0 1) (center [(1 : ℝ), 3] [0]).1
      = regulSum (fun x => normalNll x 0 1) [(1 : ℝ), 3] - 4 := by
    rw [h]; norm_num
  exact ⟨h4, by rw [h4]; linarith⟩

end Regul

/-! ## Orthogonality of the space shifts -/

section Ortho
variable {K : Type} [Field K] [LinearOrder K] [IsStrictOrderedRing K]

private theorem sumTo_eq_sum (n : Nat) (f : Nat → K) : sumTo n f = ∑ i ∈ Finset.range n, f i := by
  induction n with
  | zero => simp [sumTo]
  | succ n ih => rw [sumTo, ih, Finset.sum_range_succ]

private theorem dot_eq_sum (n : Nat) (a b : Nat → K) : dot n a b = ∑ i ∈ Finset.range n, a i * b i :=
  sumTo_eq_sum n _

private theorem sign_mul_self {x : K} (hx : x ≠ 0) : sign x * sign x = 1 := by
  unfold sign
  rcases lt_trichotomy 0 x with h | h | h
  · simp [h]
  · exact absurd h.symm hx
  · simp [h, not_lt.mpr (le_of_lt h)]

private theorem sign_mul_nonneg (x : K) : 0 ≤ sign x * x := by
  unfold sign
  rcases lt_trichotomy 0 x with h | h | h
  · simp [h, le_of_lt h]
  · simp [← h]
  · simp [h, not_lt.mpr (le_of_lt h), le_of_lt h]

/-- `sqrt` behaves as a non-negative square root at `x` -/
def IsSqrtAt (sqrt : K → K) (x : K) : Prop := 0 ≤ sqrt x ∧ sqrt x * sqrt x = x

private theorem dot_self_pos (n : Nat) (a : Nat → K) (j : Nat) (hj : j < n) (haj : a j ≠ 0) :
    0 < dot n a a := by
  rw [dot_eq_sum]
  apply Finset.sum_pos'
  · intro i _; exact mul_self_nonneg _
  · exact ⟨j, Finset.mem_range.mpr hj, mul_self_pos.mpr haj⟩

/-- the two scalar facts the Householder construction rests on: `‖u‖² = 2⟨u,a⟩` and `‖u‖² > 0` -/
private theorem hh_key (sqrt : K → K) (n : Nat) (a : Nat → K) (j : Nat) (hj : j < n) (haj : a j ≠ 0)
    (h1 : IsSqrtAt sqrt (dot n a a)) :
    dot n (hhU sqrt n a j) (hhU sqrt n a j) = 2 * dot n (hhU sqrt n a j) a ∧
    0 < dot n (hhU sqrt n a j) (hhU sqrt n a j) := by
  set al := hhAlpha sqrt n a j with hal
  set S := dot n a a with hS
  have hSpos : 0 < S := dot_self_pos n a j hj haj
  -- al² = S
  have hal2 : al * al = S := by
    rw [hal]; unfold hhAlpha
    have := sign_mul_self haj
    calc -(sign (a j)) * sqrt S * (-(sign (a j)) * sqrt S)
        = (sign (a j) * sign (a j)) * (sqrt S * sqrt S) := by ring
      _ = S := by rw [this, h1.2]; ring
  -- -al * a j ≥ 0
  have halaj : 0 ≤ -(al * a j) := by
    rw [hal]; unfold hhAlpha
    have h := mul_nonneg (sign_mul_nonneg (a j)) h1.1
    calc (0 : K) ≤ sign (a j) * a j * sqrt S := h
      _ = -(-(sign (a j)) * sqrt S * a j) := by ring
  have hua : dot n (hhU sqrt n a j) a = S - al * a j := by
    rw [dot_eq_sum, hS, dot_eq_sum]
    unfold hhU
    rw [← hal]
    have : ∀ i ∈ Finset.range n, (a i - al * (if i = j then 1 else 0)) * a i
        = a i * a i - (if i = j then al * a j else 0) := by
      intro i _
      by_cases hij : i = j
      · subst hij; simp; ring
      · simp [hij]
    rw [Finset.sum_congr rfl this, Finset.sum_sub_distrib, Finset.sum_ite_eq']
    simp [Finset.mem_range.mpr hj]
  have huu : dot n (hhU sqrt n a j) (hhU sqrt n a j) = S - 2 * (al * a j) + al * al := by
    rw [dot_eq_sum, hS, dot_eq_sum]
    unfold hhU
    rw [← hal]
    have : ∀ i ∈ Finset.range n,
        (a i - al * (if i = j then 1 else 0)) * (a i - al * (if i = j then 1 else 0))
        = a i * a i - (if i = j then 2 * (al * a j) - al * al else 0) := by
      intro i _
      by_cases hij : i = j
      · subst hij; simp; ring
      · simp [hij]
    rw [Finset.sum_congr rfl this, Finset.sum_sub_distrib, Finset.sum_ite_eq']
    simp [Finset.mem_range.mpr hj]
    ring
  constructor
  · rw [huu, hua, hal2]; ring
  · rw [huu, hal2]; linarith

/-- **Householder orthogonality.**  For `a_j ≠ 0` (and `sqrt` a genuine square root at the two norms the
    code takes), every column `k ≠ j` of `Q` is orthogonal to `a`, for the canonical inner product.
    Pure field algebra: `‖u‖² = 2⟨u,a⟩`. -/
theorem householder_orth (sqrt : K → K) (n : Nat) (a : Nat → K) (j k : Nat)
    (hj : j < n) (hk : k < n) (hkj : k ≠ j) (haj : a j ≠ 0)
    (h1 : IsSqrtAt sqrt (dot n a a))
    (h2 : IsSqrtAt sqrt (dot n (hhU sqrt n a j) (hhU sqrt n a j))) :
    dot n (fun i => householderQ sqrt n a j i k) a = 0 := by
  obtain ⟨hkey, hpos⟩ := hh_key sqrt n a j hj haj h1
  set u := hhU sqrt n a j with hu
  set N := dot n u u with hN
  have hnu : sqrt N ≠ 0 := by
    intro h0
    have := h2.2
    rw [h0, mul_zero] at this
    exact absurd this.symm (ne_of_gt hpos)
  have huk : u k = a k := by
    rw [hu]; unfold hhU; simp [hkj]
  rw [dot_eq_sum]
  unfold householderQ
  simp only [← hu, ← hN]
  have hterm : ∀ i ∈ Finset.range n,
      ((if i = k then (1 : K) else 0) - (1 + 1) * (u i / sqrt N) * (u k / sqrt N)) * a i
        = (if i = k then a k else 0) - (2 * u k / (sqrt N * sqrt N)) * (u i * a i) := by
    intro i _
    by_cases hik : i = k
    · subst hik; simp; field_simp; ring
    · simp [hik]; field_simp; ring
  rw [Finset.sum_congr rfl hterm, Finset.sum_sub_distrib, Finset.sum_ite_eq', ← Finset.mul_sum,
    ← dot_eq_sum, h2.2]
  simp only [Finset.mem_range.mpr hk, if_true]
  have hN0 : N ≠ 0 := ne_of_gt hpos
  rw [huk]
  have : dot n u a = N / 2 := by rw [hkey]; ring
  rw [this]
  field_simp
  ring

/-- Every column of the returned basis (the `n-1` columns of `Q` other than `j`) is orthogonal to `a`. -/
theorem basis_cols_orth (sqrt : K → K) (n : Nat) (a : Nat → K) (j c : Nat)
    (hj : j < n) (hc : c < n - 1) (haj : a j ≠ 0)
    (h1 : IsSqrtAt sqrt (dot n a a))
    (h2 : IsSqrtAt sqrt (dot n (hhU sqrt n a j) (hhU sqrt n a j))) :
    dot n (fun i => basis sqrt n a j i c) a = 0 := by
  unfold basis
  by_cases hcj : c < j
  · simp only [hcj, if_true]
    exact householder_orth sqrt n a j c hj (by omega) (by omega) haj h1 h2
  · simp only [hcj, if_false]
    exact householder_orth sqrt n a j (c + 1) hj (by omega) (by omega) haj h1 h2

/-- Every row of the mixing matrix is orthogonal to `a`, **for every `betas`**, as soon as the
    columns of the basis are. -/
theorem mixing_rows_orth (n : Nat) (B betas : Nat → Nat → K) (a : Nat → K) (s : Nat)
    (hB : ∀ c, c < n - 1 → dot n (fun i => B i c) a = 0) :
    dot n (mixing n B betas s) a = 0 := by
  rw [dot_eq_sum]
  unfold mixing
  simp only [sumTo_eq_sum]
  have : ∀ k ∈ Finset.range n, (∑ c ∈ Finset.range (n - 1), B k c * betas c s) * a k
      = ∑ c ∈ Finset.range (n - 1), betas c s * (B k c * a k) := by
    intro k _
    rw [Finset.sum_mul]
    apply Finset.sum_congr rfl
    intro c _; ring
  rw [Finset.sum_congr rfl this, Finset.sum_comm]
  apply Finset.sum_eq_zero
  intro c hc
  rw [← Finset.mul_sum]
  have := hB c (Finset.mem_range.mp hc)
  rw [dot_eq_sum] at this
  rw [this, mul_zero]

/-- Every individual space shift is orthogonal to `a`, **for every `sources`**. -/
theorem spaceShift_orth (n ns : Nat) (src : Nat → K) (M : Nat → Nat → K) (a : Nat → K)
    (hM : ∀ s, s < ns → dot n (M s) a = 0) :
    dot n (spaceShift ns src M) a = 0 := by
  rw [dot_eq_sum]
  unfold spaceShift
  simp only [sumTo_eq_sum]
  have : ∀ k ∈ Finset.range n, (∑ s ∈ Finset.range ns, src s * M s k) * a k
      = ∑ s ∈ Finset.range ns, src s * (M s k * a k) := by
    intro k _
    rw [Finset.sum_mul]
    apply Finset.sum_congr rfl
    intro s _; ring
  rw [Finset.sum_congr rfl this, Finset.sum_comm]
  apply Finset.sum_eq_zero
  intro s hs
  rw [← Finset.mul_sum]
  have := hM s (Finset.mem_range.mp hs)
  rw [dot_eq_sum] at this
  rw [this, mul_zero]

/-- The chain as the code composes it: basis from `a` and strip column `j`, mixing matrix from any
    `betas`, space shift from any `sources` — orthogonal to `a`. -/
theorem spaceShift_orth_of_householder (sqrt : K → K) (n ns : Nat) (a : Nat → K) (j : Nat)
    (betas : Nat → Nat → K) (src : Nat → K)
    (hj : j < n) (haj : a j ≠ 0)
    (h1 : IsSqrtAt sqrt (dot n a a))
    (h2 : IsSqrtAt sqrt (dot n (hhU sqrt n a j) (hhU sqrt n a j))) :
    dot n (spaceShift ns src (mixing n (basis sqrt n a j) betas)) a = 0 :=
  spaceShift_orth n ns src _ a fun s _ =>
    mixing_rows_orth n _ betas a s fun c hc => basis_cols_orth sqrt n a j c hj hc haj h1 h2

/-! ### Q is symmetric and orthogonal; the returned basis is orthonormal (Euclidean) -/

/-- `α² = ‖a‖²` -/
private theorem hh_alpha_sq (sqrt : K → K) (n : Nat) (a : Nat → K) (j : Nat) (haj : a j ≠ 0)
    (h1 : IsSqrtAt sqrt (dot n a a)) :
    hhAlpha sqrt n a j * hhAlpha sqrt n a j = dot n a a := by
  unfold hhAlpha
  have := sign_mul_self haj
  calc -(sign (a j)) * sqrt (dot n a a) * (-(sign (a j)) * sqrt (dot n a a))
      = (sign (a j) * sign (a j)) * (sqrt (dot n a a) * sqrt (dot n a a)) := by ring
    _ = dot n a a := by rw [this, h1.2]; ring

/-- `‖u‖² = -2 α u_j`, `α ≠ 0` -/
private theorem hh_norm_u (sqrt : K → K) (n : Nat) (a : Nat → K) (j : Nat) (hj : j < n) (haj : a j ≠ 0)
    (h1 : IsSqrtAt sqrt (dot n a a)) :
    dot n (hhU sqrt n a j) (hhU sqrt n a j) = -2 * hhAlpha sqrt n a j * hhU sqrt n a j j ∧
    hhAlpha sqrt n a j ≠ 0 := by
  have hal2 := hh_alpha_sq sqrt n a j haj h1
  have hSpos : 0 < dot n a a := dot_self_pos n a j hj haj
  set al := hhAlpha sqrt n a j with hal
  have huu : dot n (hhU sqrt n a j) (hhU sqrt n a j) = dot n a a - 2 * (al * a j) + al * al := by
    rw [dot_eq_sum, dot_eq_sum]
    unfold hhU
    rw [← hal]
    have : ∀ i ∈ Finset.range n,
        (a i - al * (if i = j then 1 else 0)) * (a i - al * (if i = j then 1 else 0))
        = a i * a i - (if i = j then 2 * (al * a j) - al * al else 0) := by
      intro i _
      by_cases hij : i = j
      · subst hij; simp; ring
      · simp [hij]
    rw [Finset.sum_congr rfl this, Finset.sum_sub_distrib, Finset.sum_ite_eq']
    simp [Finset.mem_range.mpr hj]
    ring
  constructor
  · rw [huu, ← hal2]
    have : hhU sqrt n a j j = a j - al := by unfold hhU; simp [← hal]
    rw [this]; ring
  · intro h0
    rw [h0, mul_zero] at hal2
    exact absurd hal2 (ne_of_lt hSpos)

/-- the normalised Householder vector has unit norm -/
private theorem hh_v_unit (sqrt : K → K) (n : Nat) (a : Nat → K) (j : Nat) (hj : j < n) (haj : a j ≠ 0)
    (h1 : IsSqrtAt sqrt (dot n a a))
    (h2 : IsSqrtAt sqrt (dot n (hhU sqrt n a j) (hhU sqrt n a j))) :
    ∑ i ∈ Finset.range n,
      (hhU sqrt n a j i / sqrt (dot n (hhU sqrt n a j) (hhU sqrt n a j))) *
      (hhU sqrt n a j i / sqrt (dot n (hhU sqrt n a j) (hhU sqrt n a j))) = 1 := by
  obtain ⟨_, hpos⟩ := hh_key sqrt n a j hj haj h1
  set u := hhU sqrt n a j
  set N := dot n u u with hN
  have hN0 : N ≠ 0 := ne_of_gt hpos
  have : ∀ i ∈ Finset.range n, (u i / sqrt N) * (u i / sqrt N) = (u i * u i) * (1 / N) := by
    intro i _
    rw [div_mul_div_comm, h2.2]; ring
  rw [Finset.sum_congr rfl this, ← Finset.sum_mul, ← dot_eq_sum, ← hN, mul_one_div, div_self hN0]

/-- a reflection `I - 2vvᵀ` with `‖v‖ = 1` has orthonormal columns -/
private theorem reflect_gram (n : Nat) (v : Nat → K)
    (hv : ∑ i ∈ Finset.range n, v i * v i = 1) (k l : Nat) (hk : k < n) (hl : l < n) :
    ∑ i ∈ Finset.range n,
      ((if i = k then (1 : K) else 0) - (1 + 1) * v i * v k) *
      ((if i = l then (1 : K) else 0) - (1 + 1) * v i * v l) = if k = l then 1 else 0 := by
  have hterm : ∀ i ∈ Finset.range n,
      ((if i = k then (1 : K) else 0) - (1 + 1) * v i * v k) *
      ((if i = l then (1 : K) else 0) - (1 + 1) * v i * v l)
      = (if i = k then (if k = l then (1 : K) else 0) else 0) - (if i = k then 2 * v k * v l else 0)
        - (if i = l then 2 * v l * v k else 0) + 4 * v k * v l * (v i * v i) := by
    intro i _
    by_cases hik : i = k
    · subst hik
      by_cases hil : i = l
      · subst hil; simp; ring
      · simp [hil]; ring
    · by_cases hil : i = l
      · subst hil; simp [hik]; ring
      · simp [hik, hil]; ring
  rw [Finset.sum_congr rfl hterm, Finset.sum_add_distrib, Finset.sum_sub_distrib, Finset.sum_sub_distrib,
    Finset.sum_ite_eq', Finset.sum_ite_eq', Finset.sum_ite_eq', ← Finset.mul_sum, hv]
  simp only [Finset.mem_range.mpr hk, Finset.mem_range.mpr hl, if_true]
  ring

/-- **Q is symmetric** — no hypothesis at all (`v vᵀ` is symmetric whatever `v` is). -/
theorem householderQ_symm (sqrt : K → K) (n : Nat) (a : Nat → K) (j i k : Nat) :
    householderQ sqrt n a j i k = householderQ sqrt n a j k i := by
  unfold householderQ
  by_cases h : i = k
  · subst h; rfl
  · have h' : ¬ k = i := fun e => h e.symm
    simp only [h, h', if_false]
    ring

/-- **Q is orthogonal: `QᵀQ = I`**, under the hypotheses of `householder_orth` (`a_j ≠ 0`, genuine
    square roots at the two norms the code takes): entry `(k, l)` of `QᵀQ`, `k, l < n`. -/
theorem householderQ_orthogonal (sqrt : K → K) (n : Nat) (a : Nat → K) (j k l : Nat)
    (hj : j < n) (hk : k < n) (hl : l < n) (haj : a j ≠ 0)
    (h1 : IsSqrtAt sqrt (dot n a a))
    (h2 : IsSqrtAt sqrt (dot n (hhU sqrt n a j) (hhU sqrt n a j))) :
    gramQ sqrt n a j k l = if k = l then 1 else 0 := by
  unfold gramQ
  rw [dot_eq_sum]
  exact reflect_gram n _ (hh_v_unit sqrt n a j hj haj h1 h2) k l hk hl

/-- … and, `Q` being symmetric, `Q Qᵀ = Q² = I` as well (a reflection is an involution). -/
theorem householderQ_involutive (sqrt : K → K) (n : Nat) (a : Nat → K) (j i k : Nat)
    (hj : j < n) (hi : i < n) (hk : k < n) (haj : a j ≠ 0)
    (h1 : IsSqrtAt sqrt (dot n a a))
    (h2 : IsSqrtAt sqrt (dot n (hhU sqrt n a j) (hhU sqrt n a j))) :
    (∑ c ∈ Finset.range n, householderQ sqrt n a j i c * householderQ sqrt n a j c k)
      = if i = k then 1 else 0 := by
  have h := householderQ_orthogonal sqrt n a j i k hj hi hk haj h1 h2
  unfold gramQ at h
  rw [dot_eq_sum] at h
  rw [← h]
  apply Finset.sum_congr rfl
  intro c _
  rw [householderQ_symm sqrt n a j i c]

/-- **The stripped column is the normalised direction, with the sign the code chooses:**
    `Q[:, j] = a / α`, `α = -sign(a_j)‖a‖`, i.e. `Q[i, j] = -sign(a_j) · a_i / ‖a‖`. -/
theorem householderQ_col_j (sqrt : K → K) (n : Nat) (a : Nat → K) (j i : Nat)
    (hj : j < n) (haj : a j ≠ 0)
    (h1 : IsSqrtAt sqrt (dot n a a))
    (h2 : IsSqrtAt sqrt (dot n (hhU sqrt n a j) (hhU sqrt n a j))) :
    householderQ sqrt n a j i j = a i / hhAlpha sqrt n a j ∧
    householderQ sqrt n a j i j = -(sign (a j)) * (a i / sqrt (dot n a a)) := by
  obtain ⟨hN, hal0⟩ := hh_norm_u sqrt n a j hj haj h1
  obtain ⟨_, hpos⟩ := hh_key sqrt n a j hj haj h1
  have hfirst : householderQ sqrt n a j i j = a i / hhAlpha sqrt n a j := by
    unfold householderQ
    simp only []
    set u := hhU sqrt n a j with hu
    set N := dot n u u with hNdef
    set al := hhAlpha sqrt n a j with hal
    have hN0 : N ≠ 0 := ne_of_gt hpos
    have huj0 : u j ≠ 0 := by
      intro h0; rw [h0, mul_zero] at hN; exact hN0 hN
    have hui : u i = a i - al * (if i = j then 1 else 0) := by rw [hu]; unfold hhU; rw [← hal]
    have : (1 + 1) * (u i / sqrt N) * (u j / sqrt N) = 2 * (u i * u j) / N := by
      rw [mul_assoc, div_mul_div_comm, h2.2]; ring
    rw [this, hN, hui]
    by_cases hij : i = j
    · subst hij; simp; field_simp; ring
    · simp [hij]; field_simp
  refine ⟨hfirst, ?_⟩
  rw [hfirst]
  unfold hhAlpha
  have hs := sign_mul_self haj
  have hs0 : sign (a j) ≠ 0 := by intro h0; rw [h0, mul_zero] at hs; exact zero_ne_one hs
  have hr0 : sqrt (dot n a a) ≠ 0 := by
    intro h0
    have := h1.2
    rw [h0, mul_zero] at this
    exact absurd this (ne_of_lt (dot_self_pos n a j hj haj))
  field_simp
  have hs2 : sign (a j) ^ 2 = 1 := by rw [pow_two]; exact hs
  simp [hs2]

/-- **Q reflects `a` onto the `j`-th axis:** `Q a = α e_j`. -/
theorem householderQ_reflects (sqrt : K → K) (n : Nat) (a : Nat → K) (j i : Nat)
    (hj : j < n) (hi : i < n) (haj : a j ≠ 0)
    (h1 : IsSqrtAt sqrt (dot n a a))
    (h2 : IsSqrtAt sqrt (dot n (hhU sqrt n a j) (hhU sqrt n a j))) :
    (∑ k ∈ Finset.range n, householderQ sqrt n a j i k * a k)
      = if i = j then hhAlpha sqrt n a j else 0 := by
  obtain ⟨_, hal0⟩ := hh_norm_u sqrt n a j hj haj h1
  -- a_k = α Q[k, j]; then Q·Q = I
  have hcol : ∀ k, a k = hhAlpha sqrt n a j * householderQ sqrt n a j k j := by
    intro k
    rw [(householderQ_col_j sqrt n a j k hj haj h1 h2).1]
    field_simp
  have : ∀ k ∈ Finset.range n, householderQ sqrt n a j i k * a k
      = hhAlpha sqrt n a j * (householderQ sqrt n a j i k * householderQ sqrt n a j k j) := by
    intro k _
    rw [hcol k]; ring
  rw [Finset.sum_congr rfl this, ← Finset.mul_sum,
    householderQ_involutive sqrt n a j i j hj hi hj haj h1 h2]
  by_cases hij : i = j <;> simp [hij]

/-- the column index map of `torch.cat((Q[:, :j], Q[:, j+1:]), dim=1)` -/
private def skip (j c : Nat) : Nat := if c < j then c else c + 1

private theorem skip_lt {n j c : Nat} (hc : c < n - 1) : skip j c < n := by
  unfold skip; split <;> omega

private theorem skip_ne (j c : Nat) : skip j c ≠ j := by
  unfold skip; split <;> omega

private theorem skip_inj {j c c' : Nat} : skip j c = skip j c' ↔ c = c' := by
  unfold skip; constructor
  · intro h; split at h <;> split at h <;> omega
  · intro h; rw [h]

/-- **The returned basis is orthonormal for the canonical (Euclidean) inner product:** `BᵀB = I_{n-1}`
    (pairwise orthogonal columns of unit Euclidean norm), as the docstring of
    `compute_orthonormal_basis` says ("always orthonormal for the Euclidean canonical inner product"). -/
theorem basis_orthonormal (sqrt : K → K) (n : Nat) (a : Nat → K) (j c c' : Nat)
    (hj : j < n) (hc : c < n - 1) (hc' : c' < n - 1) (haj : a j ≠ 0)
    (h1 : IsSqrtAt sqrt (dot n a a))
    (h2 : IsSqrtAt sqrt (dot n (hhU sqrt n a j) (hhU sqrt n a j))) :
    gramBasis sqrt n a j c c' = if c = c' then 1 else 0 := by
  have h := householderQ_orthogonal sqrt n a j (skip j c) (skip j c') hj (skip_lt hc) (skip_lt hc') haj h1 h2
  have : gramBasis sqrt n a j c c' = gramQ sqrt n a j (skip j c) (skip j c') := rfl
  rw [this, h]
  simp only [skip_inj]

/-- unit Euclidean norm of every returned column -/
theorem basis_cols_unit (sqrt : K → K) (n : Nat) (a : Nat → K) (j c : Nat)
    (hj : j < n) (hc : c < n - 1) (haj : a j ≠ 0)
    (h1 : IsSqrtAt sqrt (dot n a a))
    (h2 : IsSqrtAt sqrt (dot n (hhU sqrt n a j) (hhU sqrt n a j))) :
    dot n (fun i => basis sqrt n a j i c) (fun i => basis sqrt n a j i c) = 1 := by
  have := basis_orthonormal sqrt n a j c c hj hc hc haj h1 h2
  simpa [gramBasis] using this

/-- pairwise Euclidean orthogonality of the returned columns -/
theorem basis_cols_pairwise_orth (sqrt : K → K) (n : Nat) (a : Nat → K) (j c c' : Nat)
    (hj : j < n) (hc : c < n - 1) (hc' : c' < n - 1) (hcc : c ≠ c') (haj : a j ≠ 0)
    (h1 : IsSqrtAt sqrt (dot n a a))
    (h2 : IsSqrtAt sqrt (dot n (hhU sqrt n a j) (hhU sqrt n a j))) :
    dot n (fun i => basis sqrt n a j i c) (fun i => basis sqrt n a j i c') = 0 := by
  have := basis_orthonormal sqrt n a j c c' hj hc hc' haj h1 h2
  simpa [gramBasis, hcc] using this

private theorem sum_skip (f : Nat → K) : ∀ (n j : Nat), j < n →
    ∑ k ∈ Finset.range n, f k = f j + ∑ c ∈ Finset.range (n - 1), f (skip j c) := by
  intro n
  induction n with
  | zero => intro j hj; omega
  | succ m ih =>
    intro j hj
    rw [Finset.sum_range_succ, Nat.add_sub_cancel]
    by_cases hjm : j = m
    · subst hjm
      have : ∀ c ∈ Finset.range j, f (skip j c) = f c := by
        intro c hc; unfold skip; simp [Finset.mem_range.mp hc]
      rw [Finset.sum_congr rfl this]; ring
    · have hjm' : j < m := by omega
      obtain ⟨m', rfl⟩ : ∃ m', m = m' + 1 := ⟨m - 1, by omega⟩
      rw [ih j hjm', Nat.add_sub_cancel, Finset.sum_range_succ]
      have : skip j m' = m' + 1 := by unfold skip; simp; omega
      rw [this]; ring

/-- **`B Bᵀ` is the orthogonal projector onto `a^⊥`:** `Σ_c B[i,c] B[k,c] = δ_ik - a_i a_k / ‖a‖²`.
    Hence the `n-1` returned columns span the *whole* Euclidean orthogonal complement of `a = G·v0`
    (every `w ⟂ a` satisfies `B Bᵀ w = w`), not merely a subspace of it. -/
theorem basis_projector (sqrt : K → K) (n : Nat) (a : Nat → K) (j i k : Nat)
    (hj : j < n) (hi : i < n) (hk : k < n) (haj : a j ≠ 0)
    (h1 : IsSqrtAt sqrt (dot n a a))
    (h2 : IsSqrtAt sqrt (dot n (hhU sqrt n a j) (hhU sqrt n a j))) :
    projBasis sqrt n a j i k = (if i = k then 1 else 0) - a i * a k / dot n a a := by
  have hinv := householderQ_involutive sqrt n a j i k hj hi hk haj h1 h2
  rw [sum_skip _ n j hj] at hinv
  have hal2 := hh_alpha_sq sqrt n a j haj h1
  obtain ⟨_, hal0⟩ := hh_norm_u sqrt n a j hj haj h1
  have hcol : householderQ sqrt n a j i j * householderQ sqrt n a j j k = a i * a k / dot n a a := by
    rw [householderQ_symm sqrt n a j j k, (householderQ_col_j sqrt n a j i hj haj h1 h2).1,
      (householderQ_col_j sqrt n a j k hj haj h1 h2).1, div_mul_div_comm, hal2]
  have hrest : projBasis sqrt n a j i k
      = ∑ c ∈ Finset.range (n - 1), householderQ sqrt n a j i (skip j c) * householderQ sqrt n a j (skip j c) k := by
    unfold projBasis
    rw [sumTo_eq_sum]
    apply Finset.sum_congr rfl
    intro c _
    show householderQ sqrt n a j i (skip j c) * householderQ sqrt n a j k (skip j c) = _
    rw [householderQ_symm sqrt n a j k (skip j c)]
  rw [hrest, ← hinv, hcol]; ring

/-- every `w ⟂ a` is reproduced by `B Bᵀ`: the returned columns span all of `a^⊥` -/
theorem basis_spans_complement (sqrt : K → K) (n : Nat) (a w : Nat → K) (j i : Nat)
    (hj : j < n) (hi : i < n) (haj : a j ≠ 0)
    (h1 : IsSqrtAt sqrt (dot n a a))
    (h2 : IsSqrtAt sqrt (dot n (hhU sqrt n a j) (hhU sqrt n a j)))
    (hw : dot n w a = 0) :
    (∑ k ∈ Finset.range n, projBasis sqrt n a j i k * w k) = w i := by
  have : ∀ k ∈ Finset.range n, projBasis sqrt n a j i k * w k
      = (if i = k then w k else 0) - a i / dot n a a * (w k * a k) := by
    intro k hk
    rw [basis_projector sqrt n a j i k hj hi (Finset.mem_range.mp hk) haj h1 h2]
    by_cases hik : i = k
    · subst hik; simp; ring
    · simp [hik]; ring
  rw [Finset.sum_congr rfl this, Finset.sum_sub_distrib, Finset.sum_ite_eq, ← Finset.mul_sum,
    ← dot_eq_sum, hw]
  simp [Finset.mem_range.mpr hi]

/-- the space shift in the coordinates of the basis: `w = B · (betas · s)`, a combination of the
    `n-1` basis columns with coefficients `Σ_s betas[c, s] · sources[s]`, and (by definition) of the
    `n_sources` rows of the mixing matrix — the shifts of a cohort live in a subspace of `a^⊥` of
    dimension at most `min(n_sources, n-1)`. -/
theorem spaceShift_in_basis (n ns : Nat) (B betas : Nat → Nat → K) (src : Nat → K) (k : Nat) :
    spaceShift ns src (mixing n B betas) k
      = ∑ c ∈ Finset.range (n - 1), B k c * (∑ s ∈ Finset.range ns, betas c s * src s) := by
  unfold spaceShift mixing
  simp only [sumTo_eq_sum]
  have : ∀ s ∈ Finset.range ns, src s * ∑ c ∈ Finset.range (n - 1), B k c * betas c s
      = ∑ c ∈ Finset.range (n - 1), B k c * (betas c s * src s) := by
    intro s _
    rw [Finset.mul_sum]
    apply Finset.sum_congr rfl
    intro c _; ring
  rw [Finset.sum_congr rfl this, Finset.sum_comm]
  apply Finset.sum_congr rfl
  intro c _
  rw [Finset.mul_sum]

/-! ### which bilinear form?  Euclidean-orthonormal, metric-orthogonal to the direction only -/

/-- For the diagonal metric `G` and the direction `dγ` the code forms `a = G * dγ` *before* the
    reflection and applies nothing after it: every returned column is orthogonal to `dγ` **for the
    metric** (`⟨col, dγ⟩_G = Σ col_i G_i dγ_i = ⟨col, G dγ⟩_Eucl = 0`) — the one metric statement the
    docstring makes. -/
theorem basis_cols_metric_orth_direction (sqrt : K → K) (n : Nat) (G dg : Nat → K) (j c : Nat)
    (hj : j < n) (hc : c < n - 1) (haj : G j * dg j ≠ 0)
    (h1 : IsSqrtAt sqrt (dot n (fun i => G i * dg i) (fun i => G i * dg i)))
    (h2 : IsSqrtAt sqrt (dot n (hhU sqrt n (fun i => G i * dg i) j) (hhU sqrt n (fun i => G i * dg i) j))) :
    dotG n G (fun i => basis sqrt n (fun i => G i * dg i) j i c) dg = 0 := by
  have h := basis_cols_orth sqrt n (fun i => G i * dg i) j c hj hc haj h1 h2
  rw [← h]
  unfold dotG dot
  congr 1
  funext i
  ring

/- FULL statement one might read into the name `orthonormal_basis` "adapted for a non-Euclidean inner
   product" (FALSE, and *not* claimed by the docstring, which says "always orthonormal for the
   Euclidean canonical inner product"):
     ∀ G > 0,  gramBasisG sqrt n G (G * dγ) j c c' = if c = c' then 1 else 0
   Refuted below; it holds (up to the factor `g`) exactly when the metric is scalar on the features. -/

/-- With the non-scalar metric `G = (1, 1, 4)` and `dγ = (7, 72/5, 24/5)` (so `a = (7, 72/5, 96/5)`,
    `‖a‖ = 25`, `‖u‖ = 40`, everything rational) the returned basis is Euclidean-orthonormal but for
    the metric its columns are neither of unit norm nor pairwise orthogonal. -/
theorem basis_metric_orthonormal_counterexample :
    let sq : Rat → Rat := fun x => if x = 625 then 25 else if x = 1600 then 40 else 0
    let G : Nat → Rat := fun i => if i = 2 then 4 else 1
    let dg : Nat → Rat := fun i => if i = 0 then 7 else if i = 1 then 72/5 else if i = 2 then 24/5 else 0
    let a : Nat → Rat := fun i => G i * dg i
    (gramBasis sq 3 a 0 0 0 = 1 ∧ gramBasis sq 3 a 0 1 1 = 1 ∧ gramBasis sq 3 a 0 0 1 = 0) ∧
    gramBasisG sq 3 G a 0 0 0 ≠ 1 ∧ gramBasisG sq 3 G a 0 1 1 ≠ 1 ∧ gramBasisG sq 3 G a 0 0 1 ≠ 0 := by
  decide +kernel

/-- … under the exact guard — a metric that is the same number `g` on every feature (scalar metric;
    the linear model has `g = 1`) — the basis is orthogonal for the metric too, with squared norms `g`. -/
theorem basis_metric_orthonormal_partial (sqrt : K → K) (n : Nat) (G a : Nat → K) (g : K) (j c c' : Nat)
    (hG : ∀ i, i < n → G i = g)
    (hj : j < n) (hc : c < n - 1) (hc' : c' < n - 1) (haj : a j ≠ 0)
    (h1 : IsSqrtAt sqrt (dot n a a))
    (h2 : IsSqrtAt sqrt (dot n (hhU sqrt n a j) (hhU sqrt n a j))) :
    gramBasisG sqrt n G a j c c' = g * (if c = c' then 1 else 0) := by
  rw [← basis_orthonormal sqrt n a j c c' hj hc hc' haj h1 h2]
  unfold gramBasisG gramBasis dotG
  rw [dot_eq_sum, sumTo_eq_sum, Finset.mul_sum]
  apply Finset.sum_congr rfl
  intro i hi
  rw [hG i (Finset.mem_range.mp hi)]
  ring

/-- **Rank.**  The mixing matrix (`n_sources × n`) is the transpose of `B · betas` with `B` of width
    `n-1` and `betas` of shape `(n-1) × n_sources`: its rank is at most `min(n_sources, n-1)`. -/
theorem mixing_rank_le (n ns : Nat) (B betas : Nat → Nat → K) :
    (Matrix.of fun (s : Fin ns) (k : Fin n) => mixing n B betas s k).rank ≤ min ns (n - 1) := by
  have hM : (Matrix.of fun (s : Fin ns) (k : Fin n) => mixing n B betas s k)
      = ((Matrix.of fun (k : Fin n) (c : Fin (n - 1)) => B k c) *
         (Matrix.of fun (c : Fin (n - 1)) (s : Fin ns) => betas c s)).transpose := by
    ext s k
    simp only [Matrix.of_apply, Matrix.transpose_apply, Matrix.mul_apply, mixing, sumTo_eq_sum]
    rw [Finset.sum_range]
  rw [hM, Matrix.rank_transpose]
  exact le_trans (Matrix.rank_mul_le_right _ _) (le_min (Matrix.rank_le_width _) (Matrix.rank_le_height _))

/-- The excluded point is genuinely excluded: with `a_j = 0`, `torch.sign` gives 0, `alpha = 0`,
    `u = a`, and the columns are *not* orthogonal to `a` (`a = (0,1)`, `j = 0`: `⟨Q e_1, a⟩ = -1`). -/
theorem householder_degenerate_counterexample :
    dot 2 (fun i => householderQ (fun x : Rat => x) 2 (fun i => if i = 1 then 1 else 0) 0 i 1)
      (fun i => if i = 1 then 1 else 0) = -1 := by
  decide +kernel

end Ortho

/-! ### over the reals, with the vectors the models pass to `OrthoBasis` -/

private theorem isSqrtAt_real {x : ℝ} (hx : 0 ≤ x) : IsSqrtAt Real.sqrt x :=
  ⟨Real.sqrt_nonneg x, Real.mul_self_sqrt hx⟩

private theorem dot_self_nonneg (n : Nat) (a : Nat → ℝ) : 0 ≤ dot n a a := by
  induction n with
  | zero => simp [dot, sumTo]
  | succ n ih =>
    have : dot (n + 1) a a = dot n a a + a n * a n := rfl
    rw [this]
    have := mul_self_nonneg (a n)
    linarith

/-- Over the reals with the true square root the only hypothesis left is `a_j ≠ 0`. -/
theorem spaceShift_orth_real (n ns : Nat) (a : Nat → ℝ) (j : Nat) (betas : Nat → Nat → ℝ)
    (src : Nat → ℝ) (hj : j < n) (haj : a j ≠ 0) :
    dot n (spaceShift ns src (mixing n (basis Real.sqrt n a j) betas)) a = 0 :=
  spaceShift_orth_of_householder Real.sqrt n ns a j betas src hj haj
    (isSqrtAt_real (dot_self_nonneg n a)) (isSqrtAt_real (dot_self_nonneg n _))

/-- Over the reals the only hypothesis left for `QᵀQ = I` is `a_j ≠ 0`. -/
theorem householderQ_orthogonal_real (n : Nat) (a : Nat → ℝ) (j k l : Nat)
    (hj : j < n) (hk : k < n) (hl : l < n) (haj : a j ≠ 0) :
    gramQ Real.sqrt n a j k l = if k = l then 1 else 0 :=
  householderQ_orthogonal Real.sqrt n a j k l hj hk hl haj
    (isSqrtAt_real (dot_self_nonneg n a)) (isSqrtAt_real (dot_self_nonneg n _))

/-- … and for the Euclidean orthonormality of the returned basis. -/
theorem basis_orthonormal_real (n : Nat) (a : Nat → ℝ) (j c c' : Nat)
    (hj : j < n) (hc : c < n - 1) (hc' : c' < n - 1) (haj : a j ≠ 0) :
    gramBasis Real.sqrt n a j c c' = if c = c' then 1 else 0 :=
  basis_orthonormal Real.sqrt n a j c c' hj hc hc' haj
    (isSqrtAt_real (dot_self_nonneg n a)) (isSqrtAt_real (dot_self_nonneg n _))

/-- **The models' basis** (`a_k = metric_k² · exp(log_v0_k)`, strip column 0, positive metric): always
    Euclidean-orthonormal, its stripped column is `-a/‖a‖` (the sign of `a_0 > 0` is `+1`), and `B Bᵀ`
    is the projector onto the Euclidean complement of `a`. -/
theorem manifold_basis_orthonormal (n : Nat) (metric logV0 : Nat → ℝ) (hn : 0 < n) (hm : ∀ k, 0 < metric k) :
    let a : Nat → ℝ := fun k => (metric k * metric k) * ExpLog.exp (logV0 k)
    (∀ c c', c < n - 1 → c' < n - 1 → gramBasis Real.sqrt n a 0 c c' = if c = c' then 1 else 0) ∧
    (∀ i, householderQ Real.sqrt n a 0 i 0 = -(a i / Real.sqrt (dot n a a))) ∧
    (∀ i k, i < n → k < n →
      projBasis Real.sqrt n a 0 i k = (if i = k then 1 else 0) - a i * a k / dot n a a) := by
  intro a
  have ha0 : 0 < a 0 := by
    show 0 < (metric 0 * metric 0) * Real.exp (logV0 0)
    have := hm 0
    positivity
  have h1 := isSqrtAt_real (dot_self_nonneg n a)
  have h2 := isSqrtAt_real (dot_self_nonneg n (hhU Real.sqrt n a 0))
  refine ⟨fun c c' hc hc' => basis_orthonormal_real n a 0 c c' hn hc hc' (ne_of_gt ha0), ?_, ?_⟩
  · intro i
    rw [(householderQ_col_j Real.sqrt n a 0 i hn (ne_of_gt ha0) h1 h2).2]
    have : sign (a 0) = 1 := by unfold sign; simp [ha0]
    rw [this]; ring
  · intro i k hi hk
    exact basis_projector Real.sqrt n a 0 i k hn hi hk (ne_of_gt ha0) h1 h2

/-- **Logistic / linear / joint** (`OrthoBasis("v0", "metric_sqr")`, strip column 0):
    the vector is `a_k = metric_k² · v0_k` with `v0_k = exp(log_v0_k) > 0`; for a positive metric
    (logistic: `(g+1)²/g` with `g = exp(·)`, linear: `1`) `a_0 ≠ 0` is automatic, and every space shift
    `w` satisfies `Σ_k w_k · metric_k² · v0_k = 0`, i.e. in logit space the shift `metric_k w_k` is
    orthogonal to the velocity `metric_k v0_k`: a space shift never mimics a time shift. -/
theorem manifold_spaceShift_orth (n ns : Nat) (metric logV0 : Nat → ℝ) (betas : Nat → Nat → ℝ)
    (src : Nat → ℝ) (hn : 0 < n) (hm : ∀ k, 0 < metric k) :
    let a : Nat → ℝ := fun k => (metric k * metric k) * ExpLog.exp (logV0 k)
    let w := spaceShift ns src (mixing n (basis Real.sqrt n a 0) betas)
    dot n w a = 0 ∧
    dot n (fun k => metric k * w k) (fun k => metric k * ExpLog.exp (logV0 k)) = 0 := by
  intro a w
  have ha0 : a 0 ≠ 0 := by
    have : 0 < a 0 := by
      show 0 < (metric 0 * metric 0) * Real.exp (logV0 0)
      have := hm 0
      positivity
    exact ne_of_gt this
  have h := spaceShift_orth_real n ns a 0 betas src hn ha0
  refine ⟨h, ?_⟩
  have : dot n (fun k => metric k * w k) (fun k => metric k * ExpLog.exp (logV0 k)) = dot n w a := by
    unfold dot
    congr 1
    funext k
    show metric k * w k * (metric k * ExpLog.exp (logV0 k)) = w k * (metric k * metric k * ExpLog.exp (logV0 k))
    ring
  rw [this, h]

/-- **Shared-speed logistic** (`OrthoBasis("collin_to_d_gamma_t0", "g_metric")`): with
    `g = exp(log_g)`, `de_k = exp(-delta_k)`, the vector is `a_k = g_metric_k · collin_k = metric_k / g > 0`,
    so the hypothesis holds and every space shift satisfies `Σ_k metric_k w_k = 0`: the shifts of the
    logits sum to zero, i.e. are orthogonal to the common direction of progression `(1,…,1)`.
    (No re-centring exists for this model: only this half of the property applies.) -/
theorem sharedSpeed_spaceShift_orth (n ns : Nat) (logG : ℝ) (delta : Nat → ℝ) (betas : Nat → Nat → ℝ)
    (src : Nat → ℝ) (hn : 0 < n) :
    let gde : Nat → ℝ := fun k => gDeltasExp (ExpLog.exp logG) (deltasExp (delta k))
    let a : Nat → ℝ := fun k => ssGMetric (ssGamma (ssDenom (gde k))) * ssCollin (deltasExp (delta k)) (ssDenom (gde k))
    let w := spaceShift ns src (mixing n (basis Real.sqrt n a 0) betas)
    (∀ k, a k = sharedMetric (gde k) / ExpLog.exp logG) ∧ dot n w a = 0 ∧
    dot n (fun k => sharedMetric (gde k) * w k) (fun _ => 1) = 0 := by
  intro gde a w
  have hg : 0 < Real.exp logG := Real.exp_pos _
  have hde : ∀ k, 0 < Real.exp (-(1:ℝ) * delta k) := fun k => Real.exp_pos _
  have hak : ∀ k, a k = sharedMetric (gde k) / ExpLog.exp logG := by
    intro k
    show ssGMetric (ssGamma (ssDenom (gDeltasExp (Real.exp logG) (Real.exp (-(1:ℝ) * delta k)))))
          * ssCollin (Real.exp (-(1:ℝ) * delta k)) (ssDenom (gDeltasExp (Real.exp logG) (Real.exp (-(1:ℝ) * delta k))))
        = sharedMetric (gDeltasExp (Real.exp logG) (Real.exp (-(1:ℝ) * delta k))) / Real.exp logG
    unfold ssGMetric ssGamma ssDenom ssCollin sharedMetric gDeltasExp
    have h1 := hde k
    set e := Real.exp (-(1:ℝ) * delta k)
    set g := Real.exp logG
    have h2 : (1 + g * e) ≠ 0 := by positivity
    have h3 : g ≠ 0 := ne_of_gt hg
    have h4 : e ≠ 0 := ne_of_gt h1
    have h5 : (1 : ℝ) - 1 / (1 + g * e) = g * e / (1 + g * e) := by field_simp; ring
    rw [h5]
    field_simp
    ring
  have hpos : ∀ k, 0 < a k := by
    intro k
    rw [hak k]
    have h1 := hde k
    have : 0 < sharedMetric (gde k) := by
      show 0 < sharedMetric (gDeltasExp (Real.exp logG) (Real.exp (-(1:ℝ) * delta k)))
      unfold sharedMetric gDeltasExp
      positivity
    exact div_pos this hg
  have h := spaceShift_orth_real n ns a 0 betas src hn (ne_of_gt (hpos 0))
  refine ⟨hak, h, ?_⟩
  have : dot n (fun k => sharedMetric (gde k) * w k) (fun _ => (1:ℝ)) = Real.exp logG * dot n w a := by
    rw [dot_eq_sum, dot_eq_sum, Finset.mul_sum]
    apply Finset.sum_congr rfl
    intro k _
    rw [hak k]
    show sharedMetric (gde k) * w k * 1 = Real.exp logG * (w k * (sharedMetric (gde k) / Real.exp logG))
    field_simp
  rw [this, h, mul_zero]

/-! ### non-vacuity: rational (Pythagorean) inputs, evaluated by the kernel -/

/-- `a = (7, 72/5, 96/5)`, `‖a‖ = 25`, `‖u‖ = 40`: the model is rational here, its two columns other
    than the first are orthogonal to `a`, and the hypotheses of `householder_orth` hold. -/
example :
    let sq : Rat → Rat := fun x => if x = 625 then 25 else if x = 1600 then 40 else 0
    let a : Nat → Rat := fun i => if i = 0 then 7 else if i = 1 then 72/5 else if i = 2 then 96/5 else 0
    IsSqrtAt sq (dot 3 a a) ∧ IsSqrtAt sq (dot 3 (hhU sq 3 a 0) (hhU sq 3 a 0)) ∧
    dot 3 (fun i => basis sq 3 a 0 i 0) a = 0 ∧ dot 3 (fun i => basis sq 3 a 0 i 1) a = 0 := by
  unfold IsSqrtAt
  decide +kernel

/-- centring a concrete cohort: mean zero afterwards -/
example : mean (center [(1 : Rat), 2, 6] [5, 7]).1 = 0 ∧ (center [(1 : Rat), 2, 6] [5, 7]).2 = [8, 10] := by
  decide +kernel

/-- gauge completeness on a concrete cohort: centring twice = once, centring after the shift by 5 = centring,
    `Σξ' = 0`, `Σξ'² = Σξ² − n·m²` (`41 − 3·9 = 14`) -/
example :
    center (center [(1 : Rat), 2, 6] [5, 7]).1 (center [(1 : Rat), 2, 6] [5, 7]).2 = center [(1 : Rat), 2, 6] [5, 7] ∧
    center (shift 5 [(1 : Rat), 2, 6] [5, 7]).1 (shift 5 [(1 : Rat), 2, 6] [5, 7]).2 = center [(1 : Rat), 2, 6] [5, 7] ∧
    Gauge.sum (suffXi [(1 : Rat), 2, 6] [5, 7]).1 = 0 ∧ Gauge.sum (suffXi [(1 : Rat), 2, 6] [5, 7]).2 = 14 ∧
    MStep.indVar 0 (suffXi [(1 : Rat), 2, 6] [5, 7]).1 (suffXi [(1 : Rat), 2, 6] [5, 7]).2 = 14 / 3 := by
  decide +kernel

/-- the hypotheses of `householderQ_orthogonal` / `basis_projector` are satisfiable: on the Pythagorean input the
    full `Q` is symmetric orthogonal, its stripped column is `a/α = -a/25`, and `B Bᵀ = I − a aᵀ/625` -/
example :
    let sq : Rat → Rat := fun x => if x = 625 then 25 else if x = 1600 then 40 else 0
    let a : Nat → Rat := fun i => if i = 0 then 7 else if i = 1 then 72/5 else if i = 2 then 96/5 else 0
    gramQ sq 3 a 0 0 0 = 1 ∧ gramQ sq 3 a 0 0 1 = 0 ∧ gramQ sq 3 a 0 1 2 = 0 ∧ gramQ sq 3 a 0 2 2 = 1 ∧
    hhAlpha sq 3 a 0 = -25 ∧ householderQ sq 3 a 0 1 0 = -(72/5) / 25 ∧
    projBasis sq 3 a 0 0 1 = -(7 * (72/5)) / 625 ∧ projBasis sq 3 a 0 2 2 = 1 - (96/5) * (96/5) / 625 := by
  decide +kernel

end LeaspyVerif.C10
