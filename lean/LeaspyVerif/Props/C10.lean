/-
C10 — re-centring is a pure gauge change; space shifts are orthogonal to progression.
Property theorems only (helper lemmas are private).  Models: `Model/Gauge.lean` (centring,
Householder basis, mixing matrix, space shifts), `Model/Traj.lean` (the formulas the gauge acts on).

Exact arithmetic over an ordered field / the reals; floating-point rounding is not modelled.
-/
import LeaspyVerif.Model.Traj
import LeaspyVerif.Model.Gauge
import LeaspyVerif.Lemmas.TrajReal
import Mathlib.Analysis.SpecialFunctions.Exp
import Mathlib.Analysis.SpecialFunctions.Log.Basic
import Mathlib.Analysis.Real.Sqrt
import Mathlib.Tactic.Ring
import Mathlib.Tactic.Linarith
import Mathlib.Tactic.Positivity
import Mathlib.Tactic.FieldSimp

namespace LeaspyVerif.C10
open LeaspyVerif.Traj LeaspyVerif.TrajReal LeaspyVerif.Gauge

set_option linter.unusedSectionVars false

/-! ## Re-centring -/

section Center
variable {K : Type} [Field K] [LinearOrder K] [IsStrictOrderedRing K]

private theorem natLit_eq_cast (n : Nat) : (natLit n : K) = (n : K) := by
  induction n with
  | zero => simp [natLit]
  | succ n ih => simp [natLit, ih]

private theorem sum_map_sub (l : List K) (m : K) :
    Gauge.sum (l.map (· - m)) = Gauge.sum l - (l.length : K) * m := by
  induction l with
  | nil => simp [Gauge.sum]
  | cons x xs ih =>
    have h1 : Gauge.sum ((x :: xs).map (· - m)) = (x - m) + Gauge.sum (xs.map (· - m)) := rfl
    have h2 : Gauge.sum (x :: xs) = x + Gauge.sum xs := rfl
    rw [h1, h2, ih, List.length_cons]
    push_cast
    ring

/-- After the re-centring the log-accelerations have mean zero (non-empty cohort; on an empty one
    `torch.mean` is `nan`). -/
theorem center_mean_zero (xi logV0 : List K) (hne : xi ≠ []) :
    mean (center xi logV0).1 = 0 := by
  have hn : (xi.length : K) ≠ 0 := by
    have : xi.length ≠ 0 := by
      intro h; exact hne (List.length_eq_zero_iff.mp h)
    exact_mod_cast this
  show mean (xi.map (· - mean xi)) = 0
  unfold mean
  rw [sum_map_sub, List.length_map, natLit_eq_cast]
  field_simp
  ring

/-- the joint model's centring acts on `xi` and `log_v0` exactly as the manifold model's, and adds
    the same constant to `n_log_nu` -/
theorem centerJoint_components (xi logV0 nLogNu : List K) :
    (centerJoint xi logV0 nLogNu).1 = (center xi logV0).1 ∧
    (centerJoint xi logV0 nLogNu).2.1 = (center xi logV0).2 ∧
    (centerJoint xi logV0 nLogNu).2.2 = nLogNu.map (· + mean xi) :=
  ⟨rfl, rfl, rfl⟩

/-- … hence the joint centring also yields mean zero -/
theorem centerJoint_mean_zero (xi logV0 nLogNu : List K) (hne : xi ≠ []) :
    mean (centerJoint xi logV0 nLogNu).1 = 0 :=
  center_mean_zero xi logV0 hne

end Center

/-- The gauge identity: shifting `log_v0` up and `xi` down by the same constant leaves
    `v0 * alpha` unchanged. -/
theorem center_preserves_v0alpha (lv xi m : ℝ) :
    (ExpLog.exp (lv + m) : ℝ) * alpha (xi - m) = ExpLog.exp lv * alpha xi := by
  unfold alpha
  simp only [exp_eq]
  rw [← Real.exp_add, ← Real.exp_add]
  congr 1
  ring

/-- … hence `v0 * rt` is unchanged at every age -/
theorem center_preserves_v0rt (lv xi m t tau : ℝ) :
    (ExpLog.exp (lv + m) : ℝ) * rt (alpha (xi - m)) t tau = ExpLog.exp lv * rt (alpha xi) t tau := by
  unfold rt
  rw [← mul_assoc, center_preserves_v0alpha, mul_assoc]

/-- … hence every logistic model value is unchanged (metric and `g` are not touched) -/
theorem center_preserves_logistic (metric g lv xi m t tau w : ℝ) :
    logisticVal metric (ExpLog.exp (lv + m)) g (rt (alpha (xi - m)) t tau) w
      = logisticVal metric (ExpLog.exp lv) g (rt (alpha xi) t tau) w := by
  unfold logisticVal
  rw [center_preserves_v0rt]

/-- … and every linear model value -/
theorem center_preserves_linear (g lv xi m t tau w : ℝ) :
    linearVal g (ExpLog.exp (lv + m)) (rt (alpha (xi - m)) t tau) w
      = linearVal g (ExpLog.exp lv) (rt (alpha xi) t tau) w := by
  unfold linearVal
  rw [center_preserves_v0rt]

private theorem zip3With?_map_mid {α β γ δ : Type} (f : α → β → γ → δ) (h : β → β) :
    ∀ (as : List α) (bs : List β) (cs : List γ),
      zip3With? f as (bs.map h) cs = zip3With? (fun a b c => f a (h b) c) as bs cs := by
  intro as
  induction as with
  | nil => intro bs cs; cases bs <;> cases cs <;> simp [zip3With?]
  | cons a as ih =>
    intro bs cs
    cases bs with
    | nil => cases cs <;> simp [zip3With?]
    | cons b bs =>
      cases cs with
      | nil => simp [zip3With?]
      | cons c cs => simp [zip3With?, ih]

/-- Whole trajectories, as computed by the code from the state *after* `_center_xi_realizations`
    (`center` applied to the whole cohort's `xi` and to `log_v0`): for every individual — whatever its
    `xi`, `tau`, space shift and ages — the logistic trajectory is the one before the centring. -/
theorem center_preserves_logisticTraj (xis logG logV0 w : List ℝ) (xi tau : ℝ) (ages : List ℝ) :
    logisticTraj logG (center xis logV0).2 w (xi - mean xis) tau ages
      = logisticTraj logG logV0 w xi tau ages := by
  show logisticTraj logG (logV0.map (· + mean xis)) w (xi - mean xis) tau ages = _
  unfold logisticTraj
  congr 1
  funext t
  rw [zip3With?_map_mid]
  congr 1
  funext lg lv wk
  exact center_preserves_logistic _ _ lv xi (mean xis) t tau wk

/-- the same for the linear model -/
theorem center_preserves_linearTraj (xis g logV0 w : List ℝ) (xi tau : ℝ) (ages : List ℝ) :
    linearTraj g (center xis logV0).2 w (xi - mean xis) tau ages
      = linearTraj g logV0 w xi tau ages := by
  show linearTraj g (logV0.map (· + mean xis)) w (xi - mean xis) tau ages = _
  unfold linearTraj
  congr 1
  funext t
  rw [zip3With?_map_mid]
  congr 1
  funext gk lv wk
  exact center_preserves_linear gk lv xi (mean xis) t tau wk

/-- Attachment terms are functions of the model values and of the (untouched) data only, hence
    unchanged: stated for an arbitrary such function, logistic (also the longitudinal part of the
    joint model, which is the logistic model) and linear. -/
theorem center_preserves_attachment {β : Type} (nll : Option (List (List ℝ)) → β)
    (xis pop logV0 w : List ℝ) (xi tau : ℝ) (ages : List ℝ) :
    nll (logisticTraj pop (center xis logV0).2 w (xi - mean xis) tau ages)
      = nll (logisticTraj pop logV0 w xi tau ages) ∧
    nll (linearTraj pop (center xis logV0).2 w (xi - mean xis) tau ages)
      = nll (linearTraj pop logV0 w xi tau ages) := by
  rw [center_preserves_logisticTraj, center_preserves_linearTraj]
  exact ⟨rfl, rfl⟩

/-- Joint model, Weibull event sub-model without sources: the joint centring (`xi - m`,
    `n_log_nu + m`) leaves the reparametrised scale `exp(-xi) * nu`, `nu = exp(-n_log_nu)`, unchanged;
    the reparametrised event time `event - tau` does not involve the centred variables at all. -/
theorem centerJoint_preserves_nuRep (nLogNu xi m : ℝ) :
    nuRep (nuOf (nLogNu + m)) (xi - m) = nuRep (nuOf nLogNu) xi := by
  unfold nuRep nuOf
  simp only [exp_eq]
  rw [← Real.exp_add, ← Real.exp_add]
  congr 1
  ring

/-- … and with sources (`nu * exp(-(xi + (1/rho) * survival_shift))`), for every `rho` and shift. -/
theorem centerJoint_preserves_nuRepSources (nLogNu rho xi s m : ℝ) :
    nuRepSources (nuOf (nLogNu + m)) rho (xi - m) s = nuRepSources (nuOf nLogNu) rho xi s := by
  unfold nuRepSources nuOf
  simp only [exp_eq]
  rw [← Real.exp_add, ← Real.exp_add]
  congr 1
  ring

/-- What the compensation is for: had `n_log_nu` *not* been shifted, the event scale would change by
    the factor `exp m` (so a seeded change that forgets it is visible in every event likelihood). -/
theorem centerJoint_without_compensation (nLogNu xi m : ℝ) :
    nuRep (nuOf nLogNu) (xi - m) = Real.exp m * nuRep (nuOf nLogNu) xi := by
  unfold nuRep nuOf
  simp only [exp_eq]
  rw [← Real.exp_add, ← Real.exp_add, ← Real.exp_add]
  congr 1
  ring

/-! ## Orthogonality of the space shifts -/

section Ortho
variable {K : Type} [Field K] [LinearOrder K] [IsStrictOrderedRing K]

private theorem sumTo_eq_sum (n : Nat) (f : Nat → K) : sumTo n f = ∑ i ∈ Finset.range n, f i := by
  induction n with
  | zero => simp [sumTo]
  | succ n ih => rw [sumTo, ih, Finset.sum_range_succ]

private theorem dot_eq_sum (n : Nat) (a b : Nat → K) : dot n a b = ∑ i ∈ Finset.range n, a i * b i :=
  sumTo_eq_sum n _

private theorem sign_mul_self {x : K} (hx : x ≠ 0) : sign x * sign x = 1 := by
  unfold sign
  rcases lt_trichotomy 0 x with h | h | h
  · simp [h]
  · exact absurd h.symm hx
  · simp [h, not_lt.mpr (le_of_lt h)]

private theorem sign_mul_nonneg (x : K) : 0 ≤ sign x * x := by
  unfold sign
  rcases lt_trichotomy 0 x with h | h | h
  · simp [h, le_of_lt h]
  · simp [← h]
  · simp [h, not_lt.mpr (le_of_lt h), le_of_lt h]

/-- `sqrt` behaves as a non-negative square root at `x` -/
def IsSqrtAt (sqrt : K → K) (x : K) : Prop := 0 ≤ sqrt x ∧ sqrt x * sqrt x = x

private theorem dot_self_pos (n : Nat) (a : Nat → K) (j : Nat) (hj : j < n) (haj : a j ≠ 0) :
    0 < dot n a a := by
  rw [dot_eq_sum]
  apply Finset.sum_pos'
  · intro i _; exact mul_self_nonneg _
  · exact ⟨j, Finset.mem_range.mpr hj, mul_self_pos.mpr haj⟩

/-- the two scalar facts the Householder construction rests on: `‖u‖² = 2⟨u,a⟩` and `‖u‖² > 0` -/
private theorem hh_key (sqrt : K → K) (n : Nat) (a : Nat → K) (j : Nat) (hj : j < n) (haj : a j ≠ 0)
    (h1 : IsSqrtAt sqrt (dot n a a)) :
    dot n (hhU sqrt n a j) (hhU sqrt n a j) = 2 * dot n (hhU sqrt n a j) a ∧
    0 < dot n (hhU sqrt n a j) (hhU sqrt n a j) := by
  set al := hhAlpha sqrt n a j with hal
  set S := dot n a a with hS
  have hSpos : 0 < S := dot_self_pos n a j hj haj
  -- al² = S
  have hal2 : al * al = S := by
    rw [hal]; unfold hhAlpha
    have := sign_mul_self haj
    calc -(sign (a j)) * sqrt S * (-(sign (a j)) * sqrt S)
        = (sign (a j) * sign (a j)) * (sqrt S * sqrt S) := by ring
      _ = S := by rw [this, h1.2]; ring
  -- -al * a j ≥ 0
  have halaj : 0 ≤ -(al * a j) := by
    rw [hal]; unfold hhAlpha
    have h := mul_nonneg (sign_mul_nonneg (a j)) h1.1
    calc (0 : K) ≤ sign (a j) * a j * sqrt S := h
      _ = -(-(sign (a j)) * sqrt S * a j) := by ring
  have hua : dot n (hhU sqrt n a j) a = S - al * a j := by
    rw [dot_eq_sum, hS, dot_eq_sum]
    unfold hhU
    rw [← hal]
    have : ∀ i ∈ Finset.range n, (a i - al * (if i = j then 1 else 0)) * a i
        = a i * a i - (if i = j then al * a j else 0) := by
      intro i _
      by_cases hij : i = j
      · subst hij; simp; ring
      · simp [hij]
    rw [Finset.sum_congr rfl this, Finset.sum_sub_distrib, Finset.sum_ite_eq']
    simp [Finset.mem_range.mpr hj]
  have huu : dot n (hhU sqrt n a j) (hhU sqrt n a j) = S - 2 * (al * a j) + al * al := by
    rw [dot_eq_sum, hS, dot_eq_sum]
    unfold hhU
    rw [← hal]
    have : ∀ i ∈ Finset.range n,
        (a i - al * (if i = j then 1 else 0)) * (a i - al * (if i = j then 1 else 0))
        = a i * a i - (if i = j then 2 * (al * a j) - al * al else 0) := by
      intro i _
      by_cases hij : i = j
      · subst hij; simp; ring
      · simp [hij]
    rw [Finset.sum_congr rfl this, Finset.sum_sub_distrib, Finset.sum_ite_eq']
    simp [Finset.mem_range.mpr hj]
    ring
  constructor
  · rw [huu, hua, hal2]; ring
  · rw [huu, hal2]; linarith

/-- **Householder orthogonality.**  For `a_j ≠ 0` (and `sqrt` a genuine square root at the two norms the
    code takes), every column `k ≠ j` of `Q` is orthogonal to `a`, for the canonical inner product.
    Pure field algebra: `‖u‖² = 2⟨u,a⟩`. -/
theorem householder_orth (sqrt : K → K) (n : Nat) (a : Nat → K) (j k : Nat)
    (hj : j < n) (hk : k < n) (hkj : k ≠ j) (haj : a j ≠ 0)
    (h1 : IsSqrtAt sqrt (dot n a a))
    (h2 : IsSqrtAt sqrt (dot n (hhU sqrt n a j) (hhU sqrt n a j))) :
    dot n (fun i => householderQ sqrt n a j i k) a = 0 := by
  obtain ⟨hkey, hpos⟩ := hh_key sqrt n a j hj haj h1
  set u := hhU sqrt n a j with hu
  set N := dot n u u with hN
  have hnu : sqrt N ≠ 0 := by
    intro h0
    have := h2.2
    rw [h0, mul_zero] at this
    exact absurd this.symm (ne_of_gt hpos)
  have huk : u k = a k := by
    rw [hu]; unfold hhU; simp [hkj]
  rw [dot_eq_sum]
  unfold householderQ
  simp only [← hu, ← hN]
  have hterm : ∀ i ∈ Finset.range n,
      ((if i = k then (1 : K) else 0) - (1 + 1) * (u i / sqrt N) * (u k / sqrt N)) * a i
        = (if i = k then a k else 0) - (2 * u k / (sqrt N * sqrt N)) * (u i * a i) := by
    intro i _
    by_cases hik : i = k
    · subst hik; simp; field_simp; ring
    · simp [hik]; field_simp; ring
  rw [Finset.sum_congr rfl hterm, Finset.sum_sub_distrib, Finset.sum_ite_eq', ← Finset.mul_sum,
    ← dot_eq_sum, h2.2]
  simp only [Finset.mem_range.mpr hk, if_true]
  have hN0 : N ≠ 0 := ne_of_gt hpos
  rw [huk]
  have : dot n u a = N / 2 := by rw [hkey]; ring
  rw [this]
  field_simp
  ring

/-- Every column of the returned basis (the `n-1` columns of `Q` other than `j`) is orthogonal to `a`. -/
theorem basis_cols_orth (sqrt : K → K) (n : Nat) (a : Nat → K) (j c : Nat)
    (hj : j < n) (hc : c < n - 1) (haj : a j ≠ 0)
    (h1 : IsSqrtAt sqrt (dot n a a))
    (h2 : IsSqrtAt sqrt (dot n (hhU sqrt n a j) (hhU sqrt n a j))) :
    dot n (fun i => basis sqrt n a j i c) a = 0 := by
  unfold basis
  by_cases hcj : c < j
  · simp only [hcj, if_true]
    exact householder_orth sqrt n a j c hj (by omega) (by omega) haj h1 h2
  · simp only [hcj, if_false]
    exact householder_orth sqrt n a j (c + 1) hj (by omega) (by omega) haj h1 h2

/-- Every row of the mixing matrix is orthogonal to `a`, **for every `betas`**, as soon as the
    columns of the basis are. -/
theorem mixing_rows_orth (n : Nat) (B betas : Nat → Nat → K) (a : Nat → K) (s : Nat)
    (hB : ∀ c, c < n - 1 → dot n (fun i => B i c) a = 0) :
    dot n (mixing n B betas s) a = 0 := by
  rw [dot_eq_sum]
  unfold mixing
  simp only [sumTo_eq_sum]
  have : ∀ k ∈ Finset.range n, (∑ c ∈ Finset.range (n - 1), B k c * betas c s) * a k
      = ∑ c ∈ Finset.range (n - 1), betas c s * (B k c * a k) := by
    intro k _
    rw [Finset.sum_mul]
    apply Finset.sum_congr rfl
    intro c _; ring
  rw [Finset.sum_congr rfl this, Finset.sum_comm]
  apply Finset.sum_eq_zero
  intro c hc
  rw [← Finset.mul_sum]
  have := hB c (Finset.mem_range.mp hc)
  rw [dot_eq_sum] at this
  rw [this, mul_zero]

/-- Every individual space shift is orthogonal to `a`, **for every `sources`**. -/
theorem spaceShift_orth (n ns : Nat) (src : Nat → K) (M : Nat → Nat → K) (a : Nat → K)
    (hM : ∀ s, s < ns → dot n (M s) a = 0) :
    dot n (spaceShift ns src M) a = 0 := by
  rw [dot_eq_sum]
  unfold spaceShift
  simp only [sumTo_eq_sum]
  have : ∀ k ∈ Finset.range n, (∑ s ∈ Finset.range ns, src s * M s k) * a k
      = ∑ s ∈ Finset.range ns, src s * (M s k * a k) := by
    intro k _
    rw [Finset.sum_mul]
    apply Finset.sum_congr rfl
    intro s _; ring
  rw [Finset.sum_congr rfl this, Finset.sum_comm]
  apply Finset.sum_eq_zero
  intro s hs
  rw [← Finset.mul_sum]
  have := hM s (Finset.mem_range.mp hs)
  rw [dot_eq_sum] at this
  rw [this, mul_zero]

/-- The chain as the code composes it: basis from `a` and strip column `j`, mixing matrix from any
    `betas`, space shift from any `sources` — orthogonal to `a`. -/
theorem spaceShift_orth_of_householder (sqrt : K → K) (n ns : Nat) (a : Nat → K) (j : Nat)
    (betas : Nat → Nat → K) (src : Nat → K)
    (hj : j < n) (haj : a j ≠ 0)
    (h1 : IsSqrtAt sqrt (dot n a a))
    (h2 : IsSqrtAt sqrt (dot n (hhU sqrt n a j) (hhU sqrt n a j))) :
    dot n (spaceShift ns src (mixing n (basis sqrt n a j) betas)) a = 0 :=
  spaceShift_orth n ns src _ a fun s _ =>
    mixing_rows_orth n _ betas a s fun c hc => basis_cols_orth sqrt n a j c hj hc haj h1 h2

/-- The excluded point is genuinely excluded: with `a_j = 0`, `torch.sign` gives 0, `alpha = 0`,
    `u = a`, and the columns are *not* orthogonal to `a` (`a = (0,1)`, `j = 0`: `⟨Q e_1, a⟩ = -1`). -/
theorem householder_degenerate_counterexample :
    dot 2 (fun i => householderQ (fun x : Rat => x) 2 (fun i => if i = 1 then 1 else 0) 0 i 1)
      (fun i => if i = 1 then 1 else 0) = -1 := by
  decide +kernel

end Ortho

/-! ### over the reals, with the vectors the models pass to `OrthoBasis` -/

private theorem isSqrtAt_real {x : ℝ} (hx : 0 ≤ x) : IsSqrtAt Real.sqrt x :=
  ⟨Real.sqrt_nonneg x, Real.mul_self_sqrt hx⟩

private theorem dot_self_nonneg (n : Nat) (a : Nat → ℝ) : 0 ≤ dot n a a := by
  induction n with
  | zero => simp [dot, sumTo]
  | succ n ih =>
    have : dot (n + 1) a a = dot n a a + a n * a n := rfl
    rw [this]
    have := mul_self_nonneg (a n)
    linarith

/-- Over the reals with the true square root the only hypothesis left is `a_j ≠ 0`. -/
theorem spaceShift_orth_real (n ns : Nat) (a : Nat → ℝ) (j : Nat) (betas : Nat → Nat → ℝ)
    (src : Nat → ℝ) (hj : j < n) (haj : a j ≠ 0) :
    dot n (spaceShift ns src (mixing n (basis Real.sqrt n a j) betas)) a = 0 :=
  spaceShift_orth_of_householder Real.sqrt n ns a j betas src hj haj
    (isSqrtAt_real (dot_self_nonneg n a)) (isSqrtAt_real (dot_self_nonneg n _))

/-- **Logistic / linear / joint** (`OrthoBasis("v0", "metric_sqr")`, strip column 0):
    the vector is `a_k = metric_k² · v0_k` with `v0_k = exp(log_v0_k) > 0`; for a positive metric
    (logistic: `(g+1)²/g` with `g = exp(·)`, linear: `1`) `a_0 ≠ 0` is automatic, and every space shift
    `w` satisfies `Σ_k w_k · metric_k² · v0_k = 0`, i.e. in logit space the shift `metric_k w_k` is
    orthogonal to the velocity `metric_k v0_k`: a space shift never mimics a time shift. -/
theorem manifold_spaceShift_orth (n ns : Nat) (metric logV0 : Nat → ℝ) (betas : Nat → Nat → ℝ)
    (src : Nat → ℝ) (hn : 0 < n) (hm : ∀ k, 0 < metric k) :
    let a : Nat → ℝ := fun k => (metric k * metric k) * ExpLog.exp (logV0 k)
    let w := spaceShift ns src (mixing n (basis Real.sqrt n a 0) betas)
    dot n w a = 0 ∧
    dot n (fun k => metric k * w k) (fun k => metric k * ExpLog.exp (logV0 k)) = 0 := by
  intro a w
  have ha0 : a 0 ≠ 0 := by
    have : 0 < a 0 := by
      show 0 < (metric 0 * metric 0) * Real.exp (logV0 0)
      have := hm 0
      positivity
    exact ne_of_gt this
  have h := spaceShift_orth_real n ns a 0 betas src hn ha0
  refine ⟨h, ?_⟩
  have : dot n (fun k => metric k * w k) (fun k => metric k * ExpLog.exp (logV0 k)) = dot n w a := by
    unfold dot
    congr 1
    funext k
    show metric k * w k * (metric k * ExpLog.exp (logV0 k)) = w k * (metric k * metric k * ExpLog.exp (logV0 k))
    ring
  rw [this, h]

/-- **Shared-speed logistic** (`OrthoBasis("collin_to_d_gamma_t0", "g_metric")`): with
    `g = exp(log_g)`, `de_k = exp(-delta_k)`, the vector is `a_k = g_metric_k · collin_k = metric_k / g > 0`,
    so the hypothesis holds and every space shift satisfies `Σ_k metric_k w_k = 0`: the shifts of the
    logits sum to zero, i.e. are orthogonal to the common direction of progression `(1,…,1)`.
    (No re-centring exists for this model: only this half of the property applies.) -/
theorem sharedSpeed_spaceShift_orth (n ns : Nat) (logG : ℝ) (delta : Nat → ℝ) (betas : Nat → Nat → ℝ)
    (src : Nat → ℝ) (hn : 0 < n) :
    let gde : Nat → ℝ := fun k => gDeltasExp (ExpLog.exp logG) (deltasExp (delta k))
    let a : Nat → ℝ := fun k => ssGMetric (ssGamma (ssDenom (gde k))) * ssCollin (deltasExp (delta k)) (ssDenom (gde k))
    let w := spaceShift ns src (mixing n (basis Real.sqrt n a 0) betas)
    (∀ k, a k = sharedMetric (gde k) / ExpLog.exp logG) ∧ dot n w a = 0 ∧
    dot n (fun k => sharedMetric (gde k) * w k) (fun _ => 1) = 0 := by
  intro gde a w
  have hg : 0 < Real.exp logG := Real.exp_pos _
  have hde : ∀ k, 0 < Real.exp (-(1:ℝ) * delta k) := fun k => Real.exp_pos _
  have hak : ∀ k, a k = sharedMetric (gde k) / ExpLog.exp logG := by
    intro k
    show ssGMetric (ssGamma (ssDenom (gDeltasExp (Real.exp logG) (Real.exp (-(1:ℝ) * delta k)))))
          * ssCollin (Real.exp (-(1:ℝ) * delta k)) (ssDenom (gDeltasExp (Real.exp logG) (Real.exp (-(1:ℝ) * delta k))))
        = sharedMetric (gDeltasExp (Real.exp logG) (Real.exp (-(1:ℝ) * delta k))) / Real.exp logG
    unfold ssGMetric ssGamma ssDenom ssCollin sharedMetric gDeltasExp
    have h1 := hde k
    set e := Real.exp (-(1:ℝ) * delta k)
    set g := Real.exp logG
    have h2 : (1 + g * e) ≠ 0 := by positivity
    have h3 : g ≠ 0 := ne_of_gt hg
    have h4 : e ≠ 0 := ne_of_gt h1
    have h5 : (1 : ℝ) - 1 / (1 + g * e) = g * e / (1 + g * e) := by field_simp; ring
    rw [h5]
    field_simp
    ring
  have hpos : ∀ k, 0 < a k := by
    intro k
    rw [hak k]
    have h1 := hde k
    have : 0 < sharedMetric (gde k) := by
      show 0 < sharedMetric (gDeltasExp (Real.exp logG) (Real.exp (-(1:ℝ) * delta k)))
      unfold sharedMetric gDeltasExp
      positivity
    exact div_pos this hg
  have h := spaceShift_orth_real n ns a 0 betas src hn (ne_of_gt (hpos 0))
  refine ⟨hak, h, ?_⟩
  have : dot n (fun k => sharedMetric (gde k) * w k) (fun _ => (1:ℝ)) = Real.exp logG * dot n w a := by
    rw [dot_eq_sum, dot_eq_sum, Finset.mul_sum]
    apply Finset.sum_congr rfl
    intro k _
    rw [hak k]
    show sharedMetric (gde k) * w k * 1 = Real.exp logG * (w k * (sharedMetric (gde k) / Real.exp logG))
    field_simp
  rw [this, h, mul_zero]

/-! ### non-vacuity: rational (Pythagorean) inputs, evaluated by the kernel -/

/-- `a = (7, 72/5, 96/5)`, `‖a‖ = 25`, `‖u‖ = 40`: the model is rational here, its two columns other
    than the first are orthogonal to `a`, and the hypotheses of `householder_orth` hold. -/
example :
    let sq : Rat → Rat := fun x => if x = 625 then 25 else if x = 1600 then 40 else 0
    let a : Nat → Rat := fun i => if i = 0 then 7 else if i = 1 then 72/5 else if i = 2 then 96/5 else 0
    IsSqrtAt sq (dot 3 a a) ∧ IsSqrtAt sq (dot 3 (hhU sq 3 a 0) (hhU sq 3 a 0)) ∧
    dot 3 (fun i => basis sq 3 a 0 i 0) a = 0 ∧ dot 3 (fun i => basis sq 3 a 0 i 1) a = 0 := by
  unfold IsSqrtAt
  decide +kernel

/-- centring a concrete cohort: mean zero afterwards -/
example : mean (center [(1 : Rat), 2, 6] [5, 7]).1 = 0 ∧ (center [(1 : Rat), 2, 6] [5, 7]).2 = [8, 10] := by
  decide +kernel

end LeaspyVerif.C10
