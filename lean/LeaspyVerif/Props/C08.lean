/-
C08 — likelihood terms are the negative log-densities of the documented distributions.
Property theorems only (helper lemmas are private).  Model: `Model/Dist.lean`.

The theorems are about the definitions of `Model/Dist.lean` instantiated at `ℝ`
(`Transc ℝ` below: `Real.exp`, `Real.log`, `Real.sqrt`, `Real.rpow`, `Real.pi`);
the driver runs the same definitions at `Float`.  Rounding is not modelled.
-/
import LeaspyVerif.Model.Dist
import Mathlib.Analysis.SpecialFunctions.Log.Basic
import Mathlib.Analysis.SpecialFunctions.Pow.Real
import Mathlib.Analysis.SpecialFunctions.Exp
import Mathlib.Analysis.SpecialFunctions.Pow.Deriv
import Mathlib.Probability.Distributions.Gaussian.Real

namespace LeaspyVerif.C08
open LeaspyVerif.Dist ProbabilityTheory

noncomputable instance instTranscReal : Transc ℝ where
  exp := Real.exp
  log := Real.log
  sqrt := Real.sqrt
  pow := fun x y => x ^ y
  pi := Real.pi

/-! ## Reference densities (written out; Mathlib has the Gaussian one) -/

/-- Weibull hazard with scale `ν` and shape `ρ`: `h(t) = (ρ/ν) (t/ν)^(ρ-1)`. -/
noncomputable def weibullHazardFn (ν ρ t : ℝ) : ℝ := (ρ / ν) * (t / ν) ^ (ρ - 1)

/-- Weibull survival function `S(t) = exp(-(t/ν)^ρ)`. -/
noncomputable def weibullSurvivalFn (ν ρ t : ℝ) : ℝ := Real.exp (-((t / ν) ^ ρ))

/-- Bernoulli probability mass `p^y (1-p)^(1-y)`. -/
noncomputable def bernoulliPmf (p y : ℝ) : ℝ := p ^ y * (1 - p) ^ (1 - y)

/-! ## Normal family -/

/-- `NormalFamily._nll` is minus the log of the Gaussian density with mean `μ` and variance `σ²`
    (Mathlib's `gaussianPDFReal`), for every `x`, `μ` and `σ > 0`. -/
theorem normalNll_eq_neg_log_pdf (x μ σ : ℝ) (hσ : 0 < σ) :
    normalNll x μ σ = - Real.log (gaussianPDFReal μ (Real.toNNReal (σ ^ 2)) x) := by
  have h2pi : (0:ℝ) < 2 * Real.pi := by positivity
  have hs2 : (0:ℝ) < σ ^ 2 := by positivity
  have hR : Real.log (gaussianPDFReal μ (Real.toNNReal (σ ^ 2)) x)
      = -(1/2 * (Real.log (2 * Real.pi) + 2 * Real.log σ)) + -(x - μ) ^ 2 / (2 * σ ^ 2) := by
    rw [gaussianPDFReal_def]
    simp only [Real.coe_toNNReal _ (sq_nonneg σ)]
    rw [Real.log_mul (by positivity) (by positivity), Real.log_inv, Real.log_exp,
      Real.sqrt_eq_rpow, Real.log_rpow (by positivity), Real.log_mul (by positivity) (by positivity),
      Real.log_pow]
    norm_num
  rw [hR]
  unfold normalNll normalNllWith nllConstantStandard
  simp only [Transc.log, Transc.pi]
  norm_num
  field_simp
  ring

/-- Consequently `exp(-nll)` *is* the Gaussian density, and it integrates to one: no term
    (`log σ`, the constant) is missing or in excess. -/
theorem normalNll_density_normalised (μ σ : ℝ) (hσ : 0 < σ) :
    ∫ x, Real.exp (-(normalNll x μ σ)) = 1 := by
  have hv : Real.toNNReal (σ ^ 2) ≠ 0 := by
    simp only [ne_eq, Real.toNNReal_eq_zero, not_le]; positivity
  have : (fun x => Real.exp (-(normalNll x μ σ))) = gaussianPDFReal μ (Real.toNNReal (σ ^ 2)) := by
    funext x
    rw [normalNll_eq_neg_log_pdf x μ σ hσ, neg_neg, Real.exp_log (gaussianPDFReal_pos μ _ x hv)]
  rw [this]
  exact integral_gaussianPDFReal_eq_one μ hv

/-- `NormalFamily._nll_jacobian` is the derivative of `_nll` with respect to the value. -/
theorem normalNllJac_hasDerivAt (x μ σ : ℝ) (hσ : σ ≠ 0) :
    HasDerivAt (fun x => normalNll x μ σ) (normalNllJac x μ σ) x := by
  unfold normalNll normalNllWith normalNllJac
  have h1 : HasDerivAt (fun x : ℝ => (x - μ) / σ) (1 / σ) x :=
    ((hasDerivAt_id x).sub_const μ).div_const σ
  have h2 : HasDerivAt
      (fun x : ℝ => 0.5 * (((x - μ) / σ) * ((x - μ) / σ)) + Transc.log σ + (nllConstantStandard : ℝ))
      (0.5 * (1 / σ * ((x - μ) / σ) + (x - μ) / σ * (1 / σ))) x :=
    (((h1.mul h1).const_mul (0.5 : ℝ)).add_const (Transc.log σ)).add_const (nllConstantStandard : ℝ)
  have e : (x - μ) / (σ * σ) = 0.5 * (1 / σ * ((x - μ) / σ) + (x - μ) / σ * (1 / σ)) := by
    field_simp
    norm_num
    ring
  rw [e]
  exact h2

/-- The two jacobian expressions of the code (`_nll_jacobian`, `_nll_and_jacobian`) agree. -/
theorem normalNllJac_forms_agree (x μ σ : ℝ) : normalNllJacZ x μ σ = normalNllJac x μ σ := by
  unfold normalNllJacZ normalNllJac
  rw [div_div]

/-! ## Bernoulli family -/

private theorem clampProb_mem (ε p : ℝ) (hε : ε ≤ 1 / 2) :
    ε ≤ clampProb ε p ∧ clampProb ε p ≤ 1 - ε := by
  unfold clampProb
  norm_num
  split_ifs with h1 h2
  · constructor <;> linarith
  · constructor <;> linarith
  · constructor <;> linarith

private theorem bce_logit (q y : ℝ) (h0 : 0 < q) (h1 : q < 1) (hy : y = 0 ∨ y = 1) :
    bceWithLogits (logit q) y = - Real.log (bernoulliPmf q y) := by
  have h1q : 0 < 1 - q := by linarith
  unfold bceWithLogits logit bernoulliPmf
  simp only [Transc.log, Transc.exp]
  norm_num
  have hexp : Real.exp (Real.log (1 - q) - Real.log q) = (1 - q) / q := by
    rw [Real.exp_sub, Real.exp_log h1q, Real.exp_log h0]
  have hlog : Real.log (1 + (1 - q) / q) = - Real.log q := by
    have : 1 + (1 - q) / q = q⁻¹ := by field_simp; ring
    rw [this, Real.log_inv]
  rw [hexp, hlog]
  rcases hy with rfl | rfl
  · simp; ring
  · simp

/-- Inside the clamp (`ε ≤ p ≤ 1-ε`, `ε > 0`) the Bernoulli term is minus the log of the
    Bernoulli mass `p^y (1-p)^(1-y)` for `y ∈ {0,1}`. -/
theorem bernoulliNll_eq (ε p y : ℝ) (hε : 0 < ε) (hp0 : ε ≤ p) (hp1 : p ≤ 1 - ε)
    (hy : y = 0 ∨ y = 1) :
    bernoulliNll ε p y = - Real.log (bernoulliPmf p y) := by
  have hc : clampProb ε p = p := by
    unfold clampProb
    norm_num
    rw [if_neg (by linarith), if_neg (by linarith)]
  unfold bernoulliNll
  rw [hc]
  exact bce_logit p y (by linarith) (by linarith) hy

/-- For every `p` (also outside `[0,1]`) the term is the Bernoulli one at the clamped
    probability, which lies in `[ε, 1-ε]`: the value is finite (at most `-log ε`). -/
theorem bernoulliNll_clamped (ε p y : ℝ) (hε : 0 < ε) (hε' : ε ≤ 1 / 2) (hy : y = 0 ∨ y = 1) :
    bernoulliNll ε p y = - Real.log (bernoulliPmf (clampProb ε p) y)
      ∧ 0 ≤ bernoulliNll ε p y ∧ bernoulliNll ε p y ≤ - Real.log ε := by
  obtain ⟨hl, hu⟩ := clampProb_mem ε p hε'
  have hq0 : 0 < clampProb ε p := by linarith
  have hq1 : clampProb ε p < 1 := by linarith
  have key : bernoulliNll ε p y = - Real.log (bernoulliPmf (clampProb ε p) y) := by
    unfold bernoulliNll
    exact bce_logit _ y hq0 hq1 hy
  refine ⟨key, ?_, ?_⟩
  · rw [key]
    rcases hy with rfl | rfl
    · simp only [bernoulliPmf]; norm_num
      exact Real.log_nonpos (by linarith) (by linarith)
    · simp only [bernoulliPmf]; norm_num
      exact Real.log_nonpos (by linarith) (by linarith)
  · rw [key]
    rcases hy with rfl | rfl
    · simp only [bernoulliPmf]; norm_num
      exact Real.log_le_log hε (by linarith)
    · simp only [bernoulliPmf]; norm_num
      exact Real.log_le_log hε hl

/-! ## Right-censored Weibull family -/

private theorem clampMin0_of_nonneg {t : ℝ} (h : 0 ≤ t) : clampMin0 t = t := by
  unfold clampMin0; norm_num; intro h'; linarith

private theorem clampMin0_of_nonpos {t : ℝ} (h : t ≤ 0) : clampMin0 t = 0 := by
  unfold clampMin0; norm_num; intro h'; linarith

set_option exponentiation.threshold 400 in
/-- the constant used instead of infinity is `10^307`. -/
theorem infinity_eq : (infinity : ℝ) = 10 ^ 307 := by
  unfold infinity; norm_num

private theorem infinity_pos : (0 : ℝ) < infinity := by
  rw [infinity_eq]; positivity

/-- A censored individual contributes only its survival term, whatever the parameters:
    `nll = (max(t',0)/ν')^ρ`; no hazard term. -/
theorem weibull_censored (t' ν' ρ : ℝ) :
    weibullNllCore false t' ν' ρ = (max t' 0 / ν') ^ ρ := by
  unfold weibullNllCore logSurvival logHazard
  simp only [Transc.pow]
  have : clampMin0 t' = max t' 0 := by
    unfold clampMin0
    norm_num
    split_ifs with h
    · rw [max_eq_right (le_of_lt h)]
    · rw [max_eq_left (not_lt.mp h)]
  rw [this]; norm_num

/-- … which for `t' ≥ 0` is minus the log of the Weibull survival function. -/
theorem weibull_censored_eq_neg_log_survival (t' ν' ρ : ℝ) (ht : 0 ≤ t') :
    weibullNllCore false t' ν' ρ = - Real.log (weibullSurvivalFn ν' ρ t') := by
  rw [weibull_censored, max_eq_left ht]
  unfold weibullSurvivalFn
  rw [Real.log_exp, neg_neg]

/-- An observed event after the reference time (`t' > 0`, `ν' > 0`, `ρ > 0`) contributes
    minus the log of hazard × survival, i.e. minus the log of the Weibull density. -/
theorem weibull_observed (t' ν' ρ : ℝ) (ht : 0 < t') (hν : 0 < ν') (hρ : 0 < ρ) :
    weibullNllCore true t' ν' ρ
      = - Real.log (weibullHazardFn ν' ρ t' * weibullSurvivalFn ν' ρ t') := by
  have hu : 0 < t' / ν' := div_pos ht hν
  have hh : 0 < weibullHazardFn ν' ρ t' := by
    unfold weibullHazardFn
    exact mul_pos (div_pos hρ hν) (Real.rpow_pos_of_pos hu _)
  have hS : 0 < weibullSurvivalFn ν' ρ t' := Real.exp_pos _
  rw [Real.log_mul hh.ne' hS.ne']
  unfold weibullNllCore logSurvival logHazard hazardLadder
  simp only [Transc.pow, Transc.log]
  rw [clampMin0_of_nonneg ht.le]
  have e1 : (1.0 : ℝ) = 1 := by norm_num
  have e0 : (0.0 : ℝ) = 0 := by norm_num
  rw [e1, e0, if_pos ht]
  have hh' : 0 < ρ / ν' * (t' / ν') ^ (ρ - 1) := hh
  simp only [if_pos hh', if_true]
  unfold weibullSurvivalFn weibullHazardFn
  rw [Real.log_exp]
  ring

/-- Time reparametrisation without sources: `(t-τ)/ν' = e^{ξ}(t-τ)/ν`. -/
theorem weibull_reparam (t τ ν ξ : ℝ) :
    reparamEvent t τ / nuRep ν ξ = Real.exp ξ * (t - τ) / ν := by
  unfold reparamEvent nuRep
  simp only [Transc.exp]
  rw [Real.exp_neg]
  have : Real.exp ξ ≠ 0 := (Real.exp_pos ξ).ne'
  by_cases hν : ν = 0
  · subst hν; simp
  · field_simp

/-- Time reparametrisation with sources, as coded: `(t-τ)/ν' = e^{ξ + s/ρ}(t-τ)/ν`. -/
theorem weibull_reparam_sources (t τ ν ρ ξ s : ℝ) :
    reparamEvent t τ / nuRepSources ν ρ ξ s = Real.exp (ξ + s / ρ) * (t - τ) / ν := by
  unfold reparamEvent nuRepSources
  simp only [Transc.exp]
  have e1 : (1.0 : ℝ) = 1 := by norm_num
  rw [e1, Real.exp_neg, one_div, inv_mul_eq_div]
  have : Real.exp (ξ + s / ρ) ≠ 0 := (Real.exp_pos _).ne'
  by_cases hν : ν = 0
  · subst hν; simp
  · field_simp

/-- With sources the cumulative hazard is the one without sources times `e^{s}`
    (proportional hazards), for `t ≥ τ`, `ν > 0`, `ρ ≠ 0`. -/
theorem weibull_sources_proportional_hazards (t τ ν ρ ξ s : ℝ) (ht : τ ≤ t) (hν : 0 < ν) (hρ : ρ ≠ 0) :
    (reparamEvent t τ / nuRepSources ν ρ ξ s) ^ ρ
      = Real.exp s * (reparamEvent t τ / nuRep ν ξ) ^ ρ := by
  rw [weibull_reparam_sources, weibull_reparam]
  have ha : 0 ≤ (t - τ) / ν := div_nonneg (by linarith) hν.le
  rw [mul_div_assoc, mul_div_assoc, Real.mul_rpow (Real.exp_pos _).le ha,
    Real.mul_rpow (Real.exp_pos _).le ha, ← Real.exp_mul, ← Real.exp_mul, ← mul_assoc, ← Real.exp_add]
  congr 2
  field_simp
  ring

/-- Penalty branch: an observed event at or before the reference time (`t' ≤ 0`) gets exactly
    the finite constant `INFINITY = 10^307` (for `ρ ≠ 0`; `ρ = e^{log ρ} > 0` in the models). -/
theorem weibull_penalty (t' ν' ρ : ℝ) (ht : t' ≤ 0) (hρ : ρ ≠ 0) :
    weibullNllCore true t' ν' ρ = infinity ∧ (infinity : ℝ) = 10 ^ 307 := by
  refine ⟨?_, infinity_eq⟩
  unfold weibullNllCore logSurvival logHazard hazardLadder
  simp only [Transc.pow, Transc.log]
  rw [clampMin0_of_nonpos ht]
  have e0 : (0.0 : ℝ) = 0 := by norm_num
  have e1 : (1.0 : ℝ) = 1 := by norm_num
  rw [e0, e1, if_neg (not_lt.mpr ht), zero_div, Real.zero_rpow hρ]
  have hneg : ¬ (0 : ℝ) < -infinity := by
    have := infinity_pos; linarith
  simp only [if_neg hneg, if_true]
  ring

/-- The same on the un-reparametrised arguments of `_nll` (both families): `t ≤ τ` and observed. -/
theorem weibull_penalty_nll (t ν ρ ξ τ s : ℝ) (ht : t ≤ τ) (hρ : ρ ≠ 0) :
    weibullNll true t ν ρ ξ τ = infinity ∧ weibullNllSources true t ν ρ ξ τ s = infinity := by
  have h : reparamEvent t τ ≤ 0 := by unfold reparamEvent; linarith
  exact ⟨(weibull_penalty _ _ ρ h hρ).1, (weibull_penalty _ _ ρ h hρ).1⟩

/-- A censored individual at or before its reference time contributes nothing (survival 1). -/
theorem weibull_censored_before_reference (t' ν' ρ : ℝ) (ht : t' ≤ 0) (hρ : ρ ≠ 0) :
    weibullNllCore false t' ν' ρ = 0 := by
  rw [weibull_censored, max_eq_right ht, zero_div, Real.zero_rpow hρ]

/-- `hazard × survival` is a density: it is minus the derivative of the survival function,
    for `t > 0`, `ν > 0`. -/
theorem weibull_density_is_neg_deriv_survival (ν ρ t : ℝ) (ht : 0 < t) (hν : 0 < ν) :
    HasDerivAt (weibullSurvivalFn ν ρ) (-(weibullHazardFn ν ρ t * weibullSurvivalFn ν ρ t)) t := by
  have hu : 0 < t / ν := div_pos ht hν
  have h1 : HasDerivAt (fun t : ℝ => t / ν) (1 / ν) t := (hasDerivAt_id t).div_const ν
  have h2 : HasDerivAt (fun t : ℝ => (t / ν) ^ ρ) (1 / ν * ρ * (t / ν) ^ (ρ - 1)) t :=
    h1.rpow_const (Or.inl hu.ne')
  have h3 : HasDerivAt (fun t : ℝ => Real.exp (-((t / ν) ^ ρ)))
      (Real.exp (-((t / ν) ^ ρ)) * -(1 / ν * ρ * (t / ν) ^ (ρ - 1))) t := (h2.neg).exp
  unfold weibullHazardFn
  have hS : weibullSurvivalFn ν ρ = fun t : ℝ => Real.exp (-((t / ν) ^ ρ)) := rfl
  rw [hS]
  convert h3 using 1
  ring

/-! ## The finite constant on IEEE doubles (kernel-evaluated `Float` arithmetic)

`constants.py`: "the real infinity is not used because there are multiplication by zero that
creates errors (nan)".  On doubles: the constant is finite, the penalty value `-1·(-0 + -1e307)`
is exactly `1e307`, `0·1e307` is `0` whereas `0·inf` would be NaN. -/

theorem penalty_float_finite :
    (infinity : Float).isFinite = true ∧ (infinity : Float).toBits = 9199863512903218227 := by
  decide +kernel

theorem penalty_float_value :
    ((-1.0 : Float) * (-(0.0 : Float) + -(infinity : Float))).toBits = (infinity : Float).toBits
    ∧ ((0.0 : Float) * (infinity : Float)).isNaN = false
    ∧ ((0.0 : Float) * ((1.0 : Float) / 0.0)).isNaN = true := by
  decide +kernel

/-! ## Non-vacuity -/

example : ∃ σ : ℝ, 0 < σ := ⟨1, one_pos⟩
example : ∃ ε p : ℝ, 0 < ε ∧ ε ≤ p ∧ p ≤ 1 - ε := ⟨1/4, 1/2, by norm_num, by norm_num, by norm_num⟩
example : weibullNllCore true (-1 : ℝ) 2 3 = infinity := (weibull_penalty _ _ _ (by norm_num) (by norm_num)).1
example : weibullNllCore false (2 : ℝ) 2 3 = 1 := by
  rw [weibull_censored]; norm_num

end LeaspyVerif.C08
