/-
C04 — the maximisation step is the closed-form maximiser of the sufficient statistics.
Property theorems only (helper lemmas are private).  Model: `Model/MStep.lean`.
Statements are over an arbitrary ordered field (exact arithmetic; float32 rounding is not modelled),
for arbitrary numbers of individuals / cells / features (lists of any length).
-/
import LeaspyVerif.Model.MStep
import Mathlib.Tactic.Ring
import Mathlib.Tactic.Linarith
import Mathlib.Tactic.FieldSimp
import Mathlib.Tactic.Positivity
import Mathlib.Algebra.Order.Field.Basic
import Mathlib.Data.List.Perm.Basic

namespace LeaspyVerif.C04
open LeaspyVerif.MStep

set_option linter.unusedSectionVars false
variable {α : Type} [Field α] [LinearOrder α] [IsStrictOrderedRing α]

/-! ### helper algebra on `sum` -/

private theorem sum_cons (x : α) (xs : List α) : MStep.sum (x :: xs) = x + MStep.sum xs := rfl

private theorem sum_map_sqdev (μ : α) (xs : List α) :
    MStep.sum (xs.map (fun x => (x - μ) * (x - μ)))
      = MStep.sum (xs.map (fun x => x * x)) - 2 * μ * MStep.sum xs + (xs.length : α) * (μ * μ) := by
  induction xs with
  | nil => simp [MStep.sum]
  | cons x xs ih =>
    simp only [List.map_cons, sum_cons, ih, List.length_cons, Nat.cast_succ]
    ring

private theorem sum_nonneg_of (xs : List α) (h : ∀ x ∈ xs, 0 ≤ x) : 0 ≤ MStep.sum xs := by
  induction xs with
  | nil => simp [MStep.sum]
  | cons x xs ih =>
    rw [sum_cons]
    exact add_nonneg (h x (List.mem_cons_self)) (ih fun y hy => h y (List.mem_cons_of_mem _ hy))

private theorem length_cast_pos {β : Type} (xs : List β) (h : xs ≠ []) : (0 : α) < (xs.length : α) := by
  have : 0 < xs.length := List.length_pos_of_ne_nil h
  exact_mod_cast this

/-! ### 1. dispersion of individual latent variables -/

/-- After the memory-less phase, with the statistics of the current latent values (`x` and `x²`), the variance
    produced by `compute_individual_parameter_std_from_sufficient_statistics` is the mean squared deviation
    of the latent values from the *pre-step* mean. -/
theorem indVar_eq_meansq (μold : α) (xs : List α) (hne : xs ≠ []) :
    indVar μold xs (xs.map (fun x => x * x)) = mean (xs.map (fun x => (x - μold) * (x - μold))) := by
  have hn : (xs.length : α) ≠ 0 := ne_of_gt (length_cast_pos xs hne)
  unfold indVar mean
  rw [sum_map_sqdev, List.length_map, List.length_map]
  field_simp
  ring

/-- … hence non-negative. -/
theorem indVar_nonneg (μold : α) (xs : List α) (hne : xs ≠ []) :
    0 ≤ indVar μold xs (xs.map (fun x => x * x)) := by
  rw [indVar_eq_meansq μold xs hne]
  unfold mean
  apply div_nonneg
  · apply sum_nonneg_of
    intro y hy
    simp only [List.mem_map] at hy
    obtain ⟨x, _, rfl⟩ := hy
    exact mul_self_nonneg _
  · exact Nat.cast_nonneg _

private theorem sum_mix (e : α) (a b : List α) (h : a.length = b.length) :
    MStep.sum (List.zipWith (fun x y => x * (1 - e) + e * y) a b) = MStep.sum a * (1 - e) + e * MStep.sum b := by
  induction a generalizing b with
  | nil => cases b <;> simp_all [MStep.sum]
  | cons x a ih =>
    cases b with
    | nil => simp at h
    | cons y b =>
      simp only [List.length_cons, Nat.add_right_cancel_iff] at h
      simp only [List.zipWith_cons_cons, sum_cons, ih b h]
      ring

/-- With stochastic-approximation memory the statistics are `S = S_prev * (1 - e) + e * s` (C05).  The variance
    rule is affine in the pair of statistics, so the variance obtained from averaged statistics is the same
    convex combination of the variances each set of statistics would give: together with `indVar_nonneg` and
    `C05.stats_in_hull` it stays a convex combination of mean squared deviations from the pre-step mean. -/
theorem indVar_affine (μold e : α) (xs xs' q q' : List α)
    (h1 : xs.length = xs'.length) (h2 : q.length = q'.length) (h3 : xs.length = q.length) (hne : xs ≠ []) :
    indVar μold (List.zipWith (fun x y => x * (1 - e) + e * y) xs xs')
                (List.zipWith (fun x y => x * (1 - e) + e * y) q q')
      = indVar μold xs q * (1 - e) + e * indVar μold xs' q' := by
  have hn : (xs.length : α) ≠ 0 := ne_of_gt (length_cast_pos xs hne)
  unfold indVar mean
  rw [sum_mix e xs xs' h1, sum_mix e q q' h2]
  simp only [List.length_zipWith, ← h1, ← h2, ← h3, Nat.min_self]
  field_simp
  ring

/-- During the memory-less phase the rule is `torch.std` (Bessel): `(n-1) · var = Σ (x - mean)²`. -/
theorem indVarBurnIn_bessel (xs : List α) (h2 : 2 ≤ xs.length) :
    indVarBurnIn xs * ((xs.length : α) - 1) = MStep.sum (xs.map (fun x => (x - mean xs) * (x - mean xs))) := by
  have h1 : ((xs.length - 1 : Nat) : α) = (xs.length : α) - 1 := by
    rw [Nat.cast_sub (by omega)]; simp
  have hpos : ((xs.length : α) - 1) ≠ 0 := by
    have : (2 : α) ≤ (xs.length : α) := by exact_mod_cast h2
    intro h; linarith
  unfold indVarBurnIn
  simp only [h1]
  field_simp

/-- The two phases differ exactly by the Bessel factor when the pre-step mean is the current mean:
    `indVar(mean x) = (n-1)/n · indVarBurnIn` (so a biased `std` in the memory-less phase is observable). -/
theorem indVar_vs_burnIn (xs : List α) (h2 : 2 ≤ xs.length) :
    indVar (mean xs) xs (xs.map (fun x => x * x)) * (xs.length : α)
      = indVarBurnIn xs * ((xs.length : α) - 1) := by
  have hne : xs ≠ [] := by intro h; simp [h] at h2
  have hn : (xs.length : α) ≠ 0 := ne_of_gt (length_cast_pos xs hne)
  rw [indVarBurnIn_bessel xs h2, indVar_eq_meansq _ xs hne]
  unfold mean
  simp only [List.length_map]
  rw [div_mul_cancel₀ _ hn]

/-! ### 2. noise level = RMS residual over observed entries -/

private theorem wsumKey_nil_cells (keys : List Nat) (k : Nat) : wsumKey keys k ([] : List (α × Bool)) = 0 := by
  simp [wsumKey, MStep.sum]

private theorem wsumKey_nil_keys (k : Nat) (cells : List (α × Bool)) : wsumKey [] k cells = 0 := by
  simp [wsumKey, MStep.sum]

private theorem wsumKey_cons (key : Nat) (keys : List Nat) (k : Nat) (c : α × Bool) (cells : List (α × Bool)) :
    wsumKey (key :: keys) k (c :: cells)
      = (if key = k then (if c.2 then c.1 else 0) else 0) + wsumKey keys k cells := by
  unfold wsumKey
  simp only [List.zip_cons_cons, List.filter_cons]
  by_cases h : key = k
  · simp [h, sum_cons]
  · simp [h]

private theorem countKey_map_fst {β : Type} (f : α × Bool → β × Bool) (hf : ∀ c, (f c).2 = c.2)
    (keys : List Nat) (k : Nat) (cells : List (α × Bool)) :
    countKey keys k (cells.map f) = countKey keys k cells := by
  unfold countKey
  induction cells generalizing keys with
  | nil => simp
  | cons c cells ih =>
    cases keys with
    | nil => simp
    | cons key keys =>
      simp only [List.map_cons, List.zip_cons_cons, List.filter_cons, hf]
      split <;> simp [ih keys]

/-- numerator identity shared by both noise rules -/
private theorem noise_numerator (keys : List Nat) (k : Nat) (y : List (α × Bool)) (model : List α)
    (hl : y.length = model.length) :
    yL2 keys k y
      + wsumKey keys k (List.zipWith (fun (c : α × Bool) m => ((0 - (1 + 1)) * c.1 + m, c.2))
          (List.zipWith (fun (c : α × Bool) m => (c.1 * m, c.2)) y model) (model.map (fun m => m * m)))
      = wsumKey keys k (List.zipWith (fun (c : α × Bool) m => ((c.1 - m) * (c.1 - m), c.2)) y model) := by
  unfold yL2
  induction y generalizing model keys with
  | nil => simp [wsumKey_nil_cells]
  | cons c y ih =>
    cases model with
    | nil => simp at hl
    | cons m model =>
      simp only [List.length_cons, Nat.add_right_cancel_iff] at hl
      cases keys with
      | nil => simp [wsumKey_nil_keys]
      | cons key keys =>
        simp only [List.map_cons, List.zipWith_cons_cons, wsumKey_cons]
        rw [← ih keys model hl]
        split_ifs <;> ring

/-- **Diagonal noise.**  With the statistics of the current state (`y_x_model = y·model` carrying the weights
    of `y`, `model_x_model = model²`), the variance of feature `k` is the sum of squared residuals over the
    *observed* cells of that feature divided by their number. -/
theorem noiseVarDiag_eq_rms (keys : List Nat) (k : Nat) (y : List (α × Bool)) (model : List α)
    (hl : y.length = model.length) :
    noiseVarDiag keys k ⟨y, List.zipWith (fun c m => (c.1 * m, c.2)) y model, model.map (fun m => m * m)⟩
      = wsumKey keys k (List.zipWith (fun (c : α × Bool) m => ((c.1 - m) * (c.1 - m), c.2)) y model)
          / (countKey keys k y : α) := by
  unfold noiseVarDiag
  simp only
  rw [noise_numerator keys k y model hl]

private theorem scalar_numerator (keys : List Nat) (k : Nat) (y : List (α × Bool)) (model : List α)
    (hl : y.length = model.length) :
    yL2 keys k y - (1 + 1) * wsumKey keys k (List.zipWith (fun (c : α × Bool) m => (c.1 * m, c.2)) y model)
      + wsumKey keys k (reweight (model.map (fun m => m * m))
          (List.zipWith (fun (c : α × Bool) m => (c.1 * m, c.2)) y model))
      = wsumKey keys k (List.zipWith (fun (c : α × Bool) m => ((c.1 - m) * (c.1 - m), c.2)) y model) := by
  unfold yL2 reweight
  induction y generalizing model keys with
  | nil => simp [wsumKey_nil_cells]
  | cons c y ih =>
    cases model with
    | nil => simp at hl
    | cons m model =>
      simp only [List.length_cons, Nat.add_right_cancel_iff] at hl
      cases keys with
      | nil => simp [wsumKey_nil_keys]
      | cons key keys =>
        simp only [List.map_cons, List.zipWith_cons_cons, wsumKey_cons]
        rw [← ih keys model hl]
        split_ifs <;> ring

/-- **Scalar noise (repaired code, F3).**  The variance is the sum of squared residuals over *all observed*
    cells divided by the number of observed cells — for every missing-data pattern, including features missing
    inside an existing visit. -/
theorem noiseVarScalar_eq_rms (keys : List Nat) (y : List (α × Bool)) (model : List α)
    (hl : y.length = model.length) :
    noiseVarScalar keys ⟨y, List.zipWith (fun c m => (c.1 * m, c.2)) y model, model.map (fun m => m * m)⟩
      = wsumKey keys 0 (List.zipWith (fun (c : α × Bool) m => ((c.1 - m) * (c.1 - m), c.2)) y model)
          / (countKey keys 0 y : α) := by
  unfold noiseVarScalar
  simp only
  rw [scalar_numerator keys 0 y model hl]

/-- **F3, the code before the repair**: `Σ model²` was not masked.  It agrees with the repaired rule (hence
    with the RMS residual) only when the model is `0` on every unobserved cell, i.e. when the only unobserved
    cells are padded visits. -/
theorem noiseVarScalarOld_partial (keys : List Nat) (y : List (α × Bool)) (model : List α)
    (hl : y.length = model.length)
    (hz : ∀ p ∈ y.zip model, p.1.2 = false → p.2 = 0) :
    noiseVarScalarOld keys ⟨y, List.zipWith (fun c m => (c.1 * m, c.2)) y model, model.map (fun m => m * m)⟩
      = noiseVarScalar keys ⟨y, List.zipWith (fun c m => (c.1 * m, c.2)) y model, model.map (fun m => m * m)⟩ := by
  unfold noiseVarScalarOld noiseVarScalar
  simp only
  congr 2
  unfold reweight
  induction y generalizing model keys with
  | nil =>
    cases model with
    | nil => simp [wsumKey_nil_cells]
    | cons _ _ => simp at hl
  | cons c y ih =>
    cases model with
    | nil => simp at hl
    | cons m model =>
      simp only [List.length_cons, Nat.add_right_cancel_iff] at hl
      cases keys with
      | nil => simp [wsumKey_nil_keys]
      | cons key keys =>
        simp only [List.map_cons, List.zipWith_cons_cons, wsumKey_cons]
        have h0 := hz (c, m) (by simp)
        rw [ih keys model hl (fun p hp => hz p (by simp [hp]))]
        by_cases hc : c.2 = true
        · simp [hc]
        · simp only [Bool.not_eq_true] at hc
          have hm : m = 0 := h0 hc
          simp [hc, hm]

/-- Witness of F3 on the old rule: one visit, two features, the second missing, model `1/2` on both:
    the residual over the observed entry is `0` but the old rule returned `1/4`. -/
theorem noiseVarScalarOld_counterexample :
    let y : List (Rat × Bool) := [(1/2, true), (0, false)]
    let model : List Rat := [1/2, 1/2]
    let i : NoiseIn Rat := ⟨y, List.zipWith (fun c m => (c.1 * m, c.2)) y model, model.map (fun m => m * m)⟩
    noiseVarScalarOld [0, 0] i = 1/4 ∧ noiseVarScalar [0, 0] i = 0 := by
  decide +kernel

/-! ### 3. mixture probabilities -/

private theorem sum_map_div (c : α) (w : List α) : MStep.sum (w.map (fun x => x / c)) = MStep.sum w / c := by
  induction w with
  | nil => simp [MStep.sum]
  | cons x w ih => simp only [List.map_cons, sum_cons, ih]; ring

private theorem sum_zipWith_add (a b : List α) (h : a.length = b.length) :
    MStep.sum (List.zipWith (· + ·) a b) = MStep.sum a + MStep.sum b := by
  induction a generalizing b with
  | nil => cases b <;> simp_all [MStep.sum]
  | cons x a ih =>
    cases b with
    | nil => simp at h
    | cons y b =>
      simp only [List.length_cons, Nat.add_right_cancel_iff] at h
      simp only [List.zipWith_cons_cons, sum_cons, ih b h]; ring

private theorem sum_replicate_zero (K : Nat) : MStep.sum (List.replicate K (0 : α)) = 0 := by
  induction K with
  | zero => rfl
  | succ K ih => simp [List.replicate_succ, sum_cons, ih]

private theorem colSums_length (K : Nat) (rows : List (List α)) (h : ∀ r ∈ rows, r.length = K) :
    (colSums K rows).length = K := by
  induction rows with
  | nil => simp [colSums]
  | cons r rows ih =>
    have := ih (fun r' hr => h r' (List.mem_cons_of_mem _ hr))
    simp only [colSums, List.foldr_cons] at this ⊢
    simp [List.length_zipWith, this, h r (List.mem_cons_self)]

private theorem sum_colSums (K : Nat) (rows : List (List α)) (h : ∀ r ∈ rows, r.length = K) :
    MStep.sum (colSums K rows) = MStep.sum (rows.map MStep.sum) := by
  induction rows with
  | nil => simp [colSums, sum_replicate_zero, MStep.sum]
  | cons r rows ih =>
    have hrest : ∀ r' ∈ rows, r'.length = K := fun r' hr => h r' (List.mem_cons_of_mem _ hr)
    have hl := colSums_length K rows hrest
    have := ih hrest
    simp only [colSums, List.foldr_cons] at this hl ⊢
    rw [sum_zipWith_add _ _ (by rw [hl, h r (List.mem_cons_self)]), this]
    simp [sum_cons]

private theorem sum_const_one (n : Nat) (l : List α) (hl : l.length = n) (h : ∀ x ∈ l, x = 1) :
    MStep.sum l = (n : α) := by
  induction l generalizing n with
  | nil => simp at hl; simp [MStep.sum, ← hl]
  | cons x l ih =>
    cases n with
    | zero => simp at hl
    | succ n =>
      simp only [List.length_cons, Nat.add_right_cancel_iff] at hl
      rw [sum_cons, h x (List.mem_cons_self), ih n hl (fun y hy => h y (List.mem_cons_of_mem _ hy))]
      push_cast; ring

/-- A softmax row sums to one (the exponentials have a non-zero sum). -/
theorem softmaxRow_sum_one (w : List α) (h : MStep.sum w ≠ 0) : MStep.sum (softmaxRow w) = 1 := by
  unfold softmaxRow
  rw [sum_map_div, div_self h]

/-- **Mixture probabilities** (`compute_probs_from_state`): the mean cluster responsibilities sum to one, for
    any number of individuals `n ≥ 1` and clusters `K`. -/
theorem mixtureProbs_sum_one (K : Nat) (expo : List (List α)) (hne : expo ≠ [])
    (hK : ∀ r ∈ expo, r.length = K) (hpos : ∀ r ∈ expo, MStep.sum r ≠ 0) :
    MStep.sum (mixtureProbs K expo) = 1 := by
  have hn : (expo.length : α) ≠ 0 := ne_of_gt (length_cast_pos expo hne)
  unfold mixtureProbs
  rw [sum_map_div, sum_colSums K _ (by
    intro r hr
    simp only [List.mem_map] at hr
    obtain ⟨w, hw, rfl⟩ := hr
    simp [softmaxRow, hK w hw])]
  rw [sum_const_one expo.length _ (by simp) (by
    intro x hx
    simp only [List.mem_map] at hx
    obtain ⟨r, ⟨w, hw, rfl⟩, rfl⟩ := hx
    exact softmaxRow_sum_one w (hpos w hw))]
  exact div_self hn

/-! ### 4. all parameters are updated together from the pre-step state -/

/-- Every updated value is its rule applied to the *pre-step* values and the statistics: no rule sees
    another rule's new value. -/
theorem updateAll_reads_old {σ τ ρ : Type} (old : σ) (S : τ) (rules : List (String × (σ → τ → ρ)))
    (n : String) (v : ρ) :
    (n, v) ∈ updateAll old S rules ↔ ∃ r, (n, r) ∈ rules ∧ v = r old S := by
  unfold updateAll
  simp only [List.mem_map, Prod.mk.injEq]
  constructor
  · rintro ⟨⟨n', r⟩, hmem, rfl, rfl⟩; exact ⟨r, hmem, rfl⟩
  · rintro ⟨r, hmem, rfl⟩; exact ⟨(n, r), hmem, rfl, rfl⟩

/-- Order irrelevance: permuting the rules permutes the results in the same way. -/
theorem updateAll_order_irrelevant {σ τ ρ : Type} (old : σ) (S : τ)
    (rules rules' : List (String × (σ → τ → ρ))) (h : rules.Perm rules') :
    (updateAll old S rules).Perm (updateAll old S rules') := h.map _

/-- … and position by position: the `i`-th result depends on the `i`-th rule only. -/
theorem updateAll_pointwise {σ τ ρ : Type} (old : σ) (S : τ) (rules : List (String × (σ → τ → ρ))) (i : Nat) :
    (updateAll old S rules)[i]? = (rules[i]?).map (fun nr => (nr.1, nr.2 old S)) := by
  simp [updateAll]

/-- The same for the concrete step of the model (`step` = `updateAll` on the five kinds of rule). -/
theorem step_order_irrelevant (burnIn : Bool) (old : Old α) (S : Stats α) (rules rules' : List (String × Rule α))
    (h : rules.Perm rules') : (step burnIn old S rules).Perm (step burnIn old S rules') := by
  unfold step
  exact updateAll_order_irrelevant old S _ _ (h.map _)

/-- A *sequential* update would differ: with `tau_mean` updated first, the `tau_std` rule would read the new
    mean.  Two individuals `tau = 1, 3`, pre-step mean `0`: batched variance `5`, sequential variance `1`. -/
theorem updateSeq_differs :
    let S : Stats Rat := ⟨[("tau", [[1], [3]]), ("tau_sqr", [[1], [9]])], none⟩
    let old : Old Rat := [("tau_mean", [0])]
    let rules : List (String × Rule Rat) := [("tau_mean", .indMean "tau"), ("tau_std", .indStd "tau" (1/100000))]
    let fs := rules.map (fun nr => (nr.1, fun (o : Old Rat) (s : Stats Rat) => nr.2.apply false o s))
    let set := fun (o : Old Rat) (n : String) (v : Except MErr (List Rat)) =>
      match v with
      | .ok x => (n, x) :: o
      | .error _ => o
    updateAll old S fs = [("tau_mean", .ok [2]), ("tau_std", .ok [5])] ∧
    updateSeq set S old fs = [("tau_mean", .ok [2]), ("tau_std", .ok [1])] := by
  decide +kernel

/-! ### non-vacuity -/

example : indVar (0 : Rat) [1, 3] [1, 9] = 5 := by decide +kernel
example : indVarBurnIn ([1, 3] : List Rat) = 2 := by decide +kernel
example : mixtureProbs 2 ([[1, 3], [2, 2]] : List (List Rat)) = [3/8, 5/8] := by decide +kernel
example : noiseVarDiag [0, 1, 0, 1] 1
    (⟨[(1, true), (1/2, true), (0, false), (1, true)],
      [(1/2, true), (1/8, true), (0, false), (1/2, true)], [1/4, 1/16, 1/4, 1/4]⟩ : NoiseIn Rat) = 5/32 := by
  decide +kernel

end LeaspyVerif.C04
