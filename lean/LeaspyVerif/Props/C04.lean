/-
C04 — the maximisation step is the closed-form maximiser of the sufficient statistics.
Property theorems only (helper lemmas are private).  Model: `Model/MStep.lean`.
Statements are over an arbitrary ordered field (exact arithmetic; float32 rounding is not modelled),
for arbitrary numbers of individuals / cells / features (lists of any length).
-/
import LeaspyVerif.Model.MStep
import Mathlib.Tactic.Ring
import Mathlib.Tactic.Linarith
import Mathlib.Tactic.FieldSimp
import Mathlib.Tactic.Positivity
import Mathlib.Tactic.LinearCombination
import Mathlib.Algebra.Order.Field.Basic
import Mathlib.Data.List.Perm.Basic

namespace LeaspyVerif.C04
open LeaspyVerif.MStep

set_option linter.unusedSectionVars false
variable {α : Type} [Field α] [LinearOrder α] [IsStrictOrderedRing α]

/-! ### helper algebra on `sum` -/

private theorem sum_cons (x : α) (xs : List α) : MStep.sum (x :: xs) = x + MStep.sum xs := rfl

private theorem sum_map_sqdev (μ : α) (xs : List α) :
    MStep.sum (xs.map (fun x => (x - μ) * (x - μ)))
      = MStep.sum (xs.map (fun x => x * x)) - 2 * μ * MStep.sum xs + (xs.length : α) * (μ * μ) := by
  induction xs with
  | nil => simp [MStep.sum]
  | cons x xs ih =>
    simp only [List.map_cons, sum_cons, ih, List.length_cons, Nat.cast_succ]
    ring

private theorem sum_nonneg_of (xs : List α) (h : ∀ x ∈ xs, 0 ≤ x) : 0 ≤ MStep.sum xs := by
  induction xs with
  | nil => simp [MStep.sum]
  | cons x xs ih =>
    rw [sum_cons]
    exact add_nonneg (h x (List.mem_cons_self)) (ih fun y hy => h y (List.mem_cons_of_mem _ hy))

private theorem length_cast_pos {β : Type} (xs : List β) (h : xs ≠ []) : (0 : α) < (xs.length : α) := by
  have : 0 < xs.length := List.length_pos_of_ne_nil h
  exact_mod_cast this

/-! ### 1. dispersion of individual latent variables -/

/-- After the memory-less phase, with the statistics of the current latent values (`x` and `x²`), the variance
    produced by `compute_individual_parameter_std_from_sufficient_statistics` is the mean squared deviation
    of the latent values from the *pre-step* mean. -/
theorem indVar_eq_meansq (μold : α) (xs : List α) (hne : xs ≠ []) :
    indVar μold xs (xs.map (fun x => x * x)) = mean (xs.map (fun x => (x - μold) * (x - μold))) := by
  have hn : (xs.length : α) ≠ 0 := ne_of_gt (length_cast_pos xs hne)
  unfold indVar mean
  rw [sum_map_sqdev, List.length_map, List.length_map]
  field_simp
  ring

/-- … hence non-negative. -/
theorem indVar_nonneg (μold : α) (xs : List α) (hne : xs ≠ []) :
    0 ≤ indVar μold xs (xs.map (fun x => x * x)) := by
  rw [indVar_eq_meansq μold xs hne]
  unfold mean
  apply div_nonneg
  · apply sum_nonneg_of
    intro y hy
    simp only [List.mem_map] at hy
    obtain ⟨x, _, rfl⟩ := hy
    exact mul_self_nonneg _
  · exact Nat.cast_nonneg _

private theorem sum_mix (e : α) (a b : List α) (h : a.length = b.length) :
    MStep.sum (List.zipWith (fun x y => x * (1 - e) + e * y) a b) = MStep.sum a * (1 - e) + e * MStep.sum b := by
  induction a generalizing b with
  | nil => cases b <;> simp_all [MStep.sum]
  | cons x a ih =>
    cases b with
    | nil => simp at h
    | cons y b =>
      simp only [List.length_cons, Nat.add_right_cancel_iff] at h
      simp only [List.zipWith_cons_cons, sum_cons, ih b h]
      ring

/-- With stochastic-approximation memory the statistics are `S = S_prev * (1 - e) + e * s` (C05).  The variance
    rule is affine in the pair of statistics, so the variance obtained from averaged statistics is the same
    convex combination of the variances each set of statistics would give: together with `indVar_nonneg` and
    `C05.stats_in_hull` it stays a convex combination of mean squared deviations from the pre-step mean. -/
theorem indVar_affine (μold e : α) (xs xs' q q' : List α)
    (h1 : xs.length = xs'.length) (h2 : q.length = q'.length) (h3 : xs.length = q.length) (hne : xs ≠ []) :
    indVar μold (List.zipWith (fun x y => x * (1 - e) + e * y) xs xs')
                (List.zipWith (fun x y => x * (1 - e) + e * y) q q')
      = indVar μold xs q * (1 - e) + e * indVar μold xs' q' := by
  have hn : (xs.length : α) ≠ 0 := ne_of_gt (length_cast_pos xs hne)
  unfold indVar mean
  rw [sum_mix e xs xs' h1, sum_mix e q q' h2]
  simp only [List.length_zipWith, ← h1, ← h2, ← h3, Nat.min_self]
  field_simp
  ring

/-- During the memory-less phase the rule is `torch.std` (Bessel): `(n-1) · var = Σ (x - mean)²`. -/
theorem indVarBurnIn_bessel (xs : List α) (h2 : 2 ≤ xs.length) :
    indVarBurnIn xs * ((xs.length : α) - 1) = MStep.sum (xs.map (fun x => (x - mean xs) * (x - mean xs))) := by
  have h1 : ((xs.length - 1 : Nat) : α) = (xs.length : α) - 1 := by
    rw [Nat.cast_sub (by omega)]; simp
  have hpos : ((xs.length : α) - 1) ≠ 0 := by
    have : (2 : α) ≤ (xs.length : α) := by exact_mod_cast h2
    intro h; linarith
  unfold indVarBurnIn
  simp only [h1]
  field_simp

/-- The two phases differ exactly by the Bessel factor when the pre-step mean is the current mean:
    `indVar(mean x) = (n-1)/n · indVarBurnIn` (so a biased `std` in the memory-less phase is observable). -/
theorem indVar_vs_burnIn (xs : List α) (h2 : 2 ≤ xs.length) :
    indVar (mean xs) xs (xs.map (fun x => x * x)) * (xs.length : α)
      = indVarBurnIn xs * ((xs.length : α) - 1) := by
  have hne : xs ≠ [] := by intro h; simp [h] at h2
  have hn : (xs.length : α) ≠ 0 := ne_of_gt (length_cast_pos xs hne)
  rw [indVarBurnIn_bessel xs h2, indVar_eq_meansq _ xs hne]
  unfold mean
  simp only [List.length_map]
  rw [div_mul_cancel₀ _ hn]

/-! ### 2. noise level = RMS residual over observed entries -/

private theorem wsumKey_nil_cells (keys : List Nat) (k : Nat) : wsumKey keys k ([] : List (α × Bool)) = 0 := by
  simp [wsumKey, MStep.sum]

private theorem wsumKey_nil_keys (k : Nat) (cells : List (α × Bool)) : wsumKey [] k cells = 0 := by
  simp [wsumKey, MStep.sum]

private theorem wsumKey_cons (key : Nat) (keys : List Nat) (k : Nat) (c : α × Bool) (cells : List (α × Bool)) :
    wsumKey (key :: keys) k (c :: cells)
      = (if key = k then (if c.2 then c.1 else 0) else 0) + wsumKey keys k cells := by
  unfold wsumKey
  simp only [List.zip_cons_cons, List.filter_cons]
  by_cases h : key = k
  · simp [h, sum_cons]
  · simp [h]

private theorem countKey_map_fst {β : Type} (f : α × Bool → β × Bool) (hf : ∀ c, (f c).2 = c.2)
    (keys : List Nat) (k : Nat) (cells : List (α × Bool)) :
    countKey keys k (cells.map f) = countKey keys k cells := by
  unfold countKey
  induction cells generalizing keys with
  | nil => simp
  | cons c cells ih =>
    cases keys with
    | nil => simp
    | cons key keys =>
      simp only [List.map_cons, List.zip_cons_cons, List.filter_cons, hf]
      split <;> simp [ih keys]

/-- numerator identity shared by both noise rules -/
private theorem noise_numerator (keys : List Nat) (k : Nat) (y : List (α × Bool)) (model : List α)
    (hl : y.length = model.length) :
    yL2 keys k y
      + wsumKey keys k (List.zipWith (fun (c : α × Bool) m => ((0 - (1 + 1)) * c.1 + m, c.2))
          (List.zipWith (fun (c : α × Bool) m => (c.1 * m, c.2)) y model) (model.map (fun m => m * m)))
      = wsumKey keys k (List.zipWith (fun (c : α × Bool) m => ((c.1 - m) * (c.1 - m), c.2)) y model) := by
  unfold yL2
  induction y generalizing model keys with
  | nil => simp [wsumKey_nil_cells]
  | cons c y ih =>
    cases model with
    | nil => simp at hl
    | cons m model =>
      simp only [List.length_cons, Nat.add_right_cancel_iff] at hl
      cases keys with
      | nil => simp [wsumKey_nil_keys]
      | cons key keys =>
        simp only [List.map_cons, List.zipWith_cons_cons, wsumKey_cons]
        rw [← ih keys model hl]
        split_ifs <;> ring

/-- **Diagonal noise.**  With the statistics of the current state (`y_x_model = y·model` carrying the weights
    of `y`, `model_x_model = model²`), the variance of feature `k` is the sum of squared residuals over the
    *observed* cells of that feature divided by their number. -/
theorem noiseVarDiag_eq_rms (keys : List Nat) (k : Nat) (y : List (α × Bool)) (model : List α)
    (hl : y.length = model.length) :
    noiseVarDiag keys k ⟨y, List.zipWith (fun c m => (c.1 * m, c.2)) y model, model.map (fun m => m * m)⟩
      = wsumKey keys k (List.zipWith (fun (c : α × Bool) m => ((c.1 - m) * (c.1 - m), c.2)) y model)
          / (countKey keys k y : α) := by
  unfold noiseVarDiag
  simp only
  rw [noise_numerator keys k y model hl]

private theorem scalar_numerator (keys : List Nat) (k : Nat) (y : List (α × Bool)) (model : List α)
    (hl : y.length = model.length) :
    yL2 keys k y - (1 + 1) * wsumKey keys k (List.zipWith (fun (c : α × Bool) m => (c.1 * m, c.2)) y model)
      + wsumKey keys k (reweight (model.map (fun m => m * m))
          (List.zipWith (fun (c : α × Bool) m => (c.1 * m, c.2)) y model))
      = wsumKey keys k (List.zipWith (fun (c : α × Bool) m => ((c.1 - m) * (c.1 - m), c.2)) y model) := by
  unfold yL2 reweight
  induction y generalizing model keys with
  | nil => simp [wsumKey_nil_cells]
  | cons c y ih =>
    cases model with
    | nil => simp at hl
    | cons m model =>
      simp only [List.length_cons, Nat.add_right_cancel_iff] at hl
      cases keys with
      | nil => simp [wsumKey_nil_keys]
      | cons key keys =>
        simp only [List.map_cons, List.zipWith_cons_cons, wsumKey_cons]
        rw [← ih keys model hl]
        split_ifs <;> ring

/-- **Scalar noise (repaired code, F3).**  The variance is the sum of squared residuals over *all observed*
    cells divided by the number of observed cells — for every missing-data pattern, including features missing
    inside an existing visit. -/
theorem noiseVarScalar_eq_rms (keys : List Nat) (y : List (α × Bool)) (model : List α)
    (hl : y.length = model.length) :
    noiseVarScalar keys ⟨y, List.zipWith (fun c m => (c.1 * m, c.2)) y model, model.map (fun m => m * m)⟩
      = wsumKey keys 0 (List.zipWith (fun (c : α × Bool) m => ((c.1 - m) * (c.1 - m), c.2)) y model)
          / (countKey keys 0 y : α) := by
  unfold noiseVarScalar
  simp only
  rw [scalar_numerator keys 0 y model hl]

/-- **F3, the code before the repair**: `Σ model²` was not masked.  It agrees with the repaired rule (hence
    with the RMS residual) only when the model is `0` on every unobserved cell, i.e. when the only unobserved
    cells are padded visits. -/
theorem noiseVarScalarOld_partial (keys : List Nat) (y : List (α × Bool)) (model : List α)
    (hl : y.length = model.length)
    (hz : ∀ p ∈ y.zip model, p.1.2 = false → p.2 = 0) :
    noiseVarScalarOld keys ⟨y, List.zipWith (fun c m => (c.1 * m, c.2)) y model, model.map (fun m => m * m)⟩
      = noiseVarScalar keys ⟨y, List.zipWith (fun c m => (c.1 * m, c.2)) y model, model.map (fun m => m * m)⟩ := by
  unfold noiseVarScalarOld noiseVarScalar
  simp only
  congr 2
  unfold reweight
  induction y generalizing model keys with
  | nil =>
    cases model with
    | nil => simp [wsumKey_nil_cells]
    | cons _ _ => simp at hl
  | cons c y ih =>
    cases model with
    | nil => simp at hl
    | cons m model =>
      simp only [List.length_cons, Nat.add_right_cancel_iff] at hl
      cases keys with
      | nil => simp [wsumKey_nil_keys]
      | cons key keys =>
        simp only [List.map_cons, List.zipWith_cons_cons, wsumKey_cons]
        have h0 := hz (c, m) (by simp)
        rw [ih keys model hl (fun p hp => hz p (by simp [hp]))]
        by_cases hc : c.2 = true
        · simp [hc]
        · simp only [Bool.not_eq_true] at hc
          have hm : m = 0 := h0 hc
          simp [hc, hm]

/-- Witness of F3 on the old rule: one visit, two features, the second missing, model `1/2` on both:
    the residual over the observed entry is `0` but the old rule returned `1/4`. -/
theorem noiseVarScalarOld_counterexample :
    let y : List (Rat × Bool) := [(1/2, true), (0, false)]
    let model : List Rat := [1/2, 1/2]
    let i : NoiseIn Rat := ⟨y, List.zipWith (fun c m => (c.1 * m, c.2)) y model, model.map (fun m => m * m)⟩
    noiseVarScalarOld [0, 0] i = 1/4 ∧ noiseVarScalar [0, 0] i = 0 := by
  decide +kernel

/-! ### 3. mixture probabilities -/

private theorem sum_map_div (c : α) (w : List α) : MStep.sum (w.map (fun x => x / c)) = MStep.sum w / c := by
  induction w with
  | nil => simp [MStep.sum]
  | cons x w ih => simp only [List.map_cons, sum_cons, ih]; ring

private theorem sum_zipWith_add (a b : List α) (h : a.length = b.length) :
    MStep.sum (List.zipWith (· + ·) a b) = MStep.sum a + MStep.sum b := by
  induction a generalizing b with
  | nil => cases b <;> simp_all [MStep.sum]
  | cons x a ih =>
    cases b with
    | nil => simp at h
    | cons y b =>
      simp only [List.length_cons, Nat.add_right_cancel_iff] at h
      simp only [List.zipWith_cons_cons, sum_cons, ih b h]; ring

private theorem sum_replicate_zero (K : Nat) : MStep.sum (List.replicate K (0 : α)) = 0 := by
  induction K with
  | zero => rfl
  | succ K ih => simp [List.replicate_succ, sum_cons, ih]

private theorem colSums_length (K : Nat) (rows : List (List α)) (h : ∀ r ∈ rows, r.length = K) :
    (colSums K rows).length = K := by
  induction rows with
  | nil => simp [colSums]
  | cons r rows ih =>
    have := ih (fun r' hr => h r' (List.mem_cons_of_mem _ hr))
    simp only [colSums, List.foldr_cons] at this ⊢
    simp [List.length_zipWith, this, h r (List.mem_cons_self)]

private theorem sum_colSums (K : Nat) (rows : List (List α)) (h : ∀ r ∈ rows, r.length = K) :
    MStep.sum (colSums K rows) = MStep.sum (rows.map MStep.sum) := by
  induction rows with
  | nil => simp [colSums, sum_replicate_zero, MStep.sum]
  | cons r rows ih =>
    have hrest : ∀ r' ∈ rows, r'.length = K := fun r' hr => h r' (List.mem_cons_of_mem _ hr)
    have hl := colSums_length K rows hrest
    have := ih hrest
    simp only [colSums, List.foldr_cons] at this hl ⊢
    rw [sum_zipWith_add _ _ (by rw [hl, h r (List.mem_cons_self)]), this]
    simp [sum_cons]

private theorem sum_const_one (n : Nat) (l : List α) (hl : l.length = n) (h : ∀ x ∈ l, x = 1) :
    MStep.sum l = (n : α) := by
  induction l generalizing n with
  | nil => simp at hl; simp [MStep.sum, ← hl]
  | cons x l ih =>
    cases n with
    | zero => simp at hl
    | succ n =>
      simp only [List.length_cons, Nat.add_right_cancel_iff] at hl
      rw [sum_cons, h x (List.mem_cons_self), ih n hl (fun y hy => h y (List.mem_cons_of_mem _ hy))]
      push_cast; ring

/-- A softmax row sums to one (the exponentials have a non-zero sum). -/
theorem softmaxRow_sum_one (w : List α) (h : MStep.sum w ≠ 0) : MStep.sum (softmaxRow w) = 1 := by
  unfold softmaxRow
  rw [sum_map_div, div_self h]

/-- **Mixture probabilities** (`compute_probs_from_state`): the mean cluster responsibilities sum to one, for
    any number of individuals `n ≥ 1` and clusters `K`. -/
theorem mixtureProbs_sum_one (K : Nat) (expo : List (List α)) (hne : expo ≠ [])
    (hK : ∀ r ∈ expo, r.length = K) (hpos : ∀ r ∈ expo, MStep.sum r ≠ 0) :
    MStep.sum (mixtureProbs K expo) = 1 := by
  have hn : (expo.length : α) ≠ 0 := ne_of_gt (length_cast_pos expo hne)
  unfold mixtureProbs
  rw [sum_map_div, sum_colSums K _ (by
    intro r hr
    simp only [List.mem_map] at hr
    obtain ⟨w, hw, rfl⟩ := hr
    simp [softmaxRow, hK w hw])]
  rw [sum_const_one expo.length _ (by simp) (by
    intro x hx
    simp only [List.mem_map] at hx
    obtain ⟨r, ⟨w, hw, rfl⟩, rfl⟩ := hx
    exact softmaxRow_sum_one w (hpos w hw))]
  exact div_self hn

/-! ### 4. all parameters are updated together from the pre-step state -/

/-- Every updated value is its rule applied to the *pre-step* values and the statistics: no rule sees
    another rule's new value. -/
theorem updateAll_reads_old {σ τ ρ : Type} (old : σ) (S : τ) (rules : List (String × (σ → τ → ρ)))
    (n : String) (v : ρ) :
    (n, v) ∈ updateAll old S rules ↔ ∃ r, (n, r) ∈ rules ∧ v = r old S := by
  unfold updateAll
  simp only [List.mem_map, Prod.mk.injEq]
  constructor
  · rintro ⟨⟨n', r⟩, hmem, rfl, rfl⟩; exact ⟨r, hmem, rfl⟩
  · rintro ⟨r, hmem, rfl⟩; exact ⟨(n, r), hmem, rfl, rfl⟩

/-- Order irrelevance: permuting the rules permutes the results in the same way. -/
theorem updateAll_order_irrelevant {σ τ ρ : Type} (old : σ) (S : τ)
    (rules rules' : List (String × (σ → τ → ρ))) (h : rules.Perm rules') :
    (updateAll old S rules).Perm (updateAll old S rules') := h.map _

/-- … and position by position: the `i`-th result depends on the `i`-th rule only. -/
theorem updateAll_pointwise {σ τ ρ : Type} (old : σ) (S : τ) (rules : List (String × (σ → τ → ρ))) (i : Nat) :
    (updateAll old S rules)[i]? = (rules[i]?).map (fun nr => (nr.1, nr.2 old S)) := by
  simp [updateAll]

/-- The same for the concrete step of the model (`step` = `updateAll` on the five kinds of rule). -/
theorem step_order_irrelevant (burnIn : Bool) (old : Old α) (S : Stats α) (rules rules' : List (String × Rule α))
    (h : rules.Perm rules') : (step burnIn old S rules).Perm (step burnIn old S rules') := by
  unfold step
  exact updateAll_order_irrelevant old S _ _ (h.map _)

/-- A *sequential* update would differ: with `tau_mean` updated first, the `tau_std` rule would read the new
    mean.  Two individuals `tau = 1, 3`, pre-step mean `0`: batched variance `5`, sequential variance `1`. -/
theorem updateSeq_differs :
    let S : Stats Rat := ⟨[("tau", [[1], [3]]), ("tau_sqr", [[1], [9]])], none⟩
    let old : Old Rat := [("tau_mean", [0])]
    let rules : List (String × Rule Rat) := [("tau_mean", .indMean "tau"), ("tau_std", .indStd "tau" (1/100000))]
    let fs := rules.map (fun nr => (nr.1, fun (o : Old Rat) (s : Stats Rat) => nr.2.apply false o s))
    let set := fun (o : Old Rat) (n : String) (v : Except MErr (List Rat)) =>
      match v with
      | .ok x => (n, x) :: o
      | .error _ => o
    updateAll old S fs = [("tau_mean", .ok [2]), ("tau_std", .ok [5])] ∧
    updateSeq set S old fs = [("tau_mean", .ok [2]), ("tau_std", .ok [1])] := by
  decide +kernel

/-! ### non-vacuity -/

example : indVar (0 : Rat) [1, 3] [1, 9] = 5 := by decide +kernel
example : indVarBurnIn ([1, 3] : List Rat) = 2 := by decide +kernel
example : mixtureProbs 2 ([[1, 3], [2, 2]] : List (List Rat)) = [3/8, 5/8] := by decide +kernel
example : noiseVarDiag [0, 1, 0, 1] 1
    (⟨[(1, true), (1/2, true), (0, false), (1, true)],
      [(1/2, true), (1/8, true), (0, false), (1/2, true)], [1/4, 1/16, 1/4, 1/4]⟩ : NoiseIn Rat) = 5/32 := by
  decide +kernel

/-! ### 5. mixture rules (`compute_ind_param_*_mixture*`, attached in `models/mixture.py`)

`r` = one cluster's responsibilities over the individuals (`probs_ind[:, c]`), `x` = one coordinate of a latent
variable over the individuals (`tau[:, 0]`, `sources[:, j]`). -/

private theorem sum_zipWith_lin (c : α) (r x : List α) (h : r.length = x.length) :
    MStep.sum (List.zipWith (fun ri xi => ri * (xi - c)) r x) = dot r x - c * MStep.sum r := by
  unfold dot
  induction r generalizing x with
  | nil => cases x <;> simp_all [MStep.sum]
  | cons a r ih =>
    cases x with
    | nil => simp at h
    | cons b x =>
      simp only [List.length_cons, Nat.add_right_cancel_iff] at h
      simp only [List.zipWith_cons_cons, sum_cons, ih x h]; ring

private theorem wsqdev_expand (c : α) (r x : List α) (h : r.length = x.length) :
    wsqdev r x c = dot r (x.map (fun xi => xi * xi)) - 2 * c * dot r x + c * c * MStep.sum r := by
  unfold wsqdev dot
  induction r generalizing x with
  | nil => cases x <;> simp_all [MStep.sum]
  | cons a r ih =>
    cases x with
    | nil => simp at h
    | cons b x =>
      simp only [List.length_cons, Nat.add_right_cancel_iff] at h
      simp only [List.map_cons, List.zipWith_cons_cons, sum_cons, ih x h]; ring

private theorem dot_bounds (lo hi : α) (r x : List α) (h : r.length = x.length)
    (hr : ∀ ri ∈ r, 0 ≤ ri) (hx : ∀ xi ∈ x, lo ≤ xi ∧ xi ≤ hi) :
    lo * MStep.sum r ≤ dot r x ∧ dot r x ≤ hi * MStep.sum r := by
  unfold dot
  induction r generalizing x with
  | nil => cases x <;> simp_all [MStep.sum]
  | cons a r ih =>
    cases x with
    | nil => simp at h
    | cons b x =>
      simp only [List.length_cons, Nat.add_right_cancel_iff] at h
      have ha : 0 ≤ a := hr a List.mem_cons_self
      have hb := hx b List.mem_cons_self
      have := ih x h (fun y hy => hr y (List.mem_cons_of_mem _ hy)) (fun y hy => hx y (List.mem_cons_of_mem _ hy))
      simp only [List.zipWith_cons_cons, sum_cons]
      constructor
      · nlinarith [mul_le_mul_of_nonneg_left hb.1 ha, this.1]
      · nlinarith [mul_le_mul_of_nonneg_left hb.2 ha, this.2]

private theorem sum_map_mul_right (s : α) (r : List α) : MStep.sum (r.map (fun ri => ri * s)) = MStep.sum r * s := by
  induction r with
  | nil => simp [MStep.sum]
  | cons a r ih => simp only [List.map_cons, sum_cons, ih]; ring

private theorem sum_zipWith_const (ρ : α) (f : α → α) (r x : List α) (h : r.length = x.length) (hr : ∀ ri ∈ r, ri = ρ) :
    MStep.sum (List.zipWith (fun ri xi => ri * f xi) r x) = ρ * MStep.sum (x.map f) := by
  induction r generalizing x with
  | nil => cases x <;> simp_all [MStep.sum]
  | cons a r ih =>
    cases x with
    | nil => simp at h
    | cons b x =>
      simp only [List.length_cons, Nat.add_right_cancel_iff] at h
      simp only [List.zipWith_cons_cons, List.map_cons, sum_cons, ih x h (fun y hy => hr y (List.mem_cons_of_mem _ hy)),
        hr a List.mem_cons_self]; ring

private theorem sum_const (ρ : α) (r : List α) (hr : ∀ ri ∈ r, ri = ρ) : MStep.sum r = ρ * (r.length : α) := by
  induction r with
  | nil => simp [MStep.sum]
  | cons a r ih =>
    rw [sum_cons, ih (fun y hy => hr y (List.mem_cons_of_mem _ hy)), hr a List.mem_cons_self, List.length_cons]
    push_cast; ring

private theorem sum_pos_of (xs : List α) (hne : xs ≠ []) (h : ∀ x ∈ xs, 0 < x) : 0 < MStep.sum xs := by
  cases xs with
  | nil => exact absurd rfl hne
  | cons x xs =>
    rw [sum_cons]
    exact add_pos_of_pos_of_nonneg (h x List.mem_cons_self)
      (sum_nonneg_of xs fun y hy => le_of_lt (h y (List.mem_cons_of_mem _ hy)))

/-- **First-order condition**: the responsibility-weighted deviations from the mixture mean cancel. -/
theorem mixMean_first_order (r x : List α) (h : r.length = x.length) (hR : MStep.sum r ≠ 0) :
    MStep.sum (List.zipWith (fun ri xi => ri * (xi - mixMean r x)) r x) = 0 := by
  rw [sum_zipWith_lin _ r x h]
  unfold mixMean
  field_simp
  ring

/-- **Algebraic identity** behind the minimisation: the weighted squared deviation from any centre `c` is the one from
    the mixture mean plus `(total responsibility) · (mean − c)²`. -/
theorem mixMean_sqdev_identity (r x : List α) (c : α) (h : r.length = x.length) (hR : MStep.sum r ≠ 0) :
    wsqdev r x c = wsqdev r x (mixMean r x) + MStep.sum r * ((mixMean r x - c) * (mixMean r x - c)) := by
  have hm : mixMean r x * MStep.sum r = dot r x := by unfold mixMean; field_simp
  rw [wsqdev_expand c r x h, wsqdev_expand (mixMean r x) r x h]
  linear_combination (2 * c - 2 * mixMean r x) * hm

/-- The mixture mean rule is the **minimiser** of the responsibility-weighted squared deviation (the closed-form
    maximiser of the complete-data likelihood in the cluster mean) as soon as the responsibilities are non-negative
    with a positive total. -/
theorem mixMean_minimises (r x : List α) (c : α) (h : r.length = x.length) (hR : 0 < MStep.sum r) :
    wsqdev r x (mixMean r x) ≤ wsqdev r x c := by
  rw [mixMean_sqdev_identity r x c h (ne_of_gt hR)]
  have : 0 ≤ MStep.sum r * ((mixMean r x - c) * (mixMean r x - c)) :=
    mul_nonneg (le_of_lt hR) (mul_self_nonneg _)
  linarith

/-- … and the unique one: any other centre is strictly worse. -/
theorem mixMean_unique_minimiser (r x : List α) (c : α) (h : r.length = x.length) (hR : 0 < MStep.sum r)
    (hc : wsqdev r x c ≤ wsqdev r x (mixMean r x)) : c = mixMean r x := by
  rw [mixMean_sqdev_identity r x c h (ne_of_gt hR)] at hc
  have h0 : MStep.sum r * ((mixMean r x - c) * (mixMean r x - c)) ≤ 0 := by linarith
  have h1 : (mixMean r x - c) * (mixMean r x - c) ≤ 0 := by
    by_contra hpos
    have := mul_pos hR (lt_of_not_ge hpos)
    linarith
  have h2 : mixMean r x - c = 0 := by
    have := mul_self_nonneg (mixMean r x - c)
    exact mul_self_eq_zero.mp (le_antisymm h1 this)
  linarith

/-- **Convex hull**: with non-negative responsibilities of positive total, the mixture mean lies between the smallest
    and the largest latent value. -/
theorem mixMean_in_hull (lo hi : α) (r x : List α) (h : r.length = x.length)
    (hr : ∀ ri ∈ r, 0 ≤ ri) (hR : 0 < MStep.sum r) (hx : ∀ xi ∈ x, lo ≤ xi ∧ xi ≤ hi) :
    lo ≤ mixMean r x ∧ mixMean r x ≤ hi := by
  have hb := dot_bounds lo hi r x h hr hx
  unfold mixMean
  exact ⟨(le_div_iff₀ hR).mpr hb.1, (div_le_iff₀ hR).mpr hb.2⟩

/-- The documented (responsibility-weighted) dispersion is non-negative. -/
theorem mixVarDoc_nonneg (r x : List α) (c : α) (hr : ∀ ri ∈ r, 0 ≤ ri) : 0 ≤ mixVarDoc r x c := by
  unfold mixVarDoc wsqdev
  apply div_nonneg _ (sum_nonneg_of r hr)
  apply sum_nonneg_of
  intro y hy
  obtain ⟨i, hi, rfl⟩ := List.getElem_of_mem hy
  simp only [List.getElem_zipWith]
  exact mul_nonneg (hr _ (List.getElem_mem _)) (mul_self_nonneg _)

/-- **What the std rule computes** (after the memory-less phase, statistics of the current latent values): the code's
    variance for cluster `c` is the *unweighted* mean, over **all** individuals, of the squared deviations from the
    **pre-step** mean of cluster `c` — the responsibilities do not enter. -/
theorem mixVar_eq_meansq (μc : α) (xs : List α) (hne : xs ≠ []) :
    mixVar μc xs (xs.map (fun x => x * x)) = mean (xs.map (fun x => (x - μc) * (x - μc))) :=
  indVar_eq_meansq μc xs hne

/-- … hence non-negative. -/
theorem mixVar_nonneg (μc : α) (xs : List α) (hne : xs ≠ []) : 0 ≤ mixVar μc xs (xs.map (fun x => x * x)) :=
  indVar_nonneg μc xs hne

/-- The last line of both std rules, `(probs_ind * std).sum(0) / probs_ind.sum(0)` with `std` constant over the
    individuals, is the identity: the responsibility weights **cancel** whenever the cluster's total is non-zero. -/
theorem mixAvgConst_cancels (r : List α) (s : α) (hR : MStep.sum r ≠ 0) : mixAvgConst r s = s := by
  unfold mixAvgConst
  rw [sum_map_mul_right]
  field_simp

/-- **Deviation from the documented closed form — witness.**  Two well separated groups `x = 0,0,10,10`, hard
    responsibilities for cluster 1 `r = 1,1,0,0`, pre-step mean `0`: the dispersion of the cluster (documented form) is
    `0`, the code's variance is `50` (and the value finally stored, `mixAvgConst r (sqrt 50)`, is `sqrt 50`). -/
theorem mixVar_not_weighted_counterexample :
    let r : List Rat := [1, 1, 0, 0]
    let x : List Rat := [0, 0, 10, 10]
    mixVar 0 x (x.map (fun v => v * v)) = 50 ∧ mixVarDoc r x 0 = 0 ∧ mixStdVarE r (mixVar 0 x (x.map (fun v => v * v))) = .ok 50 := by
  decide +kernel

/-- **… and the exact guard under which the code is right**: when all individuals carry the *same* responsibility for
    the cluster (in particular with a single cluster), the code's variance is the responsibility-weighted dispersion
    about the pre-step cluster mean. -/
theorem mixVar_weighted_partial (ρ μc : α) (r xs : List α) (h : r.length = xs.length) (hne : xs ≠ [])
    (hρ : ρ ≠ 0) (hr : ∀ ri ∈ r, ri = ρ) :
    mixVar μc xs (xs.map (fun x => x * x)) = mixVarDoc r xs μc := by
  have hn : (xs.length : α) ≠ 0 := ne_of_gt (length_cast_pos xs hne)
  rw [mixVar_eq_meansq μc xs hne]
  unfold mixVarDoc wsqdev mean
  rw [sum_zipWith_const ρ (fun xi => (xi - μc) * (xi - μc)) r xs h hr, sum_const ρ r hr, h, List.length_map]
  field_simp

/-- The code's variance minus the documented one, in general: `Σ_i (1/n − r_i/R) (x_i − μ_c)²`. -/
theorem mixVar_minus_doc (μc : α) (r xs : List α) (h : r.length = xs.length) (hne : xs ≠ []) (hR : MStep.sum r ≠ 0) :
    mixVar μc xs (xs.map (fun x => x * x)) - mixVarDoc r xs μc
      = MStep.sum (List.zipWith (fun ri xi => (1 / (xs.length : α) - ri / MStep.sum r) * ((xi - μc) * (xi - μc))) r xs) := by
  have hn : (xs.length : α) ≠ 0 := ne_of_gt (length_cast_pos xs hne)
  rw [mixVar_eq_meansq μc xs hne]
  unfold mixVarDoc wsqdev mean
  rw [List.length_map]
  generalize MStep.sum r = R at hR ⊢
  generalize (xs.length : α) = n at hn ⊢
  have key : ∀ (r xs : List α), r.length = xs.length →
      MStep.sum (List.zipWith (fun ri xi => (1 / n - ri / R) * ((xi - μc) * (xi - μc))) r xs)
        = MStep.sum (xs.map (fun x => (x - μc) * (x - μc))) / n
          - MStep.sum (List.zipWith (fun ri xi => ri * ((xi - μc) * (xi - μc))) r xs) / R := by
    intro r xs h
    induction r generalizing xs with
    | nil => cases xs <;> simp_all [MStep.sum]
    | cons a r ih =>
      cases xs with
      | nil => simp at h
      | cons b xs =>
        simp only [List.length_cons, Nat.add_right_cancel_iff] at h
        simp only [List.zipWith_cons_cons, List.map_cons, sum_cons, ih xs h]
        field_simp
        ring
  rw [key r xs h]

/-- **Single cluster**: with responsibilities all `1` the mixture mean rule is the non-mixture rule `indMean`. -/
theorem mixMean_single_cluster (r x : List α) (h : r.length = x.length) (hr : ∀ ri ∈ r, ri = 1) :
    mixMean r x = indMean x := by
  unfold mixMean indMean mean dot
  have := sum_zipWith_const 1 (fun xi => xi) r x h hr
  simp only [List.map_id'] at this
  rw [this, sum_const 1 r hr, h]
  simp

/-- … the std rule computes the non-mixture variance `indVar` (same operations in the same order), in the memory-less
    phase the Bessel-corrected `indVarBurnIn` (used verbatim by `MixRule.apply`), and the final weighting returns it
    unchanged (`mixAvgConst_cancels`; the total responsibility is `n ≠ 0`). -/
theorem mixVar_single_cluster (μ : α) (xs xsqr : List α) : mixVar μ xs xsqr = indVar μ xs xsqr := rfl

theorem mixAvgConst_single_cluster (r : List α) (s : α) (hne : r ≠ []) (hr : ∀ ri ∈ r, ri = 1) : mixAvgConst r s = s := by
  apply mixAvgConst_cancels
  rw [sum_const 1 r hr, one_mul]
  exact ne_of_gt (length_cast_pos r hne)

/-- … except for the collapse guard: whatever the non-mixture rule accepts (`variance ≥ tol > 0`) the mixture rule returns
    unchanged, but the mixture rule also accepts any variance in `[0, tol)` where `compute_std_from_variance` raises
    `LeaspyConvergenceError` (the `tol` keyword of `for_ind_std_mixture` ends in `**kws`). -/
theorem mixStdVarE_of_guard (tol v : α) (r : List α) (htol : 0 ≤ tol) (hR : MStep.sum r ≠ 0)
    (hg : guardVar tol [v] = .ok [v]) : mixStdVarE r v = .ok v := by
  unfold guardVar at hg
  simp only [List.any_cons, List.any_nil, Bool.or_false, decide_eq_true_eq] at hg
  split at hg
  · cases hg
  · rename_i hlt
    unfold mixStdVarE
    have : ¬ v < 0 := fun h0 => hlt (lt_of_lt_of_le h0 htol)
    simp [this, hR]

theorem mixStd_no_collapse_guard :
    guardVar (1/100000 : Rat) [0] = .error .convergence ∧ mixStdVarE ([1, 1] : List Rat) 0 = .ok 0 := by
  decide +kernel

/-! #### responsibilities and probabilities -/

private theorem colSums_getElem? (K : Nat) (rows : List (List α)) (h : ∀ r ∈ rows, r.length = K) (c : Nat) (hc : c < K) :
    (colSums K rows)[c]? = some (MStep.sum (rows.filterMap (fun r => r[c]?))) := by
  induction rows with
  | nil => simp [colSums, MStep.sum, hc]
  | cons r rows ih =>
    have hrest := ih (fun r' hr => h r' (List.mem_cons_of_mem _ hr))
    have hr : c < r.length := by rw [h r List.mem_cons_self]; exact hc
    simp only [colSums, List.foldr_cons] at hrest ⊢
    rw [List.getElem?_zipWith, hrest, List.getElem?_eq_getElem hr]
    simp [List.getElem?_eq_getElem hr, sum_cons]

private theorem softmaxRow_mem (w : List α) (hw : ∀ e ∈ w, 0 ≤ e) (hs : 0 < MStep.sum w) :
    ∀ p ∈ softmaxRow w, 0 ≤ p ∧ p ≤ 1 := by
  intro p hp
  unfold softmaxRow at hp
  simp only [List.mem_map] at hp
  obtain ⟨e, he, rfl⟩ := hp
  refine ⟨div_nonneg (hw e he) (le_of_lt hs), (div_le_one hs).mpr ?_⟩
  clear hs
  induction w with
  | nil => simp at he
  | cons a w ih =>
    rw [sum_cons]
    have hrest := sum_nonneg_of w (fun y hy => hw y (List.mem_cons_of_mem _ hy))
    rcases List.mem_cons.mp he with rfl | he'
    · linarith
    · have := ih (fun y hy => hw y (List.mem_cons_of_mem _ hy)) he'
      have := hw a List.mem_cons_self
      linarith

/-- Every responsibility lies in `[0, 1]` (non-negative exponentials, positive row sums). -/
theorem resp_in_unit (expo : List (List α)) (hnn : ∀ w ∈ expo, ∀ e ∈ w, 0 ≤ e) (hpos : ∀ w ∈ expo, 0 < MStep.sum w) :
    ∀ row ∈ resp expo, ∀ p ∈ row, 0 ≤ p ∧ p ≤ 1 := by
  intro row hrow p hp
  unfold resp at hrow
  simp only [List.mem_map] at hrow
  obtain ⟨w, hw, rfl⟩ := hrow
  exact softmaxRow_mem w (hnn w hw) (hpos w hw) p hp

private theorem filterMap_col_length (K : Nat) (rows : List (List α)) (h : ∀ r ∈ rows, r.length = K) (c : Nat) (hc : c < K) :
    (rows.filterMap (fun row => row[c]?)).length = rows.length := by
  induction rows with
  | nil => rfl
  | cons r rows ih =>
    have hr : c < r.length := by rw [h r List.mem_cons_self]; exact hc
    simp [List.getElem?_eq_getElem hr, ih (fun r' hr' => h r' (List.mem_cons_of_mem _ hr'))]

private theorem resp_row_length (K : Nat) (expo : List (List α)) (hK : ∀ w ∈ expo, w.length = K) :
    ∀ row ∈ resp expo, row.length = K := by
  intro row hrow
  unfold resp at hrow
  simp only [List.mem_map] at hrow
  obtain ⟨w, hw, rfl⟩ := hrow
  simp [softmaxRow, hK w hw]

/-- **Probabilities = mean responsibilities**: entry `c` of `compute_probs_from_state` is the mean over the individuals
    of the responsibilities for cluster `c`. -/
theorem mixtureProbs_eq_mean_resp (K : Nat) (expo : List (List α)) (hK : ∀ w ∈ expo, w.length = K) (c : Nat) (hc : c < K) :
    (mixtureProbs K expo)[c]? = some (mean ((resp expo).filterMap (fun row => row[c]?))) := by
  have hK' := resp_row_length K expo hK
  have hlen := filterMap_col_length K (resp expo) hK' c hc
  unfold mixtureProbs mean
  rw [List.getElem?_map, show expo.map softmaxRow = resp expo from rfl, colSums_getElem? K (resp expo) hK' c hc, hlen]
  simp [resp]

/-- Each mixture probability lies in `[0, 1]` (for `n ≥ 1` individuals, non-negative exponentials with positive row sums). -/
theorem mixtureProbs_in_unit (K : Nat) (expo : List (List α)) (hne : expo ≠ []) (hK : ∀ w ∈ expo, w.length = K)
    (hnn : ∀ w ∈ expo, ∀ e ∈ w, 0 ≤ e) (hpos : ∀ w ∈ expo, 0 < MStep.sum w) :
    ∀ p ∈ mixtureProbs K expo, 0 ≤ p ∧ p ≤ 1 := by
  intro p hp
  obtain ⟨c, hcl, rfl⟩ := List.getElem_of_mem hp
  have hlenP : (mixtureProbs K expo).length = K := by
    unfold mixtureProbs
    rw [List.length_map]
    exact colSums_length K _ (resp_row_length K expo hK)
  have hc : c < K := hlenP ▸ hcl
  have hget := mixtureProbs_eq_mean_resp K expo hK c hc
  rw [List.getElem?_eq_getElem hcl] at hget
  rw [Option.some.inj hget]
  set col := (resp expo).filterMap (fun row => row[c]?) with hcol
  have hlen : col.length = expo.length := by
    rw [hcol, filterMap_col_length K (resp expo) (resp_row_length K expo hK) c hc]; simp [resp]
  have hmem : ∀ q ∈ col, 0 ≤ q ∧ q ≤ 1 := by
    intro q hq
    rw [hcol, List.mem_filterMap] at hq
    obtain ⟨row, hrow, hq⟩ := hq
    exact resp_in_unit expo hnn hpos row hrow q (List.mem_of_getElem? hq)
  have hn : (0 : α) < (col.length : α) := by rw [hlen]; exact length_cast_pos expo hne
  have hb := dot_bounds 0 1 (col.map (fun _ => (1 : α))) col (by simp)
    (by intro ri hri; simp only [List.mem_map] at hri; obtain ⟨_, _, rfl⟩ := hri; exact zero_le_one) hmem
  have hdot : dot (col.map (fun _ => (1 : α))) col = MStep.sum col := by
    have := sum_zipWith_const 1 (fun xi => xi) (col.map (fun _ => (1 : α))) col (by simp)
      (by intro ri hri; simp only [List.mem_map] at hri; obtain ⟨_, _, rfl⟩ := hri; rfl)
    simpa [dot] using this
  have hones : MStep.sum (col.map (fun _ => (1 : α))) = (col.length : α) := by
    rw [sum_const 1 _ (by intro ri hri; simp only [List.mem_map] at hri; obtain ⟨_, _, rfl⟩ := hri; rfl)]; simp
  rw [hdot, hones] at hb
  unfold mean
  exact ⟨div_nonneg (by linarith [hb.1]) (le_of_lt hn), (div_le_one hn).mpr (by linarith [hb.2])⟩

/-- **Single cluster**: the probability vector is `[1]`. -/
theorem mixtureProbs_single_cluster (expo : List (List α)) (hne : expo ≠ []) (hK : ∀ w ∈ expo, w.length = 1)
    (hpos : ∀ w ∈ expo, MStep.sum w ≠ 0) : mixtureProbs 1 expo = [1] := by
  have hs := mixtureProbs_sum_one 1 expo hne hK hpos
  have hlenP : (mixtureProbs 1 expo).length = 1 := by
    unfold mixtureProbs
    rw [List.length_map]
    exact colSums_length 1 _ (resp_row_length 1 expo hK)
  match hm : mixtureProbs 1 expo, hlenP with
  | [p], _ =>
    rw [hm] at hs
    simp only [MStep.sum, add_zero] at hs
    rw [hs]

/-! #### zero total responsibility -/

/-- The mean rule is defined exactly when the cluster's total responsibility is non-zero, and then it is `mixMean`. -/
theorem mixMeanE_ok_iff (r x : List α) : (∃ v, mixMeanE r x = .ok v) ↔ MStep.sum r ≠ 0 := by
  unfold mixMeanE divE
  constructor
  · rintro ⟨v, hv⟩ h0
    rw [if_pos h0] at hv
    split at hv <;> cases hv
  · intro h; exact ⟨_, by rw [if_neg h]⟩

theorem mixMeanE_eq (r x : List α) (hR : MStep.sum r ≠ 0) : mixMeanE r x = .ok (mixMean r x) := by
  unfold mixMeanE divE mixMean
  rw [if_neg hR]

/-- A cluster every responsibility of which vanished (float underflow): torch computes `0/0`, the new cluster mean is
    `nan` (no exception). -/
theorem mixMeanE_zero_total (r x : List α) (h : r.length = x.length) (hr : ∀ ri ∈ r, ri = 0) :
    mixMeanE r x = .error .nan := by
  have h1 : MStep.sum r = 0 := by rw [sum_const 0 r hr]; simp
  have h2 : dot r x = 0 := by
    have := sum_zipWith_const 0 (fun xi => xi) r x h hr
    simpa [dot] using this
  unfold mixMeanE divE
  rw [if_pos h1, if_pos h2]

/-- For non-negative responsibilities "non-zero total" is "positive total" is "some individual has a positive
    responsibility for the cluster". -/
theorem total_resp_pos_iff (r : List α) (hr : ∀ ri ∈ r, 0 ≤ ri) :
    (MStep.sum r ≠ 0 ↔ 0 < MStep.sum r) ∧ (0 < MStep.sum r ↔ ∃ ri ∈ r, 0 < ri) := by
  have hnn := sum_nonneg_of r hr
  refine ⟨⟨fun h => lt_of_le_of_ne hnn (Ne.symm h), fun h => ne_of_gt h⟩, ?_⟩
  constructor
  · intro hpos
    by_contra hno
    have hz : ∀ ri ∈ r, ri = 0 := fun ri hri =>
      le_antisymm (le_of_not_gt fun h => hno ⟨ri, hri, h⟩) (hr ri hri)
    rw [sum_const 0 r hz] at hpos
    simp at hpos
  · rintro ⟨ri, hri, hpos⟩
    clear hnn
    induction r with
    | nil => simp at hri
    | cons a r ih =>
      rw [sum_cons]
      have ha := hr a List.mem_cons_self
      have hrest := sum_nonneg_of r (fun y hy => hr y (List.mem_cons_of_mem _ hy))
      rcases List.mem_cons.mp hri with rfl | hri'
      · linarith
      · have := ih (fun y hy => hr y (List.mem_cons_of_mem _ hy)) hri'
        linarith

/-- The std rule yields a number exactly when the variance it computed is non-negative and the cluster's total
    responsibility is non-zero (otherwise `nan`, silently). -/
theorem mixStdVarE_ok_iff (r : List α) (v : α) : (∃ w, mixStdVarE r v = .ok w) ↔ (0 ≤ v ∧ MStep.sum r ≠ 0) := by
  unfold mixStdVarE
  constructor
  · rintro ⟨w, hw⟩
    split at hw
    · cases hw
    · rename_i hv
      split at hw
      · cases hw
      · rename_i hR; exact ⟨le_of_not_gt hv, hR⟩
  · rintro ⟨hv, hR⟩
    exact ⟨v, by rw [if_neg (not_lt.mpr hv), if_neg hR]⟩

private theorem collect_ok_iff {β : Type} (l : List (Except MErr β)) :
    (∃ v, collect l = .ok v) ↔ ∀ e ∈ l, ∃ w, e = .ok w := by
  induction l with
  | nil => simp [collect]
  | cons e l ih =>
    cases e with
    | error err => simp [collect]
    | ok w =>
      simp only [collect, List.mem_cons, forall_eq_or_imp]
      constructor
      · rintro ⟨v, hv⟩
        cases hc : collect l with
        | error err => rw [hc] at hv; cases hv
        | ok t => exact ⟨⟨w, rfl⟩, ih.mp ⟨t, hc⟩⟩
      · rintro ⟨_, hall⟩
        obtain ⟨t, ht⟩ := ih.mpr hall
        exact ⟨w :: t, by rw [ht]; rfl⟩

/-- **Well-definedness of the mean rule for a whole variable** (any number of coordinates `≥ 1` and clusters): all the
    new cluster means are numbers iff *every* cluster has a non-zero (= positive, `total_resp_pos_iff`) total
    responsibility; otherwise the parameter tensor silently receives `nan`. -/
theorem mixMeans_defined_iff (rcols xcols : List (List α)) (hx : xcols ≠ []) :
    (∃ v, mixMeans rcols xcols = .ok v) ↔ ∀ rc ∈ rcols, MStep.sum rc ≠ 0 := by
  have inner : ∀ xc : List α, (∃ v, collect (rcols.map (fun rc => mixMeanE rc xc)) = .ok v) ↔ ∀ rc ∈ rcols, MStep.sum rc ≠ 0 := by
    intro xc
    rw [collect_ok_iff]
    simp only [List.mem_map, forall_exists_index, and_imp, forall_apply_eq_imp_iff₂]
    exact forall₂_congr fun rc _ => mixMeanE_ok_iff rc xc
  unfold mixMeans
  constructor
  · rintro ⟨v, hv⟩
    cases hc : collect (xcols.map (fun xc => collect (rcols.map (fun rc => mixMeanE rc xc)))) with
    | error err => rw [hc] at hv; cases hv
    | ok t =>
      have hall := (collect_ok_iff _).mp ⟨t, hc⟩
      obtain ⟨xc, xs, rfl⟩ := List.exists_cons_of_ne_nil hx
      exact (inner xc).mp (hall _ (by simp))
  · intro hall
    have : ∃ t, collect (xcols.map (fun xc => collect (rcols.map (fun rc => mixMeanE rc xc)))) = .ok t := by
      rw [collect_ok_iff]
      intro e he
      simp only [List.mem_map] at he
      obtain ⟨xc, _, rfl⟩ := he
      exact (inner xc).mpr hall
    obtain ⟨t, ht⟩ := this
    exact ⟨t.flatten, by rw [ht]; rfl⟩

/-- With *exact* exponentials (all positive) the situation cannot arise: every cluster has a positive total
    responsibility, for any `n ≥ 1`.  Only floating-point underflow of `exp` empties a cluster; the clamp at `-100`
    bounds the ratio of two exponentials of a row by `e^{100 + max(-nll)}`. -/
theorem resp_total_pos (K : Nat) (expo : List (List α)) (hne : expo ≠ []) (hK : ∀ w ∈ expo, w.length = K)
    (hpos : ∀ w ∈ expo, ∀ e ∈ w, 0 < e) (c : Nat) (hc : c < K) :
    0 < MStep.sum ((resp expo).filterMap (fun row => row[c]?)) := by
  have hK' := resp_row_length K expo hK
  apply sum_pos_of
  · intro hnil
    have := filterMap_col_length K (resp expo) hK' c hc
    rw [hnil] at this
    simp only [resp, List.length_nil, List.length_map] at this
    exact hne (List.eq_nil_of_length_eq_zero this.symm)
  · intro q hq
    rw [List.mem_filterMap] at hq
    obtain ⟨row, hrow, hq⟩ := hq
    have hqm := List.mem_of_getElem? hq
    unfold resp at hrow
    simp only [List.mem_map] at hrow
    obtain ⟨w, hw, rfl⟩ := hrow
    unfold softmaxRow at hqm
    simp only [List.mem_map] at hqm
    obtain ⟨e, he, rfl⟩ := hqm
    have hwne : w ≠ [] := by intro h; rw [h] at he; simp at he
    exact div_pos (hpos w hw e he) (sum_pos_of w hwne (hpos w hw))

/-- Witness: two individuals whose exponentials for the second cluster underflowed to `0`: `probs` is still a
    probability vector, the mean of the emptied cluster is `nan`, its std as well. -/
theorem emptied_cluster_example :
    let pre : MixPre Rat := ⟨[("tau_mean", [0, 10])], [("tau", [[1], [3]])], [[1, 0], [1, 0]]⟩
    let S : Stats Rat := ⟨[("tau", [[1], [3]]), ("tau_sqr", [[1], [9]])], none⟩
    (MixRule.probs 2).apply false pre S = .ok [1, 0] ∧
    (MixRule.mixMean "tau").apply false pre S = .error .nan ∧
    (MixRule.mixStd "tau").apply false pre S = .error .nan ∧
    (MixRule.mixMean "tau").apply false { pre with expo := [[1, 1/2], [1, 1/4]] } S = .ok [23/11, 7/4] := by
  decide +kernel

/-! #### the mixture rules read only pre-step quantities -/

/-- Every updated value of the mixture step is its rule applied to the **pre-step** state (parameters, latent values,
    responsibilities computed from them) and the statistics. -/
theorem mixStep_reads_old (burnIn : Bool) (pre : MixPre α) (S : Stats α) (rules : List (String × MixRule α))
    (n : String) (v : Except MErr (List α)) :
    (n, v) ∈ mixStep burnIn pre S rules ↔ ∃ r, (n, r) ∈ rules ∧ v = r.apply burnIn pre S := by
  unfold mixStep
  rw [updateAll_reads_old]
  simp only [List.mem_map, Prod.mk.injEq]
  constructor
  · rintro ⟨f, ⟨⟨n', r⟩, hmem, rfl, rfl⟩, rfl⟩; exact ⟨r, hmem, rfl⟩
  · rintro ⟨r, hmem, rfl⟩; exact ⟨_, ⟨(n, r), hmem, rfl, rfl⟩, rfl⟩

theorem mixStep_order_irrelevant (burnIn : Bool) (pre : MixPre α) (S : Stats α) (rules rules' : List (String × MixRule α))
    (h : rules.Perm rules') : (mixStep burnIn pre S rules).Perm (mixStep burnIn pre S rules') := by
  unfold mixStep
  exact updateAll_order_irrelevant pre S _ _ (h.map _)

/-- The mean and probability rules do not read the sufficient statistics at all (in particular not their
    stochastic-approximation average): they are functions of the current latent values and responsibilities only,
    in every phase. -/
theorem mixMean_ignores_stats (b b' : Bool) (var : String) (pre : MixPre α) (S S' : Stats α) :
    (MixRule.mixMean var).apply b pre S = (MixRule.mixMean var).apply b' pre S' := rfl

theorem mixProbs_ignores_stats (b b' : Bool) (K : Nat) (pre : MixPre α) (S S' : Stats α) :
    (MixRule.probs K).apply b pre S = (MixRule.probs K).apply b' pre S' := rfl

/-- After the memory-less phase the std rule reads the statistics, the pre-step cluster means and the
    responsibilities — not the current latent values. -/
theorem mixStd_ignores_latents (var : String) (pre pre' : MixPre α) (S : Stats α)
    (hp : pre.params = pre'.params) (he : pre.expo = pre'.expo) :
    (MixRule.mixStd var).apply false pre S = (MixRule.mixStd var).apply false pre' S := by
  simp only [MixRule.apply, hp, he]
  rfl

/-- A sequential update would differ for the mixture rule set too: with `tau_mean` assigned first the `tau_std` rule
    would be centred on the *new* cluster means (`23/11`, `7/4`) instead of the pre-step ones (`0`, `10`). -/
theorem mixSeq_differs :
    let S : Stats Rat := ⟨[("tau", [[1], [3]]), ("tau_sqr", [[1], [9]])], none⟩
    let pre : MixPre Rat := ⟨[("tau_mean", [0, 10])], [("tau", [[1], [3]])], [[1, 1/2], [1, 1/4]]⟩
    let rules : List (String × MixRule Rat) := [("tau_mean", .mixMean "tau"), ("tau_std", .mixStd "tau")]
    let fs := rules.map (fun nr => (nr.1, fun (o : MixPre Rat) (s : Stats Rat) => nr.2.apply false o s))
    let set := fun (o : MixPre Rat) (n : String) (v : Except MErr (List Rat)) =>
      match v with
      | .ok x => { o with params := (n, x) :: o.params }
      | .error _ => o
    updateAll pre S fs = [("tau_mean", .ok [23/11, 7/4]), ("tau_std", .ok [5, 65])] ∧
    updateSeq set S pre fs = [("tau_mean", .ok [23/11, 7/4]), ("tau_std", .ok [122/121, 17/16])] := by
  decide +kernel

/-! #### non-vacuity -/

example : mixMean ([1/2, 1/4] : List Rat) [1, 3] = 5/3 := by decide +kernel
example : wsqdev ([1/2, 1/4] : List Rat) [1, 3] (5/3) = 2/3 := by decide +kernel
example : mixAvgConst ([1/2, 1/4] : List Rat) 7 = 7 := by decide +kernel
example : mixVarDoc ([1/2, 1/4] : List Rat) [1, 3] 0 = 11/3 ∧ mixVar (0 : Rat) [1, 3] [1, 9] = 5 := by decide +kernel

end LeaspyVerif.C04
