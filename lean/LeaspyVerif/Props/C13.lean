/-
C13 — estimate, personalize and simulate leave the model and caller inputs untouched.
Property theorems only.  Model: `Model/Api.lean`, part (c): the model object `(params, hyper, pop, residual)`,
every public call as a function with the read-set / write-set transcribed from the code, external numerical
kernels uninterpreted (`Ext V`).  Everything below holds for every `Ext`, i.e. whatever the samplers, the optimiser
and the trajectory formulas compute — the theorems are about *what they are given* and *where results are stored*.
The transcription itself is validated only by the snapshots of the correspondence harness.

`apply` is the code after repair F8; `applyShipped` is the code before it.
-/
import LeaspyVerif.Model.Api

namespace LeaspyVerif.C13
open LeaspyVerif.Api

variable {V : Type}

/-- calls the property talks about: everything but `fit` and `load` (which are meant to change the parameters) -/
def Call.readOnly : Call V → Bool
  | .fit _ _ => false
  | .load => false
  | _ => true

/-- `estimate` changes nothing at all: not the parameters, not the residual of a fit, not the saved file. -/
theorem estimate_pure (E : Ext V) (w : World V) (input : V) :
    (apply E w (.estimate input)).1 = w := rfl

/-- The three personalisation algorithms leave parameters, hyperparameters and population variables as they were
    (mean / mode posterior additionally *remove* what a fit left behind; scipy_minimize leaves the object as is). -/
theorem personalize_preserves_core (E : Ext V) (w : World V) (data seed : V) :
    (apply E w (.persoMean data seed)).1.obj.core = w.obj.core
      ∧ (apply E w (.persoMode data seed)).1.obj.core = w.obj.core
      ∧ (apply E w (.persoScipy data seed)).1 = w := by
  refine ⟨rfl, rfl, rfl⟩

/-- `simulate` changes nothing at all. -/
theorem simulate_preserves_core (E : Ext V) (w : World V) (settings seed : V) :
    (apply E w (.simulate settings seed)).1 = w := rfl

private theorem step_residual (E : Ext V) (sh : Bool) (w : World V) (c : Call V) (hc : c.isFit = false) :
    (applyGen E sh w c).1.obj.residual = none ∨ (applyGen E sh w c).1.obj.residual = w.obj.residual := by
  cases c <;> simp [applyGen, Call.isFit] at hc ⊢
  case load => cases w.file <;> simp [reload]

/-- **Nothing is left behind.** Along any history without `fit`, the data / individual latent values stored in the
    model are either gone or exactly what they were before the history; in particular a model without residual
    never acquires one, however many estimate / personalize / simulate / save / load calls are made. -/
theorem no_residual_added (E : Ext V) (cs : List (Call V)) (w : World V)
    (hc : ∀ c ∈ cs, c.isFit = false) :
    (run E w cs).1.obj.residual = none ∨ (run E w cs).1.obj.residual = w.obj.residual := by
  induction cs generalizing w with
  | nil => right; rfl
  | cons c cs ih =>
    have h1 := step_residual E false w c (hc c (List.mem_cons_self ..))
    have h2 := ih (applyGen E false w c).1 (fun c' hc' => hc c' (List.mem_cons_of_mem _ hc'))
    simp only [run, runGen] at h2 ⊢
    rcases h2 with h2 | h2
    · left; exact h2
    · rcases h1 with h1 | h1
      · left; rw [h2, h1]
      · right; rw [h2, h1]

theorem no_residual_added_none (E : Ext V) (cs : List (Call V)) (w : World V)
    (hc : ∀ c ∈ cs, c.isFit = false) (h0 : w.obj.residual = none) :
    (run E w cs).1.obj.residual = none := by
  rcases no_residual_added E cs w hc with h | h
  · exact h
  · rw [h, h0]

/-- **The protected part never moves**: along any history of estimate / personalize / simulate / save calls the
    parameters, hyperparameters and population variables stay what they were. -/
theorem core_preserved_history (E : Ext V) (cs : List (Call V)) (w : World V)
    (hc : ∀ c ∈ cs, Call.readOnly c = true) :
    (run E w cs).1.obj.core = w.obj.core := by
  induction cs generalizing w with
  | nil => rfl
  | cons c cs ih =>
    have h2 := ih (applyGen E false w c).1 (fun c' hc' => hc c' (List.mem_cons_of_mem _ hc'))
    have h1 : (applyGen E false w c).1.obj.core = w.obj.core := by
      have := hc c (List.mem_cons_self ..)
      cases c <;> simp [Call.readOnly] at this <;> rfl
    simp only [run, runGen] at h2 ⊢
    rw [h2, h1]

private theorem step_indep (E : Ext V) (w w' : World V) (c : Call V) (hc : c.isFit = false)
    (hcore : w.obj.core = w'.obj.core) (hfile : w.file = w'.file) :
    (apply E w c).2 = (apply E w' c).2
      ∧ (apply E w c).1.obj.core = (apply E w' c).1.obj.core
      ∧ (apply E w c).1.file = (apply E w' c).1.file := by
  obtain ⟨⟨p, h, q, r⟩, f⟩ := w
  obtain ⟨⟨p', h', q', r'⟩, f'⟩ := w'
  simp only [Obj.core, Prod.mk.injEq] at hcore
  obtain ⟨rfl, rfl, rfl⟩ := hcore
  simp only at hfile
  subst hfile
  cases c <;> simp [apply, applyGen, Call.isFit, Obj.core] at hc ⊢
  case load => cases f <;> simp [reload]

/-- **Results do not depend on what earlier calls left in the object.** Two objects with the same parameters,
    hyperparameters and population variables (and the same saved file) — but arbitrary, different leftovers of
    earlier fits — return the same values for every history of non-fit calls, and stay indistinguishable.
    Holds for estimate, mean/mode posterior, simulate, and (after repair F8) scipy_minimize. -/
theorem result_independent_of_residual (E : Ext V) (cs : List (Call V)) (w w' : World V)
    (hc : ∀ c ∈ cs, c.isFit = false)
    (hcore : w.obj.core = w'.obj.core) (hfile : w.file = w'.file) :
    (run E w cs).2 = (run E w' cs).2 ∧ (run E w cs).1.obj.core = (run E w' cs).1.obj.core := by
  induction cs generalizing w w' with
  | nil => exact ⟨rfl, hcore⟩
  | cons c cs ih =>
    obtain ⟨hr, hco, hf⟩ := step_indep E w w' c (hc c (List.mem_cons_self ..)) hcore hfile
    have := ih (apply E w c).1 (apply E w' c).1 (fun c' hc' => hc c' (List.mem_cons_of_mem _ hc')) hco hf
    simp only [run, runGen, apply] at this hr ⊢
    exact ⟨by rw [hr, this.1], this.2⟩

/-- The form the harness checks: after *any* history (fits included) the next non-fit call returns, on the object
    itself, what it returns on a freshly loaded copy `load(save(object))`. -/
theorem result_same_on_fresh_copy (E : Ext V) (cs : List (Call V)) (w : World V) (c : Call V)
    (hc : c.isFit = false) (h0 : w.obj.pop = E.priorMode w.obj.params) :
    let w1 := (run E w cs).1
    (apply E w1 c).2 = (apply E { w1 with obj := freshCopy E w1.obj } c).2 := by
  intro w1
  have hpop : w1.obj.pop = E.priorMode w1.obj.params := by
    -- the invariant of C12.pop_prior_mode_invariant, re-proved here to keep this file self-contained
    have : ∀ (cs : List (Call V)) (w : World V), w.obj.pop = E.priorMode w.obj.params →
        (run E w cs).1.obj.pop = E.priorMode (run E w cs).1.obj.params := by
      intro cs
      induction cs with
      | nil => intro w h; simpa [run, runGen] using h
      | cons c cs ih =>
        intro w h
        have step : (applyGen E false w c).1.obj.pop = E.priorMode (applyGen E false w c).1.obj.params := by
          cases c <;> simp [applyGen, h]
          case load => cases hf : w.file <;> simp [reload, h]
        simpa [run, runGen] using ih (applyGen E false w c).1 step
    exact this cs w h0
  refine (step_indep E w1 { w1 with obj := freshCopy E w1.obj } c hc ?_ rfl).1
  simp [Obj.core, freshCopy, reload, hpop]

/- Full-strength statement for the code *as shipped* (before repair F8):

   | theorem result_independent_of_residual_shipped : … same statement with `applyShipped` …

   It is false: scipy_minimize starts from the first row of the individual latent values a fit left in
   `model.state`. -/

/-- F8, refutation for the shipped code: two objects with identical parameters, one fresh and one carrying the
    leftovers of a fit, give different scipy_minimize results as soon as the optimiser's answer depends on its
    start point (here: the optimiser that returns its start point). -/
theorem result_independent_of_residual_shipped_counterexample :
    let E : Ext Nat :=
      { priorMode := fun p => p, start := fun _ _ _ _ => 0, saem := fun _ p _ _ _ _ => (p, 7),
        traj := fun _ _ _ _ => 0, mcmc := fun _ _ _ _ _ _ => 0, optimise := fun _ _ _ _ st => st,
        firstRow := fun l => l + 1, sim := fun _ _ _ _ _ => 0 }
    let fresh : World Nat := ⟨⟨1, 2, 1, none⟩, none⟩
    let fitted : World Nat := ⟨⟨1, 2, 1, some (5, 7)⟩, none⟩
    fresh.obj.core = fitted.obj.core
      ∧ (applyShipped E fresh (.persoScipy 5 0)).2 ≠ (applyShipped E fitted (.persoScipy 5 0)).2
      ∧ (apply E fresh (.persoScipy 5 0)).2 = (apply E fitted (.persoScipy 5 0)).2 := by
  decide

/-- F8, the part that held before the repair: every call other than scipy_minimize was already independent of
    the leftovers. -/
theorem result_independent_of_residual_shipped_partial (E : Ext V) (w w' : World V) (c : Call V)
    (hc : c.isFit = false) (hs : ∀ d s, c ≠ .persoScipy d s)
    (hcore : w.obj.core = w'.obj.core) (hfile : w.file = w'.file) :
    (applyShipped E w c).2 = (applyShipped E w' c).2 := by
  obtain ⟨⟨p, h, q, r⟩, f⟩ := w
  obtain ⟨⟨p', h', q', r'⟩, f'⟩ := w'
  simp only [Obj.core, Prod.mk.injEq] at hcore
  obtain ⟨rfl, rfl, rfl⟩ := hcore
  simp only at hfile
  subst hfile
  cases c <;> simp [applyShipped, applyGen, Call.isFit] at hc hs ⊢
  case load => cases f <;> rfl

/-- Non-vacuity: a concrete history with two fits on the symbolic externals; the scipy result on the fitted
    object and on its reloaded copy are the same term. -/
example :
    let w0 : World String := ⟨⟨"p0", "h", "mode(p0)", none⟩, none⟩
    let r := (run symExt w0 [.fit "D" "1", .persoScipy "D2" "2", .save, .load, .persoScipy "D2" "2"]).2
    r[1]? = r[4]? ∧ r[1]? ≠ some none := by
  decide +kernel

end LeaspyVerif.C13
