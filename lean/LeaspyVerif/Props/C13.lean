/-
C13 — estimate, personalize and simulate leave the model and caller inputs untouched.
Property theorems only.  Model: `Model/Api.lean`, part (c): the model object `(params, hyper, pop, residual)`,
every public call as a function with the read-set / write-set transcribed from the code, external numerical
kernels uninterpreted (`Ext V`).  Everything below holds for every `Ext`, i.e. whatever the samplers, the optimiser
and the trajectory formulas compute — the theorems are about *what they are given* and *where results are stored*.
The transcription itself is validated only by the snapshots of the correspondence harness.

`apply` is the code after repair F8; `applyShipped` is the code before it.

Second part (footprints): `Model/Footprint.lean`.  The read/write footprint of every real call is *recorded* from the
running code (wrappers on `State` and on the model object) as a history of C01 state operations over state
identities (0 = `model.state` when the call starts, k = k-th clone) plus model-level events.  The theorems below hold
for every graph, every value type and every such history; the recorded history of each call is then decided by the
same functions (`touchesOriginal`, `writesOriginal`, `analyse`, `verdict`) in `drivers/C13.lean`.  With them the
read-set / write-set assumption of part (c) is discharged call by call (`footprint_refines_api`,
`footprint_history_refines_api`): what remains trusted is that the recorder sees every event.
-/
import LeaspyVerif.Model.Api
import LeaspyVerif.Lemmas.Footprint
import LeaspyVerif.Props.C01

namespace LeaspyVerif.C13
open LeaspyVerif.Api

variable {V : Type}

/-- calls the property talks about: everything but `fit` and `load` (which are meant to change the parameters) -/
def Call.readOnly : Call V → Bool
  | .fit _ _ => false
  | .load => false
  | _ => true

/-- `estimate` changes nothing at all: not the parameters, not the residual of a fit, not the saved file. -/
theorem estimate_pure (E : Ext V) (w : World V) (input : V) :
    (apply E w (.estimate input)).1 = w := rfl

/-- The three personalisation algorithms leave parameters, hyperparameters and population variables as they were
    (mean / mode posterior additionally *remove* what a fit left behind; scipy_minimize leaves the object as is). -/
theorem personalize_preserves_core (E : Ext V) (w : World V) (data seed : V) :
    (apply E w (.persoMean data seed)).1.obj.core = w.obj.core
      ∧ (apply E w (.persoMode data seed)).1.obj.core = w.obj.core
      ∧ (apply E w (.persoScipy data seed)).1 = w := by
  refine ⟨rfl, rfl, rfl⟩

/-- `simulate` changes nothing at all. -/
theorem simulate_preserves_core (E : Ext V) (w : World V) (settings seed : V) :
    (apply E w (.simulate settings seed)).1 = w := rfl

private theorem step_residual (E : Ext V) (sh : Bool) (w : World V) (c : Call V) (hc : c.isFit = false) :
    (applyGen E sh w c).1.obj.residual = none ∨ (applyGen E sh w c).1.obj.residual = w.obj.residual := by
  cases c <;> simp [applyGen, Call.isFit] at hc ⊢
  case load => cases w.file <;> simp [reload]

/-- **Nothing is left behind.** Along any history without `fit`, the data / individual latent values stored in the
    model are either gone or exactly what they were before the history; in particular a model without residual
    never acquires one, however many estimate / personalize / simulate / save / load calls are made. -/
theorem no_residual_added (E : Ext V) (cs : List (Call V)) (w : World V)
    (hc : ∀ c ∈ cs, c.isFit = false) :
    (run E w cs).1.obj.residual = none ∨ (run E w cs).1.obj.residual = w.obj.residual := by
  induction cs generalizing w with
  | nil => right; rfl
  | cons c cs ih =>
    have h1 := step_residual E false w c (hc c (List.mem_cons_self ..))
    have h2 := ih (applyGen E false w c).1 (fun c' hc' => hc c' (List.mem_cons_of_mem _ hc'))
    simp only [run, runGen] at h2 ⊢
    rcases h2 with h2 | h2
    · left; exact h2
    · rcases h1 with h1 | h1
      · left; rw [h2, h1]
      · right; rw [h2, h1]

theorem no_residual_added_none (E : Ext V) (cs : List (Call V)) (w : World V)
    (hc : ∀ c ∈ cs, c.isFit = false) (h0 : w.obj.residual = none) :
    (run E w cs).1.obj.residual = none := by
  rcases no_residual_added E cs w hc with h | h
  · exact h
  · rw [h, h0]

/-- **The protected part never moves**: along any history of estimate / personalize / simulate / save calls the
    parameters, hyperparameters and population variables stay what they were. -/
theorem core_preserved_history (E : Ext V) (cs : List (Call V)) (w : World V)
    (hc : ∀ c ∈ cs, Call.readOnly c = true) :
    (run E w cs).1.obj.core = w.obj.core := by
  induction cs generalizing w with
  | nil => rfl
  | cons c cs ih =>
    have h2 := ih (applyGen E false w c).1 (fun c' hc' => hc c' (List.mem_cons_of_mem _ hc'))
    have h1 : (applyGen E false w c).1.obj.core = w.obj.core := by
      have := hc c (List.mem_cons_self ..)
      cases c <;> simp [Call.readOnly] at this <;> rfl
    simp only [run, runGen] at h2 ⊢
    rw [h2, h1]

private theorem step_indep (E : Ext V) (w w' : World V) (c : Call V) (hc : c.isFit = false)
    (hcore : w.obj.core = w'.obj.core) (hfile : w.file = w'.file) :
    (apply E w c).2 = (apply E w' c).2
      ∧ (apply E w c).1.obj.core = (apply E w' c).1.obj.core
      ∧ (apply E w c).1.file = (apply E w' c).1.file := by
  obtain ⟨⟨p, h, q, r⟩, f⟩ := w
  obtain ⟨⟨p', h', q', r'⟩, f'⟩ := w'
  simp only [Obj.core, Prod.mk.injEq] at hcore
  obtain ⟨rfl, rfl, rfl⟩ := hcore
  simp only at hfile
  subst hfile
  cases c <;> simp [apply, applyGen, Call.isFit, Obj.core] at hc ⊢
  case load => cases f <;> simp [reload]

/-- **Results do not depend on what earlier calls left in the object.** Two objects with the same parameters,
    hyperparameters and population variables (and the same saved file) — but arbitrary, different leftovers of
    earlier fits — return the same values for every history of non-fit calls, and stay indistinguishable.
    Holds for estimate, mean/mode posterior, simulate, and (after repair F8) scipy_minimize. -/
theorem result_independent_of_residual (E : Ext V) (cs : List (Call V)) (w w' : World V)
    (hc : ∀ c ∈ cs, c.isFit = false)
    (hcore : w.obj.core = w'.obj.core) (hfile : w.file = w'.file) :
    (run E w cs).2 = (run E w' cs).2 ∧ (run E w cs).1.obj.core = (run E w' cs).1.obj.core := by
  induction cs generalizing w w' with
  | nil => exact ⟨rfl, hcore⟩
  | cons c cs ih =>
    obtain ⟨hr, hco, hf⟩ := step_indep E w w' c (hc c (List.mem_cons_self ..)) hcore hfile
    have := ih (apply E w c).1 (apply E w' c).1 (fun c' hc' => hc c' (List.mem_cons_of_mem _ hc')) hco hf
    simp only [run, runGen, apply] at this hr ⊢
    exact ⟨by rw [hr, this.1], this.2⟩

/-- The form the harness checks: after *any* history (fits included) the next non-fit call returns, on the object
    itself, what it returns on a freshly loaded copy `load(save(object))`. -/
theorem result_same_on_fresh_copy (E : Ext V) (cs : List (Call V)) (w : World V) (c : Call V)
    (hc : c.isFit = false) (h0 : w.obj.pop = E.priorMode w.obj.params) :
    let w1 := (run E w cs).1
    (apply E w1 c).2 = (apply E { w1 with obj := freshCopy E w1.obj } c).2 := by
  intro w1
  have hpop : w1.obj.pop = E.priorMode w1.obj.params := by
    -- the invariant of C12.pop_prior_mode_invariant, re-proved here to keep this file self-contained
    have : ∀ (cs : List (Call V)) (w : World V), w.obj.pop = E.priorMode w.obj.params →
        (run E w cs).1.obj.pop = E.priorMode (run E w cs).1.obj.params := by
      intro cs
      induction cs with
      | nil => intro w h; simpa [run, runGen] using h
      | cons c cs ih =>
        intro w h
        have step : (applyGen E false w c).1.obj.pop = E.priorMode (applyGen E false w c).1.obj.params := by
          cases c <;> simp [applyGen, h]
          case load => cases hf : w.file <;> simp [reload, h]
        simpa [run, runGen] using ih (applyGen E false w c).1 step
    exact this cs w h0
  refine (step_indep E w1 { w1 with obj := freshCopy E w1.obj } c hc ?_ rfl).1
  simp [Obj.core, freshCopy, reload, hpop]

/- Full-strength statement for the code *as shipped* (before repair F8):

   | theorem result_independent_of_residual_shipped : … same statement with `applyShipped` …

   It is false: scipy_minimize starts from the first row of the individual latent values a fit left in
   `model.state`. -/

/-- F8, refutation for the shipped code: two objects with identical parameters, one fresh and one carrying the
    leftovers of a fit, give different scipy_minimize results as soon as the optimiser's answer depends on its
    start point (here: the optimiser that returns its start point). -/
theorem result_independent_of_residual_shipped_counterexample :
    let E : Ext Nat :=
      { priorMode := fun p => p, start := fun _ _ _ _ => 0, saem := fun _ p _ _ _ _ => (p, 7),
        traj := fun _ _ _ _ => 0, mcmc := fun _ _ _ _ _ _ => 0, optimise := fun _ _ _ _ st => st,
        firstRow := fun l => l + 1, sim := fun _ _ _ _ _ => 0 }
    let fresh : World Nat := ⟨⟨1, 2, 1, none⟩, none⟩
    let fitted : World Nat := ⟨⟨1, 2, 1, some (5, 7)⟩, none⟩
    fresh.obj.core = fitted.obj.core
      ∧ (applyShipped E fresh (.persoScipy 5 0)).2 ≠ (applyShipped E fitted (.persoScipy 5 0)).2
      ∧ (apply E fresh (.persoScipy 5 0)).2 = (apply E fitted (.persoScipy 5 0)).2 := by
  decide

/-- F8, the part that held before the repair: every call other than scipy_minimize was already independent of
    the leftovers. -/
theorem result_independent_of_residual_shipped_partial (E : Ext V) (w w' : World V) (c : Call V)
    (hc : c.isFit = false) (hs : ∀ d s, c ≠ .persoScipy d s)
    (hcore : w.obj.core = w'.obj.core) (hfile : w.file = w'.file) :
    (applyShipped E w c).2 = (applyShipped E w' c).2 := by
  obtain ⟨⟨p, h, q, r⟩, f⟩ := w
  obtain ⟨⟨p', h', q', r'⟩, f'⟩ := w'
  simp only [Obj.core, Prod.mk.injEq] at hcore
  obtain ⟨rfl, rfl, rfl⟩ := hcore
  simp only at hfile
  subst hfile
  cases c <;> simp [applyShipped, applyGen, Call.isFit] at hc hs ⊢
  case load => cases f <;> rfl

/-- Non-vacuity: a concrete history with two fits on the symbolic externals; the scipy result on the fitted
    object and on its reloaded copy are the same term. -/
example :
    let w0 : World String := ⟨⟨"p0", "h", "mode(p0)", none⟩, none⟩
    let r := (run symExt w0 [.fit "D" "1", .persoScipy "D2" "2", .save, .load, .persoScipy "D2" "2"]).2
    r[1]? = r[4]? ∧ r[1]? ≠ some none := by
  decide +kernel

/-! ## Footprints recorded from the running code (`Model/Footprint.lean`) -/

section footprint
open LeaspyVerif.State LeaspyVerif.Footprint

variable {M : Type}

/-- one event: for the `State` operations this is C01's `step_other_states_untouched` -/
private theorem stepEv_untouched (g : Graph V) (mix : M → V → V → V) (w : Footprint.World V) (e : Ev V M) (k : Nat)
    (h : e.addresses k = false) : (stepEv g mix w e).store k = w.store k := by
  cases e with
  | op o =>
    simp only [Ev.addresses, Bool.and_eq_false_imp, beq_iff_eq, Bool.not_eq_eq_eq_not, Bool.not_false] at h
    simp only [stepEv]
    cases o with
    | isSet sid i => simp only [step]; cases w.store sid <;> rfl
    | get sid i | set sid i v | put sid i t v | revert sid m | precompute sid | setMode sid m | clear sid =>
      exact C01.step_other_states_untouched mix w.store _ k
        (by intro e; exact absurd (h (by simp [target, e])) (by simp [isNeutral]))
    | clone src dst a b =>
      exact C01.step_other_states_untouched mix w.store _ k
        (by intro e; exact absurd (h (by simp [target, e])) (by simp [isNeutral]))
  | havoc _ _ | shared _ _ _ | bind _ | attr _ _ => exact stepEv_frame g mix w _ k h

/-- **Frame.** A state that no event of the history addresses is, at the end, exactly what it was: values, cache,
    pending fork and mode.  (Composition of C01's `step_other_states_untouched` along the history.) -/
theorem footprint_frame (g : Graph V) (mix : M → V → V → V) (k : Nat) :
    ∀ (h : List (Ev V M)) (w : Footprint.World V), (∀ e ∈ h, e.addresses k = false) →
      (runEv g mix w h).store k = w.store k := by
  intro h
  induction h with
  | nil => intro w _; rfl
  | cons e h ih =>
    intro w hh
    simp only [runEv]
    rw [ih _ (fun e' he' => hh e' (List.mem_cons_of_mem _ he'))]
    exact stepEv_untouched g mix w e k (hh e (List.mem_cons_self ..))

private theorem touches_false_iff (h : List (Ev V M)) :
    touchesOriginal h = false ↔ ∀ e ∈ h, e.addresses 0 = false ∧ e.modelLevel = false := by
  simp only [touchesOriginal, List.any_eq_false, Ev.touches0, Bool.or_eq_true, not_or, Bool.not_eq_true]

/-- **Purity from the footprint.** When no event of the recorded history addresses the original state, re-binds the
    model's state or writes a model attribute, the original state is unchanged *as a whole* — not only the independent
    values but every cached derived value, the pending fork and the fork mode (nothing is left behind, not even in
    the cache) — and the model still points to it, with the same attributes.  For every graph, every value type,
    every history, any number of clones. -/
theorem footprint_pure (g : Graph V) (mix : M → V → V → V) (h : List (Ev V M)) (w : Footprint.World V)
    (ht : touchesOriginal h = false) :
    (runEv g mix w h).store 0 = w.store 0 ∧ (runEv g mix w h).bound = w.bound
      ∧ (runEv g mix w h).attrs = w.attrs := by
  have hall := (touches_false_iff h).1 ht
  refine ⟨footprint_frame g mix 0 h w (fun e he => (hall e he).1), ?_⟩
  clear ht
  induction h generalizing w with
  | nil => exact ⟨rfl, rfl⟩
  | cons e h ih =>
    simp only [runEv]
    obtain ⟨h1, h2⟩ := ih (stepEv g mix w e) (fun e' he' => hall e' (List.mem_cons_of_mem _ he'))
    obtain ⟨h3, h4⟩ := stepEv_model_frame g mix w e (hall e (List.mem_cons_self ..)).2
    exact ⟨h1.trans h3, h2.trans h4⟩

private theorem writes_false_iff (h : List (Ev V M)) :
    writesOriginal h = false ↔
      ∀ e ∈ h, (e.addresses 0 = false ∨ e.readsOnly 0 = true) ∧ e.modelLevel = false := by
  simp only [writesOriginal, List.any_eq_false, Ev.writes0]
  constructor
  · intro hh e he
    have := hh e he
    cases ha : e.addresses 0 <;> cases hr : e.readsOnly 0 <;> cases hm : e.modelLevel <;> simp_all
  · intro hh e he
    obtain ⟨h1, h2⟩ := hh e he
    cases ha : e.addresses 0 <;> cases hr : e.readsOnly 0 <;> cases hm : e.modelLevel <;> simp_all

/-- **Reads only.** When the only events addressing the original state are reads (`__getitem__` of a value that was
    not cached, `precompute_all`), the original state keeps its pending fork, its mode, every independent value and
    every value that was cached; the only possible change is that empty cache entries of derived variables get
    filled.  Purely structural: no hypothesis on the graph or on the state. -/
theorem footprint_reads_only (g : Graph V) (mix : M → V → V → V) (h : List (Ev V M)) (w : Footprint.World V) {s0 : St V}
    (h0 : w.store 0 = some s0) (hw : writesOriginal h = false) :
    ∃ s1, (runEv g mix w h).store 0 = some s1 ∧ s1.fork = s0.fork ∧ s1.mode = s0.mode
      ∧ (∀ j, (g.kind j ≠ .linked ∨ s0.vals j ≠ none) → s1.vals j = s0.vals j)
      ∧ (runEv g mix w h).bound = w.bound ∧ (runEv g mix w h).attrs = w.attrs := by
  have hall := (writes_false_iff h).1 hw
  clear hw
  induction h generalizing w s0 with
  | nil => exact ⟨s0, h0, rfl, rfl, fun _ _ => rfl, rfl, rfl⟩
  | cons e h ih =>
    simp only [runEv]
    obtain ⟨hcase, hml⟩ := hall e (List.mem_cons_self ..)
    obtain ⟨hb, hat⟩ := stepEv_model_frame g mix w e hml
    have hstep : ∃ s', (stepEv g mix w e).store 0 = some s' ∧ s'.fork = s0.fork ∧ s'.mode = s0.mode ∧
        ∀ j, (g.kind j ≠ .linked ∨ s0.vals j ≠ none) → s'.vals j = s0.vals j := by
      rcases hcase with hc | hc
      · exact ⟨s0, by rw [stepEv_frame g mix w e 0 hc]; exact h0, rfl, rfl, fun _ _ => rfl⟩
      · exact stepEv_reads g mix w e 0 h0 hc
    obtain ⟨s', hs', hf', hm', hv'⟩ := hstep
    obtain ⟨s1, hs1, hf1, hm1, hv1, hb1, ha1⟩ :=
      ih (stepEv g mix w e) hs' (fun e' he' => hall e' (List.mem_cons_of_mem _ he'))
    refine ⟨s1, hs1, hf1.trans hf', hm1.trans hm', ?_, hb1.trans hb, ha1.trans hat⟩
    intro j hj
    have hj' : g.kind j ≠ .linked ∨ s'.vals j ≠ none := by
      rcases hj with hj | hj
      · exact Or.inl hj
      · right; rw [hv' j (Or.inr hj)]; exact hj
    rw [hv1 j hj', hv' j hj]

private theorem read_event_inv {g : Graph V} (wf : WF g) (mix : M → V → V → V) (w : Footprint.World V) (e : Ev V M)
    {s : St V} (hs : w.store 0 = some s) (hinv : Inv g s) (h : e.readsOnly 0 = true) :
    ∃ s', (stepEv g mix w e).store 0 = some s' ∧ Inv g s' ∧ absS g s' = absS g s := by
  cases e with
  | op o =>
    cases o with
    | get sid i =>
      simp only [Ev.readsOnly, target, isRead, Bool.and_true, beq_iff_eq] at h
      subst h
      refine ⟨(State.get g s i).1, by simp [stepEv, step, hs, Store.put], ?_⟩
      by_cases hi : i < g.n
      · exact ⟨(get_spec wf hinv hi).1, (get_spec wf hinv hi).2.1⟩
      · have : State.get g s i = (s, .error .input) := by unfold State.get; simp [Nat.le_of_not_lt hi]
        rw [this]; exact ⟨hinv, rfl⟩
    | precompute sid =>
      simp only [Ev.readsOnly, target, isRead, Bool.and_true, beq_iff_eq] at h
      subst h
      exact ⟨(precompute g s).1, by simp [stepEv, step, hs, Store.put], inv_precompute wf hinv⟩
    | isSet _ _ | set _ _ _ | put _ _ _ _ | revert _ _ | clone _ _ _ _ | setMode _ _ | clear _ =>
      simp [Ev.readsOnly, isRead] at h
  | havoc _ _ | shared _ _ _ | bind _ | attr _ _ => simp [Ev.readsOnly] at h

/-- **Composition with C01.** On a well-formed graph (every graph accepted by the DAG construction, C01
    `wf_of_build`), starting from a consistent original state, a history that only reads the original state leaves it
    consistent with *the same independent values*: whatever was filled into its cache is the from-scratch value, and
    every later read of any variable answers exactly as it would have before the call (C01 `get_refines`). -/
theorem footprint_reads_refine {g : Graph V} (wf : WF g) (mix : M → V → V → V) (h : List (Ev V M)) (w : Footprint.World V)
    {s0 : St V} (h0 : w.store 0 = some s0) (hinv : Inv g s0) (hw : writesOriginal h = false) :
    ∃ s1, (runEv g mix w h).store 0 = some s1 ∧ Inv g s1 ∧ absS g s1 = absS g s0
      ∧ (∀ j < g.n, ∀ v, s1.vals j = some v → spec g (absS g s0) j = some v)
      ∧ (∀ i < g.n, ReadOK g (absS g s0) i (State.get g s1 i).2) := by
  have hall := (writes_false_iff h).1 hw
  clear hw
  have key : ∃ s1, (runEv g mix w h).store 0 = some s1 ∧ Inv g s1 ∧ absS g s1 = absS g s0 := by
    induction h generalizing w s0 with
    | nil => exact ⟨s0, h0, hinv, rfl⟩
    | cons e h ih =>
      simp only [runEv]
      obtain ⟨hcase, _⟩ := hall e (List.mem_cons_self ..)
      have hstep : ∃ s', (stepEv g mix w e).store 0 = some s' ∧ Inv g s' ∧ absS g s' = absS g s0 := by
        rcases hcase with hc | hc
        · exact ⟨s0, by rw [stepEv_frame g mix w e 0 hc]; exact h0, hinv, rfl⟩
        · exact read_event_inv wf mix w e h0 hinv hc
      obtain ⟨s', hs', hi', ha'⟩ := hstep
      obtain ⟨s1, hs1, hi1, ha1⟩ := ih (stepEv g mix w e) hs' hi' (fun e' he' => hall e' (List.mem_cons_of_mem _ he'))
      exact ⟨s1, hs1, hi1, ha1.trans ha'⟩
  obtain ⟨s1, hs1, hi1, ha1⟩ := key
  refine ⟨s1, hs1, hi1, ha1, ?_, ?_⟩
  · intro j hj v hv
    have := hi1.cons j hj v hv
    rw [show absC g s1.vals = absS g s1 from rfl, ha1] at this
    exact this
  · intro i hi
    have := (C01.get_refines wf hi1 hi).1
    rw [ha1] at this
    exact this

/-- **A clone is isolated from its source** (C01 at the level of a call): right after `clone` the new state holds
    the values of its source, and whatever the rest of the call does to the clone — or to any other state — the
    source is exactly what it was. -/
theorem clone_isolated (g : Graph V) (mix : M → V → V → V) (w : Footprint.World V) (src dst : Nat) (a b : Bool)
    (h : List (Ev V M)) {s : St V} (hs : w.store src = some s) (hne : dst ≠ src)
    (hh : ∀ e ∈ h, e.addresses src = false) :
    (stepEv g mix w (.op (.clone src dst a b))).store dst = some (clone s a b)
      ∧ (clone s a b).vals = s.vals
      ∧ (runEv g mix (stepEv g mix w (.op (.clone src dst a b))) h).store src = some s := by
  refine ⟨by simp [stepEv, step, hs, Store.put], rfl, ?_⟩
  rw [footprint_frame g mix src h _ hh]
  have : src ≠ dst := fun e => hne e.symm
  simp [stepEv, step, hs, Store.put, this]

private theorem nonLinked_spec {g : Graph V} {l : List Nat} (h : nonLinked g l = true) :
    ∀ p ∈ l, g.kind p ≠ .linked := by
  intro p hp
  simp only [nonLinked, List.all_eq_true, bne_iff_ne, ne_eq] at h
  exact h p hp

/-- **Soundness of the footprint analysis** for the calls that do work on `model.state` and re-bind the model to a
    clone (mean / mode posterior).  `P` is any set of independent variables.  If the abstract interpreter says that
    the state bound to the model at the end is described by `a`, then that state exists and: when `a.same`, each
    protected variable holds exactly what it held in the original state when the call started — whatever was
    assigned, proposed and reverted on the original state and on any clone in between. -/
theorem footprint_core_preserved (g : Graph V) (mix : M → V → V → V) (P : List Nat) (hP : nonLinked g P = true)
    (h : List (Ev V M)) (w : Footprint.World V) {s0 : St V} (h0 : w.store 0 = some s0) (hb : w.bound = 0) {a : Abs}
    (ha : (analyse g P Res.init h).abs.get (analyse g P Res.init h).bound = some a) (hsame : a.same = true) :
    ∃ s1, (runEv g mix w h).store (runEv g mix w h).bound = some s1 ∧ ∀ p ∈ P, s1.vals p = s0.vals p := by
  obtain ⟨hs, hbd, _⟩ := sound_analyse (nonLinked_spec hP) mix h Res.init w (sound_init g P h0 hb)
  obtain ⟨s1, hs1, hok⟩ := hs _ a ha
  exact ⟨s1, by rw [← hbd]; exact hs1, hok.1 hsame⟩

/-- **Nothing left behind, from the footprint**: every variable the analysis lists as cleared for the state bound
    to the model at the end is unset in it; and when no attribute write was recorded the model's other attributes
    are what they were. -/
theorem footprint_no_residual (g : Graph V) (mix : M → V → V → V) (P : List Nat) (hP : nonLinked g P = true)
    (h : List (Ev V M)) (w : Footprint.World V) {s0 : St V} (h0 : w.store 0 = some s0) (hb : w.bound = 0) {a : Abs}
    (ha : (analyse g P Res.init h).abs.get (analyse g P Res.init h).bound = some a) :
    ∃ s1, (runEv g mix w h).store (runEv g mix w h).bound = some s1 ∧ (∀ r ∈ a.cleared, s1.vals r = none)
      ∧ ((analyse g P Res.init h).attrsWritten = false → (runEv g mix w h).attrs = w.attrs) := by
  obtain ⟨hs, hbd, hat⟩ := sound_analyse (nonLinked_spec hP) mix h Res.init w (sound_init g P h0 hb)
  obtain ⟨s1, hs1, hok⟩ := hs _ a ha
  exact ⟨s1, by rw [← hbd]; exact hs1, fun r hr => (hok.2.2 r hr).2, hat⟩

private theorem objOf_congr (c : Classes) {s s' : St V} (hp : ∀ p ∈ c.prot, s'.vals p = s.vals p)
    (hr : ∀ r ∈ c.resid, s'.vals r = s.vals r) : objOf c s' = objOf c s := by
  have e1 : c.params.map s'.vals = c.params.map s.vals :=
    List.map_congr_left (fun p hp' => hp p (by simp [Classes.prot, hp']))
  have e2 : c.hyper.map s'.vals = c.hyper.map s.vals :=
    List.map_congr_left (fun p hp' => hp p (by simp [Classes.prot, hp']))
  have e3 : c.pop.map s'.vals = c.pop.map s.vals :=
    List.map_congr_left (fun p hp' => hp p (by simp [Classes.prot, hp']))
  have e4 : c.data.map s'.vals = c.data.map s.vals :=
    List.map_congr_left (fun p hp' => hr p (by simp [Classes.resid, hp']))
  have e5 : c.ind.map s'.vals = c.ind.map s.vals :=
    List.map_congr_left (fun p hp' => hr p (by simp [Classes.resid, hp']))
  have e6 : c.resid.all (fun i => (s'.vals i).isNone) = c.resid.all (fun i => (s.vals i).isNone) := by
    rw [List.all_eq, List.all_eq]
    exact decide_eq_decide.2 ⟨fun h i hi => by rw [← hr i hi]; exact h i hi, fun h i hi => by rw [hr i hi]; exact h i hi⟩
  simp only [objOf, e1, e2, e3, e4, e5, e6]

private theorem objOf_cleared (c : Classes) {s s' : St V} (hp : ∀ p ∈ c.prot, s'.vals p = s.vals p)
    (hr : ∀ r ∈ c.resid, s'.vals r = none) : objOf c s' = { objOf c s with residual := none } := by
  have e1 : c.params.map s'.vals = c.params.map s.vals :=
    List.map_congr_left (fun p hp' => hp p (by simp [Classes.prot, hp']))
  have e2 : c.hyper.map s'.vals = c.hyper.map s.vals :=
    List.map_congr_left (fun p hp' => hp p (by simp [Classes.prot, hp']))
  have e3 : c.pop.map s'.vals = c.pop.map s.vals :=
    List.map_congr_left (fun p hp' => hp p (by simp [Classes.prot, hp']))
  have e6 : c.resid.all (fun i => (s'.vals i).isNone) = true := by
    simp only [List.all_eq_true]
    intro i hi; rw [hr i hi]; rfl
  simp only [objOf, e1, e2, e3, e6, if_true]

/-- **Bridge to the read/write abstraction of `Model/Api.lean` (c).**  For a call whose recorded footprint passes
    the verdict of its kind, the object the model stands for after the real call (read off the state the model is
    bound to) is exactly the object `Api.apply` computes — for every choice of the numerical kernels `E`.  The
    transcription "estimate / scipy_minimize / simulate leave the object as it is; mean / mode posterior keep
    parameters, hyper-parameters and population variables and drop what a fit left" is thereby *derived* from the
    recorded history instead of assumed. -/
theorem footprint_refines_api (E : Ext (List (Option V))) (g : Graph V) (mix : M → V → V → V) (c : Classes)
    (call : Call (List (Option V))) (h : List (Ev V M)) (w : Footprint.World V) {s0 : St V} (h0 : w.store 0 = some s0)
    (hb : w.bound = 0) (file : Option (List (Option V) × List (Option V)))
    (hv : verdict g c call h = true) :
    ∃ s1, (runEv g mix w h).store (runEv g mix w h).bound = some s1 ∧ (runEv g mix w h).attrs = w.attrs
      ∧ (Api.apply E ⟨objOf c s0, file⟩ call).1 = ⟨objOf c s1, file⟩ := by
  have pure_case : pureVerdict g c h = true →
      ∃ s1, (runEv g mix w h).store (runEv g mix w h).bound = some s1 ∧ (runEv g mix w h).attrs = w.attrs
        ∧ objOf c s1 = objOf c s0 := by
    intro hp
    simp only [pureVerdict, Bool.and_eq_true, Bool.not_eq_eq_eq_not, Bool.not_true] at hp
    obtain ⟨s1, hs1, _, _, hv1, hb1, ha1⟩ := footprint_reads_only g mix h w h0 hp.1
    have hnl := nonLinked_spec hp.2
    refine ⟨s1, by rw [hb1, hb]; exact hs1, ha1, ?_⟩
    exact objOf_congr c (fun p hp' => hv1 p (Or.inl (hnl p (by simp [hp']))))
      (fun p hp' => hv1 p (Or.inl (hnl p (by simp [hp']))))
  have mcmc_case : mcmcVerdict g c h = true →
      ∃ s1, (runEv g mix w h).store (runEv g mix w h).bound = some s1 ∧ (runEv g mix w h).attrs = w.attrs
        ∧ objOf c s1 = { objOf c s0 with residual := none } := by
    intro hm
    simp only [mcmcVerdict, Bool.and_eq_true, Bool.not_eq_eq_eq_not, Bool.not_true] at hm
    obtain ⟨⟨hnl, hattr⟩, hget⟩ := hm
    cases hga : (analyse g c.prot Res.init h).abs.get (analyse g c.prot Res.init h).bound with
    | none => rw [hga] at hget; cases hget
    | some a =>
      rw [hga] at hget
      simp only [Bool.and_eq_true, List.all_eq_true, List.contains_iff_mem] at hget
      obtain ⟨hs, hbd, hat⟩ := sound_analyse (nonLinked_spec hnl) mix h Res.init w (sound_init g c.prot h0 hb)
      obtain ⟨s1, hs1, hok⟩ := hs _ a hga
      refine ⟨s1, by rw [← hbd]; exact hs1, hat hattr, ?_⟩
      exact objOf_cleared c (hok.1 hget.1) (fun r hr => (hok.2.2 r (by simpa using hget.2 r hr)).2)
  cases call with
  | estimate i =>
    obtain ⟨s1, h1, h2, h3⟩ := pure_case hv
    exact ⟨s1, h1, h2, by simp [Api.apply, applyGen, h3]⟩
  | persoScipy d s =>
    obtain ⟨s1, h1, h2, h3⟩ := pure_case hv
    exact ⟨s1, h1, h2, by simp [Api.apply, applyGen, h3]⟩
  | simulate d s =>
    obtain ⟨s1, h1, h2, h3⟩ := pure_case hv
    exact ⟨s1, h1, h2, by simp [Api.apply, applyGen, h3]⟩
  | persoMean d s =>
    obtain ⟨s1, h1, h2, h3⟩ := mcmc_case hv
    exact ⟨s1, h1, h2, by simp [Api.apply, applyGen, h3]⟩
  | persoMode d s =>
    obtain ⟨s1, h1, h2, h3⟩ := mcmc_case hv
    exact ⟨s1, h1, h2, by simp [Api.apply, applyGen, h3]⟩
  | fit d s => simp [verdict] at hv
  | save => simp [verdict] at hv
  | load => simp [verdict] at hv

/-- **Whole histories.**  A sequence of recorded calls, each with a footprint passing its verdict (between two
    calls the state the model is bound to becomes state 0 of the next recording): the object the model stands for at
    the end is the one `Api.run` computes, and the model's other attributes never moved. -/
theorem footprint_history_refines_api (E : Ext (List (Option V))) (g : Graph V) (mix : M → V → V → V)
    (c : Classes) :
    ∀ (calls : List (Call (List (Option V)) × List (Ev V M))) (w : Footprint.World V) (s0 : St V)
      (file : Option (List (Option V) × List (Option V))),
      w.store 0 = some s0 → w.bound = 0 → (∀ p ∈ calls, verdict g c p.1 p.2 = true) →
      ∃ s1, (runCalls g mix w calls).store 0 = some s1 ∧ (runCalls g mix w calls).bound = 0
        ∧ (runCalls g mix w calls).attrs = w.attrs
        ∧ (Api.run E ⟨objOf c s0, file⟩ (calls.map Prod.fst)).1 = ⟨objOf c s1, file⟩ := by
  intro calls
  induction calls with
  | nil => intro w s0 file h0 hb _; exact ⟨s0, h0, hb, rfl, rfl⟩
  | cons p calls ih =>
    intro w s0 file h0 hb hall
    obtain ⟨s', hs', hat', hap'⟩ :=
      footprint_refines_api E g mix c p.1 p.2 w h0 hb file (hall p (List.mem_cons_self ..))
    have h0' : (rebase (runEv g mix w p.2)).store 0 = some s' := by simp [rebase, hs']
    obtain ⟨s1, hs1, hb1, hat1, hrun1⟩ :=
      ih (rebase (runEv g mix w p.2)) s' file h0' rfl (fun q hq => hall q (List.mem_cons_of_mem _ hq))
    refine ⟨s1, hs1, hb1, by simp only [runCalls]; rw [hat1]; exact hat', ?_⟩
    simp only [List.map_cons, Api.run, runGen]
    simp only [Api.apply] at hap'
    rw [hap']
    exact hrun1

private theorem verdict_readOnly {g : Graph V} {c : Classes} {call : Call (List (Option V))} {h : List (Ev V M)}
    (hv : verdict g c call h = true) : Call.readOnly call = true ∧ call.isFit = false := by
  cases call <;> simp [verdict] at hv <;> simp [Call.readOnly, Call.isFit]

/-- **The existing conclusions without the footprint assumption.**  Along any history of recorded calls whose
    footprints pass their verdicts, the parameters, hyper-parameters and population variables *of the real state the
    model is bound to* are those it started with, and the data / individual values stored in it are gone or
    unchanged — `core_preserved_history` and `no_residual_added`, transported through
    `footprint_history_refines_api`. -/
theorem footprint_history_preserves (g : Graph V) (mix : M → V → V → V) (c : Classes)
    (calls : List (Call (List (Option V)) × List (Ev V M))) (w : Footprint.World V) (s0 : St V)
    (h0 : w.store 0 = some s0) (hb : w.bound = 0) (hall : ∀ p ∈ calls, verdict g c p.1 p.2 = true) :
    ∃ s1, (runCalls g mix w calls).store 0 = some s1
      ∧ (objOf c s1).core = (objOf c s0).core
      ∧ ((objOf c s1).residual = none ∨ (objOf c s1).residual = (objOf c s0).residual)
      ∧ (runCalls g mix w calls).attrs = w.attrs := by
  let E : Ext (List (Option V)) :=
    { priorMode := id, start := fun _ _ _ x => x, saem := fun _ p _ l _ _ => (p, l), traj := fun _ _ _ x => x,
      mcmc := fun _ _ _ _ _ x => x, optimise := fun _ _ _ _ x => x, firstRow := id, sim := fun _ _ _ _ x => x }
  obtain ⟨s1, hs1, _, hat, hrun⟩ := footprint_history_refines_api E g mix c calls w s0 none h0 hb hall
  have hro : ∀ cl ∈ calls.map Prod.fst, Call.readOnly cl = true := by
    intro cl hcl
    obtain ⟨p, hp, rfl⟩ := List.mem_map.1 hcl
    exact (verdict_readOnly (hall p hp)).1
  have hnf : ∀ cl ∈ calls.map Prod.fst, cl.isFit = false := by
    intro cl hcl
    obtain ⟨p, hp, rfl⟩ := List.mem_map.1 hcl
    exact (verdict_readOnly (hall p hp)).2
  have h1 := core_preserved_history E (calls.map Prod.fst) ⟨objOf c s0, none⟩ hro
  have h2 := no_residual_added E (calls.map Prod.fst) ⟨objOf c s0, none⟩ hnf
  rw [hrun] at h1 h2
  exact ⟨s1, hs1, h1, h2, hat⟩

/-! ### witnesses on a three-node graph: parameter `0`, individual variable `1`, derived `2 = 0 + 1` -/

private def toyG : Graph Nat :=
  { n := 3
    kind := fun i => if i = 2 then .linked else .indep true
    parents := fun i => if i = 2 then [0, 1] else []
    fn := fun _ ps => ps.foldl (· + ·) 0
    init := fun _ => none
    order := [0, 1, 2]
    desc := fun i => if i = 0 ∨ i = 1 then [2] else []
    anc := fun i => if i = 2 then [0, 1] else [] }

private def toyMix : Unit → Nat → Nat → Nat := fun _ o _ => o

/-- a fitted model: parameter 10, leftover individual value 7, derived value cached, fork mode on -/
private def toyW : Footprint.World Nat :=
  { store := fun k => if k = 0 then
      some { vals := fun i => if i = 0 then some 10 else if i = 1 then some 7 else if i = 2 then some 17 else none
             fork := none, mode := true } else none
    bound := 0
    attrs := fun _ => none }

private def valsAt (w : Footprint.World Nat) (sid : Nat) : List (Option Nat) :=
  match w.store sid with
  | some s => [s.vals 0, s.vals 1, s.vals 2]
  | none => []

/- Full-strength statement without the hypothesis of `footprint_pure`:

   | theorem footprint_pure_any_history : ∀ h, (runEv g mix w h).store 0 = w.store 0

   It is false: a history that writes through state 0 changes it. -/

/-- A call that proposes an individual value *on `model.state` itself* and leaves it there (what a personalisation
    running on the model's own state does when it does not install a cleaned clone): the footprint touches the
    original, and the original has changed — the individual value and the invalidated derived value. -/
theorem footprint_pure_counterexample :
    let h : List (Ev Nat Unit) := [.op (.set 0 1 (some 8))]
    touchesOriginal h = true ∧ writesOriginal h = true
      ∧ valsAt (runEv toyG toyMix toyW h) 0 = [some 10, some 8, none]
      ∧ valsAt toyW 0 = [some 10, some 7, some 17] := by
  decide

/- Full-strength statement one might hope for (false, finding F8):

   | theorem untouching_footprint_forgets_leftovers : touchesOriginal h = false → the values a clone works with do
   |   not depend on the data / individual values a fit left in state 0

   A clone starts with everything its source holds. -/

/-- F8 at the level of footprints: the shipped `scipy_minimize` (clone, then `put_individual_parameters`, which keeps
    individual values that are set) has an untouching footprint, yet the clone works with the individual value the
    fit left in the model (7); the repaired code unsets it on the clone first.  Both leave the original untouched:
    purity of the footprint is about what a call *writes*, independence of the leftovers
    (`result_independent_of_residual`) about what it *reads*. -/
theorem untouching_footprint_keeps_leftovers_counterexample :
    let shipped : List (Ev Nat Unit) := [.op (.clone 0 1 true false), .op (.isSet 1 1)]
    let fixed : List (Ev Nat Unit) := [.op (.clone 0 1 true false), .op (.set 1 1 none), .op (.isSet 1 1)]
    touchesOriginal shipped = false ∧ touchesOriginal fixed = false
      ∧ valsAt (runEv toyG toyMix toyW shipped) 1 = [some 10, some 7, some 17]
      ∧ valsAt (runEv toyG toyMix toyW fixed) 1 = [some 10, none, none]
      ∧ valsAt (runEv toyG toyMix toyW shipped) 0 = valsAt toyW 0
      ∧ valsAt (runEv toyG toyMix toyW fixed) 0 = valsAt toyW 0 := by
  decide

/-- Non-vacuity of the analysis: the shape of a recorded mean / mode posterior call — data and individual values
    assigned on `model.state`, a proposal, reads, a partial revert, then a cleaned clone bound to the model — touches
    the original (so `footprint_pure` does not apply) and passes the verdict of its kind; the same history with the
    parameter overwritten on the way does not. -/
example :
    let cls : Classes := { params := [0], hyper := [], pop := [], data := [], ind := [1] }
    let good : List (Ev Nat Unit) :=
      [.op (.setMode 0 false), .op (.set 0 1 (some 3)), .op (.setMode 0 true), .op (.get 0 2), .op (.set 0 1 (some 4)),
       .op (.get 0 2), .op (.revert 0 (some ())), .op (.clone 0 1 false false), .op (.setMode 1 false),
       .op (.set 1 1 none), .op (.setMode 1 true), .bind 1]
    let bad : List (Ev Nat Unit) := .op (.set 0 0 (some 11)) :: good
    touchesOriginal good = true ∧ mcmcVerdict toyG cls good = true ∧ mcmcVerdict toyG cls bad = false
      ∧ valsAt (runEv toyG toyMix toyW good) 1 = [some 10, none, none]
      ∧ pureVerdict toyG cls [(.op (.clone 0 1 true false) : Ev Nat Unit), .op (.set 1 1 (some 2)), .op (.get 0 2)] = true := by
  decide

end footprint


end LeaspyVerif.C13
