/-
C20 — benchmark models implement their documented estimators.
Property theorems only (helper lemmas are private).  Model: `Model/Bench.lean`.
-/
import LeaspyVerif.Model.Bench
import Mathlib.Tactic.Ring
import Mathlib.Tactic.FieldSimp
import Mathlib.Tactic.Linarith
import Mathlib.Tactic.LinearCombination

namespace LeaspyVerif.C20
open LeaspyVerif.Bench
open List (Perm)

/-! ## helper lemmas: the stable descending sort -/

private theorem insertDesc_perm {β} (x : Rat × β) (l : List (Rat × β)) : Perm (insertDesc x l) (x :: l) := by
  induction l with
  | nil => exact .refl _
  | cons y ys ih =>
    simp only [insertDesc]; split
    · exact .refl _
    · exact (ih.cons y).trans (List.Perm.swap x y ys)

private theorem sortDesc_perm {β} (l : List (Rat × β)) : Perm (sortDesc l) l := by
  induction l with
  | nil => exact .refl _
  | cons x xs ih => exact (insertDesc_perm x _).trans (ih.cons x)

private theorem insertDesc_pairwise {β} (x : Rat × β) (l : List (Rat × β))
    (h : l.Pairwise (fun a b => b.1 ≤ a.1)) : (insertDesc x l).Pairwise (fun a b => b.1 ≤ a.1) := by
  induction l with
  | nil => simp [insertDesc]
  | cons y ys ih =>
    simp only [insertDesc]
    rw [List.pairwise_cons] at h
    split
    · rename_i hyx
      refine List.pairwise_cons.2 ⟨?_, List.pairwise_cons.2 h⟩
      intro z hz
      rcases List.mem_cons.1 hz with rfl | hz
      · exact hyx
      · exact le_trans (h.1 z hz) hyx
    · rename_i hyx
      refine List.pairwise_cons.2 ⟨?_, ih h.2⟩
      intro z hz
      have hz' := (insertDesc_perm x ys).mem_iff.1 hz
      rcases List.mem_cons.1 hz' with rfl | hz'
      · exact le_of_lt (not_le.1 hyx)
      · exact h.1 z hz'

private theorem sortDesc_pairwise {β} (l : List (Rat × β)) :
    (sortDesc l).Pairwise (fun a b => b.1 ≤ a.1) := by
  induction l with
  | nil => simp [sortDesc]
  | cons x xs ih => exact insertDesc_pairwise x _ ih

private theorem head_insertDesc {β} (x : Rat × β) (l : List (Rat × β)) :
    (insertDesc x l).head? =
      match l.head? with
      | none => some x
      | some y => if y.1 ≤ x.1 then some x else some y := by
  cases l with
  | nil => simp [insertDesc]
  | cons y ys => simp only [insertDesc, List.head?_cons]; split <;> simp

/-- the head of the sorted list: the first visit, in input order, among those of maximal age -/
private theorem head_sortDesc_decomp {β} (pre post : List (Rat × β)) (x : Rat × β)
    (hpre : ∀ y ∈ pre, y.1 < x.1) (hpost : ∀ y ∈ post, y.1 ≤ x.1) :
    (sortDesc (pre ++ x :: post)).head? = some x := by
  induction pre with
  | nil =>
    simp only [List.nil_append, sortDesc, head_insertDesc]
    cases hh : (sortDesc post).head? with
    | none => rfl
    | some y =>
      have hy : y ∈ post := (sortDesc_perm post).mem_iff.1 (List.mem_of_head? hh)
      simp [hpost y hy]
  | cons p pre ih =>
    have ih' := ih (fun y hy => hpre y (List.mem_cons_of_mem _ hy))
    simp only [List.cons_append, sortDesc, head_insertDesc, ih']
    have : ¬ x.1 ≤ p.1 := not_le.2 (hpre p List.mem_cons_self)
    simp [this]

private theorem head_sortDesc_max {β} (l : List (Rat × β)) (x : Rat × β)
    (h : (sortDesc l).head? = some x) : x ∈ l ∧ ∀ y ∈ l, y.1 ≤ x.1 := by
  have hp := sortDesc_perm l
  have hs := sortDesc_pairwise l
  cases hl : sortDesc l with
  | nil => simp [hl] at h
  | cons z zs =>
    rw [hl] at h hp hs
    simp only [List.head?_cons, Option.some.injEq] at h
    subst h
    refine ⟨hp.mem_iff.1 List.mem_cons_self, ?_⟩
    intro y hy
    rcases List.mem_cons.1 (hp.mem_iff.2 hy) with rfl | hy'
    · exact le_refl _
    · exact (List.pairwise_cons.1 hs).1 y hy'

private theorem eq_of_nodup_fst {β} {l : List (Rat × β)} (hn : (l.map Prod.fst).Nodup)
    {x y : Rat × β} (hx : x ∈ l) (hy : y ∈ l) (h : x.1 = y.1) : x = y := by
  induction l with
  | nil => cases hx
  | cons z zs ih =>
    simp only [List.map_cons, List.nodup_cons, List.mem_map, not_exists, not_and] at hn
    rcases List.mem_cons.1 hx with rfl | hx' <;> rcases List.mem_cons.1 hy with rfl | hy'
    · rfl
    · exact absurd h.symm (hn.1 y hy')
    · exact absurd h (hn.1 x hx')
    · exact ih hn.2 hx' hy'

/-- with pairwise distinct ages the sorted list does not depend on the input order -/
private theorem sortDesc_eq_of_perm {β} {l l' : List (Rat × β)} (hp : Perm l l')
    (hn : (l.map Prod.fst).Nodup) : sortDesc l = sortDesc l' := by
  refine List.Perm.eq_of_pairwise (le := fun a b => b.1 ≤ a.1) ?_ (sortDesc_pairwise l) (sortDesc_pairwise l')
    ((sortDesc_perm l).trans (hp.trans (sortDesc_perm l').symm))
  intro a b ha hb hab hba
  have ha' : a ∈ l := (sortDesc_perm l).mem_iff.1 ha
  have hb' : b ∈ l := hp.mem_iff.2 ((sortDesc_perm l').mem_iff.1 hb)
  exact eq_of_nodup_fst hn ha' hb' (le_antisymm hba hab)

private theorem insertDesc_of_le {β} (x : Rat × β) (l : List (Rat × β)) (h : ∀ z ∈ l, z.1 ≤ x.1) :
    insertDesc x l = x :: l := by
  cases l with
  | nil => rfl
  | cons y ys => simp [insertDesc, h y List.mem_cons_self]

private theorem filter_insertDesc {β} (p : Rat × β → Bool) (x : Rat × β) (l : List (Rat × β))
    (hs : l.Pairwise (fun a b => b.1 ≤ a.1)) :
    (insertDesc x l).filter p = if p x then insertDesc x (l.filter p) else l.filter p := by
  induction l with
  | nil => by_cases hx : p x <;> simp [insertDesc, hx]
  | cons y ys ih =>
    rw [List.pairwise_cons] at hs
    by_cases hyx : y.1 ≤ x.1
    · have hall : ∀ z ∈ (y :: ys).filter p, z.1 ≤ x.1 := by
        intro z hz
        rcases List.mem_cons.1 (List.mem_filter.1 hz).1 with rfl | hz'
        · exact hyx
        · exact le_trans (hs.1 z hz') hyx
      rw [insertDesc_of_le x _ hall]
      simp only [insertDesc, hyx, if_true]
      by_cases hx : p x <;> simp [List.filter_cons, hx]
    · have ih' := ih hs.2
      by_cases hx : p x <;> by_cases hy : p y <;>
        simp [insertDesc, hyx, hx, hy, ih']

private theorem filter_sortDesc {β} (p : Rat × β → Bool) (l : List (Rat × β)) :
    (sortDesc l).filter p = sortDesc (l.filter p) := by
  induction l with
  | nil => simp [sortDesc]
  | cons x xs ih =>
    simp only [sortDesc, filter_insertDesc p x _ (sortDesc_pairwise xs), ih, List.filter_cons]
    split <;> simp [sortDesc]

private theorem getElem_argmaxBool {α} (p : α → Bool) (s : List α) :
    s[argmaxBool (s.map p)]? = match s.find? p with
      | some x => some x
      | none => s.head? := by
  induction s with
  | nil => simp [argmaxBool]
  | cons x s ih =>
    by_cases hx : p x
    · simp [argmaxBool, hx]
    · have hx' : p x = false := by simpa using hx
      simp only [List.map_cons, hx', argmaxBool, List.find?_cons, List.head?_cons]
      by_cases hany : (s.map p).any id
      · simp only [hany, if_true, List.getElem?_cons_succ, ih]
        have : ∃ y, s.find? p = some y := by
          simp only [List.any_map, List.any_eq_true, Function.comp] at hany
          obtain ⟨y, hy, hpy⟩ := hany
          cases hf : s.find? p with
          | none => rw [List.find?_eq_none] at hf; exact absurd hpy (by simpa using hf y hy)
          | some z => exact ⟨z, rfl⟩
        obtain ⟨y, hy⟩ := this
        simp [hy]
      · have hnone : s.find? p = none := by
          rw [List.find?_eq_none]
          intro y hy hpy
          apply hany
          simp only [List.any_map, List.any_eq_true, Function.comp]
          exact ⟨y, hy, hpy⟩
        simp [hany, hnone]

/-- `last-known` is `last` of the visits at which the feature is present, whenever there is one -/
private theorem lastKnown_eq (c : Col) :
    lastKnown c = match (sortDesc (c.filter present)).head? with
      | some x => some x.2
      | none => last c := by
  unfold lastKnown last
  simp only [getElem_argmaxBool present (sortDesc c)]
  rw [← filter_sortDesc, List.head?_filter]
  cases (sortDesc c).find? present <;> simp

/-! ## the constant model -/

/-- **`last` is the value at the maximum age** — in full, ties included: the value returned is that of the
    first visit in input order among the visits of maximal age (all earlier visits are strictly younger,
    all later ones not older), whether or not that value is missing. -/
theorem last_is_value_at_max_age (pre post : Col) (a : Rat) (v : Option Rat)
    (hpre : ∀ y ∈ pre, y.1 < a) (hpost : ∀ y ∈ post, y.1 ≤ a) :
    last (pre ++ (a, v) :: post) = some v := by
  unfold last
  rw [head_sortDesc_decomp pre post (a, v) hpre hpost]; rfl

/-- Converse direction: whatever `last` returns is the value of a visit of the history whose age is
    maximal; it raises exactly on the empty history. -/
theorem last_sound (c : Col) :
    (last c = none ↔ c = []) ∧
    ∀ v, last c = some v → ∃ a, (a, v) ∈ c ∧ ∀ y ∈ c, y.1 ≤ a := by
  constructor
  · unfold last
    cases c with
    | nil => simp [sortDesc]
    | cons x xs =>
      have hp := (sortDesc_perm (x :: xs)).length_eq
      cases hs : sortDesc (x :: xs) with
      | nil => rw [hs] at hp; simp at hp
      | cons z zs => simp
  · intro v hv
    unfold last at hv
    cases hh : (sortDesc c).head? with
    | none => simp [hh] at hv
    | some x =>
      simp only [hh, Option.map_some, Option.some.injEq] at hv
      obtain ⟨hm, hmax⟩ := head_sortDesc_max c x hh
      exact ⟨x.1, by rw [← hv]; exact hm, hmax⟩

/-- With pairwise distinct ages (what the data layer guarantees) the visit of maximal age is unique,
    so `last` is *the* value at the maximum age, wherever that visit stands in the input. -/
theorem last_of_distinct_ages (c : Col) (a : Rat) (v : Option Rat)
    (hn : (c.map Prod.fst).Nodup) (hm : (a, v) ∈ c) (hmax : ∀ y ∈ c, y.1 ≤ a) :
    last c = some v := by
  obtain ⟨hnone, hsound⟩ := last_sound c
  cases hl : last c with
  | none => rw [hnone.1 hl] at hm; cases hm
  | some w =>
    obtain ⟨a', hm', hmax'⟩ := hsound w hl
    have : (a', w) = (a, v) :=
      eq_of_nodup_fst hn hm' hm (le_antisymm (hmax _ hm') (hmax' _ hm))
    rw [(Prod.mk.injEq _ _ _ _ ▸ this : a' = a ∧ w = v).2]

/-- **`last-known` is the value at the greatest age where the feature is present** — in full, ties
    included: first visit in input order among the visits of maximal age *at which the feature is
    present*; visits where it is missing are irrelevant wherever they stand. -/
theorem lastKnown_spec (pre post : Col) (a v : Rat)
    (hpre : ∀ y ∈ pre, y.2.isSome → y.1 < a) (hpost : ∀ y ∈ post, y.2.isSome → y.1 ≤ a) :
    lastKnown (pre ++ (a, some v) :: post) = some (some v) := by
  rw [lastKnown_eq]
  have hf : (pre ++ (a, some v) :: post).filter present
      = pre.filter present ++ (a, some v) :: post.filter present := by
    simp [List.filter_append, List.filter_cons, present]
  rw [hf, head_sortDesc_decomp]
  · intro y hy
    rw [List.mem_filter] at hy
    exact hpre y hy.1 (by simpa [present] using hy.2)
  · intro y hy
    rw [List.mem_filter] at hy
    exact hpost y hy.1 (by simpa [present] using hy.2)

/-- A feature missing at every visit of a non-empty history is predicted missing by `last-known`;
    conversely `last-known` is missing only then; it raises exactly on the empty history. -/
theorem lastKnown_missing_iff (c : Col) :
    (lastKnown c = none ↔ c = []) ∧
    (lastKnown c = some none ↔ c ≠ [] ∧ ∀ y ∈ c, y.2 = none) := by
  rw [lastKnown_eq]
  cases hh : (sortDesc (c.filter present)).head? with
  | some x =>
    have hx : x ∈ c.filter present := (sortDesc_perm _).mem_iff.1 (List.mem_of_head? hh)
    rw [List.mem_filter] at hx
    have hx2 : x.2.isSome := by simpa [present] using hx.2
    constructor
    · constructor
      · intro h; cases h
      · intro h; rw [h] at hx; cases hx.1
    · constructor
      · intro h
        simp only [Option.some.injEq] at h
        rw [h] at hx2; cases hx2
      · intro h
        rw [h.2 x hx.1] at hx2; cases hx2
  | none =>
    have hnil : c.filter present = [] := by
      cases hf : c.filter present with
      | nil => rfl
      | cons z zs =>
        have hp := (sortDesc_perm (z :: zs)).length_eq
        rw [hf] at hh
        cases hs : sortDesc (z :: zs) with
        | nil => rw [hs] at hp; simp at hp
        | cons w ws => rw [hs] at hh; simp at hh
    have hall : ∀ y ∈ c, y.2 = none := by
      intro y hy
      rw [List.filter_eq_nil_iff] at hnil
      have := hnil y hy
      simpa [present] using this
    simp only
    refine ⟨(last_sound c).1, ?_⟩
    constructor
    · intro h
      refine ⟨?_, hall⟩
      intro hc; rw [hc] at h; simp [last, sortDesc] at h
    · intro h
      cases hl : last c with
      | none => exact absurd ((last_sound c).1.1 hl) h.1
      | some w =>
        obtain ⟨a, hm, _⟩ := (last_sound c).2 w hl
        have := hall _ hm
        simp only at this
        rw [this]

private theorem maxList_spec (l : List Rat) :
    (maxList l = none ↔ l = []) ∧ ∀ m, maxList l = some m → m ∈ l ∧ ∀ x ∈ l, x ≤ m := by
  induction l with
  | nil => simp [maxList]
  | cons x xs ih =>
    obtain ⟨ihn, ihs⟩ := ih
    constructor
    · simp only [maxList]; cases maxList xs <;> simp
    · intro m hm
      simp only [maxList] at hm
      cases hxs : maxList xs with
      | none =>
        rw [hxs] at hm
        simp only [Option.some.injEq] at hm
        subst hm
        rw [ihn.1 hxs]; simp
      | some m' =>
        rw [hxs] at hm
        simp only [Option.some.injEq] at hm
        obtain ⟨hm', hmax'⟩ := ihs m' hxs
        by_cases hle : m' ≤ x
        · rw [if_pos hle] at hm; subst hm
          refine ⟨List.mem_cons_self, ?_⟩
          intro y hy
          rcases List.mem_cons.1 hy with rfl | hy
          · exact le_refl _
          · exact le_trans (hmax' y hy) hle
        · rw [if_neg hle] at hm; subst hm
          refine ⟨List.mem_cons_of_mem _ hm', ?_⟩
          intro y hy
          rcases List.mem_cons.1 hy with rfl | hy
          · exact le_of_lt (not_le.1 hle)
          · exact hmax' y hy

private theorem mem_presentVals (c : Col) (v : Rat) : v ∈ presentVals c ↔ ∃ a, (a, some v) ∈ c := by
  unfold presentVals
  simp only [List.mem_filterMap]
  constructor
  · rintro ⟨x, hx, hv⟩; exact ⟨x.1, by rw [← hv]; exact hx⟩
  · rintro ⟨a, ha⟩; exact ⟨(a, some v), ha, rfl⟩

private theorem presentVals_eq_nil (c : Col) : presentVals c = [] ↔ ∀ y ∈ c, y.2 = none := by
  unfold presentVals
  rw [List.filterMap_eq_nil_iff]

/-- **`max` over the present values**: on a non-empty history the prediction is a present value that
    dominates every present value; it is missing exactly when the feature is missing at every visit. -/
theorem max_spec (c : Col) (hc : c ≠ []) :
    (∀ m, maxP c = some (some m) ↔ (∃ a, (a, some m) ∈ c) ∧ ∀ a v, (a, some v) ∈ c → v ≤ m) ∧
    (maxP c = some none ↔ ∀ y ∈ c, y.2 = none) := by
  have hce : c.isEmpty = false := by cases c <;> simp_all
  obtain ⟨hn, hs⟩ := maxList_spec (presentVals c)
  unfold maxP
  simp only [hce, Bool.false_eq_true, if_false, Option.some.injEq]
  constructor
  · intro m
    constructor
    · intro h
      obtain ⟨hm, hmax⟩ := hs m h
      exact ⟨(mem_presentVals c m).1 hm, fun a v hv => hmax v ((mem_presentVals c v).2 ⟨a, hv⟩)⟩
    · rintro ⟨⟨a, ha⟩, hmax⟩
      cases hml : maxList (presentVals c) with
      | none =>
        have := hn.1 hml
        have hm : m ∈ presentVals c := (mem_presentVals c m).2 ⟨a, ha⟩
        rw [this] at hm; cases hm
      | some m' =>
        obtain ⟨hm', hmax'⟩ := hs m' hml
        obtain ⟨a', ha'⟩ := (mem_presentVals c m').1 hm'
        have h1 : m' ≤ m := hmax a' m' ha'
        have h2 : m ≤ m' := hmax' m ((mem_presentVals c m).2 ⟨a, ha⟩)
        rw [le_antisymm h1 h2]
  · rw [hn, presentVals_eq_nil]

/-- **`mean` over the present values**: sum of the present values divided by their number; missing
    exactly when the feature is missing at every visit (also for the empty history). -/
theorem mean_spec (c : Col) :
    (∀ μ, meanP c = some (some μ) ↔
        presentVals c ≠ [] ∧ μ * ((presentVals c).length : Rat) = (presentVals c).sum) ∧
    (meanP c = some none ↔ ∀ y ∈ c, y.2 = none) := by
  unfold meanP
  simp only [Option.some.injEq]
  constructor
  · intro μ
    by_cases hp : presentVals c = []
    · simp [hp]
    · have hpe : (presentVals c).isEmpty = false := by
        cases h : presentVals c <;> simp_all
      have hlen : ((presentVals c).length : Rat) ≠ 0 := by
        have : (presentVals c).length ≠ 0 := by
          intro h0; exact hp (List.length_eq_zero_iff.1 h0)
        exact_mod_cast this
      simp only [hpe, Bool.false_eq_true, if_false, Option.some.injEq, ne_eq, hp, not_false_eq_true, true_and]
      constructor
      · intro h; rw [← h]; field_simp
      · intro h; rw [← h]; field_simp
  · rw [← presentVals_eq_nil]
    cases h : presentVals c <;> simp

/-! ### the order of the visits in the input is irrelevant -/

private theorem sum_perm {l l' : List Rat} (h : Perm l l') : l.sum = l'.sum := by
  induction h with
  | nil => rfl
  | cons x _ ih => simp [ih]
  | swap x y l => simp only [List.sum_cons]; ring
  | trans _ _ ih1 ih2 => exact ih1.trans ih2

private theorem maxList_perm {l l' : List Rat} (h : Perm l l') : maxList l = maxList l' := by
  obtain ⟨hn, hs⟩ := maxList_spec l
  obtain ⟨hn', hs'⟩ := maxList_spec l'
  cases hm : maxList l with
  | none =>
    have : l' = [] := by have := hn.1 hm; subst this; exact h.symm.eq_nil
    exact (hn'.2 this).symm
  | some m =>
    cases hm' : maxList l' with
    | none =>
      have : l = [] := by have := hn'.1 hm'; subst this; exact h.eq_nil
      rw [hn.2 this] at hm; cases hm
    | some m' =>
      obtain ⟨h1, h2⟩ := hs m hm
      obtain ⟨h1', h2'⟩ := hs' m' hm'
      have a : m ≤ m' := h2' m (h.mem_iff.1 h1)
      have b : m' ≤ m := h2 m' (h.mem_iff.2 h1')
      rw [le_antisymm a b]

/-- `max` and `mean` do not depend on the order of the visits, for any history (tied ages included). -/
theorem max_mean_perm_invariant (c c' : Col) (h : Perm c c') :
    maxP c = maxP c' ∧ meanP c = meanP c' := by
  have hp : Perm (presentVals c) (presentVals c') := h.filterMap _
  constructor
  · unfold maxP
    have : c.isEmpty = c'.isEmpty := by
      cases c <;> cases c' <;> simp_all
    rw [this, maxList_perm hp]
  · unfold meanP
    have hl : (presentVals c).isEmpty = (presentVals c').isEmpty := by
      have := hp.length_eq
      cases hc : presentVals c <;> cases hc' : presentVals c' <;> simp_all
    simp only [hl, sum_perm hp, hp.length_eq]

/-- **The prediction is invariant under permutation of the visit list**, for each prediction type,
    for every history with pairwise distinct ages (the hypothesis is needed only for `last` and
    `last-known`, see `pred_perm_invariant_tied_ages_counterexample`). -/
theorem pred_perm_invariant (pt : PredType) (c c' : Col) (h : Perm c c')
    (hn : (c.map Prod.fst).Nodup) : featureValue pt c = featureValue pt c' := by
  cases pt with
  | last => simp only [featureValue, last, sortDesc_eq_of_perm h hn]
  | lastKnown => simp only [featureValue, lastKnown, sortDesc_eq_of_perm h hn]
  | max => exact (max_mean_perm_invariant c c' h).1
  | mean => exact (max_mean_perm_invariant c c' h).2

/-- Two visits of equal age (which the data layer refuses, but `_get_feature_values` accepts): the
    stable sort keeps their input order, so `last` depends on it.  The full-strength statement
    "invariant for *every* history" is therefore false for the code as written; the guard
    `Nodup` of `pred_perm_invariant` is exact. -/
theorem pred_perm_invariant_tied_ages_counterexample :
    ∃ c c' : Col, Perm c c' ∧ last c ≠ last c' := by
  refine ⟨[(5, some 1), (5, some 2)], [(5, some 2), (5, some 1)], List.Perm.swap _ _ _, ?_⟩
  decide +kernel

private theorem column_perm (j : Nat) {vs vs' : Visits} (h : Perm vs vs') :
    (column j vs = none ∧ column j vs' = none) ∨
    ∃ c c', column j vs = some c ∧ column j vs' = some c' ∧ Perm c c' ∧ c.map Prod.fst = vs.map Prod.fst := by
  induction h with
  | nil => exact .inr ⟨[], [], rfl, rfl, .refl _, rfl⟩
  | @cons x l l' _ ih =>
    obtain ⟨a, row⟩ := x
    simp only [column]
    cases hr : row[j]? with
    | none => left; simp
    | some v =>
      rcases ih with ⟨h1, h2⟩ | ⟨c, c', h1, h2, hp, hm⟩
      · left; simp [h1, h2]
      · right; exact ⟨(a, v) :: c, (a, v) :: c', by simp [h1], by simp [h2], hp.cons _, by simp [hm]⟩
  | swap x y l =>
    obtain ⟨a, row⟩ := x
    obtain ⟨b, row'⟩ := y
    simp only [column]
    cases hr : row[j]? <;> cases hr' : row'[j]? <;> cases hl : column j l <;> simp
    rename_i v v' c
    exact ⟨List.Perm.swap _ _ _, by induction l generalizing c with
      | nil => simp [column] at hl; subst hl; rfl
      | cons z zs ihz =>
        obtain ⟨d, rz⟩ := z
        simp only [column] at hl
        cases hz : rz[j]? <;> cases hzs : column j zs <;> simp [hz, hzs] at hl
        subst hl
        simp [ihz _ hzs]⟩
  | @trans l₁ l₂ l₃ h12 _ ih1 ih2 =>
    rcases ih1 with ⟨h1, h2⟩ | ⟨c, c', h1, h2, hp, hm⟩
    · rcases ih2 with ⟨_, h3⟩ | ⟨c2, _, h3, _, _, _⟩
      · exact .inl ⟨h1, h3⟩
      · rw [h2] at h3; cases h3
    · rcases ih2 with ⟨h3, _⟩ | ⟨c2, c3, h3, h4, hp', _⟩
      · rw [h2] at h3; cases h3
      · rw [h2] at h3; cases h3
        exact .inr ⟨c, c3, h1, h4, hp.trans hp', hm⟩

/-- The same at the level of a whole individual (all features, as `_get_feature_values` is called):
    permuting the rows `(age, values)` of a history with pairwise distinct ages changes no
    individual parameter. -/
theorem predict_perm_invariant (pt : PredType) (nf : Nat) (vs vs' : Visits) (h : Perm vs vs')
    (hn : (vs.map Prod.fst).Nodup) : predict pt nf vs = predict pt nf vs' := by
  unfold predict
  congr 1
  funext j
  rcases column_perm j h with ⟨h1, h2⟩ | ⟨c, c', h1, h2, hp, hm⟩
  · rw [h1, h2]
  · rw [h1, h2]
    exact pred_perm_invariant pt c c' hp (hm ▸ hn)

/-- Dropping the visits without any observation (reader default) commutes with permutations, so the
    public-API chain `ingest → personalize` is order-independent as well. -/
theorem dropFullNan_perm (vs vs' : Visits) (h : Perm vs vs') : Perm (dropFullNan vs) (dropFullNan vs') :=
  h.filter _

/-- **The constant trajectory returns the personalised value at every requested age**: one row per
    requested age, each equal to the vector of individual parameters, whatever the ages are. -/
theorem constTraj_constant (vals : List (Option Rat)) (ts : List Rat) :
    (constTraj vals ts).length = ts.length ∧ ∀ row ∈ constTraj vals ts, row = vals := by
  unfold constTraj
  constructor
  · simp
  · intro row hrow
    obtain ⟨_, _, h⟩ := List.mem_map.1 hrow
    exact h.symm

/-- personalize-then-estimate: the estimate at any ages is the prediction of `predict`, repeated. -/
theorem constEstimate_spec (pt : PredType) (nf : Nat) (vs : Visits) (ts : List Rat) (ip : List (Option Rat))
    (traj : List (List (Option Rat))) (h : constEstimate pt nf vs ts = some (ip, traj)) :
    predict pt nf vs = some ip ∧ traj.length = ts.length ∧ ∀ row ∈ traj, row = ip := by
  unfold constEstimate at h
  cases hp : predict pt nf vs with
  | none => simp [hp] at h
  | some ip' =>
    simp only [hp, Option.map_some, Option.some.injEq, Prod.mk.injEq] at h
    obtain ⟨rfl, rfl⟩ := h
    exact ⟨rfl, constTraj_constant _ _⟩

/-! ## the linear mixed-effects benchmark -/

private theorem sumBy_nil (f : Rat × Rat → Rat) : sumBy f [] = 0 := rfl

private theorem sumBy_cons (f : Rat × Rat → Rat) (x : Rat × Rat) (l : List (Rat × Rat)) :
    sumBy f (x :: l) = f x + sumBy f l := by simp [sumBy]

/-- **The generic formula with `Z` = one column of ones specialises to the intercept-only branch**:
    `inv(Z'Z + c) · Z'r` with `Z = (1,…,1)'` is `Σ r / (n + c)` (both undefined exactly when `n + c = 0`). -/
theorem lme_intercept_specialises (cinv : Rat) (ar : List (Rat × Rat)) :
    lmeGeneric1 cinv (ar.map fun x => (1, x.2)) = lmeIntercept cinv ar := by
  have h2 : sumBy (fun x => x.1 * x.2) (ar.map fun x => ((1 : Rat), x.2)) = sumBy (fun x => x.2) ar := by
    induction ar with
    | nil => simp [sumBy]
    | cons x xs ih => simp only [List.map_cons, sumBy_cons]; rw [ih]; ring
  have h1 : sumBy (fun x => x.1 * x.1) (ar.map fun x => ((1 : Rat), x.2)) = (ar.length : Rat) := by
    clear h2
    induction ar with
    | nil => simp [sumBy]
    | cons x xs ih =>
      simp only [List.map_cons, sumBy_cons, List.length_cons, Nat.cast_add, Nat.cast_one]; rw [ih]; ring
  unfold lmeGeneric1 lmeIntercept
  simp only [h1, h2]
  split
  · rfl
  · congr 1; ring

/-- The intercept-only random effect solves its (scalar) normal equation `(n + ψ⁻¹) b = Σ r`. -/
theorem lme_intercept_solves_normal_eq (cinv : Rat) (ar : List (Rat × Rat)) (b : Rat)
    (h : lmeIntercept cinv ar = some b) :
    ((ar.length : Rat) + cinv) * b = sumBy (fun x => x.2) ar := by
  unfold lmeIntercept at h
  simp only at h
  split at h
  · cases h
  · rename_i hd
    simp only [Option.some.injEq] at h
    rw [← h]; field_simp

/-- **The returned random effects solve the normal equations `(Z'Z + Ψ⁻¹) b = Z' r`** (`Z = [1, a]`,
    `Ψ⁻¹ = cov_re_unscaled_inv`), whenever the code returns at all (matrix not singular). -/
theorem lme_solves_normal_eq (cinv : Mat2) (ar : List (Rat × Rat)) (b0 b1 : Rat)
    (h : lmeGeneric2 cinv ar = some (b0, b1)) :
    ((ar.length : Rat) + cinv.a) * b0 + (sumBy (fun x => x.1) ar + cinv.b) * b1 = sumBy (fun x => x.2) ar ∧
    (sumBy (fun x => x.1) ar + cinv.c) * b0 + (sumBy (fun x => x.1 * x.1) ar + cinv.d) * b1
      = sumBy (fun x => x.1 * x.2) ar := by
  unfold lmeGeneric2 Mat2.inv at h
  split at h
  · cases h
  · rename_i G hG
    split at hG
    · cases hG
    · rename_i hdet
      simp only [Option.some.injEq] at hG
      subst hG
      simp only [Option.some.injEq, Prod.mk.injEq] at h
      obtain ⟨rfl, rfl⟩ := h
      simp only [Mat2.det, lmeNormalMatrix] at hdet ⊢
      generalize (ar.length : Rat) = n at hdet ⊢
      generalize sumBy (fun x => x.1) ar = s1 at hdet ⊢
      generalize sumBy (fun x => x.1 * x.1) ar = s2 at hdet ⊢
      generalize sumBy (fun x => x.2) ar = u0 at hdet ⊢
      generalize sumBy (fun x => x.1 * x.2) ar = u1 at hdet ⊢
      obtain ⟨D, hD⟩ : ∃ D, D = (n + cinv.a) * (s2 + cinv.d) - (s1 + cinv.b) * (s1 + cinv.c) := ⟨_, rfl⟩
      rw [← hD] at hdet ⊢
      have hdet' : D ≠ 0 := hdet
      constructor <;> (field_simp; rw [hD]; ring)

/-- … and they are the *only* solution: the normal equations determine the conditional mean. -/
theorem lme_normal_eq_unique (cinv : Mat2) (ar : List (Rat × Rat)) (b0 b1 x0 x1 : Rat)
    (h : lmeGeneric2 cinv ar = some (b0, b1))
    (e1 : ((ar.length : Rat) + cinv.a) * x0 + (sumBy (fun x => x.1) ar + cinv.b) * x1 = sumBy (fun x => x.2) ar)
    (e2 : (sumBy (fun x => x.1) ar + cinv.c) * x0 + (sumBy (fun x => x.1 * x.1) ar + cinv.d) * x1
      = sumBy (fun x => x.1 * x.2) ar) :
    x0 = b0 ∧ x1 = b1 := by
  obtain ⟨f1, f2⟩ := lme_solves_normal_eq cinv ar b0 b1 h
  have hdet : (lmeNormalMatrix cinv ar).det ≠ 0 := by
    unfold lmeGeneric2 Mat2.inv at h
    intro h0
    simp [h0] at h
  simp only [Mat2.det, lmeNormalMatrix] at hdet
  constructor
  · apply sub_eq_zero.1
    apply (mul_eq_zero.1 _).resolve_left hdet
    linear_combination (sumBy (fun x => x.1 * x.1) ar + cinv.d) * (e1 - f1) - (sumBy (fun x => x.1) ar + cinv.b) * (e2 - f2)
  · apply sub_eq_zero.1
    apply (mul_eq_zero.1 _).resolve_left hdet
    linear_combination ((ar.length : Rat) + cinv.a) * (e2 - f2) - (sumBy (fun x => x.1) ar + cinv.c) * (e1 - f1)

/-- The objective whose minimiser is the conditional mean of the random effects given the data
    (posterior density of `b` ∝ `exp(-Q(b) / 2σ²)` for `b ~ N(0, σ²Ψ)`, noise `N(0, σ²)`):
    `Q(b) = Σ (r_i - b0 - a_i b1)² + b' Ψ⁻¹ b`. -/
def penalisedSS (cinv : Mat2) (ar : List (Rat × Rat)) (b0 b1 : Rat) : Rat :=
  sumBy (fun x => (x.2 - (b0 + x.1 * b1)) ^ 2) ar
    + (cinv.a * b0 ^ 2 + (cinv.b + cinv.c) * b0 * b1 + cinv.d * b1 ^ 2)

private theorem ss_expand (ar : List (Rat × Rat)) (b0 b1 d0 d1 : Rat) :
    sumBy (fun x => (x.2 - ((b0 + d0) + x.1 * (b1 + d1))) ^ 2) ar
      = sumBy (fun x => (x.2 - (b0 + x.1 * b1)) ^ 2) ar
        - 2 * d0 * (sumBy (fun x => x.2) ar - (ar.length : Rat) * b0 - b1 * sumBy (fun x => x.1) ar)
        - 2 * d1 * (sumBy (fun x => x.1 * x.2) ar - b0 * sumBy (fun x => x.1) ar
                      - b1 * sumBy (fun x => x.1 * x.1) ar)
        + sumBy (fun x => (d0 + x.1 * d1) ^ 2) ar := by
  induction ar with
  | nil => simp [sumBy]
  | cons x xs ih =>
    simp only [sumBy_cons, List.length_cons, Nat.cast_add, Nat.cast_one]
    linear_combination ih

private theorem sumBy_sq_nonneg (ar : List (Rat × Rat)) (d0 d1 : Rat) :
    0 ≤ sumBy (fun x => (d0 + x.1 * d1) ^ 2) ar := by
  induction ar with
  | nil => simp [sumBy]
  | cons x xs ih => rw [sumBy_cons]; have := sq_nonneg (d0 + x.1 * d1); linarith

/-- **The returned random effects are the conditional means given the variance components**: for a
    symmetric positive semi-definite `Ψ⁻¹` they minimise the penalised residual sum of squares `Q`
    over all `(x0, x1)`; moving away by `(d0, d1)` costs exactly `Σ (d0 + a_i d1)² + d' Ψ⁻¹ d`. -/
theorem lme_minimises_penalised_ls (cinv : Mat2) (ar : List (Rat × Rat)) (b0 b1 : Rat)
    (h : lmeGeneric2 cinv ar = some (b0, b1)) (hsym : cinv.b = cinv.c)
    (hpsd : ∀ d0 d1 : Rat, 0 ≤ cinv.a * d0 ^ 2 + (cinv.b + cinv.c) * d0 * d1 + cinv.d * d1 ^ 2) :
    (∀ d0 d1, penalisedSS cinv ar (b0 + d0) (b1 + d1)
        = penalisedSS cinv ar b0 b1 + sumBy (fun x => (d0 + x.1 * d1) ^ 2) ar
          + (cinv.a * d0 ^ 2 + (cinv.b + cinv.c) * d0 * d1 + cinv.d * d1 ^ 2)) ∧
    ∀ x0 x1, penalisedSS cinv ar b0 b1 ≤ penalisedSS cinv ar x0 x1 := by
  obtain ⟨f1, f2⟩ := lme_solves_normal_eq cinv ar b0 b1 h
  have key : ∀ d0 d1, penalisedSS cinv ar (b0 + d0) (b1 + d1)
        = penalisedSS cinv ar b0 b1 + sumBy (fun x => (d0 + x.1 * d1) ^ 2) ar
          + (cinv.a * d0 ^ 2 + (cinv.b + cinv.c) * d0 * d1 + cinv.d * d1 ^ 2) := by
    intro d0 d1
    unfold penalisedSS
    rw [ss_expand]
    linear_combination (2 * d0) * f1 + (2 * d1) * f2 + (b0 * d1 - d0 * b1) * hsym
  refine ⟨key, ?_⟩
  intro x0 x1
  have := key (x0 - b0) (x1 - b1)
  have e0 : b0 + (x0 - b0) = x0 := by ring
  have e1 : b1 + (x1 - b1) = x1 := by ring
  rw [e0, e1] at this
  rw [this]
  have h1 := sumBy_sq_nonneg ar (x0 - b0) (x1 - b1)
  have h2 := hpsd (x0 - b0) (x1 - b1)
  linarith

/-- The personalisation as a whole (`_get_individual_random_effects_and_residuals`, random-slope model):
    ages normalised with the stored mean/std, residuals taken against the fixed effects over the
    observed visits only, and the result solves the normal equations for those residuals. -/
theorem lme_personalize_solves_normal_eq (p : LmeParams) (cinv : Mat2) (c : Col) (re : List Rat)
    (h : lmeRandomEffects p true cinv c = some re) :
    ∃ b0 b1, re = [b0, b1] ∧
      lmeGeneric2 cinv (residuals p (removeNans c)) = some (b0, b1) := by
  unfold lmeRandomEffects at h
  split at h
  · cases h
  · split at h
    · cases h
    simp only [if_true] at h
    cases hg : lmeGeneric2 cinv (residuals p (removeNans c)) with
    | none => simp [hg] at h
    | some b =>
      simp only [hg, Option.map_some, Option.some.injEq] at h
      exact ⟨b.1, b.2, h.symm, rfl⟩

/-- **Trajectories are affine in age with the right slope and intercept**: slope
    `(β₁ + b₁) / ages_std`, intercept `β₀ + b₀ - slope · ages_mean` (with `b₁ = 0` in the model without
    random slope). -/
theorem lmeTraj_affine_in_age (p : LmeParams) (b0 b1 : Rat) (ts : List Rat) (hstd : p.agesStd ≠ 0)
    (hts : ts ≠ []) :
    lmeTraj p true [b0, b1] ts
      = some (ts.map fun t => (p.fe0 + b0 - (p.fe1 + b1) / p.agesStd * p.agesMean)
                                + (p.fe1 + b1) / p.agesStd * t) ∧
    lmeTraj p false [b0] ts
      = some (ts.map fun t => (p.fe0 + b0 - p.fe1 / p.agesStd * p.agesMean) + p.fe1 / p.agesStd * t) := by
  have hts' : ts.isEmpty = false := by cases ts <;> simp_all
  unfold lmeTraj normAge
  simp only [hstd, hts', if_false, Bool.false_eq_true, Option.some.injEq]
  constructor <;>
  · apply List.map_congr_left
    intro t _
    field_simp
    ring

private theorem sumBy_perm (f : Rat × Rat → Rat) {l l' : List (Rat × Rat)} (h : Perm l l') :
    sumBy f l = sumBy f l' := sum_perm (h.map f)

/-- The LME personalisation does not depend on the order of the visits either (any history, tied ages
    included: only sums over the observed visits enter). -/
theorem lme_perm_invariant (p : LmeParams) (slope : Bool) (cinv : Mat2) (c c' : Col) (h : Perm c c') :
    lmeRandomEffects p slope cinv c = lmeRandomEffects p slope cinv c' := by
  have hr : Perm (removeNans c) (removeNans c') := h.filterMap _
  have har : Perm (residuals p (removeNans c)) (residuals p (removeNans c')) := hr.map _
  have he : (removeNans c).isEmpty = (removeNans c').isEmpty := by
    have := hr.length_eq
    cases h1 : removeNans c <;> cases h2 : removeNans c' <;> simp_all
  unfold lmeRandomEffects lmeGeneric2 lmeNormalMatrix lmeIntercept
  simp only [he, sumBy_perm _ har, har.length_eq]

/-- `predict` returns exactly one value per feature. -/
theorem predict_length (pt : PredType) (nf : Nat) (vs : Visits) (ip : List (Option Rat))
    (h : predict pt nf vs = some ip) : ip.length = nf := by
  unfold predict at h
  have key : ∀ (l : List Nat) (f : Nat → Option (Option Rat)) (r : List (Option Rat)),
      l.mapM f = some r → r.length = l.length := by
    intro l f
    induction l with
    | nil => intro r hr; simp at hr; subst hr; rfl
    | cons a l ih =>
      intro r hr
      rw [List.mapM_cons] at hr
      cases hf : f a with
      | none => simp [hf] at hr
      | some b =>
        cases hl : l.mapM f with
        | none => simp [hf, hl] at hr
        | some bs =>
          simp [hf, hl] at hr
          subst hr
          simp [ih bs hl]
  simpa using key _ _ _ h

/-! ## non-vacuity: the hypotheses above are satisfiable and the functions return -/

example : last [(3, some 1), (5, none), (4, some 2)] = some none := by decide +kernel
example : lastKnown [(3, some 1), (5, none), (4, some 2)] = some (some 2) := by decide +kernel
example : maxP [(3, some 1), (5, none), (4, some 2)] = some (some 2) := by decide +kernel
example : meanP [(3, some 1), (5, none), (4, some 2)] = some (some (3 / 2)) := by decide +kernel
example : maxP [(3, none), (5, none)] = some none ∧ meanP [(3, none), (5, none)] = some none ∧
    lastKnown [(3, none), (5, none)] = some none := by decide +kernel
example : lmeRandomEffects ⟨1, 2, 1 / 3, 1⟩ true ⟨1 / 100, 0, 0, 1 / 2⟩
      [(0, some 2), (2, some 4), (4, none), (6, some 9)]
    = some [52300 / 18687, 22991 / 18687] := by decide +kernel
example : lmeRandomEffects ⟨0, 1, 1 / 3, 1⟩ false ⟨1 / 100, 0, 0, 0⟩
      [(0, some 2), (2, some 4), (4, none), (6, some 8)] = some [500 / 301] := by decide +kernel
/-- a singular `Z'Z + Ψ⁻¹` is reported, not defaulted -/
example : lmeGeneric2 ⟨0, 0, 0, 0⟩ [(1, 1)] = none := by decide +kernel
example : lmeIntercept (1 / 100) [(0, 5 / 3), (2, 5 / 3), (6, 5 / 3)] = some (500 / 301) := by decide +kernel

end LeaspyVerif.C20
