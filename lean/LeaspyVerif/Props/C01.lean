/-
C01 — values read from the lazily cached variable graph are never stale.
Model: `Model/State.lean`; lemmas: `Lemmas/State.lean`.

`spec g ind i`      value of variable `i` evaluated from scratch on the independent values `ind`
`absS g s`          the independent values currently held by state `s`
`ReadOK g ind i r`  `r = ok v` with `v` the from-scratch value, or `r = error input` and the from-scratch
                    evaluation needs an unset independent value — never a default, never an old value
`WF g`              well-formedness of the graph tables (a consequence of C15 for accepted graphs)
`Commutes …`        "the node carries the individual axis" — the documented precondition of a partial revert
All statements hold for every graph, every value type (tensors with non-finite entries included: the
partial revert selects, it does not compute) and every finite history, with any number of clones.
-/
import LeaspyVerif.Lemmas.State
import LeaspyVerif.Props.C15

namespace LeaspyVerif.C01
open LeaspyVerif.State

variable {V M : Type}

/-- every state of the store satisfies the cache invariant -/
def StoreInv (g : Graph V) (σ : Store V) : Prop := ∀ sid s, σ sid = some s → Inv g s

/-- the documented precondition of a per-individual revert, evaluated when it is executed: every node of the
    forked region that is cached both in the snapshot and now carries the individual axis -/
def PreOK (g : Graph V) (mix : M → V → V → V) (σ : Store V) : Op V M → Prop
  | .revert sid (some m) =>
    ∀ s F, σ sid = some s → s.fork = some F →
      ∀ i, F.map Prod.fst = i :: g.desc i → ∀ k ∈ g.desc i, ∀ o c,
        restore s.vals F k = some o → s.vals k = some c → Commutes g mix m i k
  | _ => True

/-- preconditions hold all along the history -/
def Valid (g : Graph V) (mix : M → V → V → V) : Store V → List (Op V M) → Prop
  | _, [] => True
  | σ, op :: h => PreOK g mix σ op ∧ Valid g mix (step g mix σ op).1 h

/-- what a read must return, given the store it is executed in -/
def OpOK (g : Graph V) (σ : Store V) : Op V M → Out V → Prop
  | .get sid i, out =>
    match σ sid with
    | none => True
    | some s =>
      if i < g.n then ∃ r, out = .read r ∧ ReadOK g (absS g s) i r
      else out = .read (.error .input)
  | _, _ => True

/-- every read of the history is correct -/
def AllReadsOK (g : Graph V) (mix : M → V → V → V) : Store V → List (Op V M) → Prop
  | _, [] => True
  | σ, op :: h => OpOK g σ op (step g mix σ op).2 ∧ AllReadsOK g mix (step g mix σ op).1 h

private theorem storeInv_put {g : Graph V} {σ : Store V} (h : StoreInv g σ) {sid : Nat} {s : St V}
    (hs : Inv g s) : StoreInv g (σ.put sid s) := by
  intro k s' hk
  unfold Store.put at hk
  by_cases hks : k = sid
  · simp only [hks, if_true, Option.some.injEq] at hk; rw [← hk]; exact hs
  · simp only [hks, if_false] at hk; exact h k s' hk

/-- A fresh state is consistent. -/
theorem inv_init {g : Graph V} (wf : WF g) (mode : Bool) : Inv g (initial g mode) :=
  inv_initial wf mode

/-- Every operation keeps every state of the store consistent (with its fork restorable). -/
theorem inv_step {g : Graph V} (wf : WF g) (mix : M → V → V → V) {σ : Store V} (h : StoreInv g σ)
    (op : Op V M) (hpre : PreOK g mix σ op) : StoreInv g (step g mix σ op).1 := by
  cases op with
  | get sid i =>
    simp only [step]
    cases hs : σ sid with
    | none => exact h
    | some s =>
      simp only
      by_cases hi : i < g.n
      · exact storeInv_put h (get_spec wf (h sid s hs) hi).1
      · have : State.get g s i = (s, .error .input) := by unfold State.get; simp [Nat.le_of_not_lt hi]
        rw [this]; exact storeInv_put h (h sid s hs)
  | isSet sid i =>
    simp only [step]; cases hs : σ sid <;> exact h
  | set sid i v =>
    simp only [step]
    cases hs : σ sid with
    | none => exact h
    | some s => exact storeInv_put h (inv_set wf (h sid s hs) i v)
  | put sid i t v =>
    simp only [step]
    cases hs : σ sid with
    | none => exact h
    | some s => exact storeInv_put h (inv_put wf (h sid s hs) i t v)
  | revert sid mask =>
    simp only [step]
    cases hs : σ sid with
    | none => exact h
    | some s =>
      simp only
      cases mask with
      | none => exact storeInv_put h (inv_revert_full mix (h sid s hs))
      | some m =>
        cases hF : s.fork with
        | none =>
          have : revert mix s (some m) = (s, .error .input) := by unfold revert; rw [hF]
          rw [this]; exact storeInv_put h (h sid s hs)
        | some F =>
          exact storeInv_put h (inv_revert_partial wf mix (h sid s hs) m F hF (hpre s F hs hF))
  | clone src dst a b =>
    simp only [step]
    cases hs : σ src with
    | none => exact h
    | some s => exact storeInv_put h (inv_clone (h src s hs) a b)
  | precompute sid =>
    simp only [step]
    cases hs : σ sid with
    | none => exact h
    | some s => exact storeInv_put h (inv_precompute wf (h sid s hs)).1
  | setMode sid m =>
    simp only [step]
    cases hs : σ sid with
    | none => exact h
    | some s => exact storeInv_put h (inv_setMode (h sid s hs) m)
  | clear sid =>
    simp only [step]
    cases hs : σ sid with
    | none => exact h
    | some s => exact storeInv_put h (inv_clear wf s)

/-- A read returns the from-scratch value on the current independent values, or reports the
    unset independent value as an input error; it does not change the independent values. -/
theorem get_refines {g : Graph V} (wf : WF g) {s : St V} (h : Inv g s) {i : Nat} (hi : i < g.n) :
    ReadOK g (absS g s) i (State.get g s i).2 ∧ absS g (State.get g s i).1 = absS g s :=
  ⟨(get_spec wf h hi).2.2.2.2.2, (get_spec wf h hi).2.1⟩

/-- What a read may return is determined by the independent values alone (`ReadOK` has exactly one solution). -/
theorem readOK_unique {g : Graph V} {ind : Cache V} {i : Nat} {r r' : Except Err V}
    (h : ReadOK g ind i r) (h' : ReadOK g ind i r') : r = r' := by
  cases r with
  | ok v =>
    cases r' with
    | ok v' =>
      have hv : spec g ind i = some v := h
      have hv' : spec g ind i = some v' := h'
      rw [hv] at hv'; cases hv'; rfl
    | error e' =>
      have hv : spec g ind i = some v := h
      have hv' : e' = .input ∧ spec g ind i = none := h'
      rw [hv] at hv'; cases hv'.2
  | error e =>
    have hv : e = .input ∧ spec g ind i = none := h
    cases r' with
    | ok v' =>
      have hv' : spec g ind i = some v' := h'
      rw [hv.2] at hv'; cases hv'
    | error e' =>
      have hv' : e' = .input ∧ spec g ind i = none := h'
      rw [hv.1, hv'.1]

/-- **Two consistent states holding the same independent values answer every read alike** — whatever each has cached,
    whatever was read, proposed or reverted on either before (history independence of reads). -/
theorem reads_depend_on_independent_values_only {g : Graph V} (wf : WF g) {s s' : St V} (h : Inv g s) (h' : Inv g s')
    (habs : absS g s = absS g s') {i : Nat} (hi : i < g.n) : (State.get g s i).2 = (State.get g s' i).2 := by
  have a := (get_refines wf h hi).1
  have b := (get_refines wf h' hi).1
  rw [← habs] at b
  exact readOK_unique a b

/-- **A clone answers every read as its source does** (any combination of the two clone options), and reading one of the two
    does not change what the other answers afterwards. -/
theorem clone_reads_agree {g : Graph V} (wf : WF g) {s : St V} (h : Inv g s) (a b : Bool) {i j : Nat}
    (hi : i < g.n) (hj : j < g.n) :
    (State.get g (clone s a b) i).2 = (State.get g s i).2 ∧
    (State.get g (State.get g (clone s a b) j).1 i).2 = (State.get g s i).2 := by
  have hc : Inv g (clone s a b) := inv_clone h a b
  have habs : absS g (clone s a b) = absS g s := rfl
  refine ⟨reads_depend_on_independent_values_only wf hc h habs hi, ?_⟩
  obtain ⟨c1, c2, _⟩ := get_spec wf hc hj
  exact reads_depend_on_independent_values_only wf c1 h (c2.trans habs) hi

/-- A read of something that is not a variable is an input error. -/
theorem get_unknown {g : Graph V} (s : St V) {i : Nat} (hi : g.n ≤ i) :
    (State.get g s i).2 = .error .input := by
  unfold State.get; simp [hi]

/-- **Main theorem.**  In every finite history of set / put / read / revert / partial revert / clone /
    mode switch / precompute / clear over any number of states, started from consistent states and
    respecting only the documented precondition of partial reverts, every read is correct. -/
theorem run_refines {g : Graph V} (wf : WF g) (mix : M → V → V → V) :
    ∀ (h : List (Op V M)) (σ : Store V), StoreInv g σ → Valid g mix σ h → AllReadsOK g mix σ h := by
  intro h
  induction h with
  | nil => intro _ _ _; trivial
  | cons op h ih =>
    intro σ hσ hv
    refine ⟨?_, ih _ (inv_step wf mix hσ op hv.1) hv.2⟩
    cases op with
    | get sid i =>
      simp only [OpOK, step]
      cases hs : σ sid with
      | none => trivial
      | some s =>
        simp only
        by_cases hi : i < g.n
        · simp only [hi, if_true]
          exact ⟨_, rfl, (get_refines wf (hσ sid s hs) hi).1⟩
        · simp only [hi, if_false]
          rw [get_unknown s (Nat.le_of_not_lt hi)]
    | _ => trivial

/-- An assignment changes exactly the assigned independent value. -/
theorem set_abs {g : Graph V} (wf : WF g) (s : St V) {i : Nat} (hi : i < g.n)
    (hk : g.kind i = .indep true) (v : Option V) :
    absS g (State.set g s i v).1 = upd (absS g s) i v ∧ (State.set g s i v).2 = .ok () :=
  abs_set wf hi hk v

/-- Assigning a variable that is not settable (hyper-parameter, derived variable, unknown name) is refused and
    changes nothing. -/
theorem set_refused {g : Graph V} (s : St V) {i : Nat} (h : g.n ≤ i ∨ g.kind i ≠ .indep true) (v : Option V) :
    State.set g s i v = (s, .error .input) := by
  unfold State.set
  by_cases hi : g.n ≤ i
  · simp [hi]
  · simp only [hi, if_false]
    rcases h with h | h
    · exact absurd h hi
    · split
      · next hk => exact absurd hk h
      · rfl

/-- From scratch every variable has a value as soon as every independent variable has one. -/
theorem spec_total {g : Graph V} (wf : WF g) (ind : Cache V)
    (hall : ∀ i < g.n, g.kind i ≠ .linked → ind i ≠ none) : ∀ d < g.n, spec g ind d ≠ none := by
  have key : ∀ (l1 l2 : List Nat), g.order = l1 ++ l2 → ∀ d ∈ l1, spec g ind d ≠ none := by
    intro l1
    induction l1 using List.reverseRecOn with
    | nil => intro _ _ d hd; simp at hd
    | append_singleton l a ih =>
      intro l2 hs d hd
      rw [List.append_assoc, List.singleton_append] at hs
      rcases List.mem_append.1 hd with hd | hd
      · exact ih (a :: l2) hs d hd
      · simp only [List.mem_singleton] at hd
        subst hd
        have hlt : d < g.n := (wf.order_mem d).1 (by rw [hs]; simp)
        cases hk : g.kind d with
        | indep b => rw [spec_indep wf ind hlt hk]; exact hall d hlt (by rw [hk]; simp)
        | linked =>
          rw [spec_linked wf ind hlt hk]
          have : ∀ p ∈ g.parents d, spec g ind p ≠ none :=
            fun p hp => ih (d :: l2) hs p (wf.parents_before l d l2 hs hk p hp)
          obtain ⟨vs, hvs⟩ := mapM_some_iff.2 this
          rw [hvs]; simp
  intro d hd
  exact key g.order [] (by simp) d ((wf.order_mem d).2 hd)

/-- When every independent variable is set, every read succeeds (and returns the from-scratch value). -/
theorem get_total {g : Graph V} (wf : WF g) {s : St V} (h : Inv g s)
    (hall : ∀ i < g.n, g.kind i ≠ .linked → s.vals i ≠ none) {i : Nat} (hi : i < g.n) :
    ∃ v, (State.get g s i).2 = .ok v ∧ spec g (absS g s) i = some v := by
  have hspec := spec_total wf (absS g s) (by
    intro j hj hk
    unfold absS absC
    cases hkj : g.kind j with
    | linked => exact absurd hkj hk
    | indep b => simpa using hall j hj hk) i hi
  have hr := (get_refines wf h hi).1
  cases hres : (State.get g s i).2 with
  | ok v => rw [hres] at hr; exact ⟨v, rfl, hr⟩
  | error e => rw [hres] at hr; exact absurd hr.2 hspec

private theorem get_cached {g : Graph V} (s : St V) {i : Nat} (hi : i < g.n) {v : V} (h : s.vals i = some v) :
    State.get g s i = (s, .ok v) := by
  unfold State.get
  have hni : ¬ g.n ≤ i := by omega
  simp [hni, h]

/-- A read is idempotent: reading again returns the same result and leaves the state as the first read left it. -/
theorem get_idempotent {g : Graph V} {s : St V} {i : Nat} (hi : i < g.n) {v : V}
    (hv : (State.get g s i).2 = .ok v) : State.get g (State.get g s i).1 i = ((State.get g s i).1, .ok v) := by
  have hcached : (State.get g s i).1.vals i = some v := by
    unfold State.get at hv ⊢
    have hni : ¬ g.n ≤ i := by omega
    simp only [hni, if_false] at hv ⊢
    cases hci : s.vals i with
    | some w =>
      simp only [hci] at hv ⊢
      cases hv
      rfl
    | none =>
      simp only [hci] at hv ⊢
      cases hw : walk g (g.anc i) s.vals with
      | mk c e =>
        simp only [hw] at hv ⊢
        cases e with
        | some e => simp at hv
        | none =>
          simp only at hv ⊢
          cases hc : compute g c i with
          | ok w => simp only [hc] at hv ⊢; cases hv; simp [upd]
          | error e => simp [hc] at hv
  exact get_cached _ hi hcached

/-- Operations on one state of the store (a clone, say) leave every other state untouched. -/
theorem step_other_states_untouched {g : Graph V} (mix : M → V → V → V) (σ : Store V) (op : Op V M) (k : Nat)
    (hk : match op with
      | .get sid _ | .isSet sid _ | .set sid _ _ | .put sid _ _ _ | .revert sid _ | .precompute sid
      | .setMode sid _ | .clear sid => k ≠ sid
      | .clone _ dst _ _ => k ≠ dst) : (step g mix σ op).1 k = σ k := by
  cases op <;> simp only [step] <;> (split <;> first | rfl | (simp only [Store.put]; simp [hk]))

/-! ### bridge to C15: the tables of an accepted graph are well-formed -/

private theorem pairwise_idxOf {l : List Nat} (hnd : l.Nodup) :
    l.Pairwise (fun x y => l.idxOf x < l.idxOf y) := by
  rw [List.pairwise_iff_getElem]
  intro i j hi hj hij
  rw [hnd.idxOf_getElem i hi, hnd.idxOf_getElem j hj]; exact hij

private theorem reachP_of_reach {dg : Dag.Graph} {g : Graph V} (hn : g.n = dg.n)
    (hpar : ∀ i < g.n, g.kind i = .linked → g.parents i = dg.anc i)
    (hind : ∀ i < g.n, g.kind i ≠ .linked → dg.anc i = []) {a b : Nat} (h : Dag.Reach dg a b) :
    ReachP g a b := by
  have edge : ∀ {c b}, Dag.Edge dg c b → g.kind b = .linked ∧ c ∈ g.parents b := by
    intro c b he
    have hb : b < g.n := hn ▸ he.1
    have hk : g.kind b = .linked := by
      by_contra hne
      have := hind b hb hne
      have h2 := he.2
      rw [this] at h2; exact absurd h2 (by simp)
    exact ⟨hk, by rw [hpar b hb hk]; exact he.2⟩
  induction h with
  | single e => exact ReachP.single (edge e).1 (edge e).2
  | tail _ e ih => exact ReachP.tail ih (edge e).1 (edge e).2

/-- **The hypothesis `WF` is not an assumption about leaspy graphs**: for every graph accepted by the
    dependency-graph construction (C15 model), the state graph that uses its order, descendant and
    ancestor tables is well-formed.  (Linked nodes' parents are the graph's edges; independent nodes
    have none.) -/
theorem wf_of_build {dg : Dag.Graph} {r : Dag.Result} (hb : Dag.build dg = .ok r) (g : Graph V)
    (hn : g.n = dg.n) (hord : g.order = r.order) (hdesc : g.desc = r.children)
    (hanc : g.anc = r.ancestors)
    (hpar : ∀ i < g.n, g.kind i = .linked → g.parents i = dg.anc i)
    (hind : ∀ i < g.n, g.kind i ≠ .linked → dg.anc i = [])
    (hout : ∀ i, g.n ≤ i → g.kind i ≠ .linked)
    (hinit : ∀ i v, g.init i = some v → g.kind i ≠ .linked) : WF g := by
  obtain ⟨hu, _, _, hac⟩ := (C15.accepts_iff dg).1 ⟨r, hb⟩
  have hperm := C15.order_perm_nodes hb
  have hnd : r.order.Nodup := hperm.nodup_iff.2 List.nodup_range
  have hmem : ∀ i, i ∈ r.order ↔ i < dg.n := fun i => by rw [hperm.mem_iff, List.mem_range]
  have hlt_of_linked : ∀ i, g.kind i = .linked → i < g.n := by
    intro i hk; by_contra h; exact hout i (Nat.le_of_not_lt h) hk
  have edge_of_parent : ∀ {p i}, g.kind i = .linked → p ∈ g.parents i → Dag.Edge dg p i := by
    intro p i hk hp
    have hi := hlt_of_linked i hk
    exact ⟨hn ▸ hi, by rw [← hpar i hi hk]; exact hp⟩
  have linked_of_edge : ∀ {c b}, Dag.Edge dg c b → g.kind b = .linked := by
    intro c b he
    by_contra hne
    have := hind b (hn ▸ he.1) hne
    have h2 := he.2
    rw [this] at h2; exact absurd h2 (by simp)
  -- position lemma in a nodup list split at `i`
  have before : ∀ (l1 l2 : List Nat) (i p : Nat), r.order = l1 ++ i :: l2 → p ∈ r.order →
      r.order.idxOf p < r.order.idxOf i → p ∈ l1 := by
    intro l1 l2 i p hs hp hlt
    by_contra hnp
    rw [hs] at hnd
    have hi1 : i ∉ l1 := fun h => (List.nodup_append.1 hnd).2.2 i h i (by simp) rfl
    rw [hs, List.idxOf_append_of_notMem hnp, List.idxOf_append_of_notMem hi1] at hlt
    simp only [List.idxOf_cons_self, Nat.add_zero] at hlt
    omega
  refine
    { order_nodup := hord ▸ hnd
      order_mem := fun i => by rw [hord, hmem, hn]
      parents_before := ?_
      anc_lt := ?_
      anc_parents := ?_
      anc_parents_before := ?_
      anc_sound := ?_
      desc_parents := ?_
      desc_closed := ?_
      desc_lt := ?_
      desc_linked := ?_
      desc_sound := ?_
      not_self_desc := ?_
      init_indep := hinit }
  · intro l1 i l2 hs hk p hp
    rw [hord] at hs
    obtain ⟨hpm, _, hlt⟩ := C15.order_topological hb (Dag.Reach.single (edge_of_parent hk hp))
    exact before l1 l2 i p hs hpm hlt
  · intro i a ha
    rw [hanc] at ha
    rw [hn]; exact ((C15.ancestors_exact hb a i).1 ha).lt_left hu
  · intro i hk p hp
    rw [hanc]
    exact (C15.ancestors_exact hb p i).2 (Dag.Reach.single (edge_of_parent hk hp))
  · intro i l1 a l2 hs hk p hp
    rw [hanc] at hs
    have hsub := C15.ancestors_in_order hb i
    have hpw := (pairwise_idxOf hnd).sublist hsub
    have ha_anc : a ∈ r.ancestors i := by rw [hs]; simp
    have hra := (C15.ancestors_exact hb a i).1 ha_anc
    have hep := edge_of_parent hk hp
    have hp_anc : p ∈ r.ancestors i :=
      (C15.ancestors_exact hb p i).2 (Dag.Reach.trans (Dag.Reach.single hep) hra)
    obtain ⟨_, _, hlt⟩ := C15.order_topological hb (Dag.Reach.single hep)
    rw [hs] at hp_anc hpw
    rcases List.mem_append.1 hp_anc with h | h
    · exact h
    · rcases List.mem_cons.1 h with h | h
      · subst h; omega
      · have := (List.pairwise_cons.1 (List.pairwise_append.1 hpw).2.1).1 p h
        omega
  · intro i a ha
    rw [hanc] at ha
    exact reachP_of_reach hn hpar hind ((C15.ancestors_exact hb a i).1 ha)
  · intro i c hc hk hi
    rw [hdesc]
    exact (C15.children_exact hb i c).2 (Dag.Reach.single (edge_of_parent hk hi))
  · intro i d c hd hc hk hdc
    rw [hdesc] at hd ⊢
    exact (C15.children_exact hb i c).2
      (Dag.Reach.tail ((C15.children_exact hb i d).1 hd) (edge_of_parent hk hdc))
  · intro i d hd
    rw [hdesc] at hd
    rw [hn]; exact ((C15.children_exact hb i d).1 hd).lt_right
  · intro i d hd
    rw [hdesc] at hd
    obtain ⟨c, he, _⟩ := Dag.reach_iff_last.1 ((C15.children_exact hb i d).1 hd)
    exact linked_of_edge he
  · intro i d hd
    rw [hdesc] at hd
    exact reachP_of_reach hn hpar hind ((C15.children_exact hb i d).1 hd)
  · intro i hi
    rw [hdesc] at hi
    exact hac i ((C15.children_exact hb i i).1 hi)

/-! ### non-vacuity: a diamond with a late root, values are integers, two "individuals" as pairs -/

private def toyG : Graph (Int × Int) :=
  { n := 5
    kind := fun i => if i = 0 ∨ i = 1 then .indep true else .linked
    parents := fun i => if i = 2 then [0, 1] else if i = 3 then [1] else if i = 4 then [2, 3] else []
    fn := fun i ps => match i, ps with
      | 2, [a, b] => (a.1 + 2 * b.1, a.2 + 2 * b.2)
      | 3, [b] => (b.1 * b.1, b.2 * b.2)
      | 4, [c, d] => (c.1 - d.1, c.2 - d.2)
      | _, _ => (0, 0)
    init := fun _ => none
    order := [0, 1, 2, 3, 4]
    desc := fun i => if i = 0 then [2, 4] else if i = 1 then [2, 3, 4] else if i = 2 then [4] else if i = 3 then [4] else []
    anc := fun i => if i = 2 then [0, 1] else if i = 3 then [1] else if i = 4 then [0, 1, 2, 3] else [] }

example : (State.get toyG (State.set toyG (State.set toyG (initial toyG true) 0 (some (1, 2))).1 1 (some (3, 4))).1 4).2
    = .ok (-2, -6) := by decide +kernel

end LeaspyVerif.C01
