/-
C07 — individuals are conditionally independent and order-equivariant.
Property theorems only (helper lemmas are private).  Models: `Model/Indep.lean`, `Model/Sampler.lean`.

Honest scope: the Lean part is list algebra over a model in which the batch *is* `List.map` of a
per-individual function — locality is then true by construction.  The substance of C07 — that the
batched tensor code of leaspy behaves like that map (bit-identically when other individuals change,
up to rounding when the batch is reduced to one individual), and that `joblib` process pools do not
change results — is a runtime fact covered only by the metamorphic runs of `harness/c07_indep.py`.
-/
import LeaspyVerif.Model.Indep
import LeaspyVerif.Model.Sampler
import LeaspyVerif.Props.C03
import Mathlib.Algebra.BigOperators.Group.List.Basic
import Mathlib.Data.Real.Basic

namespace LeaspyVerif.C07
open LeaspyVerif.Indep LeaspyVerif.Sampler

/-- Term locality: the term of individual `j` is the per-individual function of its own record. -/
theorem term_local {P I α : Type} (term : P → I → α) (pop : P) (cohort : List I) (j : Nat) :
    (terms term pop cohort)[j]? = (cohort[j]?).map (term pop) := by
  simp [terms]

/-- … hence replacing any *other* individual's record (data or latent values) leaves it unchanged. -/
theorem term_local_set {P I α : Type} (term : P → I → α) (pop : P) (cohort : List I) (j k : Nat) (x : I)
    (hjk : k ≠ j) : (terms term pop (cohort.set k x))[j]? = (terms term pop cohort)[j]? := by
  simp [terms, List.getElem?_set_ne hjk]

/-- … and evaluating the individual alone gives exactly its term in the batch (exact arithmetic). -/
theorem term_alone {P I α : Type} (term : P → I → α) (pop : P) (cohort : List I) (j : Nat) (x : I)
    (hj : cohort[j]? = some x) : (terms term pop cohort)[j]? = (terms term pop [x])[0]? := by
  simp [terms, hj]

/-- Re-indexing the cohort re-indexes the per-individual terms the same way. -/
theorem terms_permute {P I α : Type} (term : P → I → α) (pop : P) (cohort : List I) (p : List Nat) :
    terms term pop (permute p cohort) = permute p (terms term pop cohort) := by
  simp only [terms, permute, List.map_filterMap, List.getElem?_map]

/-- `map_perm`: a permutation of the individuals permutes the per-individual outputs. -/
theorem map_perm {P I α : Type} (term : P → I → α) (pop : P) (c₁ c₂ : List I) (h : c₁.Perm c₂) :
    (terms term pop c₁).Perm (terms term pop c₂) :=
  h.map _

private theorem total_eq_sum {α : Type} [AddCommMonoid α] (ts : List α) : total ts = ts.sum := by
  unfold total
  rw [List.sum_eq_foldl]

/-- `sum_perm`: in exact (commutative) arithmetic the population total does not depend on the
    order of the individuals. -/
theorem sum_perm {α : Type} [AddCommMonoid α] (t₁ t₂ : List α) (h : t₁.Perm t₂) : total t₁ = total t₂ := by
  rw [total_eq_sum, total_eq_sum]
  exact h.sum_eq

private theorem filterMap_range_getElem? {α : Type} (xs : List α) :
    (List.range xs.length).filterMap (xs[·]?) = xs := by
  induction xs using List.reverseRecOn with
  | nil => simp
  | append_singleton xs x ih =>
    rw [List.length_append, List.length_singleton, List.range_succ, List.filterMap_append]
    have h1 : (List.range xs.length).filterMap ((xs ++ [x])[·]?) = (List.range xs.length).filterMap (xs[·]?) := by
      apply List.filterMap_congr
      intro i hi
      rw [List.getElem?_append_left (List.mem_range.mp hi)]
    rw [h1, ih]
    simp

/-- Re-indexing by a permutation of `0 … n-1` is a permutation of the list … -/
theorem permute_perm {α : Type} (p : List Nat) (xs : List α) (hp : p.Perm (List.range xs.length)) :
    (permute p xs).Perm xs := by
  have := hp.filterMap (xs[·]?)
  rwa [filterMap_range_getElem?] at this

/-- … so the total of a re-indexed cohort is the total of the cohort. -/
theorem total_permute {P I : Type} {α : Type} [AddCommMonoid α] (term : P → I → α) (pop : P)
    (cohort : List I) (p : List Nat) (hp : p.Perm (List.range cohort.length)) :
    total (terms term pop (permute p cohort)) = total (terms term pop cohort) :=
  sum_perm _ _ (map_perm term pop _ _ (permute_perm p cohort hp))

/-- `total_eq_sum_terms`: the population total is the sum of the per-individual terms; adding an
    individual adds exactly its own term, concatenating two cohorts adds their totals. -/
theorem total_eq_sum_terms {P I : Type} {α : Type} [AddCommMonoid α] (term : P → I → α) (pop : P)
    (cohort cohort' : List I) (x : I) :
    total (terms term pop cohort) = ((cohort.map (term pop)).sum) ∧
    total (terms term pop (x :: cohort)) = term pop x + total (terms term pop cohort) ∧
    total (terms term pop (cohort ++ cohort')) = total (terms term pop cohort) + total (terms term pop cohort') := by
  simp only [total_eq_sum, terms]
  simp

/-- The summed individual regularity is, entry by entry, the sum of the per-variable terms. -/
theorem addTerms_get {α : Type} [Add α] (xs ys : List α) (j : Nat) (a b : α)
    (ha : xs[j]? = some a) (hb : ys[j]? = some b) : (addTerms xs ys)[j]? = some (a + b) := by
  simp [addTerms, List.getElem?_zipWith, ha, hb]

/-- `indStep_local`: in one step of the individual sampler, the new row and the decision of
    individual `j` are the same in two cohorts of equal size that agree on `j`'s own record
    (current row, std, ΔA/ΔR reader) and on the draws at `j`'s positions — whatever the other
    individuals' records and draws are. -/
theorem indStep_local {α β : Type} [Mul α] [Add α] [Add β] [Mul β] [Neg β] [LT β] [DecidableLT β]
    (exp : β → β) (tinv : β) (d : Nat) (inds inds' : List (Ind α β)) (zs zs' : List α) (us us' : List β)
    (r r' : IndOut α β)
    (h : indSample exp tinv d inds zs us = some r) (h' : indSample exp tinv d inds' zs' us' = some r')
    (j : Nat) (hj : j < inds.length) (hlen : inds'.length = inds.length)
    (hrec : inds'[j]? = inds[j]?)
    (hz : (zs'.drop (j * d)).take d = (zs.drop (j * d)).take d) (hu : us'[j]? = us[j]?) :
    r'.rows[j]? = r.rows[j]? := by
  have hj' : j < inds'.length := by omega
  obtain ⟨u, hu1, hr⟩ := C03.decision_local exp tinv d inds zs us r h j hj
  obtain ⟨u', hu1', hr'⟩ := C03.decision_local exp tinv d inds' zs' us' r' h' j hj'
  have hrec' : inds'[j] = inds[j] := by
    have := hrec
    rw [List.getElem?_eq_getElem hj', List.getElem?_eq_getElem hj] at this
    exact Option.some.inj this
  have huu : u' = u := by
    rw [hu, hu1] at hu1'
    exact (Option.some.inj hu1').symm
  rw [hr, hr', hrec', hz, huu]

/-! ### non-vacuity -/
example : terms (fun (p : ℚ) (x : ℚ × ℚ) => p * x.1 + x.2) 2 (permute [2, 0, 1] [(1, 0), (2, 0), (3, 1)])
    = permute [2, 0, 1] [2, 4, 7] := by decide +kernel

example : total (α := ℚ) [2, 4, 7] = 13 := by decide +kernel

end LeaspyVerif.C07
