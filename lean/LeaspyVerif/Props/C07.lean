/-
C07 — individuals are conditionally independent and order-equivariant.
Property theorems only (helper lemmas are private).  Models: `Model/Indep.lean`, `Model/Sampler.lean`.

Part 1 (list algebra): a model in which the batch *is* `List.map` of a per-individual function —
locality is true by construction there; it states what "per-individual" means and gives the
permutation / total / sampler-step lemmas.

Part 2 (recorded programs, `Model/Trace.lean`): the batched tensor code itself.  The harness records
the torch operations the real code executes for the individual-level quantities and sends them as a
program; `Trace.lower` classifies every operation (acts row by row on axis 0 / takes its batched
arguments whole) and `Trace.rowLocal` is the decidable dependence analysis.  The theorems below say
what `rowLocal p = true` guarantees for EVERY input of the recorded shape, every number of
individuals and every interpretation of the row operations (so also for float32 kernels that are
row-wise): alone = in batch, other individuals irrelevant, re-ordering equivariant.  The semantics
is not local by construction: operations that take arguments `whole` read all rows, and the
counterexamples at the end show locality failing for recorded programs the analysis rejects.
What stays outside Lean: that the recorded program is what the code does on other inputs (no
data-dependent control flow: escapes are flagged, programs of different cohorts are compared), that
`Trace.lowerOp` / `Trace.fnApply` are faithful to torch (checked by evaluating the lowered program in
Lean against the real tensors on every run), `joblib` process pools and float rounding of vectorised
reductions (metamorphic runs of `harness/c07_indep.py`).
-/
import LeaspyVerif.Model.Indep
import LeaspyVerif.Model.Sampler
import LeaspyVerif.Model.Trace
import LeaspyVerif.Lemmas.Trace
import LeaspyVerif.Props.C03
import Mathlib.Algebra.BigOperators.Group.List.Basic
import Mathlib.Data.Real.Basic

namespace LeaspyVerif.C07
open LeaspyVerif.Indep LeaspyVerif.Sampler LeaspyVerif.Trace

/-- Term locality: the term of individual `j` is the per-individual function of its own record. -/
theorem term_local {P I α : Type} (term : P → I → α) (pop : P) (cohort : List I) (j : Nat) :
    (terms term pop cohort)[j]? = (cohort[j]?).map (term pop) := by
  simp [terms]

/-- … hence replacing any *other* individual's record (data or latent values) leaves it unchanged. -/
theorem term_local_set {P I α : Type} (term : P → I → α) (pop : P) (cohort : List I) (j k : Nat) (x : I)
    (hjk : k ≠ j) : (terms term pop (cohort.set k x))[j]? = (terms term pop cohort)[j]? := by
  simp [terms, List.getElem?_set_ne hjk]

/-- … and evaluating the individual alone gives exactly its term in the batch (exact arithmetic). -/
theorem term_alone {P I α : Type} (term : P → I → α) (pop : P) (cohort : List I) (j : Nat) (x : I)
    (hj : cohort[j]? = some x) : (terms term pop cohort)[j]? = (terms term pop [x])[0]? := by
  simp [terms, hj]

/-- Re-indexing the cohort re-indexes the per-individual terms the same way. -/
theorem terms_permute {P I α : Type} (term : P → I → α) (pop : P) (cohort : List I) (p : List Nat) :
    terms term pop (permute p cohort) = permute p (terms term pop cohort) := by
  simp only [terms, permute, List.map_filterMap, List.getElem?_map]

/-- `map_perm`: a permutation of the individuals permutes the per-individual outputs. -/
theorem map_perm {P I α : Type} (term : P → I → α) (pop : P) (c₁ c₂ : List I) (h : c₁.Perm c₂) :
    (terms term pop c₁).Perm (terms term pop c₂) :=
  h.map _

private theorem total_eq_sum {α : Type} [AddCommMonoid α] (ts : List α) : total ts = ts.sum := by
  unfold total
  rw [List.sum_eq_foldl]

/-- `sum_perm`: in exact (commutative) arithmetic the population total does not depend on the
    order of the individuals. -/
theorem sum_perm {α : Type} [AddCommMonoid α] (t₁ t₂ : List α) (h : t₁.Perm t₂) : total t₁ = total t₂ := by
  rw [total_eq_sum, total_eq_sum]
  exact h.sum_eq

private theorem filterMap_range_getElem? {α : Type} (xs : List α) :
    (List.range xs.length).filterMap (xs[·]?) = xs := by
  induction xs using List.reverseRecOn with
  | nil => simp
  | append_singleton xs x ih =>
    rw [List.length_append, List.length_singleton, List.range_succ, List.filterMap_append]
    have h1 : (List.range xs.length).filterMap ((xs ++ [x])[·]?) = (List.range xs.length).filterMap (xs[·]?) := by
      apply List.filterMap_congr
      intro i hi
      rw [List.getElem?_append_left (List.mem_range.mp hi)]
    rw [h1, ih]
    simp

/-- Re-indexing by a permutation of `0 … n-1` is a permutation of the list … -/
theorem permute_perm {α : Type} (p : List Nat) (xs : List α) (hp : p.Perm (List.range xs.length)) :
    (permute p xs).Perm xs := by
  have := hp.filterMap (xs[·]?)
  rwa [filterMap_range_getElem?] at this

/-- … so the total of a re-indexed cohort is the total of the cohort. -/
theorem total_permute {P I : Type} {α : Type} [AddCommMonoid α] (term : P → I → α) (pop : P)
    (cohort : List I) (p : List Nat) (hp : p.Perm (List.range cohort.length)) :
    total (terms term pop (permute p cohort)) = total (terms term pop cohort) :=
  sum_perm _ _ (map_perm term pop _ _ (permute_perm p cohort hp))

/-- `total_eq_sum_terms`: the population total is the sum of the per-individual terms; adding an
    individual adds exactly its own term, concatenating two cohorts adds their totals. -/
theorem total_eq_sum_terms {P I : Type} {α : Type} [AddCommMonoid α] (term : P → I → α) (pop : P)
    (cohort cohort' : List I) (x : I) :
    total (terms term pop cohort) = ((cohort.map (term pop)).sum) ∧
    total (terms term pop (x :: cohort)) = term pop x + total (terms term pop cohort) ∧
    total (terms term pop (cohort ++ cohort')) = total (terms term pop cohort) + total (terms term pop cohort') := by
  simp only [total_eq_sum, terms]
  simp

/-- The summed individual regularity is, entry by entry, the sum of the per-variable terms. -/
theorem addTerms_get {α : Type} [Add α] (xs ys : List α) (j : Nat) (a b : α)
    (ha : xs[j]? = some a) (hb : ys[j]? = some b) : (addTerms xs ys)[j]? = some (a + b) := by
  simp [addTerms, List.getElem?_zipWith, ha, hb]

/-- `indStep_local`: in one step of the individual sampler, the new row and the decision of
    individual `j` are the same in two cohorts of equal size that agree on `j`'s own record
    (current row, std, ΔA/ΔR reader) and on the draws at `j`'s positions — whatever the other
    individuals' records and draws are. -/
theorem indStep_local {α β : Type} [Mul α] [Add α] [Add β] [Mul β] [Neg β] [LT β] [DecidableLT β]
    (exp : β → β) (tinv : β) (d : Nat) (inds inds' : List (Ind α β)) (zs zs' : List α) (us us' : List β)
    (r r' : IndOut α β)
    (h : indSample exp tinv d inds zs us = some r) (h' : indSample exp tinv d inds' zs' us' = some r')
    (j : Nat) (hj : j < inds.length) (hlen : inds'.length = inds.length)
    (hrec : inds'[j]? = inds[j]?)
    (hz : (zs'.drop (j * d)).take d = (zs.drop (j * d)).take d) (hu : us'[j]? = us[j]?) :
    r'.rows[j]? = r.rows[j]? := by
  have hj' : j < inds'.length := by omega
  obtain ⟨u, hu1, hr⟩ := C03.decision_local exp tinv d inds zs us r h j hj
  obtain ⟨u', hu1', hr'⟩ := C03.decision_local exp tinv d inds' zs' us' r' h' j hj'
  have hrec' : inds'[j] = inds[j] := by
    have := hrec
    rw [List.getElem?_eq_getElem hj', List.getElem?_eq_getElem hj] at this
    exact Option.some.inj this
  have huu : u' = u := by
    rw [hu, hu1] at hu1'
    exact (Option.some.inj hu1').symm
  rw [hr, hr', hrec', hz, huu]

/-! ### non-vacuity -/
example : terms (fun (p : ℚ) (x : ℚ × ℚ) => p * x.1 + x.2) 2 (permute [2, 0, 1] [(1, 0), (2, 0), (3, 1)])
    = permute [2, 0, 1] [2, 4, 7] := by decide +kernel

example : total (α := ℚ) [2, 4, 7] = 13 := by decide +kernel

/-! ## Part 2 — recorded programs -/

section Recorded
variable {φ ρ : Type}

private theorem outs_of_rowLocal {p : Prog φ} (h : rowLocal p = true) : outsLocal p = true := by
  unfold rowLocal at h
  exact (Bool.and_eq_true _ _ ▸ h).1

/-- `rowLocal_rel` — the general form: two evaluations of a row-local program, on any two batches (of any
    sizes `n`, `n'`) with the same population-level inputs, give output `o` the same row at positions
    `j` / `j'` as soon as the individual-level inputs have the same rows at `j` / `j'`. -/
theorem rowLocal_rel (S : Sem φ ρ) (p : Prog φ) (h : rowLocal p = true) (n n' j j' : Nat) (L L' : Inputs ρ)
    (hpop : ∀ k, L.pop k = L'.pop k) (hind : ∀ k, L.ind k j = L'.ind k j') (o : Nat) (ho : o ∈ p.outs) :
    outAt S n L p o j = outAt S n' L' p o j' :=
  outAt_eq_of_type S n n' j j' L L' hpop hind p o (outsLocal_type (outs_of_rowLocal h) ho)

/-- `rowLocal_sound` — alone = in batch: row `j` of every output is what the program gives on the batch that
    contains individual `j` only. -/
theorem rowLocal_sound (S : Sem φ ρ) (p : Prog φ) (h : rowLocal p = true) (n : Nat) (L : Inputs ρ) (j : Nat)
    (o : Nat) (ho : o ∈ p.outs) :
    outAt S n L p o j = outAt S 1 (L.restrictTo j) p o 0 :=
  rowLocal_rel S p h n 1 j 0 L (L.restrictTo j) (fun _ => rfl) (fun _ => rfl) o ho

/-- `perturb_others` — changing anything about the other individuals (their data, masks, latent values, draws)
    leaves row `j` of every output unchanged. -/
theorem perturb_others (S : Sem φ ρ) (p : Prog φ) (h : rowLocal p = true) (n : Nat) (L L' : Inputs ρ) (j : Nat)
    (hpop : ∀ k, L.pop k = L'.pop k) (hrow : ∀ k, L.ind k j = L'.ind k j) (o : Nat) (ho : o ∈ p.outs) :
    outAt S n L p o j = outAt S n L' p o j :=
  rowLocal_rel S p h n n j j L L' hpop hrow o ho

/-- `batch_size_irrelevant` — adding or removing other individuals (rows after `j` dropped, rows appended) does
    not change row `j`. -/
theorem batch_size_irrelevant (S : Sem φ ρ) (p : Prog φ) (h : rowLocal p = true) (n n' : Nat) (L : Inputs ρ)
    (j : Nat) (o : Nat) (ho : o ∈ p.outs) :
    outAt S n L p o j = outAt S n' L p o j :=
  rowLocal_rel S p h n n' j j L L (fun _ => rfl) (fun _ => rfl) o ho

/-- `perm_equivariant` — re-indexing the individuals re-indexes every output the same way (for a permutation
    `σ`: re-ordering the cohort permutes the per-individual outputs). -/
theorem perm_equivariant (S : Sem φ ρ) (p : Prog φ) (h : rowLocal p = true) (n : Nat) (L : Inputs ρ)
    (σ : Nat → Nat) (j : Nat) (o : Nat) (ho : o ∈ p.outs) :
    outAt S n (L.reindex σ) p o j = outAt S n L p o (σ j) :=
  rowLocal_rel S p h n n j (σ j) (L.reindex σ) L (fun _ => rfl) (fun _ => rfl) o ho

/-- … in list form: the rows of an output of the re-indexed batch are the re-indexed rows. -/
theorem perm_equivariant_rows (S : Sem φ ρ) (p : Prog φ) (h : rowLocal p = true) (n : Nat) (L : Inputs ρ)
    (σ : Nat → Nat) (o : Nat) (ho : o ∈ p.outs) :
    (List.range n).map (outAt S n (L.reindex σ) p o) = (List.range n).map (fun j => outAt S n L p o (σ j)) :=
  List.map_congr_left fun j _ => perm_equivariant S p h n L σ j o ho

private theorem lowerFrom_length {α : Type} (nodes : List (TNode α)) :
    ∀ (infos : List Info) (acc : List (Node (Fn α))),
      (lowerFrom nodes infos acc).1.length = acc.length + nodes.length ∧
      (lowerFrom nodes infos acc).2.length = infos.length + nodes.length := by
  induction nodes with
  | nil => intro infos acc; simp [lowerFrom]
  | cons nd rest ih =>
    intro infos acc
    simp only [lowerFrom]
    obtain ⟨h1, h2⟩ := ih (infos ++ [(lowerNode infos nd).2]) (acc ++ [(lowerNode infos nd).1])
    constructor
    · rw [h1]; simp; omega
    · rw [h2]; simp; omega

/-- The lowering keeps one node per recorded operation (node ids of the report are the tracer's). -/
theorem lower_length {α : Type} (nodes : List (TNode α)) (outs : List Nat) :
    (lower nodes outs).nodes.length = nodes.length := by
  simpa [lower] using (lowerFrom_length nodes [] []).1

end Recorded

/-! ### non-vacuity and counterexamples (recorded IR → `lower` → dense rational tensors) -/

/-- a masked squared error, as recorded: `(mask * (y - mu)^2).sum(dim=1)` with `y`, `mask` of shape `(n, 3)`
    (individual-level) and `mu` of shape `(3,)` (population-level) -/
def exMasked : List (TNode Rat) :=
  [.ind 0 [2, 3], .ind 1 [2, 3], .pop 0 [3],
   .op (.ew .sub) [0, 2] [2, 3], .op (.ew .mul) [3, 3] [2, 3], .op (.ew .mul) [1, 4] [2, 3],
   .op (.red .sum [-1] false) [5] [2]]

/-- centring by the batch: `x - x.sum(dim=0, keepdim=True)` -/
def exCentre : List (TNode Rat) :=
  [.ind 0 [2, 2], .op (.red .sum [0] true) [0] [1, 2], .op (.ew .sub) [0, 1] [2, 2]]

/-- a per-individual scalar `w` of shape `(n,)` multiplied into `x` of shape `(n, 2)`: torch aligns `w` with
    the LAST axis of `x`, so row `i` of the product uses the scalars of all individuals -/
def exMisaligned : List (TNode Rat) :=
  [.ind 0 [2, 2], .ind 1 [2], .op (.ew .mul) [0, 1] [2, 2]]

def t22 (a b c d : Rat) : Tn Rat := ⟨[2, 2], #[a, b, c, d]⟩

/-- the analysis accepts the masked squared error … -/
theorem exMasked_rowLocal : rowLocal (lower exMasked [6]) = true := by decide +kernel

/-- … whose value is what it should be: individual 0 has `(1-1)² + (3-2)² + masked = 1`, individual 1 has
    `0 + (0-2)² + (6-3)² = 13`; and individual 1 alone gives 13 as well (instance of `rowLocal_sound`). -/
theorem exMasked_value :
    let L := inputsOf [⟨[3], #[1, 2, 3]⟩] [⟨[2, 3], #[1, 3, 9, 1, 0, 6]⟩, ⟨[2, 3], #[1, 1, 0, 0, 1, 1]⟩] []
    (List.range 2).map (outAt (tensorSem ratOps) 2 L (lower exMasked [6]) 6) = [some ⟨[], #[1]⟩, some ⟨[], #[13]⟩] ∧
    outAt (tensorSem ratOps) 1 (L.restrictTo 1) (lower exMasked [6]) 6 0 = some ⟨[], #[13]⟩ := by
  decide +kernel

/-- Batch centring is rejected, and rightly so: two batches that agree on individual 0 give it different rows. -/
theorem axis0_sum_counterexample :
    let p := lower exCentre [2]
    let A := inputsOf [] [t22 1 2 3 4] []
    let B := inputsOf [] [t22 1 2 5 6] []
    rowLocal p = false ∧ A.ind 0 0 = B.ind 0 0 ∧
    outAt (tensorSem ratOps) 2 A p 2 0 = some ⟨[2], #[-3, -4]⟩ ∧
    outAt (tensorSem ratOps) 2 B p 2 0 = some ⟨[2], #[-5, -6]⟩ := by
  decide +kernel

/-- … and the individual alone does not get its in-batch row either. -/
theorem axis0_sum_alone_counterexample :
    let p := lower exCentre [2]
    let A := inputsOf [] [t22 1 2 3 4] []
    outAt (tensorSem ratOps) 2 A p 2 0 ≠ outAt (tensorSem ratOps) 1 (A.restrictTo 0) p 2 0 := by
  decide +kernel

/-- A rank-1 individual-level operand broadcast against a rank-2 one is rejected: the row of individual 0
    changes with the scalar of individual 1.  (The lowered value is unbatched — the whole `(2, 2)` tensor —
    so its row 0 is taken with `rowOf`.) -/
theorem misaligned_broadcast_counterexample :
    let p := lower exMisaligned [2]
    let A := inputsOf [] [t22 1 1 1 1, ⟨[2], #[2, 3]⟩] []
    let B := inputsOf [] [t22 1 1 1 1, ⟨[2], #[2, 7]⟩] []
    rowLocal p = false ∧ A.ind 0 0 = B.ind 0 0 ∧ A.ind 1 0 = B.ind 1 0 ∧
    (outAt (tensorSem ratOps) 2 A p 2 0).map (rowOf · 0) = some ⟨[2], #[2, 3]⟩ ∧
    (outAt (tensorSem ratOps) 2 B p 2 0).map (rowOf · 0) = some ⟨[2], #[2, 7]⟩ := by
  decide +kernel

/-- the per-individual adaptation of the proposal std, as recorded from `_update_std` (history × individuals input with the
    individuals on axis 1, boolean-mask read-modify-write): `std[hist.mean(dim=0) < 1/4] *= 9/10` -/
def exAdapt : List (TNode Rat) :=
  [.ind 0 [3], .ind1 1 [2, 3], .op (.red .mean [0] false) [1] [3], .op (.const ⟨[], #[1/4]⟩) [] [],
   .op (.ew .lt) [2, 3] [3], .op .mselect [0, 4] [2], .op (.const ⟨[], #[9/10]⟩) [] [],
   .op (.ew .mul) [5, 6] [2], .op .mscatter [0, 4, 7] [3]]

/-- clamping every std to the cohort median: `torch.minimum(std, std.median())` -/
def exMedianClamp : List (TNode Rat) :=
  [.ind 0 [3], .op (.red .median [] false) [0] [], .op (.ew .minimum) [0, 1] [3]]

/-- The recorded adaptation is accepted (mask select / scatter with an individual-level mask of the same leading axis and the
    mean over the history axis are row-wise) … -/
theorem exAdapt_rowLocal : rowLocal (lower exAdapt [8]) = true := by decide +kernel

/-- … and computes what `_update_std` does: individuals 0 and 2 (mean acceptance 0) are scaled by 9/10, individual 1
    (mean acceptance 1/2) keeps its std. -/
theorem exAdapt_value :
    let L := inputsOfAx ratOps [] [(⟨[3], #[1, 2, 4]⟩, 0), (⟨[2, 3], #[0, 1, 0, 0, 0, 0]⟩, 1)] []
    (List.range 3).map (outAt (tensorSem ratOps) 3 L (lower exAdapt [8]) 8) =
      [some ⟨[], #[9/10]⟩, some ⟨[], #[2]⟩, some ⟨[], #[18/5]⟩] := by
  decide +kernel

/-- A cohort-relative safeguard is rejected, and rightly so: the std of individual 2 after the clamp changes with the std of
    individual 1. -/
theorem cohort_median_clamp_counterexample :
    let p := lower exMedianClamp [2]
    let A := inputsOf [] [⟨[3], #[1, 2, 9]⟩] []
    let B := inputsOf [] [⟨[3], #[1, 5, 9]⟩] []
    rowLocal p = false ∧ A.ind 0 2 = B.ind 0 2 ∧
    outAt (tensorSem ratOps) 3 A p 2 2 = some ⟨[], #[2]⟩ ∧
    outAt (tensorSem ratOps) 3 B p 2 2 = some ⟨[], #[5]⟩ := by
  decide +kernel

end LeaspyVerif.C07
