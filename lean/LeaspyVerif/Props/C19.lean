/-
C19 — temperature and proposal-scale schedules stay within their documented envelopes.
Property theorems only (helper lemmas are private).  Models: `Model/Anneal.lean`, `Model/StdAdapt.lean`,
`Model/FitLoop.lean` (Part 3: how the fit / personalisation loops compose the schedules; reuses `Model/Saem.lean`).

All theorems are over an arbitrary ordered field `α` (so they hold for `ℚ` and `ℝ`): exact arithmetic.
Floating-point rounding is not modelled (the driver runs the same definitions on IEEE numbers and the
harness compares them bit for bit with the python objects).
-/
import LeaspyVerif.Model.Anneal
import LeaspyVerif.Model.StdAdapt
import LeaspyVerif.Model.FitLoop
import Mathlib.Algebra.Order.Field.Basic
import Mathlib.Tactic.Ring
import Mathlib.Tactic.Linarith
import Mathlib.Tactic.FieldSimp
import Mathlib.Tactic.Positivity

namespace LeaspyVerif.C19
open LeaspyVerif.Anneal LeaspyVerif.StdAdapt

set_option linter.unusedSectionVars false
set_option linter.unusedVariables false
variable {α : Type} [Field α] [LinearOrder α] [IsStrictOrderedRing α]

deriving instance DecidableEq for Except

/-! ## Part 1 — temperature -/

/-- One `_update_temperature` on natural numbers (accepted schedule: period `q > 0`). -/
private def stepT (clamp : Bool) (N q P' : Nat) (d : α) (k : Nat) (t : α) : α :=
  if k ≤ N ∧ k % q = 0 then
    if clamp && decide (P' ≤ k / q) then 1 else (if t - d < 1 then 1 else t - d)
  else t

private def Tn (clamp : Bool) (N q P' : Nat) (d t0 : α) : Nat → α
  | 0 => t0
  | k + 1 => stepT clamp N q P' d (k + 1) (Tn clamp N q P' d t0 k)

private theorem update_nat (c : Config α) (clamp : Bool) (k N q P' : Nat) (d : α) (s : St α)
    (hN : c.nAnneal = N) (hP : c.nPlateau = (P' : Int) + 1) (hs : s.sched = some ((q : Int), d))
    (hq : 0 < q) :
    update c clamp k s = .ok { s with temp := stepT clamp N q P' d k s.temp } := by
  have hq' : ¬ ((q : Int) = 0) := by omega
  have e1 : ((k : Int) ≤ (N : Int)) ↔ k ≤ N := by omega
  have e2 : ((k : Int) % (q : Int) = 0) ↔ k % q = 0 := by
    constructor
    · intro h; exact_mod_cast h
    · intro h; exact_mod_cast h
  have e3 : ((P' : Int) + 1 - 1 ≤ (k : Int) / (q : Int)) ↔ P' ≤ k / q := by
    have : ((k / q : Nat) : Int) = (k : Int) / (q : Int) := by push_cast; rfl
    rw [← this]; omega
  obtain ⟨t, sc⟩ := s
  simp only at hs
  subst hs
  unfold update stepT
  simp only [hN, hP, e1, hq', e2, e3, if_false]
  by_cases h1 : k ≤ N
  · by_cases h2 : k % q = 0
    · simp [h1, h2]
    · simp [h1, h2]
  · simp [h1]

private theorem iter_nat (c : Config α) (clamp : Bool) (N q P' : Nat) (d t0 : α)
    (hN : c.nAnneal = N) (hP : c.nPlateau = (P' : Int) + 1) (hq : 0 < q) (k : Nat) :
    iter c clamp ⟨t0, some ((q : Int), d)⟩ k = .ok ⟨Tn clamp N q P' d t0 k, some ((q : Int), d)⟩ := by
  induction k with
  | zero => rfl
  | succ k ih =>
    simp only [iter, ih, Tn, bind, Except.bind]
    rw [update_nat c clamp (k + 1) N q P' d _ hN hP rfl hq]

private theorem iter_none (c : Config α) (clamp : Bool) (t : α) (k : Nat) :
    iter c clamp ⟨t, none⟩ k = .ok ⟨t, none⟩ := by
  induction k with
  | zero => rfl
  | succ k ih => simp only [iter, ih, bind, Except.bind]; rfl

/-- What an accepted configuration looks like (read off `init`). -/
private theorem init_cases (c : Config α) (s0 : St α) (h : init c = .ok s0) :
    (c.on = false ∧ s0 = ⟨1, none⟩) ∨
    (c.on = true ∧ 1 ≤ c.t0 ∧ c.nPlateau = 1 ∧ s0 = ⟨c.t0, none⟩) ∨
    (c.on = true ∧ 1 ≤ c.t0 ∧ ∃ N q P' : Nat, ∃ d : α,
        c.nAnneal = N ∧ c.nPlateau = (P' : Int) + 1 ∧ 1 ≤ P' ∧ q = N / P' ∧ 0 < q ∧ 0 < d ∧
        (P' : α) * d = c.t0 - 1 ∧ s0 = ⟨c.t0, some ((q : Int), d)⟩) := by
  unfold init at h
  by_cases hon : c.on = true
  · right
    rw [if_neg (by simp [hon])] at h
    by_cases ht : c.t0 < 1
    · rw [if_pos ht] at h; cases h
    · rw [if_neg ht] at h
      have ht' : 1 ≤ c.t0 := not_lt.mp ht
      by_cases hp0 : c.nPlateau ≤ 0
      · rw [if_pos hp0] at h; cases h
      · rw [if_neg hp0] at h
        by_cases hp1 : c.nPlateau = 1
        · left
          rw [if_pos hp1] at h
          injection h with h
          exact ⟨hon, ht', hp1, h.symm⟩
        · right
          rw [if_neg hp1] at h
          by_cases hper : c.nAnneal / (c.nPlateau - 1) ≤ 0
          · rw [if_pos hper] at h; cases h
          · rw [if_neg hper] at h
            by_cases hdec : (c.t0 - 1) / (((c.nPlateau - 1).toNat : Nat) : α) ≤ 0
            · rw [if_pos hdec] at h; cases h
            · rw [if_neg hdec] at h
              injection h with h
              -- natural-number view
              obtain ⟨P', hP'⟩ : ∃ P' : Nat, c.nPlateau = (P' : Int) + 1 := ⟨(c.nPlateau - 1).toNat, by omega⟩
              have hP1 : 1 ≤ P' := by omega
              have hpos : 0 < c.nAnneal / (c.nPlateau - 1) := by omega
              have hNpos : 0 ≤ c.nAnneal := by
                by_contra hneg
                have hneg' : c.nAnneal < 0 := by omega
                have : c.nAnneal / (c.nPlateau - 1) < 0 := Int.ediv_neg_of_neg_of_pos hneg' (by omega)
                omega
              obtain ⟨N, hN⟩ : ∃ N : Nat, c.nAnneal = N := ⟨c.nAnneal.toNat, by omega⟩
              have hsub : c.nPlateau - 1 = (P' : Int) := by omega
              have htoNat : (c.nPlateau - 1).toNat = P' := by omega
              have hperiod : c.nAnneal / (c.nPlateau - 1) = ((N / P' : Nat) : Int) := by
                rw [hN, hsub]; push_cast; rfl
              have hq0 : 0 < N / P' := by
                rw [hperiod] at hpos; exact_mod_cast hpos
              have hP'pos : (0 : α) < (P' : α) := by exact_mod_cast hP1
              refine ⟨hon, ht', N, N / P', P', (c.t0 - 1) / (P' : α), hN, hP', hP1, rfl, hq0, ?_, ?_, ?_⟩
              · rw [htoNat] at hdec; exact not_le.mp hdec
              · field_simp
              · rw [← h, hperiod, htoNat]
  · left
    have hoff : c.on = false := by simpa using hon
    rw [if_pos (by simp [hoff])] at h
    injection h with h
    exact ⟨hoff, h.symm⟩

/-- facts about the pure recursion, under the hypotheses `init` guarantees -/
private theorem Tn_ge_one (clamp : Bool) (N q P' : Nat) (d t0 : α) (ht0 : 1 ≤ t0) (k : Nat) :
    1 ≤ Tn clamp N q P' d t0 k := by
  induction k with
  | zero => exact ht0
  | succ k ih =>
    simp only [Tn, stepT]
    split
    · split
      · exact le_refl 1
      · split
        · exact le_refl 1
        · rename_i h; exact not_lt.mp h
    · exact ih

private theorem stepT_le (clamp : Bool) (N q P' : Nat) (d t : α) (hd : 0 < d) (ht : 1 ≤ t) (k : Nat) :
    stepT clamp N q P' d k t ≤ t := by
  simp only [stepT]
  split
  · split
    · exact ht
    · split
      · exact ht
      · linarith
  · exact le_refl t

private theorem stepT_ne (clamp : Bool) (N q P' : Nat) (d t : α) (k : Nat)
    (h : stepT clamp N q P' d k t ≠ t) : k ≤ N ∧ k % q = 0 := by
  by_contra hc
  apply h
  simp only [stepT, hc, if_false]

/-- closed form of the schedule as a function of the number `j` of plateau boundaries crossed -/
private def closed (P' : Nat) (d t0 : α) (j : Nat) : α := if P' ≤ j then 1 else t0 - (j : α) * d

private theorem Tn_closed (clamp : Bool) (N q P' : Nat) (d t0 : α) (hq : 0 < q) (hd : 0 < d)
    (hPd : (P' : α) * d = t0 - 1) (k : Nat) :
    Tn clamp N q P' d t0 k = closed P' d t0 (min k N / q) := by
  induction k with
  | zero =>
    simp only [Tn, closed, Nat.zero_min, Nat.zero_div]
    split
    · rename_i h
      have : P' = 0 := by omega
      subst this
      simp at hPd; linarith
    · simp
  | succ k ih =>
    simp only [Tn, stepT, ih]
    by_cases hev : k + 1 ≤ N ∧ (k + 1) % q = 0
    · obtain ⟨h1, h2⟩ := hev
      have hmin1 : min (k + 1) N = k + 1 := by omega
      have hmin0 : min k N = k := by omega
      have hdiv : (k + 1) / q = k / q + 1 := by
        rw [Nat.succ_div]; simp [Nat.dvd_of_mod_eq_zero h2]
      simp only [h1, h2, and_self, if_true, hmin1, hmin0, hdiv]
      -- j = k / q boundaries before, j + 1 now
      generalize k / q = j
      unfold closed
      by_cases hj1 : P' ≤ j + 1
      · -- reaches (or is already on) the last plateau
        have : closed P' d t0 (j + 1) = 1 := by simp [closed, hj1]
        simp only [hj1, if_true]
        by_cases hj : P' ≤ j
        · simp only [hj, if_true]
          have : (1 : α) - d < 1 := by linarith
          simp [this]
        · have hje : j + 1 = P' := by omega
          simp only [hj, if_false]
          have : t0 - (j : α) * d - d = 1 := by
            have : ((j : α) + 1) * d = t0 - 1 := by
              rw [← hPd, ← hje]; push_cast; ring
            linarith
          rw [this]; simp
      · have hj : ¬ P' ≤ j := by omega
        simp only [hj1, hj, if_false, decide_false, Bool.and_false]
        have hlt : ((j : α) + 1) < (P' : α) := by exact_mod_cast (by omega : j + 1 < P')
        have : ¬ (t0 - (j : α) * d - d < 1) := by
          have : ((j : α) + 1) * d < (P' : α) * d := mul_lt_mul_of_pos_right hlt hd
          rw [hPd] at this
          intro hc; linarith
        simp only [this, if_false, Bool.false_eq_true]
        push_cast; ring
    · simp only [hev, if_false]
      congr 1
      by_cases h1 : k + 1 ≤ N
      · have h2 : ¬ (k + 1) % q = 0 := fun h => hev ⟨h1, h⟩
        have hmin1 : min (k + 1) N = k + 1 := by omega
        have hmin0 : min k N = k := by omega
        rw [hmin1, hmin0, Nat.succ_div]
        have : ¬ q ∣ k + 1 := fun h => h2 (Nat.mod_eq_zero_of_dvd h)
        simp [this]
      · have hmin1 : min (k + 1) N = N := by omega
        have hmin0 : min k N = N := by omega
        rw [hmin1, hmin0]

/-- **No division by zero**: every configuration accepted by the constructor and
    `_initialize_annealing` runs through all its iterations — `_update_temperature` never raises,
    whatever the number of iterations. -/
theorem accepted_runs_to_completion (c : Config α) (clamp : Bool) (s0 : St α)
    (h0 : init c = .ok s0) (k : Nat) : ∃ s, iter c clamp s0 k = .ok s := by
  rcases init_cases c s0 h0 with ⟨_, rfl⟩ | ⟨_, _, _, rfl⟩ | ⟨_, _, N, q, P', d, hN, hP, _, _, hq, _, _, rfl⟩
  · exact ⟨_, iter_none c clamp 1 k⟩
  · exact ⟨_, iter_none c clamp c.t0 k⟩
  · exact ⟨_, iter_nat c clamp N q P' d c.t0 hN hP hq k⟩

/-- The driver's `run` is the list of the temperatures of `iter`: it succeeds for every accepted
    configuration, has one entry per iteration plus the initial one, and entry `k` is the temperature
    after iteration `k`. -/
theorem run_spec (c : Config α) (clamp : Bool) (s0 : St α) (h0 : init c = .ok s0) (n : Nat) :
    ∃ l, Anneal.run c clamp n = .ok l ∧ l.length = n + 1 ∧
      ∀ k, k ≤ n → ∃ s, iter c clamp s0 k = .ok s ∧ l[k]? = some s.temp := by
  have key : ∀ (n k : Nat) (s : St α), iter c clamp s0 k = .ok s →
      ∃ l, Anneal.trace c clamp k n s = .ok l ∧ l.length = n ∧
        ∀ i, i < n → ∃ s', iter c clamp s0 (k + 1 + i) = .ok s' ∧ l[i]? = some s'.temp := by
    intro n
    induction n with
    | zero => intro k s _; exact ⟨[], rfl, rfl, fun i hi => absurd hi (Nat.not_lt_zero i)⟩
    | succ n ih =>
      intro k s hk
      obtain ⟨s', hs'⟩ := accepted_runs_to_completion c clamp s0 h0 (k + 1)
      have hstep : update c clamp (k + 1) s = .ok s' := by
        have : iter c clamp s0 (k + 1) = update c clamp (k + 1) s := by
          simp only [iter, hk]; rfl
        rw [← this]; exact hs'
      obtain ⟨l, hl, hlen, hget⟩ := ih (k + 1) s' hs'
      refine ⟨s'.temp :: l, ?_, by simp [hlen], ?_⟩
      · simp only [Anneal.trace, hstep, hl]
      · intro i hi
        cases i with
        | zero => exact ⟨s', by simpa using hs', by simp⟩
        | succ i =>
          obtain ⟨s'', h1, h2⟩ := hget i (by omega)
          refine ⟨s'', ?_, by simpa using h2⟩
          have : k + 1 + (i + 1) = k + 1 + 1 + i := by omega
          rw [this]; exact h1
  obtain ⟨l, hl, hlen, hget⟩ := key n 0 s0 rfl
  refine ⟨s0.temp :: l, ?_, by simp [hlen], ?_⟩
  · simp only [Anneal.run, h0, hl]
  · intro k hk
    cases k with
    | zero => exact ⟨s0, rfl, by simp⟩
    | succ k =>
      obtain ⟨s', h1, h2⟩ := hget k (by omega)
      refine ⟨s', ?_, by simpa using h2⟩
      have : 0 + 1 + k = k + 1 := by omega
      rw [← this]; exact h1

/-- The temperature starts at the configured initial value. -/
theorem temp_start (c : Config α) (clamp : Bool) (s0 : St α) (h0 : init c = .ok s0)
    (hon : c.on = true) : ∃ s, iter c clamp s0 0 = .ok s ∧ s.temp = c.t0 := by
  rcases init_cases c s0 h0 with ⟨hoff, _⟩ | ⟨_, _, _, rfl⟩ | ⟨_, _, _, _, _, _, _, _, _, _, _, _, _, rfl⟩
  · rw [hon] at hoff; cases hoff
  · exact ⟨_, rfl, rfl⟩
  · exact ⟨_, rfl, rfl⟩

/-- The temperature never goes below 1 (so `temperature_inv = 1 / temperature ∈ (0, 1]`). -/
theorem temp_ge_one (c : Config α) (clamp : Bool) (s0 s : St α) (h0 : init c = .ok s0) (k : Nat)
    (hk : iter c clamp s0 k = .ok s) : 1 ≤ s.temp := by
  rcases init_cases c s0 h0 with ⟨_, rfl⟩ | ⟨_, ht, _, rfl⟩ | ⟨_, ht, N, q, P', d, hN, hP, _, _, hq, _, _, rfl⟩
  · rw [iter_none] at hk; injection hk with hk; subst hk; exact le_refl 1
  · rw [iter_none] at hk; injection hk with hk; subst hk; exact ht
  · rw [iter_nat c clamp N q P' d c.t0 hN hP hq] at hk
    injection hk with hk; subst hk
    exact Tn_ge_one clamp N q P' d c.t0 ht k

/-- The temperature never increases. -/
theorem temp_antitone (c : Config α) (clamp : Bool) (s0 s s' : St α) (h0 : init c = .ok s0) (k : Nat)
    (hk : iter c clamp s0 k = .ok s) (hk' : iter c clamp s0 (k + 1) = .ok s') : s'.temp ≤ s.temp := by
  rcases init_cases c s0 h0 with ⟨_, rfl⟩ | ⟨_, ht, _, rfl⟩ | ⟨_, ht, N, q, P', d, hN, hP, _, _, hq, hd, _, rfl⟩
  · rw [iter_none] at hk hk'; injection hk with hk; injection hk' with hk'; subst hk hk'; exact le_refl _
  · rw [iter_none] at hk hk'; injection hk with hk; injection hk' with hk'; subst hk hk'; exact le_refl _
  · rw [iter_nat c clamp N q P' d c.t0 hN hP hq] at hk hk'
    injection hk with hk; injection hk' with hk'; subst hk hk'
    exact stepT_le clamp N q P' d _ hd (Tn_ge_one clamp N q P' d c.t0 ht k) (k + 1)

/-- Antitone over any distance (consequence of the one-step statement). -/
theorem temp_antitone_le (c : Config α) (clamp : Bool) (s0 s s' : St α) (h0 : init c = .ok s0)
    (k m : Nat) (hkm : k ≤ m) (hk : iter c clamp s0 k = .ok s) (hm : iter c clamp s0 m = .ok s') :
    s'.temp ≤ s.temp := by
  induction m generalizing s' with
  | zero =>
    have : k = 0 := by omega
    subst this; rw [hk] at hm; injection hm with hm; subst hm; exact le_refl _
  | succ m ih =>
    by_cases hkm' : k = m + 1
    · subst hkm'; rw [hk] at hm; injection hm with hm; subst hm; exact le_refl _
    · obtain ⟨sm, hsm⟩ := accepted_runs_to_completion c clamp s0 h0 m
      exact le_trans (temp_antitone c clamp s0 sm s' h0 m hsm hm) (ih sm (by omega) hsm)

/-- The temperature changes only at plateau boundaries: at an iteration which is a multiple of the
    plateau length (`_annealing_period`) and lies within the annealing iterations. -/
theorem temp_changes_only_at_multiples (c : Config α) (clamp : Bool) (s0 s s' : St α)
    (h0 : init c = .ok s0) (k : Nat)
    (hk : iter c clamp s0 k = .ok s) (hk' : iter c clamp s0 (k + 1) = .ok s')
    (hne : s'.temp ≠ s.temp) :
    ∃ (period : Int) (d : α), s0.sched = some (period, d) ∧ 0 < period ∧
      ((k + 1 : Nat) : Int) % period = 0 ∧ ((k + 1 : Nat) : Int) ≤ c.nAnneal := by
  rcases init_cases c s0 h0 with ⟨_, rfl⟩ | ⟨_, ht, _, rfl⟩ | ⟨_, ht, N, q, P', d, hN, hP, _, _, hq, hd, _, rfl⟩
  · rw [iter_none] at hk hk'; injection hk with hk; injection hk' with hk'; subst hk hk'; exact absurd rfl hne
  · rw [iter_none] at hk hk'; injection hk with hk; injection hk' with hk'; subst hk hk'; exact absurd rfl hne
  · rw [iter_nat c clamp N q P' d c.t0 hN hP hq] at hk hk'
    injection hk with hk; injection hk' with hk'; subst hk hk'
    obtain ⟨h1, h2⟩ := stepT_ne clamp N q P' d _ (k + 1) hne
    refine ⟨q, d, rfl, by exact_mod_cast hq, by exact_mod_cast h2, ?_⟩
    rw [hN]; exact_mod_cast h1

/-- Closed form of the whole schedule (true annealing scheme, `n_plateau ≥ 2`): after iteration `k`,
    with `j = ⌊min(k, n_a) / period⌋` plateau boundaries crossed, the temperature is
    `T0 − j·(T0−1)/(n_plateau−1)` while `j < n_plateau − 1`, and exactly 1 afterwards.
    Holds with and without the last-plateau clamp of fix F5a: in exact arithmetic the clamp is a no-op. -/
theorem temp_closed_form (c : Config α) (clamp : Bool) (s0 s : St α) (h0 : init c = .ok s0)
    (hon : c.on = true) (hP : 2 ≤ c.nPlateau) (k : Nat) (hk : iter c clamp s0 k = .ok s) :
    let P' := (c.nPlateau - 1).toNat
    let N := c.nAnneal.toNat
    let j := min k N / (N / P')
    s.temp = if P' ≤ j then 1 else c.t0 - (j : α) * ((c.t0 - 1) / (P' : α)) := by
  rcases init_cases c s0 h0 with ⟨hoff, _⟩ | ⟨_, _, hp1, _⟩ | ⟨_, ht, N, q, P', d, hN, hP', hP1, hqdef, hq, hd, hPd, rfl⟩
  · rw [hon] at hoff; cases hoff
  · omega
  · rw [iter_nat c clamp N q P' d c.t0 hN hP' hq] at hk
    injection hk with hk; subst hk
    have e1 : (c.nPlateau - 1).toNat = P' := by omega
    have e2 : c.nAnneal.toNat = N := by omega
    have hP'pos : (0 : α) < (P' : α) := by exact_mod_cast hP1
    have hdval : d = (c.t0 - 1) / (P' : α) := by
      field_simp; linarith
    simp only [e1, e2]
    rw [Tn_closed clamp N q P' d c.t0 hq hd hPd k, ← hqdef, ← hdval]
    rfl

/-- The repair F5a changes nothing in exact arithmetic: the schedule with the last-plateau clamp
    equals the schedule of the snapshot code at every iteration. -/
theorem clamp_is_noop_in_exact_arithmetic (c : Config α) (s0 s s' : St α) (h0 : init c = .ok s0)
    (k : Nat) (hk : iter c true s0 k = .ok s) (hk' : iter c false s0 k = .ok s') : s.temp = s'.temp := by
  rcases init_cases c s0 h0 with ⟨_, rfl⟩ | ⟨_, ht, _, rfl⟩ | ⟨_, ht, N, q, P', d, hN, hP, _, _, hq, hd, hPd, rfl⟩
  · rw [iter_none] at hk hk'; injection hk with hk; injection hk' with hk'; subst hk hk'; rfl
  · rw [iter_none] at hk hk'; injection hk with hk; injection hk' with hk'; subst hk hk'; rfl
  · rw [iter_nat c _ N q P' d c.t0 hN hP hq] at hk hk'
    injection hk with hk; injection hk' with hk'; subst hk hk'
    show Tn true N q P' d c.t0 k = Tn false N q P' d c.t0 k
    rw [Tn_closed true N q P' d c.t0 hq hd hPd k, Tn_closed false N q P' d c.t0 hq hd hPd k]

/-
Full-strength statement of the "exactly 1" clause:

    temp_one_after : ∀ (c) (clamp) (s0 s), init c = .ok s0 → c.on = true →
        ∀ (k : Nat), iter c clamp s0 k = .ok s → c.nAnneal ≤ k → s.temp = 1

It is false of the code for `n_plateau = 1` (finding F5b: upstream keeps `T0` for ever and only
warns), see `temp_one_after_counterexample`.  Proved under the exact guard `2 ≤ n_plateau`
(equivalently: outside the region of F5b); nothing else is missing.
-/

/-- Once the annealing iterations are over the temperature is exactly 1 (`n_plateau ≥ 2`),
    with or without the clamp of fix F5a (exact arithmetic). -/
theorem temp_one_after_partial (c : Config α) (clamp : Bool) (s0 s : St α) (h0 : init c = .ok s0)
    (hon : c.on = true) (hP : 2 ≤ c.nPlateau) (k : Nat) (hk : iter c clamp s0 k = .ok s)
    (hover : c.nAnneal ≤ (k : Int)) : s.temp = 1 := by
  rcases init_cases c s0 h0 with ⟨hoff, _⟩ | ⟨_, _, hp1, _⟩ | ⟨_, ht, N, q, P', d, hN, hP', hP1, hqdef, hq, hd, hPd, rfl⟩
  · rw [hon] at hoff; cases hoff
  · omega
  · rw [iter_nat c clamp N q P' d c.t0 hN hP' hq] at hk
    injection hk with hk; subst hk
    rw [Tn_closed clamp N q P' d c.t0 hq hd hPd k]
    have hNk : N ≤ k := by rw [hN] at hover; exact_mod_cast hover
    have hmin : min k N = N := by omega
    have hle : P' ≤ N / q := by
      rw [Nat.le_div_iff_mul_le hq, hqdef]
      exact Nat.mul_div_le N P'
    simp [closed, hmin, hle]

/-- … and it stays exactly 1 from the last plateau boundary on, which may come before the end of the
    annealing iterations: as soon as `n_plateau − 1` boundaries have been crossed. -/
theorem temp_one_from_last_boundary (c : Config α) (clamp : Bool) (s0 s : St α) (h0 : init c = .ok s0)
    (hon : c.on = true) (hP : 2 ≤ c.nPlateau) (k : Nat) (hk : iter c clamp s0 k = .ok s)
    (hlast : (c.nPlateau - 1) * (c.nAnneal / (c.nPlateau - 1)) ≤ (k : Int)) : s.temp = 1 := by
  rcases init_cases c s0 h0 with ⟨hoff, _⟩ | ⟨_, _, hp1, _⟩ | ⟨_, ht, N, q, P', d, hN, hP', hP1, hqdef, hq, hd, hPd, rfl⟩
  · rw [hon] at hoff; cases hoff
  · omega
  · rw [iter_nat c clamp N q P' d c.t0 hN hP' hq] at hk
    injection hk with hk; subst hk
    rw [Tn_closed clamp N q P' d c.t0 hq hd hPd k]
    have hsub : c.nPlateau - 1 = (P' : Int) := by omega
    have hk' : P' * q ≤ k := by
      rw [hN, hsub] at hlast
      have : ((N / P' : Nat) : Int) = (N : Int) / (P' : Int) := by push_cast; rfl
      rw [← this, ← hqdef] at hlast
      exact_mod_cast hlast
    have hPN : P' * q ≤ N := by rw [hqdef]; exact Nat.mul_div_le N P'
    have hle : P' ≤ min k N / q := by
      rw [Nat.le_div_iff_mul_le hq]; omega
    simp [closed, hle]

/-- Finding F5b: with `n_plateau = 1` the configuration is accepted and the temperature stays at
    `T0 = 5` after the annealing iterations (here `n_a = 3`, iteration 10). -/
theorem temp_one_after_counterexample :
    ∃ (c : Config Rat) (s0 s : St Rat), init c = .ok s0 ∧ c.on = true ∧
      iter c true s0 10 = .ok s ∧ c.nAnneal ≤ 10 ∧ s.temp ≠ 1 := by
  refine ⟨⟨true, 5, 1, 3⟩, ⟨5, none⟩, ⟨5, none⟩, ?_, rfl, ?_, by decide, ?_⟩
  · decide +kernel
  · exact iter_none _ _ _ _
  · decide +kernel

/-- Why fix F4 is needed: the snapshot code accepted `n_iter=10, n_iter_frac=0.5, n_plateau=10, T0=10`
    and left `_annealing_period = 5 // 9 = 0`; `_update_temperature` then raises `ZeroDivisionError`
    at iteration 1 — whereas `init` (with the repair) refuses this configuration. -/
theorem period_zero_counterexample :
    update (⟨true, 10, 10, 5⟩ : Config Rat) true 1 ⟨10, some (0, 1)⟩ = .error .zeroDiv ∧
    init (⟨true, 10, 10, 5⟩ : Config Rat) = .error .algoInput := by
  decide +kernel

/-- Without annealing the temperature is constantly 1. -/
theorem no_anneal_const_one (c : Config α) (clamp : Bool) (hoff : c.on = false) (k : Nat) :
    ∃ s0 s, init c = .ok s0 ∧ iter c clamp s0 k = .ok s ∧ s.temp = 1 := by
  refine ⟨⟨1, none⟩, ⟨1, none⟩, ?_, iter_none c clamp 1 k, rfl⟩
  simp [init, hoff]

/-- Which configurations are accepted: exactly those with annealing off, or `T0 ≥ 1` and a single
    plateau, or `T0 > 1`, at least two plateaus and at least one iteration per plateau boundary
    (`n_a ≥ n_plateau − 1`; this last condition is fix F4 — without it the period is 0). -/
theorem accepted_iff (c : Config α) :
    (∃ s0, init c = .ok s0) ↔
      (c.on = false ∨ (1 ≤ c.t0 ∧ c.nPlateau = 1) ∨
        (1 < c.t0 ∧ 2 ≤ c.nPlateau ∧ c.nPlateau - 1 ≤ c.nAnneal)) := by
  constructor
  · rintro ⟨s0, h0⟩
    rcases init_cases c s0 h0 with ⟨hoff, _⟩ | ⟨_, ht, hp1, _⟩ | ⟨_, ht, N, q, P', d, hN, hP', hP1, hqdef, hq, hd, hPd, _⟩
    · exact Or.inl hoff
    · exact Or.inr (Or.inl ⟨ht, hp1⟩)
    · refine Or.inr (Or.inr ⟨?_, by omega, ?_⟩)
      · have hP'pos : (0 : α) < (P' : α) := by exact_mod_cast hP1
        have : 0 < (P' : α) * d := mul_pos hP'pos hd
        linarith
      · have : P' ≤ N := by
          by_contra hc
          have : N / P' = 0 := Nat.div_eq_of_lt (by omega)
          omega
        omega
  · rintro (hoff | ⟨ht, hp1⟩ | ⟨ht, hp2, hna⟩)
    · exact ⟨⟨1, none⟩, by simp [init, hoff]⟩
    · by_cases hon : c.on = true
      · refine ⟨⟨c.t0, none⟩, ?_⟩
        simp [init, hon, not_lt.mpr ht, hp1]
      · exact ⟨⟨1, none⟩, by simp [init, hon]⟩
    · by_cases hon : c.on = true
      · have hper : ¬ c.nAnneal / (c.nPlateau - 1) ≤ 0 := by
          have : 1 ≤ c.nAnneal / (c.nPlateau - 1) := by
            rw [Int.le_ediv_iff_mul_le (by omega)]; omega
          omega
        have hcast : (0 : α) < (((c.nPlateau - 1).toNat : Nat) : α) := by
          exact_mod_cast (by omega : 0 < (c.nPlateau - 1).toNat)
        have hdec : ¬ (c.t0 - 1) / (((c.nPlateau - 1).toNat : Nat) : α) ≤ 0 := by
          have : 0 < (c.t0 - 1) / (((c.nPlateau - 1).toNat : Nat) : α) := div_pos (by linarith) hcast
          exact not_le.mpr this
        refine ⟨⟨c.t0, some (c.nAnneal / (c.nPlateau - 1), (c.t0 - 1) / (((c.nPlateau - 1).toNat : Nat) : α))⟩, ?_⟩
        have h1 : ¬ c.t0 < 1 := by intro h; linarith
        have h2 : ¬ c.nPlateau ≤ 0 := by omega
        have h3 : ¬ c.nPlateau = 1 := by omega
        simp only [init, hon, Bool.not_true, Bool.false_eq_true, if_false, h1, h2, h3, hper, hdec]
      · exact ⟨⟨1, none⟩, by simp [init, hon]⟩

/-- Non-vacuity: `T0 = 4`, 4 plateaus, 7 annealing iterations (period 2, decrement 1), 9 iterations. -/
example : Anneal.run (⟨true, 4, 4, 7⟩ : Config Rat) true 9 = .ok [4, 4, 3, 3, 2, 2, 1, 1, 1, 1] := by
  decide +kernel

/-! ## Part 2 — adaptive proposal scale -/

/-- **Factor, timing and band in one step** (`sample()` number `b.counter + 1`, window length `L`,
    band `[lo, hi]`, factor `f`): with `m` the mean acceptance of the block over the updated window,
    * if the call number is a multiple of `L` and `m < lo` the scale is multiplied by exactly `1 − f`;
    * if the call number is a multiple of `L` and `m > hi` it is multiplied by exactly `1 + f`;
    * otherwise (not a multiple of `L`, or `m` inside the band) it is unchanged. -/
theorem std_factor_exact (L : Nat) (lo hi f : α) (hband : lo ≤ hi) (b : Blk α) (a : Bool) :
    let p := Params.ofFactor L lo hi f
    let b' := Blk.step p b a
    let m : α := meanAcc b'.win
    b'.counter = b.counter + 1 ∧ b'.win = pushWin b.win a ∧
    ((b.counter + 1) % L = 0 ∧ m < lo → b'.std = b.std * (1 - f)) ∧
    ((b.counter + 1) % L = 0 ∧ hi < m → b'.std = b.std * (1 + f)) ∧
    ((b.counter + 1) % L ≠ 0 ∨ (lo ≤ m ∧ m ≤ hi) → b'.std = b.std) := by
  intro p b' m
  by_cases hc : (b.counter + 1) % L = 0
  · have hb' : b' = ⟨b.counter + 1, pushWin b.win a, adapt p (meanAcc (pushWin b.win a)) b.std⟩ := by
      simp only [b', Blk.step, p, Params.ofFactor, hc, if_true]
    have hm : m = meanAcc (pushWin b.win a) := by simp only [m, hb']
    refine ⟨by rw [hb'], by rw [hb'], ?_, ?_, ?_⟩
    · rintro ⟨_, hlt⟩
      rw [hb']; simp only [adapt, p, Params.ofFactor]
      rw [← hm]
      have : ¬ hi < m := by intro h; linarith
      simp [hlt, this]
    · rintro ⟨_, hgt⟩
      rw [hb']; simp only [adapt, p, Params.ofFactor]
      rw [← hm]
      have : ¬ m < lo := by intro h; linarith
      simp [hgt, this]
    · rintro (h | ⟨h1, h2⟩)
      · exact absurd hc h
      · rw [hb']; simp only [adapt, p, Params.ofFactor]
        rw [← hm]
        simp [not_lt.mpr h1, not_lt.mpr h2]
  · have hb' : b' = ⟨b.counter + 1, pushWin b.win a, b.std⟩ := by
      simp only [b', Blk.step, p, Params.ofFactor, hc, if_false]
    refine ⟨by rw [hb'], by rw [hb'], ?_, ?_, ?_⟩
    · rintro ⟨h, _⟩; exact absurd h hc
    · rintro ⟨h, _⟩; exact absurd h hc
    · intro _; rw [hb']

private theorem after_snoc (p : Params α) (b : Blk α) (accs : List Bool) (a : Bool) :
    Blk.after p b (accs ++ [a]) = Blk.step p (Blk.after p b accs) a := by
  simp [Blk.after, List.foldl_append]

private theorem step_counter (p : Params α) (b : Blk α) (a : Bool) :
    (Blk.step p b a).counter = b.counter + 1 := by
  simp only [Blk.step]; split <;> rfl

private theorem step_win (p : Params α) (b : Blk α) (a : Bool) :
    (Blk.step p b a).win = pushWin b.win a := by
  simp only [Blk.step]; split <;> rfl

/-- The call counter equals the number of `sample()` calls so far. -/
theorem counter_counts_calls (p : Params α) (b : Blk α) (accs : List Bool) :
    (Blk.after p b accs).counter = b.counter + accs.length := by
  induction accs using List.reverseRecOn with
  | nil => simp [Blk.after]
  | append_singleton accs a ih =>
    rw [after_snoc, step_counter, ih]; simp; omega

/-- **Window semantics**: after any history the window of a block holds exactly the last `L` entries
    of (`L` initial zeros followed by the block's acceptance decisions), oldest first; in particular its
    length is always `L`, and after at least `L` calls it is exactly the last `L` decisions. -/
theorem window_is_last_L (p : Params α) (hL : 0 < p.window) (std0 : α) (accs : List Bool) :
    (Blk.after p (Blk.init p std0) accs).win
      = (List.replicate p.window false ++ accs).drop accs.length := by
  induction accs using List.reverseRecOn with
  | nil => simp [Blk.after, Blk.init]
  | append_singleton accs a ih =>
    have e : (List.replicate p.window false ++ (accs ++ [a])).drop (accs.length + 1)
        = (List.replicate p.window false ++ accs).drop (accs.length + 1) ++ [a] := by
      rw [← List.append_assoc, List.drop_append_of_le_length]
      simp; omega
    rw [after_snoc, step_win, ih, pushWin, List.drop_drop, List.length_append, List.length_singleton, e]

theorem window_length (p : Params α) (hL : 0 < p.window) (std0 : α) (accs : List Bool) :
    (Blk.after p (Blk.init p std0) accs).win.length = p.window := by
  rw [window_is_last_L p hL]; simp

theorem window_is_last_L_decisions (p : Params α) (hL : 0 < p.window) (std0 : α) (accs : List Bool)
    (h : p.window ≤ accs.length) :
    (Blk.after p (Blk.init p std0) accs).win = accs.drop (accs.length - p.window) := by
  rw [window_is_last_L p hL, List.drop_append]
  have : (List.replicate p.window false).length ≤ accs.length := by simpa using h
  simp [List.drop_eq_nil_of_le this]

private theorem adapt_pos (p : Params α) (hs : 0 < p.shrink) (hg : 0 < p.grow) (m s : α) (h : 0 < s) :
    0 < adapt p m s := by
  unfold adapt
  dsimp only
  by_cases ha : p.hi < m <;> by_cases hb : m < p.lo
  · rw [if_pos ha, if_pos hb]; exact mul_pos (mul_pos h hs) hg
  · rw [if_pos ha, if_neg hb]; exact mul_pos h hg
  · rw [if_neg ha, if_pos hb]; exact mul_pos h hs
  · rw [if_neg ha, if_neg hb]; exact h

private theorem after_pos (p : Params α) (hs : 0 < p.shrink) (hg : 0 < p.grow) (b : Blk α) (h0 : 0 < b.std)
    (accs : List Bool) : 0 < (Blk.after p b accs).std := by
  induction accs using List.reverseRecOn with
  | nil => simpa [Blk.after] using h0
  | append_singleton accs a ih =>
    rw [after_snoc]
    unfold Blk.step
    dsimp only
    split
    · exact adapt_pos p hs hg _ _ ih
    · exact ih

/-- The scale stays positive for every acceptance history (band and window arbitrary),
    as soon as the initial scale is positive and `0 < f < 1`. -/
theorem std_pos (L : Nat) (lo hi f std0 : α) (hf0 : 0 < f) (hf1 : f < 1) (h0 : 0 < std0)
    (accs : List Bool) :
    0 < (Blk.after (Params.ofFactor L lo hi f) (Blk.init (Params.ofFactor L lo hi f) std0) accs).std := by
  apply after_pos
  · show 0 < 1 - f
    linarith
  · show 0 < 1 + f
    linarith
  · exact h0

/-- The scale changes only at calls whose number is a multiple of the window length. -/
theorem std_changes_only_at_multiples (p : Params α) (std0 : α) (accs : List Bool) (a : Bool)
    (h : (Blk.after p (Blk.init p std0) (accs ++ [a])).std ≠ (Blk.after p (Blk.init p std0) accs).std) :
    (accs.length + 1) % p.window = 0 := by
  by_contra hc
  apply h
  rw [after_snoc]
  have hcnt := counter_counts_calls p (Blk.init p std0) accs
  simp only [Blk.init, Nat.zero_add] at hcnt
  simp only [Blk.step]
  rw [show (Blk.after p (Blk.init p std0) accs).counter = accs.length from by simpa [Blk.init] using hcnt]
  simp [hc]

/-- … and only for a block whose mean acceptance over the last `L` decisions left the band `[lo, hi]`;
    the new scale is then the old one times exactly `1 − f` (below the band) or `1 + f` (above). -/
theorem std_only_out_of_band (L : Nat) (lo hi f std0 : α) (hband : lo ≤ hi) (accs : List Bool) (a : Bool) :
    let p := Params.ofFactor L lo hi f
    let old := (Blk.after p (Blk.init p std0) accs).std
    let new := (Blk.after p (Blk.init p std0) (accs ++ [a])).std
    let m : α := meanAcc ((accs ++ [a]).drop (accs.length + 1 - L))
    new ≠ old →
      (accs.length + 1) % L = 0 ∧ ((m < lo ∧ new = old * (1 - f)) ∨ (hi < m ∧ new = old * (1 + f))) := by
  intro p old new m hne
  have hmult : (accs.length + 1) % L = 0 := std_changes_only_at_multiples p std0 accs a hne
  have hmult' : (accs.length + 1) % L = 0 := by simpa [p, Params.ofFactor] using hmult
  have hLpos : 0 < L := by
    rcases Nat.eq_zero_or_pos L with h | h
    · subst h; simp at hmult'
    · exact h
  have hL : L ≤ accs.length + 1 := Nat.le_of_dvd (by omega) (Nat.dvd_of_mod_eq_zero hmult')
  have hcnt : (Blk.after p (Blk.init p std0) accs).counter = accs.length := by
    have := counter_counts_calls p (Blk.init p std0) accs
    simpa [Blk.init] using this
  have hwin : (Blk.step p (Blk.after p (Blk.init p std0) accs) a).win
      = (accs ++ [a]).drop (accs.length + 1 - L) := by
    rw [← after_snoc, window_is_last_L_decisions p (by simpa [p, Params.ofFactor] using hLpos) std0 (accs ++ [a])
      (by simpa [p, Params.ofFactor] using hL)]
    simp [p, Params.ofFactor]
  obtain ⟨_, _, hlow, hhigh, hsame⟩ := std_factor_exact L lo hi f hband (Blk.after p (Blk.init p std0) accs) a
  simp only [hcnt] at hlow hhigh hsame
  rw [hwin] at hlow hhigh hsame
  have hnew : new = (Blk.step p (Blk.after p (Blk.init p std0) accs) a).std := by
    simp only [new]; rw [after_snoc]
  refine ⟨hmult', ?_⟩
  by_cases h1 : m < lo
  · exact Or.inl ⟨h1, by rw [hnew]; exact hlow ⟨hmult', h1⟩⟩
  · by_cases h2 : hi < m
    · exact Or.inr ⟨h2, by rw [hnew]; exact hhigh ⟨hmult', h2⟩⟩
    · exfalso; apply hne
      rw [hnew]; exact hsame (Or.inr ⟨not_lt.mp h1, not_lt.mp h2⟩)

/-- The list printed by the driver (`Blk.trace`) is the scale after each call. -/
theorem trace_spec (p : Params α) (b : Blk α) (accs : List Bool) :
    (Blk.trace p b accs).length = accs.length ∧
      ∀ t, t < accs.length → (Blk.trace p b accs)[t]? = some (Blk.after p b (accs.take (t + 1))).std := by
  induction accs generalizing b with
  | nil => exact ⟨rfl, fun t ht => absurd ht (Nat.not_lt_zero t)⟩
  | cons a accs ih =>
    obtain ⟨h1, h2⟩ := ih (Blk.step p b a)
    refine ⟨by simp [Blk.trace, h1], ?_⟩
    intro t ht
    cases t with
    | zero => simp [Blk.trace, Blk.after]
    | succ t =>
      have := h2 t (by simpa using ht)
      simpa [Blk.trace, Blk.after] using this

/-- Non-vacuity (window 2, band [1/5, 2/5], factor 1/10, start 1): accepted twice → above the band →
    ×11/10; then rejected twice → below the band → ×9/10; a half-accepted window is above as well. -/
example : Blk.trace (Params.ofFactor 2 (1/5 : Rat) (2/5) (1/10)) (Blk.init (Params.ofFactor 2 (1/5 : Rat) (2/5) (1/10)) 1)
    [true, true, false, false, true, false] = [1, 11/10, 11/10, 99/100, 99/100, 1089/1000] := by
  decide +kernel

/-! ## Part 3 — fit loop composition

How the schedules of Part 1 (temperature) and of C05 (`Model/Saem.lean`: burn-in flag, memory-less test) are
*composed* by the two sampler-driven loops, `Model/FitLoop.lean`: `TensorMcmcSaemAlgorithm._run/_iteration`
and the loop of `McmcPersonalizeAlgorithm._get_individual_parameters`. -/

open LeaspyVerif.FitLoop LeaspyVerif.Saem

private theorem iter_succ_of (c : Anneal.Config α) (clamp : Bool) (s0 s : St α) (k : Nat)
    (hk : iter c clamp s0 k = .ok s) : iter c clamp s0 (k + 1) = update c clamp (k + 1) s := by
  simp only [iter, hk]; rfl

/-- `runFrom` started in the annealing state of iteration `k` succeeds and lists, for every later iteration,
    the events built from the annealing states before and after that iteration. -/
private theorem runFrom_spec (c : FitLoop.Config α) (clamp : Bool) (order : Nat → List Nat) (s0 : St α)
    (h0 : init c.anneal = .ok s0) :
    ∀ (n k : Nat) (s : St α), iter c.anneal clamp s0 k = .ok s →
      ∃ L, FitLoop.runFrom c clamp order k n s = .ok L ∧ L.length = n ∧
        ∀ i, i < n → ∃ s₁ s₂, iter c.anneal clamp s0 (k + i) = .ok s₁ ∧
          iter c.anneal clamp s0 (k + i + 1) = .ok s₂ ∧
          L[i]? = some (iterationEvents c.kind c.nBurn (order (k + i + 1)) (k + i + 1) s₁ s₂) := by
  intro n
  induction n with
  | zero => intro k s _; exact ⟨[], rfl, rfl, fun i hi => absurd hi (Nat.not_lt_zero i)⟩
  | succ n ih =>
    intro k s hk
    obtain ⟨s', hs'⟩ := accepted_runs_to_completion c.anneal clamp s0 h0 (k + 1)
    have hstep : update c.anneal clamp (k + 1) s = .ok s' := by
      rw [← iter_succ_of c.anneal clamp s0 s k hk]; exact hs'
    obtain ⟨l, hl, hlen, hget⟩ := ih (k + 1) s' hs'
    refine ⟨iterationEvents c.kind c.nBurn (order (k + 1)) (k + 1) s s' :: l, ?_, by simp [hlen], ?_⟩
    · simp only [FitLoop.runFrom, FitLoop.iteration, hstep, hl]
    · intro i hi
      cases i with
      | zero => exact ⟨s, s', by simpa using hk, by simpa using hs', by simp⟩
      | succ i =>
        obtain ⟨s₁, s₂, h1, h2, h3⟩ := hget i (by omega)
        have e : k + (i + 1) = k + 1 + i := by omega
        rw [e]
        exact ⟨s₁, s₂, h1, h2, by simpa using h3⟩

/-- **Composition of one run** (fit or personalisation; any number of iterations, burn-in count, latent
    variables, sampling orders; every configuration accepted by `_initialize_annealing`): the run goes through
    all its `n_iter` iterations, and the events of iteration `k` are, in this order,
    one `sample` call per entry of `order k` — each with `temperature_inv = 1 / T_{k-1}` —, then the
    maximisation step (fit: memory-less flag `Saem.memoryless k n_burn`, burn-in flag `Saem.isBurnIn k n_burn`;
    personalisation: keep the draws iff not burn-in), then `_update_temperature`, which leaves `T_k`;
    where `T_j` is the temperature of the C19 schedule after `j` updates (`Anneal.iter`). -/
theorem loop_run_spec (c : FitLoop.Config α) (clamp : Bool) (order : Nat → List Nat) (s0 : St α)
    (h0 : init c.anneal = .ok s0) :
    ∃ L, FitLoop.run c clamp order = .ok L ∧ L.length = c.nIter ∧
      ∀ k, 1 ≤ k → k ≤ c.nIter → ∃ s s', iter c.anneal clamp s0 (k - 1) = .ok s ∧
        iter c.anneal clamp s0 k = .ok s' ∧
        L[k - 1]? = some ((order k).map (fun v => Event.sample v (1 / s.temp))
          ++ [FitLoop.middle c.kind c.nBurn k, Event.updateT s'.temp]) := by
  obtain ⟨L, hL, hlen, hget⟩ := runFrom_spec c clamp order s0 h0 c.nIter 0 s0 rfl
  refine ⟨L, by simp only [FitLoop.run, h0, hL], hlen, ?_⟩
  intro k hk1 hk
  obtain ⟨s₁, s₂, h1, h2, h3⟩ := hget (k - 1) (by omega)
  have e1 : 0 + (k - 1) = k - 1 := by omega
  have e2 : 0 + (k - 1) + 1 = k := by omega
  rw [e1] at h1
  rw [e2] at h2 h3
  exact ⟨s₁, s₂, h1, h2, by rw [h3]; rfl⟩

/-- what `loop_run_spec` gives for a run whose result is already named -/
private theorem loop_at (c : FitLoop.Config α) (clamp : Bool) (order : Nat → List Nat) (s0 : St α)
    (h0 : init c.anneal = .ok s0) (L : List (List (Event α))) (hL : FitLoop.run c clamp order = .ok L)
    (k : Nat) (hk1 : 1 ≤ k) (hk : k ≤ c.nIter) :
    ∃ s s', iter c.anneal clamp s0 (k - 1) = .ok s ∧ iter c.anneal clamp s0 k = .ok s' ∧
      L[k - 1]? = some ((order k).map (fun v => Event.sample v (1 / s.temp))
        ++ [FitLoop.middle c.kind c.nBurn k, Event.updateT s'.temp]) := by
  obtain ⟨L', hL', _, hget⟩ := loop_run_spec c clamp order s0 h0
  rw [hL] at hL'
  injection hL' with hL'
  subst hL'
  exact hget k hk1 hk

private theorem middle_not_sample (kind : Kind) (nb k : Nat) :
    (FitLoop.middle kind nb k : Event α).isSample = false := by
  cases kind <;> rfl

private theorem sampleTinvs_events (kind : Kind) (nb k : Nat) (ord : List Nat) (t T : α) :
    sampleTinvs (ord.map (fun v => Event.sample v t) ++ [FitLoop.middle kind nb k, Event.updateT T])
      = ord.map (fun _ => t) := by
  induction ord with
  | nil => cases kind <;> rfl
  | cons v ord ih => simp only [List.map_cons, List.cons_append, sampleTinvs, ih]

private theorem sampleVars_events (kind : Kind) (nb k : Nat) (ord : List Nat) (t T : α) :
    sampleVars (ord.map (fun v => Event.sample v t) ++ [FitLoop.middle kind nb k, Event.updateT T])
      = ord := by
  induction ord with
  | nil => cases kind <;> rfl
  | cons v ord ih => simp only [List.map_cons, List.cons_append, sampleVars, ih]

/-- **(a)** At iteration `k` every sampler receives exactly `1 / T_{k-1}`: the inverse of the temperature
    after `k − 1` updates of the schedule. -/
theorem samplers_receive_previous_temperature (c : FitLoop.Config α) (clamp : Bool)
    (order : Nat → List Nat) (s0 : St α) (h0 : init c.anneal = .ok s0)
    (L : List (List (Event α))) (hL : FitLoop.run c clamp order = .ok L)
    (k : Nat) (hk1 : 1 ≤ k) (hk : k ≤ c.nIter) :
    ∃ s evs, iter c.anneal clamp s0 (k - 1) = .ok s ∧ L[k - 1]? = some evs ∧
      (sampleTinvs evs).length = (order k).length ∧ ∀ t ∈ sampleTinvs evs, t = 1 / s.temp := by
  obtain ⟨s, s', h1, _, h3⟩ := loop_at c clamp order s0 h0 L hL k hk1 hk
  refine ⟨s, _, h1, h3, ?_, ?_⟩
  · rw [sampleTinvs_events]; simp
  · intro t ht
    rw [sampleTinvs_events] at ht
    simp only [List.mem_map] at ht
    obtain ⟨_, _, rfl⟩ := ht
    rfl

/-- … so the first iteration samples at the configured initial temperature (annealing on), and the
    temperature is moved only after the maximisation step: the last event of iteration `k` is the update
    that leaves `T_k`, the event before it is the maximisation step. -/
theorem first_iteration_samples_at_initial_temperature (c : FitLoop.Config α) (clamp : Bool)
    (order : Nat → List Nat) (s0 : St α) (h0 : init c.anneal = .ok s0) (hon : c.anneal.on = true)
    (L : List (List (Event α))) (hL : FitLoop.run c clamp order = .ok L) (hn : 1 ≤ c.nIter) :
    ∃ evs, L[0]? = some evs ∧ ∀ t ∈ sampleTinvs evs, t = 1 / c.anneal.t0 := by
  obtain ⟨s, evs, h1, h2, _, h4⟩ := samplers_receive_previous_temperature c clamp order s0 h0 L hL 1 (le_refl 1) hn
  obtain ⟨s', hs', ht⟩ := temp_start c.anneal clamp s0 h0 hon
  have : s = s' := by
    have e : iter c.anneal clamp s0 (1 - 1) = iter c.anneal clamp s0 0 := rfl
    rw [e, hs'] at h1; injection h1 with h1; exact h1.symm
  subst this
  exact ⟨evs, h2, fun t ht' => by rw [h4 t ht', ht]⟩

/-- **(b1)** The inverse temperature seen by the samplers lies in `(0, 1]`
    (the range over which C03 quantifies). -/
theorem sampler_tinv_in_unit_interval (c : FitLoop.Config α) (clamp : Bool)
    (order : Nat → List Nat) (s0 : St α) (h0 : init c.anneal = .ok s0)
    (L : List (List (Event α))) (hL : FitLoop.run c clamp order = .ok L)
    (k : Nat) (hk1 : 1 ≤ k) (hk : k ≤ c.nIter) (evs : List (Event α)) (he : L[k - 1]? = some evs)
    (t : α) (ht : t ∈ sampleTinvs evs) : 0 < t ∧ t ≤ 1 := by
  obtain ⟨s, evs', h1, h2, _, h4⟩ := samplers_receive_previous_temperature c clamp order s0 h0 L hL k hk1 hk
  rw [he] at h2; injection h2 with h2; subst h2
  have hT : 1 ≤ s.temp := temp_ge_one c.anneal clamp s0 s h0 (k - 1) h1
  have hpos : (0 : α) < s.temp := by linarith
  rw [h4 t ht]
  exact ⟨one_div_pos.mpr hpos, (div_le_one hpos).mpr hT⟩

/-- **(b2)** … it never decreases along the run. -/
theorem sampler_tinv_monotone (c : FitLoop.Config α) (clamp : Bool)
    (order : Nat → List Nat) (s0 : St α) (h0 : init c.anneal = .ok s0)
    (L : List (List (Event α))) (hL : FitLoop.run c clamp order = .ok L)
    (k m : Nat) (hk1 : 1 ≤ k) (hkm : k ≤ m) (hm : m ≤ c.nIter)
    (evs evs' : List (Event α)) (he : L[k - 1]? = some evs) (he' : L[m - 1]? = some evs')
    (t t' : α) (ht : t ∈ sampleTinvs evs) (ht' : t' ∈ sampleTinvs evs') : t ≤ t' := by
  obtain ⟨s, e1, h1, h2, _, h4⟩ := samplers_receive_previous_temperature c clamp order s0 h0 L hL k hk1 (by omega)
  obtain ⟨s', e2, h1', h2', _, h4'⟩ := samplers_receive_previous_temperature c clamp order s0 h0 L hL m (by omega) hm
  rw [he] at h2; injection h2 with h2; subst h2
  rw [he'] at h2'; injection h2' with h2'; subst h2'
  rw [h4 t ht, h4' t' ht']
  have hle : s'.temp ≤ s.temp := temp_antitone_le c.anneal clamp s0 s s' h0 (k - 1) (m - 1) (by omega) h1 h1'
  have hpos : (0 : α) < s'.temp := by
    have := temp_ge_one c.anneal clamp s0 s' h0 (m - 1) h1'
    linarith
  exact one_div_le_one_div_of_le hpos hle

/-
Full-strength statement of the last clause of (b):

    sampler_tinv_one_after_annealing : … c.anneal.on = true → c.anneal.nAnneal < k → t = 1

It is false of the code for `n_plateau = 1` (finding F5b, see `temp_one_after_counterexample` and
`sampler_tinv_one_after_annealing_counterexample`).  Proved under the exact guard `2 ≤ n_plateau`
already carried by `temp_one_after_partial`; nothing else is missing.
-/

/-- **(b3)** … and it is exactly 1 at every iteration after the annealing iterations (`n_plateau ≥ 2`). -/
theorem sampler_tinv_one_after_annealing_partial (c : FitLoop.Config α) (clamp : Bool)
    (order : Nat → List Nat) (s0 : St α) (h0 : init c.anneal = .ok s0)
    (hon : c.anneal.on = true) (hP : 2 ≤ c.anneal.nPlateau)
    (L : List (List (Event α))) (hL : FitLoop.run c clamp order = .ok L)
    (k : Nat) (hk1 : 1 ≤ k) (hk : k ≤ c.nIter) (hover : c.anneal.nAnneal < (k : Int))
    (evs : List (Event α)) (he : L[k - 1]? = some evs)
    (t : α) (ht : t ∈ sampleTinvs evs) : t = 1 := by
  obtain ⟨s, evs', h1, h2, _, h4⟩ := samplers_receive_previous_temperature c clamp order s0 h0 L hL k hk1 hk
  rw [he] at h2; injection h2 with h2; subst h2
  have hT : s.temp = 1 := temp_one_after_partial c.anneal clamp s0 s h0 hon hP (k - 1) h1 (by omega)
  rw [h4 t ht, hT]; simp

/-- Without annealing every sampler call of every iteration receives exactly 1. -/
theorem sampler_tinv_one_without_annealing (c : FitLoop.Config α) (clamp : Bool)
    (order : Nat → List Nat) (hoff : c.anneal.on = false)
    (L : List (List (Event α))) (hL : FitLoop.run c clamp order = .ok L)
    (k : Nat) (hk1 : 1 ≤ k) (hk : k ≤ c.nIter)
    (evs : List (Event α)) (he : L[k - 1]? = some evs)
    (t : α) (ht : t ∈ sampleTinvs evs) : t = 1 := by
  obtain ⟨s0, s1, h0, hs1, hT⟩ := no_anneal_const_one c.anneal clamp hoff (k - 1)
  obtain ⟨s, evs', h1, h2, _, h4⟩ := samplers_receive_previous_temperature c clamp order s0 h0 L hL k hk1 hk
  rw [he] at h2; injection h2 with h2; subst h2
  rw [hs1] at h1; injection h1 with h1; subst h1
  rw [h4 t ht, hT]; simp

/-- Finding F5b seen from the samplers: `n_plateau = 1`, `T0 = 5`, 3 annealing iterations — at iteration 6
    the (single) sampler still receives `1/5`. -/
theorem sampler_tinv_one_after_annealing_counterexample :
    ∃ (c : FitLoop.Config Rat) (L : List (List (Event Rat))) (evs : List (Event Rat)),
      c.anneal.on = true ∧ FitLoop.run c true (fun _ => [0]) = .ok L ∧ c.anneal.nAnneal < 6 ∧
      L[5]? = some evs ∧ sampleTinvs evs = [1 / 5] := by
  refine ⟨⟨.fit, 6, 0, ⟨true, 5, 1, 3⟩, 1⟩,
    [.sample 0 (1 / 5), .mstep true false, .updateT 5]
      :: List.replicate 5 [.sample 0 (1 / 5), .mstep false false, .updateT 5],
    [.sample 0 (1 / 5), .mstep false false, .updateT 5], rfl, ?_, by decide, ?_, ?_⟩
  · decide +kernel
  · decide +kernel
  · decide +kernel

/-- **(c)** Shape of every iteration: exactly one sampler call per latent variable (the calls come first and
    are a permutation of the variables), then exactly one maximisation step (personalisation: one
    keep-the-draws decision), then exactly one temperature update, and nothing else. -/
theorem one_call_each_per_iteration (c : FitLoop.Config α) (clamp : Bool)
    (order : Nat → List Nat) (hord : ValidOrder c order) (s0 : St α) (h0 : init c.anneal = .ok s0)
    (L : List (List (Event α))) (hL : FitLoop.run c clamp order = .ok L)
    (k : Nat) (hk1 : 1 ≤ k) (hk : k ≤ c.nIter) :
    ∃ evs, L[k - 1]? = some evs ∧ evs.length = c.nVars + 2 ∧
      sampleVars evs = order k ∧ (∀ v, (sampleVars evs).count v = if v < c.nVars then 1 else 0) ∧
      (∀ i, i < c.nVars → ∃ e, evs[i]? = some e ∧ e.isSample = true) ∧
      (∃ e, evs[c.nVars]? = some e ∧ e.isMiddle = true) ∧
      (∃ e, evs[c.nVars + 1]? = some e ∧ e.isUpdateT = true) ∧
      (evs.filter Event.isSample).length = c.nVars ∧
      (evs.filter Event.isMiddle).length = 1 ∧ (evs.filter Event.isUpdateT).length = 1 := by
  obtain ⟨s, s', _, _, h3⟩ := loop_at c clamp order s0 h0 L hL k hk1 hk
  have hperm := hord k
  have hlen : (order k).length = c.nVars := by rw [hperm.length_eq]; simp
  refine ⟨_, h3, ?_, sampleVars_events _ _ _ _ _ _, ?_, ?_, ?_, ?_, ?_, ?_, ?_⟩
  · simp [hlen]
  · intro v
    rw [sampleVars_events, hperm.count_eq, List.count_range]
  · intro i hi
    refine ⟨Event.sample ((order k)[i]'(by omega)) (1 / s.temp), ?_, rfl⟩
    rw [List.getElem?_append_left (by simp; omega)]
    simp [List.getElem?_map, List.getElem?_eq_getElem (by omega : i < (order k).length)]
  · refine ⟨FitLoop.middle c.kind c.nBurn k, ?_, by cases c.kind <;> rfl⟩
    rw [List.getElem?_append_right (by simp [hlen])]
    simp [hlen]
  · refine ⟨Event.updateT s'.temp, ?_, rfl⟩
    rw [List.getElem?_append_right (by simp [hlen])]
    simp [hlen]
  · rw [List.filter_append]
    have h1 : ((order k).map (fun v => Event.sample v (1 / s.temp))).filter Event.isSample
        = (order k).map (fun v => Event.sample v (1 / s.temp)) := by
      rw [List.filter_eq_self]; intro e he; simp only [List.mem_map] at he; obtain ⟨_, _, rfl⟩ := he; rfl
    rw [h1]
    cases c.kind <;> simp [FitLoop.middle, Event.isSample, hlen]
  · rw [List.filter_append]
    have h1 : ((order k).map (fun v => Event.sample v (1 / s.temp))).filter Event.isMiddle = [] := by
      rw [List.filter_eq_nil_iff]; intro e he; simp only [List.mem_map] at he; obtain ⟨_, _, rfl⟩ := he; simp [Event.isMiddle]
    rw [h1]
    cases c.kind <;> rfl
  · rw [List.filter_append]
    have h1 : ((order k).map (fun v => Event.sample v (1 / s.temp))).filter Event.isUpdateT = [] := by
      rw [List.filter_eq_nil_iff]; intro e he; simp only [List.mem_map] at he; obtain ⟨_, _, rfl⟩ := he; simp [Event.isUpdateT]
    rw [h1]
    cases c.kind <;> rfl

/-- **(d)** The maximisation step of iteration `k` of a fit is told `burn_in = true` iff `k ≤ n_burn` and hands
    the current statistics to the maximisation (memory-less) iff `k ≤ n_burn + 1`; its two flags are C05's
    `Saem.isBurnIn` / `Saem.memoryless`, so the statistics it uses are `Saem.stepStats` (by definition). -/
theorem mstep_flags (c : FitLoop.Config α) (clamp : Bool)
    (order : Nat → List Nat) (hord : ValidOrder c order) (s0 : St α) (h0 : init c.anneal = .ok s0)
    (hfit : c.kind = .fit)
    (L : List (List (Event α))) (hL : FitLoop.run c clamp order = .ok L)
    (k : Nat) (hk1 : 1 ≤ k) (hk : k ≤ c.nIter) :
    ∃ evs ml burn, L[k - 1]? = some evs ∧ evs[c.nVars]? = some (Event.mstep ml burn) ∧
      ml = Saem.memoryless k c.nBurn ∧ burn = Saem.isBurnIn k c.nBurn ∧
      (burn = true ↔ k ≤ c.nBurn) ∧ (ml = true ↔ k ≤ c.nBurn + 1) ∧
      (∀ (e : Nat → α) (prev cur : α), Saem.stepStats e c.nBurn k prev cur
          = if ml then cur else prev * (1 - e (k - c.nBurn)) + e (k - c.nBurn) * cur) := by
  obtain ⟨s, s', _, _, h3⟩ := loop_at c clamp order s0 h0 L hL k hk1 hk
  have hlen : (order k).length = c.nVars := by rw [(hord k).length_eq]; simp
  refine ⟨_, Saem.memoryless k c.nBurn, Saem.isBurnIn k c.nBurn, h3, ?_, rfl, rfl, ?_, ?_, fun _ _ _ => rfl⟩
  · rw [List.getElem?_append_right (by simp [hlen])]
    simp [hlen, hfit, FitLoop.middle]
  · simp [Saem.isBurnIn]
  · simp only [Saem.memoryless, Saem.isBurnIn, Bool.or_eq_true, decide_eq_true_eq, beq_iff_eq]
    omega

/-- **(e1)** Personalisation loop: the draws of iteration `k` are kept iff `k > n_burn`. -/
theorem personalize_keeps_iff (c : FitLoop.Config α) (clamp : Bool)
    (order : Nat → List Nat) (hord : ValidOrder c order) (s0 : St α) (h0 : init c.anneal = .ok s0)
    (hpers : c.kind = .personalize)
    (L : List (List (Event α))) (hL : FitLoop.run c clamp order = .ok L)
    (k : Nat) (hk1 : 1 ≤ k) (hk : k ≤ c.nIter) :
    ∃ evs kept, L[k - 1]? = some evs ∧ evs[c.nVars]? = some (Event.keep kept) ∧
      (kept = true ↔ c.nBurn < k) ∧ (evs.any Event.isKept = kept) := by
  obtain ⟨s, s', _, _, h3⟩ := loop_at c clamp order s0 h0 L hL k hk1 hk
  have hlen : (order k).length = c.nVars := by rw [(hord k).length_eq]; simp
  refine ⟨_, !Saem.isBurnIn k c.nBurn, h3, ?_, ?_, ?_⟩
  · rw [List.getElem?_append_right (by simp [hlen])]
    simp [hlen, hpers, FitLoop.middle]
  · simp [Saem.isBurnIn]
  · simp [hpers, FitLoop.middle, Event.isKept, List.any_append]

private theorem any_isKept_events (kind : Kind) (nb k : Nat) (ord : List Nat) (t T : α) :
    (ord.map (fun v => Event.sample v t) ++ [FitLoop.middle kind nb k, Event.updateT T]).any Event.isKept
      = (match kind with | .fit => false | .personalize => !Saem.isBurnIn k nb) := by
  cases kind <;> simp [FitLoop.middle, Event.isKept, List.any_append]

private theorem keptCount_runFrom (c : FitLoop.Config α) (clamp : Bool) (order : Nat → List Nat)
    (hpers : c.kind = .personalize) :
    ∀ (n k : Nat) (s : St α) (L : List (List (Event α))),
      FitLoop.runFrom c clamp order k n s = .ok L → keptCount L = (k + n) - max k c.nBurn := by
  intro n
  induction n with
  | zero =>
    intro k s L h
    simp only [FitLoop.runFrom] at h
    injection h with h; subst h
    simp [keptCount]
  | succ n ih =>
    intro k s L h
    simp only [FitLoop.runFrom, FitLoop.iteration] at h
    cases hu : update c.anneal clamp (k + 1) s with
    | error e => rw [hu] at h; cases h
    | ok s' =>
      rw [hu] at h
      simp only at h
      cases hr : FitLoop.runFrom c clamp order (k + 1) n s' with
      | error e => rw [hr] at h; cases h
      | ok rest =>
        rw [hr] at h
        injection h with h; subst h
        have hrest := ih (k + 1) s' rest hr
        have hany : (iterationEvents c.kind c.nBurn (order (k + 1)) (k + 1) s s').any Event.isKept
            = !Saem.isBurnIn (k + 1) c.nBurn := by
          simp only [iterationEvents, tinv]; rw [any_isKept_events, hpers]
        unfold keptCount at hrest ⊢
        rw [List.filter_cons]
        simp only [hany]
        by_cases hb : k + 1 ≤ c.nBurn
        · simp only [Saem.isBurnIn, hb, decide_true, Bool.not_true, Bool.false_eq_true, if_false]
          rw [hrest]; omega
        · simp only [Saem.isBurnIn, hb, decide_false, Bool.not_false, if_true, List.length_cons]
          rw [hrest]; omega

/-- **(e2)** … so a personalisation run keeps exactly `n_iter − n_burn` draws (none when `n_burn ≥ n_iter`). -/
theorem personalize_kept_count (c : FitLoop.Config α) (clamp : Bool) (order : Nat → List Nat)
    (hpers : c.kind = .personalize)
    (L : List (List (Event α))) (hL : FitLoop.run c clamp order = .ok L) :
    keptCount L = c.nIter - c.nBurn := by
  unfold FitLoop.run at hL
  cases hi : init c.anneal with
  | error e => rw [hi] at hL; cases hL
  | ok s0 =>
    rw [hi] at hL
    have := keptCount_runFrom c clamp order hpers c.nIter 0 s0 L hL
    rw [this]; omega

/-- Non-vacuity: a fit of 5 iterations, 2 latent variables, burn-in 2, `T0 = 3`, 3 plateaus over 4 annealing
    iterations (period 2, decrement 1).  Iteration 1 samples at `1/3` and the temperature moves after the
    maximisation step of iterations 2 and 4; iterations 1–2 are burn-in, 1–3 memory-less. -/
example : FitLoop.run (⟨.fit, 5, 2, ⟨true, 3, 3, 4⟩, 2⟩ : FitLoop.Config Rat) true
      (fun k => if k % 2 = 0 then [1, 0] else [0, 1]) = .ok
    [[.sample 0 (1/3), .sample 1 (1/3), .mstep true true, .updateT 3],
     [.sample 1 (1/3), .sample 0 (1/3), .mstep true true, .updateT 2],
     [.sample 0 (1/2), .sample 1 (1/2), .mstep true false, .updateT 2],
     [.sample 1 (1/2), .sample 0 (1/2), .mstep false false, .updateT 1],
     [.sample 0 1, .sample 1 1, .mstep false false, .updateT 1]] := by
  decide +kernel

/-- Non-vacuity (personalisation, 4 iterations, burn-in 1, no annealing): draws kept at iterations 2–4. -/
example : FitLoop.run (⟨.personalize, 4, 1, ⟨false, 10, 10, 0⟩, 1⟩ : FitLoop.Config Rat) true (fun _ => [0]) = .ok
    [[.sample 0 1, .keep false, .updateT 1], [.sample 0 1, .keep true, .updateT 1],
     [.sample 0 1, .keep true, .updateT 1], [.sample 0 1, .keep true, .updateT 1]] := by
  decide +kernel

end LeaspyVerif.C19
