-- Root of the library: every model, lemma and property module is imported here so that
-- a plain `lake build` re-checks everything.
import LeaspyVerif.Proto
