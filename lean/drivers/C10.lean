import LeaspyVerif.Proto
import LeaspyVerif.Model.Traj
import LeaspyVerif.Model.Gauge
import LeaspyVerif.Model.Dist
open LeaspyVerif LeaspyVerif.Proto LeaspyVerif.Traj LeaspyVerif.Gauge

/-
requests (floats are `f<uint64 bits>`; lists `a,b`; matrices `a,b;c,d`; `_` = empty, `none` = absent)

  gauge kind=logistic|linear|joint pop=<v> logv0=<v> xi=<v> tau=<v> w=<m|none> ages=<m> nlognu=<v|none>
        (pop = log_g for logistic / joint, g for linear; one `xi`, `tau`, row of `w`, row of `ages` per individual)
      → xi=<v> logv0=<v> nlognu=<v|none> mean=<f> before=<m> after=<m> | err:shape
        the centring of `Model/Gauge.lean` (`center` / `centerJoint`), and the model values of every individual
        (rows of one individual concatenated: ages × features) computed from the state before and after it

  nurep nlognu=<f> xi=<f> m=<f> rho=<f|none> s=<f|none>
      → before=<f> after=<f>        reparametrised Weibull scale before / after the joint centring by `m`

  ortho dgamma=<v> G=<v> j=<n> betas=<m|none> src=<m|none>
      → basis=<m> mixing=<m> shifts=<m> a=<v>  | err:negmetric | err:size | err:stripcol | err:shape
        `compute_orthonormal_basis(dgamma, G, strip_col=j)` (1-D metric), `(basis @ betas).T`, `sources @ mixing`
        (`betas` is (dim-1) × n_sources, `src` is n_individuals × n_sources)

  ssvec logg=<f> deltas=<v>
      → collin=<v> gmetric=<v> metric=<v>      the vectors the shared-speed model hands to `OrthoBasis`, and its metric

  gram dgamma=<v> G=<v> j=<n>
      → gram=<m> gramg=<m> proj=<m> colj=<v> alpha=<f> | err:… (as `ortho`)
        `BᵀB` (`gramBasis`), `Bᵀ diag(G) B` (`gramBasisG`), `B Bᵀ` (`projBasis`), the stripped column `Q[:, j]`
        and `alpha = -sign(a_j)‖a‖` of the Householder construction

  gauge2 xi=<v> logv0=<v> nlognu=<v|none> c=<f> mu=<f> sigma=<f> cst=<f>
      → once_xi= once_logv0= once_nlognu= twice_xi= twice_logv0= twice_nlognu= orbit_xi= orbit_logv0= orbit_nlognu=
        sum=<f> sumsq=<f> sumsq0=<f> mean=<f> regul_before=<f> regul_after=<f>
        centring once / twice (`center ∘ center`), centring after the gauge shift by `c` (`center ∘ shift c`),
        the sums of the sufficient statistics `suffXi` (`Σξ'`, `Σξ'²`) and `Σξ²`, and `regulSum` of
        `Dist.normalNllWith cst · mu sigma` before / after the centring
-/

def getF (args : List String) (k : String) : Option Float := (kv args k) >>= parseFloat
def getV (args : List String) (k : String) : Option (List Float) := (kv args k) >>= parseList parseFloat
def getM (args : List String) (k : String) : Option (List (List Float)) := (kv args k) >>= parseList2 parseFloat

def optF (args : List String) (k : String) : Option (Option Float) := do
  let s ← kv args k
  if s == "none" then some none else some <$> parseFloat s
def optV (args : List String) (k : String) : Option (Option (List Float)) := do
  let s ← kv args k
  if s == "none" then some none else some <$> parseList parseFloat s
def optM (args : List String) (k : String) : Option (Option (List (List Float))) := do
  let s ← kv args k
  if s == "none" then some none else some <$> parseList2 parseFloat s

def zip4? {α β γ δ : Type} : List α → List β → List γ → List δ → Option (List (α × β × γ × δ))
  | [], [], [], [] => some []
  | a :: as, b :: bs, c :: cs, d :: ds => (zip4? as bs cs ds).map ((a, b, c, d) :: ·)
  | _, _, _, _ => none

/-- model values of the whole cohort, one (flattened) block per individual -/
def cohortValues (kind : String) (pop logV0 : List Float)
    (inds : List (Float × Float × List Float × List Float)) : Option (List (List Float)) :=
  inds.mapM fun (xi, tau, w, ages) =>
    (if kind == "linear" then linearTraj pop logV0 w xi tau ages
     else logisticTraj pop logV0 w xi tau ages).map List.flatten

def handleGauge (args : List String) : Option String := do
  let kind ← kv args "kind"
  let pop ← getV args "pop"
  let logV0 ← getV args "logv0"
  let xi ← getV args "xi"
  let tau ← getV args "tau"
  let w ← optM args "w"
  let ages ← getM args "ages"
  let nlognu ← optV args "nlognu"
  if kind != "logistic" && kind != "linear" && kind != "joint" then none
  let ws := match w with
    | some m => m
    | none => xi.map fun _ => noShift pop
  match zip4? xi tau ws ages with
  | none => some "err:shape"
  | some inds =>
    let (xi', logV0', nlognu') : List Float × List Float × Option (List Float) :=
      match kind, nlognu with
      | "joint", some n => let r := centerJoint xi logV0 n; (r.1, r.2.1, some r.2.2)
      | _, _ => let r := center xi logV0; (r.1, r.2, none)
    match zip4? xi' tau ws ages with
    | none => some "err:shape"
    | some inds' =>
      match cohortValues kind pop logV0 inds, cohortValues kind pop logV0' inds' with
      | some b, some a =>
        let nl := match nlognu' with | some n => fmtList fmtFloat n | none => "none"
        some s!"xi={fmtList fmtFloat xi'} logv0={fmtList fmtFloat logV0'} nlognu={nl} mean={fmtFloat (mean xi)} before={fmtList2 fmtFloat b} after={fmtList2 fmtFloat a}"
      | _, _ => some "err:shape"

def handleNuRep (args : List String) : Option String := do
  let n ← getF args "nlognu"
  let xi ← getF args "xi"
  let m ← getF args "m"
  let rho ← optF args "rho"
  let s ← optF args "s"
  -- centerJoint on the one-individual, one-event slices (the shift `m` is given: it is the cohort mean)
  let (b, a) := match rho, s with
    | some r, some sv => (nuRepSources (nuOf n) r xi sv, nuRepSources (nuOf (n + m)) r (xi - m) sv)
    | _, _ => (nuRep (nuOf n) xi, nuRep (nuOf (n + m)) (xi - m))
  some s!"before={fmtFloat b} after={fmtFloat a}"

def handleOrtho (args : List String) : Option String := do
  let dg ← getV args "dgamma"
  let G ← getV args "G"
  let j ← (kv args "j") >>= parseNat
  let betas ← optM args "betas"
  let src ← optM args "src"
  match orthoBasis1D Float.sqrt dg G j with
  | .error .negMetric => some "err:negmetric"
  | .error .size => some "err:size"
  | .error .stripCol => some "err:stripcol"
  | .ok B =>
    let n := dg.length
    let a := List.zipWith (· * ·) G dg
    let head := s!"basis={fmtList2 fmtFloat B} a={fmtList fmtFloat a}"
    match betas with
    | none => some s!"{head} mixing=none shifts=none"
    | some bt =>
      let ns := match bt with | r :: _ => r.length | [] => 0
      if bt.length ≠ n - 1 || bt.any (fun r => r.length ≠ ns) then some "err:shape" else
      let Bf : Nat → Nat → Float := fun i c => vec ((B.map vec).map (· c)) i
      let bet : Nat → Nat → Float := fun c s => vec ((bt.map vec).map (· s)) c
      let M := mixing n Bf bet
      let Ml := tabulate ns n M
      let sh := match src with
        | none => "none"
        | some ss =>
          if ss.any (fun r => r.length ≠ ns) then "err" else
          fmtList2 fmtFloat (ss.map fun r => (List.range n).map (spaceShift ns (vec r) M))
      if sh == "err" then some "err:shape" else
      some s!"{head} mixing={fmtList2 fmtFloat Ml} shifts={sh}"

def handleGram (args : List String) : Option String := do
  let dg ← getV args "dgamma"
  let G ← getV args "G"
  let j ← (kv args "j") >>= parseNat
  match orthoBasis1D Float.sqrt dg G j with
  | .error .negMetric => some "err:negmetric"
  | .error .size => some "err:size"
  | .error .stripCol => some "err:stripcol"
  | .ok _ =>
    let n := dg.length
    let a := vec (List.zipWith (· * ·) G dg)
    let g := tabulate (n - 1) (n - 1) (gramBasis Float.sqrt n a j)
    let gg := tabulate (n - 1) (n - 1) (gramBasisG Float.sqrt n (vec G) a j)
    let pr := tabulate n n (projBasis Float.sqrt n a j)
    let colj := (List.range n).map fun i => householderQ Float.sqrt n a j i j
    some s!"gram={fmtList2 fmtFloat g} gramg={fmtList2 fmtFloat gg} proj={fmtList2 fmtFloat pr} colj={fmtList fmtFloat colj} alpha={fmtFloat (hhAlpha Float.sqrt n a j)}"

def handleGauge2 (args : List String) : Option String := do
  let xi ← getV args "xi"
  let logV0 ← getV args "logv0"
  let nlognu ← optV args "nlognu"
  let c ← getF args "c"
  let mu ← getF args "mu"
  let sigma ← getF args "sigma"
  let cst ← getF args "cst"
  let fl := fmtList fmtFloat
  let nll : Float → Float := fun x => Dist.normalNllWith cst x mu sigma
  let (o, t, b) : (List Float × List Float × String) × (List Float × List Float × String) × (List Float × List Float × String) :=
    match nlognu with
    | some nl =>
      let r1 := centerJoint xi logV0 nl
      let r2 := centerJoint r1.1 r1.2.1 r1.2.2
      let sh := shiftJoint c xi logV0 nl
      let r3 := centerJoint sh.1 sh.2.1 sh.2.2
      ((r1.1, r1.2.1, fl r1.2.2), (r2.1, r2.2.1, fl r2.2.2), (r3.1, r3.2.1, fl r3.2.2))
    | none =>
      let r1 := center xi logV0
      let r2 := center r1.1 r1.2
      let sh := shift c xi logV0
      let r3 := center sh.1 sh.2
      ((r1.1, r1.2, "none"), (r2.1, r2.2, "none"), (r3.1, r3.2, "none"))
  let ss := suffXi xi logV0
  some (s!"once_xi={fl o.1} once_logv0={fl o.2.1} once_nlognu={o.2.2} twice_xi={fl t.1} twice_logv0={fl t.2.1} twice_nlognu={t.2.2} " ++
        s!"orbit_xi={fl b.1} orbit_logv0={fl b.2.1} orbit_nlognu={b.2.2} " ++
        s!"sum={fmtFloat (Gauge.sum ss.1)} sumsq={fmtFloat (Gauge.sum ss.2)} sumsq0={fmtFloat (Gauge.sum (sqr xi))} mean={fmtFloat (mean xi)} " ++
        s!"regul_before={fmtFloat (regulSum nll xi)} regul_after={fmtFloat (regulSum nll ss.1)}")

def handleSsVec (args : List String) : Option String := do
  let logG ← getF args "logg"
  let deltas ← getV args "deltas"
  let dp := padDeltas deltas
  let de := dp.map deltasExp
  let gde := de.map (gDeltasExp (ExpLog.exp logG))
  let collin := List.zipWith (fun d g => ssCollin d (ssDenom g)) de gde
  let gm := gde.map fun g => ssGMetric (ssGamma (ssDenom g))
  some s!"collin={fmtList fmtFloat collin} gmetric={fmtList fmtFloat gm} metric={fmtList fmtFloat (gde.map sharedMetric)}"

def handle (line : String) : String :=
  match line.splitOn " " with
  | "gauge" :: args => (handleGauge args).getD "bad-request"
  | "nurep" :: args => (handleNuRep args).getD "bad-request"
  | "ortho" :: args => (handleOrtho args).getD "bad-request"
  | "ssvec" :: args => (handleSsVec args).getD "bad-request"
  | "gram" :: args => (handleGram args).getD "bad-request"
  | "gauge2" :: args => (handleGauge2 args).getD "bad-request"
  | _ => "bad-request"

def main : IO Unit := loop handle
