import LeaspyVerif.Proto
import LeaspyVerif.Model.Traj
import LeaspyVerif.Model.Gauge
open LeaspyVerif LeaspyVerif.Proto LeaspyVerif.Traj LeaspyVerif.Gauge

/-
requests (floats are `f<uint64 bits>`; lists `a,b`; matrices `a,b;c,d`; `_` = empty, `none` = absent)

  gauge kind=logistic|linear|joint pop=<v> logv0=<v> xi=<v> tau=<v> w=<m|none> ages=<m> nlognu=<v|none>
        (pop = log_g for logistic / joint, g for linear; one `xi`, `tau`, row of `w`, row of `ages` per individual)
      → xi=<v> logv0=<v> nlognu=<v|none> mean=<f> before=<m> after=<m> | err:shape
        the centring of `Model/Gauge.lean` (`center` / `centerJoint`), and the model values of every individual
        (rows of one individual concatenated: ages × features) computed from the state before and after it

  nurep nlognu=<f> xi=<f> m=<f> rho=<f|none> s=<f|none>
      → before=<f> after=<f>        reparametrised Weibull scale before / after the joint centring by `m`

  ortho dgamma=<v> G=<v> j=<n> betas=<m|none> src=<m|none>
      → basis=<m> mixing=<m> shifts=<m> a=<v>  | err:negmetric | err:size | err:stripcol | err:shape
        `compute_orthonormal_basis(dgamma, G, strip_col=j)` (1-D metric), `(basis @ betas).T`, `sources @ mixing`
        (`betas` is (dim-1) × n_sources, `src` is n_individuals × n_sources)

  ssvec logg=<f> deltas=<v>
      → collin=<v> gmetric=<v> metric=<v>      the vectors the shared-speed model hands to `OrthoBasis`, and its metric
-/

def getF (args : List String) (k : String) : Option Float := (kv args k) >>= parseFloat
def getV (args : List String) (k : String) : Option (List Float) := (kv args k) >>= parseList parseFloat
def getM (args : List String) (k : String) : Option (List (List Float)) := (kv args k) >>= parseList2 parseFloat

def optF (args : List String) (k : String) : Option (Option Float) := do
  let s ← kv args k
  if s == "none" then some none else some <$> parseFloat s
def optV (args : List String) (k : String) : Option (Option (List Float)) := do
  let s ← kv args k
  if s == "none" then some none else some <$> parseList parseFloat s
def optM (args : List String) (k : String) : Option (Option (List (List Float))) := do
  let s ← kv args k
  if s == "none" then some none else some <$> parseList2 parseFloat s

def zip4? {α β γ δ : Type} : List α → List β → List γ → List δ → Option (List (α × β × γ × δ))
  | [], [], [], [] => some []
  | a :: as, b :: bs, c :: cs, d :: ds => (zip4? as bs cs ds).map ((a, b, c, d) :: ·)
  | _, _, _, _ => none

/-- model values of the whole cohort, one (flattened) block per individual -/
def cohortValues (kind : String) (pop logV0 : List Float)
    (inds : List (Float × Float × List Float × List Float)) : Option (List (List Float)) :=
  inds.mapM fun (xi, tau, w, ages) =>
    (if kind == "linear" then linearTraj pop logV0 w xi tau ages
     else logisticTraj pop logV0 w xi tau ages).map List.flatten

def handleGauge (args : List String) : Option String := do
  let kind ← kv args "kind"
  let pop ← getV args "pop"
  let logV0 ← getV args "logv0"
  let xi ← getV args "xi"
  let tau ← getV args "tau"
  let w ← optM args "w"
  let ages ← getM args "ages"
  let nlognu ← optV args "nlognu"
  if kind != "logistic" && kind != "linear" && kind != "joint" then none
  let ws := match w with
    | some m => m
    | none => xi.map fun _ => noShift pop
  match zip4? xi tau ws ages with
  | none => some "err:shape"
  | some inds =>
    let (xi', logV0', nlognu') : List Float × List Float × Option (List Float) :=
      match kind, nlognu with
      | "joint", some n => let r := centerJoint xi logV0 n; (r.1, r.2.1, some r.2.2)
      | _, _ => let r := center xi logV0; (r.1, r.2, none)
    match zip4? xi' tau ws ages with
    | none => some "err:shape"
    | some inds' =>
      match cohortValues kind pop logV0 inds, cohortValues kind pop logV0' inds' with
      | some b, some a =>
        let nl := match nlognu' with | some n => fmtList fmtFloat n | none => "none"
        some s!"xi={fmtList fmtFloat xi'} logv0={fmtList fmtFloat logV0'} nlognu={nl} mean={fmtFloat (mean xi)} before={fmtList2 fmtFloat b} after={fmtList2 fmtFloat a}"
      | _, _ => some "err:shape"

def handleNuRep (args : List String) : Option String := do
  let n ← getF args "nlognu"
  let xi ← getF args "xi"
  let m ← getF args "m"
  let rho ← optF args "rho"
  let s ← optF args "s"
  -- centerJoint on the one-individual, one-event slices (the shift `m` is given: it is the cohort mean)
  let (b, a) := match rho, s with
    | some r, some sv => (nuRepSources (nuOf n) r xi sv, nuRepSources (nuOf (n + m)) r (xi - m) sv)
    | _, _ => (nuRep (nuOf n) xi, nuRep (nuOf (n + m)) (xi - m))
  some s!"before={fmtFloat b} after={fmtFloat a}"

def handleOrtho (args : List String) : Option String := do
  let dg ← getV args "dgamma"
  let G ← getV args "G"
  let j ← (kv args "j") >>= parseNat
  let betas ← optM args "betas"
  let src ← optM args "src"
  match orthoBasis1D Float.sqrt dg G j with
  | .error .negMetric => some "err:negmetric"
  | .error .size => some "err:size"
  | .error .stripCol => some "err:stripcol"
  | .ok B =>
    let n := dg.length
    let a := List.zipWith (· * ·) G dg
    let head := s!"basis={fmtList2 fmtFloat B} a={fmtList fmtFloat a}"
    match betas with
    | none => some s!"{head} mixing=none shifts=none"
    | some bt =>
      let ns := match bt with | r :: _ => r.length | [] => 0
      if bt.length ≠ n - 1 || bt.any (fun r => r.length ≠ ns) then some "err:shape" else
      let Bf : Nat → Nat → Float := fun i c => vec ((B.map vec).map (· c)) i
      let bet : Nat → Nat → Float := fun c s => vec ((bt.map vec).map (· s)) c
      let M := mixing n Bf bet
      let Ml := tabulate ns n M
      let sh := match src with
        | none => "none"
        | some ss =>
          if ss.any (fun r => r.length ≠ ns) then "err" else
          fmtList2 fmtFloat (ss.map fun r => (List.range n).map (spaceShift ns (vec r) M))
      if sh == "err" then some "err:shape" else
      some s!"{head} mixing={fmtList2 fmtFloat Ml} shifts={sh}"

def handleSsVec (args : List String) : Option String := do
  let logG ← getF args "logg"
  let deltas ← getV args "deltas"
  let dp := padDeltas deltas
  let de := dp.map deltasExp
  let gde := de.map (gDeltasExp (ExpLog.exp logG))
  let collin := List.zipWith (fun d g => ssCollin d (ssDenom g)) de gde
  let gm := gde.map fun g => ssGMetric (ssGamma (ssDenom g))
  some s!"collin={fmtList fmtFloat collin} gmetric={fmtList fmtFloat gm} metric={fmtList fmtFloat (gde.map sharedMetric)}"

def handle (line : String) : String :=
  match line.splitOn " " with
  | "gauge" :: args => (handleGauge args).getD "bad-request"
  | "nurep" :: args => (handleNuRep args).getD "bad-request"
  | "ortho" :: args => (handleOrtho args).getD "bad-request"
  | "ssvec" :: args => (handleSsVec args).getD "bad-request"
  | _ => "bad-request"

def main : IO Unit := loop handle
