import LeaspyVerif.Proto
import LeaspyVerif.Model.Api
import LeaspyVerif.Model.Dag
import LeaspyVerif.Model.Footprint
open LeaspyVerif LeaspyVerif.Proto LeaspyVerif.Api

/-
request (one line = one whole call history on one object)
  seq shipped=<0|1> ops=<op,op,…>      op ∈ fit est mean mode scipy sim save load
      → res=<bit,…> same=<1|0|-,…> core=<bit,…>
        res[i]  : data / individual latent values are stored in the object after call i
        same[i] : the value returned by call i equals the value the same call returns on load(save(object))
                  (`-` for fit / save / load, which return nothing)
        core[i] : call i changed (params, hyper, pop)
  The externals are symbolic (`symExt`): a returned value is the term recording everything it was computed from.

request (one line = the footprint recorded during ONE real call, harness/footprint_c13.py)
  footprint call=<est|mean|mode|scipy|sim> nodes=<kind:desc/kind:desc/…> params=<ids> hyper=<ids> pop=<ids> data=<ids> ind=<ids>
            ops=<ev;ev;…>
      node   kind h (hyper-parameter, not settable) | s (settable independent) | l (linked); desc = `dag.sorted_children` (ranks)
      ev     s:<sid>:<node>:<0|1>  g:<sid>:<node>  r:<sid>  rp:<sid>  c:<src>:<dst>:<noauto>:<keepfork>  pc:<sid>  cl:<sid>
             m:<sid>:<0|1>  b:<sid>  a:<name>  sh:<src>:<dst>:<node>  x:<sid>:<what>  k:<sid>:<node>  new:<sid>
             *<r>*<p>  (run-length form: the p events just before are repeated r more times; expanded before anything is decided)
      → touches=<0|1> first=<index>:<ev>|- writes=<0|1> bound=<sid> same=<0|1|-> resid=<0|1|-> attrs=<0|1> shared=<0|1> verdict=<0|1>
        touches / writes : `Footprint.touchesOriginal` / `writesOriginal`;  bound, same, resid, attrs, shared : `Footprint.analyse`
        (same / resid are `-` when nothing is known about the state bound at the end);  verdict : `Footprint.verdict` for the call
  replay nodes=<kind:parents/…> (C01 syntax) params=… hyper=… pop=… data=… ind=… call=… ops=…
      → the same history executed on shadow values through `Footprint.stepEv` (= `State.step`): conc=<0|1>
        pure calls: state 0 has the same independent values, fork and mode, and every value that was cached;
        mean / mode: the state bound at the end has the protected values of the original state 0 and no data / individual value
-/

def parseOp (i : Nat) (s : String) : Option (Call String) :=
  match s with
  | "fit" => some (.fit s!"D{i}" s!"S{i}")
  | "est" => some (.estimate s!"I{i}")
  | "mean" => some (.persoMean s!"D{i}" s!"S{i}")
  | "mode" => some (.persoMode s!"D{i}" s!"S{i}")
  | "scipy" => some (.persoScipy s!"D{i}" s!"S{i}")
  | "sim" => some (.simulate s!"C{i}" s!"S{i}")
  | "save" => some .save
  | "load" => some .load
  | _ => none

def stepAll (shipped : Bool) : World String → List (Call String) → List (Bool × String × Bool)
  | _, [] => []
  | w, c :: cs =>
    let r := applyGen symExt shipped w c
    let same : String :=
      match r.2 with
      | none => "-"
      | some v =>
        let r' := applyGen symExt shipped { w with obj := freshCopy symExt w.obj } c
        if r'.2 == some v then "1" else "0"
    (r.1.obj.residual.isSome, same, r.1.obj.core != w.obj.core) :: stepAll shipped r.1 cs


/-! ### footprints -/

open LeaspyVerif.State LeaspyVerif.Footprint in
def parseEv (s : String) : Option (Ev Nat Unit) :=
  match s.splitOn ":" with
  | ["s", sid, i, v] => do
      let b ← parseBool v
      some (.op (.set (← parseNat sid) (← parseNat i) (if b then some 1 else none)))
  | ["g", sid, i] => do some (.op (.get (← parseNat sid) (← parseNat i)))
  | ["r", sid] => do some (.op (.revert (← parseNat sid) none))
  | ["rp", sid] => do some (.op (.revert (← parseNat sid) (some ())))
  | ["c", a, b, x, y] => do some (.op (.clone (← parseNat a) (← parseNat b) (← parseBool x) (← parseBool y)))
  | ["pc", sid] => do some (.op (.precompute (← parseNat sid)))
  | ["cl", sid] => do some (.op (.clear (← parseNat sid)))
  | ["m", sid, b] => do some (.op (.setMode (← parseNat sid) (← parseBool b)))
  | ["b", sid] => do some (.bind (← parseNat sid))
  | ["a", _] => some (.attr 0 0)
  | ["sh", a, b, i] => do some (.shared (← parseNat a) (← parseNat b) (← parseNat i))
  | ["x", sid, _] => do some (.havoc (← parseNat sid) none)
  | ["k", sid, _] => do some (.havoc (← parseNat sid) none)
  | ["new", sid] => do some (.havoc (← parseNat sid) none)
  | _ => none

/-- the events of a line: plain events, and `*<r>*<p>` = "the `p` events just before, `r` more times" (run-length form
    written by the recorder for the loops of scipy_minimize; expanded here, before anything is decided) -/
def parseEvents (toks : List String) : Option (List (Footprint.Ev Nat Unit) × List String) :=
  let rec go (ts : List String) (acc : Array (Footprint.Ev Nat Unit)) (names : Array String) :
      Option (Array (Footprint.Ev Nat Unit) × Array String) :=
    match ts with
    | [] => some (acc, names)
    | t :: rest =>
      if t.startsWith "*" then
        match t.splitOn "*" with
        | ["", r, p] => do
          let r ← parseNat r
          let p ← parseNat p
          if p == 0 || p > acc.size then none else
          let blk := acc.extract (acc.size - p) acc.size
          let nblk := names.extract (names.size - p) names.size
          let (acc', names') := (List.range r).foldl (fun (x : Array (Footprint.Ev Nat Unit) × Array String) _ =>
            (x.1 ++ blk, x.2 ++ nblk)) (acc, names)
          go rest acc' names'
        | _ => none
      else do
        let e ← parseEv t
        go rest (acc.push e) (names.push t)
  (go toks #[] #[]).map (fun x => (x.1.toList, x.2.toList))

def parseCall (s : String) : Option (Call (List (Option Nat))) :=
  match s with
  | "est" => some (.estimate [])
  | "mean" => some (.persoMean [] [])
  | "mode" => some (.persoMode [] [])
  | "scipy" => some (.persoScipy [] [])
  | "sim" => some (.simulate [] [])
  | _ => none

def parseClasses (args : List String) : Option Footprint.Classes := do
  let l (k : String) : Option (List Nat) := (kv args k) >>= parseList parseNat
  some { params := ← l "params", hyper := ← l "hyper", pop := ← l "pop", data := ← l "data", ind := ← l "ind" }

def kindOf (k : String) : State.Kind :=
  if k == "h" then .indep false else if k == "s" then .indep true else .linked

/-- graph with the descendant table of the real DAG; only `n`, `kind`, `desc` are looked at by the analysis -/
def mkFootGraph (nodes : List (String × List Nat)) : State.Graph Nat :=
  let arr := nodes.toArray
  { n := nodes.length
    kind := fun i => match arr[i]? with | some nd => kindOf nd.1 | none => .indep false
    parents := fun _ => []
    fn := fun _ _ => 0
    init := fun _ => none
    order := []
    desc := fun i => match arr[i]? with | some nd => nd.2 | none => []
    anc := fun _ => [] }

def parseFootNode (s : String) : Option (String × List Nat) :=
  match s.splitOn ":" with
  | [k, d] => do some (k, ← parseList parseNat d)
  | _ => none

open LeaspyVerif.Footprint in
def handleFootprint (args : List String) : Option String := do
  let call ← (kv args "call") >>= parseCall
  let nodes ← (splitNE (← kv args "nodes") "/").mapM parseFootNode
  let cls ← parseClasses args
  let opsS ← kv args "ops"
  let (evs, toks) ← parseEvents (splitNE opsS ";")
  let g := mkFootGraph nodes
  let touches := touchesOriginal evs
  let first := match firstTouch evs with
    | some i => s!"{i}:{toks.getD i "?"}"
    | none => "-"
  let writes := writesOriginal evs
  let v := verdict g cls call evs
  -- the abstract interpreter is only needed (and only run) for the calls that work on `model.state`
  let needAnalysis := match call with | .persoMean _ _ | .persoMode _ _ => true | _ => writes
  let (bound, same, resid, attrs, shared) :=
    if needAnalysis then
      let r := analyse g cls.prot Res.init evs
      match r.abs.get r.bound with
      | some a => (toString r.bound, fmtBool a.same, fmtBool (cls.resid.all (fun i => a.cleared.contains i)),
                   fmtBool r.attrsWritten, fmtBool r.sharedSeen)
      | none => (toString r.bound, "-", "-", fmtBool r.attrsWritten, fmtBool r.sharedSeen)
    else ("0", "1", "-", "0", "0")
  some s!"touches={fmtBool touches} first={first} writes={fmtBool writes} bound={bound} same={same} resid={resid} attrs={attrs} shared={shared} verdict={fmtBool v}"

/-! ### the same history on shadow values -/

structure RNode where
  kind : String
  parents : List Nat

def parseRNode (s : String) : Option RNode :=
  match s.splitOn ":" with
  | [k, ps] => do some { kind := k, parents := ← parseList parseNat ps }
  | _ => none

def mkReplayGraph (nodes : List RNode) (r : Dag.Result) : State.Graph Nat :=
  let arr := nodes.toArray
  let desc := (Array.range nodes.length).map r.children
  let anc := (Array.range nodes.length).map r.ancestors
  { n := nodes.length
    kind := fun i => match arr[i]? with | some nd => kindOf nd.kind | none => .indep false
    parents := fun i => match arr[i]? with | some nd => nd.parents | none => []
    fn := fun i ps => (ps.foldl (fun a b => (31 * a + b) % 1000003) (i + 7))
    init := fun i => match arr[i]? with | some nd => if nd.kind == "h" then some (1000 + i) else none | none => none
    order := r.order
    desc := fun i => desc.getD i []
    anc := fun i => anc.getD i [] }

/-- materialise a state so that look-ups stay O(1) along the history (cf. drivers/C01.lean) -/
def normStN (n : Nat) (s : State.St Nat) : State.St Nat :=
  let arr := (Array.range n).map s.vals
  { s with vals := fun i => match arr[i]? with | some v => v | none => none }

open LeaspyVerif.State LeaspyVerif.Footprint in
def evTarget : Ev Nat Unit → Option Nat
  | .op o => some (target o)
  | .havoc sid _ => some sid
  | _ => none

open LeaspyVerif.State LeaspyVerif.Footprint in
def replayRun (g : Graph Nat) (w : Footprint.World Nat) (evs : List (Ev Nat Unit)) : Footprint.World Nat :=
  evs.foldl (fun w e =>
    let w' := stepEv g (fun _ o _ => o) w e
    match evTarget e with
    | some sid =>
      match w'.store sid with
      | some s =>
        let s' := normStN g.n s
        let table := ((List.range (sid + 1)).map w'.store).toArray.set! sid (some s')
        -- states are few: keep the store as a short closure chain over a materialised prefix
        { w' with store := fun k => if k ≤ sid then table.getD k none else w'.store k }
      | none => w'
    | none => w') w

open LeaspyVerif.State LeaspyVerif.Footprint in
def handleReplay (args : List String) : Option String := do
  let call ← (kv args "call") >>= parseCall
  let nodes ← (splitNE (← kv args "nodes") "/").mapM parseRNode
  let cls ← parseClasses args
  let (evs, _) ← parseEvents (splitNE (← kv args "ops") ";")
  let dg := Dag.Graph.ofLists (nodes.map RNode.parents)
  match Dag.build dg with
  | .error _ => some "err:dag"
  | .ok r =>
    let g := mkReplayGraph nodes r
    let n := g.n
    -- a fitted model: every independent variable holds a value, derived values not cached yet, a pending fork on node 0
    let s0 : St Nat := normStN n
      { vals := fun i => match g.kind i with | .indep _ => some (100 + i) | .linked => none
        fork := none, mode := true }
    let w0 : Footprint.World Nat := { store := fun k => if k = 0 then some s0 else none, bound := 0, attrs := fun _ => none }
    let w1 := replayRun g w0 evs
    let isMcmc := match call with | .persoMean _ _ | .persoMode _ _ => true | _ => false
    let ok : Bool :=
      if isMcmc then
        match w1.store w1.bound with
        | some s1 => cls.prot.all (fun p => s1.vals p == s0.vals p) && cls.resid.all (fun i => (s1.vals i).isNone)
                      && (w1.attrs 0).isNone
        | none => false
      else
        match w1.store 0 with
        | some s1 =>
          w1.bound == 0 && (w1.attrs 0).isNone && s1.mode == s0.mode && s1.fork.isNone
            && (List.range n).all (fun j => match g.kind j with
                | .indep _ => s1.vals j == s0.vals j
                | .linked => (s0.vals j).isNone || s1.vals j == s0.vals j)
        | none => false
    some s!"conc={fmtBool ok}"

def handle (line : String) : String :=
  match line.splitOn " " with
  | "seq" :: args =>
    (do
      let sh ← (kv args "shipped") >>= parseBool
      let opsS ← kv args "ops"
      let ops ← ((splitNE opsS ",").zipIdx).mapM (fun (p : String × Nat) => parseOp p.2 p.1)
      let w0 : World String := ⟨⟨"p0", "h", symExt.priorMode "p0", none⟩, none⟩
      let r := stepAll sh w0 ops
      some s!"res={fmtList (fun (x : Bool × String × Bool) => fmtBool x.1) r} same={fmtList (fun (x : Bool × String × Bool) => x.2.1) r} core={fmtList (fun (x : Bool × String × Bool) => fmtBool x.2.2) r}"
      ).getD "bad-request"
  | "footprint" :: args => (handleFootprint args).getD "bad-request"
  | "replay" :: args => (handleReplay args).getD "bad-request"
  | _ => "bad-request"

def main : IO Unit := loop handle
