import LeaspyVerif.Proto
import LeaspyVerif.Model.Api
open LeaspyVerif LeaspyVerif.Proto LeaspyVerif.Api

/-
request (one line = one whole call history on one object)
  seq shipped=<0|1> ops=<op,op,…>      op ∈ fit est mean mode scipy sim save load
      → res=<bit,…> same=<1|0|-,…> core=<bit,…>
        res[i]  : data / individual latent values are stored in the object after call i
        same[i] : the value returned by call i equals the value the same call returns on load(save(object))
                  (`-` for fit / save / load, which return nothing)
        core[i] : call i changed (params, hyper, pop)
  The externals are symbolic (`symExt`): a returned value is the term recording everything it was computed from.
-/

def parseOp (i : Nat) (s : String) : Option (Call String) :=
  match s with
  | "fit" => some (.fit s!"D{i}" s!"S{i}")
  | "est" => some (.estimate s!"I{i}")
  | "mean" => some (.persoMean s!"D{i}" s!"S{i}")
  | "mode" => some (.persoMode s!"D{i}" s!"S{i}")
  | "scipy" => some (.persoScipy s!"D{i}" s!"S{i}")
  | "sim" => some (.simulate s!"C{i}" s!"S{i}")
  | "save" => some .save
  | "load" => some .load
  | _ => none

def stepAll (shipped : Bool) : World String → List (Call String) → List (Bool × String × Bool)
  | _, [] => []
  | w, c :: cs =>
    let r := applyGen symExt shipped w c
    let same : String :=
      match r.2 with
      | none => "-"
      | some v =>
        let r' := applyGen symExt shipped { w with obj := freshCopy symExt w.obj } c
        if r'.2 == some v then "1" else "0"
    (r.1.obj.residual.isSome, same, r.1.obj.core != w.obj.core) :: stepAll shipped r.1 cs

def handle (line : String) : String :=
  match line.splitOn " " with
  | "seq" :: args =>
    (do
      let sh ← (kv args "shipped") >>= parseBool
      let opsS ← kv args "ops"
      let ops ← ((splitNE opsS ",").zipIdx).mapM (fun (p : String × Nat) => parseOp p.2 p.1)
      let w0 : World String := ⟨⟨"p0", "h", symExt.priorMode "p0", none⟩, none⟩
      let r := stepAll sh w0 ops
      some s!"res={fmtList (fun (x : Bool × String × Bool) => fmtBool x.1) r} same={fmtList (fun (x : Bool × String × Bool) => x.2.1) r} core={fmtList (fun (x : Bool × String × Bool) => fmtBool x.2.2) r}"
      ).getD "bad-request"
  | _ => "bad-request"

def main : IO Unit := loop handle
