import LeaspyVerif.Proto
import LeaspyVerif.Model.Simulate
open LeaspyVerif LeaspyVerif.Proto LeaspyVerif.Simulate

/-
requests (one line = one complete case; numbers are float64 bit patterns `f<uint64>`)

  validate <design>                                   → ok | err:algo | err:other:<PythonClass>
  run <design> dim=<n> src=<n> tau=<f,…|_> fv=<f,…|_> fu=<f,…|_> steps=<f,…|_>
        → ok p=<precision> unused=<n> ind=<id>:<f,…>;<id>:<f,…>…    (final ages, float64 bits)
        | err:algo | err:other:<PythonClass> | fuel-exhausted | no-draws (accepted random design sent without its draws)
  ages t0=<f> fu=<f> steps=<f,…|_>                    → ages=<f,…> unused=<n> | fuel-exhausted
  round p=<n> ages=<f,…|_>                            → keys=<int,…> ages=<f,…> | err:other:…
  precision ms=<f>                                    → p=<n>

<design> := vt=<nodict|absent|random|dataframe|unknown> features=<notlist|_|tok,tok,…>  (tok = n | s<hex utf8>)
            pn= fvm= fvs= fum= fus= dvm= dvs= ms=      (each <absent|i<int>|f<bits>|nan|pinf|ninf|other>)
            table=<absent|notframe|frame> idat=<missing|index|column> timeat=<…> timenull=<0|1>
            rows=<idtok:f<bits>;…|_>                   (idtok = s<hex> | i<int>)
-/

def hexVal (c : Char) : Option Nat :=
  if '0' ≤ c ∧ c ≤ '9' then some (c.toNat - '0'.toNat)
  else if 'a' ≤ c ∧ c ≤ 'f' then some (c.toNat - 'a'.toNat + 10)
  else none

def hexDecode (s : String) : Option String :=
  let rec go : List Char → List Char → Option (List Char)
    | [], acc => some acc.reverse
    | [_], _ => none
    | a :: b :: rest, acc => do
      let x ← hexVal a
      let y ← hexVal b
      go rest (Char.ofNat (16 * x + y) :: acc)
  String.ofList <$> go s.toList []

def hexDigit (n : Nat) : Char := if n < 10 then Char.ofNat (48 + n) else Char.ofNat (87 + n)

def hexEncode (s : String) : String :=
  String.ofList (s.toList.flatMap fun c => [hexDigit (c.toNat / 16), hexDigit (c.toNat % 16)])

def parseVal (s : String) : Option (Val Float) :=
  if s == "absent" then some .absent
  else if s == "nan" then some .nan
  else if s == "pinf" then some .posInf
  else if s == "ninf" then some .negInf
  else if s == "other" then some .other
  else if s.startsWith "i" then Val.int <$> (s.drop 1).toString.toInt?
  else if s.startsWith "f" then Val.float <$> parseFloat s
  else none

def parseVT (s : String) : Option VisitType :=
  match s with
  | "nodict" => some .noDict | "absent" => some .absent | "random" => some .random
  | "dataframe" => some .dataframe | "unknown" => some .unknown | _ => none

/-- python's `str.isspace` on ASCII: TAB, LF, VT, FF, CR, FS, GS, RS, US and the blank (`"\x0b\x0c ".strip() == ""`);
    Lean's `Char.isWhitespace` knows four of them only. -/
def pyAsciiSpace (c : Char) : Bool :=
  let n := c.toNat
  (9 ≤ n && n ≤ 13) || (28 ≤ n && n ≤ 32)

def parseFeat (s : String) : Option Feat :=
  if s == "n" then some .notStr
  else if s.startsWith "s" then (fun n => Feat.str n (n.toList.all pyAsciiSpace)) <$> hexDecode (s.drop 1).toString
  else none

def parseFeatures (s : String) : Option Features :=
  if s == "notlist" then some .notList else Features.list <$> parseList parseFeat s

def parseWhere (s : String) : Option Where :=
  match s with
  | "missing" => some .missing | "index" => some .index | "column" => some .column | _ => none

def parseTId (s : String) : Option TId :=
  if s.startsWith "s" then TId.str <$> hexDecode (s.drop 1).toString
  else if s.startsWith "i" then TId.int <$> (s.drop 1).toString.toInt?
  else none

def parseRow (s : String) : Option (TId × Float) :=
  match s.splitOn ":" with
  | [i, t] => do
    let i ← parseTId i
    let t ← parseFloat t
    some (i, t)
  | _ => none

def parseTable (args : List String) : Option (Table Float) := do
  let k ← kv args "table"
  match k with
  | "absent" => some .absent
  | "notframe" => some .notFrame
  | "frame" =>
    let idAt ← (kv args "idat") >>= parseWhere
    let timeAt ← (kv args "timeat") >>= parseWhere
    let tn ← (kv args "timenull") >>= parseBool
    let rows ← (kv args "rows") >>= fun s => parseList parseRow s ";"
    some (.frame idAt timeAt tn rows)
  | _ => none

def parseDesign (args : List String) : Option (Design Float) := do
  let vt ← (kv args "vt") >>= parseVT
  let fs ← (kv args "features") >>= parseFeatures
  let g := fun k => (kv args k) >>= parseVal
  let pn ← g "pn"; let fvm ← g "fvm"; let fvs ← g "fvs"; let fum ← g "fum"; let fus ← g "fus"
  let dvm ← g "dvm"; let dvs ← g "dvs"; let ms ← g "ms"
  let tb ← parseTable args
  some { features := fs, visitType := vt, patientNumber := pn, firstVisitMean := fvm, firstVisitStd := fvs,
         followUpMean := fum, followUpStd := fus, distMean := dvm, distStd := dvs, minSpacing := ms, table := tb }

def fmtErr : Err → String
  | .algoInput => "err:algo"
  | .keyError => "err:other:KeyError"
  | .typeError => "err:other:TypeError"
  | .attributeError => "err:other:AttributeError"
  | .valueError => "err:other:ValueError"
  | .dataInput => "err:data"

def fmtIndiv (p : Nat) (i : Indiv) : String :=
  s!"{hexEncode i.id}:{fmtList (fun k => fmtFloat (floatEnv.ofKey p k)) i.keys}"

def stream (l : List Float) : Nat → Float := fun i => l.getD i 0

def handle (line : String) : String :=
  match line.splitOn " " with
  | "validate" :: args =>
    (do
      let d ← parseDesign args
      match validate d with
      | .ok () => some "ok"
      | .error e => some (fmtErr e)).getD "bad-request"
  | "run" :: args =>
    (do
      let d ← parseDesign args
      let dim ← (kv args "dim") >>= parseNat
      let src ← (kv args "src") >>= parseNat
      let tau ← (kv args "tau") >>= parseList parseFloat
      let fv ← (kv args "fv") >>= parseList parseFloat
      let fu ← (kv args "fu") >>= parseList parseFloat
      let steps ← (kv args "steps") >>= parseList parseFloat
      -- the recorded arrays must have one entry per requested individual (they are indexed below)
      let n := match d.visitType, d.patientNumber with
        | .random, .int n => n.toNat
        | _, _ => 0
      if tau.length ≠ fv.length || fv.length ≠ fu.length || (tau.length ≠ 0 && tau.length ≠ n) then none else
      -- a refused design never indexes the arrays
      match run floatEnv d ⟨dim, src⟩ ⟨stream tau, stream fv, stream fu, steps⟩ with
      | none => some "fuel-exhausted"
      | some (.error e) => some (fmtErr e)
      | some (.ok (p, out, unused)) =>
        if tau.length ≠ n && d.visitType == VisitType.random then some "no-draws" else
        some s!"ok p={p} unused={unused} ind={fmtList (fmtIndiv p) out ";"}").getD "bad-request"
  | "ages" :: args =>
    (do
      let t0 ← (kv args "t0") >>= parseFloat
      let fu ← (kv args "fu") >>= parseFloat
      let steps ← (kv args "steps") >>= parseList parseFloat
      match genAges fu t0 steps with
      | none => some "fuel-exhausted"
      | some (ages, rest) => some s!"ages={fmtList fmtFloat ages} unused={rest.length}").getD "bad-request"
  | "round" :: args =>
    (do
      let p ← (kv args "p") >>= parseNat
      let ages ← (kv args "ages") >>= parseList parseFloat
      match finalize (floatEnv.roundKey p) ages with
      | .error e => some (fmtErr e)
      | .ok ks => some s!"keys={fmtList toString ks} ages={fmtList (fun k => fmtFloat (floatEnv.ofKey p k)) ks}").getD "bad-request"
  | "precision" :: args =>
    (do
      let ms ← (kv args "ms") >>= parseFloat
      some s!"p={precisionOf floatEnv ms}").getD "bad-request"
  | _ => "bad-request"

def main : IO Unit := loop handle
