import LeaspyVerif.Proto
import LeaspyVerif.Model.Saem
open LeaspyVerif LeaspyVerif.Proto LeaspyVerif.Saem

/-
requests
  nburn niter=<n> count=<n|none> frac=<f…|none>          → nb=<n> | err:algo
  power p=<f…>                                            → ok | err:algo
  run nb=<n> power=<f…> s=<f…,f…,…>                      → S=<f,…> burn=<bits>
  ctor niter=<int> count=<int|none> frac=<f…|none> p=<f…> → nb=<int> warn=<0|1> | err:algo | err:other:ValueError | err:other:OverflowError
  weights nb=<n> power=<f…> n=<n>                         → rows k=1…n of weight k j (j=1…n) on doubles, `;`-separated
  rund nb=<int> power=<f…> dtype=f64|f32 s=<it;it;…>      → S=<it;it;…> burn=<bits> err=<none|AttributeError|KeyError|RuntimeError>
        it = key:v,v,…|key:v,…  (`~` = empty dict, `_` = empty tensor); float32 values travel as the double of equal value
-/

def parseDict {β} (pv : String → Option β) (s : String) : Option (Dict String β) :=
  if s == "~" then some [] else
  (s.splitOn "|").mapM (fun ent =>
    match ent.splitOn ":" with
    | [k, vs] => (fun l => (k, l)) <$> parseList pv vs
    | _ => none)

def fmtDict {β} (fv : β → String) (d : Dict String β) : String :=
  if d.isEmpty then "~" else "|".intercalate (d.map (fun kv => s!"{kv.1}:{fmtList fv kv.2}"))

def fmtRunErr : Option RunErr → String
  | none => "none"
  | some .attributeError => "AttributeError"
  | some .keyError => "KeyError"
  | some .runtimeError => "RuntimeError"

def fmtRunOut {β} (fv : β → String) (o : RunOut String β) : String :=
  let S := if o.calls.isEmpty then "_" else ";".intercalate (o.calls.map (fun c => fmtDict fv c.1))
  s!"S={S} burn={fmtList (fun (c : Dict String β × Bool) => fmtBool c.2) o.calls} err={fmtRunErr o.err}"

def handle (line : String) : String :=
  match line.splitOn " " with
  | "nburn" :: args =>
    (do
      let n ← (kv args "niter") >>= parseNat
      let c ← kv args "count"
      let f ← kv args "frac"
      let count ← if c == "none" then some none else some <$> parseNat c
      let frac ← if f == "none" then some none else some <$> parseFloat f
      match nBurn n count frac with
      | some nb => some s!"nb={nb}"
      | none => some "err:algo").getD "bad-request"
  | "power" :: args =>
    (do
      let p ← (kv args "p") >>= parseFloat
      some (if powerOk p then "ok" else "err:algo")).getD "bad-request"
  | "run" :: args =>
    (do
      let nb ← (kv args "nb") >>= parseNat
      let p ← (kv args "power") >>= parseFloat
      let ss ← (kv args "s") >>= parseList parseFloat
      let r := run (stepSizeF p) nb ss
      some s!"S={fmtList (fun (x : Float × Bool) => fmtFloat x.1) r} burn={fmtList (fun (x : Float × Bool) => fmtBool x.2) r}").getD "bad-request"
  | "ctor" :: args =>
    (do
      let n ← (kv args "niter") >>= parseInt
      let c ← kv args "count"
      let f ← kv args "frac"
      let p ← (kv args "p") >>= parseFloat
      let count ← if c == "none" then some none else some <$> parseInt c
      let frac ← if f == "none" then some none else some <$> parseFloat f
      match ctorZ n count frac p with
      | .ok nb => some s!"nb={nb} warn={fmtBool (warnsDeprecated count frac)}"
      | .error .algoInput => some "err:algo"
      | .error .valueError => some "err:other:ValueError"
      | .error .overflowError => some "err:other:OverflowError").getD "bad-request"
  | "weights" :: args =>
    (do
      let nb ← (kv args "nb") >>= parseNat
      let p ← (kv args "power") >>= parseFloat
      let n ← (kv args "n") >>= parseNat
      let rows := (List.range n).map (fun k => (List.range n).map (fun j =>
        weight (stepSizeF p) (complF p) nb (k + 1) (j + 1)))
      some (fmtList2 fmtFloat rows)).getD "bad-request"
  | "rund" :: args =>
    (do
      let nb ← (kv args "nb") >>= parseInt
      let p ← (kv args "power") >>= parseFloat
      let dt ← kv args "dtype"
      let s ← kv args "s"
      let its := if s == "_" then [] else s.splitOn ";"
      if dt == "f64" then
        let ss ← its.mapM (parseDict parseFloat)
        some (fmtRunOut fmtFloat (runD (stepSizeF p) (complF p) nb ss))
      else if dt == "f32" then
        let ss ← its.mapM (parseDict (fun x => Float.toFloat32 <$> parseFloat x))
        some (fmtRunOut (fun (x : Float32) => fmtFloat x.toFloat) (runD (stepSizeF32 p) (complF32 p) nb ss))
      else none).getD "bad-request"
  | _ => "bad-request"

def main : IO Unit := loop handle
