import LeaspyVerif.Proto
import LeaspyVerif.Model.Saem
open LeaspyVerif LeaspyVerif.Proto LeaspyVerif.Saem

/-
requests
  nburn niter=<n> count=<n|none> frac=<f…|none>          → nb=<n> | err:algo
  power p=<f…>                                            → ok | err:algo
  run nb=<n> power=<f…> s=<f…,f…,…>                      → S=<f,…> burn=<bits>
-/
def handle (line : String) : String :=
  match line.splitOn " " with
  | "nburn" :: args =>
    (do
      let n ← (kv args "niter") >>= parseNat
      let c ← kv args "count"
      let f ← kv args "frac"
      let count ← if c == "none" then some none else some <$> parseNat c
      let frac ← if f == "none" then some none else some <$> parseFloat f
      match nBurn n count frac with
      | some nb => some s!"nb={nb}"
      | none => some "err:algo").getD "bad-request"
  | "power" :: args =>
    (do
      let p ← (kv args "p") >>= parseFloat
      some (if powerOk p then "ok" else "err:algo")).getD "bad-request"
  | "run" :: args =>
    (do
      let nb ← (kv args "nb") >>= parseNat
      let p ← (kv args "power") >>= parseFloat
      let ss ← (kv args "s") >>= parseList parseFloat
      let r := run (stepSizeF p) nb ss
      some s!"S={fmtList (fun (x : Float × Bool) => fmtFloat x.1) r} burn={fmtList (fun (x : Float × Bool) => fmtBool x.2) r}").getD "bad-request"
  | _ => "bad-request"

def main : IO Unit := loop handle
