import LeaspyVerif.Proto
import LeaspyVerif.Model.Masked
import LeaspyVerif.Model.Taint
open LeaspyVerif LeaspyVerif.Proto LeaspyVerif.Masked

/-
requests (values: exact rationals `p/q`, or `nan`, `inf`, `-inf`; weights: bit strings, `none` = regular tensor)

  wsum fill=<x> keys=<k,…> n=<nOut> vals=<x,…> w=<bits>
        → sums=<x,…> counts=<n,…>                                   (wsum_dim: both components)
  eval nvars=<n> v0=<x,…> w0=<bits|none> v1=… w1=… keys0=<k,…> n0=<n> keys1=… n1=… prog=<tok;tok;…>
        → plain:<x,…> | wt:<x,…>:<bits> | err:shape | err:weights | err:unbound
    prog is postfix: `v<i>` | `add` `sub` `mul` `div` | `neg:<fill>` `sqr:<fill>` `ext<i>:<fill>` (fill = `none` or a value)
                     | `wv` (.weighted_value) | `rw` (reweight a b) | `sum<j>` (sum_dim with keys<j>, n<j>)
    external function table:  0 = identity, 1 = x ↦ x/2 + 1/4, 2 = abs

  taint outs=<id,…> nodes=<node;…> roles=<r;…> pops=<f,…;…> inds=<f,…;…> unks=<f,…;…>
        the torch program recorded from the real code (IR of `drivers/C07.lean` / `Model/Trace.lean`: nodes `P I J U K E O`),
        translated by `Taint.toGather`; `roles`: one per data input (`I`/`J`, in order): `k` = known constant (the mask),
        `c` = clean, `d<bits>` = bit 1 marks a garbage position; doubles are `f<bits>` (nan / ±inf included)
        → flags=<id>:<one of k,c,d per element>;…   abstract value of every element of the requested outputs
          vals=<id>:<shape>:<f,…>;…                 their values under the gather semantics on doubles
          dirtyesc=<ids|_>                          `E` nodes (python escapes) that read a dirty element
          unsupported=<ids|_>                       operations outside the table (treated as all-dirty inputs)
          xcheck=<1|0:id|na>                         the gather evaluation equals `Trace.fnApply`'s on every translated node
  taintpath … out=<id> pos=<q>
        → path=<id>:<q>,…                           a chain of dirty operands from that element back to a garbage input cell
-/

def parseX (s : String) : Option XVal :=
  if s == "nan" then some .nan
  else if s == "inf" then some .pinf
  else if s == "-inf" then some .ninf
  else XVal.fin <$> parseRat s

def fmtX : XVal → String
  | .fin q => fmtRat q
  | .pinf => "inf"
  | .ninf => "-inf"
  | .nan => "nan"

def parseBits (s : String) : Option (List Bool) :=
  if s == "_" then some [] else s.toList.mapM (fun c => if c == '1' then some true else if c == '0' then some false else none)

def fmtBits (l : List Bool) : String :=
  if l.isEmpty then "_" else String.ofList (l.map (fun b => if b then '1' else '0'))

def mkMT (vals : List XVal) (w : String) : Option MT :=
  if w == "none" then some (.plain vals) else do
    let bits ← parseBits w
    if bits.length ≠ vals.length then none else some (.wt (vals.zip bits))

def fmtMT : MT → String
  | .plain v => s!"plain:{fmtList fmtX v}"
  | .wt c => s!"wt:{fmtList fmtX (c.map Prod.fst)}:{fmtBits (c.map Prod.snd)}"

def fmtErr : Err → String
  | .shape => "err:shape"
  | .weightsDiffer => "err:weights"
  | .unbound => "err:unbound"

def absX : XVal → XVal
  | .fin q => .fin (if q < 0 then -q else q)
  | .pinf => .pinf
  | .ninf => .pinf
  | .nan => .nan

def extTable (i : Nat) (x : XVal) : XVal :=
  match i with
  | 0 => x
  | 1 => XVal.add (XVal.mul (.fin (1/2)) x) (.fin (1/4))
  | _ => absX x

def parseFill (s : String) : Option (Option XVal) :=
  if s == "none" then some none else some <$> parseX s

/-- postfix program → expression -/
def buildExpr (keysTab : List (List Nat × Nat)) (toks : List String) : Option MExpr :=
  let rec go (toks : List String) (stack : List MExpr) : Option MExpr :=
    match toks with
    | [] => match stack with
      | [e] => some e
      | _ => none
    | t :: rest =>
      let bin (op : BinOp) := match stack with
        | b :: a :: st => go rest (.bin op a b :: st)
        | _ => none
      if t == "add" then bin .add
      else if t == "sub" then bin .sub
      else if t == "mul" then bin .mul
      else if t == "div" then bin .div
      else if t == "wv" then match stack with
        | a :: st => go rest (.weighted a :: st)
        | _ => none
      else if t == "rw" then match stack with
        | b :: a :: st => go rest (.reweight a b :: st)
        | _ => none
      else if t.startsWith "sum" then do
        let j ← (t.drop 3).toString.toNat?
        let (keys, n) ← keysTab[j]?
        match stack with
        | a :: st => go rest (.sumDim keys n a :: st)
        | _ => none
      else if t.startsWith "v" then do
        let i ← (t.drop 1).toString.toNat?
        go rest (.var i :: stack)
      else
        match t.splitOn ":" with
        | [name, f] => do
          let fill ← parseFill f
          let op ← (if name == "neg" then some UnOp.neg
                    else if name == "sqr" then some UnOp.sqr
                    else if name.startsWith "ext" then UnOp.ext <$> (name.drop 3).toString.toNat?
                    else none)
          match stack with
          | a :: st => go rest (.un op fill a :: st)
          | _ => none
        | _ => none
  go toks []

/-! ### recorded programs (`Model/Taint.lean`) -/
namespace TaintDrv
open LeaspyVerif.Trace LeaspyVerif.Taint

def floatOps : Ops Float :=
  { zero := 0, one := 1, add := (· + ·), sub := (· - ·), mul := (· * ·), div := (· / ·), lt := (· < ·), eq := (· == ·),
    exp := Float.exp, log := Float.log, pow := Float.pow, sqrt := Float.sqrt, ofNat := Float.ofNat }

def parseShape (s : String) : Option (List Nat) := parseList parseNat s "x"
def fmtShape (s : List Nat) : String := fmtList toString s "x"

def parseEw : String → Option Ew
  | "add" => some .add | "sub" => some .sub | "mul" => some .mul | "div" => some .div | "pow" => some .pow
  | "ge" => some .ge | "gt" => some .gt | "le" => some .le | "lt" => some .lt | "eq" => some .eq | "ne" => some .ne
  | "and" => some .and | "or" => some .or | "not" => some .not | "neg" => some .neg | "exp" => some .exp
  | "log" => some .log | "log1p" => some .log1p | "sigmoid" => some .sigmoid | "sign" => some .sign | "abs" => some .abs
  | "sqrt" => some .sqrt | "square" => some .square | "id" => some .id | "where" => some .where_
  | "maximum" => some .maximum | "minimum" => some .minimum | "bce" => some .bce | "fill0" => some .fill0
  | "fill1" => some .fill1 | _ => none

def parseRed : String → Option Red
  | "sum" => some .sum | "prod" => some .prod | "max" => some .max | "min" => some .min | "mean" => some .mean
  | "all" => some .all | "any" => some .any | "median" => some .median | _ => none

def parseOptInt (s : String) : Option (Option Int) := if s == "_" || s == "" then some none else some <$> parseInt s

def parseIx (s : String) : Option Ix :=
  if s == ":" then some .all else if s == "N" then some .new else if s == "E" then some .ell
  else if s.startsWith "i" then Ix.at <$> parseInt (s.drop 1).toString
  else if s.startsWith "s" then
    match (s.drop 1).toString.splitOn ":" with
    | [a, b, c] => do
      let a ← parseOptInt a
      let b ← parseOptInt b
      let c ← parseNat c
      some (.slice a b c)
    | _ => none
  else none

def parseTOp (name params : String) : Option (TOp Float) :=
  match name.splitOn "." with
  | ["ew", e] => TOp.ew <$> parseEw e
  | ["red", r] => do
    let k ← parseRed r
    match params.splitOn ":" with
    | [ds, keep] => do
      let ds ← parseList parseInt ds
      let keep ← parseBool keep
      some (.red k ds keep)
    | _ => none
  | ["view"] => some .view
  | ["squeeze"] => TOp.squeeze <$> parseOptInt params
  | ["unsqueeze"] => TOp.unsqueeze <$> parseInt params
  | ["expand"] => some .expand
  | ["getitem"] => TOp.getitem <$> parseList parseIx params
  | ["cat"] => TOp.cat <$> parseInt params
  | ["stack"] => TOp.stack <$> parseInt params
  | ["matmul"] => some .matmul
  | ["transpose"] => match params.splitOn "," with
    | [a, b] => do some (.transpose (← parseInt a) (← parseInt b))
    | _ => none
  | ["softmax"] => TOp.softmax <$> parseInt params
  | ["cumsum"] => TOp.cumsum <$> parseInt params
  | ["mselect"] => some .mselect
  | ["mscatter"] => some .mscatter
  | "unknown" :: rest => some (.unknown (".".intercalate rest))
  | _ => none

def parseNode (s : String) : Option (TNode Float) :=
  match s.splitOn "|" with
  | ["P", k, sh] => do some (.pop (← parseNat k) (← parseShape sh))
  | ["I", k, sh] => do some (.ind (← parseNat k) (← parseShape sh))
  | ["J", k, sh] => do some (.ind1 (← parseNat k) (← parseShape sh))
  | ["U", k, sh] => do some (.unk (← parseNat k) (← parseShape sh))
  | ["K", sh, d] => do
    let sh ← parseShape sh
    let d ← parseList parseFloat d
    if d.length != numel sh then none
    some (.op (.const ⟨sh, d.toArray⟩) [] sh)
  | ["E", a, w] => do some (.escape (← parseNat a) (← parseBool w))
  | ["O", name, args, sh, params] => do
    let o ← parseTOp name params
    some (.op o (← parseList parseNat args) (← parseShape sh))
  | _ => none

/-- well-scoped: every argument is an earlier node -/
def wellScoped (nodes : List (TNode Float)) : Bool :=
  nodes.zipIdx.all fun (nd, i) => match nd with
    | .op _ args _ => args.all (· < i)
    | .escape a _ => a < i
    | _ => true


def parseProg (args : List String) : Option (List (TNode Float) × List Nat) := do
  let outs ← (kv args "outs") >>= parseList parseNat
  let nodes ← (kv args "nodes") >>= (parseList parseNode · ";")
  if !wellScoped nodes || outs.any (· ≥ nodes.length) then none
  some (nodes, outs)

def leafCount (nodes : List (TNode Float)) : Nat × Nat × Nat :=
  ((nodes.filter fun | .pop _ _ => true | _ => false).length,
   (nodes.filter fun | .ind _ _ => true | .ind1 _ _ => true | _ => false).length,
   (nodes.filter fun | .unk _ _ => true | _ => false).length)

inductive Role | known | clean | dirty (bits : List Bool)

def parseRole (s : String) : Option Role :=
  if s == "k" then some .known else if s == "c" then some .clean
  else if s.startsWith "d" then Role.dirty <$> parseBits (s.drop 1).toString else none

def feq (a b : Float) : Bool := a.toBits == b.toBits || (a.isNaN && b.isNaN) || a == b

structure Setup where
  tnodes : List (TNode Float)
  outs : List Nat
  gnodes : List (GNode Float)
  shapes : List (List Nat)
  bad : List Nat
  inputs : Nat → List Float
  ainputs : Nat → List (AVal Float)
  pops : List (List Float)
  inds : List (List Float)

def setup (args : List String) : Option Setup := do
  let (tnodes, outs) ← parseProg args
  let (np, ni, _) := leafCount tnodes
  let rd := fun (key : String) => (kv args key) >>= (parseList (parseList parseFloat ·) · ";")
  let pops ← rd "pops"
  let inds ← rd "inds"
  let roles ← (kv args "roles") >>= (parseList parseRole · ";")
  if pops.length != np || inds.length != ni || roles.length != ni then none
  let (gnodes, shapes, bad) := toGather tnodes
  let inputs : Nat → List Float := fun k =>
    if k ≥ unkBase then [] else if k ≥ indBase then (inds[k - indBase]?).getD [] else (pops[k]?).getD []
  let ainputs : Nat → List (AVal Float) := fun k =>
    if k ≥ unkBase then List.replicate (numel ((shapes[k - unkBase]?).getD [])) .dirty
    else if k ≥ indBase then
      let x := (inds[k - indBase]?).getD []
      match roles[k - indBase]? with
      | some .known => absInput true [] x
      | some (.dirty bits) => absInput false bits x
      | _ => absInput false (x.map fun _ => false) x
    else ((pops[k]?).getD []).map fun _ => .clean
  some ⟨tnodes, outs, gnodes, shapes, bad, inputs, ainputs, pops, inds⟩

/-- evaluation through `Trace.lower` / `Trace.fnApply` with every input unbatched (cross-check of the gather tables) -/
def fnEval (s : Setup) : List (Tn Float) :=
  let np := s.pops.length
  let tn := s.tnodes.map fun
    | .ind k sh => TNode.pop (np + k) sh
    | .ind1 k sh => TNode.pop (np + k) sh
    | nd => nd
  let shapeOf := fun (sel : TNode Float → Option (Nat × List Nat)) (k : Nat) =>
    (((s.tnodes.filterMap sel).find? (·.1 = k)).map (·.2)).getD []
  let popT := (s.pops.zipIdx.map fun (d, k) => (⟨shapeOf (fun | .pop k sh => some (k, sh) | _ => none) k, d.toArray⟩ : Tn Float)) ++
    (s.inds.zipIdx.map fun (d, k) => (⟨shapeOf (fun | .ind k sh => some (k, sh) | .ind1 k sh => some (k, sh) | _ => none) k, d.toArray⟩ : Tn Float))
  let p := lower tn s.outs
  (eval (tensorSem floatOps) 1 (inputsOf popT [] []) p).map fun v => v.at 0

def flagChar : AVal Float → String
  | .known _ => "k" | .clean => "c" | .dirty => "d"

def runTaint (args : List String) : Option String := do
  let s ← setup args
  let vals := (evalC floatOps s.inputs s.gnodes).toArray
  let flags := (taint floatOps s.ainputs s.gnodes).toArray
  let fmtF := fun (o : Nat) => s!"{o}:{"".intercalate (((flags[o]?).getD []).map flagChar)}"
  let fmtV := fun (o : Nat) => s!"{o}:{fmtShape ((s.shapes[o]?).getD [])}:{fmtList fmtFloat ((vals[o]?).getD [])}"
  let esc := s.tnodes.zipIdx.filterMap fun (nd, i) => match nd with
    | .escape _ _ => if ((flags[i]?).getD []).any AVal.isDirty then some i else none
    | _ => none
  let fn := (fnEval s).toArray
  let mism := (List.range s.gnodes.length).find? fun i =>
    !s.bad.contains i && (match s.tnodes[i]? with | some (.escape _ _) => false | _ => true) &&
    (match fn[i]?, vals[i]? with
     | some t, some v => !(t.data.size == v.length && (t.data.toList.zip v).all fun (a, b) => feq a b)
     | _, _ => true)
  -- (an operation outside the table has no semantics on either side: nothing to compare downstream of it)
  let xc := if !s.bad.isEmpty then "na" else match mism with | none => "1" | some i => s!"0:{i}"
  some s!"flags={";".intercalate (s.outs.map fmtF)} vals={";".intercalate (s.outs.map fmtV)} dirtyesc={fmtList toString esc} unsupported={fmtList toString s.bad} xcheck={xc}"

def runPath (args : List String) : Option String := do
  let s ← setup args
  let o ← (kv args "out") >>= parseNat
  let q ← (kv args "pos") >>= parseNat
  let flags := (taint floatOps s.ainputs s.gnodes).toArray
  let isD := fun (a q : Nat) => match ((flags[a]?).getD [])[q]? with | some .dirty => true | _ => false
  -- follow a dirty operand backwards (node ids strictly decrease)
  let rec go (fuel a q : Nat) (acc : List (Nat × Nat)) : List (Nat × Nat) :=
    match fuel with
    | 0 => acc
    | fuel + 1 =>
      match s.gnodes[a]? with
      | some (.gather _ deps) =>
        match ((deps[q]?).getD []).find? fun (b, r) => isD b r with
        | some (b, r) => go fuel b r (acc ++ [(b, r)])
        | none => acc
      | _ => acc
  let path := go s.gnodes.length o q [(o, q)]
  some s!"path={fmtList (fun (p : Nat × Nat) => s!"{p.1}:{p.2}") path}"

end TaintDrv

def handle (line : String) : String :=
  match line.splitOn " " with
  | "wsum" :: args =>
    (do
      let fill ← (kv args "fill") >>= parseX
      let keys ← (kv args "keys") >>= parseList parseNat
      let n ← (kv args "n") >>= parseNat
      let vals ← (kv args "vals") >>= parseList parseX
      let w ← (kv args "w") >>= parseBits
      if w.length ≠ vals.length ∨ keys.length ≠ vals.length then none else
      let r := wsumDim fill keys n (vals.zip w)
      some s!"sums={fmtList (fun (p : XVal × Nat) => fmtX p.1) r} counts={fmtList (fun (p : XVal × Nat) => toString p.2) r}").getD "bad-request"
  | "eval" :: args =>
    (do
      let nv ← (kv args "nvars") >>= parseNat
      let vars ← (List.range nv).mapM (fun i => do
        let vals ← (kv args s!"v{i}") >>= parseList parseX
        let w ← kv args s!"w{i}"
        mkMT vals w)
      let nk ← (kv args "nkeys") >>= parseNat
      let keysTab ← (List.range nk).mapM (fun j => do
        let keys ← (kv args s!"keys{j}") >>= parseList parseNat
        let n ← (kv args s!"n{j}") >>= parseNat
        some (keys, n))
      let toks := splitNE ((kv args "prog").getD "_") ";"
      let e ← buildExpr keysTab toks
      match eval ⟨vars, extTable⟩ e with
      | .ok r => some (fmtMT r)
      | .error err => some (fmtErr err)).getD "bad-request"
  | "taint" :: args => (TaintDrv.runTaint args).getD "bad-request"
  | "taintpath" :: args => (TaintDrv.runPath args).getD "bad-request"
  | _ => "bad-request"

def main : IO Unit := loop handle
