import LeaspyVerif.Proto
import LeaspyVerif.Model.Masked
open LeaspyVerif LeaspyVerif.Proto LeaspyVerif.Masked

/-
requests (values: exact rationals `p/q`, or `nan`, `inf`, `-inf`; weights: bit strings, `none` = regular tensor)

  wsum fill=<x> keys=<k,…> n=<nOut> vals=<x,…> w=<bits>
        → sums=<x,…> counts=<n,…>                                   (wsum_dim: both components)
  eval nvars=<n> v0=<x,…> w0=<bits|none> v1=… w1=… keys0=<k,…> n0=<n> keys1=… n1=… prog=<tok;tok;…>
        → plain:<x,…> | wt:<x,…>:<bits> | err:shape | err:weights | err:unbound
    prog is postfix: `v<i>` | `add` `sub` `mul` `div` | `neg:<fill>` `sqr:<fill>` `ext<i>:<fill>` (fill = `none` or a value)
                     | `wv` (.weighted_value) | `rw` (reweight a b) | `sum<j>` (sum_dim with keys<j>, n<j>)
    external function table:  0 = identity, 1 = x ↦ x/2 + 1/4, 2 = abs
-/

def parseX (s : String) : Option XVal :=
  if s == "nan" then some .nan
  else if s == "inf" then some .pinf
  else if s == "-inf" then some .ninf
  else XVal.fin <$> parseRat s

def fmtX : XVal → String
  | .fin q => fmtRat q
  | .pinf => "inf"
  | .ninf => "-inf"
  | .nan => "nan"

def parseBits (s : String) : Option (List Bool) :=
  if s == "_" then some [] else s.toList.mapM (fun c => if c == '1' then some true else if c == '0' then some false else none)

def fmtBits (l : List Bool) : String :=
  if l.isEmpty then "_" else String.ofList (l.map (fun b => if b then '1' else '0'))

def mkMT (vals : List XVal) (w : String) : Option MT :=
  if w == "none" then some (.plain vals) else do
    let bits ← parseBits w
    if bits.length ≠ vals.length then none else some (.wt (vals.zip bits))

def fmtMT : MT → String
  | .plain v => s!"plain:{fmtList fmtX v}"
  | .wt c => s!"wt:{fmtList fmtX (c.map Prod.fst)}:{fmtBits (c.map Prod.snd)}"

def fmtErr : Err → String
  | .shape => "err:shape"
  | .weightsDiffer => "err:weights"
  | .unbound => "err:unbound"

def absX : XVal → XVal
  | .fin q => .fin (if q < 0 then -q else q)
  | .pinf => .pinf
  | .ninf => .pinf
  | .nan => .nan

def extTable (i : Nat) (x : XVal) : XVal :=
  match i with
  | 0 => x
  | 1 => XVal.add (XVal.mul (.fin (1/2)) x) (.fin (1/4))
  | _ => absX x

def parseFill (s : String) : Option (Option XVal) :=
  if s == "none" then some none else some <$> parseX s

/-- postfix program → expression -/
def buildExpr (keysTab : List (List Nat × Nat)) (toks : List String) : Option MExpr :=
  let rec go (toks : List String) (stack : List MExpr) : Option MExpr :=
    match toks with
    | [] => match stack with
      | [e] => some e
      | _ => none
    | t :: rest =>
      let bin (op : BinOp) := match stack with
        | b :: a :: st => go rest (.bin op a b :: st)
        | _ => none
      if t == "add" then bin .add
      else if t == "sub" then bin .sub
      else if t == "mul" then bin .mul
      else if t == "div" then bin .div
      else if t == "wv" then match stack with
        | a :: st => go rest (.weighted a :: st)
        | _ => none
      else if t == "rw" then match stack with
        | b :: a :: st => go rest (.reweight a b :: st)
        | _ => none
      else if t.startsWith "sum" then do
        let j ← (t.drop 3).toString.toNat?
        let (keys, n) ← keysTab[j]?
        match stack with
        | a :: st => go rest (.sumDim keys n a :: st)
        | _ => none
      else if t.startsWith "v" then do
        let i ← (t.drop 1).toString.toNat?
        go rest (.var i :: stack)
      else
        match t.splitOn ":" with
        | [name, f] => do
          let fill ← parseFill f
          let op ← (if name == "neg" then some UnOp.neg
                    else if name == "sqr" then some UnOp.sqr
                    else if name.startsWith "ext" then UnOp.ext <$> (name.drop 3).toString.toNat?
                    else none)
          match stack with
          | a :: st => go rest (.un op fill a :: st)
          | _ => none
        | _ => none
  go toks []

def handle (line : String) : String :=
  match line.splitOn " " with
  | "wsum" :: args =>
    (do
      let fill ← (kv args "fill") >>= parseX
      let keys ← (kv args "keys") >>= parseList parseNat
      let n ← (kv args "n") >>= parseNat
      let vals ← (kv args "vals") >>= parseList parseX
      let w ← (kv args "w") >>= parseBits
      if w.length ≠ vals.length ∨ keys.length ≠ vals.length then none else
      let r := wsumDim fill keys n (vals.zip w)
      some s!"sums={fmtList (fun (p : XVal × Nat) => fmtX p.1) r} counts={fmtList (fun (p : XVal × Nat) => toString p.2) r}").getD "bad-request"
  | "eval" :: args =>
    (do
      let nv ← (kv args "nvars") >>= parseNat
      let vars ← (List.range nv).mapM (fun i => do
        let vals ← (kv args s!"v{i}") >>= parseList parseX
        let w ← kv args s!"w{i}"
        mkMT vals w)
      let nk ← (kv args "nkeys") >>= parseNat
      let keysTab ← (List.range nk).mapM (fun j => do
        let keys ← (kv args s!"keys{j}") >>= parseList parseNat
        let n ← (kv args s!"n{j}") >>= parseNat
        some (keys, n))
      let toks := splitNE ((kv args "prog").getD "_") ";"
      let e ← buildExpr keysTab toks
      match eval ⟨vars, extTable⟩ e with
      | .ok r => some (fmtMT r)
      | .error err => some (fmtErr err)).getD "bad-request"
  | _ => "bad-request"

def main : IO Unit := loop handle
