import LeaspyVerif.Proto
import LeaspyVerif.Model.Dag
import LeaspyVerif.Model.Specs
open LeaspyVerif LeaspyVerif.Proto LeaspyVerif.Dag

/- names travel as their code points joined by `.` (they may contain blanks, `=`, `;`, non-ASCII letters) -/
def decName (s : String) : Option String :=
  (fun (l : List Nat) => String.ofList (l.map Char.ofNat)) <$> (s.splitOn ".").mapM (fun t => t.toNat?)
def encName (s : String) : String := ".".intercalate (s.toList.map (fun c => toString c.toNat))

def parseOp (s : String) : Option (String × Specs.Def) :=
  match s.splitOn "~" with
  | [n, "p"] => do pure (← decName n, .plain)
  | n :: "l" :: deps => do pure (← decName n, .link (← deps.mapM decName))
  | [n, "i", m, sd] => do pure (← decName n, .ind (← decName m) (← decName sd))
  | [n, "o", m, sd] => do pure (← decName n, .pop (← decName m) (← decName sd))
  | n :: "m" :: deds => do
      let ds ← deds.mapM (fun t => match t.splitOn ":" with
        | [dn, deps] => do pure (← decName dn, ← (splitNE deps ",").mapM decName)
        | _ => none)
      pure (← decName n, .param ds)
  | _ => none

/-- the statements one after the other, recording which were refused -/
def runOps (ops : List (String × Specs.Def)) : Specs.Coll × List Bool :=
  ops.foldl (fun (acc : Specs.Coll × List Bool) o =>
    let r := Specs.setItem acc.1 o.1 o.2
    (r.1, acc.2 ++ [r.2])) (Specs.Coll.empty, [])

/-
request   build anc=<a,b;c;_;…>       one `;`-separated entry per node (rank in name order): its direct ancestors
response  ok order=… ch=…;… an=…;…  |  err:input  |  err:value
request   coll ops=<name~p | name~l~dep~… | name~i~mean~std | name~o~mean~std | name~m~ded:dep,dep~…>|…      `nv[name] = var` statements in order
response  graph=<err:input | err:value | names in graph order> ok=<1|0 per statement> keys=<iteration order> defs=<name:dep,dep;…>      (definitions in iteration order, dependencies sorted)
-/
def handle (line : String) : String :=
  match line.splitOn " " with
  | "build" :: args =>
    (do
      let a ← kv args "anc"
      let l ← if a == "-" then some [] else (a.splitOn ";").mapM (fun r => parseList parseNat r)
      let g := Graph.ofLists l
      match build g with
      | .error .input => some "err:input"
      | .error .value => some "err:value"
      | .ok r =>
        let nodes := List.range g.n
        some s!"ok order={fmtList toString r.order} ch={";".intercalate (nodes.map fun i => fmtList toString (r.children i))} an={";".intercalate (nodes.map fun i => fmtList toString (r.ancestors i))}").getD "bad-request"
  | "coll" :: args =>
    (do
      let a ← kv args "ops"
      let ops ← if a == "-" then some [] else (a.splitOn "|").mapM parseOp
      let (c, oks) := runOps ops
      let defs := Specs.definitions c
      let g := match Specs.fromDict c with
        | .error .input => "err:input"
        | .error .value => "err:value"
        | .ok order => fmtList encName order
      some s!"graph={g} ok={fmtList fmtBool oks} keys={fmtList encName (Specs.keys c)} defs={";".intercalate (defs.map fun (d : String × List String) => encName d.1 ++ ":" ++ fmtList encName (Specs.sortNames d.2))}").getD "bad-request"
  | _ => "bad-request"

def main : IO Unit := loop handle
