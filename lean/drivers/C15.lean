import LeaspyVerif.Proto
import LeaspyVerif.Model.Dag
open LeaspyVerif LeaspyVerif.Proto LeaspyVerif.Dag

/-
request   build anc=<a,b;c;_;…>       one `;`-separated entry per node (rank in name order): its direct ancestors
response  ok order=… ch=…;… an=…;…  |  err:input  |  err:value
-/
def handle (line : String) : String :=
  match line.splitOn " " with
  | "build" :: args =>
    (do
      let a ← kv args "anc"
      let l ← if a == "-" then some [] else (a.splitOn ";").mapM (fun r => parseList parseNat r)
      let g := Graph.ofLists l
      match build g with
      | .error .input => some "err:input"
      | .error .value => some "err:value"
      | .ok r =>
        let nodes := List.range g.n
        some s!"ok order={fmtList toString r.order} ch={";".intercalate (nodes.map fun i => fmtList toString (r.children i))} an={";".intercalate (nodes.map fun i => fmtList toString (r.ancestors i))}").getD "bad-request"
  | _ => "bad-request"

def main : IO Unit := loop handle
