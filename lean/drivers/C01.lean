import LeaspyVerif.Proto
import LeaspyVerif.Model.Dag
import LeaspyVerif.Model.State
open LeaspyVerif LeaspyVerif.Proto

/-
One request line = one whole history on a shadow graph (used by C01 and C02).

  hist nind=<n> d=<d> p=<p> nodes=<node;node;…> ops=<op;op;…>

node (rank = position, i.e. name-sorted order)   kind:level:c0:parents:coeffs
    kind  h = hyper-parameter (value c0 everywhere, not settable)   s = settable independent
          l = linked, entry-wise linear   a = linked, aggregating over the individual axis
    level p = population-level (1 row)   i = individual-level (nind rows)        (for h and s; `-` otherwise)
op  g:sid:node            read            → v=<rows> | e:input | e:internal
    q:sid:node            is_variable_set → b=0|1
    s:sid:node:<rows|none>  assignment    → ok | e:input
    p:sid:node:acc:rows:cols:vals  put(indices=(rows,cols), accumulate=acc)  → ok | e:input
    pa:sid:node:<rows>    put(value, accumulate=True) without indices        → ok | e:input
    r:sid                 revert()        → ok | e:input
    rp:sid:<mask bits>    revert(mask)    → ok | e:input
    c:src:dst:noauto:keepfork  clone      → ok
    pc:sid                precompute_all  → ok | e:input
    m:sid:0|1             auto_fork on/off → ok
    cl:sid                clear           → ok
rows are `a,b/c,d`.  After each op the response also carries the None-pattern of the touched state:
    <out>|<bits over nodes>
Graph tables (order, descendants, ancestors) come from the C15 model `Dag.build`.
-/

abbrev Val := List (List Int)

structure NodeSpec where
  kind : String
  level : String
  c0 : Int
  parents : List Nat
  coeffs : List Int

def parseRows (s : String) : Option Val :=
  (s.splitOn "/").mapM (fun r => parseList parseInt r)

def fmtRows (v : Val) : String := "/".intercalate (v.map (fmtList toString))

def parseNode (s : String) : Option NodeSpec :=
  match s.splitOn ":" with
  | [k, l, c, ps, cs] => do
      let c0 ← parseInt c
      let ps ← parseList parseNat ps
      let cs ← parseList parseInt cs
      some { kind := k, level := l, c0 := c0, parents := ps, coeffs := cs }
  | _ => none

/-- entry-wise linear node: out[r][c] = (c0 + Σ a_k · P_k[r or 0][c]) mod p -/
def linFn (p : Int) (c0 : Int) (coeffs : List Int) (d : Nat) (ps : List Val) : Val :=
  let nrows := (ps.map List.length).foldl max 1
  (List.range nrows).map fun r =>
    (List.range d).map fun c =>
      let terms := List.zipWith (fun a (P : Val) =>
        let row := if P.length == 1 then P.headD [] else P.getD r []
        a * row.getD c 0) coeffs ps
      (c0 + terms.foldl (· + ·) 0) % p

/-- aggregating node: out[0][c] = (c0 + Σ a_k · Σ_r P_k[r][c]) mod p -/
def aggFn (p : Int) (c0 : Int) (coeffs : List Int) (d : Nat) (ps : List Val) : Val :=
  [(List.range d).map fun c =>
      let terms := List.zipWith (fun a (P : Val) =>
        a * (P.map (fun row => row.getD c 0)).foldl (· + ·) 0) coeffs ps
      (c0 + terms.foldl (· + ·) 0) % p]

def mixRows (m : List Bool) (o c : Val) : Val :=
  (List.range o.length).map fun r =>
    if m.getD r false then o.getD r [] else c.getD r []

def mkGraph (nind d : Nat) (p : Int) (nodes : List NodeSpec) (r : Dag.Result) : State.Graph Val :=
  let arr := nodes.toArray
  { n := nodes.length
    kind := fun i => match arr[i]? with
      | some nd => if nd.kind == "h" then .indep false else if nd.kind == "s" then .indep true else .linked
      | none => .indep false
    parents := fun i => match arr[i]? with | some nd => nd.parents | none => []
    fn := fun i ps => match arr[i]? with
      | some nd => if nd.kind == "a" then aggFn p nd.c0 nd.coeffs d ps else linFn p nd.c0 nd.coeffs d ps
      | none => []
    init := fun i => match arr[i]? with
      | some nd => if nd.kind == "h" then
          some ((List.range (if nd.level == "i" then nind else 1)).map fun _ => (List.range d).map fun _ => nd.c0)
        else none
      | none => none
    order := r.order
    desc := r.children
    anc := r.ancestors }

/-- materialise a cache so that look-ups stay O(1) along a history -/
def lookupArr (arr : Array (Option Val)) : State.Cache Val :=
  fun i => match arr[i]? with | some v => v | none => none

/-- (the array is computed here, once: `normSt` returns a structure, so it is not re-evaluated per look-up) -/
def normSt (n : Nat) (s : State.St Val) : State.St Val :=
  let arr := (Array.range n).map s.vals
  { s with vals := lookupArr arr }

def pattern (n : Nat) (s : State.St Val) : String :=
  String.join ((List.range n).map fun i => if (s.vals i).isSome then "1" else "0")

def fmtErr : State.Err → String
  | .input => "e:input"
  | .internal => "e:internal"

def putAt (acc : Bool) (rows cols : List Nat) (vals : List Int) (cur : Val) : Val :=
  let upds := List.zip (List.zip rows cols) vals
  upds.foldl (fun (v : Val) (u : (Nat × Nat) × Int) =>
    v.mapIdx fun r row => if r == u.1.1 then
      row.mapIdx fun c x => if c == u.1.2 then (if acc then x + u.2 else u.2) else x
    else row) cur

def addVal (a b : Val) : Val :=
  List.zipWith (fun ra rb => List.zipWith (· + ·) ra rb) a b

def parseOp (s : String) : Option (State.Op Val (List Bool)) :=
  match s.splitOn ":" with
  | ["g", sid, i] => do some (.get (← parseNat sid) (← parseNat i))
  | ["q", sid, i] => do some (.isSet (← parseNat sid) (← parseNat i))
  | ["s", sid, i, v] => do
      let v ← if v == "none" then some none else some <$> parseRows v
      some (.set (← parseNat sid) (← parseNat i) v)
  | ["p", sid, i, acc, rows, cols, vals] => do
      let acc ← parseBool acc
      let rows ← parseList parseNat rows
      let cols ← parseList parseNat cols
      let vals ← parseList parseInt vals
      some (.put (← parseNat sid) (← parseNat i) (some (putAt acc rows cols vals)) [])
  | ["pa", sid, i, v] => do
      let v ← parseRows v
      some (.put (← parseNat sid) (← parseNat i) (some (fun cur => addVal cur v)) [])
  | ["r", sid] => do some (.revert (← parseNat sid) none)
  | ["rp", sid, m] => do
      let m := m.toList.map (· == '1')
      some (.revert (← parseNat sid) (some m))
  | ["c", a, b, x, y] => do some (.clone (← parseNat a) (← parseNat b) (← parseBool x) (← parseBool y))
  | ["pc", sid] => do some (.precompute (← parseNat sid))
  | ["m", sid, b] => do some (.setMode (← parseNat sid) (← parseBool b))
  | ["cl", sid] => do some (.clear (← parseNat sid))
  | _ => none

def touched : State.Op Val (List Bool) → Nat
  | .get sid _ | .isSet sid _ | .set sid _ _ | .put sid _ _ _ | .revert sid _ | .precompute sid
  | .setMode sid _ | .clear sid => sid
  | .clone _ dst _ _ => dst

def fmtOut : State.Out Val → String
  | .read (.ok v) => s!"v={fmtRows v}"
  | .read (.error e) => fmtErr e
  | .bool (.ok b) => s!"b={fmtBool b}"
  | .bool (.error e) => fmtErr e
  | .unit (.ok _) => "ok"
  | .unit (.error e) => fmtErr e
  | .noState => "nostate"

def runHist (g : State.Graph Val) (ops : List (State.Op Val (List Bool))) : List String :=
  let σ0 : State.Store Val := fun k => if k = 0 then some (State.initial g true) else none
  let rec go (σ : State.Store Val) (ops : List (State.Op Val (List Bool))) (acc : List String) : List String :=
    match ops with
    | [] => acc.reverse
    | op :: rest =>
      let r := State.step g mixRows σ op
      let sid := touched op
      -- materialise the touched state
      let σ' : State.Store Val := match r.1 sid with
        | some s => State.Store.put r.1 sid (normSt g.n s)
        | none => r.1
      let pat := match σ' sid with | some s => pattern g.n s | none => "-"
      go σ' rest (s!"{fmtOut r.2}|{pat}" :: acc)
  go σ0 ops []

def handle (line : String) : String :=
  match line.splitOn " " with
  | "hist" :: args =>
    (do
      let nind ← (kv args "nind") >>= parseNat
      let d ← (kv args "d") >>= parseNat
      let p ← (kv args "p") >>= parseInt
      let nodes ← ((← kv args "nodes").splitOn ";").mapM parseNode
      let opsS ← kv args "ops"
      let ops ← (splitNE opsS ";").mapM parseOp
      let dg := Dag.Graph.ofLists (nodes.map NodeSpec.parents)
      match Dag.build dg with
      | .error _ => some "err:dag"
      | .ok r =>
        let g := mkGraph nind d p nodes r
        some (";".intercalate (runHist g ops))).getD "bad-request"
  | _ => "bad-request"

def main : IO Unit := loop handle
