import LeaspyVerif.Proto
import LeaspyVerif.Model.Api
import LeaspyVerif.Model.Codec
open LeaspyVerif LeaspyVerif.Proto LeaspyVerif.Api

/-
requests (one line = one complete case)
  rt kind=<ModelName value> name=<instance name> feats=<tok,tok|none> dim=<n|none> src=<n|none>
     noise=<scalar|diag> K=<n> E=<n> p=<name|shape|data;…>       shape: `s` (0-d) or `2x1`; data: rationals
        → err:value | err:model | err:runtime
        | ok name=<loaded name> same=<0|1> again=<0|1> canon=<0|1> p=<name|shape|data;…> pop=<name,…>
          (same: save(load(save m)) = save m on the modelled fields; again: one more trip reproduces the second file)
  f32 x=<rat,rat,…>                                              → <rat,rat,…>   (round to nearest float32)
  spec kind=… d=<n> s=<n> noise=… K=<n> E=<n>                    → name|shape;…
  kinds n=<name,name,…>                                          → <kind or none>,…  (ModelName(name.lower()))

codec requests (Model/Codec.lean); a json tree is a `,`-separated token stream
      N | T | F | I<int> | R<rat> (python float) | Xnan | Xinf | Xninf | Xnz | S<hex utf-8> | [ … ] | { S<hex> <value> … }
  a tensor is <dtype>:<shape>:<elems>   dtype bool|int32|int64|float16|float32|float64, shape `s` or `2x0x3`,
      elems `_` or b0|b1|i<int>|r<rat>|xnan|xinf|xninf|xnz separated by `,`
  tj t=<tensor>                         → <tokens>                                  (Tensor.tolist)
  fj j=<tokens> view=<shape|none>       → ok <tensor> | err:<class>                 (val_to_tensor)
  tt t=<tensor>                         → <tensor> stable=<0|1> wf=<0|1>            (torch.tensor(t.tolist()) in closed form)
  n32 x=<fl,…>                          → <fl,…>                                    (double → float32, complete)
  ld j=<tokens> others=<name|computable|view|shape|asserts|current values;…> ver=<hex> hyper=<name~tensor;…> mix=<tensor|none>
        → err:<class> | ok name=<hex> feats=<hex,…|none> dimattr=<n|none> src=<n|none> noise=<name> K=<n> E=<n>
             p=<name~tensor;…> pop=<name,…> resave=<tokens | err:<class>>
  sv kind=<k> name=<hex> feats=<hex,…|none> dimattr=<n|none> src=<n|none> noise=<name> fm=<tokens> K=<n> E=<n>
     p=<name~tensor;…> ver=<hex> hyper=<name~tensor;…> mix=<tensor|none>
        → <tokens | err:<class>> loadable=<0|1> canonical=<0|1>      (the hypotheses of load_toDict / resave_identical)
-/

def parseShape (s : String) : Option (List Nat) :=
  if s == "s" then some [] else (s.splitOn "x").mapM parseNat

def fmtShape (sh : List Nat) : String :=
  if sh.isEmpty then "s" else "x".intercalate (sh.map toString)

def parseTensorEntry (s : String) : Option (String × Tensor) :=
  match s.splitOn "|" with
  | [n, sh, d] => do
      let shape ← parseShape sh
      let data ← parseList parseRat d
      some (n, ⟨shape, data⟩)
  | _ => none

def fmtParams (ps : List (String × Tensor)) : String :=
  fmtList (fun (p : String × Tensor) => s!"{p.1}|{fmtShape p.2.shape}|{fmtList fmtRat p.2.data}") ps ";"

def parseOptNat (s : String) : Option (Option Nat) :=
  if s == "none" then some none else some <$> parseNat s

def fmtErr : Err → String
  | .value => "err:value"
  | .modelInput => "err:model"
  | .runtime => "err:runtime"
  | .algoInput => "err:algo"
  | .attribute => "err:attribute"
  | .type => "err:type"

def parseKind (s : String) : Option Kind := Kind.ofName s

namespace CodecIO
open LeaspyVerif.Codec

def hexDigit (c : Char) : Option Nat :=
  if '0' ≤ c && c ≤ '9' then some (c.toNat - '0'.toNat)
  else if 'a' ≤ c && c ≤ 'f' then some (c.toNat - 'a'.toNat + 10)
  else none

def unhex (s : String) : Option String :=
  let rec go : List Char → ByteArray → Option ByteArray
    | [], acc => some acc
    | a :: b :: r, acc => do
        let x ← hexDigit a
        let y ← hexDigit b
        go r (acc.push (UInt8.ofNat (16 * x + y)))
    | _, _ => none
  (go s.toList ByteArray.empty) >>= String.fromUTF8?

def hexOf (s : String) : String :=
  let d := "0123456789abcdef".toList
  String.ofList (s.toUTF8.toList.flatMap (fun b => [d[b.toNat / 16]!, d[b.toNat % 16]!]))

def parseFl (s : String) : Option Fl :=
  if s == "xnan" then some .nan
  else if s == "xinf" then some (.inf false)
  else if s == "xninf" then some (.inf true)
  else if s == "xnz" then some .nzero
  else if s.startsWith "r" then (fun q => Fl.fin q) <$> parseRat (s.drop 1).toString
  else none

def fmtFl : Fl → String
  | .fin q => "r" ++ fmtRat q
  | .nzero => "xnz"
  | .nan => "xnan"
  | .inf false => "xinf"
  | .inf true => "xninf"

partial def parseJ : List String → Option (JVal × List String)
  | "N" :: r => some (.null, r)
  | "T" :: r => some (.bool true, r)
  | "F" :: r => some (.bool false, r)
  | "[" :: r =>
    let rec items (r : List String) (acc : List JVal) : Option (JVal × List String) :=
      match r with
      | "]" :: r' => some (.arr acc.reverse, r')
      | _ => do
        let (v, r') ← parseJ r
        items r' (v :: acc)
    items r []
  | "{" :: r =>
    let rec members (r : List String) (acc : List (String × JVal)) : Option (JVal × List String) :=
      match r with
      | "}" :: r' => some (.obj acc.reverse, r')
      | k :: r' => do
        if !k.startsWith "S" then none
        let key ← unhex (k.drop 1).toString
        let (v, r'') ← parseJ r'
        members r'' ((key, v) :: acc)
      | [] => none
    members r []
  | t :: r =>
    if t.startsWith "I" then (fun (n : Int) => (JVal.int n, r)) <$> (t.drop 1).toString.toInt?
    else if t.startsWith "S" then (fun s => (JVal.str s, r)) <$> unhex (t.drop 1).toString
    else if t.startsWith "R" then (fun q => (JVal.flt (.fin q), r)) <$> parseRat (t.drop 1).toString
    else if t == "Xnan" then some (.flt .nan, r)
    else if t == "Xinf" then some (.flt (.inf false), r)
    else if t == "Xninf" then some (.flt (.inf true), r)
    else if t == "Xnz" then some (.flt .nzero, r)
    else none
  | [] => none

def parseTree (s : String) : Option JVal :=
  match parseJ (s.splitOn ",") with
  | some (v, []) => some v
  | _ => none

partial def tokensJ : JVal → List String
  | .null => ["N"]
  | .bool true => ["T"]
  | .bool false => ["F"]
  | .int i => [s!"I{i}"]
  | .flt (.fin q) => ["R" ++ fmtRat q]
  | .flt .nan => ["Xnan"]
  | .flt (.inf false) => ["Xinf"]
  | .flt (.inf true) => ["Xninf"]
  | .flt .nzero => ["Xnz"]
  | .str s => ["S" ++ hexOf s]
  | .arr l => ["["] ++ l.flatMap tokensJ ++ ["]"]
  | .obj m => ["{"] ++ m.flatMap (fun p => ("S" ++ hexOf p.1) :: tokensJ p.2) ++ ["}"]

def fmtTree (v : JVal) : String := ",".intercalate (tokensJ v)

def parseDType (s : String) : Option DType :=
  match s with
  | "bool" => some .bool
  | "int32" => some .int32
  | "int64" => some .int64
  | "float16" => some .float16
  | "float32" => some .float32
  | "float64" => some .float64
  | _ => none

def fmtDType : DType → String
  | .bool => "bool"
  | .int32 => "int32"
  | .int64 => "int64"
  | .float16 => "float16"
  | .float32 => "float32"
  | .float64 => "float64"

def parseElem (s : String) : Option Elem :=
  if s == "b1" then some (.b true)
  else if s == "b0" then some (.b false)
  else if s.startsWith "i" then (fun (n : Int) => Elem.i n) <$> (s.drop 1).toString.toInt?
  else Elem.f <$> parseFl s

def fmtElem : Elem → String
  | .b true => "b1"
  | .b false => "b0"
  | .i v => s!"i{v}"
  | .f x => fmtFl x

def parseTensor (s : String) : Option Codec.Tensor :=
  match s.splitOn ":" with
  | [dt, sh, d] => do
      let dtype ← parseDType dt
      let shape ← parseShape sh
      let data ← parseList parseElem d
      some ⟨dtype, shape, data⟩
  | _ => none

def fmtTensor (t : Codec.Tensor) : String :=
  s!"{fmtDType t.dtype}:{fmtShape t.shape}:{fmtList fmtElem t.data}"

def parseNamed (s : String) : Option (List (String × Codec.Tensor)) :=
  (splitNE s ";").mapM (fun e =>
    match e.splitOn "~" with
    | [n, t] => (fun t => (n, t)) <$> parseTensor t
    | _ => none)

def fmtNamed (l : List (String × Codec.Tensor)) : String :=
  fmtList (fun (p : String × Codec.Tensor) => s!"{p.1}~{fmtTensor p.2}") l ";"

def fmtErr : Codec.Err → String
  | .modelInput => "err:model"
  | .input => "err:input"
  | .value => "err:value"
  | .type => "err:type"
  | .runtime => "err:runtime"
  | .attribute => "err:attribute"
  | .key => "err:key"
  | .notImplemented => "err:notimplemented"
  | .assertion => "err:assertion"
  | .outside => "err:outside"

def parseCKind (s : String) : Option Codec.Kind :=
  match Codec.kindOfName s with
  | some (some k) => some k
  | _ => none

def parseNoise (s : String) : Option Noise :=
  match s with
  | "gaussian-scalar" => some .scalar
  | "gaussian-diagonal" => some .diagonal
  | "bernoulli" => some .bernoulli
  | _ => none

def parseOther (s : String) : Option (String × Other) :=
  match s.splitOn "|" with
  | [n, c, v, sh, a, cur] => do
      let comp ← parseBool c
      let view ← if v == "none" then some none else some <$> parseShape v
      let shape ← parseShape sh
      let asserts ← parseBool a
      let current ← parseList parseFl cur
      some (n, ⟨comp, view, shape, asserts, current⟩)
  | _ => none

def parseFeats (s : String) : Option (Option (List String)) :=
  if s == "none" then some none else some <$> (splitNE s ",").mapM unhex

def fmtFeats : Option (List String) → String
  | none => "none"
  | some fs => fmtList hexOf fs

def fmtOptNat : Option Nat → String
  | none => "none"
  | some n => toString n

def extOf (args : List String) : Option Ext := do
  let ver ← (kv args "ver") >>= unhex
  let hyper ← (kv args "hyper") >>= parseNamed
  let mixS ← kv args "mix"
  let mix : Codec.Tensor ← if mixS == "none" then some ⟨.float32, [0], []⟩ else parseTensor mixS
  some ⟨ver, fun _ _ _ _ _ _ => hyper, fun _ _ _ _ => mix⟩

def handle (op : String) (args : List String) : Option String :=
  match op with
  | "tj" => do
      let t ← (kv args "t") >>= parseTensor
      some (fmtTree (toJson t))
  | "fj" => do
      let j ← (kv args "j") >>= parseTree
      let vS ← kv args "view"
      let view ← if vS == "none" then some none else some <$> parseShape vS
      match valToTensor narrow32 view j with
      | .ok t => some ("ok " ++ fmtTensor t)
      | .err e => some (fmtErr e)
  | "tt" => do
      let t ← (kv args "t") >>= parseTensor
      some s!"{fmtTensor (t.back narrow32)} stable={fmtBool t.stable} wf={fmtBool (t.wf narrow32)}"
  | "n32" => do
      let xs ← (kv args "x") >>= parseList parseFl
      some (fmtList fmtFl (xs.map narrow32))
  | "ld" => do
      let j ← (kv args "j") >>= parseTree
      let others ← (kv args "others") >>= (fun s => (splitNE s ";").mapM parseOther)
      let X ← extOf args
      match load narrow32 (fun _ _ _ _ _ _ => others) j with
      | .err e => some (fmtErr e)
      | .ok o =>
        let re := match toDict X o with
          | .ok v => fmtTree v
          | .err e => fmtErr e
        some s!"ok name={hexOf o.name} feats={fmtFeats o.features} dimattr={fmtOptNat o.dimAttr} src={fmtOptNat o.sourceDim} noise={o.noise.toName} K={o.nClusters} E={o.nbEvents} p={fmtNamed o.params} pop={fmtList (fun (p : String × Codec.Tensor) => p.1) o.pop} resave={re}"
  | "sv" => do
      let kind ← (kv args "kind") >>= parseCKind
      let name ← (kv args "name") >>= unhex
      let feats ← (kv args "feats") >>= parseFeats
      let dimattr ← (kv args "dimattr") >>= parseOptNat
      let src ← (kv args "src") >>= parseOptNat
      let noise ← (kv args "noise") >>= parseNoise
      let fm ← (kv args "fm") >>= parseTree
      let K ← (kv args "K") >>= parseNat
      let E ← (kv args "E") >>= parseNat
      let ps ← (kv args "p") >>= parseNamed
      let X ← extOf args
      let o : Obj := ⟨kind, name, feats, dimattr, src, noise, fm, E, K, ps, priorMode ps⟩
      let flags := s!" loadable={fmtBool (o.loadable X narrow32 (fun _ d s _ _ _ => mixingOther d s))} canonical={fmtBool (o.canonical narrow32)}"
      match toDict X o with
      | .ok v => some (fmtTree v ++ flags)
      | .err e => some (fmtErr e ++ flags)
  | _ => none

end CodecIO

def handle (line : String) : String :=
  match line.splitOn " " with
  | "codec" :: op :: args => (CodecIO.handle op args).getD "bad-request"
  | "rt" :: args =>
    (do
      let kind ← (kv args "kind") >>= parseKind
      let name ← kv args "name"
      let featsS ← kv args "feats"
      let feats : Option (List String) := if featsS == "none" then none else some (splitNE featsS ",")
      let dim ← (kv args "dim") >>= parseOptNat
      let src ← (kv args "src") >>= parseOptNat
      let noise ← kv args "noise"
      let K ← (kv args "K") >>= parseNat
      let E ← (kv args "E") >>= parseNat
      let ps ← (kv args "p") >>= (fun s => (splitNE s ";").mapM parseTensorEntry)
      let hyp : Hyp := ⟨feats, dim, src, noise == "scalar", E, K⟩
      let m : Model := ⟨kind, name, hyp, ps, priorMode ps⟩
      let f1 := toDict m
      match load roundF32 f1 with
      | .err e => some (fmtErr e)
      | .ok m' =>
        let f2 := toDict m'
        let again := match load roundF32 f2 with
          | .ok m'' => toDict m'' == f2
          | .err _ => false
        some s!"ok name={m'.name} same={fmtBool (f2 == f1)} again={fmtBool again} canon={fmtBool (m'.canonical roundF32)} p={fmtParams m'.params} pop={fmtList (fun (p : String × Tensor) => p.1) m'.pop}"
      ).getD "bad-request"
  | "f32" :: args =>
    (do
      let xs ← (kv args "x") >>= parseList parseRat
      some (fmtList fmtRat (xs.map roundF32))).getD "bad-request"
  | "spec" :: args =>
    (do
      let kind ← (kv args "kind") >>= parseKind
      let d ← (kv args "d") >>= parseNat
      let s ← (kv args "s") >>= parseNat
      let noise ← kv args "noise"
      let K ← (kv args "K") >>= parseNat
      let E ← (kv args "E") >>= parseNat
      some (fmtList (fun (e : String × List Nat) => s!"{e.1}|{fmtShape e.2}") (paramSpec kind d s (noise == "scalar") K E) ";")
      ).getD "bad-request"
  | "kinds" :: args =>
    (do
      let ns ← kv args "n"
      some (fmtList (fun (n : String) => match Kind.ofName n.toLower with
        | some k => k.toName
        | none => "none") (splitNE ns ","))).getD "bad-request"
  | _ => "bad-request"

def main : IO Unit := loop handle
