import LeaspyVerif.Proto
import LeaspyVerif.Model.Api
open LeaspyVerif LeaspyVerif.Proto LeaspyVerif.Api

/-
requests (one line = one complete case)
  rt kind=<ModelName value> name=<instance name> feats=<tok,tok|none> dim=<n|none> src=<n|none>
     noise=<scalar|diag> K=<n> E=<n> p=<name|shape|data;…>       shape: `s` (0-d) or `2x1`; data: rationals
        → err:value | err:model | err:runtime
        | ok name=<loaded name> same=<0|1> again=<0|1> canon=<0|1> p=<name|shape|data;…> pop=<name,…>
          (same: save(load(save m)) = save m on the modelled fields; again: one more trip reproduces the second file)
  f32 x=<rat,rat,…>                                              → <rat,rat,…>   (round to nearest float32)
  spec kind=… d=<n> s=<n> noise=… K=<n> E=<n>                    → name|shape;…
  kinds n=<name,name,…>                                          → <kind or none>,…  (ModelName(name.lower()))
-/

def parseShape (s : String) : Option (List Nat) :=
  if s == "s" then some [] else (s.splitOn "x").mapM parseNat

def fmtShape (sh : List Nat) : String :=
  if sh.isEmpty then "s" else "x".intercalate (sh.map toString)

def parseTensorEntry (s : String) : Option (String × Tensor) :=
  match s.splitOn "|" with
  | [n, sh, d] => do
      let shape ← parseShape sh
      let data ← parseList parseRat d
      some (n, ⟨shape, data⟩)
  | _ => none

def fmtParams (ps : List (String × Tensor)) : String :=
  fmtList (fun (p : String × Tensor) => s!"{p.1}|{fmtShape p.2.shape}|{fmtList fmtRat p.2.data}") ps ";"

def parseOptNat (s : String) : Option (Option Nat) :=
  if s == "none" then some none else some <$> parseNat s

def fmtErr : Err → String
  | .value => "err:value"
  | .modelInput => "err:model"
  | .runtime => "err:runtime"
  | .algoInput => "err:algo"
  | .attribute => "err:attribute"
  | .type => "err:type"

def parseKind (s : String) : Option Kind := Kind.ofName s

def handle (line : String) : String :=
  match line.splitOn " " with
  | "rt" :: args =>
    (do
      let kind ← (kv args "kind") >>= parseKind
      let name ← kv args "name"
      let featsS ← kv args "feats"
      let feats : Option (List String) := if featsS == "none" then none else some (splitNE featsS ",")
      let dim ← (kv args "dim") >>= parseOptNat
      let src ← (kv args "src") >>= parseOptNat
      let noise ← kv args "noise"
      let K ← (kv args "K") >>= parseNat
      let E ← (kv args "E") >>= parseNat
      let ps ← (kv args "p") >>= (fun s => (splitNE s ";").mapM parseTensorEntry)
      let hyp : Hyp := ⟨feats, dim, src, noise == "scalar", E, K⟩
      let m : Model := ⟨kind, name, hyp, ps, priorMode ps⟩
      let f1 := toDict m
      match load roundF32 f1 with
      | .err e => some (fmtErr e)
      | .ok m' =>
        let f2 := toDict m'
        let again := match load roundF32 f2 with
          | .ok m'' => toDict m'' == f2
          | .err _ => false
        some s!"ok name={m'.name} same={fmtBool (f2 == f1)} again={fmtBool again} canon={fmtBool (m'.canonical roundF32)} p={fmtParams m'.params} pop={fmtList (fun (p : String × Tensor) => p.1) m'.pop}"
      ).getD "bad-request"
  | "f32" :: args =>
    (do
      let xs ← (kv args "x") >>= parseList parseRat
      some (fmtList fmtRat (xs.map roundF32))).getD "bad-request"
  | "spec" :: args =>
    (do
      let kind ← (kv args "kind") >>= parseKind
      let d ← (kv args "d") >>= parseNat
      let s ← (kv args "s") >>= parseNat
      let noise ← kv args "noise"
      let K ← (kv args "K") >>= parseNat
      let E ← (kv args "E") >>= parseNat
      some (fmtList (fun (e : String × List Nat) => s!"{e.1}|{fmtShape e.2}") (paramSpec kind d s (noise == "scalar") K E) ";")
      ).getD "bad-request"
  | "kinds" :: args =>
    (do
      let ns ← kv args "n"
      some (fmtList (fun (n : String) => match Kind.ofName n.toLower with
        | some k => k.toName
        | none => "none") (splitNE ns ","))).getD "bad-request"
  | _ => "bad-request"

def main : IO Unit := loop handle
