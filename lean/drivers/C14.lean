import LeaspyVerif.Proto
import LeaspyVerif.Model.Ingest
open LeaspyVerif LeaspyVerif.Proto LeaspyVerif.Ingest

/-
requests (one line = one complete case)

  visit id=<kind>,<na>,<neg>,<empty> tnum=<0|1> cols=<0|1,…|_> store=<id|f32> rows=<id>:<age>:<v>,<v>…;…
        kind ∈ string|integer|categorical|other ; age ∈ <int µ>|nan|inf ; v ∈ <rat>|nan|inf
        → ok <tensor> table=<rows> re=<tensor of the re-ingested table>
        | ok <tensor> table=err:data:<tag>
        | err:data:<tag>
  addobs calls=<age>:<v>,…;<age>:<v>,…/<age>:<v>,…      (one `/`-separated block per add_observations call)
        → ok visits=<age>:<v>,…;…  | err:data:overwrite
  event nb=<none|n> rows=<id>:<time>:<code>;…
        → ok ids=… nb=<n> etimes=…|… ebools=…|…   | err:data:<tag>
  joint dim=<n> nb=<none|n> store=<id|f32> rows=<id>:<age>:<v>,…:<time>:<code>;…
        → ok <tensor> ids=… nb=… etimes=… ebools=…  | err:data:<tag>
  cov dim=<n> ncov=<k> store=<id|f32> rows=<id>:<age>:<v>,…:<c>,<c>…;…
        → ok <tensor> covs=…|…  | err:data:<tag>
  store a=<int,…>   → <int,…>        (the single-precision read-back of ages, for cross-checking)

<tensor> = ids=… nvis=… nmax=… nvt=… times=…|… values=…;…|… mask=…;…|… nobsind=…|… nobsft=… nobs=…
-/

def fmtErr (e : Err) : String := s!"err:data:{reprStr e |>.replace "LeaspyVerif.Ingest.Err." ""}"

def parseCell {α} (p : String → Option α) (s : String) : Option (Cell α) :=
  if s == "nan" then some .nan else if s == "inf" then some .inf else Cell.fin <$> p s

def fmtOpt (o : Option Rat) : String := match o with | some q => fmtRat q | none => "nan"

def fmt3 {α} (f : α → String) (l : List (List (List α))) : String :=
  if l.isEmpty then "_" else "|".intercalate (l.map (fun m => fmtList (fmtList f) m ";"))

def fmt2 {α} (f : α → String) (l : List (List α)) : String :=
  if l.isEmpty then "_" else "|".intercalate (l.map (fmtList f))

def fmtTensor (t : Tensor) : String :=
  let ps := t.indivs
  s!"ids={fmtList toString (ps.map (·.id))} nvis={fmtList toString (ps.map (·.nVis))} nmax={t.nVisMax} nvt={t.nVisTotal} " ++
  s!"times={fmt2 toString (ps.map (·.times))} values={fmt3 fmtRat (ps.map (·.values))} mask={fmt3 fmtBool (ps.map (·.mask))} " ++
  s!"nobsind={fmt2 toString (ps.map (·.nObsFt))} nobsft={fmtList toString t.nObsFt} nobs={t.nObs}"

def fmtRows (rs : List Row) : String :=
  fmtList (fun (r : Row) => s!"{r.id}:{r.age}:{fmtList fmtOpt r.vals}") rs ";"

def parseStore (s : String) : Option (Int → Int) :=
  if s == "id" then some id else if s == "f32" then some storeF32 else none

def parseIdCol (s : String) : Option IdCol :=
  match s.splitOn "," with
  | [k, a, b, c] => do
      let kind ← (match k with
        | "string" => some IdKind.string | "integer" => some IdKind.integer
        | "categorical" => some IdKind.categorical | "other" => some IdKind.other | _ => none)
      some ⟨kind, ← parseBool a, ← parseBool b, ← parseBool c⟩
  | _ => none

def parseRawRow (s : String) : Option RawRow :=
  match s.splitOn ":" with
  | [i, a, v] => do some ⟨← parseNat i, ← parseCell parseInt a, ← parseList (parseCell parseRat) v⟩
  | _ => none

def parseObs (s : String) : Option (Option Rat) :=
  if s == "nan" then some none else some <$> parseRat s

def parseVisit (s : String) : Option Visit :=
  match s.splitOn ":" with
  | [a, v] => do some ⟨← parseInt a, ← parseList parseObs v⟩
  | _ => none

def parseEvRow (s : String) : Option EvRow :=
  match s.splitOn ":" with
  | [i, t, c] => do some ⟨← parseNat i, ← parseCell parseInt t, ← parseCell parseRat c⟩
  | _ => none

def parseJRow (s : String) : Option JRow :=
  match s.splitOn ":" with
  | [i, a, v, t, c] => do
      some ⟨⟨← parseNat i, ← parseInt a, ← parseList parseObs v⟩, ← parseCell parseInt t, ← parseCell parseRat c⟩
  | _ => none

def parseCRow (s : String) : Option CRow :=
  match s.splitOn ":" with
  | [i, a, v, c] => do
      some ⟨⟨← parseNat i, ← parseInt a, ← parseList parseObs v⟩, ← parseList (parseCell parseRat) c⟩
  | _ => none

def parseNb (s : String) : Option (Option Nat) :=
  if s == "none" then some none else some <$> parseNat s

def fmtEvents (nb : Nat) (evs : List Event) : String :=
  let ts := evs.map (fun e => (eventTensor nb e).1)
  let bs := evs.map (fun e => (eventTensor nb e).2)
  s!"ids={fmtList toString (evs.map (·.id))} nb={nb} etimes={fmt2 toString ts} ebools={fmt2 fmtBool bs}"

/-- the calls of `add_observations` one after the other on the same `IndividualData` -/
def addCalls (acc : List Visit) : List (List Visit) → Except Err (List Visit)
  | [] => .ok acc
  | c :: cs => match addObservations acc c with
    | .error e => .error e
    | .ok acc' => addCalls acc' cs

def handle (line : String) : String :=
  match line.splitOn " " with
  | "visit" :: args =>
    (do
      let idc ← (kv args "id") >>= parseIdCol
      let tnum ← (kv args "tnum") >>= parseBool
      let cols ← (kv args "cols") >>= parseList parseBool
      let store ← (kv args "store") >>= parseStore
      let rows ← (kv args "rows") >>= (parseList parseRawRow · ";")
      let dim := cols.length
      match ingestRaw ⟨idc, tnum, cols, rows⟩ with
      | .error e => some (fmtErr e)
      | .ok c =>
        let t := tensorise store dim c
        match toTable t with
        | .error e => some s!"ok {fmtTensor t} table={fmtErr e}"
        | .ok rs =>
          match ingest dim rs with
          | .error e => some s!"ok {fmtTensor t} table={fmtRows rs} re={fmtErr e}"
          | .ok c2 => some s!"ok {fmtTensor t} table={fmtRows rs} re={fmtTensor (tensorise store dim c2)}").getD "bad-request"
  | "addobs" :: args =>
    (do
      let calls ← (kv args "calls") >>= (fun s => (splitNE s "@").mapM (parseList parseVisit · ";"))
      match addCalls [] calls with
      | .error e => some (fmtErr e)
      | .ok vs => some s!"ok visits={fmtList (fun (v : Visit) => s!"{v.age}:{fmtList fmtOpt v.vals}") vs ";"}").getD "bad-request"
  | "event" :: args =>
    (do
      let nb ← (kv args "nb") >>= parseNb
      let rows ← (kv args "rows") >>= (parseList parseEvRow · ";")
      match ingestEventTable nb rows with
      | .error e => some (fmtErr e)
      | .ok (evs, n) => some s!"ok {fmtEvents n evs}").getD "bad-request"
  | "joint" :: args =>
    (do
      let dim ← (kv args "dim") >>= parseNat
      let nb ← (kv args "nb") >>= parseNb
      let store ← (kv args "store") >>= parseStore
      let rows ← (kv args "rows") >>= (parseList parseJRow · ";")
      match ingestJoint dim nb rows with
      | .error e => some (fmtErr e)
      | .ok (c, evs, n) =>
        -- events are reported in the order of the individuals of the dataset
        let evs' := c.filterMap (fun (p : Indiv) => evs.find? (fun (e : Event) => e.id == p.id))
        some s!"ok {fmtTensor (tensorise store dim c)} e{fmtEvents n evs'}").getD "bad-request"
  | "cov" :: args =>
    (do
      let dim ← (kv args "dim") >>= parseNat
      let ncov ← (kv args "ncov") >>= parseNat
      let store ← (kv args "store") >>= parseStore
      let rows ← (kv args "rows") >>= (parseList parseCRow · ";")
      match ingestCov dim ncov rows with
      | .error e => some (fmtErr e)
      | .ok (c, covs) =>
        let cv := c.filterMap (fun (p : Indiv) => (covs.find? (fun (e : Nat × List Int) => e.1 == p.id)).map (fun (e : Nat × List Int) => e.2))
        some s!"ok {fmtTensor (tensorise store dim c)} covs={fmt2 toString cv}").getD "bad-request"
  | "store" :: args =>
    (do
      let a ← (kv args "a") >>= parseList parseInt
      some (fmtList toString (a.map storeF32))).getD "bad-request"
  | _ => "bad-request"

def main : IO Unit := loop handle
