import LeaspyVerif.Proto
import LeaspyVerif.Model.MStep
open LeaspyVerif LeaspyVerif.Proto LeaspyVerif.MStep

/-
requests (exact rationals)

  step burn=<0|1> old=<name>:<q,…>|<name>:<q,…>… stats=<name>:<q,…;q,…>|… rules=<param>:<kind>:<var>:<tol>|…
       [ny=<q,…> nw=<bits> nyxm=<q,…> nmxm=<q,…> nkeys=<k,…> nft=<n>]
     kinds: pop | imean | istd | nscalar | ndiag          (var / tol ignored where not applicable: write `-` / `0`)
     → <param>=<q,…> <param>=err:conv …    (istd / nscalar / ndiag give *variances*)
  probs k=<K> expo=<q,…;q,…>   → p=<q,…>
  mixstep burn=<0|1> old=… stats=… lat=<name>:<q,…;q,…>|… expo=<q,…;q,…> rules=<param>:<kind>:<var>:<tol>|… [noise fields as for step]
     the rule set of models/mixture.py: kinds of `step` plus  mmean | mstd | mprobs  (for mprobs `var` is the number of clusters)
     `lat` = current latent values (n rows), `expo` = n × K exponentials of clamp(-nll_regul_ind_sum_ind, -100) (positive row sums)
     → as for step; mstd gives *variances*; err:nan / err:inf where torch silently stores nan / inf
-/

def parseBits (s : String) : Option (List Bool) :=
  if s == "_" then some [] else s.toList.mapM (fun c => if c == '1' then some true else if c == '0' then some false else none)

def parseNamed {β} (p : String → Option β) (s : String) : Option (List (String × β)) :=
  (splitNE s "|").mapM (fun item =>
    match item.splitOn ":" with
    | [n, v] => (fun x => (n, x)) <$> p v
    | _ => none)

def parseRule (item : String) : Option (String × Rule Rat) :=
  match item.splitOn ":" with
  | [pname, kind, var, tol] => do
    let t ← parseRat tol
    if kind == "pop" then some (pname, .popMean var)
    else if kind == "imean" then some (pname, .indMean var)
    else if kind == "istd" then some (pname, .indStd var t)
    else if kind == "nscalar" then some (pname, .noiseScalar t)
    else if kind == "ndiag" then some (pname, .noiseDiag t)
    else none
  | _ => none

def parseMixRule (item : String) : Option (String × MixRule Rat) :=
  match item.splitOn ":" with
  | [pname, kind, var, _] =>
    if kind == "mmean" then some (pname, .mixMean var)
    else if kind == "mstd" then some (pname, .mixStd var)
    else if kind == "mprobs" then (fun k => (pname, MixRule.probs k)) <$> parseNat var
    else (fun (r : String × Rule Rat) => (r.1, MixRule.base r.2)) <$> parseRule item
  | _ => none

def fmtRes : Except MErr (List Rat) → String
  | .ok v => fmtList fmtRat v
  | .error .convergence => "err:conv"
  | .error .missing => "err:missing"
  | .error .shape => "err:shape"
  | .error .nan => "err:nan"
  | .error .inf => "err:inf"

def parseNoise (args : List String) : Option (Option (NoiseIn Rat × List Nat × Nat)) :=
  match kv args "ny" with
  | none => some none
  | some ys => do
    let y ← parseList parseRat ys
    let w ← (kv args "nw") >>= parseBits
    let yxm ← (kv args "nyxm") >>= parseList parseRat
    let mxm ← (kv args "nmxm") >>= parseList parseRat
    let keys ← (kv args "nkeys") >>= parseList parseNat
    let nft ← (kv args "nft") >>= parseNat
    if w.length ≠ y.length ∨ yxm.length ≠ y.length ∨ mxm.length ≠ y.length ∨ keys.length ≠ y.length then none
    else some (some ((⟨y.zip w, yxm.zip w, mxm⟩ : NoiseIn Rat), keys, nft))

def handle (line : String) : String :=
  match line.splitOn " " with
  | "step" :: args =>
    (do
      let burn ← (kv args "burn") >>= parseBool
      let old ← (kv args "old") >>= parseNamed (parseList parseRat)
      let named ← (kv args "stats") >>= parseNamed (parseList2 parseRat)
      let rules ← (splitNE ((kv args "rules").getD "_") "|").mapM parseRule
      let noise ← match kv args "ny" with
        | none => some none
        | some ys => do
          let y ← parseList parseRat ys
          let w ← (kv args "nw") >>= parseBits
          let yxm ← (kv args "nyxm") >>= parseList parseRat
          let mxm ← (kv args "nmxm") >>= parseList parseRat
          let keys ← (kv args "nkeys") >>= parseList parseNat
          let nft ← (kv args "nft") >>= parseNat
          if w.length ≠ y.length ∨ yxm.length ≠ y.length ∨ mxm.length ≠ y.length ∨ keys.length ≠ y.length then none
          else some (some ((⟨y.zip w, yxm.zip w, mxm⟩ : NoiseIn Rat), keys, nft))
      let r := step burn old ⟨named, noise⟩ rules
      some (" ".intercalate (r.map (fun (p : String × Except MErr (List Rat)) => s!"{p.1}={fmtRes p.2}")))).getD "bad-request"
  | "mixstep" :: args =>
    (do
      let burn ← (kv args "burn") >>= parseBool
      let old ← (kv args "old") >>= parseNamed (parseList parseRat)
      let named ← (kv args "stats") >>= parseNamed (parseList2 parseRat)
      let lat ← (kv args "lat") >>= parseNamed (parseList2 parseRat)
      let expo ← (kv args "expo") >>= parseList2 parseRat
      let rules ← (splitNE ((kv args "rules").getD "_") "|").mapM parseMixRule
      let noise ← parseNoise args
      -- a softmax row always has a positive sum (its largest exponential is 1) and no negative entry
      if expo.any (fun w => w.any (fun e => decide (e < 0)) || decide (MStep.sum w ≤ 0)) then none else
      let r := mixStep burn ⟨old, lat, expo⟩ ⟨named, noise⟩ rules
      some (" ".intercalate (r.map (fun (p : String × Except MErr (List Rat)) => s!"{p.1}={fmtRes p.2}")))).getD "bad-request"
  | "probs" :: args =>
    (do
      let k ← (kv args "k") >>= parseNat
      let expo ← (kv args "expo") >>= parseList2 parseRat
      some s!"p={fmtList fmtRat (mixtureProbs k expo)}").getD "bad-request"
  | _ => "bad-request"

def main : IO Unit := loop handle
