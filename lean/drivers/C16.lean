import LeaspyVerif.Proto
import LeaspyVerif.Model.IndParams
open LeaspyVerif LeaspyVerif.Proto LeaspyVerif.IndParams

/-
One request line = one complete case (a sequence of additions, then one conversion path).

lexical
  string   hex of the UTF-8 bytes
  id       s<hex> | n                       (n = not a python str)
  name     x<hex>
  rawval   q<rat> | b | l<e>:<e>:…          e = <rat> | b ;  `l` alone = empty list ;  b = unsupported type
  params   N | D<name>~<rawval>&…           N = not a dict ; `D` alone = empty dict
  adds     <id>@<params>|<id>@<params>|…    `_` = none
  val      q<rat> | l<rat>:<rat>:…
  shape    s (= `()`) | d<n>:<n>…

requests
  (every adds-request answers `rej=<k>:<e>,…` first: the refused additions, which leave no trace)
  build     adds=…                                   → c=<container>
  table     adds=…                                   → t=<table|err:e> back=<container|err:e>
  csv       adds=…                                   → same, through save / load of a csv file
  torch     adds=…                                   → t=<ids;tensors|err:e> back=<container|err:e>       (float32 rounding)
  json      adds=…                                   → j=<json|err:e> back=<container|->
  jsonrev   adds=…                                   → t=<ids;tensors|err:e>   (json file with the individuals' dict reversed, loaded, to tensors)
  fromtable cols=<name>,… rows=<id>@<rat>:<rat>…|…   → <container> | err:<e>
  fromtorch ids=<id>,… t=<name>~1~<rat>:…&<name>~2~<rat>:…;<rat>:…&…   → <container> | err:<e>     (row `e` = empty row)

container  ids=<id>,…;shapes=<none|<name>~<shape>&…>;params=<id>@<name>~<val>&…|…
-/

def hexVal (c : Char) : Option Nat :=
  if '0' ≤ c ∧ c ≤ '9' then some (c.toNat - '0'.toNat)
  else if 'a' ≤ c ∧ c ≤ 'f' then some (c.toNat - 'a'.toNat + 10) else none

def hexBytes : List Char → Option (List UInt8)
  | [] => some []
  | [_] => none
  | a :: b :: rest => do
    let x ← hexVal a
    let y ← hexVal b
    let r ← hexBytes rest
    pure (UInt8.ofNat (16 * x + y) :: r)

def unhex (s : String) : Option String := do
  let bs ← hexBytes s.toList
  String.fromUTF8? (ByteArray.mk bs.toArray)

def hexDigit (n : Nat) : Char := if n < 10 then Char.ofNat (48 + n) else Char.ofNat (87 + n)

def hex (s : String) : String :=
  String.ofList (s.toUTF8.toList.flatMap (fun b => [hexDigit (b.toNat / 16), hexDigit (b.toNat % 16)]))

def dropFirst (s : String) : String := String.ofList (s.toList.drop 1)

def parseName (s : String) : Option Name :=
  if s.startsWith "x" then (unhex (dropFirst s)).map String.toList else none

def fmtName (n : Name) : String := "x" ++ hex (String.ofList n)

def parseId (s : String) : Option RawId :=
  if s == "n" then some .nonStr
  else if s.startsWith "s" then (unhex (dropFirst s)).map .str else none

def fmtRawId : RawId → String
  | .str s => "s" ++ hex s
  | .nonStr => "n"

def fmtId (s : String) : String := "s" ++ hex s

def splitNE' (s : String) (sep : String) : List String := if s == "" then [] else s.splitOn sep

def parseElem (s : String) : Option (RawElem Rat) :=
  if s == "b" then some .bad else (parseRat s).map .num

def parseRawVal (s : String) : Option (RawVal Rat) :=
  if s == "b" then some .bad
  else if s.startsWith "q" then (parseRat (dropFirst s)).map .num
  else if s.startsWith "l" then ((splitNE' (dropFirst s) ":").mapM parseElem).map .list
  else none

def parseParams (s : String) : Option (RawParams Rat) :=
  if s == "N" then some .notDict
  else if s.startsWith "D" then
    ((splitNE' (dropFirst s) "&").mapM (fun (kv : String) =>
      match kv.splitOn "~" with
      | [k, v] => do
        let n ← parseName k
        let x ← parseRawVal v
        pure (n, x)
      | _ => none)).map .dict
  else none

def parseAdds (s : String) : Option (List (RawId × RawParams Rat)) :=
  (splitNE s "|").mapM (fun a =>
    match a.splitOn "@" with
    | [i, p] => do
      let i' ← parseId i
      let p' ← parseParams p
      pure (i', p')
    | _ => none)

def fmtErr : Err → String
  | .input => "err:input"
  | .attr => "err:attr"
  | .invariant => "err:invariant"

def fmtVal : Val Rat → String
  | .scalar x => "q" ++ fmtRat x
  | .vec xs => "l" ++ ":".intercalate (xs.map fmtRat)

def fmtShape (s : Shape) : String := if s.isEmpty then "s" else "d" ++ ":".intercalate (s.map toString)

def fmtDict (d : List (Name × Val Rat)) : String :=
  "&".intercalate (d.map (fun kv => fmtName kv.1 ++ "~" ++ fmtVal kv.2))

def fmtShapes (sh : List (Name × Shape)) : String :=
  "&".intercalate (sh.map (fun kv => fmtName kv.1 ++ "~" ++ fmtShape kv.2))

def fmtContainer (c : Container Rat) : String :=
  "ids=" ++ fmtList fmtId c.ids ++ ";shapes=" ++
    (match c.shapes with | none => "none" | some sh => fmtShapes sh) ++
    ";params=" ++ fmtList (fun (ip : String × List (Name × Val Rat)) => fmtId ip.1 ++ "@" ++ fmtDict ip.2) c.params "|"

def fmtExc (r : Except Err (Container Rat)) : String :=
  match r with
  | .ok c => fmtContainer c
  | .error e => fmtErr e

def fmtRow (xs : List Rat) : String := if xs.isEmpty then "e" else ":".intercalate (xs.map fmtRat)

def fmtTable (t : Table Rat) : String :=
  "cols=" ++ fmtList fmtName t.cols ++ ";rows=" ++
    fmtList (fun (r : RawId × List Rat) => fmtRawId r.1 ++ "@" ++ fmtRow r.2) t.rows "|"

def fmtTensor : Tensor Rat → String
  | .d1 xs => "1~" ++ fmtRow xs
  | .d2 rows => "2~" ++ fmtList fmtRow rows ";"

def fmtTensors (it : List String × List (Name × Tensor Rat)) : String :=
  "ids=" ++ fmtList fmtId it.1 ++ ";t=" ++ fmtList (fun (kt : Name × Tensor Rat) => fmtName kt.1 ++ "~" ++ fmtTensor kt.2) it.2 "&"

def fmtJson (j : Json Rat) : String :=
  "indices=" ++ fmtList fmtId j.indices ++ ";shape=" ++ fmtShapes j.parameters_shape ++
    ";ip=" ++ fmtList (fun (ip : String × List (Name × Val Rat)) => fmtId ip.1 ++ "@" ++ fmtDict ip.2) j.individual_parameters "|"

/-- exact value of a finite single-precision number -/
def f32ToRat (f : Float32) : Rat :=
  let b := f.toBits.toNat
  let neg := b / 2147483648 == 1
  let e := (b / 8388608) % 256
  let m := b % 8388608
  let mag : Rat :=
    if e == 0 then mkRat m (2 ^ 149)
    else if e ≥ 150 then ((m + 8388608) * 2 ^ (e - 150) : Nat)
    else mkRat (m + 8388608) (2 ^ (150 - e))
  if neg then -mag else mag

/-- `torch.tensor(x, dtype=torch.float32)` for a python number given as an exact rational of a double / small int:
    the quotient below is exact for such inputs, the conversion to single precision rounds to nearest-even. -/
def rnd32 (x : Rat) : Rat := f32ToRat (Float.ofInt x.num / Float.ofNat x.den).toFloat32

/-- the additions in order; a refused one leaves the container as it was (index and error class are reported) -/
def buildSkip : Container Rat → Nat → List (RawId × RawParams Rat) → Container Rat × List String
  | c, _, [] => (c, [])
  | c, k, (i, p) :: rest =>
    match add c i p with
    | .error e =>
      let r := buildSkip c (k + 1) rest
      (r.1, s!"{k}:{(fmtErr e).drop 4}" :: r.2)
    | .ok c' => buildSkip c' (k + 1) rest

def withBuilt (args : List String) (k : Container Rat → String) : String :=
  match (kv args "adds") >>= parseAdds with
  | none => "bad-request"
  | some adds =>
    let r := buildSkip empty 0 adds
    s!"rej={fmtList id r.2} {k r.1}"

def parseRow (s : String) : Option (List Rat) := if s == "e" then some [] else (s.splitOn ":").mapM parseRat

def parseTensor (s : String) : Option (Name × Tensor Rat) :=
  match s.splitOn "~" with
  | [k, "1", xs] => do
    let n ← parseName k
    let v ← parseRow xs
    pure (n, .d1 v)
  | [k, "2", rows] => do
    let n ← parseName k
    let v ← (splitNE rows ";").mapM parseRow
    pure (n, .d2 v)
  | _ => none

def handle (line : String) : String :=
  match line.splitOn " " with
  | "build" :: args => withBuilt args fun c => s!"c={fmtContainer c}"
  | "table" :: args =>
    withBuilt args fun c =>
      match toTable c with
      | .error e => s!"t={fmtErr e} back=-"
      | .ok t => s!"t={fmtTable t} back={fmtExc (fromTable t)}"
  | "csv" :: args =>
    withBuilt args fun c =>
      match saveCsv c with
      | .error e => s!"t={fmtErr e} back=-"
      | .ok t => s!"t={fmtTable t} back={fmtExc (loadCsv t)}"
  | "torch" :: args =>
    withBuilt args fun c =>
      match toTorch rnd32 c with
      | .error e => s!"t={fmtErr e} back=-"
      | .ok it => s!"t={fmtTensors it} back={fmtExc (fromTorch (it.1.map RawId.str) it.2)}"
  | "json" :: args =>
    withBuilt args fun c =>
      match toJson c with
      | .error e => s!"j={fmtErr e} back=-"
      | .ok j => s!"j={fmtJson j} back={fmtContainer (fromJson j)}"
  | "jsonrev" :: args =>
    -- a JSON file whose dictionary of individuals is listed in the reverse order of its identifier list
    -- (e.g. written with sort_keys, or by another tool), loaded, then converted to tensors
    withBuilt args fun c =>
      match toJson c with
      | .error e => s!"t={fmtErr e}"
      | .ok j =>
        let c' := fromJson { j with individual_parameters := j.individual_parameters.reverse }
        match toTorch rnd32 c' with
        | .error e => s!"t={fmtErr e}"
        | .ok it => s!"t={fmtTensors it}"
  | "fromtable" :: args =>
    (do
      let cols ← (kv args "cols") >>= parseList parseName
      let rows ← (kv args "rows") >>= fun s => (splitNE s "|").mapM (fun (r : String) =>
        match r.splitOn "@" with
        | [i, xs] => do
          let i' ← parseId i
          let v ← parseRow xs
          pure (i', v)
        | _ => none)
      some (fmtExc (fromTable { cols := cols, rows := rows }))).getD "bad-request"
  | "fromtorch" :: args =>
    (do
      let ids ← (kv args "ids") >>= parseList parseId
      let ts ← (kv args "t") >>= fun s => (splitNE s "&").mapM parseTensor
      some (fmtExc (fromTorch ids ts))).getD "bad-request"
  | _ => "bad-request"

def main : IO Unit := loop handle
