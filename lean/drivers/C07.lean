import LeaspyVerif.Proto
import LeaspyVerif.Model.Sampler
import LeaspyVerif.Model.Indep
open LeaspyVerif LeaspyVerif.Proto LeaspyVerif.Sampler LeaspyVerif.Indep

/-
requests (floats are `f<uint64 bits of the double>`)

  total t=<f,…>                      → sum=<f>          left-to-right double sum of the per-individual terms
  perm p=<i,…> t=<f,…>               → t=<f,…>          terms of the re-indexed cohort (`terms_permute`)
  add a=<f,…> b=<f,…>                → t=<f,…>          entry-wise sum of two per-individual term vectors
  ind dt=<32|64> tinv=<f> d=<n> cur=<f,…;f,…> std=<f,…> z=<f,…> u=<f,…> dA=<f,…> dR=<f,…>
        → acc=<b,…> val=<f,…;…> usedz=<n> usedu=<n>     | err:draws      (one step of the individual sampler)
-/

/-- dt=64 (joint model: float64 `tau`, `xi`): the change `std * randn` is a float32 product
    (both factors are float32 tensors), the accumulation on the float64 value is a double addition. -/
structure Mixed where
  v : Float
instance : Mul Mixed := ⟨fun a b => ⟨(a.v.toFloat32 * b.v.toFloat32).toFloat⟩⟩
instance : Add Mixed := ⟨fun a b => ⟨a.v + b.v⟩⟩
instance : OfNat Mixed 0 := ⟨⟨0⟩⟩

def zip3 {α β γ} : List α → List β → List γ → List (α × β × γ)
  | a :: as, b :: bs, c :: cs => (a, b, c) :: zip3 as bs cs
  | _, _, _ => []

def runInd {α} [Mul α] [Add α] (ofF : Float → α) (toF : α → Float) (args : List String) : Option String := do
  let tinv ← (kv args "tinv") >>= parseFloat
  let d ← (kv args "d") >>= parseNat
  let cur ← (kv args "cur") >>= parseList2 parseFloat
  let std ← (kv args "std") >>= parseList parseFloat
  let z ← (kv args "z") >>= parseList parseFloat
  let u ← (kv args "u") >>= parseList parseFloat
  let dA ← (kv args "dA") >>= parseList parseFloat
  let dR ← (kv args "dR") >>= parseList parseFloat
  if std.length != cur.length || dA.length != cur.length || dR.length != cur.length then none
  if cur.any (fun row => row.length != d) then none
  let inds : List (Ind α Float) :=
    (zip3 cur std (dA.zip dR)).map fun (c, s, e) => ⟨c.map ofF, ofF s, fun _ _ => e⟩
  match indSample Float.exp tinv d inds (z.map ofF) u with
  | none => some "err:draws"
  | some r =>
    some s!"acc={fmtList (fun (x : List α × Bool) => fmtBool x.2) r.rows} val={fmtList2 (fun x => fmtFloat (toF x)) (r.rows.map (·.1))} usedz={z.length - r.zs.length} usedu={u.length - r.us.length}"

def handle (line : String) : String :=
  match line.splitOn " " with
  | "total" :: args =>
    (do
      let t ← (kv args "t") >>= parseList parseFloat
      some s!"sum={fmtFloat (total t)}").getD "bad-request"
  | "perm" :: args =>
    (do
      let p ← (kv args "p") >>= parseList parseNat
      let t ← (kv args "t") >>= parseList parseFloat
      some s!"t={fmtList fmtFloat (terms (fun (_ : Unit) (x : Float) => x) () (permute p t))}").getD "bad-request"
  | "add" :: args =>
    (do
      let a ← (kv args "a") >>= parseList parseFloat
      let b ← (kv args "b") >>= parseList parseFloat
      if a.length != b.length then none
      some s!"t={fmtList fmtFloat (addTerms a b)}").getD "bad-request"
  | "ind" :: args =>
    (match kv args "dt" with
     | some "32" => runInd (α := Float32) Float.toFloat32 Float32.toFloat args
     | some "64" => runInd (α := Mixed) Mixed.mk Mixed.v args
     | _ => none).getD "bad-request"
  | _ => "bad-request"

def main : IO Unit := loop handle
