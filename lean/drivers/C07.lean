import LeaspyVerif.Proto
import LeaspyVerif.Model.Sampler
import LeaspyVerif.Model.Indep
import LeaspyVerif.Model.Trace
open LeaspyVerif LeaspyVerif.Proto LeaspyVerif.Sampler LeaspyVerif.Indep

/-
requests (floats are `f<uint64 bits of the double>`)

  total t=<f,…>                      → sum=<f>          left-to-right double sum of the per-individual terms
  perm p=<i,…> t=<f,…>               → t=<f,…>          terms of the re-indexed cohort (`terms_permute`)
  add a=<f,…> b=<f,…>                → t=<f,…>          entry-wise sum of two per-individual term vectors
  ind dt=<32|64> tinv=<f> d=<n> cur=<f,…;f,…> std=<f,…> z=<f,…> u=<f,…> dA=<f,…> dR=<f,…>
        → acc=<b,…> val=<f,…;…> usedz=<n> usedu=<n>     | err:draws      (one step of the individual sampler)

  trace outs=<id,…> nodes=<node;node;…>
        → rowlocal=<1|0> firstbad=<id>:<reason>|_ types=<one of p,i,m per node> modes=<one of r,w,u,- per node>
          batched=<0|1 per node> layout=<0|1|g per node> nwhole=<k> nescape=<k> unsupported=<names|_>
        the program recorded from the real code (`harness/trace_c07.py`), lowered by `Trace.lower` and typed by
        `Trace.rowLocal`; `firstbad` = first `mixed` ancestor of the first offending output (or the first escape of a
        non-`pop` value) with the reason: `axis0:<fn>` (takes batched arguments whole), `unknown-leaf`, `escape`,
        `unsupported:<torch name>`, `dangling`
  evaltrace n=<n> outs=… nodes=… pops=<f,…;…> inds=<f,…;…> unks=<f,…;…>
        → out=<id>:<shape>:<f,…>;…      values of the outputs under `Trace.tensorSem` on doubles (batched: all rows)

  node syntax (`|`-separated; shapes `3x11x4`, scalar `_`):
    P|k|shape   I|k|shape   U|k|shape          inputs (population-level / individual-level, axis 0 = individuals / unclassified)
    J|k|shape                                  individual-level input whose individuals are on axis 1 (k numbered with the I inputs)
    K|shape|f,…                                constant
    E|a|<1|0>                                  bool()/item() of node a; 1 = whitelisted assertion site
    O|<op>|<args>|<out shape>|<params>         ew.<name> | red.<name> dims:keep | view | squeeze d|_ | unsqueeze d | expand |
                                               getitem <items: `:` N E i<k> s<a>:<b>:<step>> | cat d | stack d | matmul |
                                               transpose a,b | softmax d | cumsum d | mselect | mscatter | unknown.<torch name>
-/

/-- dt=64 (joint model: float64 `tau`, `xi`): the change `std * randn` is a float32 product
    (both factors are float32 tensors), the accumulation on the float64 value is a double addition. -/
structure Mixed where
  v : Float
instance : Mul Mixed := ⟨fun a b => ⟨(a.v.toFloat32 * b.v.toFloat32).toFloat⟩⟩
instance : Add Mixed := ⟨fun a b => ⟨a.v + b.v⟩⟩
instance : OfNat Mixed 0 := ⟨⟨0⟩⟩

def zip3 {α β γ} : List α → List β → List γ → List (α × β × γ)
  | a :: as, b :: bs, c :: cs => (a, b, c) :: zip3 as bs cs
  | _, _, _ => []

def runInd {α} [Mul α] [Add α] (ofF : Float → α) (toF : α → Float) (args : List String) : Option String := do
  let tinv ← (kv args "tinv") >>= parseFloat
  let d ← (kv args "d") >>= parseNat
  let cur ← (kv args "cur") >>= parseList2 parseFloat
  let std ← (kv args "std") >>= parseList parseFloat
  let z ← (kv args "z") >>= parseList parseFloat
  let u ← (kv args "u") >>= parseList parseFloat
  let dA ← (kv args "dA") >>= parseList parseFloat
  let dR ← (kv args "dR") >>= parseList parseFloat
  if std.length != cur.length || dA.length != cur.length || dR.length != cur.length then none
  if cur.any (fun row => row.length != d) then none
  let inds : List (Ind α Float) :=
    (zip3 cur std (dA.zip dR)).map fun (c, s, e) => ⟨c.map ofF, ofF s, fun _ _ => e⟩
  match indSample Float.exp tinv d inds (z.map ofF) u with
  | none => some "err:draws"
  | some r =>
    some s!"acc={fmtList (fun (x : List α × Bool) => fmtBool x.2) r.rows} val={fmtList2 (fun x => fmtFloat (toF x)) (r.rows.map (·.1))} usedz={z.length - r.zs.length} usedu={u.length - r.us.length}"

/-! ### recorded programs (`Model/Trace.lean`) -/
namespace TraceDrv
open LeaspyVerif.Trace

def floatOps : Ops Float :=
  { zero := 0, one := 1, add := (· + ·), sub := (· - ·), mul := (· * ·), div := (· / ·), lt := (· < ·), eq := (· == ·),
    exp := Float.exp, log := Float.log, pow := Float.pow, sqrt := Float.sqrt, ofNat := Float.ofNat }

def parseShape (s : String) : Option (List Nat) := parseList parseNat s "x"
def fmtShape (s : List Nat) : String := fmtList toString s "x"

def parseEw : String → Option Ew
  | "add" => some .add | "sub" => some .sub | "mul" => some .mul | "div" => some .div | "pow" => some .pow
  | "ge" => some .ge | "gt" => some .gt | "le" => some .le | "lt" => some .lt | "eq" => some .eq | "ne" => some .ne
  | "and" => some .and | "or" => some .or | "not" => some .not | "neg" => some .neg | "exp" => some .exp
  | "log" => some .log | "log1p" => some .log1p | "sigmoid" => some .sigmoid | "sign" => some .sign | "abs" => some .abs
  | "sqrt" => some .sqrt | "square" => some .square | "id" => some .id | "where" => some .where_
  | "maximum" => some .maximum | "minimum" => some .minimum | "bce" => some .bce | "fill0" => some .fill0
  | "fill1" => some .fill1 | _ => none

def parseRed : String → Option Red
  | "sum" => some .sum | "prod" => some .prod | "max" => some .max | "min" => some .min | "mean" => some .mean
  | "all" => some .all | "any" => some .any | "median" => some .median | _ => none

def parseOptInt (s : String) : Option (Option Int) := if s == "_" || s == "" then some none else some <$> parseInt s

def parseIx (s : String) : Option Ix :=
  if s == ":" then some .all else if s == "N" then some .new else if s == "E" then some .ell
  else if s.startsWith "i" then Ix.at <$> parseInt (s.drop 1).toString
  else if s.startsWith "s" then
    match (s.drop 1).toString.splitOn ":" with
    | [a, b, c] => do
      let a ← parseOptInt a
      let b ← parseOptInt b
      let c ← parseNat c
      some (.slice a b c)
    | _ => none
  else none

def parseTOp (name params : String) : Option (TOp Float) :=
  match name.splitOn "." with
  | ["ew", e] => TOp.ew <$> parseEw e
  | ["red", r] => do
    let k ← parseRed r
    match params.splitOn ":" with
    | [ds, keep] => do
      let ds ← parseList parseInt ds
      let keep ← parseBool keep
      some (.red k ds keep)
    | _ => none
  | ["view"] => some .view
  | ["squeeze"] => TOp.squeeze <$> parseOptInt params
  | ["unsqueeze"] => TOp.unsqueeze <$> parseInt params
  | ["expand"] => some .expand
  | ["getitem"] => TOp.getitem <$> parseList parseIx params
  | ["cat"] => TOp.cat <$> parseInt params
  | ["stack"] => TOp.stack <$> parseInt params
  | ["matmul"] => some .matmul
  | ["transpose"] => match params.splitOn "," with
    | [a, b] => do some (.transpose (← parseInt a) (← parseInt b))
    | _ => none
  | ["softmax"] => TOp.softmax <$> parseInt params
  | ["cumsum"] => TOp.cumsum <$> parseInt params
  | ["mselect"] => some .mselect
  | ["mscatter"] => some .mscatter
  | "unknown" :: rest => some (.unknown (".".intercalate rest))
  | _ => none

def parseNode (s : String) : Option (TNode Float) :=
  match s.splitOn "|" with
  | ["P", k, sh] => do some (.pop (← parseNat k) (← parseShape sh))
  | ["I", k, sh] => do some (.ind (← parseNat k) (← parseShape sh))
  | ["J", k, sh] => do some (.ind1 (← parseNat k) (← parseShape sh))
  | ["U", k, sh] => do some (.unk (← parseNat k) (← parseShape sh))
  | ["K", sh, d] => do
    let sh ← parseShape sh
    let d ← parseList parseFloat d
    if d.length != numel sh then none
    some (.op (.const ⟨sh, d.toArray⟩) [] sh)
  | ["E", a, w] => do some (.escape (← parseNat a) (← parseBool w))
  | ["O", name, args, sh, params] => do
    let o ← parseTOp name params
    some (.op o (← parseList parseNat args) (← parseShape sh))
  | _ => none

/-- well-scoped: every argument is an earlier node -/
def wellScoped (nodes : List (TNode Float)) : Bool :=
  nodes.zipIdx.all fun (nd, i) => match nd with
    | .op _ args _ => args.all (· < i)
    | .escape a _ => a < i
    | _ => true

def fnName : Fn Float → String
  | .const _ => "const" | .ew _ _ => "ew" | .red _ _ _ => "red" | .reshape _ => "reshape" | .expand _ => "expand"
  | .index _ => "index" | .cat _ => "cat" | .stack _ => "stack" | .matmul => "matmul" | .transpose _ _ => "transpose"
  | .softmax _ => "softmax" | .cumsum _ => "cumsum" | .mselect => "mselect" | .mscatter => "mscatter"
  | .unknown s => s!"unsupported:{s}"

def reason (nodes : List (Node (Fn Float))) (tys : List Ty) (k : Nat) : String :=
  match nodes[k]? with
  | some (.unk _) => "unknown-leaf"
  | some (.escape _) => "escape"
  | some (.op f args) =>
    if args.any (fun a => tys[a.id]?.isNone) then "dangling"
    else match f with
      | .unknown s => s!"unsupported:{s}"
      | _ => if args.any (fun a => a.whole && tys[a.id]? != some .pop) then s!"axis0:{fnName f}" else "mixed-input"
  | _ => "?"

def parseProg (args : List String) : Option (List (TNode Float) × List Nat) := do
  let outs ← (kv args "outs") >>= parseList parseNat
  let nodes ← (kv args "nodes") >>= (parseList parseNode · ";")
  if !wellScoped nodes || outs.any (· ≥ nodes.length) then none
  some (nodes, outs)

def runTrace (args : List String) : Option String := do
  let (tnodes, outs) ← parseProg args
  let p := lower tnodes outs
  let tys := types p
  let ok := rowLocal p
  -- first offending node: an escaping non-pop value, else the first mixed ancestor of the first non-local output
  let badEsc := (p.nodes.zip tys).zipIdx.find? fun ((nd, t), _) => nd.isEscape && t != .pop
  let badOut := outs.find? fun o => !(tys[o]? == some .ind || tys[o]? == some .pop)
  let first : Option Nat := match badOut with
    | some o => ((ancestors p.nodes o).filter (fun k => tys[k]? == some .mixed)).foldl
        (fun m k => match m with | none => some k | some m => some (min m k)) none
    | none => badEsc.map (·.2)
  let nwhole := (p.nodes.filter fun nd => match nd with | .op _ a => a.any (·.whole) | _ => false).length
  let nesc := (p.nodes.filter (·.isEscape)).length
  let unsup := p.nodes.filterMap fun nd => match nd with | .op (.unknown s) _ => some s | _ => none
  let tyc := fun (t : Ty) => match t with | .pop => "p" | .ind => "i" | .mixed => "m"
  let fb := match first with | some k => s!"{k}:{reason p.nodes tys k}" | none => "_"
  -- per node: r = acts row by row (batched result), w = takes batched arguments whole, u = unbatched operation, - = input / escape
  let infos := (lowerFrom tnodes [] []).2
  let modes := (p.nodes.zip infos).map fun (nd, i) => match nd with
    | .op _ a => if a.any (·.whole) then "w" else if i.batched then "r" else "u"
    | _ => "-"
  let bat := infos.map fun i => if i.batched then "1" else "0"
  -- how the rows of a batched value make up the torch tensor: 0 = stacked on axis 0, 1 = on axis 1, g = ragged (`x[mask]`)
  let lay := infos.map fun i => if i.ragged.isSome then "g" else if i.axis = 1 then "1" else "0"
  some s!"rowlocal={fmtBool ok} firstbad={fb} types={"".intercalate (tys.map tyc)} modes={"".intercalate modes} batched={"".intercalate bat} layout={"".intercalate lay} nwhole={nwhole} nescape={nesc} unsupported={fmtList id unsup.eraseDups}"

def leafShapes (nodes : List (TNode Float)) : List (List Nat) × List (List Nat) × List (List Nat) × List Nat :=
  let get := fun (sel : TNode Float → Option (Nat × List Nat)) =>
    let l := nodes.filterMap sel
    (List.range l.length).map fun k => ((l.find? (·.1 = k)).map (·.2)).getD []
  let inds := get fun | .ind k s => some (k, s) | .ind1 k s => some (k, s) | _ => none
  let ax1 := nodes.filterMap fun | .ind1 k _ => some k | _ => none
  (get fun | .pop k s => some (k, s) | _ => none, inds,
   get fun | .unk k s => some (k, s) | _ => none, (List.range inds.length).map fun k => if ax1.contains k then 1 else 0)

def runEval (args : List String) : Option String := do
  let (tnodes, outs) ← parseProg args
  let n ← (kv args "n") >>= parseNat
  let (ps, is, us, axes) := leafShapes tnodes
  let rd := fun (key : String) (shapes : List (List Nat)) => do
    let d ← (kv args key) >>= (parseList (parseList parseFloat ·) · ";")
    if d.length != shapes.length then none
    if (d.zip shapes).any (fun (x, s) => x.length != numel s) then none
    some ((d.zip shapes).map fun (x, s) => (⟨s, x.toArray⟩ : Tn Float))
  let pops ← rd "pops" ps
  let inds ← rd "inds" is
  let unks ← rd "unks" us
  let p := lower tnodes outs
  let env := (eval (tensorSem floatOps) n (inputsOfAx floatOps pops (inds.zip axes) unks) p).toArray
  let infos := (lowerFrom tnodes [] []).2
  let fmt := fun (o : Nat) => match env[o]? with
    | none => s!"{o}:_:_"
    | some v =>
      let t := layoutWhole floatOps n ((infos[o]?).getD ⟨false, [], 0, none⟩) v
      s!"{o}:{fmtShape t.shape}:{fmtList fmtFloat t.data.toList}"
  some s!"out={";".intercalate (outs.map fmt)}"

end TraceDrv

def handle (line : String) : String :=
  match line.splitOn " " with
  | "total" :: args =>
    (do
      let t ← (kv args "t") >>= parseList parseFloat
      some s!"sum={fmtFloat (total t)}").getD "bad-request"
  | "perm" :: args =>
    (do
      let p ← (kv args "p") >>= parseList parseNat
      let t ← (kv args "t") >>= parseList parseFloat
      some s!"t={fmtList fmtFloat (terms (fun (_ : Unit) (x : Float) => x) () (permute p t))}").getD "bad-request"
  | "add" :: args =>
    (do
      let a ← (kv args "a") >>= parseList parseFloat
      let b ← (kv args "b") >>= parseList parseFloat
      if a.length != b.length then none
      some s!"t={fmtList fmtFloat (addTerms a b)}").getD "bad-request"
  | "ind" :: args =>
    (match kv args "dt" with
     | some "32" => runInd (α := Float32) Float.toFloat32 Float32.toFloat args
     | some "64" => runInd (α := Mixed) Mixed.mk Mixed.v args
     | _ => none).getD "bad-request"
  | "trace" :: args => (TraceDrv.runTrace args).getD "bad-request"
  | "evaltrace" :: args => (TraceDrv.runEval args).getD "bad-request"
  | _ => "bad-request"

def main : IO Unit := loop handle
