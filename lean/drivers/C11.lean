import LeaspyVerif.Proto
import LeaspyVerif.Model.Api
import LeaspyVerif.Model.Draws
open LeaspyVerif LeaspyVerif.Proto LeaspyVerif.Api

/-
request (one line = one whole fit, logging side)
  log path=<0|1> print=<int|none> save=<int|none> plot=<int|none> pp=<int|none> ow=<0|1> other=<0|1> dne=<0|1> n=<iterations>
      → err:algo                                  (refused by set_logs / OutputsSettings)
      | ok mgr=<0|1> root=<0|1> acts=<letters;…>  one entry per iteration 1…n, letters P(rint) S(ave) T(patients plot)
                                                  C(onvergence plot) in execution order, `_` = nothing
      | err:attribute@<k>                         (only with shipped=1: AttributeError at iteration k)
  optional shipped=1 selects the code before repair F6.

request (one line = one recorded seeded run, `harness/draws_c11.py`)
  draws prog=<event,event,…>
      events  s<g>.<r|c<value>>.<c>   seeding of generator g with the run's seed (r) / a literal
              e<g>.<c>                seeding from the clock / the OS
              d<g>.<kind>.<amount>.<c> a draw
              g<g>.<slot>.<c>         generator state read into snapshot <slot>
              p<g>.<slot>.<c>         generator state written from snapshot <slot>
              u<g>.<c>                the recorder cannot vouch for generator g
              n<tag>.<c>              marker (a logging action starts)
              <c> call-site class: a(lgorithm) s(ampler) i(nitialization) l(ogging) o(ther)
      → seededfirst=<0|1> loggingdraws=<n> firstbad=<none | index:draw:<g> | index:unknown:<g>> gens=<generators drawn from>
        sig=<digest of the program without its markers> n=<number of events>
-/

def parseSite (s : String) : Option Draws.Site :=
  match s with
  | "a" => some .algorithm | "s" => some .sampler | "i" => some .initialization | "l" => some .logging | "o" => some .other
  | _ => none

def parseSeedVal (s : String) : Option Draws.SeedVal :=
  if s == "r" then some .run
  else if s.startsWith "c" then Draws.SeedVal.const <$> (s.drop 1).toString.toNat? else none

def parseEv (t : String) : Option Draws.Ev :=
  let body := (t.drop 1).toString
  match t.take 1 |>.toString, body.splitOn "." with
  | "s", [g, v, c] => do some ⟨← parseSite c, .seed (← parseNat g) (← parseSeedVal v)⟩
  | "e", [g, c] => do some ⟨← parseSite c, .entropy (← parseNat g)⟩
  | "u", [g, c] => do some ⟨← parseSite c, .unknown (← parseNat g)⟩
  | "d", [g, k, n, c] => do some ⟨← parseSite c, .draw (← parseNat g) (← parseNat k) (← parseNat n)⟩
  | "g", [g, sl, c] => do some ⟨← parseSite c, .save (← parseNat g) (← parseNat sl)⟩
  | "p", [g, sl, c] => do some ⟨← parseSite c, .restore (← parseNat g) (← parseNat sl)⟩
  | "n", [tg, c] => do some ⟨← parseSite c, .note (← parseNat tg)⟩
  | _, _ => none

def describeBad (p : Draws.Prog) (i : Nat) : String :=
  match p[i]? with
  | some ⟨_, .draw g _ _⟩ => s!"{i}:draw:{g}"
  | some ⟨_, .unknown g⟩ => s!"{i}:unknown:{g}"
  | _ => s!"{i}:?"

def parseOptInt (s : String) : Option (Option Int) :=
  if s == "none" then some none else some <$> parseInt s

def letter : Action → String
  | .print => "P"
  | .save => "S"
  | .plotPatients => "T"
  | .plotConvergence => "C"

def handle (line : String) : String :=
  match line.splitOn " " with
  | "log" :: args =>
    (do
      let path ← (kv args "path") >>= parseBool
      let print ← (kv args "print") >>= parseOptInt
      let save ← (kv args "save") >>= parseOptInt
      let plot ← (kv args "plot") >>= parseOptInt
      let pp ← (kv args "pp") >>= parseOptInt
      let ow ← (kv args "ow") >>= parseBool
      let other ← (kv args "other") >>= parseBool
      let dne ← (kv args "dne") >>= parseBool
      let n ← (kv args "n") >>= parseNat
      let shipped := (kv args "shipped") == some "1"
      let r : LogReq := ⟨path, print, save, plot, pp, ow, other, dne⟩
      match validate r with
      | .err _ => some "err:algo"
      | .ok o =>
        let it := if shipped then iterationShipped o else iteration o
        let rec go (k : Nat) (fuel : Nat) (acc : List String) : String :=
          match fuel with
          | 0 => s!"ok mgr={fmtBool o.isSome} root={fmtBool (o.any (fun (x : Outputs) => x.root))} acts={fmtList id acc.reverse ";"}"
          | fuel + 1 =>
            match it k with
            | .err _ => s!"err:attribute@{k}"
            | .ok as => go (k + 1) fuel ((if as.isEmpty then "_" else String.join (as.map letter)) :: acc)
        some (go 1 n [])
      ).getD "bad-request"
  | "draws" :: args =>
    (do
      let p ← (kv args "prog") >>= parseList parseEv
      let fb := Draws.firstBad p
      some s!"seededfirst={fmtBool (Draws.seededFirst p)} loggingdraws={Draws.loggingDraws p} firstbad={match fb with | none => "none" | some i => describeBad p i} gens={fmtList toString (Draws.gensUsed p)} sig={Draws.sig p} n={p.length}"
      ).getD "bad-request"
  | _ => "bad-request"

def main : IO Unit := loop handle
