import LeaspyVerif.Proto
import LeaspyVerif.Model.Api
open LeaspyVerif LeaspyVerif.Proto LeaspyVerif.Api

/-
request (one line = one whole fit, logging side)
  log path=<0|1> print=<int|none> save=<int|none> plot=<int|none> pp=<int|none> ow=<0|1> other=<0|1> dne=<0|1> n=<iterations>
      → err:algo                                  (refused by set_logs / OutputsSettings)
      | ok mgr=<0|1> root=<0|1> acts=<letters;…>  one entry per iteration 1…n, letters P(rint) S(ave) T(patients plot)
                                                  C(onvergence plot) in execution order, `_` = nothing
      | err:attribute@<k>                         (only with shipped=1: AttributeError at iteration k)
  optional shipped=1 selects the code before repair F6.
-/

def parseOptInt (s : String) : Option (Option Int) :=
  if s == "none" then some none else some <$> parseInt s

def letter : Action → String
  | .print => "P"
  | .save => "S"
  | .plotPatients => "T"
  | .plotConvergence => "C"

def handle (line : String) : String :=
  match line.splitOn " " with
  | "log" :: args =>
    (do
      let path ← (kv args "path") >>= parseBool
      let print ← (kv args "print") >>= parseOptInt
      let save ← (kv args "save") >>= parseOptInt
      let plot ← (kv args "plot") >>= parseOptInt
      let pp ← (kv args "pp") >>= parseOptInt
      let ow ← (kv args "ow") >>= parseBool
      let other ← (kv args "other") >>= parseBool
      let dne ← (kv args "dne") >>= parseBool
      let n ← (kv args "n") >>= parseNat
      let shipped := (kv args "shipped") == some "1"
      let r : LogReq := ⟨path, print, save, plot, pp, ow, other, dne⟩
      match validate r with
      | .err _ => some "err:algo"
      | .ok o =>
        let it := if shipped then iterationShipped o else iteration o
        let rec go (k : Nat) (fuel : Nat) (acc : List String) : String :=
          match fuel with
          | 0 => s!"ok mgr={fmtBool o.isSome} root={fmtBool (o.any (fun (x : Outputs) => x.root))} acts={fmtList id acc.reverse ";"}"
          | fuel + 1 =>
            match it k with
            | .err _ => s!"err:attribute@{k}"
            | .ok as => go (k + 1) fuel ((if as.isEmpty then "_" else String.join (as.map letter)) :: acc)
        some (go 1 n [])
      ).getD "bad-request"
  | _ => "bad-request"

def main : IO Unit := loop handle
