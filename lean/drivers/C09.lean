import LeaspyVerif.Proto
import LeaspyVerif.Model.Traj
import LeaspyVerif.Model.Gauge
open LeaspyVerif LeaspyVerif.Proto LeaspyVerif.Traj LeaspyVerif.Gauge

/-
requests (floats are `f<uint64 bits>`; lists `a,b`; matrices `a,b;c,d`; `_` = empty, `none` = absent)

  traj kind=logistic logg=<v> logv0=<v> xi=<f> tau=<f> ages=<v> src=<v|none> betas=<m|none>
  traj kind=linear   g=<v>    logv0=<v> xi=<f> tau=<f> ages=<v> src=<v|none> betas=<m|none>
  traj kind=shared   logg=<f> deltas=<v> xi=<f> tau=<f> ages=<v> src=<v|none> betas=<m|none>
        → rows=<m> w=<v>            | err:shape | err:model
      (`betas` is (dim-1) × n_sources as in the code; the space shift is computed with the Householder
       basis of `Model/Gauge.lean`, strip column 0, `sqrt = Float.sqrt`)

  est mode=dict|frame   known=<ids> req=<id:age,age;id:age;…>
  est mode=ixdict|ixframe known=<ids> ix=<id:age;id:age;…>
        → dict=<id:age@val,age@val;…> | rows=<id:age@val;…> | err:key
      (ages are opaque tokens compared by equality; `val` is the token `id|age` of the row the
       trajectory function returns for that individual and age, `!` for an empty (NaN) row)
-/

def getF (args : List String) (k : String) : Option Float := (kv args k) >>= parseFloat
def getV (args : List String) (k : String) : Option (List Float) := (kv args k) >>= parseList parseFloat

def optV (args : List String) (k : String) : Option (Option (List Float)) := do
  let s ← kv args k
  if s == "none" then some none else some <$> parseList parseFloat s

def optM (args : List String) (k : String) : Option (Option (List (List Float))) := do
  let s ← kv args k
  if s == "none" then some none else some <$> parseList2 parseFloat s

/-- space shift of one individual from the vector `a` handed to `OrthoBasis`, `betas`, `sources` -/
def shiftOf (a : List Float) (betas : List (List Float)) (src : List Float) : Option (List Float) :=
  let n := a.length
  let ns := src.length
  if betas.length ≠ n - 1 || betas.any (fun r => r.length ≠ ns) || n == 0 then none
  else
    let B := basis Float.sqrt n (vec a) 0
    let bet : Nat → Nat → Float := fun c s => vec ((betas.map vec).map (· s)) c
    let M := mixing n B bet
    some ((List.range n).map (spaceShift ns (vec src) M))

def fmtRows (r : List (List Float)) : String := fmtList2 fmtFloat r

def handleTraj (args : List String) : Option String := do
  let kind ← kv args "kind"
  let xi ← getF args "xi"
  let tau ← getF args "tau"
  let ages ← getV args "ages"
  let src ← optV args "src"
  let betas ← optM args "betas"
  match kind with
  | "logistic" =>
    let logG ← getV args "logg"
    let logV0 ← getV args "logv0"
    if logG.length ≠ logV0.length then some "err:shape" else
    let a := List.zipWith (fun lg lv =>
      let m := logisticMetric (ExpLog.exp lg); (m * m) * ExpLog.exp lv) logG logV0
    let w? := match src, betas with
      | some s, some b => shiftOf a b s
      | _, _ => some (noShift logG)
    match w? with
    | none => some "err:shape"
    | some w =>
      match logisticTraj logG logV0 w xi tau ages with
      | some rows => some s!"rows={fmtRows rows} w={fmtList fmtFloat w}"
      | none => some "err:shape"
  | "linear" =>
    let g ← getV args "g"
    let logV0 ← getV args "logv0"
    if g.length ≠ logV0.length then some "err:shape" else
    -- metric = ones_like(g), metric_sqr = 1
    let a := logV0.map fun lv => ((1 : Float) * 1) * ExpLog.exp lv
    let w? := match src, betas with
      | some s, some b => shiftOf a b s
      | _, _ => some (noShift g)
    match w? with
    | none => some "err:shape"
    | some w =>
      match linearTraj g logV0 w xi tau ages with
      | some rows => some s!"rows={fmtRows rows} w={fmtList fmtFloat w}"
      | none => some "err:shape"
  | "shared" =>
    let logG ← getF args "logg"
    let deltas ← getV args "deltas"
    let dp := padDeltas deltas
    let a := dp.map fun d =>
      let de := deltasExp d
      let gde := gDeltasExp (ExpLog.exp logG) de
      let den := ssDenom gde
      ssGMetric (ssGamma den) * ssCollin de den
    let w? := match src, betas with
      | some s, some b => shiftOf a b s
      | _, _ => some (noShift dp)
    match w? with
    | none => some "err:shape"
    | some w =>
      match sharedTraj logG deltas w xi tau ages with
      | some rows => some s!"rows={fmtRows rows} w={fmtList fmtFloat w}"
      | none => some "err:shape"
  | _ => none

/-- `id:age,age` -/
def parseReqItem (s : String) : Option (String × List String) :=
  match s.splitOn ":" with
  | [i, ts] => some (i, splitNE ts ",")
  | _ => none

def parseIxItem (s : String) : Option (String × String) :=
  match s.splitOn ":" with
  | [i, t] => some (i, t)
  | _ => none

def handleEst (args : List String) : Option String := do
  let mode ← kv args "mode"
  let known ← (fun s => splitNE s ",") <$> kv args "known"
  let ips : String → Option String := fun i => if known.contains i then some i else none
  let f : String → String → String := fun p t => s!"{p}|{t}"
  let le : String → String → Bool := fun a b => decide (a ≤ b)
  let fmtDict (d : List (String × List (String × String))) : String :=
    fmtList (fun (it : String × List (String × String)) =>
      s!"{it.1}:{fmtList (fun (tr : String × String) => s!"{tr.1}@{tr.2}") it.2}") d ";"
  match mode with
  | "dict" =>
    let req ← (kv args "req") >>= (fun s => (splitNE s ";").mapM parseReqItem)
    match estimateDict ips f req with
    | some d => some s!"dict={fmtDict d}"
    | none => some "err:key"
  | "frame" =>
    let req ← (kv args "req") >>= (fun s => (splitNE s ";").mapM parseReqItem)
    match estimateFrame ips f req with
    | some r => some s!"rows={fmtList (fun (e : (String × String) × String) => s!"{e.1.1}:{e.1.2}@{e.2}") r ";"}"
    | none => some "err:key"
  | "ixdict" =>
    let ix ← (kv args "ix") >>= (fun s => (splitNE s ";").mapM parseIxItem)
    match estimateIndexDict le ips f ix with
    | some d => some s!"dict={fmtDict d}"
    | none => some "err:key"
  | "ixframe" =>
    let ix ← (kv args "ix") >>= (fun s => (splitNE s ";").mapM parseIxItem)
    match estimateIndexFrame le ips f ix with
    | some r => some s!"rows={fmtList (fun (e : (String × String) × Option String) =>
        s!"{e.1.1}:{e.1.2}@{match e.2 with | some v => v | none => "!"}") r ";"}"
    | none => some "err:key"
  | _ => none

def handle (line : String) : String :=
  match line.splitOn " " with
  | "traj" :: args => (handleTraj args).getD "bad-request"
  | "est" :: args => (handleEst args).getD "bad-request"
  | _ => "bad-request"

def main : IO Unit := loop handle
