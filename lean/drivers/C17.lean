import LeaspyVerif.Proto
import LeaspyVerif.Model.Personalize
import LeaspyVerif.Model.Scalings
open LeaspyVerif LeaspyVerif.Proto LeaspyVerif.IndParams LeaspyVerif.Personalize

/-
One request line = one complete recorded chain (or one alignment).

  mean  nburn=<n> x=<series>;<series>;…         series = the value of one coordinate of one individual at iterations 1…n,
                                                 as exact rationals of the recorded floats
        → kept=<k> m=<q>,<q>,… | kept=0 m=none  exact mean of the kept draws (the harness applies the float32 envelope)
  mode  nburn=<n> dtype=32|64 att=<series>;…  reg=<series>;…
                                                 one series per individual: attachment / regularity at iterations 1…n as IEEE bit
                                                 patterns (uint32 for dtype=32, uint64 for dtype=64, decimal)
        → kept=<k> idx=<i>,<i>,… | kept=0 idx=none   index among the kept draws selected per individual, computed with the same
                                                 single (double) precision additions and comparisons as torch
  align ids=<hex>,… t=<name>~<q>:<q>;<q>:<q>&…  ids = utf-8 hex, name = x<hex>, per variable the (n, dim) estimates (rows `;`, cells `:`)
        → ids=…;shapes=…;params=…  | err:input   the container `from_pytorch(dataset.indices, estimates)` builds
  scal  via=direct|latent s=<name>~<tns>~<tns>&…  [x=<name>~<q>:<q>&…]  [v=<q>,<q>,…]
                                                 the prior-standardized coordinates of scipy_minimize (`Model/Scalings.lean`), on exact
                                                 rationals.  s = per variable (in dict order) loc and scale, tns = s<q> (0-d) |
                                                 v<q>:<q>… (1-d, `v` alone = empty) | h<d>:<d>… (shape of a tensor of higher dimension);
                                                 via=latent applies `from_latent_variable` (0-d reshaped to (1,)), via=direct hands the
                                                 tensors to `_AffineScalings1D` as they are.  x = a mapping (values `e` = empty, `_` = empty
                                                 mapping), v = a concatenated vector (`_` = empty).
        → len=<n> slices=<name>:<a>:<b>,… stack=<r> scaling=<r> unstack=<r> unscaling=<r>  | err:assert (constructor refused)
                                                 <r> = a vector `q,q` / a mapping `name~q:q&…` / err:key / err:runtime / `-` (not requested)
-/

def hexVal (c : Char) : Option Nat :=
  if '0' ≤ c ∧ c ≤ '9' then some (c.toNat - '0'.toNat)
  else if 'a' ≤ c ∧ c ≤ 'f' then some (c.toNat - 'a'.toNat + 10) else none

def hexBytes : List Char → Option (List UInt8)
  | [] => some []
  | [_] => none
  | a :: b :: rest => do
    let x ← hexVal a
    let y ← hexVal b
    let r ← hexBytes rest
    pure (UInt8.ofNat (16 * x + y) :: r)

def unhex (s : String) : Option String := do
  let bs ← hexBytes s.toList
  String.fromUTF8? (ByteArray.mk bs.toArray)

def hexDigit (n : Nat) : Char := if n < 10 then Char.ofNat (48 + n) else Char.ofNat (87 + n)

def hex (s : String) : String :=
  String.ofList (s.toUTF8.toList.flatMap (fun b => [hexDigit (b.toNat / 16), hexDigit (b.toNat % 16)]))

def dropFirst (s : String) : String := String.ofList (s.toList.drop 1)

def parseName (s : String) : Option Name :=
  if s.startsWith "x" then (unhex (dropFirst s)).map String.toList else none

def fmtName (n : Name) : String := "x" ++ hex (String.ofList n)
def fmtId (s : String) : String := "s" ++ hex s

def fmtVal : Val Rat → String
  | .scalar x => "q" ++ fmtRat x
  | .vec xs => "l" ++ ":".intercalate (xs.map fmtRat)

def fmtShape (s : Shape) : String := if s.isEmpty then "s" else "d" ++ ":".intercalate (s.map toString)

def fmtContainer (c : Container Rat) : String :=
  "ids=" ++ fmtList fmtId c.ids ++ ";shapes=" ++
    (match c.shapes with
     | none => "none"
     | some sh => "&".intercalate (sh.map (fun kv => fmtName kv.1 ++ "~" ++ fmtShape kv.2))) ++
    ";params=" ++ fmtList (fun (ip : String × List (Name × Val Rat)) =>
      fmtId ip.1 ++ "@" ++ "&".intercalate (ip.2.map (fun kv => fmtName kv.1 ++ "~" ++ fmtVal kv.2))) c.params "|"

def parseF32 (s : String) : Option Float32 := (fun (n : Nat) => Float32.ofBits n.toUInt32) <$> s.toNat?
def parseF64 (s : String) : Option Float := (fun (n : Nat) => Float.ofBits n.toUInt64) <$> s.toNat?

def fmtIdx (l : List (Option Nat)) : String :=
  match l.mapM id with
  | none => "none"
  | some is => fmtList toString is

/-! ### scalings -/

def parseStrName (s : String) : Option String :=
  if s.startsWith "x" then unhex (dropFirst s) else none

def fmtStrName (n : String) : String := "x" ++ hex n

def parseTns (s : String) : Option (Scalings.Tns Rat) :=
  match s.toList with
  | 's' :: r => Scalings.Tns.scalar <$> parseRat (String.ofList r)
  | 'v' :: r => if r.isEmpty then some (.vec []) else Scalings.Tns.vec <$> ((String.ofList r).splitOn ":").mapM parseRat
  | 'h' :: r => Scalings.Tns.higher <$> ((String.ofList r).splitOn ":").mapM parseNat
  | _ => none

def parseVals (s : String) : Option (List Rat) :=
  if s == "e" then some [] else (s.splitOn ":").mapM parseRat

def parsePoint (s : String) : Option (Scalings.Point Rat) :=
  (splitNE s "&").mapM (fun (t : String) =>
    match t.splitOn "~" with
    | [k, vals] => do
      let n ← parseStrName k
      let v ← parseVals vals
      pure (n, v)
    | _ => none)

def fmtErr : Scalings.Err → String
  | .key => "err:key"
  | .runtime => "err:runtime"
  | .assert => "err:assert"

def fmtVec (r : Except Scalings.Err (List Rat)) : String :=
  match r with
  | .ok v => fmtList fmtRat v
  | .error e => fmtErr e

def fmtPointOk (x : Scalings.Point Rat) : String :=
  fmtList (fun (kv : String × List Rat) => fmtStrName kv.1 ++ "~" ++ (if kv.2.isEmpty then "e" else ":".intercalate (kv.2.map fmtRat))) x "&"

def fmtPoint (r : Except Scalings.Err (Scalings.Point Rat)) : String :=
  match r with
  | .ok x => fmtPointOk x
  | .error e => fmtErr e

def handleScal (args : List String) : Option String := do
  let via ← kv args "via"
  let raw ← (kv args "s") >>= fun s => (splitNE s "&").mapM (fun (t : String) =>
    match t.splitOn "~" with
    | [k, l, sc] => do
      let n ← parseStrName k
      let lt ← parseTns l
      let st ← parseTns sc
      pure (n, lt, st)
    | _ => none)
  let built ← if via == "latent" then some (Scalings.fromLatent raw)
    else if via == "direct" then some (Scalings.mk? raw) else none
  let x ← match kv args "x" with
    | none => some none
    | some xs => some <$> parsePoint xs
  let v ← match kv args "v" with
    | none => some none
    | some vs => some <$> parseList parseRat vs
  match built with
  | .error e => some (fmtErr e)
  | .ok s =>
    let sl := fmtList (fun (t : String × Nat × Nat) => s!"{fmtStrName t.1}:{t.2.1}:{t.2.2}") (Scalings.slices s)
    let (st, sc) := match x with
      | none => ("-", "-")
      | some x => (fmtVec (Scalings.stack s x), fmtVec (Scalings.scaling s x))
    let (us, un) := match v with
      | none => ("-", "-")
      | some v => (fmtPointOk (Scalings.unstack s v), fmtPoint (Scalings.unscaling s v))
    some s!"len={Scalings.length s} slices={sl} stack={st} scaling={sc} unstack={us} unscaling={un}"

def handle (line : String) : String :=
  match line.splitOn " " with
  | "mean" :: args =>
    (do
      let nb ← (kv args "nburn") >>= parseNat
      let xs ← (kv args "x") >>= fun s => (splitNE s ";").mapM (parseList parseRat)
      let k := match xs with
        | [] => 0
        | s :: _ => (kept nb s).length
      match xs.mapM (meanKept (fun n => (n : Rat)) nb) with
      | none => some s!"kept={k} m=none"
      | some ms => some s!"kept={k} m={fmtList fmtRat ms}").getD "bad-request"
  | "mode" :: args =>
    (do
      let nb ← (kv args "nburn") >>= parseNat
      let dt ← kv args "dtype"
      let a ← kv args "att"
      let r ← kv args "reg"
      if dt == "32" then do
        let att ← (splitNE a ";").mapM (parseList parseF32)
        let reg ← (splitNE r ";").mapM (parseList parseF32)
        let k := match att with
          | [] => 0
          | s :: _ => (kept nb s).length
        some s!"kept={k} idx={fmtIdx (List.zipWith (modeIndex nb) att reg)}"
      else if dt == "64" then do
        let att ← (splitNE a ";").mapM (parseList parseF64)
        let reg ← (splitNE r ";").mapM (parseList parseF64)
        let k := match att with
          | [] => 0
          | s :: _ => (kept nb s).length
        some s!"kept={k} idx={fmtIdx (List.zipWith (modeIndex nb) att reg)}"
      else none).getD "bad-request"
  | "align" :: args =>
    (do
      let ids ← (kv args "ids") >>= parseList unhex
      let ts ← (kv args "t") >>= fun s => (splitNE s "&").mapM (fun (t : String) =>
        match t.splitOn "~" with
        | [k, rows] => do
          let n ← parseName k
          let v ← (splitNE rows ";").mapM (fun (r : String) => if r == "e" then some [] else (r.splitOn ":").mapM parseRat)
          pure (n, v)
        | _ => none)
      match align ids ts with
      | .ok c => some (fmtContainer c)
      | .error .input => some "err:input"
      | .error .attr => some "err:attr"
      | .error .invariant => some "err:invariant").getD "bad-request"
  | "scal" :: args => (handleScal args).getD "bad-request"
  | _ => "bad-request"

def main : IO Unit := loop handle
