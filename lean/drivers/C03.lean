import LeaspyVerif.Proto
import LeaspyVerif.Model.Sampler
import LeaspyVerif.Model.Blocks
open LeaspyVerif LeaspyVerif.Proto LeaspyVerif.Sampler LeaspyVerif.Blocks

/-
requests (floats are `f<uint64 bits of the double>`; values of float32 tensors are sent as the
double with the same value and converted back exactly with `Float.toFloat32` when dt=32)

  pop dt=<32|64> tinv=<f> cur=<f,…> blocks=<i,i;i,…> std=<f,…> z=<f,…> u=<f,…> dA=<f,…> dR=<f,…>
        → acc=<b,…> val=<f,…> props=<f,…;…> usedz=<n> usedu=<n>      | err:draws
      (one std / dA / dR entry per block, in visiting order; z and u may be longer than needed)
  ind dt=<32|64> tinv=<f> d=<n> cur=<f,…;f,…> std=<f,…> z=<f,…> u=<f,…> dA=<f,…> dR=<f,…>
        → acc=<b,…> val=<f,…;…> usedz=<n> usedu=<n>                   | err:draws
  dec tinv=<f> u=<f> dA=<f> dR=<f>      → <0|1> alpha=<f>
  alpha u=<f> a=<f>                      → <0|1>
  blocks kind=<G|F|M> shape=<d,…|_> [mask=<b,…>] [order=<i,…>]
        → ctor=<ok|err:index|err:model|err:notimpl> stdshape=<d,…> n=<numel> nb=<#blocks>
          idx=<i,…;…> zshape=<d,…;…> coords=<i,…;…> std=<i,…> keep=<n|b,…;…> moved=<i,…;…> nz=<n> nu=<n>
      (`Model/Blocks.lean`; G = Gibbs, F = FastGibbs, M = Metropolis-Hastings; shape `_` = 0-d; the mask
       is flat row-major, one 0/1 per entry; `order` = positions of the unshuffled iterator list in
       visiting order, identity when absent — if it is not a permutation of the model's positions the answer is
       `err:order ` followed by the unshuffled answer; the block fields describe the loop of `sample` whatever
       `ctor` says, i.e. what the methods do once an instance exists; `nb` disambiguates `_`)
  indblocks n=<n> shape=<d,…|_>          → same fields, rows of the `(n, *shape)` individual variable
-/

/-- dt=64 (joint model: float64 `tau`, `xi`): the change `std * randn` is a float32 product
    (both factors are float32 tensors), the accumulation on the float64 value is a double addition. -/
structure Mixed where
  v : Float
instance : Mul Mixed := ⟨fun a b => ⟨(a.v.toFloat32 * b.v.toFloat32).toFloat⟩⟩
instance : Add Mixed := ⟨fun a b => ⟨a.v + b.v⟩⟩
instance : OfNat Mixed 0 := ⟨⟨0⟩⟩

def zip3 {α β γ} : List α → List β → List γ → List (α × β × γ)
  | a :: as, b :: bs, c :: cs => (a, b, c) :: zip3 as bs cs
  | _, _, _ => []

def runPop {α} [OfNat α 0] [Mul α] [Add α] (ofF : Float → α) (toF : α → Float) (args : List String) : Option String := do
  let tinv ← (kv args "tinv") >>= parseFloat
  let cur ← (kv args "cur") >>= parseList parseFloat
  let blocks ← (kv args "blocks") >>= parseList2 parseNat
  let std ← (kv args "std") >>= parseList parseFloat
  let z ← (kv args "z") >>= parseList parseFloat
  let u ← (kv args "u") >>= parseList parseFloat
  let dA ← (kv args "dA") >>= parseList parseFloat
  let dR ← (kv args "dR") >>= parseList parseFloat
  if std.length != blocks.length || dA.length != blocks.length || dR.length != blocks.length then none
  let bs : List (Block α Float) :=
    (zip3 blocks std (dA.zip dR)).map fun (b, s, e) => ⟨b, ofF s, fun _ _ => e⟩
  match popSample Float.exp tinv bs (cur.map ofF) (z.map ofF) u with
  | none => some "err:draws"
  | some r =>
    some s!"acc={fmtList fmtBool r.acc} val={fmtList (fun x => fmtFloat (toF x)) r.value} props={fmtList2 (fun x => fmtFloat (toF x)) r.props} usedz={z.length - r.zs.length} usedu={u.length - r.us.length}"

def runInd {α} [Mul α] [Add α] (ofF : Float → α) (toF : α → Float) (args : List String) : Option String := do
  let tinv ← (kv args "tinv") >>= parseFloat
  let d ← (kv args "d") >>= parseNat
  let cur ← (kv args "cur") >>= parseList2 parseFloat
  let std ← (kv args "std") >>= parseList parseFloat
  let z ← (kv args "z") >>= parseList parseFloat
  let u ← (kv args "u") >>= parseList parseFloat
  let dA ← (kv args "dA") >>= parseList parseFloat
  let dR ← (kv args "dR") >>= parseList parseFloat
  if std.length != cur.length || dA.length != cur.length || dR.length != cur.length then none
  if cur.any (fun row => row.length != d) then none
  let inds : List (Ind α Float) :=
    (zip3 cur std (dA.zip dR)).map fun (c, s, e) => ⟨c.map ofF, ofF s, fun _ _ => e⟩
  match indSample Float.exp tinv d inds (z.map ofF) u with
  | none => some "err:draws"
  | some r =>
    some s!"acc={fmtList (fun (x : List α × Bool) => fmtBool x.2) r.rows} val={fmtList2 (fun x => fmtFloat (toF x)) (r.rows.map (·.1))} usedz={z.length - r.zs.length} usedu={u.length - r.us.length}"

def fmtKeep (k : Option (List Bool)) : String :=
  match k with
  | none => "n"
  | some ks => fmtList fmtBool ks

def fmtBlocks (ctor : String) (stdsh : Shape) (n : Nat) (bs : List Blk) : String :=
  let d := sweepDraws bs
  s!"ctor={ctor} stdshape={fmtList toString stdsh} n={n} nb={bs.length} idx={fmtList2 toString (bs.map (·.idx))} zshape={fmtList2 toString (bs.map (·.zshape))} coords={fmtList2 toString (bs.map (·.coords))} std={fmtList toString (bs.map (·.stdIdx))} keep={fmtList fmtKeep (bs.map (·.keep)) ";"} moved={fmtList2 toString (bs.map Blk.perturbed)} nz={d.1} nu={d.2}"

def isPermOfRange (σ : List Nat) (n : Nat) : Bool :=
  σ.length == n && σ.all (· < n) && (List.range n).all (fun i => σ.contains i)

def runBlocks (args : List String) : Option String := do
  let k ← match kv args "kind" with
    | some "G" => some Kind.gibbs
    | some "F" => some Kind.fastGibbs
    | some "M" => some Kind.mh
    | _ => none
  let shape ← (kv args "shape") >>= parseList parseNat
  let mask ← match kv args "mask" with
    | none => some none
    | some m => (parseList parseBool m).map some
  if let some m := mask then
    if m.length != numel shape then none
  let bs := blocksOf k shape mask
  let σ ← match kv args "order" with
    | none => some (List.range bs.length)
    | some o => parseList parseNat o
  let ctor := match construct k shape mask with
    | .ok () => "ok"
    | .error .index => "err:index"
    | .error .model => "err:model"
    | .error .notImplemented => "err:notimpl"
  -- an order that is not a permutation of the model's iterator positions: answer the unshuffled blocks, flagged
  if !isPermOfRange σ bs.length then
    some ("err:order " ++ fmtBlocks ctor (stdShape k shape) (numel shape) bs)
  else
    some (fmtBlocks ctor (stdShape k shape) (numel shape) (reorder σ bs))

def runIndBlocks (args : List String) : Option String := do
  let n ← (kv args "n") >>= parseNat
  let shape ← (kv args "shape") >>= parseList parseNat
  some (fmtBlocks "ok" [n] (n * numel shape) (indBlocks n shape))

def handle (line : String) : String :=
  match line.splitOn " " with
  | "pop" :: args =>
    (match kv args "dt" with
     | some "32" => runPop (α := Float32) Float.toFloat32 Float32.toFloat args
     | some "64" => runPop (α := Mixed) Mixed.mk Mixed.v args
     | _ => none).getD "bad-request"
  | "ind" :: args =>
    (match kv args "dt" with
     | some "32" => runInd (α := Float32) Float.toFloat32 Float32.toFloat args
     | some "64" => runInd (α := Mixed) Mixed.mk Mixed.v args
     | _ => none).getD "bad-request"
  | "dec" :: args =>
    (do
      let tinv ← (kv args "tinv") >>= parseFloat
      let u ← (kv args "u") >>= parseFloat
      let dA ← (kv args "dA") >>= parseFloat
      let dR ← (kv args "dR") >>= parseFloat
      let d := D tinv dA dR
      some s!"{fmtBool (accept Float.exp u d)} alpha={fmtFloat (Float.exp (-d))}").getD "bad-request"
  | "alpha" :: args =>
    (do
      let u ← (kv args "u") >>= parseFloat
      let a ← (kv args "a") >>= parseFloat
      some (fmtBool (acceptAlpha u a))).getD "bad-request"
  | "blocks" :: args => (runBlocks args).getD "bad-request"
  | "indblocks" :: args => (runIndBlocks args).getD "bad-request"
  | _ => "bad-request"

def main : IO Unit := loop handle
