import LeaspyVerif.Proto
import LeaspyVerif.Model.Sampler
open LeaspyVerif LeaspyVerif.Proto LeaspyVerif.Sampler

/-
requests (floats are `f<uint64 bits of the double>`; values of float32 tensors are sent as the
double with the same value and converted back exactly with `Float.toFloat32` when dt=32)

  pop dt=<32|64> tinv=<f> cur=<f,…> blocks=<i,i;i,…> std=<f,…> z=<f,…> u=<f,…> dA=<f,…> dR=<f,…>
        → acc=<b,…> val=<f,…> props=<f,…;…> usedz=<n> usedu=<n>      | err:draws
      (one std / dA / dR entry per block, in visiting order; z and u may be longer than needed)
  ind dt=<32|64> tinv=<f> d=<n> cur=<f,…;f,…> std=<f,…> z=<f,…> u=<f,…> dA=<f,…> dR=<f,…>
        → acc=<b,…> val=<f,…;…> usedz=<n> usedu=<n>                   | err:draws
  dec tinv=<f> u=<f> dA=<f> dR=<f>      → <0|1> alpha=<f>
  alpha u=<f> a=<f>                      → <0|1>
-/

/-- dt=64 (joint model: float64 `tau`, `xi`): the change `std * randn` is a float32 product
    (both factors are float32 tensors), the accumulation on the float64 value is a double addition. -/
structure Mixed where
  v : Float
instance : Mul Mixed := ⟨fun a b => ⟨(a.v.toFloat32 * b.v.toFloat32).toFloat⟩⟩
instance : Add Mixed := ⟨fun a b => ⟨a.v + b.v⟩⟩
instance : OfNat Mixed 0 := ⟨⟨0⟩⟩

def zip3 {α β γ} : List α → List β → List γ → List (α × β × γ)
  | a :: as, b :: bs, c :: cs => (a, b, c) :: zip3 as bs cs
  | _, _, _ => []

def runPop {α} [OfNat α 0] [Mul α] [Add α] (ofF : Float → α) (toF : α → Float) (args : List String) : Option String := do
  let tinv ← (kv args "tinv") >>= parseFloat
  let cur ← (kv args "cur") >>= parseList parseFloat
  let blocks ← (kv args "blocks") >>= parseList2 parseNat
  let std ← (kv args "std") >>= parseList parseFloat
  let z ← (kv args "z") >>= parseList parseFloat
  let u ← (kv args "u") >>= parseList parseFloat
  let dA ← (kv args "dA") >>= parseList parseFloat
  let dR ← (kv args "dR") >>= parseList parseFloat
  if std.length != blocks.length || dA.length != blocks.length || dR.length != blocks.length then none
  let bs : List (Block α Float) :=
    (zip3 blocks std (dA.zip dR)).map fun (b, s, e) => ⟨b, ofF s, fun _ _ => e⟩
  match popSample Float.exp tinv bs (cur.map ofF) (z.map ofF) u with
  | none => some "err:draws"
  | some r =>
    some s!"acc={fmtList fmtBool r.acc} val={fmtList (fun x => fmtFloat (toF x)) r.value} props={fmtList2 (fun x => fmtFloat (toF x)) r.props} usedz={z.length - r.zs.length} usedu={u.length - r.us.length}"

def runInd {α} [Mul α] [Add α] (ofF : Float → α) (toF : α → Float) (args : List String) : Option String := do
  let tinv ← (kv args "tinv") >>= parseFloat
  let d ← (kv args "d") >>= parseNat
  let cur ← (kv args "cur") >>= parseList2 parseFloat
  let std ← (kv args "std") >>= parseList parseFloat
  let z ← (kv args "z") >>= parseList parseFloat
  let u ← (kv args "u") >>= parseList parseFloat
  let dA ← (kv args "dA") >>= parseList parseFloat
  let dR ← (kv args "dR") >>= parseList parseFloat
  if std.length != cur.length || dA.length != cur.length || dR.length != cur.length then none
  if cur.any (fun row => row.length != d) then none
  let inds : List (Ind α Float) :=
    (zip3 cur std (dA.zip dR)).map fun (c, s, e) => ⟨c.map ofF, ofF s, fun _ _ => e⟩
  match indSample Float.exp tinv d inds (z.map ofF) u with
  | none => some "err:draws"
  | some r =>
    some s!"acc={fmtList (fun (x : List α × Bool) => fmtBool x.2) r.rows} val={fmtList2 (fun x => fmtFloat (toF x)) (r.rows.map (·.1))} usedz={z.length - r.zs.length} usedu={u.length - r.us.length}"

def handle (line : String) : String :=
  match line.splitOn " " with
  | "pop" :: args =>
    (match kv args "dt" with
     | some "32" => runPop (α := Float32) Float.toFloat32 Float32.toFloat args
     | some "64" => runPop (α := Mixed) Mixed.mk Mixed.v args
     | _ => none).getD "bad-request"
  | "ind" :: args =>
    (match kv args "dt" with
     | some "32" => runInd (α := Float32) Float.toFloat32 Float32.toFloat args
     | some "64" => runInd (α := Mixed) Mixed.mk Mixed.v args
     | _ => none).getD "bad-request"
  | "dec" :: args =>
    (do
      let tinv ← (kv args "tinv") >>= parseFloat
      let u ← (kv args "u") >>= parseFloat
      let dA ← (kv args "dA") >>= parseFloat
      let dR ← (kv args "dR") >>= parseFloat
      let d := D tinv dA dR
      some s!"{fmtBool (accept Float.exp u d)} alpha={fmtFloat (Float.exp (-d))}").getD "bad-request"
  | "alpha" :: args =>
    (do
      let u ← (kv args "u") >>= parseFloat
      let a ← (kv args "a") >>= parseFloat
      some (fmtBool (acceptAlpha u a))).getD "bad-request"
  | _ => "bad-request"

def main : IO Unit := loop handle
