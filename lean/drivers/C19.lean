import LeaspyVerif.Proto
import LeaspyVerif.Model.Anneal
import LeaspyVerif.Model.StdAdapt
open LeaspyVerif LeaspyVerif.Proto LeaspyVerif.Anneal LeaspyVerif.StdAdapt

/-
requests (one line = one complete case)
  anneal niter=<n> on=<0|1> t0=<f…> P=<int> na=<int|none> frac=<f…|none> clamp=<0|1>
        → ok na=<int|-> T=<f…,f…,…>          temperatures after init and after each of the niter iterations
        | refused err:algo                   constructor / `_initialize_annealing` refuses
        | crash err:zerodiv                  an accepted configuration raises during the iterations
  std L=<n> lo=<f…> hi=<f…> f=<f…> std0=<f…,…> acc=<bits;bits;…>
        one row of 0/1 per `sample()` call, one character per block; all numbers are doubles
        (float32 values are sent as the equal double)
        → std=<f…,…;f…,…;…>                  scales (float32, printed as doubles) after each call
        | err:zerodiv
-/

def fmtErr : Err → String
  | .algoInput => "err:algo"
  | .zeroDiv => "err:zerodiv"

def parseBits (s : String) : Option (List Bool) :=
  s.toList.mapM (fun ch => if ch == '1' then some true else if ch == '0' then some false else none)

def handleAnneal (args : List String) : Option String := do
  let n ← (kv args "niter") >>= parseNat
  let on ← (kv args "on") >>= parseBool
  let t0 ← (kv args "t0") >>= parseFloat
  let p ← (kv args "P") >>= parseInt
  let c ← kv args "na"
  let f ← kv args "frac"
  let clamp ← (kv args "clamp") >>= parseBool
  let count ← if c == "none" then some none else some <$> parseInt c
  let frac ← if f == "none" then some none else some <$> parseFloat f
  if !on then
    -- the constructor returns before looking at the annealing counts
    match run (⟨false, t0, p, 0⟩ : Config Float) clamp n with
    | .ok l => some s!"ok na=- T={fmtList fmtFloat l}"
    | .error e => some s!"refused {fmtErr e}"
  else
    match annealCount n count frac with
    | .error e => some s!"refused {fmtErr e}"
    | .ok na =>
      let cfg : Config Float := ⟨true, t0, p, na⟩
      match init cfg with
      | .error e => some s!"refused {fmtErr e}"
      | .ok _ =>
        match run cfg clamp n with
        | .ok l => some s!"ok na={na} T={fmtList fmtFloat l}"
        | .error e => some s!"crash {fmtErr e}"

def handleStd (args : List String) : Option String := do
  let L ← (kv args "L") >>= parseNat
  let lo ← (kv args "lo") >>= parseFloat
  let hi ← (kv args "hi") >>= parseFloat
  let f ← (kv args "f") >>= parseFloat
  let std0 ← (kv args "std0") >>= parseList parseFloat
  let rows ← (kv args "acc") >>= fun s => (splitNE s ";").mapM parseBits
  let nb := std0.length
  if rows.any (fun r => r.length != nb) then none
  let p := Params.ofDoubles L lo hi f
  -- block j sees column j of the rows
  let cols ← (List.range nb).mapM (fun j => rows.mapM (fun r => r[j]?))
  let traces := (std0.zip cols).mapM (fun (s, col) => StdAdapt.run p s.toFloat32 col)
  match traces with
  | none => some "err:zerodiv"
  | some ts =>
    -- back to one row per call
    let out ← (List.range rows.length).mapM (fun t => ts.mapM (fun tr => tr[t]?))
    some s!"std={fmtList2 (fun (x : Float32) => fmtFloat x.toFloat) out}"

def handle (line : String) : String :=
  match line.splitOn " " with
  | "anneal" :: args => (handleAnneal args).getD "bad-request"
  | "std" :: args => (handleStd args).getD "bad-request"
  | _ => "bad-request"

def main : IO Unit := loop handle
