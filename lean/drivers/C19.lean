import LeaspyVerif.Proto
import LeaspyVerif.Model.Anneal
import LeaspyVerif.Model.StdAdapt
import LeaspyVerif.Model.FitLoop
open LeaspyVerif LeaspyVerif.Proto LeaspyVerif.Anneal LeaspyVerif.StdAdapt

/-
requests (one line = one complete case)
  anneal niter=<n> on=<0|1> t0=<f…> P=<int> na=<int|none> frac=<f…|none> clamp=<0|1>
        → ok na=<int|-> T=<f…,f…,…>          temperatures after init and after each of the niter iterations
        | refused err:algo                   constructor / `_initialize_annealing` refuses
        | crash err:zerodiv                  an accepted configuration raises during the iterations
  std L=<n> lo=<f…> hi=<f…> f=<f…> std0=<f…,…> acc=<bits;bits;…>
        one row of 0/1 per `sample()` call, one character per block; all numbers are doubles
        (float32 values are sent as the equal double)
        → std=<f…,…;f…,…;…>                  scales (float32, printed as doubles) after each call
        | err:zerodiv
  loop kind=<fit|pers> niter=<n> nb=<n> nvars=<n> on=<0|1> t0=<f…> P=<int> na=<int|none> frac=<f…|none> clamp=<0|1>
       order=<v,v,…;v,v,…;…|sorted>
        one whole run of the fit / personalisation loop (`Model/FitLoop.lean`); `order` = the variables (rank in the
        sorted list of names) in the order their samplers were called, one row per iteration
        → ok it=<ev>,<ev>,…;<ev>,…;…         one row per iteration, events in call order:
             s<v>@<f…>   sampler of variable v called with this temperature_inv (float64 bits)
             m<ml><burn> maximisation step: memory-less flag, burn_in flag        (fit)
             k<kept>     draws kept                                                (personalisation)
             T@<f…>      _update_temperature, temperature afterwards (float64 bits)
        | refused err:algo | crash err:zerodiv
        | err:order k=<k>                    row k is not a permutation of 0 … nvars-1 (or wrong number of rows)
-/

def fmtErr : Err → String
  | .algoInput => "err:algo"
  | .zeroDiv => "err:zerodiv"

def parseBits (s : String) : Option (List Bool) :=
  s.toList.mapM (fun ch => if ch == '1' then some true else if ch == '0' then some false else none)

def handleAnneal (args : List String) : Option String := do
  let n ← (kv args "niter") >>= parseNat
  let on ← (kv args "on") >>= parseBool
  let t0 ← (kv args "t0") >>= parseFloat
  let p ← (kv args "P") >>= parseInt
  let c ← kv args "na"
  let f ← kv args "frac"
  let clamp ← (kv args "clamp") >>= parseBool
  let count ← if c == "none" then some none else some <$> parseInt c
  let frac ← if f == "none" then some none else some <$> parseFloat f
  if !on then
    -- the constructor returns before looking at the annealing counts
    match run (⟨false, t0, p, 0⟩ : Config Float) clamp n with
    | .ok l => some s!"ok na=- T={fmtList fmtFloat l}"
    | .error e => some s!"refused {fmtErr e}"
  else
    match annealCount n count frac with
    | .error e => some s!"refused {fmtErr e}"
    | .ok na =>
      let cfg : Config Float := ⟨true, t0, p, na⟩
      match init cfg with
      | .error e => some s!"refused {fmtErr e}"
      | .ok _ =>
        match run cfg clamp n with
        | .ok l => some s!"ok na={na} T={fmtList fmtFloat l}"
        | .error e => some s!"crash {fmtErr e}"

def handleStd (args : List String) : Option String := do
  let L ← (kv args "L") >>= parseNat
  let lo ← (kv args "lo") >>= parseFloat
  let hi ← (kv args "hi") >>= parseFloat
  let f ← (kv args "f") >>= parseFloat
  let std0 ← (kv args "std0") >>= parseList parseFloat
  let rows ← (kv args "acc") >>= fun s => (splitNE s ";").mapM parseBits
  let nb := std0.length
  if rows.any (fun r => r.length != nb) then none
  let p := Params.ofDoubles L lo hi f
  -- block j sees column j of the rows
  let cols ← (List.range nb).mapM (fun j => rows.mapM (fun r => r[j]?))
  let traces := (std0.zip cols).mapM (fun (s, col) => StdAdapt.run p s.toFloat32 col)
  match traces with
  | none => some "err:zerodiv"
  | some ts =>
    -- back to one row per call
    let out ← (List.range rows.length).mapM (fun t => ts.mapM (fun tr => tr[t]?))
    some s!"std={fmtList2 (fun (x : Float32) => fmtFloat x.toFloat) out}"

def fmtEvent : FitLoop.Event Float → String
  | .sample v t => s!"s{v}@{fmtFloat t}"
  | .mstep ml b => s!"m{fmtBool ml}{fmtBool b}"
  | .keep b => s!"k{fmtBool b}"
  | .updateT t => s!"T@{fmtFloat t}"

def handleLoop (args : List String) : Option String := do
  let kindS ← kv args "kind"
  let kind ← if kindS == "fit" then some FitLoop.Kind.fit else if kindS == "pers" then some FitLoop.Kind.personalize else none
  let n ← (kv args "niter") >>= parseNat
  let nb ← (kv args "nb") >>= parseNat
  let nv ← (kv args "nvars") >>= parseNat
  let on ← (kv args "on") >>= parseBool
  let t0 ← (kv args "t0") >>= parseFloat
  let p ← (kv args "P") >>= parseInt
  let c ← kv args "na"
  let f ← kv args "frac"
  let clamp ← (kv args "clamp") >>= parseBool
  let count ← if c == "none" then some none else some <$> parseInt c
  let frac ← if f == "none" then some none else some <$> parseFloat f
  let ordS ← kv args "order"
  let rows ← if ordS == "sorted" then some (List.replicate n (List.range nv)) else parseList2 parseNat ordS
  -- the shuffles must be permutations of all the variables (hypothesis `ValidOrder` of the theorems)
  if rows.length != n then some s!"err:order k={rows.length + 1}" else
  let isPerm (r : List Nat) : Bool := r.length == nv && (List.range nv).all (fun v => r.contains v)
  match (rows.zipIdx.find? (fun (r, _) => !isPerm r)) with
  | some (_, i) => some s!"err:order k={i + 1}"
  | none =>
    let order : Nat → List Nat := fun k => (rows[k - 1]?).getD []     -- k = 1 … n, all rows present (checked above)
    let na : Except Err Int := if on then annealCount n count frac else .ok 0
    match na with
    | .error e => some s!"refused {fmtErr e}"
    | .ok na =>
      let cfg : FitLoop.Config Float := ⟨kind, n, nb, ⟨on, t0, p, na⟩, nv⟩
      match init cfg.anneal with
      | .error e => some s!"refused {fmtErr e}"
      | .ok _ =>
        match FitLoop.run cfg clamp order with
        | .ok l => some s!"ok it={fmtList (fun evs => fmtList fmtEvent evs) l ";"}"
        | .error e => some s!"crash {fmtErr e}"

def handle (line : String) : String :=
  match line.splitOn " " with
  | "anneal" :: args => (handleAnneal args).getD "bad-request"
  | "std" :: args => (handleStd args).getD "bad-request"
  | "loop" :: args => (handleLoop args).getD "bad-request"
  | _ => "bad-request"

def main : IO Unit := loop handle
