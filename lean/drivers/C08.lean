import LeaspyVerif.Proto
import LeaspyVerif.Model.Dist
open LeaspyVerif LeaspyVerif.Proto LeaspyVerif.Dist

/-
requests (tensor = `<d1>x<d2>…|f…,f…` row-major, 0-dim shape written `s`; floats are `f<bits>`)
  const                                                   → c=<f> inf=<f>
  normal c=<f> x=<T> loc=<T> scale=<T> [mask=<bits,…>]    → shape=… v=<f,…> jac=<f,…> jacz=<f,…> [sum=<f,…>]
  bern eps=<f> p=<T> y=<T> [mask=…]                       → shape=… v=<f,…> [sum=…]
  weib t=<T> ev=<T> nu=<T> rho=<T> xi=<T> tau=<T> [s=<T>] → shape=… v=… ls=… lh=… tr=… nur=… sum=…
answers `err:shape` when the shapes do not broadcast (RuntimeError in torch), `bad-request` otherwise.
-/

def parseShape (s : String) : Option (List Nat) :=
  if s == "s" then some [] else (s.splitOn "x").mapM parseNat

def parseTensor (s : String) : Option (Tensor Float) :=
  match s.splitOn "|" with
  | [sh, d] => do
    let shape ← parseShape sh
    let data ← parseList parseFloat d
    if data.length == numel shape then some ⟨shape, data⟩ else none
  | _ => none

def fmtShape (s : List Nat) : String :=
  if s.isEmpty then "s" else "x".intercalate (s.map toString)

def parseMask (args : List String) : Option (Option (List Bool)) :=
  match kv args "mask" with
  | none => some none
  | some m => some <$> parseList parseBool m

def sumField (t : Tensor Float) (mask : Option (List Bool)) : String :=
  match sumButFirst t mask with
  | some l => s!" sum={fmtList fmtFloat l}"
  | none => " sum=none"

def handle (line : String) : String :=
  match line.splitOn " " with
  | ["const"] =>
    s!"c={fmtFloat (nllConstantStandard : Float)} inf={fmtFloat (infinity : Float)}"
  | "normal" :: args =>
    (do
      let c ← (kv args "c") >>= parseFloat
      let x ← (kv args "x") >>= parseTensor
      let loc ← (kv args "loc") >>= parseTensor
      let scale ← (kv args "scale") >>= parseTensor
      let mask ← parseMask args
      let f (g : Float → Float → Float → Float) : List Float → Option Float
        | [a, b, d] => some (g a b d)
        | _ => none
      match mapN (f (normalNllWith c)) [x, loc, scale], mapN (f normalNllJac) [x, loc, scale],
            mapN (f normalNllJacZ) [x, loc, scale] with
      | some v, some j, some jz => do
        let vd ← v.data.mapM id
        let jd ← j.data.mapM id
        let jzd ← jz.data.mapM id
        some (s!"shape={fmtShape v.shape} v={fmtList fmtFloat vd} jac={fmtList fmtFloat jd} jacz={fmtList fmtFloat jzd}"
              ++ sumField ⟨v.shape, vd⟩ mask)
      | _, _, _ => some "err:shape").getD "bad-request"
  | "bern" :: args =>
    (do
      let eps ← (kv args "eps") >>= parseFloat
      let p ← (kv args "p") >>= parseTensor
      let y ← (kv args "y") >>= parseTensor
      let mask ← parseMask args
      let f : List Float → Option Float
        | [a, b] => some (bernoulliNll eps a b)
        | _ => none
      match mapN f [p, y] with
      | some v => do
        let vd ← v.data.mapM id
        some (s!"shape={fmtShape v.shape} v={fmtList fmtFloat vd}" ++ sumField ⟨v.shape, vd⟩ mask)
      | none => some "err:shape").getD "bad-request"
  | "weib" :: args =>
    (do
      let t ← (kv args "t") >>= parseTensor
      let ev ← (kv args "ev") >>= parseTensor
      let nu ← (kv args "nu") >>= parseTensor
      let rho ← (kv args "rho") >>= parseTensor
      let xi ← (kv args "xi") >>= parseTensor
      let tau ← (kv args "tau") >>= parseTensor
      let src ← match kv args "s" with
        | none => some none
        | some s => some <$> parseTensor s
      -- per entry: nll, log-survival, log-hazard, t', nu'
      let f : List Float → Option (Float × Float × Float × Float × Float)
        | [t, e, nu, rho, xi, tau] =>
          let ev := e != 0.0
          let tr := reparamEvent t tau
          let nur := nuRep nu xi
          some (weibullNll ev t nu rho xi tau, logSurvival tr nur rho, logHazard ev tr nur rho, tr, nur)
        | [t, e, nu, rho, xi, tau, s] =>
          let ev := e != 0.0
          let tr := reparamEvent t tau
          let nur := nuRepSources nu rho xi s
          some (weibullNllSources ev t nu rho xi tau s, logSurvival tr nur rho, logHazard ev tr nur rho, tr, nur)
        | _ => none
      let ins := [t, ev, nu, rho, xi, tau] ++ (match src with | some s => [s] | none => [])
      match mapN f ins with
      | some r => do
        let rd ← r.data.mapM id
        let col (g : Float × Float × Float × Float × Float → Float) := fmtList fmtFloat (rd.map g)
        let v : Tensor Float := ⟨r.shape, rd.map (fun (q : Float × Float × Float × Float × Float) => q.1)⟩
        some (s!"shape={fmtShape r.shape} v={col (·.1)} ls={col (·.2.1)} lh={col (·.2.2.1)} tr={col (·.2.2.2.1)} nur={col (·.2.2.2.2)}"
              ++ sumField v none)
      | none => some "err:shape").getD "bad-request"
  | _ => "bad-request"

def main : IO Unit := loop handle
