import LeaspyVerif.Proto
import LeaspyVerif.Model.Bench
open LeaspyVerif LeaspyVerif.Proto LeaspyVerif.Bench

/-
requests (one line = one individual's complete history)
  const pt=<last|last-known|max|mean> nf=<n> drop=<0|1> v=<age:x,x,…;age:x,…|_> t=<q,…|_>
        → ip=<x,…> traj=<x,…;x,…|_>          | err:raise            (x = rational or `nan`)
  lme slope=<0|1> mean=<q> std=<q> fe=<q,q> cinv=<q,q,q,q> v=<age:x;age:x;…|_> [t=<q,…|_>]
        → re=<q[,q]> [traj=<q,…>|traj=err]    | err:nonfinite     (no `t=`: random effects only)
  lme1 cinv=<q> zr=<z:r;z:r;…|_>              → re=<q> | err:nonfinite      (one-column generic formula)
-/

def parseOptRat (s : String) : Option (Option Rat) :=
  if s == "nan" then some none else some <$> parseRat s

def fmtOptRat : Option Rat → String
  | none => "nan"
  | some q => fmtRat q

def parseVisit (s : String) : Option (Rat × List (Option Rat)) :=
  match s.splitOn ":" with
  | [a, xs] => do
      let age ← parseRat a
      let row ← parseList parseOptRat xs
      some (age, row)
  | _ => none

def parsePT (s : String) : Option PredType :=
  if s == "last" then some .last
  else if s == "last-known" then some .lastKnown
  else if s == "max" then some .max
  else if s == "mean" then some .mean
  else none

def parsePair (s : String) : Option (Rat × Rat) :=
  match s.splitOn ":" with
  | [a, b] => do
      let x ← parseRat a
      let y ← parseRat b
      some (x, y)
  | _ => none

def handle (line : String) : String :=
  match line.splitOn " " with
  | "const" :: args =>
    (do
      let pt ← (kv args "pt") >>= parsePT
      let nf ← (kv args "nf") >>= parseNat
      let drop ← (kv args "drop") >>= parseBool
      let vs ← (kv args "v") >>= fun s => parseList parseVisit s ";"
      let ts ← (kv args "t") >>= parseList parseRat
      -- shape: every row has exactly nf entries
      if vs.any (fun v => v.2.length != nf) then none
      else
        let vs' := if drop then dropFullNan vs else vs
        match constEstimate pt nf vs' ts with
        | none => some "err:raise"
        | some (ip, traj) => some s!"ip={fmtList fmtOptRat ip} traj={fmtList2 fmtOptRat traj}").getD "bad-request"
  | "lme" :: args =>
    (do
      let slope ← (kv args "slope") >>= parseBool
      let m ← (kv args "mean") >>= parseRat
      let sd ← (kv args "std") >>= parseRat
      let fe ← (kv args "fe") >>= parseList parseRat
      let ci ← (kv args "cinv") >>= parseList parseRat
      let vs ← (kv args "v") >>= fun s => parseList parseVisit s ";"
      let ts ← match kv args "t" with
        | none => some none
        | some s => some <$> parseList parseRat s
      match fe, ci with
      | [f0, f1], [c00, c01, c10, c11] =>
        let p : LmeParams := ⟨m, sd, f0, f1⟩
        match column 0 vs with
        | none => none
        | some c =>
          if vs.any (fun v => v.2.length != 1) then none
          else
            match lmeRandomEffects p slope ⟨c00, c01, c10, c11⟩ c with
            | none => some "err:nonfinite"
            | some re =>
              match ts with
              | none => some s!"re={fmtList fmtRat re}"
              | some ts =>
                match lmeTraj p slope re ts with
                | none => some s!"re={fmtList fmtRat re} traj=err"
                | some tr => some s!"re={fmtList fmtRat re} traj={fmtList fmtRat tr}"
      | _, _ => none).getD "bad-request"
  | "lme1" :: args =>
    (do
      let ci ← (kv args "cinv") >>= parseRat
      let zr ← (kv args "zr") >>= fun s => parseList parsePair s ";"
      match lmeGeneric1 ci zr with
      | none => some "err:nonfinite"
      | some b => some s!"re={fmtRat b}").getD "bad-request"
  | _ => "bad-request"

def main : IO Unit := loop handle
